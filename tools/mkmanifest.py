#!/usr/bin/env python3
"""Regenerates /verif/MANIFEST.json from props/*.json (one meta file per claimed property)."""
import json, glob, os, subprocess
V = os.path.dirname(os.path.dirname(os.path.abspath(__file__)))
ids = [json.loads(l)["id"] for l in open(os.path.join(V, "properties.jsonl"))]
metas = {}
for p in glob.glob(os.path.join(V, "props", "C*.json")):
    m = json.load(open(p)); metas[m["id"]] = m
try:
    commits = subprocess.check_output(["git", "-C", "/repo", "log", "--format=%H %s", "711f762..HEAD"]).decode().splitlines()
except Exception:
    commits = []
hook_commits = [c.split()[0] for c in commits if not c.split(" ", 1)[1].startswith("fix:")]  # every commit that is not a repair is a guarded hook commit
checks, na = [], []
for i in ids:
    m = metas.get(i)
    if not m or m.get("not_applicable"):
        na.append({"property_id": i, "reason": (m or {}).get("not_applicable", "check not built yet in this round; see DESIGN.md")})
        continue
    checks.append({
        "property_id": i,
        "quick_cmd": "./check %s --tier quick" % i,
        "thorough_cmd": "./check %s --tier thorough" % i,
        "evidence_file": "evidence/%s.json" % i,
        "replay_cmd_template": "./check %s --replay {path}" % i,
        "engine": "coq+harness",
        "level_claimed": {"category": "proof", "text": m["level_text"], "design_ref": m.get("design_ref", "DESIGN.md §4")},
        "level_note": m["level_note"],
        "technique": m["technique"],
    })
man = {
    "version": 1,
    "setup_cmd": "./setup.sh",
    "hooks": {"guard": "verif", "enable": "go build -tags verif (harness module replaces github.com/syndtr/goleveldb => /repo)",
              "baseline_off_cmd": "cd /repo && GOFLAGS=-mod=mod go test -vet=off -count=1 -timeout 25m ./...",
              "source_commits": hook_commits, "add_only": True},
    "engines": [{"name": "coq+harness", "path": "check", "serves_properties": [c["property_id"] for c in checks],
                 "kind_free_text": "Coq 8.16 development (coq/theories: models, proofs, Props/Cxx.v) + Go harness (harness/cmd/cxx) producing observations evaluated against the model inside Coq; driver ./check"}],
    "checks": checks,
    "not_applicable": na,
    "notes": "See DESIGN.md. Every check rebuilds the harness from /repo's working tree, regenerates Gen/Consts.v from the Go source, rebuilds the property's theorems, runs the property oracle on the implementation and evaluates the correspondence cases inside Coq.",
}
json.dump(man, open(os.path.join(V, "MANIFEST.json"), "w"), indent=1)
print("MANIFEST.json: %d checks, %d not_applicable" % (len(checks), len(na)))
