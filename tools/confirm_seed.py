#!/usr/bin/env python3
"""confirm_seed.py <outdir/Cxx> <scratch-worktree> [--suite]
Confirms a seeded change independently: patch applies and compiles; the demonstration fails with it and passes
without it; optionally the whole existing suite passes with it.  Stores everything under /verif/seeded/<name>/."""
import sys, os, subprocess, shutil, json, re, time
src, wt = sys.argv[1], sys.argv[2]
suite = '--suite' in sys.argv
pid = os.path.basename(src.rstrip('/'))
name = pid + (('_' + sys.argv[sys.argv.index('--name')+1]) if '--name' in sys.argv else '')
env = dict(os.environ, GOFLAGS='-mod=mod', GOPROXY='off', GOSUMDB='off', GOTOOLCHAIN='local')
def sh(cmd, timeout=1800):
    p = subprocess.run(cmd, shell=True, cwd=wt, env=env, stdout=subprocess.PIPE, stderr=subprocess.STDOUT, timeout=timeout)
    return p.returncode, p.stdout.decode('utf-8', 'replace')
run = open(os.path.join(src, 'RUN.txt')).read().strip().split('#')[0].strip().replace('<outdir>', os.path.dirname(src.rstrip('/')))
run = re.sub(r'^From the worktree root:\s*', '', run)
run = re.sub(r'\s{2,}\([^()]*\)\s*$', '', run)
log = {}
sh('git checkout -- . && git clean -fdq')
rc, out = sh('git apply --check %s/patch.diff && git apply %s/patch.diff && go build ./... ' % (src, src)); log['apply_build_rc'] = rc
rc1, out1 = sh(run, 900); log['demo_with_change_rc'] = rc1; log['demo_with_change_tail'] = out1[-600:]
if suite:
    sh('git clean -fdq')   # the demonstration itself is not part of the existing suite
    rcs, outs = sh('go test -vet=off -count=1 -timeout 25m ./leveldb/... 2>&1 | tail -15', 2400); log['suite_with_change'] = outs[-900:]
    log['suite_with_change_ok'] = ('FAIL' not in outs)
sh('git apply -R %s/patch.diff' % src)
suite_done = True
rc2, out2 = sh(run, 900); log['demo_without_change_rc'] = rc2; log['demo_without_change_tail'] = out2[-300:]
sh('git checkout -- . && git clean -fdq')
dst = os.path.join('/verif/seeded', name)
os.makedirs(dst, exist_ok=True)
for f in os.listdir(src):
    if f.endswith('.go') or f in ('patch.diff', 'RUN.txt', 'NOTES.md'):
        shutil.copy(os.path.join(src, f), os.path.join(dst, f if not f.endswith('.go') else f + '.txt'))
notes = open(os.path.join(src, 'NOTES.md')).read() if os.path.exists(os.path.join(src, 'NOTES.md')) else ''
meta = {'property': pid, 'name': name, 'confirmed': log, 'confirmed_at': time.strftime('%Y-%m-%d %H:%M'),
        'demo_file_note': 'demonstration stored with a .txt suffix so that it is not compiled as part of /verif',
        'needs_to_manifest': '', 'checks_run': {}}
m = re.search(r'(?is)(needs|trigger|manifest)[^\n]*\n(.{0,600})', notes)
meta['needs_to_manifest'] = (m.group(0)[:700] if m else notes[:700])
json.dump(meta, open(os.path.join(dst, 'meta.json'), 'w'), indent=1)
ok = log['apply_build_rc'] == 0 and rc1 != 0 and rc2 == 0 and (not suite or log['suite_with_change_ok'])
print(name, 'CONFIRMED' if ok else 'NOT-CONFIRMED', json.dumps({k: v for k, v in log.items() if k.endswith('rc') or k.endswith('ok')}))
