#!/usr/bin/env python3
"""run_seed.py <seeded-name> <check ids...>  — applies seeded/<name>/patch.diff to /repo, runs the listed quick checks,
reverts /repo, and records which checks raised a violation in seeded/<name>/meta.json."""
import sys, os, subprocess, json, re
name, checks = sys.argv[1], sys.argv[2:]
d = os.path.join('/verif/seeded', name)
patch = os.path.join(d, 'patch.diff')
assert subprocess.run(['git', '-C', '/repo', 'status', '--porcelain'], capture_output=True, text=True).stdout.strip() == '', '/repo not clean'
r = subprocess.run(['git', '-C', '/repo', 'apply', patch]); assert r.returncode == 0, 'patch does not apply'
res = {}
try:
    for c in checks:
        p = subprocess.run(['./check', c], cwd='/verif', capture_output=True, text=True, env=dict(os.environ, VERIF_SEED=os.environ.get('VERIF_SEED', '1')))
        viol = [l for l in p.stdout.splitlines() if l.startswith('VIOLATION')]
        why = [l for l in p.stdout.splitlines() if l.startswith('[check] (P)') or l.startswith('[check] (K)') or 'proof obligations' in l]
        res[c] = {'exit': p.returncode, 'violations': len(viol), 'first': (why[0][:300] if why else (viol[0][:200] if viol else ''))}
        print(name, c, 'exit', p.returncode, 'violations', len(viol), (why[0][:160] if why else ''))
finally:
    subprocess.run(['git', '-C', '/repo', 'checkout', '--', '.'])
m = json.load(open(os.path.join(d, 'meta.json')))
m.setdefault('checks_run', {}).update(res)
json.dump(m, open(os.path.join(d, 'meta.json'), 'w'), indent=1)
