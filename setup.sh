#!/bin/bash
# setup: builds the Coq development from clean and all harness commands, offline.
set -e
cd "$(dirname "$0")"
export GOFLAGS=-mod=mod GOPROXY=off GOSUMDB=off GOTOOLCHAIN=local CGO_ENABLED=0
mkdir -p build evidence replays
REPO=${VERIF_REPO:-/repo}
sed "s#replace github.com/syndtr/goleveldb => .*#replace github.com/syndtr/goleveldb => $REPO#" harness/go.mod > build/go.mod
cp $REPO/go.sum build/go.sum
MODF=$PWD/build/go.mod
(cd harness && go build -modfile=$MODF -o ../build/constgen ./cmd/constgen)
./build/constgen $REPO > coq/theories/Gen/Consts.v.new 2>/dev/null || true
if ! cmp -s coq/theories/Gen/Consts.v.new coq/theories/Gen/Consts.v; then mv coq/theories/Gen/Consts.v.new coq/theories/Gen/Consts.v; else rm -f coq/theories/Gen/Consts.v.new; fi
(cd coq && { echo "-Q theories GL"; find theories -name '*.v' | sort; } > _CoqProject && coq_makefile -f _CoqProject -o Makefile > /dev/null && ulimit -s unlimited && timeout 7200 make -j16 > ../build/coq_build.log 2>&1 || { tail -50 ../build/coq_build.log; exit 1; })
for d in harness/cmd/c*/; do n=$(basename $d); [ "$n" = constgen ] && continue; (cd harness && go build -modfile=$MODF -tags verif -o ../build/$n ./cmd/$n); done
echo "setup ok"
