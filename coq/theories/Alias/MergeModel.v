(* Alias/MergeModel.v — ownership of the callers' buffers on goleveldb's WRITE-MERGE path (property C20, part a).
   Model file: definitions only (proofs in Alias/MergeProofs.v).

   The protocol is not re-modelled: it is the transition system of Conc/WriteMerge.v (property C10; db_write.go
   Write, putRec, writeLocked, unlockWrite), whose runs are compared with the event traces of the implementation by
   check C10 on every run.  This file lays the MEMORY of the callers over it:

     mbuf i     the caller memory of writer i that the DB reads during the call: the data of its Batch object (Write), or the
                key and value slices wrapped by writeMerge{key, value} (Put/Delete).  One byte string per writer.
     marg i     ghost: what that memory held when the call was made (ACall).
     mheld i    ourBatch of writer i's writeLocked frame: the db.batchPool-ed Batch it took (putRec: before writeLocked;
                Write: at the first merged Put/Delete), None if it has none.
     mpool      db.batchPool (a sync.Pool of Batch objects).
     mpb b      the records of pooled batch b: (origin writer, bytes copied in by Batch.appendRec).
     mjournal   what writeBatchesWithHeader copied into the journal record buffer (journal.Writer.Write copies),
     mmem       what Batch.putMem -> memdb.Put copied into the write buffer: (origin writer, bytes).

   Which action of the protocol READS which caller's memory ([mreads]) is read off db_write.go:
     ASelMerge i l   the leader l receives writeMerge{...} of i and (Write) reads incoming.batch.internalLen or
                     (Put/Delete) len(key)+len(value) and, when it accepts, ourBatch.appendRec(kt, key, value) COPIES
                     key and value into its pooled batch, BEFORE db.writeMergedC <- true;
     ASelLock i, AHandover l o (the new lock owner continues in putRec): batch.appendRec(kt, key, value) copies;
     AFlushOk/AFlushFail l, ARotate* l: batch.internalLen of the leader's own batch;
     AJournalOk/AJournalFail l: writeBatchesWithHeader reads batch.data and batchesLen reads len(batch.index) of EVERY
                     batch of the group: the leader's own and every merged Write caller's Batch (merged Put/Delete
                     callers are in ourBatch already);
     AApply l        Batch.putMem of every batch of the group;  APublish l: batchesLen(batches);
     AAck, AHandover (as far as the sender is concerned), ARelease, AReturn: nothing.
   The client may overwrite its memory only while it is in control: before the call (WIdle) and after the call
   returned (WDone) — [MScribble].

   [mvariant] switches the two realistic re-orderings on, for the refutations:
     v_apply_late    "merged writers acknowledged before putMem": the putMem loop runs after the acknowledgements;
     v_journal_late  the leader keeps the merged batches' data by reference and copies it into the journal record only
                     after the acknowledgements (a lazily appending journal buffer).
   The code is [code_variant] (both off).

   Outside the model: the Go scheduler (an action is atomic) and the garbage collector; the bytes are opaque (record
   framing is C12's, the batch encoding C11's). *)
From Coq Require Import List NArith Bool Arith.
From GL Require Import Base.Bytes Conc.WriteMerge.
Import ListNotations.
Local Open Scope nat_scope.

Record mvariant := { v_apply_late : bool; v_journal_late : bool }.
Definition code_variant : mvariant := {| v_apply_late := false; v_journal_late := false |}.

Record mstate := {
  mb : WriteMerge.state;
  mbuf : list bytes;
  marg : list bytes;
  mheld : list (option nat);
  mpool : list nat;
  mpb : list (list (nat * bytes));
  mjournal : list (nat * bytes);
  mmem : list (nat * bytes)
}.

Inductive maction :=
| MBase (a : action)                 (* an action of the protocol *)
| MScribble (i : nat) (g : bytes)    (* the client overwrites its memory with g *)
| MPoolDrop (k : nat).               (* sync.Pool drops its k-th item (garbage collection) *)

Definition minit (n : nat) : mstate :=
  {| mb := WriteMerge.init n; mbuf := repeat [] n; marg := repeat [] n; mheld := repeat None n;
     mpool := []; mpb := []; mjournal := []; mmem := [] |}.

Definition wpc_of (b : WriteMerge.state) (i : nat) : wpc :=
  match getw b i with Some w => pc w | None => WIdle end.
Definition wput_of (b : WriteMerge.state) (i : nat) : bool :=
  match getw b i with Some w => wput w | None => false end.

(* the call of this writer is in progress: it was made and has not returned, nor been acknowledged *)
Definition in_call (p : wpc) : bool :=
  match p with WIdle | WRet _ | WDone _ => false | _ => true end.
(* the client is in control of its memory *)
Definition client_turn (p : wpc) : bool :=
  match p with WIdle | WDone _ => true | _ => false end.

Definition buf_of (s : mstate) (i : nat) : bytes := nth i (mbuf s) [].
Definition arg_of (s : mstate) (i : nat) : bytes := nth i (marg s) [].
Definition held_of (s : mstate) (i : nat) : option nat := nth i (mheld s) None.
Definition pb_of (s : mstate) (b : nat) : list (nat * bytes) := nth b (mpb s) [].

(* the local variables of the leader's writeLocked frame, wherever it is *)
Definition ctx_of (p : wpc) : option lctx :=
  match p with
  | WLMerge c | WLReply c _ | WLJournal c | WLApply c | WLPublish c | WLRotate c | WLUnlock c _ _ => Some c
  | _ => None
  end.

(* the members of the group whose Batch is caller memory: those that came through Write *)
Definition batch_owners (b : WriteMerge.state) (c : lctx) : list nat :=
  filter (fun x => negb (wput_of b x)) (lbatches c).

Definition own_if_write (b : WriteMerge.state) (l : nat) : list nat := if wput_of b l then [] else [l].

(* whose caller memory the DB reads in this action *)
Definition mreads (b : WriteMerge.state) (a : action) : list nat :=
  match a with
  | ASelMerge i l => [i]
  | ASelLock i => if wput_of b i then [i] else []
  | AHandover l o => if wput_of b o then [o] else []
  | AFlushOk l _ | AFlushFail l _ | ARotateSkip l | ARotateOk l | ARotateFail l _ => own_if_write b l
  | AJournalOk l | AJournalFail l _ | AApply l | APublish l =>
      match ctx_of (wpc_of b l) with Some c => batch_owners b c | None => [] end
  | _ => []
  end.

(* what a walk over the group's batches copies: the caller batches as they are NOW, then the pooled batch *)
Definition group_records (s : mstate) (l : nat) (c : lctx) : list (nat * bytes) :=
  map (fun x => (x, buf_of s x)) (batch_owners (mb s) c)
  ++ match held_of s l with Some b => pb_of s b | None => [] end.

Definition set_mb (s : mstate) (b : WriteMerge.state) : mstate :=
  {| mb := b; mbuf := mbuf s; marg := marg s; mheld := mheld s; mpool := mpool s; mpb := mpb s;
     mjournal := mjournal s; mmem := mmem s |}.
Definition set_mbuf (s : mstate) (x : list bytes) : mstate :=
  {| mb := mb s; mbuf := x; marg := marg s; mheld := mheld s; mpool := mpool s; mpb := mpb s;
     mjournal := mjournal s; mmem := mmem s |}.
Definition set_marg (s : mstate) (x : list bytes) : mstate :=
  {| mb := mb s; mbuf := mbuf s; marg := x; mheld := mheld s; mpool := mpool s; mpb := mpb s;
     mjournal := mjournal s; mmem := mmem s |}.
Definition set_pool (s : mstate) (h : list (option nat)) (p : list nat) (pb : list (list (nat * bytes))) : mstate :=
  {| mb := mb s; mbuf := mbuf s; marg := marg s; mheld := h; mpool := p; mpb := pb;
     mjournal := mjournal s; mmem := mmem s |}.
Definition set_logs (s : mstate) (j m : list (nat * bytes)) : mstate :=
  {| mb := mb s; mbuf := mbuf s; marg := marg s; mheld := mheld s; mpool := mpool s; mpb := mpb s;
     mjournal := j; mmem := m |}.

(* batch := db.batchPool.Get(); batch.Reset(): a pooled batch (emptied) or a new one, for writer l *)
Definition pb_take (s : mstate) (l : nat) : mstate * nat :=
  match mpool s with
  | b :: p' => (set_pool s (upd (mheld s) l (Some b)) p' (upd (mpb s) b []), b)
  | [] => (set_pool s (upd (mheld s) l (Some (length (mpb s)))) [] (mpb s ++ [[]]), length (mpb s))
  end.

(* b.appendRec(kt, key, value): copy *)
Definition pb_append (s : mstate) (b : nat) (x : nat) : mstate :=
  set_pool s (mheld s) (mpool s) (upd (mpb s) b (pb_of s b ++ [(x, buf_of s x)])).

(* putRec after it owns the lock: take a pooled batch and copy key and value in *)
Definition own_put (s : mstate) (i : nat) : mstate :=
  if wput_of (mb s) i then let (s1, b) := pb_take s i in pb_append s1 b i else s.

(* defer db.batchPool.Put(ourBatch), run when writeLocked returns *)
Definition pb_giveback (s : mstate) (l : nat) : mstate :=
  match held_of s l with
  | Some b => set_pool s (upd (mheld s) l None) (b :: mpool s) (mpb s)
  | None => s
  end.

Definition is_reply (p : wpc) : bool := match p with WLReply _ _ => true | _ => false end.

(* what the re-ordered variants do when unlockWrite is over *)
Definition late_work (v : mvariant) (s : mstate) (l : nat) : mstate :=
  match wpc_of (mb s) l with
  | WLUnlock c _ e =>
      let s1 := if v_journal_late v then set_logs s (mjournal s ++ group_records s l c) (mmem s) else s in
      if v_apply_late v && res_eqb e ROk then set_logs s1 (mjournal s1) (mmem s1 ++ group_records s1 l c) else s1
  | _ => s
  end.

(* the memory effect of a protocol action, computed in the state BEFORE it; b' is the protocol state after it *)
Definition meffect (v : mvariant) (s : mstate) (a : action) (b' : WriteMerge.state) : mstate :=
  match a with
  | ACall i _ _ _ => set_marg s (upd (marg s) i (buf_of s i))
  | ASelLock i => own_put s i
  | ASelMerge i l =>
      if is_reply (wpc_of b' l) && wput_of (mb s) i then
        let (s1, b) := match held_of s l with Some b => (s, b) | None => pb_take s l end in
        pb_append s1 b i
      else s
  | AFlushFail l _ => set_pool s (upd (mheld s) l None) (mpool s) (mpb s)     (* returns before the defer: dropped *)
  | AJournalOk l | AJournalFail l _ =>
      match ctx_of (wpc_of (mb s) l) with
      | Some c => if v_journal_late v then s else set_logs s (mjournal s ++ group_records s l c) (mmem s)
      | None => s
      end
  | AApply l =>
      match ctx_of (wpc_of (mb s) l) with
      | Some c => if v_apply_late v then s else set_logs s (mjournal s) (mmem s ++ group_records s l c)
      | None => s
      end
  | AHandover l o => own_put (late_work v s l) o
  | ARelease l => late_work v s l
  | AReturn i => pb_giveback s i
  | _ => s
  end.

Section Step.
Variable mp : mparams.
Variable v : mvariant.

Definition mstep (s : mstate) (a : maction) : option mstate :=
  match a with
  | MBase x =>
      match WriteMerge.step mp (mb s) x with
      | Some b' => Some (set_mb (meffect v s x b') b')
      | None => None
      end
  | MScribble i g =>
      match getw (mb s) i with
      | Some w => if client_turn (pc w) then Some (set_mbuf s (upd (mbuf s) i g)) else None
      | None => None
      end
  | MPoolDrop k =>
      if k <? length (mpool s)
      then Some (set_pool s (mheld s) (firstn k (mpool s) ++ skipn (S k) (mpool s)) (mpb s))
      else None
  end.

Fixpoint mrun (s : mstate) (l : list maction) : option mstate :=
  match l with
  | [] => Some s
  | a :: l' => match mstep s a with Some s' => mrun s' l' | None => None end
  end.

Definition mreachable (n : nat) (s : mstate) : Prop := exists l, mrun (minit n) l = Some s.
End Step.

(* every copy the DB made is a copy of what the caller passed *)
Definition copies_are_args (s : mstate) : Prop :=
  forall x d, In (x, d) (mjournal s ++ mmem s) -> d = arg_of s x.

(* the pooled batches in use and the pooled batches in the pool *)
Fixpoint somes {A} (l : list (option A)) : list A :=
  match l with
  | [] => []
  | Some x :: t => x :: somes t
  | None :: t => somes t
  end.

Definition pooled_batches_single_owner (s : mstate) : Prop := NoDup (mpool s ++ somes (mheld s)).
