(* Alias/ContentProofs.v — lemmas about the list-level functions of the ownership model:
   lookups, dedupe, the table writer (blocks, chunks), the canonical merged view of iterators. *)
From GL Require Import Alias.Heap Alias.AliasModel Alias.HeapProofs Base.BytesProofs Codec.BytesCmpProofs.
From Coq Require Import Arith Lia Sorting.Sorted.
Local Open Scope nat_scope.

Lemma beq_refl a : beq a a = true.
Proof. apply beq_eq; auto. Qed.

Lemma beq_false a b : beq a b = false <-> a <> b.
Proof.
  split.
  - intros H E. apply beq_eq in E. congruence.
  - intros H. destruct (beq a b) eqn:E; auto. apply beq_eq in E. contradiction.
Qed.

Lemma beq_sym a b : beq a b = beq b a.
Proof.
  destruct (beq a b) eqn:E.
  - apply beq_eq in E. subst. symmetry. apply beq_refl.
  - symmetry. apply beq_false. apply beq_false in E. congruence.
Qed.

(* ---------------------------------------------------------------- assoc / glookup *)

Definition lookup_eq (a b : amap) : Prop := forall k, glookup k a = glookup k b.

Lemma assoc_app {A} k (a b : list (bytes * A)) :
  assoc k (a ++ b) = match assoc k a with Some x => Some x | None => assoc k b end.
Proof.
  induction a as [|[k' x] a IH]; simpl; auto.
  destruct (beq k' k); auto.
Qed.

Lemma glookup_app k a b :
  glookup k (a ++ b) = match assoc k a with Some (Some v) => Some v | Some None => None | None => glookup k b end.
Proof.
  unfold glookup. rewrite assoc_app. destruct (assoc k a) as [[v|]|]; auto.
Qed.

Lemma lookup_eq_refl a : lookup_eq a a.
Proof. intros k; auto. Qed.

Lemma lookup_eq_trans a b c : lookup_eq a b -> lookup_eq b c -> lookup_eq a c.
Proof. intros H1 H2 k. rewrite H1; auto. Qed.

Lemma lookup_eq_sym a b : lookup_eq a b -> lookup_eq b a.
Proof. intros H k; auto. Qed.

Lemma lookup_eq_app_r a b b' : lookup_eq b b' -> lookup_eq (a ++ b) (a ++ b').
Proof. intros H k. rewrite !glookup_app. rewrite H. auto. Qed.

Lemma lookup_eq_cons e b b' : lookup_eq b b' -> lookup_eq (e :: b) (e :: b').
Proof. intros H. apply (lookup_eq_app_r [e]); auto. Qed.

Lemma assoc_filter_ne {A} k k0 (l : list (bytes * A)) :
  assoc k (filter (fun e => negb (beq (fst e) k0)) l) = if beq k0 k then None else assoc k l.
Proof.
  induction l as [|[k' a] l IH]; simpl.
  - destruct (beq k0 k); auto.
  - destruct (beq k' k0) eqn:E0; simpl.
    + apply beq_eq in E0. subst k'. rewrite IH. destruct (beq k0 k); auto.
    + rewrite IH. destruct (beq k' k) eqn:E1; auto.
      apply beq_eq in E1. subst k'. rewrite beq_sym, E0. auto.
Qed.

Lemma assoc_dedupe {A} k (l : list (bytes * A)) : assoc k (dedupe l) = assoc k l.
Proof.
  induction l as [|[k' a] l IH]; simpl; auto.
  destruct (beq k' k) eqn:E; auto.
  rewrite assoc_filter_ne, E. auto.
Qed.

Lemma glookup_filter_ne k k0 (l : amap) :
  glookup k (filter (fun e => negb (beq (fst e) k0)) l) = if beq k0 k then None else glookup k l.
Proof. unfold glookup. rewrite assoc_filter_ne. destruct (beq k0 k); auto. Qed.

Lemma drop_tomb_filter {A} (P : bytes * option A -> bool) l : drop_tomb (filter P l) = filter P (drop_tomb l).
Proof.
  unfold drop_tomb. induction l as [|x l IH]; simpl; auto.
  destruct (P x) eqn:EP; simpl; destruct (snd x); simpl; rewrite ?EP, ?IH; auto.
Qed.

Lemma glookup_drop_tomb_dedupe k (l : amap) : glookup k (drop_tomb (dedupe l)) = glookup k l.
Proof.
  induction l as [|[k' a] l IH].
  - reflexivity.
  - cbn [dedupe]. unfold drop_tomb at 1. cbn [filter snd].
    fold (@drop_tomb bytes (filter (fun e : bytes * option bytes => negb (beq (fst e) k')) (dedupe l))).
    rewrite drop_tomb_filter.
    destruct a as [v|].
    + unfold glookup at 1 2. cbn [assoc]. destruct (beq k' k) eqn:E; auto.
      fold (glookup k (filter (fun e : bytes * option bytes => negb (beq (fst e) k')) (drop_tomb (dedupe l)))).
      fold (glookup k l). rewrite glookup_filter_ne, E. auto.
    + rewrite glookup_filter_ne. unfold glookup at 2. cbn [assoc].
      destruct (beq k' k) eqn:E; auto.
Qed.

Lemma lookup_eq_drop_tomb_dedupe (l : amap) : lookup_eq (drop_tomb (dedupe l)) l.
Proof. intros k; apply glookup_drop_tomb_dedupe. Qed.

(* ---------------------------------------------------------------- the table writer *)

Definition tab_content (t : table) : amap := flat_map (fun fb => resolve (fimg fb) (fds fb)) t.

Lemma mk_block_from_ok es : forall p,
  resolve (p ++ snd (mk_block_from (length p) es)) (fst (mk_block_from (length p) es)) = es.
Proof.
  induction es as [|[k ov] es IH]; intros p; simpl; auto.
  destruct ov as [v|]; simpl.
  - destruct (mk_block_from (length p + length (k ++ v)) es) as [ds img] eqn:E. simpl.
    specialize (IH (p ++ k ++ v)). rewrite app_length in IH. rewrite E in IH. simpl in IH.
    rewrite <- !app_assoc in IH. rewrite <- !app_assoc.
    f_equal; auto.
    unfold dkey, dval; simpl. f_equal.
    + apply sub_prefix_app.
    + f_equal. replace (p ++ k ++ v ++ img) with ((p ++ k) ++ v ++ img) by (rewrite <- !app_assoc; auto).
      replace (length p + length k) with (length (p ++ k)) by (rewrite app_length; auto).
      apply sub_prefix_app.
  - destruct (mk_block_from (length p + length k) es) as [ds img] eqn:E. simpl.
    specialize (IH (p ++ k)). rewrite app_length in IH. rewrite E in IH. simpl in IH.
    rewrite <- !app_assoc in IH.
    f_equal; auto.
    unfold dkey, dval; simpl. f_equal. apply sub_prefix_app.
Qed.

Lemma mk_block_ok es : resolve (fimg (mk_block es)) (fds (mk_block es)) = es.
Proof. exact (mk_block_from_ok es []). Qed.

Lemma chunks_concat {A} n : forall fuel (l : list A), length l <= fuel -> concat (chunks n fuel l) = l.
Proof.
  induction fuel as [|f IH]; intros l H.
  - destruct l; simpl in *; auto; lia.
  - destruct l as [|x l]; auto.
    cbn [chunks concat]. rewrite IH.
    + apply firstn_skipn.
    + rewrite skipn_length. simpl in *. lia.
Qed.

Lemma build_table_ok n es : tab_content (build_table n es) = es.
Proof.
  unfold tab_content, build_table.
  rewrite flat_map_concat_map, map_map.
  rewrite (map_ext _ (fun x => x)) by (intros; apply mk_block_ok).
  rewrite map_id. apply chunks_concat; auto.
Qed.

(* ---------------------------------------------------------------- canon: parametricity *)

Definition pmap {A B} (f : A -> B) (l : list (bytes * A)) : list (bytes * B) := map (fun x => (fst x, f (snd x))) l.

Lemma filter_pmap {A B} (f : A -> B) k (l : list (bytes * A)) :
  filter (fun e => negb (beq (fst e) k)) (pmap f l) = pmap f (filter (fun e => negb (beq (fst e) k)) l).
Proof.
  induction l as [|x l IH]; simpl; auto.
  destruct (negb (beq (fst x) k)); simpl; rewrite IH; auto.
Qed.

Lemma dedupe_pmap {A B} (f : A -> B) (l : list (bytes * A)) : dedupe (pmap f l) = pmap f (dedupe l).
Proof.
  induction l as [|[k a] l IH]; simpl; auto.
  rewrite IH, filter_pmap. auto.
Qed.

Lemma live_pmap {A B} (f : A -> B) (l : list (bytes * option A)) : live (pmap (option_map f) l) = pmap f (live l).
Proof.
  induction l as [|[k [a|]] l IH]; simpl; auto. rewrite IH; auto.
Qed.

Lemma insert_pmap {A B} (f : A -> B) x (l : list (bytes * A)) :
  insert_sorted (fst x, f (snd x)) (pmap f l) = pmap f (insert_sorted x l).
Proof.
  induction l as [|y l IH]; simpl; auto.
  destruct (bcompare (fst x) (fst y)); simpl; auto. rewrite IH; auto.
Qed.

Lemma sort_pmap {A B} (f : A -> B) (l : list (bytes * A)) : sort_keys (pmap f l) = pmap f (sort_keys l).
Proof.
  induction l as [|x l IH]; simpl; auto.
  unfold sort_keys in *. simpl. rewrite IH. apply insert_pmap.
Qed.

Lemma canon_pmap {A B} (f : A -> B) (l : list (bytes * option A)) :
  canon (pmap (option_map f) l) = pmap f (canon l).
Proof. unfold canon. rewrite dedupe_pmap, live_pmap, sort_pmap. auto. Qed.

Lemma pmap_pmap {A B C} (f : A -> B) (g : B -> C) (l : list (bytes * A)) : pmap g (pmap f l) = pmap (fun a => g (f a)) l.
Proof. unfold pmap. rewrite map_map. auto. Qed.

Lemma pmap_ext {A B} (f g : A -> B) (l : list (bytes * A)) :
  (forall x, In x l -> f (snd x) = g (snd x)) -> pmap f l = pmap g l.
Proof.
  intros H. unfold pmap. apply map_ext_in. intros x Hx. rewrite H; auto.
Qed.

Lemma map_fst_pmap {A B} (f : A -> B) (l : list (bytes * A)) : map fst (pmap f l) = map fst l.
Proof. unfold pmap. rewrite map_map. auto. Qed.

(* elements of the canonical view come from the input *)
Lemma in_filter_ne {A} k (x : bytes * A) l : In x (filter (fun e => negb (beq (fst e) k)) l) -> In x l.
Proof. intros H. apply filter_In in H. tauto. Qed.

Lemma in_dedupe {A} (x : bytes * A) l : In x (dedupe l) -> In x l.
Proof.
  induction l as [|[k a] l IH]; simpl; auto.
  intros [H|H]; auto. right. apply IH. eapply in_filter_ne; eauto.
Qed.

Lemma in_live {A} k (a : A) l : In (k, a) (live l) -> In (k, Some a) l.
Proof.
  induction l as [|[k' [a'|]] l IH]; simpl; auto.
  - intros [H|H]; [left; congruence|right; auto].
Qed.

Lemma in_insert {A} (x y : bytes * A) l : In y (insert_sorted x l) -> y = x \/ In y l.
Proof.
  induction l as [|z l IH]; simpl.
  - intros [H|[]]; auto.
  - destruct (bcompare (fst x) (fst z)); simpl; intros H.
    + destruct H as [H|H]; auto.
    + destruct H as [H|H]; auto.
    + destruct H as [H|H]; auto. apply IH in H. tauto.
Qed.

Lemma in_sort {A} (y : bytes * A) l : In y (sort_keys l) -> In y l.
Proof.
  induction l as [|x l IH]; simpl; auto.
  intros H. apply in_insert in H. destruct H; auto.
Qed.

Lemma in_canon {A} k (a : A) l : In (k, a) (canon l) -> In (k, Some a) l.
Proof. intros H. apply in_dedupe, in_live, in_sort. exact H. Qed.

(* ---------------------------------------------------------------- canon: canonicity *)

Definition klt {A} (a b : bytes * A) : Prop := bcompare (fst a) (fst b) = Lt.

Lemma notin_filter_ne {A} k (l : list (bytes * A)) : ~ In k (map fst (filter (fun e => negb (beq (fst e) k)) l)).
Proof.
  intros H. apply in_map_iff in H as [x [E H]]. apply filter_In in H as [_ H].
  subst k. rewrite beq_refl in H. discriminate.
Qed.

Lemma nodup_filter {A} (P : bytes * A -> bool) l : NoDup (map fst l) -> NoDup (map fst (filter P l)).
Proof.
  induction l as [|x l IH]; simpl; auto.
  intros H. inversion H; subst. destruct (P x); simpl; auto.
  constructor; auto. intros Hin. apply H2.
  apply in_map_iff in Hin as [y [E Hy]]. apply filter_In in Hy as [Hy _].
  apply in_map_iff. exists y; auto.
Qed.

Lemma nodup_dedupe {A} (l : list (bytes * A)) : NoDup (map fst (dedupe l)).
Proof.
  induction l as [|[k a] l IH]; simpl; constructor.
  - apply notin_filter_ne.
  - apply nodup_filter; auto.
Qed.

Lemma map_fst_live_incl {A} (l : list (bytes * option A)) k : In k (map fst (live l)) -> In k (map fst l).
Proof.
  induction l as [|[k' [a|]] l IH]; simpl; auto.
  intros [H|H]; auto.
Qed.

Lemma nodup_live {A} (l : list (bytes * option A)) : NoDup (map fst l) -> NoDup (map fst (live l)).
Proof.
  induction l as [|[k [a|]] l IH]; simpl; auto; intros H; inversion H; subst; auto.
  constructor; auto. intros Hin. apply H2. apply map_fst_live_incl; auto.
Qed.

Lemma assoc_notin {A} k (l : list (bytes * A)) : ~ In k (map fst l) -> assoc k l = None.
Proof.
  induction l as [|[k' a] l IH]; simpl; auto.
  intros H. destruct (beq k' k) eqn:E.
  - apply beq_eq in E. subst. exfalso; apply H; auto.
  - apply IH. intros H'. apply H; auto.
Qed.

Lemma assoc_live k (l : amap) : NoDup (map fst l) -> assoc k (live l) = glookup k l.
Proof.
  unfold glookup. induction l as [|[k' [v|]] l IH]; simpl; auto; intros H; inversion H; subst.
  - destruct (beq k' k); auto.
  - destruct (beq k' k) eqn:E; auto.
    apply beq_eq in E. subst. apply assoc_notin. intros Hin. apply H2. apply map_fst_live_incl; auto.
Qed.

Lemma map_fst_insert {A} (x : bytes * A) l k : In k (map fst (insert_sorted x l)) <-> k = fst x \/ In k (map fst l).
Proof.
  induction l as [|y l IH]; simpl.
  - intuition congruence.
  - destruct (bcompare (fst x) (fst y)); simpl; intuition congruence.
Qed.

Lemma map_fst_sort {A} (l : list (bytes * A)) k : In k (map fst (sort_keys l)) <-> In k (map fst l).
Proof.
  induction l as [|x l IH]; simpl; try tauto.
  unfold sort_keys in *. simpl. pose proof (map_fst_insert x (fold_right insert_sorted [] l) k) as HI.
  split; intros H.
  - apply HI in H. destruct H as [H|H]; auto. right. apply IH; auto.
  - apply HI. destruct H as [H|H]; auto. right. apply IH; auto.
Qed.

Lemma assoc_insert {A} k (x : bytes * A) l :
  ~ In (fst x) (map fst l) -> assoc k (insert_sorted x l) = assoc k (x :: l).
Proof.
  induction l as [|y l IH]; intros H; auto.
  cbn [insert_sorted]. destruct (bcompare (fst x) (fst y)); auto.
  destruct x as [kx ax], y as [ky ay]. cbn [assoc fst] in *.
  rewrite IH by (intros H'; apply H; simpl; auto). cbn [assoc].
  destruct (beq ky k) eqn:E1; destruct (beq kx k) eqn:E2; auto.
  apply beq_eq in E1, E2. subst. exfalso. apply H. simpl; auto.
Qed.

Lemma assoc_sort {A} k (l : list (bytes * A)) : NoDup (map fst l) -> assoc k (sort_keys l) = assoc k l.
Proof.
  induction l as [|x l IH]; intros H; auto.
  inversion H; subst. unfold sort_keys in *. cbn [fold_right].
  rewrite assoc_insert.
  - destruct x as [kx ax]. cbn [assoc]. rewrite IH; auto.
  - intros Hin. change (fold_right insert_sorted [] l) with (sort_keys l) in Hin.
    apply (proj1 (map_fst_sort l (fst x))) in Hin. auto.
Qed.

Lemma assoc_canon k (l : amap) : assoc k (canon l) = glookup k l.
Proof.
  unfold canon. rewrite assoc_sort.
  - rewrite assoc_live by apply nodup_dedupe. unfold glookup. rewrite assoc_dedupe. auto.
  - apply nodup_live, nodup_dedupe.
Qed.

Lemma sorted_insert {A} (x : bytes * A) l :
  StronglySorted klt l -> ~ In (fst x) (map fst l) -> StronglySorted klt (insert_sorted x l).
Proof.
  induction l as [|y l IH]; intros Hs Hn; cbn [insert_sorted].
  - constructor; constructor.
  - inversion Hs as [|? ? Hs' Hall]; subst.
    destruct (bcompare (fst x) (fst y)) eqn:E.
    + apply bcompare_eq in E. exfalso. apply Hn. simpl; auto.
    + constructor; auto. constructor; auto.
      eapply Forall_impl; [|exact Hall]. intros z Hz. unfold klt in *. eapply bcompare_trans; eauto.
    + constructor.
      * apply IH; auto. intros H; apply Hn; simpl; auto.
      * apply Forall_forall. intros z Hz. apply in_insert in Hz as [->|Hz].
        -- unfold klt. rewrite bcompare_opp, E. auto.
        -- eapply Forall_forall in Hall; eauto.
Qed.

Lemma sorted_sort {A} (l : list (bytes * A)) : NoDup (map fst l) -> StronglySorted klt (sort_keys l).
Proof.
  induction l as [|x l IH]; intros H.
  - constructor.
  - inversion H; subst. unfold sort_keys in *. cbn [fold_right]. apply sorted_insert; auto.
    intros Hin. change (fold_right insert_sorted [] l) with (sort_keys l) in Hin.
    apply (proj1 (map_fst_sort l (fst x))) in Hin. auto.
Qed.

Lemma sorted_canon {A} (l : list (bytes * option A)) : StronglySorted klt (canon l).
Proof. apply sorted_sort, nodup_live, nodup_dedupe. Qed.

Lemma bcompare_refl a : bcompare a a = Eq.
Proof. apply bcompare_eq; auto. Qed.

Lemma assoc_none_above {A} (x : bytes * A) l k :
  Forall (klt x) l -> bcompare k (fst x) <> Gt -> assoc k l = None.
Proof.
  intros Hall Hk. apply assoc_notin. intros Hin.
  apply in_map_iff in Hin as [y [E Hy]]. eapply Forall_forall in Hall; eauto. unfold klt in Hall. subst k.
  destruct (bcompare (fst y) (fst x)) eqn:E1.
  - apply bcompare_eq in E1. rewrite E1, bcompare_refl in Hall. discriminate.
  - assert (bcompare (fst x) (fst x) = Lt) by (eapply bcompare_trans; eauto). rewrite bcompare_refl in H. discriminate.
  - congruence.
Qed.

Lemma sorted_ext {A} (l1 l2 : list (bytes * A)) :
  StronglySorted klt l1 -> StronglySorted klt l2 -> (forall k, assoc k l1 = assoc k l2) -> l1 = l2.
Proof.
  revert l2. induction l1 as [|[k1 a1] l1 IH]; intros [|[k2 a2] l2] H1 H2 He; auto.
  - specialize (He k2). simpl in He. rewrite beq_refl in He. discriminate.
  - specialize (He k1). simpl in He. rewrite beq_refl in He. discriminate.
  - inversion H1 as [|? ? S1 A1]; inversion H2 as [|? ? S2 A2]; subst.
    destruct (bcompare k1 k2) eqn:E.
    + apply bcompare_eq in E. subst k2.
      assert (a1 = a2) by (specialize (He k1); simpl in He; rewrite beq_refl in He; congruence). subst a2.
      f_equal. apply IH; auto. intros k. specialize (He k). simpl in He.
      destruct (beq k1 k) eqn:Ek; auto.
      apply beq_eq in Ek. subst k.
      rewrite (assoc_none_above (k1, a1) l1 k1), (assoc_none_above (k1, a1) l2 k1); auto;
        simpl; rewrite bcompare_refl; discriminate.
    + exfalso. specialize (He k1). simpl in He. rewrite beq_refl in He.
      destruct (beq k2 k1) eqn:Ek.
      * apply beq_eq in Ek. subst. rewrite bcompare_refl in E. discriminate.
      * rewrite (assoc_none_above (k2, a2) l2 k1) in He; auto; try discriminate. simpl. congruence.
    + exfalso. specialize (He k2). simpl in He. rewrite beq_refl in He.
      destruct (beq k1 k2) eqn:Ek.
      * apply beq_eq in Ek. subst. rewrite bcompare_refl in E. discriminate.
      * rewrite (assoc_none_above (k1, a1) l1 k2) in He; auto; try discriminate.
        simpl. rewrite bcompare_opp, E. simpl. discriminate.
Qed.

Theorem canon_lookup_eq (l1 l2 : amap) : lookup_eq l1 l2 -> canon l1 = canon l2.
Proof.
  intros H. apply sorted_ext; try apply sorted_canon.
  intros k. rewrite !assoc_canon. apply H.
Qed.

Lemma seek_pos_keys {A B} (l1 : list (bytes * A)) (l2 : list (bytes * B)) k :
  map fst l1 = map fst l2 -> seek_pos l1 k = seek_pos l2 k.
Proof.
  revert l2. induction l1 as [|[k1 a1] l1 IH]; intros [|[k2 a2] l2] H; simpl in *; try discriminate; auto.
  injection H as -> H. destruct (bcompare k2 k); auto.
Qed.
