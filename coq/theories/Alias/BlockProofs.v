(* Alias/BlockProofs.v — the block read path of the ownership model (buffer pool, block cache,
   table.Reader.find): what it leaves alone, what it re-establishes, what it returns. *)
From GL Require Import Alias.Heap Alias.AliasModel Alias.HeapProofs Alias.ContentProofs Alias.InvProofs Base.BytesProofs.
From Coq Require Import Arith Lia.
Local Open Scope nat_scope.

Definition notpool (o : owner) : bool := negb (owner_eqb o Pool).

Lemma nonblock_notpool o : nonblock o = true -> notpool o = true.
Proof. destruct o as [| |[]| |]; simpl; auto. Qed.

Lemma keep_nonblock_of_notpool h h' : keep notpool h h' -> keep nonblock h h'.
Proof. apply keep_weaken. apply nonblock_notpool. Qed.

(* ---- cache_ok / pool_ok under the primitive updates ---- *)

Lemma cache_ok_hp s h' :
  cache_ok s ->
  (forall l, In l (map snd (cache s)) -> hown h' l = hown (hp s) l /\ hget h' l = hget (hp s) l) ->
  cache_ok (set_hp s h').
Proof.
  intros [N C] H. split; auto. simpl. intros tid bi l Hin.
  destruct (C _ _ _ Hin) as [O [fb [F G]]].
  assert (In l (map snd (cache s))) as Hl by (apply in_map_iff; exists (tid, bi, l); auto).
  destruct (H _ Hl) as [E1 E2]. split.
  - unfold own. simpl. rewrite E1. auto.
  - exists fb. split; auto. simpl. rewrite E2. auto.
Qed.

Lemma pool_ok_hp s h' :
  pool_ok s -> (forall l, In l (pool s) -> hown h' l = hown (hp s) l) -> pool_ok (set_hp s h').
Proof.
  intros [N P] H. split; auto. simpl. intros l Hin. unfold own. simpl. rewrite H; auto. apply P; auto.
Qed.

Lemma blockinv_hp c s h' :
  blockinv c s ->
  (forall l o, own (hp s) l o -> o = Cache \/ o = Pool -> hown h' l = hown (hp s) l /\ hget h' l = hget (hp s) l) ->
  blockinv c (set_hp s h').
Proof.
  intros (C & P & E1 & E2) H. split; [|split; [|split]]; auto.
  - apply cache_ok_hp; auto. intros l Hl. apply in_map_iff in Hl as [[[tid bi] l'] [E Hin]]. simpl in E. subst l'.
    destruct C as [_ C]. destruct (C _ _ _ Hin) as [O _]. eapply H; eauto.
  - apply pool_ok_hp; auto. intros l Hl. destruct P as [_ P]. eapply H; eauto.
Qed.

Lemma blockinv_alloc c s b o : blockinv c s -> blockinv c (fst (alloc s b o)).
Proof.
  intros B. unfold alloc; simpl. apply blockinv_hp; auto.
  intros l o' O _. split; [apply hown_alloc_old|apply hget_alloc_old]; eapply own_lt; eauto.
Qed.

Lemma blockinv_hset c s l b o :
  blockinv c s -> own (hp s) l o -> o <> Cache -> o <> Pool -> blockinv c (set_hp s (hset (hp s) l b)).
Proof.
  intros B O N1 N2. apply blockinv_hp; auto. intros l' o' O' D. split.
  - apply hown_hset.
  - apply hget_hset_other. intros E. subst l'. assert (o = o') by (eapply own_fun; eauto). destruct D; congruence.
Qed.

Lemma blockinv_hchown c s l o o' :
  blockinv c s -> own (hp s) l o -> o <> Cache -> o <> Pool -> blockinv c (set_hp s (hchown (hp s) l o')).
Proof.
  intros B O N1 N2. apply blockinv_hp; auto. intros l' o2 O' D. split.
  - apply hown_hchown_other. intros E. subst l'. assert (o = o2) by (eapply own_fun; eauto). destruct D; congruence.
  - apply hget_hchown.
Qed.

(* field equalities that all block-path functions satisfy *)
Lemma quiet_set_hp s h' : keep nonblock (hp s) h' -> quiet s (set_hp s h').
Proof. intros K. constructor; auto. Qed.

Lemma quiet_alloc s b o : quiet s (fst (alloc s b o)).
Proof. unfold alloc; simpl. apply quiet_set_hp. apply keep_alloc. Qed.

(* ---- pool_get / pool_put ---- *)

Lemma pool_get_ok c s s1 l :
  blockinv c s -> pool_get c s = (s1, l) ->
  keep notpool (hp s) (hp s1) /\ quiet s s1 /\ blockinv c s1 /\ own (hp s1) l (DB KBlock) /\
  cache s1 = cache s /\ cvis s1 = cvis s.
Proof.
  intros B E. unfold pool_get in E.
  assert (forall b, alloc s b (DB KBlock) = (s1, l) ->
    keep notpool (hp s) (hp s1) /\ quiet s s1 /\ blockinv c s1 /\ own (hp s1) l (DB KBlock) /\
    cache s1 = cache s /\ cvis s1 = cvis s) as HA.
  { intros b EA. unfold alloc in EA. injection EA as <- <-.
    pose proof (blockinv_alloc c s b (DB KBlock) B) as BA. unfold alloc in BA; simpl in BA.
    split; [apply keep_alloc|]. split; [apply (quiet_alloc s b (DB KBlock))|]. split; [exact BA|].
    split; [apply own_alloc_new|]. simpl. auto. }
  destruct (pool_on c) eqn:EP; [|eapply HA; eauto].
  destruct (pool s) as [|l0 p'] eqn:Epool; [eapply HA; eauto|].
  injection E as <- <-. simpl.
  destruct B as (C & [PN PO] & E1 & E2). rewrite Epool in *.
  assert (own (hp s) l0 Pool) as O0 by (apply PO; simpl; auto).
  assert (keep notpool (hp s) (hchown (hp s) l0 (DB KBlock))) as K by (eapply keep_hchown; eauto).
  split; [exact K|]. split; [|split; [|split]].
  - constructor; auto. simpl. apply keep_nonblock_of_notpool; auto.
  - split; [|split; [|split]]; simpl.
    + apply (cache_ok_hp s); auto. intros l Hl. split; [|apply hget_hchown].
      apply hown_hchown_other. intros E. subst l.
      apply in_map_iff in Hl as [[[tid bi] l'] [E Hin]]. simpl in E. subst l'.
      destruct C as [_ C]. destruct (C _ _ _ Hin) as [O _].
      assert (Pool = Cache) by (eapply own_fun; eauto). discriminate.
    + inversion PN; subst. split; simpl; auto. intros l Hl. unfold own. simpl.
      rewrite hown_hchown_other; [apply PO; simpl; auto|]. intros E. subst l. contradiction.
    + auto.
    + intros H. congruence.
  - unfold own. simpl. apply hown_hchown_same. eapply own_lt; eauto.
  - auto.
Qed.

Lemma pool_put_ok c s l :
  blockinv c s -> own (hp s) l (DB KBlock) ->
  quiet s (pool_put c s l) /\ blockinv c (pool_put c s l) /\ cache (pool_put c s l) = cache s /\ cvis (pool_put c s l) = cvis s
  /\ keep (fun o => negb (owner_eqb o (DB KBlock))) (hp s) (hp (pool_put c s l)).
Proof.
  intros B O. unfold pool_put. destruct (pool_on c) eqn:EP.
  - assert (keep (fun o => negb (owner_eqb o (DB KBlock))) (hp s) (hchown (hp s) l Pool)) as K by (eapply keep_hchown; eauto).
    assert (keep nonblock (hp s) (hchown (hp s) l Pool)) as Kn by (eapply keep_hchown; eauto).
    split; [constructor; auto|].
    split; [|split; [reflexivity|split; [reflexivity|exact K]]].
    destruct B as ([CN CC] & [PN PO] & E1 & E2).
    split; [|split; [|split]]; simpl.
    + split; simpl; auto. intros tid bi l' Hin. destruct (CC _ _ _ Hin) as [O' [fb [F G]]]. split.
      * unfold own. simpl. rewrite hown_hchown_other; auto. eapply own_diff; eauto. discriminate.
      * exists fb. split; auto. simpl. rewrite hget_hchown; auto.
    + split; simpl.
      * constructor; auto. intros Hin. assert (DB KBlock = Pool) by (eapply own_fun; eauto). discriminate.
      * intros l' [<-|Hin].
        -- unfold own. simpl. apply hown_hchown_same. eapply own_lt; eauto.
        -- unfold own. simpl. rewrite hown_hchown_other; [apply PO; auto|].
           intros E. subst l'. assert (DB KBlock = Pool) by (eapply own_fun; eauto). discriminate.
    + auto.
    + intros H. congruence.
  - split; [apply quiet_refl|]. split; [auto|]. split; [auto|]. split; [auto|apply keep_refl].
Qed.

(* ---- cache lookup ---- *)

Lemma cache_lookup_in c tid bi l : cache_lookup c tid bi = Some l -> In (tid, bi, l) c.
Proof.
  induction c as [|[[t b] l'] c IH]; simpl; try discriminate.
  destruct (Nat.eqb t tid && Nat.eqb b bi) eqn:E.
  - intros H. injection H as <-. apply andb_prop in E as [E1 E2].
    apply Nat.eqb_eq in E1, E2. subst. auto.
  - auto.
Qed.

(* ---- load_block / release_block ---- *)

Lemma load_block_ok c s tid bi fb s1 l cached :
  blockinv c s -> file_block s tid bi = Some fb -> load_block c s tid bi fb = (s1, l, cached) ->
  quiet s s1 /\ blockinv c s1 /\ cvis s1 = cvis s /\ hget (hp s1) l = fimg fb /\
  (if cached then own (hp s1) l Cache else own (hp s1) l (DB KBlock) /\ cache_on c = false).
Proof.
  intros B F E. unfold load_block in E.
  destruct (cache_lookup (cache s) tid bi) as [l0|] eqn:EC.
  - injection E as <- <- <-. apply cache_lookup_in in EC.
    pose proof B as (C & P & E1 & E2). destruct C as [N C].
    destruct (C _ _ _ EC) as [O [fb' [F' G]]].
    split; [apply quiet_refl|]. split; [exact B|]. split; auto. split; auto. congruence.
  - destruct (pool_get c s) as [sa la] eqn:EG.
    destruct (pool_get_ok _ _ _ _ B EG) as (Ka & Qa & Ba & Oa & Ca & Va).
    cbv zeta in E.
    remember (set_hp sa (hset (hp sa) la (fimg fb))) as s2 eqn:Es2 in *.
    assert (quiet sa s2) as Q2 by (subst s2; apply quiet_set_hp; eapply keep_hset; eauto).
    assert (blockinv c s2) as B2 by (subst s2; eapply blockinv_hset; eauto; discriminate).
    assert (own (hp s2) la (DB KBlock)) as O2 by (subst s2; apply own_hset; auto).
    assert (hget (hp s2) la = fimg fb) as G2 by (subst s2; simpl; apply hget_hset_same; eapply own_lt; eauto).
    assert (cvis s2 = cvis sa /\ cache s2 = cache sa) as [V2 C2] by (subst s2; simpl; auto).
    clear Es2.
    (* the buffer the block ends up in *)
    assert (exists s3 lb, (if snappy c then
               let (sa0, l2) := pool_get c s2 in
               (pool_put c (set_hp sa0 (hset (hp sa0) l2 (fimg fb))) la, l2)
             else (s2, la)) = (s3, lb) /\
            quiet s2 s3 /\ blockinv c s3 /\ cvis s3 = cvis s2 /\ cache s3 = cache s2 /\
            own (hp s3) lb (DB KBlock) /\ hget (hp s3) lb = fimg fb) as (s3 & lb & E3 & Q3 & B3 & V3 & C3 & O3 & G3).
    { destruct (snappy c).
      - destruct (pool_get c s2) as [sa0 l2] eqn:EG2.
        destruct (pool_get_ok _ _ _ _ B2 EG2) as (Kb & Qb & Bb & Ob & Cb & Vb).
        remember (set_hp sa0 (hset (hp sa0) l2 (fimg fb))) as sb eqn:Esb.
        assert (own (hp sa0) la (DB KBlock)) as Oa0 by (eapply keep_own; eauto).
        assert (la <> l2) as Nl.
        { intros El. subst l2.
          (* l2 is either a former pool buffer or a new cell; la was a block cell before *)
          unfold pool_get in EG2. destruct (pool_on c).
          - destruct (pool s2) as [|l0 p'] eqn:Ep.
            + unfold alloc in EG2. injection EG2 as _ El. apply own_lt in O2. lia.
            + injection EG2 as _ El. subst l0. destruct B2 as (_ & [_ PO] & _).
              assert (own (hp s2) la Pool) as OP by (apply PO; rewrite Ep; simpl; auto).
              pose proof (own_fun _ _ _ _ O2 OP). discriminate.
          - unfold alloc in EG2. injection EG2 as _ El. apply own_lt in O2. lia. }
        assert (quiet sa0 sb) as Qsb by (subst sb; apply quiet_set_hp; eapply keep_hset; eauto).
        assert (blockinv c sb) as Bsb by (subst sb; eapply blockinv_hset; eauto; discriminate).
        assert (own (hp sb) la (DB KBlock)) as Osb by (subst sb; apply own_hset; auto).
        assert (own (hp sb) l2 (DB KBlock)) as Osb2 by (subst sb; apply own_hset; auto).
        assert (hget (hp sb) l2 = fimg fb) as Gsb by (subst sb; simpl; apply hget_hset_same; eapply own_lt; eauto).
        assert (cvis sb = cvis sa0 /\ cache sb = cache sa0) as [Vsb Csb] by (subst sb; simpl; auto).
        clear Esb.
        destruct (pool_put_ok c sb la Bsb Osb) as (Qp & Bp & Cp & Vp & Kp).
        exists (pool_put c sb la), l2. split; auto.
        split; [eapply quiet_trans; [exact Qb|]; eapply quiet_trans; [exact Qsb|exact Qp]|].
        split; [exact Bp|]. split; [congruence|]. split; [congruence|].
        assert (negb (owner_eqb (DB KBlock) (DB KBlock)) = true -> False) as _ by (simpl; discriminate).
        unfold pool_put. destruct (pool_on c); simpl.
        * split.
          -- unfold own. rewrite hown_hchown_other; auto.
          -- rewrite hget_hchown. auto.
        * split; auto.
      - exists s2, la. split; auto. split; [apply quiet_refl|]. split; [exact B2|]. auto. }
    rewrite E3 in E.
    assert (quiet s s3) as Q by (eapply quiet_trans; [exact Qa|]; eapply quiet_trans; [exact Q2|exact Q3]).
    assert (cvis s3 = cvis s) as V by congruence.
    destruct (cache_on c) eqn:ECo.
    + injection E as <- <- <-. simpl. split; [|split; [|split; [|split]]].
      * constructor; simpl; try apply Q. eapply keep_trans; [apply Q|]. eapply keep_hchown; eauto.
      * destruct B3 as ([CN CC] & [PN PO] & E1 & E2). split; [|split; [|split]]; simpl.
        -- split; simpl.
           ++ constructor; auto. intros Hin. apply in_map_iff in Hin as [[[t b] l'] [El Hin]]. simpl in El. subst l'.
              destruct (CC _ _ _ Hin) as [O' _]. pose proof (own_fun _ _ _ _ O3 O') as X. discriminate X.
           ++ intros t b l' [Hin|Hin].
              ** injection Hin as <- <- <-. split.
                 --- unfold own. simpl. apply hown_hchown_same. eapply own_lt; eauto.
                 --- exists fb. split.
                     +++ change (file_block s3 tid bi = Some fb). rewrite (quiet_file_block _ _ _ _ Q). auto.
                     +++ simpl. rewrite hget_hchown. auto.
              ** destruct (CC _ _ _ Hin) as [O' [fb' [F' G']]]. split.
                 --- unfold own. simpl. rewrite hown_hchown_other; auto. eapply own_diff; eauto. discriminate.
                 --- exists fb'. split; auto. simpl. rewrite hget_hchown. auto.
        -- split; simpl; auto. intros l' Hin. unfold own. simpl. rewrite hown_hchown_other; [apply PO; auto|].
           eapply own_diff; eauto. discriminate.
        -- intros H. congruence.
        -- auto.
      * auto.
      * rewrite hget_hchown. auto.
      * unfold own. simpl. apply hown_hchown_same. eapply own_lt; eauto.
    + injection E as <- <- <-. split; [exact Q|]. split; [exact B3|]. split; [exact V|]. split; [exact G3|]. split; auto.
Qed.

Lemma release_block_ok c s l (cached : bool) :
  blockinv c s -> (if cached then True else own (hp s) l (DB KBlock)) ->
  quiet s (release_block c s l cached) /\ blockinv c (release_block c s l cached)
  /\ cvis (release_block c s l cached) = cvis s
  /\ keep (fun o => negb (owner_eqb o (DB KBlock))) (hp s) (hp (release_block c s l cached)).
Proof.
  intros B O. unfold release_block. destruct cached.
  - split; [apply quiet_refl|]. split; [exact B|]. split; [auto|apply keep_refl].
  - destruct (pool_put_ok c s l B O) as (Q & B' & C & V & K). auto.
Qed.

(* ---- lookups in blocks and tables ---- *)

Lemma blk_find_assoc b ds k :
  match blk_find b ds k with
  | Some d => assoc k (resolve b ds) = Some (dval b d)
  | None => assoc k (resolve b ds) = None
  end.
Proof.
  induction ds as [|d ds IH]; simpl; auto.
  destruct (beq (dkey b d) k); auto.
Qed.

Lemma tab_find_assoc t k : forall i,
  match tab_find t k i with
  | Some (bi, fb) => i <= bi /\ nth_error t (bi - i) = Some fb /\ assoc k (tab_content t) = assoc k (resolve (fimg fb) (fds fb))
                     /\ blk_find (fimg fb) (fds fb) k <> None
  | None => assoc k (tab_content t) = None
  end.
Proof.
  induction t as [|fb t IH]; intros i; simpl; auto.
  pose proof (blk_find_assoc (fimg fb) (fds fb) k) as HB.
  destruct (blk_find (fimg fb) (fds fb) k) as [d|] eqn:EB.
  - rewrite Nat.sub_diag. simpl. repeat split; auto.
    + unfold tab_content. simpl. rewrite assoc_app, HB. auto.
    + congruence.
  - specialize (IH (S i)). destruct (tab_find t k (S i)) as [[bi fb']|].
    + destruct IH as (L & N & A & NB). repeat split; auto; try lia.
      * replace (bi - i) with (S (bi - S i)) by lia. simpl. auto.
      * unfold tab_content in *. simpl. rewrite assoc_app, HB. auto.
    + unfold tab_content in *. simpl. rewrite assoc_app, HB. auto.
Qed.

(* what a lookup returned, read back through the heap *)
Definition res_val (h : heap) (r : option (option ref)) : option (option bytes) :=
  match r with
  | None => None
  | Some None => Some None
  | Some (Some v) => Some (Some (deref h v))
  end.

Definition res_client (h : heap) (r : option (option ref)) : Prop :=
  match r with Some (Some v) => own h (rloc v) Client | _ => True end.

Ltac split5 := split; [|split; [|split; [|split]]].

Lemma tab_get_ok c s tid k s' r :
  blockinv c s -> tab_get fixed_modes c s tid k = (s', r) ->
  quiet s s' /\ blockinv c s' /\ cvis s' = cvis s /\
  res_val (hp s') r = assoc k (tab_file_content s tid) /\ res_client (hp s') r.
Proof.
  intros B E. unfold tab_get in E. unfold tab_file_content.
  destruct (nth_error (files s) tid) as [t|] eqn:EF.
  2:{ injection E as <- <-. split5; simpl; auto. apply quiet_refl. }
  pose proof (tab_find_assoc t k 0) as HT.
  destruct (tab_find t k 0) as [[bi fb]|] eqn:ET.
  2:{ injection E as <- <-. split5; simpl; auto. apply quiet_refl. }
  destruct HT as (_ & HN & HA & HNB). rewrite Nat.sub_0_r in HN.
  assert (file_block s tid bi = Some fb) as FB by (unfold file_block; rewrite EF; auto).
  destruct (load_block c s tid bi fb) as [[s1 l] cached] eqn:EL.
  destruct (load_block_ok _ _ _ _ _ _ _ _ B FB EL) as (Q1 & B1 & V1 & G1 & O1).
  rewrite G1 in E.
  pose proof (blk_find_assoc (fimg fb) (fds fb) k) as HB.
  destruct (blk_find (fimg fb) (fds fb) k) as [d|] eqn:EB; [|congruence].
  assert (if cached then True else own (hp s1) l (DB KBlock)) as O1' by (destruct cached; tauto).
  destruct (isdel d) eqn:ED.
  - injection E as <- <-.
    destruct (release_block_ok c s1 l cached B1 O1') as (Q2 & B2 & V2 & K2).
    split5; simpl; auto.
    + eapply quiet_trans; eauto.
    + congruence.
    + rewrite HA, HB. unfold dval. rewrite ED. auto.
  - unfold fixed_modes in E.
    destruct (pool_on c || cache_on c) eqn:EM.
    + (* the value is copied *)
      unfold transfer in E.
      destruct (alloc s1 (deref (hp s1) (mkref l (voff d) (vlen d))) Client) as [s2 nl] eqn:EA.
      injection E as <- <-.
      assert (s2 = fst (alloc s1 (deref (hp s1) (mkref l (voff d) (vlen d))) Client)) as Es2 by (rewrite EA; auto).
      assert (nl = length (hp s1)) as Enl by (unfold alloc in EA; injection EA as _ <-; auto).
      assert (quiet s1 s2) as Q2 by (rewrite Es2; apply quiet_alloc).
      assert (blockinv c s2) as B2 by (rewrite Es2; apply blockinv_alloc; auto).
      assert (cvis s2 = cvis s1) as V2 by (rewrite Es2; unfold alloc; simpl; auto).
      assert (own (hp s2) nl Client) as On by (rewrite Es2, Enl; unfold alloc; simpl; apply own_alloc_new).
      assert (hget (hp s2) nl = deref (hp s1) (mkref l (voff d) (vlen d))) as Gn
        by (rewrite Es2, Enl; unfold alloc; simpl; apply hget_alloc_new).
      assert (if cached then True else own (hp s2) l (DB KBlock)) as O2.
      { destruct cached; auto. rewrite Es2. unfold alloc; simpl. apply own_alloc_old. tauto. }
      clear Es2 EA.
      destruct (release_block_ok c s2 l cached B2 O2) as (Q3 & B3 & V3 & K3).
      split5; auto.
      * eapply quiet_trans; [exact Q1|]. eapply quiet_trans; eauto.
      * congruence.
      * simpl. rewrite HA, HB. unfold dval. rewrite ED. f_equal. f_equal.
        unfold deref at 1. simpl.
        rewrite (keep_get _ _ _ _ _ K3 On) by auto. rewrite Gn.
        rewrite sub_all. unfold deref. simpl. rewrite G1. auto.
      * simpl. eapply keep_own; eauto.
    + (* neither pooled nor cached: the slice of the fresh block is handed over *)
      apply orb_false_elim in EM as [EP EC].
      destruct cached.
      { (* impossible: without a cache nothing is ever cached *)
        exfalso. unfold load_block in EL.
        pose proof B as (_ & _ & E1 & _). rewrite (E1 EC) in EL. simpl in EL.
        destruct (pool_get c s) as [sa la]. destruct (snappy c).
        - destruct (pool_get c (set_hp sa (hset (hp sa) la (fimg fb)))) as [sa0 l2]. rewrite EC in EL. discriminate.
        - rewrite EC in EL. discriminate. }
      destruct O1 as [O1 _].
      simpl in E. rewrite EP in E.
      unfold release_block, pool_put in E. rewrite EP in E.
      injection E as <- <-.
      assert (blockinv c (set_hp s1 (hchown (hp s1) l Client))) as B2
        by (eapply blockinv_hchown; eauto; discriminate).
      split5; auto.
      * eapply quiet_trans; [exact Q1|]. apply quiet_set_hp. eapply keep_hchown; eauto.
      * simpl. rewrite HA, HB. unfold dval. rewrite ED. unfold deref. simpl. rewrite hget_hchown, G1. auto.
      * simpl. unfold own. apply hown_hchown_same. eapply own_lt; eauto.
Qed.
