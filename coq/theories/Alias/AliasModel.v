(* Alias/AliasModel.v — ownership model of the buffers that cross goleveldb's API boundary
   (property C20).  Model file: definitions only (proofs in Alias/AliasProofs.v).

   Derived by reading which calls copy and which slice:
     leveldb/batch.go         Batch.appendRec          copy(data[o:], key) / copy(data[o:], value)
     leveldb/db_write.go      DB.putRec                pooled batch . appendRec, then Batch.putMem
     leveldb/memdb/memdb.go   DB.Put                   kvData = append(kvData, key...), append(kvData, value...)
     leveldb/db.go            DB.get                   write buffers: append([]byte(nil), mv...);  tables: version.get -> tOps.find
     leveldb/table/reader.go  Reader.find              value: slice of the block iff bpool == nil && cache == nil, else a copy
                              readBlockCached/readRawBlock   block buffer: from the cache, else bpool.Get (or make), ReadAt, snappy scratch
     leveldb/db_iter.go       dbIter.next              i.key = append(i.key[:0], ukey...); i.value = append(i.value[:0], iter.Value()...)
     leveldb/db_transaction.go  Transaction.put/Get    memdb.Put of the transaction's buffer; DB.get(tr.mem, tr.tables, ...)

   Every place where a buffer is handed on is a [path]; a [modes] table says per path and per
   configuration whether the code copies or slices there.  [fixed_modes] is the code after the
   "fix:" commit (the main model), [unfixed_modes] the table path before it.  The step function is
   parametrised by the table so that the same machine runs both.

   Owners (Alias/Heap.v): Client (what the client may overwrite: arguments it passed, values it got,
   a batch after Write returned), ClientBatch (the buffer of a Batch the client is still filling),
   DB arena / iterator buffer / pooled batch / block in use, Pool, Cache.  The client action
   CScribble writes through any buffer the client holds, up to the end of the backing array
   (its capacity), whoever owns it: that a client can only ever reach client-owned memory is the
   theorem, not a premise.

   Not modelled (honest limits): Go's garbage collector and reallocation by append (a location is
   never freed or moved), sequence numbers (lists are kept newest first), backward iteration,
   snapshots (Snapshot.Get is DB.get), the journal, concurrency (one call at a time; the
   background work appears as the environment operations ERotate/EFlush/ECompact/EEvict/ETxnFlush
   that may happen between any two calls). *)
From GL Require Export Alias.Heap Codec.BytesCmp.
Local Open Scope nat_scope.

(* ---------------------------------------------------------------- configuration *)

Record config := {
  pool_on : bool;    (* !opt.DisableBufferPool *)
  cache_on : bool;   (* !opt.DisableBlockCache; capacity is covered by EEvict happening at any time *)
  snappy : bool;     (* opt.Compression = snappy: a second pooled buffer per block read *)
  blk : nat          (* entries per data block - 1 *)
}.

Inductive mode := Copy | Slice.

Inductive path :=
| PBatchAppend   (* Batch.Put/Delete -> Batch.appendRec: argument -> the batch's buffer *)
| PPutRec        (* DB.Put/Delete -> putRec: argument -> pooled batch (appendRec) *)
| PMemPut        (* memdb.Put: key/value -> kvData *)
| PGetMem        (* DB.get: value found in the live or frozen write buffer *)
| PGetAuxMem     (* DB.get: value found in the transaction's write buffer *)
| PGetTable      (* table.Reader.find: value found in a table block *)
| PIterKey       (* dbIter: key of the underlying iterator -> exposed key *)
| PIterValue.    (* dbIter: value of the underlying iterator -> exposed value *)

Definition modes := path -> config -> mode.

(* the code after the fix: find slices the block only when it is neither pooled nor cached *)
Definition fixed_modes : modes := fun p c =>
  match p with
  | PGetTable => if pool_on c || cache_on c then Copy else Slice
  | _ => Copy
  end.

(* the code before the fix: find sliced the block whenever the buffer pool was off *)
Definition unfixed_modes : modes := fun p c =>
  match p with
  | PGetTable => if pool_on c then Copy else Slice
  | _ => Copy
  end.

(* ---------------------------------------------------------------- state *)

(* an entry of a write buffer: key and value are slices (of kvData when memdb.Put copies) *)
Record ment := { mk : ref; mv : ref; mdel : bool }.
Record memdb := { mkv : loc; mds : list ment }.          (* newest first *)

(* table files are immutable byte strings outside the heap: per data block its bytes and the
   layout of its entries (what restart points and varints encode) *)
Record desc := { koff : nat; klen : nat; voff : nat; vlen : nat; isdel : bool }.
Record fblock := { fimg : bytes; fds : list desc }.
Definition table := list fblock.

Definition dkey (b : bytes) (d : desc) : bytes := sub b (koff d) (klen d).
Definition dval (b : bytes) (d : desc) : option bytes :=
  if isdel d then None else Some (sub b (voff d) (vlen d)).

(* where an iterator finds an entry *)
Inductive src :=
| SMem (e : ment)                       (* pinned write buffer *)
| STab (tid bi : nat) (d : desc).       (* table tid, block bi, entry d (pinned version) *)

Record iter := {
  ikbuf : loc; ivbuf : loc;             (* dbIter.key / dbIter.value *)
  iexk : ref; iexv : ref;               (* what Key() / Value() return right now *)
  isrcs : list (bytes * src);           (* merged, visible entries in key order, fixed at creation *)
  ipos : option nat;                    (* None: not positioned yet *)
  ilive : bool
}.

Record txnst := { tmem : memdb; ttabs : list nat }.

Record state := {
  hp : heap;
  mem : memdb;
  frozen : option memdb;
  files : list table;                   (* every table ever written, by number *)
  l0 : list nat;                        (* live level-0 tables, newest first *)
  deep : list nat;                      (* live tables of deeper levels *)
  cache : list (nat * nat * loc);       (* block cache: (table, block) -> buffer *)
  pool : list loc;                      (* util.BufferPool *)
  wbatch : loc;                         (* buffer of the pooled batch of putRec *)
  iters : list iter;
  txn : option txnst;
  cbatch : option (loc * list ment);    (* the client's Batch under construction: buffer, records newest first *)
  cvis : list ref                       (* buffers the client may overwrite: arguments it passed, values it got *)
}.

Definition set_hp (s : state) (h : heap) : state :=
  {| hp := h; mem := mem s; frozen := frozen s; files := files s; l0 := l0 s; deep := deep s; cache := cache s;
     pool := pool s; wbatch := wbatch s; iters := iters s; txn := txn s; cbatch := cbatch s; cvis := cvis s |}.
Definition set_mem (s : state) (m : memdb) : state :=
  {| hp := hp s; mem := m; frozen := frozen s; files := files s; l0 := l0 s; deep := deep s; cache := cache s;
     pool := pool s; wbatch := wbatch s; iters := iters s; txn := txn s; cbatch := cbatch s; cvis := cvis s |}.
Definition set_frozen (s : state) (f : option memdb) : state :=
  {| hp := hp s; mem := mem s; frozen := f; files := files s; l0 := l0 s; deep := deep s; cache := cache s;
     pool := pool s; wbatch := wbatch s; iters := iters s; txn := txn s; cbatch := cbatch s; cvis := cvis s |}.
Definition set_tabs (s : state) (fs : list table) (a b : list nat) : state :=
  {| hp := hp s; mem := mem s; frozen := frozen s; files := fs; l0 := a; deep := b; cache := cache s;
     pool := pool s; wbatch := wbatch s; iters := iters s; txn := txn s; cbatch := cbatch s; cvis := cvis s |}.
Definition set_cache (s : state) (c : list (nat * nat * loc)) : state :=
  {| hp := hp s; mem := mem s; frozen := frozen s; files := files s; l0 := l0 s; deep := deep s; cache := c;
     pool := pool s; wbatch := wbatch s; iters := iters s; txn := txn s; cbatch := cbatch s; cvis := cvis s |}.
Definition set_pool (s : state) (p : list loc) : state :=
  {| hp := hp s; mem := mem s; frozen := frozen s; files := files s; l0 := l0 s; deep := deep s; cache := cache s;
     pool := p; wbatch := wbatch s; iters := iters s; txn := txn s; cbatch := cbatch s; cvis := cvis s |}.
Definition set_iters (s : state) (i : list iter) : state :=
  {| hp := hp s; mem := mem s; frozen := frozen s; files := files s; l0 := l0 s; deep := deep s; cache := cache s;
     pool := pool s; wbatch := wbatch s; iters := i; txn := txn s; cbatch := cbatch s; cvis := cvis s |}.
Definition set_txn (s : state) (t : option txnst) : state :=
  {| hp := hp s; mem := mem s; frozen := frozen s; files := files s; l0 := l0 s; deep := deep s; cache := cache s;
     pool := pool s; wbatch := wbatch s; iters := iters s; txn := t; cbatch := cbatch s; cvis := cvis s |}.
Definition set_cbatch (s : state) (b : option (loc * list ment)) : state :=
  {| hp := hp s; mem := mem s; frozen := frozen s; files := files s; l0 := l0 s; deep := deep s; cache := cache s;
     pool := pool s; wbatch := wbatch s; iters := iters s; txn := txn s; cbatch := b; cvis := cvis s |}.
Definition set_cvis (s : state) (v : list ref) : state :=
  {| hp := hp s; mem := mem s; frozen := frozen s; files := files s; l0 := l0 s; deep := deep s; cache := cache s;
     pool := pool s; wbatch := wbatch s; iters := iters s; txn := txn s; cbatch := cbatch s; cvis := v |}.

Definition init : state :=
  {| hp := [{| cbytes := []; cown := DB KMem |}; {| cbytes := []; cown := DB KBatch |}];
     mem := {| mkv := 0; mds := [] |}; frozen := None; files := []; l0 := []; deep := [];
     cache := []; pool := []; wbatch := 1; iters := []; txn := None; cbatch := None; cvis := [] |}.

(* ---------------------------------------------------------------- primitives *)

Definition alloc (s : state) (b : bytes) (o : owner) : state * loc :=
  (set_hp s (fst (halloc (hp s) b o)), snd (halloc (hp s) b o)).

Definition mkref (l : loc) (off len : nat) : ref := {| rloc := l; roff := off; rlen := len |}.

(* the client makes a buffer holding b (an argument of the next call); it may overwrite it later *)
Definition client_buf (s : state) (b : bytes) : state * ref :=
  let (s1, l) := alloc s b Client in
  let r := mkref l 0 (length b) in
  (set_cvis s1 (r :: cvis s1), r).

(* hand a buffer on: a fresh copy owned by o, or the very same slice *)
Definition transfer (m : mode) (s : state) (r : ref) (o : owner) : state * ref :=
  match m with
  | Copy =>
      let b := deref (hp s) r in
      let (s1, l) := alloc s b o in
      (s1, mkref l 0 (length b))
  | Slice => (s, r)
  end.

(* memdb.Put *)
Definition memdb_put (md : modes) (c : config) (s : state) (m : memdb) (kr vr : ref) (del : bool) : state * memdb :=
  match md PMemPut c with
  | Copy =>
      let h := hp s in
      let old := length (hget h (mkv m)) in
      let kb := deref h kr in
      let vb := if del then [] else deref h vr in
      let e := {| mk := mkref (mkv m) old (length kb); mv := mkref (mkv m) (old + length kb) (length vb); mdel := del |} in
      (set_hp s (happend h (mkv m) (kb ++ vb)), {| mkv := mkv m; mds := e :: mds m |})
  | Slice =>
      (s, {| mkv := mkv m; mds := {| mk := kr; mv := vr; mdel := del |} :: mds m |})
  end.

Fixpoint mem_find (h : heap) (es : list ment) (k : bytes) : option ment :=
  match es with
  | [] => None
  | e :: es' => if beq (deref h (mk e)) k then Some e else mem_find h es' k
  end.

Fixpoint blk_find (b : bytes) (ds : list desc) (k : bytes) : option desc :=
  match ds with
  | [] => None
  | d :: ds' => if beq (dkey b d) k then Some d else blk_find b ds' k
  end.

(* index block + filter: the first block of the table holding the key, judged on the file *)
Fixpoint tab_find (t : table) (k : bytes) (i : nat) : option (nat * fblock) :=
  match t with
  | [] => None
  | fb :: t' =>
      match blk_find (fimg fb) (fds fb) k with
      | Some _ => Some (i, fb)
      | None => tab_find t' k (S i)
      end
  end.

Fixpoint cache_lookup (c : list (nat * nat * loc)) (tid bi : nat) : option loc :=
  match c with
  | [] => None
  | (t, b, l) :: c' => if Nat.eqb t tid && Nat.eqb b bi then Some l else cache_lookup c' tid bi
  end.

(* util.BufferPool.Get / Put (nil pool: make / nothing) *)
Definition pool_get (c : config) (s : state) : state * loc :=
  if pool_on c then
    match pool s with
    | l :: p' => (set_pool (set_hp s (hchown (hp s) l (DB KBlock))) p', l)
    | [] => alloc s [] (DB KBlock)
    end
  else alloc s [] (DB KBlock).

Definition pool_put (c : config) (s : state) (l : loc) : state :=
  if pool_on c then set_pool (set_hp s (hchown (hp s) l Pool)) (l :: pool s) else s.

(* readBlockCached: the cached buffer, or readRawBlock into a pooled/new buffer (with snappy the raw
   bytes go to a first buffer that is put back once the block is decoded into a second one),
   inserted into the cache when there is one.  Returns the buffer and whether the cache holds it. *)
Definition load_block (c : config) (s : state) (tid bi : nat) (fb : fblock) : state * loc * bool :=
  match cache_lookup (cache s) tid bi with
  | Some l => (s, l, true)
  | None =>
      let (s1, l) := pool_get c s in
      let s2 := set_hp s1 (hset (hp s1) l (fimg fb)) in
      let (s3, lb) :=
        if snappy c then
          let (sa, l2) := pool_get c s2 in
          let sb := set_hp sa (hset (hp sa) l2 (fimg fb)) in
          (pool_put c sb l, l2)
        else (s2, l) in
      if cache_on c
      then (set_cache (set_hp s3 (hchown (hp s3) lb Cache)) ((tid, bi, lb) :: cache s3), lb, true)
      else (s3, lb, false)
  end.

(* releasing the block: a cached block stays where it is; an uncached one goes back to the pool *)
Definition release_block (c : config) (s : state) (l : loc) (cached : bool) : state :=
  if cached then s else pool_put c s l.

(* table.Reader.find for one table: None = key not in this table, Some None = tombstone *)
Definition tab_get (md : modes) (c : config) (s : state) (tid : nat) (k : bytes) : state * option (option ref) :=
  match nth_error (files s) tid with
  | None => (s, None)
  | Some t =>
      match tab_find t k 0 with
      | None => (s, None)
      | Some (bi, fb) =>
          let '(s1, l, cached) := load_block c s tid bi fb in
          match blk_find (hget (hp s1) l) (fds fb) k with
          | None => (release_block c s1 l cached, None)
          | Some d =>
              if isdel d then (release_block c s1 l cached, Some None)
              else
                let vr := mkref l (voff d) (vlen d) in
                match md PGetTable c with
                | Copy =>
                    let (s2, r) := transfer Copy s1 vr Client in
                    (release_block c s2 l cached, Some (Some r))
                | Slice =>
                    let s2 := release_block c s1 l cached in
                    (* an uncached, unpooled block is referenced by nothing but the slice: it is the client's now *)
                    let s3 := if cached || pool_on c then s2 else set_hp s2 (hchown (hp s2) l Client) in
                    (s3, Some (Some vr))
                end
          end
      end
  end.

Fixpoint tabs_get (md : modes) (c : config) (s : state) (tids : list nat) (k : bytes) : state * option (option ref) :=
  match tids with
  | [] => (s, None)
  | t :: ts =>
      match tab_get md c s t k with
      | (s1, Some r) => (s1, Some r)
      | (s1, None) => tabs_get md c s1 ts k
      end
  end.

(* findKey (Has): no value is produced *)
Definition tab_has (c : config) (s : state) (tid : nat) (k : bytes) : state * option bool :=
  match nth_error (files s) tid with
  | None => (s, None)
  | Some t =>
      match tab_find t k 0 with
      | None => (s, None)
      | Some (bi, fb) =>
          let '(s1, l, cached) := load_block c s tid bi fb in
          match blk_find (hget (hp s1) l) (fds fb) k with
          | None => (release_block c s1 l cached, None)
          | Some d => (release_block c s1 l cached, Some (negb (isdel d)))
          end
      end
  end.

Fixpoint tabs_has (c : config) (s : state) (tids : list nat) (k : bytes) : state * option bool :=
  match tids with
  | [] => (s, None)
  | t :: ts =>
      match tab_has c s t k with
      | (s1, Some r) => (s1, Some r)
      | (s1, None) => tabs_has c s1 ts k
      end
  end.

Definition mem_get (md : modes) (c : config) (p : path) (s : state) (m : memdb) (k : bytes) : state * option (option ref) :=
  match mem_find (hp s) (mds m) k with
  | None => (s, None)
  | Some e =>
      if mdel e then (s, Some None)
      else let (s1, r) := transfer (md p c) s (mv e) Client in (s1, Some (Some r))
  end.

Definition omem_get (md : modes) (c : config) (p : path) (s : state) (m : option memdb) (k : bytes) : state * option (option ref) :=
  match m with Some m' => mem_get md c p s m' k | None => (s, None) end.

Definition orelse {A} (x : state * option A) (f : state -> state * option A) : state * option A :=
  match x with
  | (s, Some a) => (s, Some a)
  | (s, None) => f s
  end.

(* DB.get(auxm, auxt, key): transaction buffer, live buffer, frozen buffer, then the tables
   (the transaction's, level 0 newest first, deeper levels) *)
Definition db_get (md : modes) (c : config) (s : state) (aux : option txnst) (k : bytes) : state * option (option ref) :=
  orelse (omem_get md c PGetAuxMem s (option_map tmem aux) k) (fun s1 =>
  orelse (mem_get md c PGetMem s1 (mem s1) k) (fun s2 =>
  orelse (omem_get md c PGetMem s2 (frozen s2) k) (fun s3 =>
  tabs_get md c s3 (match aux with Some t => ttabs t | None => [] end ++ l0 s3 ++ deep s3) k))).

Definition mem_has (s : state) (m : option memdb) (k : bytes) : state * option bool :=
  match m with
  | Some m' => match mem_find (hp s) (mds m') k with Some e => (s, Some (negb (mdel e))) | None => (s, None) end
  | None => (s, None)
  end.

Definition db_has (c : config) (s : state) (k : bytes) : state * option bool :=
  orelse (mem_has s (Some (mem s)) k) (fun s2 =>
  orelse (mem_has s2 (frozen s2) k) (fun s3 =>
  tabs_has c s3 (l0 s3 ++ deep s3) k)).

(* ---------------------------------------------------------------- contents, tables *)

Definition mem_content (h : heap) (m : memdb) : list (bytes * option bytes) :=
  map (fun e => (deref h (mk e), if mdel e then None else Some (deref h (mv e)))) (mds m).

Definition resolve (b : bytes) (ds : list desc) : list (bytes * option bytes) :=
  map (fun d => (dkey b d, dval b d)) ds.

(* the table writer: entry layout inside a block *)
Definition enc_entry (off : nat) (e : bytes * option bytes) : desc * bytes :=
  match e with
  | (k, Some v) => ({| koff := off; klen := length k; voff := off + length k; vlen := length v; isdel := false |}, k ++ v)
  | (k, None) => ({| koff := off; klen := length k; voff := off + length k; vlen := 0; isdel := true |}, k)
  end.

Fixpoint mk_block_from (off : nat) (es : list (bytes * option bytes)) : list desc * bytes :=
  match es with
  | [] => ([], [])
  | e :: es' =>
      let (d, b) := enc_entry off e in
      let (ds, img) := mk_block_from (off + length b) es' in
      (d :: ds, b ++ img)
  end.

Definition mk_block (es : list (bytes * option bytes)) : fblock :=
  {| fimg := snd (mk_block_from 0 es); fds := fst (mk_block_from 0 es) |}.

(* blocks of n+1 entries *)
Fixpoint chunks {A} (n : nat) (fuel : nat) (l : list A) : list (list A) :=
  match fuel with
  | O => []
  | S f =>
      match l with
      | [] => []
      | _ => firstn (S n) l :: chunks n f (skipn (S n) l)
      end
  end.

Definition build_table (n : nat) (es : list (bytes * option bytes)) : table :=
  map mk_block (chunks n (length es) es).

(* what a compaction / an iterator reads of a block: the cached buffer if there is one, else the file *)
Definition blk_view (s : state) (tid bi : nat) (fb : fblock) : bytes :=
  match cache_lookup (cache s) tid bi with
  | Some l => hget (hp s) l
  | None => fimg fb
  end.

Fixpoint tab_view_from (s : state) (tid : nat) (t : table) (bi : nat) : list (bytes * option bytes) :=
  match t with
  | [] => []
  | fb :: t' => resolve (blk_view s tid bi fb) (fds fb) ++ tab_view_from s tid t' (S bi)
  end.

Definition tab_view (s : state) (tid : nat) : list (bytes * option bytes) :=
  match nth_error (files s) tid with
  | Some t => tab_view_from s tid t 0
  | None => []
  end.

(* keep the first entry of every key *)
Fixpoint dedupe {A} (l : list (bytes * A)) : list (bytes * A) :=
  match l with
  | [] => []
  | (k, a) :: l' => (k, a) :: filter (fun e => negb (beq (fst e) k)) (dedupe l')
  end.

Fixpoint live {A} (l : list (bytes * option A)) : list (bytes * A) :=
  match l with
  | [] => []
  | (k, Some a) :: l' => (k, a) :: live l'
  | (_, None) :: l' => live l'
  end.

Definition relive {A} (l : list (bytes * A)) : list (bytes * option A) :=
  map (fun e => (fst e, Some (snd e))) l.

Fixpoint insert_sorted {A} (x : bytes * A) (l : list (bytes * A)) : list (bytes * A) :=
  match l with
  | [] => [x]
  | y :: l' =>
      match bcompare (fst x) (fst y) with
      | Gt => y :: insert_sorted x l'
      | _ => x :: l
      end
  end.

Definition sort_keys {A} (l : list (bytes * A)) : list (bytes * A) := fold_right insert_sorted [] l.

(* the merged view an iterator walks: newest entry per key, tombstones dropped, key order *)
Definition canon {A} (l : list (bytes * option A)) : list (bytes * A) := sort_keys (live (dedupe l)).

(* ---------------------------------------------------------------- background work *)

Definition add_table (s : state) (t : table) : state * nat :=
  (set_tabs s (files s ++ [t]) (l0 s) (deep s), length (files s)).

(* rotateMem: the live buffer becomes the frozen one *)
Definition rotate (s : state) : state :=
  match frozen s with
  | Some _ => s
  | None =>
      let (s1, l) := alloc s [] (DB KMem) in
      set_mem (set_frozen s1 (Some (mem s1))) {| mkv := l; mds := [] |}
  end.

(* memCompaction: the frozen buffer is written out as a level-0 table *)
Definition flush_frozen (c : config) (s : state) : state :=
  match frozen s with
  | None => s
  | Some m =>
      let (s1, id) := add_table s (build_table (blk c) (mem_content (hp s) m)) in
      set_frozen (set_tabs s1 (files s1) (id :: l0 s1) (deep s1)) None
  end.

Definition drop_tomb {A} (l : list (bytes * option A)) : list (bytes * option A) :=
  filter (fun e => match snd e with Some _ => true | None => false end) l.

(* table compaction of everything into one table of the deepest level: newest entry per key,
   tombstones dropped (nothing older remains) *)
Definition compact (c : config) (s : state) : state :=
  match l0 s ++ deep s with
  | [] => s
  | tids =>
      let es := flat_map (tab_view s) tids in
      let (s1, id) := add_table s (build_table (blk c) (drop_tomb (dedupe es))) in
      set_tabs s1 (files s1) [] [id]
  end.

Fixpoint remove_nth {A} (n : nat) (l : list A) : list A :=
  match n, l with
  | _, [] => []
  | O, _ :: l' => l'
  | S n', x :: l' => x :: remove_nth n' l'
  end.

(* the block cache drops its n-th block: the buffer goes back to the pool (block.Release) *)
Definition evict (c : config) (s : state) (n : nat) : state :=
  match nth_error (cache s) n with
  | None => s
  | Some (_, _, l) =>
      let s1 := set_cache s (remove_nth n (cache s)) in
      if pool_on c then pool_put c s1 l else set_hp s1 (hchown (hp s1) l (DB KBlock))
  end.

(* Transaction.flush *)
Definition txn_flush (c : config) (s : state) : state :=
  match txn s with
  | None => s
  | Some t =>
      let (s1, id) := add_table s (build_table (blk c) (mem_content (hp s) (tmem t))) in
      let (s2, l) := alloc s1 [] (DB KMem) in
      set_txn s2 (Some {| tmem := {| mkv := l; mds := [] |}; ttabs := id :: ttabs t |})
  end.

(* ---------------------------------------------------------------- iterators *)

Definition mem_srcs (h : heap) (m : memdb) : list (bytes * option src) :=
  map (fun e => (deref h (mk e), if mdel e then None else Some (SMem e))) (mds m).

Fixpoint tab_srcs_from (s : state) (tid : nat) (t : table) (bi : nat) : list (bytes * option src) :=
  match t with
  | [] => []
  | fb :: t' =>
      map (fun d => (dkey (blk_view s tid bi fb) d, if isdel d then None else Some (STab tid bi d))) (fds fb)
      ++ tab_srcs_from s tid t' (S bi)
  end.

Definition tab_srcs (s : state) (tid : nat) : list (bytes * option src) :=
  match nth_error (files s) tid with
  | Some t => tab_srcs_from s tid t 0
  | None => []
  end.

Definition all_srcs (s : state) : list (bytes * option src) :=
  mem_srcs (hp s) (mem s)
  ++ match frozen s with Some m => mem_srcs (hp s) m | None => [] end
  ++ flat_map (tab_srcs s) (l0 s ++ deep s).

Definition new_iter (s : state) : state :=
  let srcs := canon (all_srcs s) in
  let (s1, kb) := alloc s [] (DB KIter) in
  let (s2, vb) := alloc s1 [] (DB KIter) in
  set_iters s2 (iters s2 ++ [{| ikbuf := kb; ivbuf := vb; iexk := mkref kb 0 0; iexv := mkref vb 0 0;
                               isrcs := srcs; ipos := None; ilive := true |}]).

Definition set_pos (it : iter) (p : option nat) : iter :=
  {| ikbuf := ikbuf it; ivbuf := ivbuf it; iexk := iexk it; iexv := iexv it; isrcs := isrcs it; ipos := p; ilive := ilive it |}.

(* dbIter.next: take key and value of the underlying iterator into the iterator's own buffers *)
Definition expose (md : modes) (c : config) (s : state) (it : iter) (kr vr : ref) (p : nat) : state * iter :=
  let kb := deref (hp s) kr in
  let vb := deref (hp s) vr in
  let (s1, ek) :=
    match md PIterKey c with
    | Copy => (set_hp s (hset (hp s) (ikbuf it) kb), mkref (ikbuf it) 0 (length kb))
    | Slice => (s, kr)
    end in
  let (s2, ev) :=
    match md PIterValue c with
    | Copy => (set_hp s1 (hset (hp s1) (ivbuf it) vb), mkref (ivbuf it) 0 (length vb))
    | Slice => (s1, vr)
    end in
  (s2, {| ikbuf := ikbuf it; ivbuf := ivbuf it; iexk := ek; iexv := ev; isrcs := isrcs it; ipos := Some p; ilive := ilive it |}).

Definition file_block (s : state) (tid bi : nat) : option fblock :=
  match nth_error (files s) tid with
  | Some t => nth_error t bi
  | None => None
  end.

Definition iter_load (md : modes) (c : config) (s : state) (it : iter) (p : nat) : state * iter :=
  match nth_error (isrcs it) p with
  | None => (s, set_pos it (Some p))
  | Some (_, SMem e) => expose md c s it (mk e) (mv e) p
  | Some (_, STab tid bi d) =>
      match file_block s tid bi with
      | None => (s, set_pos it (Some p))
      | Some fb =>
          let '(s1, l, cached) := load_block c s tid bi fb in
          let (s2, it') := expose md c s1 it (mkref l (koff d) (klen d)) (mkref l (voff d) (vlen d)) p in
          (release_block c s2 l cached, it')
      end
  end.

Fixpoint replace_nth {A} (n : nat) (l : list A) (x : A) : list A :=
  match n, l with
  | _, [] => []
  | O, _ :: l' => x :: l'
  | S n', y :: l' => y :: replace_nth n' l' x
  end.

(* first position whose key is >= k *)
Fixpoint seek_pos {A} (l : list (bytes * A)) (k : bytes) : nat :=
  match l with
  | [] => O
  | (k', _) :: l' => match bcompare k' k with Lt => S (seek_pos l' k) | _ => O end
  end.

Definition valid_pos {A} (l : list A) (p : option nat) : bool :=
  match p with Some n => Nat.ltb n (length l) | None => false end.

(* ---------------------------------------------------------------- operations *)

Inductive op :=
(* API calls *)
| OPut (k v : bytes)
| ODelete (k : bytes)
| OBatchPut (k v : bytes)
| OBatchDelete (k : bytes)
| OBatchWrite
| OGet (k : bytes)
| OHas (k : bytes)
| OTxnOpen
| OTxnPut (k v : bytes)
| OTxnDelete (k : bytes)
| OTxnGet (k : bytes)
| OTxnCommit
| OTxnDiscard
| OIterNew
| OIterNext (i : nat)
| OIterSeek (i : nat) (k : bytes)
| OIterRead (i : nat)
| OIterRelease (i : nat)
(* background work of the DB, at any time *)
| ERotate
| EFlush
| ECompact
| EEvict (n : nat)
| ETxnFlush
(* the client overwrites, through its i-th buffer and from offset pos of that slice on, bytes with g *)
| CScribble (i pos : nat) (g : bytes).

Inductive out :=
| OVal (v : option bytes)               (* Get: value or ErrNotFound *)
| OBool (b : bool)                      (* Has, Next, Seek *)
| OPair (kv : option (bytes * bytes))   (* Key()/Value() of an iterator, None = not valid *)
| OBlocked.                             (* a write while a transaction is open would wait *)

Definition put_rec (md : modes) (c : config) (s : state) (k v : bytes) (del : bool) : state :=
  let (s1, kr) := client_buf s k in
  let (s2, vr) := if del then (s1, mkref (rloc kr) 0 0) else client_buf s1 v in
  (* batch := db.batchPool.Get(); batch.Reset(); batch.appendRec(kt, key, value) *)
  let '(s3, bkr, bvr) :=
    match md PPutRec c with
    | Copy =>
        let vb := if del then [] else v in
        (set_hp s2 (hset (hp s2) (wbatch s2) (k ++ vb)), mkref (wbatch s2) 0 (length k), mkref (wbatch s2) (length k) (length vb))
    | Slice => (s2, kr, vr)
    end in
  (* writeLocked -> batch.putMem -> memdb.Put *)
  let (s4, m) := memdb_put md c s3 (mem s3) bkr bvr del in
  set_mem s4 m.

Definition batch_append (md : modes) (c : config) (s : state) (k v : bytes) (del : bool) : state :=
  let (s1, kr) := client_buf s k in
  let (s2, vr) := if del then (s1, mkref (rloc kr) 0 0) else client_buf s1 v in
  let '(s3, bl, recs) :=
    match cbatch s2 with
    | Some (bl, recs) => (s2, bl, recs)
    | None => let (s', bl) := alloc s2 [] ClientBatch in (s', bl, [])
    end in
  match md PBatchAppend c with
  | Copy =>
      let vb := if del then [] else v in
      let old := length (hget (hp s3) bl) in
      let e := {| mk := mkref bl old (length k); mv := mkref bl (old + length k) (length vb); mdel := del |} in
      set_cbatch (set_hp s3 (happend (hp s3) bl (k ++ vb))) (Some (bl, e :: recs))
  | Slice =>
      set_cbatch s3 (Some (bl, {| mk := kr; mv := vr; mdel := del |} :: recs))
  end.

(* Batch.putMem: memdb.Put of every record into the live write buffer, oldest first *)
Fixpoint put_mem (md : modes) (c : config) (s : state) (recs : list ment) : state :=
  match recs with
  | [] => s
  | e :: recs' =>
      let (s1, m1) := memdb_put md c s (mem s) (mk e) (mv e) (mdel e) in
      put_mem md c (set_mem s1 m1) recs'
  end.

Definition batch_write (md : modes) (c : config) (s : state) : state :=
  match cbatch s with
  | None => s
  | Some (bl, recs) =>
      let s1 := put_mem md c s (rev recs) in
      let s2 := set_hp s1 (hchown (hp s1) bl Client) in
      (* Write has returned: the batch and its buffer are the client's to reuse *)
      set_cbatch (set_cvis s2 (whole (hp s2) bl :: cvis s2)) None
  end.

Definition txn_put (md : modes) (c : config) (s : state) (k v : bytes) (del : bool) : state :=
  match txn s with
  | None => s
  | Some t =>
      let (s1, kr) := client_buf s k in
      let (s2, vr) := if del then (s1, mkref (rloc kr) 0 0) else client_buf s1 v in
      let (s3, m) := memdb_put md c s2 (tmem t) kr vr del in
      set_txn s3 (Some {| tmem := m; ttabs := ttabs t |})
  end.

Definition txn_open (c : config) (s : state) : state :=
  match txn s with
  | Some _ => s
  | None =>
      (* OpenTransaction flushes the write buffers first *)
      let s1 := flush_frozen c (rotate (flush_frozen c s)) in
      let (s2, l) := alloc s1 [] (DB KMem) in
      set_txn s2 (Some {| tmem := {| mkv := l; mds := [] |}; ttabs := [] |})
  end.

Definition txn_commit (c : config) (s : state) : state :=
  match txn (txn_flush c s) with
  | None => s
  | Some t => let s1 := txn_flush c s in set_txn (set_tabs s1 (files s1) (ttabs t ++ l0 s1) (deep s1)) None
  end.

Definition get_out (s : state) (r : option (option ref)) : state * option out :=
  match r with
  | Some (Some v) => (set_cvis s (v :: cvis s), Some (OVal (Some (deref (hp s) v))))
  | _ => (s, Some (OVal None))
  end.

Definition has_out (r : option bool) : option out :=
  match r with Some b => Some (OBool b) | None => Some (OBool false) end.

Definition scribble (s : state) (i pos : nat) (g : bytes) : state :=
  match nth_error (cvis s) i with
  | None => s
  | Some r => set_hp s (hset (hp s) (rloc r) (overwrite (hget (hp s) (rloc r)) (roff r + pos) g))
  end.

Definition is_some {A} (o : option A) : bool := match o with Some _ => true | None => false end.

Definition step (md : modes) (c : config) (s : state) (o : op) : state * option out :=
  match o with
  | OPut k v => if is_some (txn s) then (s, Some OBlocked) else (put_rec md c s k v false, None)
  | ODelete k => if is_some (txn s) then (s, Some OBlocked) else (put_rec md c s k [] true, None)
  | OBatchPut k v => (batch_append md c s k v false, None)
  | OBatchDelete k => (batch_append md c s k [] true, None)
  | OBatchWrite => if is_some (txn s) then (s, Some OBlocked) else (batch_write md c s, None)
  | OGet k =>
      let (s1, _) := client_buf s k in
      let (s2, r) := db_get md c s1 None k in
      get_out s2 r
  | OHas k =>
      let (s1, _) := client_buf s k in
      let (s2, r) := db_has c s1 k in
      (s2, has_out r)
  | OTxnOpen => (txn_open c s, None)
  | OTxnPut k v => (txn_put md c s k v false, None)
  | OTxnDelete k => (txn_put md c s k [] true, None)
  | OTxnGet k =>
      match txn s with
      | None => (s, None)
      | Some t =>
          let (s1, _) := client_buf s k in
          let (s2, r) := db_get md c s1 (Some t) k in
          get_out s2 r
      end
  | OTxnCommit => (txn_commit c s, None)
  | OTxnDiscard => (set_txn s None, None)
  | OIterNew => (new_iter s, None)
  | OIterNext i =>
      match nth_error (iters s) i with
      | None => (s, None)
      | Some it =>
          if ilive it then
            let p := match ipos it with None => O | Some n => S n end in
            let (s1, it') := iter_load md c s it p in
            (set_iters s1 (replace_nth i (iters s1) it'), Some (OBool (Nat.ltb p (length (isrcs it)))))
          else (s, None)
      end
  | OIterSeek i k =>
      match nth_error (iters s) i with
      | None => (s, None)
      | Some it =>
          if ilive it then
            let (s0, _) := client_buf s k in
            let p := seek_pos (isrcs it) k in
            let (s1, it') := iter_load md c s0 it p in
            (set_iters s1 (replace_nth i (iters s1) it'), Some (OBool (Nat.ltb p (length (isrcs it)))))
          else (s, None)
      end
  | OIterRead i =>
      match nth_error (iters s) i with
      | None => (s, None)
      | Some it =>
          if ilive it && valid_pos (isrcs it) (ipos it)
          then (s, Some (OPair (Some (deref (hp s) (iexk it), deref (hp s) (iexv it)))))
          else (s, Some (OPair None))
      end
  | OIterRelease i =>
      match nth_error (iters s) i with
      | None => (s, None)
      | Some it =>
          (set_iters s (replace_nth i (iters s)
             {| ikbuf := ikbuf it; ivbuf := ivbuf it; iexk := iexk it; iexv := iexv it; isrcs := isrcs it; ipos := ipos it; ilive := false |}), None)
      end
  | ERotate => (rotate s, None)
  | EFlush => (flush_frozen c s, None)
  | ECompact => (compact c s, None)
  | EEvict n => (evict c s n, None)
  | ETxnFlush => (txn_flush c s, None)
  | CScribble i pos g => (scribble s i pos g, None)
  end.

Fixpoint run (md : modes) (c : config) (s : state) (p : list op) : state * list out :=
  match p with
  | [] => (s, [])
  | o :: p' =>
      let (s1, x) := step md c s o in
      let (s2, xs) := run md c s1 p' in
      (s2, match x with Some y => y :: xs | None => xs end)
  end.

Definition outputs (md : modes) (c : config) (p : list op) : list out := snd (run md c init p).
Definition final (md : modes) (c : config) (p : list op) : state := fst (run md c init p).

(* ---------------------------------------------------------------- the specification: a plain map *)

Definition amap := list (bytes * option bytes).      (* newest first; None = deleted *)

Fixpoint assoc {A} (k : bytes) (l : list (bytes * A)) : option A :=
  match l with
  | [] => None
  | (k', a) :: l' => if beq k' k then Some a else assoc k l'
  end.

Definition glookup (k : bytes) (l : amap) : option bytes :=
  match assoc k l with Some (Some v) => Some v | _ => None end.

Record siter := { slist : list (bytes * bytes); spos : option nat; slive : bool }.

Record sstate := {
  sbase : amap;
  stxn : option amap;
  sbat : amap;
  sits : list siter
}.

Definition sinit : sstate := {| sbase := []; stxn := None; sbat := []; sits := [] |}.

Definition sstep (s : sstate) (o : op) : sstate * option out :=
  match o with
  | OPut k v =>
      if is_some (stxn s) then (s, Some OBlocked)
      else ({| sbase := (k, Some v) :: sbase s; stxn := stxn s; sbat := sbat s; sits := sits s |}, None)
  | ODelete k =>
      if is_some (stxn s) then (s, Some OBlocked)
      else ({| sbase := (k, None) :: sbase s; stxn := stxn s; sbat := sbat s; sits := sits s |}, None)
  | OBatchPut k v => ({| sbase := sbase s; stxn := stxn s; sbat := (k, Some v) :: sbat s; sits := sits s |}, None)
  | OBatchDelete k => ({| sbase := sbase s; stxn := stxn s; sbat := (k, None) :: sbat s; sits := sits s |}, None)
  | OBatchWrite =>
      if is_some (stxn s) then (s, Some OBlocked)
      else ({| sbase := sbat s ++ sbase s; stxn := stxn s; sbat := []; sits := sits s |}, None)
  | OGet k => (s, Some (OVal (glookup k (sbase s))))
  | OHas k => (s, Some (OBool (is_some (glookup k (sbase s)))))
  | OTxnOpen =>
      match stxn s with
      | Some _ => (s, None)
      | None => ({| sbase := sbase s; stxn := Some (sbase s); sbat := sbat s; sits := sits s |}, None)
      end
  | OTxnPut k v =>
      match stxn s with
      | None => (s, None)
      | Some t => ({| sbase := sbase s; stxn := Some ((k, Some v) :: t); sbat := sbat s; sits := sits s |}, None)
      end
  | OTxnDelete k =>
      match stxn s with
      | None => (s, None)
      | Some t => ({| sbase := sbase s; stxn := Some ((k, None) :: t); sbat := sbat s; sits := sits s |}, None)
      end
  | OTxnGet k =>
      match stxn s with
      | None => (s, None)
      | Some t => (s, Some (OVal (glookup k t)))
      end
  | OTxnCommit =>
      match stxn s with
      | None => (s, None)
      | Some t => ({| sbase := t; stxn := None; sbat := sbat s; sits := sits s |}, None)
      end
  | OTxnDiscard => ({| sbase := sbase s; stxn := None; sbat := sbat s; sits := sits s |}, None)
  | OIterNew =>
      ({| sbase := sbase s; stxn := stxn s; sbat := sbat s;
          sits := sits s ++ [{| slist := canon (sbase s); spos := None; slive := true |}] |}, None)
  | OIterNext i =>
      match nth_error (sits s) i with
      | None => (s, None)
      | Some it =>
          if slive it then
            let p := match spos it with None => O | Some n => S n end in
            ({| sbase := sbase s; stxn := stxn s; sbat := sbat s;
                sits := replace_nth i (sits s) {| slist := slist it; spos := Some p; slive := true |} |},
             Some (OBool (Nat.ltb p (length (slist it)))))
          else (s, None)
      end
  | OIterSeek i k =>
      match nth_error (sits s) i with
      | None => (s, None)
      | Some it =>
          if slive it then
            let p := seek_pos (slist it) k in
            ({| sbase := sbase s; stxn := stxn s; sbat := sbat s;
                sits := replace_nth i (sits s) {| slist := slist it; spos := Some p; slive := true |} |},
             Some (OBool (Nat.ltb p (length (slist it)))))
          else (s, None)
      end
  | OIterRead i =>
      match nth_error (sits s) i with
      | None => (s, None)
      | Some it =>
          if slive it then
            (s, Some (OPair (match spos it with Some p => nth_error (slist it) p | None => None end)))
          else (s, Some (OPair None))
      end
  | OIterRelease i =>
      match nth_error (sits s) i with
      | None => (s, None)
      | Some it =>
          ({| sbase := sbase s; stxn := stxn s; sbat := sbat s;
              sits := replace_nth i (sits s) {| slist := slist it; spos := spos it; slive := false |} |}, None)
      end
  | ERotate | EFlush | ECompact | EEvict _ | ETxnFlush | CScribble _ _ _ => (s, None)
  end.

Fixpoint srun (s : sstate) (p : list op) : list out :=
  match p with
  | [] => []
  | o :: p' =>
      let (s1, x) := sstep s o in
      match x with Some y => y :: srun s1 p' | None => srun s1 p' end
  end.

Definition spec_outputs (p : list op) : list out := srun sinit p.

(* the same program without the client's scribbles / without the background work *)
Definition is_scribble (o : op) : bool := match o with CScribble _ _ _ => true | _ => false end.
Definition is_env (o : op) : bool :=
  match o with ERotate | EFlush | ECompact | EEvict _ | ETxnFlush => true | _ => false end.
Definition no_scribbles (p : list op) : list op := filter (fun o => negb (is_scribble o)) p.

(* ---------------------------------------------------------------- separation *)

(* every location a DB-side structure refers to *)
Definition ment_locs (e : ment) : list loc := [rloc (mk e); rloc (mv e)].
Definition memdb_locs (m : memdb) : list loc := mkv m :: flat_map ment_locs (mds m).
Definition src_locs (x : bytes * src) : list loc :=
  match snd x with SMem e => ment_locs e | STab _ _ _ => [] end.
Definition iter_locs (it : iter) : list loc :=
  if ilive it then [ikbuf it; ivbuf it; rloc (iexk it); rloc (iexv it)] ++ flat_map src_locs (isrcs it) else [].

Definition db_reach (s : state) : list loc :=
  memdb_locs (mem s)
  ++ match frozen s with Some m => memdb_locs m | None => [] end
  ++ match txn s with Some t => memdb_locs (tmem t) | None => [] end
  ++ map (fun x => snd x) (cache s)
  ++ pool s
  ++ [wbatch s]
  ++ flat_map iter_locs (iters s).

(* the locations the client can write to *)
Definition client_locs (s : state) : list loc := map rloc (cvis s).

Definition owned_by_client (s : state) (l : loc) : Prop := hown (hp s) l = Some Client.

Definition separated (s : state) : Prop :=
  (forall r, In r (cvis s) -> owned_by_client s (rloc r))
  /\ (forall l, In l (db_reach s) -> exists o, hown (hp s) l = Some o /\ is_client o = false).
