(* Alias/XIterProofs.v — iterators of Alias/XModel.v: what Key()/Value() expose is stable across everything that
   neither moves nor releases that iterator, for all movement sequences (First/Last/Seek/Next/Prev, forward and
   backward), and stays as it is for ever once the iterator is released (the two buffers are left to the garbage
   collector, never pooled).  Refutations of the realistic mutants by computation. *)
From Coq Require Import List NArith Bool Arith Lia Permutation.
From GL Require Import Alias.Heap Alias.HeapProofs Alias.AliasModel Alias.XModel Alias.XPoolProofs Alias.XInvProofs.
From GL Require Base.UBuffer.
Import ListNotations.
Local Open Scope nat_scope.

(* both directions copy key and value (the code) *)
Definition iter_modes_copy (md : xmodes) : Prop :=
  forall k d c, md (XPIterKey k d) c = Copy /\ md (XPIterValue k d) c = Copy.

Lemma xfixed_iter_copy : iter_modes_copy xfixed.
Proof. intros k d c. split; reflexivity. Qed.

(* ---------------------------------------------------------------- footprints of the steps that leave the iterator records alone *)

Lemma foot_alloc c s x o X : XInv c s -> foot s (fst (xalloc s x o)) X.
Proof.
  intros Xi l Hl _. unfold xalloc. cbn [fst xbm xset_bm]. destruct (bm_alloc_spec (xbm s) x o) as (_ & _ & _ & _ & _ & _ & Hold).
  apply Hold. apply (claims_lt c s l Xi Hl).
Qed.

Lemma foot_hset_tag c s l x o X : XInv c s -> tag (xbm s) l = Some o -> o <> DB KIter -> foot s (xset_hp s (hset (xhp s) l x)) X.
Proof.
  intros Xi Ht Ho y Hy _. apply (foot_hset s l x y Hy). intros ->. pose proof (iter_buf_tag c s l Xi Hy). congruence.
Qed.

Lemma foot_writer c s n pick g X : XInv c s -> foot s (table_writer c s n pick g) X.
Proof.
  intros Xi l Hl _. unfold table_writer, bm_writer. cbn [xbm xset_bm]. pose proof Xi as [R _].
  pose proof (bpool_get_spec c (xbm s) n pick (r_bm _ _ _ _ R)) as S.
  destruct (bpool_get c (xbm s) n pick) as [b1 l1]. cbn [fst snd] in S. destruct S as (I1 & T1 & N1 & C1 & O1 & K1 & Q1 & _).
  pose proof (iter_buf_tag c s l Xi Hl) as Ht. assert (Lt : l < length (bh (xbm s))) by (eapply tag_lt; eauto).
  assert (Hne : l <> l1). { destruct O1 as [O1|O1]; [congruence|lia]. }
  assert (E1 : cont (bm_hp b1 (hset (bh b1) l1 g)) l = cont (xbm s) l).
  { unfold cont. cbn [bh bm_hp]. rewrite hget_hset_other by auto. apply Q1; auto. }
  rewrite <- E1. unfold bpool_put. destruct (pool_on c); auto. unfold cont. cbn [bh bm_hp bm_pool]. apply hget_hchown.
Qed.

Lemma foot_evict c s k X : XInv c s -> foot s (xevict c s k) X.
Proof.
  intros Xi. unfold xevict. destruct (nth_error (xcache s) k) as [n|] eqn:Ek; [|apply foot_refl].
  pose proof Xi as [R _]. pose proof (RInv_set_lru c (xbm s) _ _ k n false R Ek) as R1.
  intros l Hl _. cbn [xbm xset_bm].
  pose proof (gc_node_spec c _ (held_anywhere s (n_loc n)) (n_loc n) (r_bm _ _ _ _ R1)) as (_ & _ & Q & _).
  rewrite Q; auto. cbn [bh bm_cache]. eapply tag_lt. eapply iter_buf_tag; eauto.
Qed.

(* ---------------------------------------------------------------- what a step does to the record and the buffers of iterator i *)

Lemma get_iter_app s s' i it x : xiters s' = xiters s ++ [x] -> get_iter s i = Some it -> get_iter s' i = Some it.
Proof. unfold get_iter. intros -> H. rewrite nth_error_app1; auto. apply nth_error_Some. congruence. Qed.

Lemma bufs_in s i it : get_iter s i = Some it -> forall l, In l (iter_buf_locs it) -> In l (iter_bufs s).
Proof. intros H l Hl. unfold iter_bufs. apply in_flat_map. exists it. split; auto. eapply nth_error_In; eauto. Qed.

Lemma nodup_flat_map_nth {A B} (f : A -> list B) (l : list A) : NoDup (flat_map f l) ->
  forall i j x y b, i <> j -> nth_error l i = Some x -> nth_error l j = Some y -> In b (f x) -> In b (f y) -> False.
Proof.
  induction l as [|a l IH]; intros N i j x y b Hn Hi Hj Hx Hy; [destruct i; discriminate|].
  simpl in N. apply nodup_app_inv in N. destruct N as (Na & Nl & Hd).
  destruct i as [|i]; destruct j as [|j]; simpl in *; try congruence.
  - inversion Hi; subst. apply (Hd b Hx). apply in_flat_map. exists y. split; auto. eapply nth_error_In; eauto.
  - inversion Hj; subst. apply (Hd b Hy). apply in_flat_map. exists x. split; auto. eapply nth_error_In; eauto.
  - eapply (IH Nl i j); eauto.
Qed.

(* the buffers of two iterators are different *)
Lemma bufs_disjoint c s i j it l : XInv c s -> i <> j -> get_iter s i = Some it -> In l (iter_buf_locs it) -> ~ bufs_of s j l.
Proof.
  intros [_ N] Hn Hi Hl (it' & Hj & Hl'). unfold iter_bufs in N. eapply (nodup_flat_map_nth iter_buf_locs _ N i j); eauto.
Qed.

Definition other_step (md : xmodes) (c : config) (i : nat) (s s' : xstate) : Prop :=
  (forall it, get_iter s i = Some it -> get_iter s' i = Some it) /\
  (forall it, get_iter s i = Some it -> forall l, In l (iter_buf_locs it) -> cont (xbm s') l = cont (xbm s) l).

Lemma other_of_foot md c i s s' : (forall it, get_iter s i = Some it -> get_iter s' i = Some it) ->
  foot s s' (fun _ => False) -> other_step md c i s s'.
Proof. intros G F. split; auto. intros it Hi l Hl. apply F; auto. eapply bufs_in; eauto. Qed.

Lemma keep_iters s s' i : xiters s' = xiters s -> forall it, get_iter s i = Some it -> get_iter s' i = Some it.
Proof. unfold get_iter. intros ->. auto. Qed.

Lemma foot_put md c s k v del X : XInv c s -> foot s (xput md c s k v del) X.
Proof.
  intros Xi. unfold xput, xmem_put. cbn. intros l Hl Hn.
  change (cont (xbm (xset_hp s (happend (xhp s) (mkv (xmem s)) (ikey k (S (xseq s)) ++ (if del then [] else v))))) l = cont (xbm s) l).
  unfold happend. eapply (foot_hset_tag c s (mkv (xmem s)) _ (DB KMem)); eauto; [|discriminate]. destruct Xi as [R _].
  apply (r_claims _ _ _ _ R). unfold claims. apply in_or_app. right. left. reflexivity.
Qed.

Lemma foot_txn_put md c s k v del X : XInv c s -> foot s (xtxn_put md c s k v del) X.
Proof.
  intros Xi. unfold xtxn_put. destruct (xtxn s) as [t|] eqn:Et; [|apply foot_refl]. unfold xmem_put. cbn. intros l Hl Hn.
  change (cont (xbm (xset_hp s (happend (xhp s) (mkv (tmem t)) (ikey k (S (xseq s)) ++ (if del then [] else v))))) l = cont (xbm s) l).
  unfold happend. eapply (foot_hset_tag c s (mkv (tmem t)) _ (DB KMem)); eauto; [|discriminate]. destruct Xi as [R _].
  apply (r_claims _ _ _ _ R). unfold claims. apply in_or_app. right. right. rewrite Et. left. reflexivity.
Qed.

Lemma foot_flush c s pick X : XInv c s -> foot s (xflush c s pick) X.
Proof.
  intros Xi. unfold xflush.
  set (t := build_table (blk c) (mem_content (xhp s) (xmem s))).
  set (s1 := table_writer c s (N.of_nat (length (first_img t) + 5)) pick (first_img t)).
  set (s1' := xset_tabs s1 (xfiles s1 ++ [t]) (length (xfiles s1) :: xlive s1)).
  intros l Hl Hn. destruct (xalloc s1' [] (DB KMem)) as [s2 l2] eqn:Ea. cbn [xbm xset_mem].
  assert (E2 : cont (xbm s2) l = cont (xbm s1') l).
  { assert (X1' : XInv c s1').
    { eapply XInv_claims_same; [apply (XInv_table_writer c s (N.of_nat (length (first_img t) + 5)) pick (first_img t) Xi)|reflexivity|reflexivity|apply incl_refl|reflexivity]. }
    pose proof (foot_alloc c s1' [] (DB KMem) X X1' l) as F. rewrite Ea in F. cbn [fst] in F. apply F; auto. }
  rewrite E2. change (cont (xbm s1') l) with (cont (xbm s1) l). apply (foot_writer c s _ _ _ X Xi l Hl Hn).
Qed.

Lemma foot_txn_flush c s pick X : XInv c s -> foot s (xtxn_flush c s pick) X.
Proof.
  intros Xi. unfold xtxn_flush. destruct (xtxn s) as [tx|]; [|apply foot_refl].
  set (t := build_table (blk c) (mem_content (xhp s) (tmem tx))).
  set (s1 := table_writer c s (N.of_nat (length (first_img t) + 5)) pick (first_img t)).
  set (s1' := xset_tabs s1 (xfiles s1 ++ [t]) (xlive s1)).
  intros l Hl Hn. destruct (xalloc s1' [] (DB KMem)) as [s2 l2] eqn:Ea. cbn [xbm xset_txn].
  assert (E2 : cont (xbm s2) l = cont (xbm s1') l).
  { assert (X1' : XInv c s1').
    { eapply XInv_claims_same; [apply (XInv_table_writer c s (N.of_nat (length (first_img t) + 5)) pick (first_img t) Xi)|reflexivity|reflexivity|apply incl_refl|reflexivity]. }
    pose proof (foot_alloc c s1' [] (DB KMem) X X1' l) as F. rewrite Ea in F. cbn [fst] in F. apply F; auto. }
  rewrite E2. change (cont (xbm s1') l) with (cont (xbm s1) l). apply (foot_writer c s _ _ _ X Xi l Hl Hn).
Qed.

Lemma xiters_txn_flush c s pick : xiters (xtxn_flush c s pick) = xiters s.
Proof. unfold xtxn_flush. destruct (xtxn s); auto. Qed.

Lemma foot_get_begin c s a k ex pk X : XInv c s -> foot s (xget_begin c s a k ex pk) X /\ xiters (xget_begin c s a k ex pk) = xiters s.
Proof.
  intros Xi. unfold xget_begin.
  destruct (XInv_touch c ex s Xi) as (X1 & T1 & T2 & T3 & T4 & T5 & T6 & T7 & T8 & T9 & Ft).
  set (s1 := touch_blocks c s ex) in *.
  assert (F1 : foot s s1 X) by (eapply foot_weaken; [exact Ft|intros l []]).
  destruct (xfind s a k) as [[e|tid bi d]|]; cbn [xbm xset_calls xiters]; try (split; [exact F1|exact T1]).
  pose proof (XInv_acquire c s1 tid bi pk X1) as A. pose proof (xacquire_frame c s1 tid bi pk) as F.
  destruct (xacquire c s1 tid bi pk) as [s2 oh]. cbn [fst snd] in A, F. destruct A as (X2 & Ft2 & _). destruct F as (F2 & _).
  cbn [xbm xset_calls xiters]. split; [|congruence].
  eapply foot_trans; [exact F1|eapply foot_weaken; [exact Ft2|intros l []]|]. intros l Hl. rewrite (iter_bufs_eq s s1 T1). auto.
Qed.

(* contents never change when a buffer changes hands *)
Lemma bpool_put_cont c b l y : cont (bpool_put c b l) y = cont b y.
Proof. unfold bpool_put. destruct (pool_on c); auto. unfold cont. cbn [bh bm_hp bm_pool]. apply hget_hchown. Qed.

Lemma gc_node_cont c b held l y : cont (gc_node c b held l) y = cont b y.
Proof.
  unfold gc_node. destruct (node_of (bca b) l); auto. destruct (n_lru c0 || held); auto. rewrite bpool_put_cont. reflexivity.
Qed.

Lemma release_cont c s h y : cont (xbm (xrelease c s h)) y = cont (xbm s) y.
Proof.
  unfold xrelease, release_hold. cbn [xbm xset_bm]. destruct (h_kind h); [apply gc_node_cont|apply bpool_put_cont].
Qed.

Lemma alloc_cont s x o y : y < length (xhp s) -> cont (xbm (fst (xalloc s x o))) y = cont (xbm s) y.
Proof. intros H. unfold xalloc. cbn [fst xbm xset_bm]. apply (bm_alloc_spec (xbm s) x o). exact H. Qed.

Lemma alloc_len s x o : length (xhp (fst (xalloc s x o))) = S (length (xhp s)).
Proof. unfold xalloc, xhp. cbn [fst xbm xset_bm]. apply (bm_alloc_spec (xbm s) x o). Qed.

Lemma get_end_cont md c s j y : y < length (xhp s) -> cont (xbm (fst (xget_end md c s j))) y = cont (xbm s) y.
Proof.
  intros Hy. unfold xget_end. destruct (nth_error (xcalls s) j) as [cl|]; [|reflexivity]. destruct (c_done cl); [reflexivity|].
  set (s0 := xset_calls s _). assert (E0 : forall z, cont (xbm s0) z = cont (xbm s) z) by reflexivity.
  assert (L0 : length (xhp s0) = length (xhp s)) by reflexivity.
  destruct (c_src cl) as [[e|tid bi d]|]; cbn [fst].
  - unfold xtransfer. destruct (md (XPGetMem (c_kind cl)) c).
    + destruct (xalloc s0 (deref (xhp s0) (mv e)) Client) as [s1 l1] eqn:Ea. cbn [fst xbm xset_cvis].
      pose proof (alloc_cont s0 (deref (xhp s0) (mv e)) Client y) as A. rewrite Ea in A. cbn [fst] in A. rewrite A; auto.
    + cbn [fst xbm xset_cvis]. auto.
  - destruct (c_hold cl) as [h|]; cbn [fst]; [|auto].
    destruct (md (XPGetTable (c_kind cl)) c).
    + unfold xtransfer. set (x := deref (xhp s0) (mkref (h_loc h) (voff d) (vlen d))).
      destruct (xalloc s0 x Client) as [s1 l1] eqn:Ea. cbn [fst xbm xset_cvis]. rewrite release_cont.
      pose proof (alloc_cont s0 x Client y) as A. rewrite Ea in A. cbn [fst] in A. rewrite A; auto.
    + cbn [fst xbm xset_cvis]. destruct (h_kind h); [rewrite release_cont; auto|]. destruct (pool_on c); [rewrite release_cont; auto|].
      transitivity (cont (xbm (xrelease c s0 h)) y); [|rewrite release_cont; auto].
      unfold xset_hp, cont, xhp. cbn [xbm xset_bm bh bm_hp]. apply hget_hchown.
  - destruct (c_hold cl) as [h|]; cbn [fst]; [rewrite release_cont|]; auto.
Qed.

Lemma get_end_iters md c s j : xiters (fst (xget_end md c s j)) = xiters s.
Proof.
  unfold xget_end. destruct (nth_error (xcalls s) j) as [cl|]; [|reflexivity]. destruct (c_done cl); [reflexivity|].
  destruct (c_src cl) as [[e|tid bi d]|]; cbn [fst].
  - unfold xtransfer. destruct (md (XPGetMem (c_kind cl)) c); reflexivity.
  - destruct (c_hold cl) as [h|]; cbn [fst]; [|reflexivity]. unfold xtransfer.
    destruct (md (XPGetTable (c_kind cl)) c); [reflexivity|]. destruct (h_kind h); [reflexivity|]. destruct (pool_on c); reflexivity.
  - destruct (c_hold cl); reflexivity.
Qed.

Lemma txn_commit_frame c s pick X : XInv c s -> foot s (xtxn_commit c s pick) X /\ xiters (xtxn_commit c s pick) = xiters s.
Proof.
  intros Xi. unfold xtxn_commit. pose proof (foot_txn_flush c s pick X Xi) as F. pose proof (xiters_txn_flush c s pick) as E.
  destruct (xtxn (xtxn_flush c s pick)); [|split; [apply foot_refl|reflexivity]]. split; [exact F|exact E].
Qed.

Lemma txn_open_frame c s X : XInv c s -> foot s (xtxn_open s) X /\ xiters (xtxn_open s) = xiters s.
Proof.
  intros Xi. unfold xtxn_open. destruct (xtxn s); [split; [apply foot_refl|reflexivity]|].
  pose proof (foot_alloc c s [] (DB KMem) X Xi) as F. destruct (xalloc s [] (DB KMem)) as [s1 l] eqn:Ea. cbn [fst] in F.
  split; [exact F|]. unfold xalloc in Ea. inversion Ea; subst. reflexivity.
Qed.

(* a step that neither moves nor releases iterator i leaves its record and the contents of its two buffers alone *)
Lemma other_step_holds md c i s o : XInv c s -> xmoves i o = false -> other_step md c i s (fst (xstep md c s o)).
Proof.
  intros Xi Hm. destruct o; cbn [xstep fst xmoves] in *.
  - destruct (is_some (xtxn s)); cbn [fst]; [split; auto|]. apply other_of_foot; [apply keep_iters; reflexivity|apply foot_put; auto].
  - destruct (is_some (xtxn s)); cbn [fst]; [split; auto|]. apply other_of_foot; [apply keep_iters; reflexivity|apply foot_put; auto].
  - split; auto.
  - destruct (foot_get_begin c s a k ex pk (fun _ => False) Xi) as [F E]. apply other_of_foot; [apply keep_iters; auto|auto].
  - split; [apply keep_iters; apply get_end_iters|]. intros it Hi l Hl. apply get_end_cont.
    apply (claims_lt c s l Xi). eapply bufs_in; eauto.
  - destruct (XInv_new_iter c s a Xi) as (_ & _ & E). split; [intros it Hi; eapply get_iter_app; eauto|].
    intros it Hi l Hl. unfold xnew_iter.
    assert (Lt : l < length (xhp s)) by (apply (claims_lt c s l Xi); eapply bufs_in; eauto).
    destruct (xalloc s [] (DB KIter)) as [s1 kb] eqn:E1. destruct (xalloc s1 [] (DB KIter)) as [s2 vb] eqn:E2. cbn [xbm xset_iters].
    pose proof (alloc_cont s [] (DB KIter) l Lt) as A1. rewrite E1 in A1. cbn [fst] in A1.
    pose proof (alloc_len s [] (DB KIter)) as L1. rewrite E1 in L1. cbn [fst] in L1.
    pose proof (alloc_cont s1 [] (DB KIter) l) as A2. rewrite E2 in A2. cbn [fst] in A2. rewrite A2, A1; auto. lia.
  - (* a movement of another iterator *)
    apply Nat.eqb_neq in Hm. destruct (XInv_iter_move2 md c s i0 m ex pk ex2 Xi) as (_ & _ & (L & O & _) & F).
    split; [intros it Hi; rewrite O; auto|]. intros it Hi l Hl. apply F; [eapply bufs_in; eauto|].
    eapply bufs_disjoint; eauto.
  - split; auto.
  - (* the release of another iterator *)
    apply Nat.eqb_neq in Hm. destruct (XInv_iter_release c s i0 Xi) as (_ & _ & (L & O & _) & F).
    split; [intros it Hi; rewrite O; auto|]. intros it Hi l Hl. apply F; [eapply bufs_in; eauto|auto].
  - destruct (txn_open_frame c s (fun _ => False) Xi) as [F E]. apply other_of_foot; [apply keep_iters; auto|auto].
  - apply other_of_foot; [apply keep_iters; unfold xtxn_put; destruct (xtxn s); reflexivity|apply foot_txn_put; auto].
  - apply other_of_foot; [apply keep_iters; unfold xtxn_put; destruct (xtxn s); reflexivity|apply foot_txn_put; auto].
  - destruct (txn_commit_frame c s pick (fun _ => False) Xi) as [F E]. apply other_of_foot; [apply keep_iters; auto|auto].
  - split; auto.
  - destruct (is_some (xtxn s)); cbn [fst]; [split; auto|]. apply other_of_foot; [apply keep_iters; reflexivity|apply foot_flush; auto].
  - apply other_of_foot; [apply keep_iters; apply xiters_txn_flush|apply foot_txn_flush; auto].
  - apply other_of_foot; [apply keep_iters; unfold xevict; destruct (nth_error (xcache s) k); reflexivity|apply foot_evict; auto].
  - split; auto.
  - apply other_of_foot; [apply keep_iters; reflexivity|apply foot_writer; auto].
  - unfold xscribble. destruct (nth_error (xcvis s) i0) as [r|] eqn:Er; [|split; auto].
    apply other_of_foot; [apply keep_iters; reflexivity|].
    eapply (foot_hset_tag c s (rloc r) _ Client); eauto; [|discriminate]. destruct Xi as [R _].
    apply (r_claims _ _ _ _ R). unfold claims. apply in_or_app. left. apply in_map_iff. exists r. split; auto. eapply nth_error_In; eauto.
Qed.

(* ---------------------------------------------------------------- Key()/Value() are the iterator's own buffers *)

Definition ex_ok (it : xiter) : Prop := rloc (xi_exk it) = xi_kbuf it /\ rloc (xi_exv it) = xi_vbuf it.
Definition ExOwn (s : xstate) : Prop := forall j it, get_iter s j = Some it -> ex_ok it.

Lemma ex_frame i s s' it it' : iters_frame i s s' -> get_iter s i = Some it -> ex_ok it -> get_iter s' i = Some it' -> ex_ok it'.
Proof.
  intros (_ & _ & Si & _) Hi [E1 E2] Hi'. destruct (Si it Hi) as (it2 & H2 & (B1 & B2 & _ & _ & _ & _ & B7 & B8)).
  rewrite H2 in Hi'. inversion Hi'; subst. unfold ex_ok. rewrite B1, B2, B7, B8. auto.
Qed.

Lemma ex_set_pos s i p it it' : get_iter s i = Some it -> ex_ok it -> get_iter (set_pos_of s i p) i = Some it' -> ex_ok it'.
Proof.
  intros Hi E Hi'. unfold set_pos_of in Hi'. rewrite Hi in Hi'. erewrite get_put_iter in Hi' by eauto. inversion Hi'; subst. exact E.
Qed.

Lemma ex_expose md c s i d kr vr it it' : iter_modes_copy md -> XInv c s -> get_iter s i = Some it ->
  get_iter (xexpose md c s i d kr vr) i = Some it' -> ex_ok it'.
Proof.
  intros Md Xi Hi Hi'. destruct (XInv_expose md c s i d kr vr Xi) as (_ & _ & (_ & _ & Si & _) & _ & Hex).
  destruct (Hex it Hi) as (it2 & H2 & _ & _ & _ & Ck & Cv). rewrite H2 in Hi'. inversion Hi'; subst it2.
  destruct (Si it Hi) as (it3 & H3 & (B1 & B2 & _)). rewrite H3 in H2. inversion H2; subst it3.
  destruct (Md (xi_kind it) d c) as [Mk Mv]. split; [rewrite (Ck Mk)|rewrite (Cv Mv)]; auto.
Qed.

Lemma ex_move md c s i m ex pk it it' : iter_modes_copy md -> XInv c s -> get_iter s i = Some it -> ex_ok it ->
  get_iter (fst (xiter_move md c s i m ex pk)) i = Some it' -> ex_ok it'.
Proof.
  intros Md X Hi E. unfold xiter_move. rewrite Hi.
  assert (Same : get_iter s i = Some it' -> ex_ok it') by (intros H; rewrite Hi in H; inversion H; subst; auto).
  destruct (xi_live it); [|exact Same].
  destruct (land (xi_srcs it) (xi_pos it) m _) as [p|]; [|exact Same].
  destruct (XInv_children_move c i ex s X) as (X1 & _ & F1 & _). set (s1 := children_move c s i ex) in *.
  destruct F1 as (L1 & O1 & S1 & N1). destruct (S1 it Hi) as (it1 & H1 & B).
  assert (E1 : ex_ok it1). { eapply (ex_frame i s s1); eauto. split; auto. }
  assert (Pos : forall s2 it2, get_iter s2 i = Some it2 -> ex_ok it2 -> get_iter (set_pos_of s2 i p) i = Some it' -> ex_ok it').
  { intros s2 it2 H2 E2 H. eapply (ex_set_pos s2 i p it2 it'); eauto. }
  assert (Exp : forall s2 it2 d kr vr, XInv c s2 -> get_iter s2 i = Some it2 ->
            get_iter (set_pos_of (xexpose md c s2 i d kr vr) i p) i = Some it' -> ex_ok it').
  { intros s2 it2 d kr vr X2 H2 H.
    destruct (XInv_expose md c s2 i d kr vr X2) as (_ & _ & (_ & _ & Si & _) & _).
    destruct (Si it2 H2) as (it3 & H3 & _). eapply Pos; [exact H3| |exact H]. eapply (ex_expose md c s2 i d kr vr it2 it3); eauto. }
  destruct p as [|n|]; cbn [fst]; try (eapply Pos; eassumption).
  destruct (nth_error (xi_srcs it) n) as [[k [e|tid bi d]]|]; cbn [fst]; try (eapply Pos; eassumption).
  - eapply Exp; eauto.
  - destruct (XInv_child_goto c s1 i tid bi pk X1) as (X2 & _ & F2 & _).
    destruct F2 as (L2 & O2 & S2 & N2). destruct (S2 it1 H1) as (it2 & H2 & B2).
    assert (E2 : ex_ok it2). { eapply (ex_frame i s1 (child_goto c s1 i tid bi pk)); eauto. split; auto. }
    rewrite H2. destruct (hold_of_tid (xi_held it2) tid); cbn [fst]; [eapply Exp; eauto|eapply Pos; eauto].
Qed.

Lemma ExOwn_step md c s o : get_modes_fixed md -> iter_modes_copy md -> XInv c s -> ExOwn s -> ExOwn (fst (xstep md c s o)).
Proof.
  intros Mg Md X E.
  assert (Keep : forall s', xiters s' = xiters s -> ExOwn s') by (intros s' H j it Hj; unfold get_iter in Hj; rewrite H in Hj; eapply E; eauto).
  destruct o; cbn [xstep fst]; try (apply Keep; reflexivity).
  - destruct (is_some (xtxn s)); cbn [fst]; apply Keep; reflexivity.
  - destruct (is_some (xtxn s)); cbn [fst]; apply Keep; reflexivity.
  - apply Keep. apply (foot_get_begin c s a k ex pk (fun _ => False) X).
  - apply Keep. apply get_end_iters.
  - destruct (XInv_new_iter c s a X) as (_ & _ & En). intros j it Hj. unfold get_iter in Hj. rewrite En in Hj.
    destruct (Nat.lt_ge_cases j (length (xiters s))) as [H|H].
    + rewrite nth_error_app1 in Hj by auto. eapply E; eauto.
    + rewrite nth_error_app2 in Hj by auto. destruct (j - length (xiters s)) as [|[|]]; simpl in Hj; try discriminate.
      inversion Hj; subst. split; reflexivity.
  - (* a movement *)
    pose proof (XInv_iter_move md c s i m ex pk X) as M. unfold xiter_move2. cbn [fst].
    assert (E1 : ExOwn (fst (xiter_move md c s i m ex pk))).
    { destruct M as (_ & _ & (L & O & Si & Sn) & _). intros j it Hj. destruct (Nat.eq_dec j i) as [->|Hn].
      - destruct (get_iter s i) as [it0|] eqn:Hi; [|rewrite (Sn eq_refl) in Hj; discriminate].
        eapply ex_move; eauto.
      - rewrite O in Hj by auto. eapply E; eauto. }
    destruct (snd (xiter_move md c s i m ex pk)) as [[| |[|]|]|]; auto.
    destruct M as (X1 & _). destruct (XInv_children_move c i ex2 _ X1) as (_ & _ & F2 & _).
    intros j it Hj. destruct (Nat.eq_dec j i) as [->|Hn].
    + destruct F2 as (L2 & O2 & S2 & N2). destruct (get_iter (fst (xiter_move md c s i m ex pk)) i) as [it0|] eqn:Hi;
        [|rewrite (N2 eq_refl) in Hj; discriminate].
      destruct (S2 it0 eq_refl) as (it' & H' & (B1 & B2 & _ & _ & _ & _ & B7 & B8)). rewrite H' in Hj. inversion Hj; subst it'.
      destruct (E1 i it0 Hi) as [A1 A2]. unfold ex_ok. rewrite B1, B2, B7, B8. auto.
    + destruct F2 as (L2 & O2 & _). rewrite O2 in Hj by auto. eapply E1; eauto.
  - (* a release *)
    destruct (XInv_iter_release c s i X) as (_ & _ & (L & O & Si & Sn) & _). intros j it Hj. destruct (Nat.eq_dec j i) as [->|Hn].
    + unfold xiter_release in Hj. destruct (get_iter s i) as [it0|] eqn:Hi; [|rewrite Hi in Hj; discriminate].
      destruct (xi_live it0); [|rewrite Hi in Hj; inversion Hj; subst; eapply E; eauto].
      destruct (XInv_release_all c i (length (xi_held it0)) s X) as (_ & _ & F1 & _).
      destruct F1 as (L1 & O1 & S1 & N1). destruct (S1 it0 Hi) as (it1 & H1 & B). rewrite H1 in Hj.
      erewrite get_put_iter in Hj by eauto. inversion Hj; subst.
      assert (E1 : ex_ok it1). { eapply (ex_frame i s _ it0 it1); eauto. split; auto. }
      exact E1.
    + rewrite O in Hj by auto. eapply E; eauto.
  - apply Keep. apply (txn_open_frame c s (fun _ => False) X).
  - apply Keep. unfold xtxn_put. destruct (xtxn s); reflexivity.
  - apply Keep. unfold xtxn_put. destruct (xtxn s); reflexivity.
  - apply Keep. apply (txn_commit_frame c s pick (fun _ => False) X).
  - destruct (is_some (xtxn s)); cbn [fst]; apply Keep; reflexivity.
  - apply Keep. apply xiters_txn_flush.
  - apply Keep. unfold xevict. destruct (nth_error (xcache s) k); reflexivity.
  - apply Keep. unfold xscribble. destruct (nth_error (xcvis s) i); reflexivity.
Qed.

Lemma ExOwn_init pbase : ExOwn (xinit pbase).
Proof. intros j it H. unfold get_iter in H. simpl in H. destruct j; discriminate. Qed.

(* ---------------------------------------------------------------- runs *)

Lemma xrun_app md c : forall p q s, xrun md c s (p ++ q) =
  (fst (xrun md c (fst (xrun md c s p)) q), snd (xrun md c s p) ++ snd (xrun md c (fst (xrun md c s p)) q)).
Proof.
  induction p as [|o p IH]; intros q s; cbn [xrun app].
  - cbn [fst snd app]. destruct (xrun md c s q); reflexivity.
  - destruct (xstep md c s o) as [s1 x]. rewrite IH. destruct (xrun md c s1 p) as [s2 xs]. cbn [fst snd].
    destruct (xrun md c s2 q) as [s3 ys]. cbn [fst snd]. destruct x; reflexivity.
Qed.

Lemma xfinal_app md c pbase p q : xfinal md c pbase (p ++ q) = fst (xrun md c (xfinal md c pbase p) q).
Proof. unfold xfinal. rewrite xrun_app. reflexivity. Qed.

Record Good (md : xmodes) (c : config) (s : xstate) : Prop := { g_inv : XInv c s; g_ex : ExOwn s }.

Lemma Good_run md c : get_modes_fixed md -> iter_modes_copy md -> forall p s, Good md c s -> Good md c (fst (xrun md c s p)).
Proof.
  intros Mg Md. induction p as [|o p IH]; intros s G; cbn [xrun]; auto.
  assert (G1 : Good md c (fst (xstep md c s o))).
  { destruct G as [X E]. constructor; [apply XInv_step; auto|apply ExOwn_step; auto]. }
  destruct (xstep md c s o) as [s1 x]. cbn [fst] in G1. specialize (IH s1 G1). destruct (xrun md c s1 p). cbn [fst] in *. auto.
Qed.

Lemma Good_final md c pbase p : get_modes_fixed md -> iter_modes_copy md -> Good md c (xfinal md c pbase p).
Proof. intros Mg Md. unfold xfinal. apply Good_run; auto. constructor; [apply XInv_init|apply ExOwn_init]. Qed.

Lemma read_same s s' i it : get_iter s i = Some it -> get_iter s' i = Some it -> ex_ok it ->
  (forall l, In l (iter_buf_locs it) -> cont (xbm s') l = cont (xbm s) l) -> xiter_read s' i = xiter_read s i.
Proof.
  intros H H' [E1 E2] Hc. unfold xiter_read. rewrite H, H'. destruct (xi_live it); auto. destruct (xi_pos it); auto.
  unfold deref. unfold cont, xhp in *. rewrite E1, E2. rewrite (Hc (xi_kbuf it)), (Hc (xi_vbuf it)); auto; simpl; auto.
Qed.

(* iterator_buffers_stable, all movement sequences: whatever brought iterator i where it is (First, Last, Seek, Next,
   Prev in any order, in pre), what Key()/Value() expose is the same after any operations that neither move nor
   release it: other iterators moving in either direction, reads in flight, writes, flushes, evictions, pooled buffers
   being reused by readers and table writers, client scribbles *)
Theorem iterator_stable_all_moves md c pbase pre mid i : get_modes_fixed md -> iter_modes_copy md ->
  (forall o, In o mid -> xmoves i o = false) ->
  get_iter (xfinal md c pbase pre) i <> None ->
  xiter_read (xfinal md c pbase (pre ++ mid)) i = xiter_read (xfinal md c pbase pre) i.
Proof.
  intros Mg Md Hm. rewrite xfinal_app. pose proof (Good_final md c pbase pre Mg Md) as G. revert G Hm.
  generalize (xfinal md c pbase pre). induction mid as [|o mid IH]; intros s G Hm Hex; cbn [xrun fst]; auto.
  assert (Ho : xmoves i o = false) by (apply Hm; left; auto).
  assert (G1 : Good md c (fst (xstep md c s o))).
  { destruct G as [X E]. constructor; [apply XInv_step; auto|apply ExOwn_step; auto]. }
  pose proof (other_step_holds md c i s o (g_inv _ _ _ G) Ho) as [Or Oc].
  destruct (xstep md c s o) as [s1 x] eqn:Es. cbn [fst] in *.
  destruct (get_iter s i) as [it|] eqn:Hi; [|congruence].
  assert (H1 : get_iter s1 i = Some it) by auto.
  specialize (IH s1 G1 (fun o' H => Hm o' (or_intror H))). destruct (xrun md c s1 mid) as [s2 xs]. cbn [fst] in *.
  rewrite IH by congruence. eapply read_same; eauto. apply (g_ex _ _ _ G i it Hi).
Qed.

(* ---------------------------------------------------------------- after Release *)

(* a released iterator: nothing changes its record or its two buffers any more, not even its own methods *)
Lemma dead_step md c i s o it : XInv c s -> get_iter s i = Some it -> xi_live it = false ->
  get_iter (fst (xstep md c s o)) i = Some it /\
  (forall l, In l (iter_buf_locs it) -> cont (xbm (fst (xstep md c s o))) l = cont (xbm s) l).
Proof.
  intros X Hi Hl. destruct (xmoves i o) eqn:Hm.
  - destruct o; cbn [xmoves] in Hm; try discriminate; apply Nat.eqb_eq in Hm; subst i0; cbn [xstep].
    + unfold xiter_move2, xiter_move. rewrite Hi, Hl. cbn [fst snd]. split; auto.
    + unfold xiter_release. rewrite Hi, Hl. cbn [fst]. split; auto.
  - destruct (other_step_holds md c i s o X Hm) as [Or Oc]. split; auto. intros l Hin. eapply Oc; eauto.
Qed.

Lemma dead_run md c i it : get_modes_fixed md -> forall p s, XInv c s -> get_iter s i = Some it -> xi_live it = false ->
  get_iter (fst (xrun md c s p)) i = Some it /\
  (forall l, In l (iter_buf_locs it) -> cont (xbm (fst (xrun md c s p))) l = cont (xbm s) l).
Proof.
  intros Mg. induction p as [|o p IH]; intros s X Hi Hl; cbn [xrun]; [split; auto|].
  destruct (dead_step md c i s o it X Hi Hl) as [H1 C1]. pose proof (XInv_step md c s o Mg X) as X1.
  destruct (xstep md c s o) as [s1 x]. cbn [fst] in *. destruct (IH s1 X1 H1 Hl) as [H2 C2].
  destruct (xrun md c s1 p) as [s2 xs]. cbn [fst] in *. split; auto. intros l Hin. rewrite C2, C1; auto.
Qed.

Lemma census_not_iter c s l : XInv c s -> In l (census s) -> tag (xbm s) l <> Some (DB KIter).
Proof.
  intros [R _] Hin. pose proof R as [R1 R2 _ _ _ _]. unfold census in Hin. apply in_app_or in Hin. destruct Hin as [Hp|Hin].
  - rewrite (bi_pool _ R1 l Hp). discriminate.
  - apply in_app_or in Hin. destruct Hin as [Hc|Ho].
    + apply in_map_iff in Hc. destruct Hc as (n & En & Hn). rewrite <- En. unfold xcache in Hn. rewrite (bi_cache _ R1 n Hn). discriminate.
    + apply own_locs_in in Ho. destruct Ho as (h & Hh & Ek & El). rewrite <- El. rewrite (R2 h Hh Ek). discriminate.
Qed.

Lemma release_record c s i it : XInv c s -> get_iter s i = Some it ->
  exists it', get_iter (xiter_release c s i) i = Some it' /\ xi_live it' = false /\ xi_exk it' = xi_exk it /\ xi_exv it' = xi_exv it /\
              xi_kbuf it' = xi_kbuf it /\ xi_vbuf it' = xi_vbuf it.
Proof.
  intros X Hi. unfold xiter_release. rewrite Hi. destruct (xi_live it) eqn:El.
  - destruct (XInv_release_all c i (length (xi_held it)) s X) as (_ & _ & F1 & _).
    destruct F1 as (L1 & O1 & S1 & N1). destruct (S1 it Hi) as (it1 & H1 & (B1 & B2 & _ & _ & _ & _ & B7 & B8)). rewrite H1.
    exists (it_kill it1). split; [eapply get_put_iter; eauto|]. cbn [xi_live xi_exk xi_exv xi_kbuf xi_vbuf it_kill]. repeat split; auto.
  - exists it. repeat split; auto.
Qed.

(* iterator_release_returns_buffers: what the code does at Release.  The iterator's two buffers are dropped for the
   garbage collector (i.key = nil; i.value = nil), they are never given to the buffer pool, the cache or another
   holder; the slices the caller still has from the last Key()/Value() therefore keep their contents for ever, whatever
   the DB does afterwards (reads reusing pooled buffers, table writers, evictions, other iterators) and whatever is
   called on the released iterator.  The block buffers its children held went back to the cache or the pool — the
   caller never had a slice of those. *)
Theorem iterator_release_keeps_slices md c pbase pre post i it : get_modes_fixed md -> iter_modes_copy md ->
  get_iter (xfinal md c pbase pre) i = Some it ->
  let s0 := xfinal md c pbase pre in
  let s1 := xfinal md c pbase (pre ++ XIterRelease i :: post) in
  (exists it', get_iter s1 i = Some it' /\ xi_live it' = false /\ xi_exk it' = xi_exk it /\ xi_exv it' = xi_exv it) /\
  deref (xhp s1) (xi_exk it) = deref (xhp s0) (xi_exk it) /\ deref (xhp s1) (xi_exv it) = deref (xhp s0) (xi_exv it) /\
  ~ In (rloc (xi_exk it)) (census s1) /\ ~ In (rloc (xi_exv it)) (census s1).
Proof.
  intros Mg Md Hi. cbv zeta. rewrite xfinal_app. pose proof (Good_final md c pbase pre Mg Md) as [X E].
  set (s0 := xfinal md c pbase pre) in *. cbn [xrun]. cbn [xstep].
  destruct (release_record c s0 i it X Hi) as (it' & Hr & Ld & Ek & Ev & Bk & Bv).
  destruct (XInv_iter_release c s0 i X) as (Xr & _ & _ & Fr).
  destruct (dead_run md c i it' Mg post (xiter_release c s0 i) Xr Hr Ld) as [H2 C2].
  pose proof (XInv_run md c Mg post _ Xr) as X2.
  destruct (xrun md c (xiter_release c s0 i) post) as [s2 xs]. cbn [fst] in *.
  destruct (E i it Hi) as [Ok Ov].
  assert (Ck : cont (xbm s2) (xi_kbuf it) = cont (xbm s0) (xi_kbuf it)).
  { rewrite C2 by (unfold iter_buf_locs; rewrite Bk; simpl; auto). apply Fr; auto. eapply bufs_in; eauto. simpl; auto. }
  assert (Cv : cont (xbm s2) (xi_vbuf it) = cont (xbm s0) (xi_vbuf it)).
  { rewrite C2 by (unfold iter_buf_locs; rewrite Bv; simpl; auto). apply Fr; auto. eapply bufs_in; eauto. simpl; auto. }
  split; [exists it'; auto|]. unfold deref, xhp. unfold cont in Ck, Cv. rewrite Ok, Ov, Ck, Cv. split; auto. split; auto.
  assert (Tk : tag (xbm s2) (xi_kbuf it) = Some (DB KIter) /\ tag (xbm s2) (xi_vbuf it) = Some (DB KIter)).
  { split; apply (iter_buf_tag c s2 _ X2); eapply bufs_in; eauto; unfold iter_buf_locs; rewrite Bk, Bv; simpl; auto. }
  split; intros Hin; apply (census_not_iter c s2 _ X2) in Hin; apply Hin; apply Tk.
Qed.

(* ---------------------------------------------------------------- the mutants, refuted by computation *)

(* dbIter.prev does not copy the value: i.value = i.iter.Value() *)
Definition md_prev_value_slice : xmodes := fun p c =>
  match p with XPIterValue _ DBwd => Slice | _ => xfixed p c end.

(* Snapshot.Get returns the slice of the write buffer *)
Definition md_snap_get_slice : xmodes := fun p c =>
  match p with XPGetMem KSnap => Slice | _ => xfixed p c end.

Definition cfg_pool_only : config := {| pool_on := true; cache_on := false; snappy := false; blk := 0 |}.
Definition cfg_both : config := {| pool_on := true; cache_on := true; snappy := false; blk := 0 |}.
Definition pk0 : picks := (Some 0, Some 0).

(* two keys in two blocks of one table; the iterator goes to the last key; prev() leaves the table child in the
   block of the entry before (ex2) *)
Definition bw_pre : list xop :=
  [XPut [1%N] [10%N]; XPut [2%N] [20%N]; EXFlush None; XIterNew AccDB; XIterMove 0 MLast [] pk0 [(0, Some 1, (None, None))]].
(* a Get of the other key reuses the pooled buffer *)
Definition bw_mid : list xop := [XGetBegin AccDB [1%N] [] pk0].

Lemma bw_code_stable :
  xiter_read (xfinal xfixed cfg_pool_only 16 bw_pre) 0 = Some (XPair (Some ([2%N], [20%N]))) /\
  xiter_read (xfinal xfixed cfg_pool_only 16 (bw_pre ++ bw_mid)) 0 = Some (XPair (Some ([2%N], [20%N]))).
Proof. split; vm_compute; reflexivity. Qed.

Theorem prev_value_slice_refuted :
  exists md c pbase pre mid i, get_modes_fixed md /\ (forall o, In o mid -> xmoves i o = false) /\
    get_iter (xfinal md c pbase pre) i <> None /\
    xiter_read (xfinal md c pbase (pre ++ mid)) i <> xiter_read (xfinal md c pbase pre) i.
Proof.
  exists md_prev_value_slice, cfg_pool_only, 16%N, bw_pre, bw_mid, 0. split; [intros k c; split; reflexivity|].
  split; [intros o [<-|[]]; reflexivity|]. split; vm_compute; discriminate.
Qed.

(* the same mutant at Release: the value slice the caller kept is a slice of a block buffer that goes back to the pool
   and is overwritten by the next read *)
Definition rel_pre : list xop :=
  [XPut [1%N] [10%N]; XPut [2%N] [20%N]; EXFlush None; XIterNew AccDB; XIterMove 0 MLast [] pk0 []].
Definition rel_post : list xop := [XGetBegin AccDB [1%N] [] pk0].

Theorem release_pools_exposed_buffer_refuted :
  exists md c pbase pre post i it, get_modes_fixed md /\ get_iter (xfinal md c pbase pre) i = Some it /\
    In (rloc (xi_exv it)) (census (xfinal md c pbase (pre ++ [XIterRelease i]))) /\
    deref (xhp (xfinal md c pbase (pre ++ XIterRelease i :: post))) (xi_exv it) <> deref (xhp (xfinal md c pbase pre)) (xi_exv it).
Proof.
  exists md_prev_value_slice, cfg_pool_only, 16%N, rel_pre, rel_post, 0.
  destruct (get_iter (xfinal md_prev_value_slice cfg_pool_only 16 rel_pre) 0) as [it|] eqn:E; [|vm_compute in E; discriminate].
  exists it. split; [intros k c; split; reflexivity|]. split; auto. vm_compute in E. inversion E; subst it. split.
  - vm_compute. auto.
  - vm_compute. discriminate.
Qed.

Lemma release_code_keeps :
  match get_iter (xfinal xfixed cfg_pool_only 16 rel_pre) 0 with
  | Some it => deref (xhp (xfinal xfixed cfg_pool_only 16 (rel_pre ++ XIterRelease 0 :: rel_post))) (xi_exv it) = [20%N] /\
               ~ In (rloc (xi_exv it)) (census (xfinal xfixed cfg_pool_only 16 (rel_pre ++ [XIterRelease 0]))) /\
               census (xfinal xfixed cfg_pool_only 16 (rel_pre ++ [XIterRelease 0])) <> []
  | None => False
  end.
Proof. vm_compute. repeat split; try discriminate. intros [H|[]]; discriminate. Qed.

(* Snapshot.Get handing out the arena: the client's scribble changes what the DB returns later, and the separation
   invariant is gone *)
Definition snap_prog : list xop :=
  [XPut [1%N] [10%N]; XSnapNew; XGetBegin (AccSnap 0) [1%N] [] pk0; XGetEnd 0; XScribble 0 0 [99%N];
   XGetBegin AccDB [1%N] [] pk0; XGetEnd 1].

Theorem snapshot_get_slice_refuted :
  xoutputs md_snap_get_slice cfg_both 16 snap_prog <> xoutputs md_snap_get_slice cfg_both 16 (x_no_scribbles snap_prog)
  /\ ~ xseparated (xfinal md_snap_get_slice cfg_both 16 snap_prog)
  /\ xoutputs xfixed cfg_both 16 snap_prog = xoutputs xfixed cfg_both 16 (x_no_scribbles snap_prog).
Proof.
  split; [vm_compute; discriminate|]. split; [|vm_compute; reflexivity].
  intros (V & _). assert (Hin : In (mkref 0 2 1) (xcvis (xfinal md_snap_get_slice cfg_both 16 snap_prog))) by (vm_compute; auto).
  specialize (V _ Hin). vm_compute in V. discriminate.
Qed.

(* non-vacuity of the stability theorem: a backward walk through cached and pooled blocks with another iterator,
   a read in flight, a flush and an eviction in between *)
Example stable_nonvacuous :
  let pre := [XPut [1%N] [10%N]; XPut [2%N] [20%N]; XPut [3%N] [30%N]; EXFlush None; XSnapNew; XPut [2%N] [21%N];
              XIterNew (AccSnap 0); XIterMove 0 MLast [] pk0 [(0, Some 1, pk0)]; XIterMove 0 MPrev [] pk0 [(0, Some 2, pk0)]] in
  let mid := [XIterNew AccDB; XIterMove 1 (MSeek [2%N]) [] pk0 []; XGetBegin AccDB [3%N] [] pk0; EXFlush (Some 0); EXEvict 0;
              XIterMove 1 MPrev [] pk0 []; XGetEnd 0; XScribble 0 0 [7%N]; EXTableWrite 8 (Some 0) [5%N; 5%N; 5%N]; XIterRelease 1] in
  (forall o, In o mid -> xmoves 0 o = false) /\
  xiter_read (xfinal xfixed cfg_both 16 pre) 0 = Some (XPair (Some ([2%N], [20%N]))) /\
  xiter_read (xfinal xfixed cfg_both 16 (pre ++ mid)) 0 = Some (XPair (Some ([2%N], [20%N]))) /\
  xoutputs xfixed cfg_both 16 (pre ++ mid) = [XBool true; XBool true; XBool true; XBool true; XVal (Some [30%N])].
Proof.
  cbv zeta. split; [intros o H; simpl in H; repeat (destruct H as [<-|H]; [reflexivity|]); contradiction|].
  repeat split; vm_compute; reflexivity.
Qed.

(* ---------------------------------------------------------------- what breaks single ownership: a second Put *)

(* defect 239f7b9 (fixed): table.Writer.Close ran twice and Put its block buffer twice.  Nothing in util.BufferPool
   notices (Base/UBuffer.v, C13U_pool_double_put_refuted); in this model: the census of the buffer manager has a
   duplicate, BInv fails, and the next two Gets hand the same array to two owners — the step function never does
   this (single_owner is an invariant), so it is the witness of what the invariant excludes. *)
Theorem pool_double_put_breaks_single_owner :
  let c := cfg_pool_only in
  let b0 := xbm (xinit 16) in
  let '(b1, l) := bpool_get c b0 8 None in
  let b2 := bpool_put c (bpool_put c b1 l) l in
  let '(b3, l1) := bpool_get c b2 5 (Some 0) in
  let '(b4, l2) := bpool_get c b3 5 (Some 0) in
  BInv b1 /\ ~ NoDup (pool_ids (bpl b2)) /\ ~ BInv b2 /\ UBuffer.bp_count (bpl b2) l = 2 /\ l1 = l /\ l2 = l.
Proof.
  vm_compute. split; [|split; [|split; [|repeat split]]].
  - constructor; vm_compute; try constructor. intros l []. intros n [].
  - intros N. inversion N; subst. apply H1. left. reflexivity.
  - intros [_ _ N _]. vm_compute in N. inversion N; subst. apply H1. left. reflexivity.
Qed.

(* ---------------------------------------------------------------- the write side of noninterference *)

(* a client scribble changes client-owned cells only: no arena, no cached / pooled / held block buffer, no iterator
   buffer changes; the records do not change at all *)
Theorem scribble_hits_client_memory_only c pbase p i pos g :
  let s := xfinal xfixed c pbase p in
  let s' := xscribble s i pos g in
  (forall l, hown (xhp s) l <> Some Client -> hget (xhp s') l = hget (xhp s) l) /\
  (forall l, hown (xhp s') l = hown (xhp s) l) /\
  xset_hp s' (xhp s) = s.
Proof.
  cbv zeta. pose proof (XInv_final c pbase p) as X. set (s := xfinal xfixed c pbase p) in *.
  unfold xscribble. destruct (nth_error (xcvis s) i) as [r|] eqn:Er.
  - assert (Ht : hown (xhp s) (rloc r) = Some Client).
    { destruct X as [R _]. apply (r_claims _ _ _ _ R (rloc r) Client). unfold claims. apply in_or_app. left.
      apply in_map_iff. exists r. split; auto. eapply nth_error_In; eauto. }
    split; [|split].
    + intros l Hl. unfold xset_hp, xhp. cbn [xbm xset_bm bh bm_hp]. apply hget_hset_other. intros <-. apply Hl. exact Ht.
    + intros l. unfold xset_hp, xhp. cbn [xbm xset_bm bh bm_hp]. apply hown_hset.
    + unfold xset_hp, xhp. destruct s as [[h p0 ca] q m f li t sn it cl cv]. reflexivity.
  - split; [|split]; auto. unfold xset_hp, xhp. destruct s as [[h p0 ca] q m f li t sn it cl cv]. reflexivity.
Qed.
