(* Alias/StepProofs.v — every operation of the ownership model (fixed code) preserves the invariant and
   the relation to the plain map, and returns what the map returns.  Part 1: client buffers, scribbles,
   reads. *)
From GL Require Import Alias.Heap Alias.AliasModel Alias.HeapProofs Alias.ContentProofs Alias.InvProofs
  Alias.BlockProofs Alias.ReadProofs Base.BytesProofs.
From Coq Require Import Arith Lia.
Local Open Scope nat_scope.

Arguments client_buf : simpl never.
Arguments db_get : simpl never.
Arguments db_has : simpl never.
Arguments get_out : simpl never.
Arguments put_rec : simpl never.
Arguments batch_append : simpl never.
Arguments batch_write : simpl never.
Arguments txn_put : simpl never.
Arguments txn_open : simpl never.
Arguments txn_commit : simpl never.
Arguments txn_flush : simpl never.
Arguments new_iter : simpl never.
Arguments iter_load : simpl never.
Arguments rotate : simpl never.
Arguments flush_frozen : simpl never.
Arguments compact : simpl never.
Arguments evict : simpl never.
Arguments scribble : simpl never.

(* what one step has to establish *)
Definition step_good (c : config) (s : state) (sp : sstate) (x : state * option out) (y : sstate * option out) : Prop :=
  Inv c (fst x) /\ Rel (fst x) (fst y) /\ snd x = snd y.

(* ---- the client's list is invisible to Rel and to most of Inv ---- *)

Lemma rel_set_cvis s sp v : Rel s sp -> Rel (set_cvis s v) sp.
Proof. intros R. destruct R. constructor; auto. Qed.

Lemma inv_set_cvis c s v :
  Inv c s -> (forall r, In r v -> own (hp s) (rloc r) Client) -> Inv c (set_cvis s v).
Proof. intros I V. destruct I. constructor; auto. Qed.

Lemma txn_some_agree s sp : Rel s sp -> is_some (txn s) = is_some (stxn sp).
Proof. intros R. pose proof (r_txn _ _ R) as T. destruct (txn s), (stxn sp); simpl; auto; contradiction. Qed.

(* ---- client_buf ---- *)

Lemma client_buf_ok c s sp b :
  Inv c s -> Rel s sp ->
  Inv c (fst (client_buf s b)) /\ Rel (fst (client_buf s b)) sp /\ quiet s (fst (client_buf s b)) /\
  cvis (fst (client_buf s b)) = snd (client_buf s b) :: cvis s /\
  own (hp (fst (client_buf s b))) (rloc (snd (client_buf s b))) Client /\
  deref (hp (fst (client_buf s b))) (snd (client_buf s b)) = b /\
  snd (client_buf s b) = mkref (length (hp s)) 0 (length b).
Proof.
  intros I R. unfold client_buf, alloc. cbv beta iota zeta. cbn [fst snd].
  replace (snd (halloc (hp s) b Client)) with (length (hp s)) by reflexivity.
  set (h1 := fst (halloc (hp s) b Client)).
  assert (quiet s (set_cvis (set_hp s h1) (mkref (length (hp s)) 0 (length b) :: cvis s))) as Q.
  { constructor; auto. simpl. apply keep_alloc. }
  assert (own h1 (length (hp s)) Client) as O by apply own_alloc_new.
  split; [|split; [|split; [|split; [|split; [|split]]]]]; auto.
  - eapply inv_quiet; eauto.
    + simpl. destruct (i_block _ _ I) as (C & P & E1 & E2).
      pose proof (blockinv_alloc c s b Client (i_block _ _ I)) as BA. exact BA.
    + simpl. intros r [<-|Hin]; simpl; auto. apply own_alloc_old. apply I; auto.
  - eapply rel_quiet; eauto.
  - unfold deref; simpl. unfold h1. rewrite hget_alloc_new. apply sub_all.
Qed.

(* ---- scribble ---- *)

Definition notclient (o : owner) : bool := match o with Client => false | _ => true end.

Lemma scribble_wframe c s i pos g : Inv c s -> wframe s (scribble s i pos g) /\ cvis (scribble s i pos g) = cvis s
  /\ mem (scribble s i pos g) = mem s /\ txn (scribble s i pos g) = txn s /\ cbatch (scribble s i pos g) = cbatch s.
Proof.
  intros I. unfold scribble. destruct (nth_error (cvis s) i) as [r|] eqn:E.
  - assert (own (hp s) (rloc r) Client) as O by (apply I; eapply nth_error_In; eauto).
    assert (keep notclient (hp s) (hset (hp s) (rloc r) (overwrite (hget (hp s) (rloc r)) (roff r + pos) g))) as K
      by (eapply keep_hset; eauto).
    split; [|simpl; auto].
    constructor; simpl; auto.
    + eapply keep_memgrow; [|exact K]; auto.
    + eapply keep_weaken; [|exact K]. intros [| |[]| |]; simpl; auto; discriminate.
    + intros l o Ho. apply own_hset. auto.
    + eapply keep_batgrow; [|exact K]; auto.
  - split; auto. constructor; auto.
    + apply memgrow_refl.
    + apply keep_refl.
    + intros l H. split; auto. exists []. rewrite app_nil_r; auto.
Qed.

Lemma wframe_content_same c s s' :
  Inv c s -> wframe s s' -> mem s' = mem s -> content s' = content s.
Proof.
  intros I W Em. apply content_frame; try apply W; try apply I; auto.
  apply wframe_files_ext; auto.
Qed.

Lemma rel_wframe_same c s s' sp :
  Inv c s -> wframe s s' -> mem s' = mem s -> txn s' = txn s -> cbatch s' = cbatch s -> Rel s sp -> Rel s' sp.
Proof.
  intros I W Em Et Ec R. constructor.
  - rewrite (wframe_content_same c s s'); auto. apply R.
  - rewrite Et. pose proof (r_txn _ _ R) as T. pose proof (i_txn _ _ I) as IT.
    destruct (txn s) as [t|]; destruct (stxn sp); auto.
    unfold txn_content in *. rewrite (wframe_content_same c s s'), (wframe_tabs_content s s') by auto.
    rewrite (mem_content_grow (hp s) (hp s')); auto. apply W.
  - rewrite Ec. pose proof (r_bat _ _ R) as B. pose proof (i_cbatch _ _ I) as CB. unfold cbatch_ok in CB.
    destruct (cbatch s) as [[bl recs]|]; auto. destruct CB as [O F].
    rewrite <- B. eapply wframe_bat_content; eauto.
  - eapply wframe_iters_rel; eauto; try apply I; try apply R.
Qed.

Lemma inv_wframe_same c s s' :
  Inv c s -> wframe s s' -> mem s' = mem s -> txn s' = txn s -> cbatch s' = cbatch s -> cvis s' = cvis s -> Inv c s'.
Proof.
  intros I W Em Et Ec Ev. eapply inv_wframe; eauto.
  - rewrite Em. eapply memdb_ok_grow; [apply W|apply I].
  - rewrite Et. eapply omemdb_ok_grow; [apply W|apply I].
  - unfold txn_tabs. rewrite Et. auto.
  - eapply wframe_cbatch_ok; eauto. apply I.
  - rewrite Ev. intros r Hr. apply W. apply I; auto.
  - rewrite Et. intros H. unfold empty_mems. rewrite Em, (w_frozen _ _ W). apply I; auto.
Qed.

Lemma step_scribble c s sp i pos g :
  Inv c s -> Rel s sp -> step_good c s sp (step fixed_modes c s (CScribble i pos g)) (sstep sp (CScribble i pos g)).
Proof.
  intros I R. simpl. destruct (scribble_wframe c s i pos g I) as (W & Ev & Em & Et & Ec).
  split; [|split]; simpl; auto.
  - eapply inv_wframe_same; eauto.
  - eapply rel_wframe_same; eauto.
Qed.

(* ---- reads ---- *)

Lemma get_out_ok c s0 s sp (aux : option txnst) k r spv :
  Inv c s0 -> Rel s0 sp -> aux_ok s0 aux -> getspec c s0 k (view s0 aux) (s, r) ->
  lookup_eq (view s0 aux) spv ->
  Inv c (fst (get_out s r)) /\ Rel (fst (get_out s r)) sp /\ snd (get_out s r) = Some (OVal (glookup k spv)).
Proof.
  intros I R A (Q & B & V & RC & RV) L. cbn [fst snd] in *.
  assert (Inv c s) as Is.
  { apply (inv_quiet c s0 s I Q B). rewrite V. intros x Hx. eapply keep_own; [apply Q| |auto]. apply I; auto. }
  assert (Rel s sp) as Rs by (exact (rel_quiet c s0 s sp I Q R)).
  assert (flatten (res_val (hp s) r) = glookup k spv) as EO by (rewrite RV, <- glookup_flatten; apply L).
  unfold get_out. destruct r as [[v|]|]; cbn [fst snd] in *.
  - split; [|split].
    + apply inv_set_cvis; auto. intros x [<-|Hx]; auto. apply Is; auto.
    + apply rel_set_cvis; auto.
    + rewrite <- EO. auto.
  - rewrite <- EO. auto.
  - rewrite <- EO. auto.
Qed.

Lemma step_get c s sp k :
  Inv c s -> Rel s sp -> step_good c s sp (step fixed_modes c s (OGet k)) (sstep sp (OGet k)).
Proof.
  intros I R. cbn [step sstep].
  destruct (client_buf_ok c s sp k I R) as (I1 & R1 & Q1 & V1 & O1 & D1 & E1).
  destruct (client_buf s k) as [s1 kr]. cbn [fst snd] in *.
  pose proof (db_get_ok c s1 None k I1 Logic.I) as G.
  destruct (db_get fixed_modes c s1 None k) as [s2 r].
  destruct (get_out_ok c s1 s2 sp None k r (sbase sp) I1 R1 Logic.I G (r_base _ _ R1)) as (I2 & R2 & EO).
  destruct (get_out s2 r) as [s3 o]. cbn [fst snd] in *. split; [|split]; auto.
Qed.

Lemma step_txnget c s sp k :
  Inv c s -> Rel s sp -> step_good c s sp (step fixed_modes c s (OTxnGet k)) (sstep sp (OTxnGet k)).
Proof.
  intros I R. cbn [step sstep]. pose proof (r_txn _ _ R) as T.
  destruct (txn s) as [t|] eqn:ET; destruct (stxn sp) as [ov|] eqn:ES; try contradiction.
  2:{ split; [|split]; auto. }
  destruct (client_buf_ok c s sp k I R) as (I1 & R1 & Q1 & V1 & O1 & D1 & E1).
  destruct (client_buf s k) as [s1 kr]. cbn [fst snd] in *.
  assert (txn s1 = Some t) as ET1 by (rewrite (q_txn _ _ Q1); auto).
  pose proof (db_get_ok c s1 (Some t) k I1 ET1) as G.
  destruct (db_get fixed_modes c s1 (Some t) k) as [s2 r].
  pose proof (r_txn _ _ R1) as T1. rewrite ET1, ES in T1.
  destruct (get_out_ok c s1 s2 sp (Some t) k r ov I1 R1 ET1 G T1) as (I2 & R2 & EO).
  destruct (get_out s2 r) as [s3 o]. cbn [fst snd] in *. split; [|split]; auto.
Qed.

Lemma step_has c s sp k :
  Inv c s -> Rel s sp -> step_good c s sp (step fixed_modes c s (OHas k)) (sstep sp (OHas k)).
Proof.
  intros I R. cbn [step sstep].
  destruct (client_buf_ok c s sp k I R) as (I1 & R1 & Q1 & V1 & O1 & D1 & E1).
  destruct (client_buf s k) as [s1 kr]. cbn [fst snd] in *.
  pose proof (db_has_ok c s1 k I1) as (Q & B & V & RV).
  destruct (db_has c s1 k) as [s2 r]. cbn [fst snd] in *.
  split; [|split]; simpl.
  - apply (inv_quiet c s1 s2 I1 Q B). rewrite V. intros x Hx. eapply keep_own; [apply Q| |auto]. apply I1; auto.
  - exact (rel_quiet c s1 s2 sp I1 Q R1).
  - rewrite RV. pose proof (r_base _ _ R1 k) as L. unfold glookup in L. unfold glookup.
    destruct (assoc k (content s1)) as [[v|]|]; destruct (assoc k (sbase sp)) as [[v'|]|]; simpl; try discriminate; auto.
Qed.

(* ================================================================ Part 2: writes *)

Lemma wframe_refl s : wframe s s.
Proof.
  constructor; auto.
  - apply memgrow_refl.
  - apply keep_refl.
  - intros l H. split; auto. exists []. rewrite app_nil_r; auto.
Qed.

Lemma batgrow_trans h1 h2 h3 : batgrow h1 h2 -> batgrow h2 h3 -> batgrow h1 h3.
Proof.
  intros G1 G2 l H. destruct (G1 l H) as [H2 [x Hx]]. destruct (G2 l H2) as [H3 [y Hy]]. split; auto.
  exists (x ++ y). rewrite Hy, Hx, app_assoc. auto.
Qed.

Lemma wframe_trans s1 s2 s3 : wframe s1 s2 -> wframe s2 s3 -> wframe s1 s3.
Proof.
  intros A B. destruct A, B. constructor; try congruence.
  - eapply memgrow_trans; eauto.
  - eapply keep_trans; eauto.
  - auto.
  - eapply batgrow_trans; eauto.
Qed.

(* a heap update that touches only cells of owner class "not P", with P covering what wk covers and batch
   buffers, keeps owners and lets arenas grow *)
Lemma wframe_set_hp s h' (P : owner -> bool) :
  keep P (hp s) h' -> memgrow (hp s) h' -> (forall l o, own (hp s) l o -> own h' l o) ->
  (forall o, wk o = true -> P o = true) -> P ClientBatch = true ->
  wframe s (set_hp s h').
Proof.
  intros K G O HP HB. constructor; simpl; auto.
  - eapply keep_weaken; eauto.
  - eapply keep_batgrow; eauto.
Qed.

Lemma wframe_alloc s b o : wframe s (fst (alloc s b o)).
Proof.
  unfold alloc; simpl. apply (wframe_set_hp s _ (fun _ => true)); auto.
  - apply keep_alloc.
  - eapply keep_memgrow; [|apply (keep_alloc (fun _ => true))]; auto.
  - intros l o' H. apply own_alloc_old; auto.
Qed.

Lemma memgrow_hset_other h l b o : own h l o -> o <> DB KMem -> memgrow h (hset h l b).
Proof.
  intros O N. split; [rewrite hset_length; lia|]. intros l' H. split.
  - apply own_hset; auto.
  - exists []. rewrite app_nil_r. apply hget_hset_other. eapply own_diff; eauto.
Qed.

Lemma wframe_hset s l b o :
  own (hp s) l o -> wk o = false -> o <> ClientBatch -> o <> DB KMem ->
  wframe s (set_hp s (hset (hp s) l b)).
Proof.
  intros O W N1 N2. apply (wframe_set_hp s _ (fun o' => negb (owner_eqb o' o))).
  - eapply keep_hset; eauto. destruct o as [| |[]| |]; auto.
  - eapply memgrow_hset_other; eauto.
  - intros l' o' H. apply own_hset; auto.
  - intros o' H. destruct o as [| |[]| |], o' as [| |[]| |]; simpl in *; auto; discriminate.
  - destruct o as [| |[]| |]; simpl; auto; congruence.
Qed.

Lemma wframe_happend_mem s l b : own (hp s) l (DB KMem) -> wframe s (set_hp s (happend (hp s) l b)).
Proof.
  intros O. unfold happend. apply (wframe_set_hp s _ (fun o' => negb (owner_eqb o' (DB KMem)))); auto.
  - eapply keep_hset; eauto.
  - apply (memgrow_happend (hp s) l b).
  - intros l' o' H. apply own_hset; auto.
  - intros [| |[]| |]; simpl; auto; discriminate.
Qed.

Lemma client_buf_wframe s b :
  wframe s (fst (client_buf s b)) /\ mem (fst (client_buf s b)) = mem s /\ txn (fst (client_buf s b)) = txn s /\
  cbatch (fst (client_buf s b)) = cbatch s.
Proof.
  unfold client_buf, alloc. cbv beta iota zeta. cbn [fst snd]. split; [|simpl; auto].
  pose proof (wframe_alloc s b Client) as W. unfold alloc in W. cbn [fst] in W.
  destruct W. constructor; auto.
Qed.

(* ---- memdb.Put ---- *)

Lemma memdb_put_ok c s m kr vr del :
  memdb_ok (hp s) m ->
  exists h',
    fst (memdb_put fixed_modes c s m kr vr del) = set_hp s h' /\
    h' = happend (hp s) (mkv m) (deref (hp s) kr ++ (if del then [] else deref (hp s) vr)) /\
    mkv (snd (memdb_put fixed_modes c s m kr vr del)) = mkv m /\
    memdb_ok h' (snd (memdb_put fixed_modes c s m kr vr del)) /\
    mem_content h' (snd (memdb_put fixed_modes c s m kr vr del)) =
      (deref (hp s) kr, if del then None else Some (deref (hp s) vr)) :: mem_content (hp s) m.
Proof.
  intros [O F]. unfold memdb_put. cbn [fixed_modes]. cbv beta iota zeta. cbn [fst snd].
  set (h := hp s). set (kv := mkv m). set (old := hget h kv).
  set (kb := deref h kr). set (vb := if del then [] else deref h vr).
  exists (happend h kv (kb ++ vb)).
  assert (hget (happend h kv (kb ++ vb)) kv = old ++ kb ++ vb) as G
    by (unfold happend; apply hget_hset_same; eapply own_lt; eauto).
  assert (memgrow h (happend h kv (kb ++ vb))) as MG by apply memgrow_happend.
  split; [auto|]. split; [auto|]. split; [auto|].
  assert (deref (happend h kv (kb ++ vb)) (mkref kv (length old) (length kb)) = kb) as DK.
  { unfold deref; simpl. rewrite G. apply sub_prefix_app. }
  assert (deref (happend h kv (kb ++ vb)) (mkref kv (length old + length kb) (length vb)) = vb) as DV.
  { unfold deref; simpl. rewrite G.
    replace (old ++ kb ++ vb) with ((old ++ kb) ++ vb ++ []) by (rewrite app_nil_r, <- app_assoc; auto).
    replace (length old + length kb) with (length (old ++ kb)) by (rewrite app_length; auto).
    apply sub_prefix_app. }
  split.
  - split; simpl.
    + apply MG; auto.
    + constructor.
      * unfold ment_ok, ref_in; simpl. rewrite G, !app_length. repeat split; auto; lia.
      * eapply Forall_impl; [|exact F]. intros e He. eapply ment_ok_grow; eauto.
  - unfold mem_content at 1. cbn [mds map mk mv mdel].
    fold (mem_content (happend h kv (kb ++ vb)) m).
    rewrite DK. rewrite (mem_content_grow h); auto; [|split; auto].
    f_equal. f_equal. unfold vb. destruct del; auto. f_equal. fold vb. rewrite DV. unfold vb. auto.
Qed.

Definition sp_base (sp : sstate) (b : amap) : sstate :=
  {| sbase := b; stxn := stxn sp; sbat := sbat sp; sits := sits sp |}.

(* one memdb.Put into the live write buffer (no transaction open) *)
Lemma put_into_mem c s sp kr vr del :
  Inv c s -> Rel s sp -> txn s = None ->
  let x := memdb_put fixed_modes c s (mem s) kr vr del in
  let s' := set_mem (fst x) (snd x) in
  Inv c s' /\
  Rel s' (sp_base sp ((deref (hp s) kr, if del then None else Some (deref (hp s) vr)) :: sbase sp)) /\
  cvis s' = cvis s /\ cbatch s' = cbatch s /\ txn s' = None /\ wframe s s'.
Proof.
  intros I R ET. cbv zeta.
  destruct (memdb_put_ok c s (mem s) kr vr del (i_mem _ _ I)) as (h' & E1 & Eh & Ekv & MO & MC).
  remember (memdb_put fixed_modes c s (mem s) kr vr del) as x eqn:Ex. clear Ex.
  remember (set_mem (fst x) (snd x)) as s' eqn:Es0.
  assert (wframe s (set_hp s h')) as W0 by (rewrite Eh; apply wframe_happend_mem; apply I).
  assert (s' = set_mem (set_hp s h') (snd x)) as Es' by (rewrite Es0, E1; auto).
  clear Es0.
  assert (wframe s s') as W by (rewrite Es'; destruct W0; constructor; auto).
  assert (hp s' = h') as Eh' by (rewrite Es'; auto).
  assert (mem s' = snd x) as Em' by (rewrite Es'; auto).
  assert (cvis s' = cvis s /\ cbatch s' = cbatch s /\ txn s' = txn s) as (Ev & Ec & Et) by (rewrite Es'; simpl; auto).
  clear Es'.
  split; [|split; [|split; [|split; [|split]]]]; auto; try congruence.
  - apply (inv_wframe c s s' I W).
    + rewrite Eh', Em'. auto.
    + rewrite Et, ET. simpl. auto.
    + unfold txn_tabs. rewrite Et. auto.
    + eapply wframe_cbatch_ok; eauto. apply I.
    + rewrite Ev. intros r Hr. apply W. apply I; auto.
    + rewrite Et, ET. congruence.
  - constructor.
    + unfold sp_base; cbn [sbase]. unfold content. rewrite Em'. rewrite Eh' at 1. rewrite MC.
      rewrite (wframe_ocontent_frozen c s s'), (wframe_tabs_content s s'), (w_l0 _ _ W), (w_deep _ _ W) by auto.
      simpl. apply lookup_eq_cons. apply R.
    + rewrite Et, ET. unfold sp_base; cbn [stxn]. pose proof (r_txn _ _ R) as T. rewrite ET in T. exact T.
    + rewrite Ec. unfold sp_base; cbn [sbat]. pose proof (r_bat _ _ R) as B. pose proof (i_cbatch _ _ I) as CB. unfold cbatch_ok in CB.
      destruct (cbatch s) as [[bl recs]|]; auto. destruct CB as [O F].
      rewrite <- B. apply (wframe_bat_content s s'); auto.
    + unfold sp_base; cbn [sits]. apply (wframe_iters_rel s s'); auto; try apply I; try apply R.
Qed.

Lemma sub_first a b : sub (a ++ b) 0 (length a) = a.
Proof. apply (sub_prefix_app [] a b). Qed.

Lemma sub_second a b : sub (a ++ b) (length a) (length b) = b.
Proof. replace (a ++ b) with (a ++ b ++ []) by (rewrite app_nil_r; auto). apply sub_prefix_app. Qed.

Lemma step_put_rec c s sp k v del :
  Inv c s -> Rel s sp -> txn s = None ->
  Inv c (put_rec fixed_modes c s k v del) /\
  Rel (put_rec fixed_modes c s k v del) (sp_base sp ((k, if del then None else Some v) :: sbase sp)).
Proof.
  intros I R ET. unfold put_rec.
  destruct (client_buf_ok c s sp k I R) as (I1 & R1 & Q1 & V1 & O1 & D1 & E1).
  pose proof (client_buf_wframe s k) as (W1 & M1 & T1 & C1).
  destruct (client_buf s k) as [s1 kr]. cbn [fst snd] in *.
  (* the value buffer *)
  assert (exists s2 vr, (if del then (s1, mkref (rloc kr) 0 0) else client_buf s1 v) = (s2, vr) /\
          Inv c s2 /\ Rel s2 sp /\ txn s2 = None) as (s2 & vr & E2 & I2 & R2 & T2).
  { destruct del.
    - exists s1, (mkref (rloc kr) 0 0). split; auto. split; auto. split; auto. congruence.
    - destruct (client_buf_ok c s1 sp v I1 R1) as (Ia & Ra & Qa & _).
      pose proof (client_buf_wframe s1 v) as (_ & _ & Ta & _).
      destruct (client_buf s1 v) as [s2 vr]. cbn [fst snd] in *.
      exists s2, vr. split; auto. split; auto. split; auto. congruence. }
  rewrite E2. cbn [fixed_modes]. cbv beta iota zeta.
  set (vb := if del then [] else v).
  set (s3 := set_hp s2 (hset (hp s2) (wbatch s2) (k ++ vb))).
  assert (wframe s2 s3) as W3
    by (apply (wframe_hset s2 (wbatch s2) _ (DB KBatch) (i_wbatch _ _ I2)); [reflexivity|discriminate|discriminate]).
  assert (Inv c s3) as I3 by (exact (inv_wframe_same c s2 s3 I2 W3 eq_refl eq_refl eq_refl eq_refl)).
  assert (Rel s3 sp) as R3 by (exact (rel_wframe_same c s2 s3 sp I2 W3 eq_refl eq_refl eq_refl R2)).
  assert (txn s3 = None) as T3 by auto.
  assert (hget (hp s3) (wbatch s2) = k ++ vb) as G3
    by (simpl; apply hget_hset_same; eapply own_lt; exact (i_wbatch _ _ I2)).
  pose proof (put_into_mem c s3 sp (mkref (wbatch s2) 0 (length k)) (mkref (wbatch s2) (length k) (length vb)) del I3 R3 T3)
    as (I4 & R4 & _).
  assert (deref (hp s3) (mkref (wbatch s2) 0 (length k)) = k) as DK
    by (unfold deref; cbn [rloc roff rlen mkref]; rewrite G3; apply sub_first).
  assert (deref (hp s3) (mkref (wbatch s2) (length k) (length vb)) = vb) as DV
    by (unfold deref; cbn [rloc roff rlen mkref]; rewrite G3; apply sub_second).
  rewrite DK, DV in R4.
  replace (wbatch s3) with (wbatch s2) by auto.
  destruct (memdb_put fixed_modes c s3 (mem s3) (mkref (wbatch s2) 0 (length k)) (mkref (wbatch s2) (length k) (length vb)) del)
    as [s4 m] eqn:EM. cbn [fst snd] in *.
  split; auto.
  replace (if del then None else Some v) with (if del then None else Some vb); auto.
  unfold vb. destruct del; auto.
Qed.

(* ---- the client's batch ---- *)

Definition sp_bat (sp : sstate) (b : amap) : sstate :=
  {| sbase := sbase sp; stxn := stxn sp; sbat := b; sits := sits sp |}.

(* appending a record to an arena (any owner): layout and contents *)
Lemma arena_append h l o es kb vb del :
  own h l o -> Forall (ment_ok h l) es ->
  let old := length (hget h l) in
  let e := {| mk := mkref l old (length kb); mv := mkref l (old + length kb) (length vb); mdel := del |} in
  let h' := happend h l (kb ++ vb) in
  Forall (ment_ok h' l) (e :: es) /\
  mem_content h' {| mkv := l; mds := e :: es |} = (kb, if del then None else Some vb) :: mem_content h {| mkv := l; mds := es |}.
Proof.
  intros O F old e h'.
  assert (hget h' l = hget h l ++ kb ++ vb) as G by (unfold h', happend; apply hget_hset_same; eapply own_lt; eauto).
  assert (forall r, rloc r = l -> ref_in h r -> ref_in h' r /\ deref h' r = deref h r) as ST.
  { intros r E Rr. unfold ref_in, deref in *. rewrite E in *. rewrite G. split.
    - rewrite app_length. lia.
    - apply sub_app. auto. }
  split.
  - constructor.
    + unfold ment_ok, ref_in; simpl. rewrite G, !app_length. fold old. repeat split; auto; lia.
    + eapply Forall_impl; [|exact F]. intros x (E1 & E2 & R1 & R2).
      repeat split; auto; apply ST; auto.
  - unfold mem_content. cbn [mds map mk mv mdel e]. f_equal.
    + f_equal.
      * unfold deref; cbn [mkref rloc roff rlen]. rewrite G. apply sub_prefix_app.
      * destruct del; auto. f_equal. unfold deref; cbn [mkref rloc roff rlen]. rewrite G.
        replace (hget h l ++ kb ++ vb) with ((hget h l ++ kb) ++ vb ++ []) by (rewrite app_nil_r, <- app_assoc; auto).
        replace (old + length kb) with (length (hget h l ++ kb)) by (rewrite app_length; auto).
        apply sub_prefix_app.
    + apply map_ext_in. intros x Hx. eapply Forall_forall in F; eauto. destruct F as (E1 & E2 & R1 & R2).
      destruct (ST _ E1 R1) as [_ ->]. destruct (mdel x); auto. destruct (ST _ E2 R2) as [_ ->]. auto.
Qed.

Lemma wframe_happend_bat s l b : own (hp s) l ClientBatch -> wframe s (set_hp s (happend (hp s) l b)).
Proof.
  intros O. unfold happend.
  assert (keep (fun o' => negb (owner_eqb o' ClientBatch)) (hp s) (hset (hp s) l (hget (hp s) l ++ b))) as K
    by (eapply keep_hset; eauto).
  constructor; simpl; auto.
  - eapply memgrow_hset_other; eauto. discriminate.
  - eapply keep_weaken; [|exact K]. intros [| |[]| |]; simpl; auto; discriminate.
  - intros l' o' H. apply own_hset; auto.
  - intros l' H. split; [apply own_hset; auto|].
    destruct (Nat.eq_dec l l') as [->|N].
    + exists b. apply hget_hset_same. eapply own_lt; eauto.
    + exists []. rewrite app_nil_r. apply hget_hset_other; auto.
Qed.

Lemma step_batch_append c s sp k v del :
  Inv c s -> Rel s sp ->
  Inv c (batch_append fixed_modes c s k v del) /\
  Rel (batch_append fixed_modes c s k v del) (sp_bat sp ((k, if del then None else Some v) :: sbat sp)).
Proof.
  intros I R. unfold batch_append.
  destruct (client_buf_ok c s sp k I R) as (I1 & R1 & Q1 & V1 & O1 & D1 & E1).
  destruct (client_buf s k) as [s1 kr]. cbn [fst snd] in *.
  assert (exists s2 vr, (if del then (s1, mkref (rloc kr) 0 0) else client_buf s1 v) = (s2, vr) /\
          Inv c s2 /\ Rel s2 sp) as (s2 & vr & E2 & I2 & R2).
  { destruct del.
    - exists s1, (mkref (rloc kr) 0 0). auto.
    - destruct (client_buf_ok c s1 sp v I1 R1) as (Ia & Ra & _).
      destruct (client_buf s1 v) as [s2 vr]. cbn [fst snd] in *. exists s2, vr. auto. }
  rewrite E2. clear E2.
  (* the batch buffer *)
  assert (exists s3 bl recs,
            match cbatch s2 with
            | Some (bl0, recs0) => (s2, bl0, recs0)
            | None => let (s', bl0) := alloc s2 [] ClientBatch in (s', bl0, [])
            end = (s3, bl, recs) /\
            Inv c s3 /\ Rel s3 sp /\ own (hp s3) bl ClientBatch /\ Forall (ment_ok (hp s3) bl) recs /\
            mem_content (hp s3) {| mkv := bl; mds := recs |} = sbat sp) as (s3 & bl & recs & E3 & I3 & R3 & O3 & F3 & C3).
  { pose proof (i_cbatch _ _ I2) as CB. pose proof (r_bat _ _ R2) as RB. unfold cbatch_ok in CB.
    destruct (cbatch s2) as [[bl0 recs0]|] eqn:EC.
    - exists s2, bl0, recs0. destruct CB. auto 10.
    - unfold alloc. cbn [fst snd]. eexists _, _, _. split; [reflexivity|].
      pose proof (wframe_alloc s2 [] ClientBatch) as W. unfold alloc in W. cbn [fst] in W.
      split; [|split; [|split; [|split]]].
      + apply (inv_wframe_same c s2 _ I2 W); auto.
      + apply (rel_wframe_same c s2 _ sp I2 W); auto.
      + simpl. apply own_alloc_new.
      + constructor.
      + rewrite RB. auto. }
  rewrite E3. clear E3. cbn [fixed_modes]. cbv beta iota zeta.
  set (vb := if del then [] else v).
  destruct (arena_append (hp s3) bl ClientBatch recs k vb del O3 F3) as [FA CA].
  set (e := {| mk := mkref bl (length (hget (hp s3) bl)) (length k);
               mv := mkref bl (length (hget (hp s3) bl) + length k) (length vb); mdel := del |}) in *.
  set (h' := happend (hp s3) bl (k ++ vb)) in *.
  pose proof (wframe_happend_bat s3 bl (k ++ vb) O3) as W. fold h' in W.
  set (s' := set_cbatch (set_hp s3 h') (Some (bl, e :: recs))).
  assert (wframe s3 s') as W' by (destruct W; constructor; auto).
  split.
  - apply (inv_wframe c s3 s' I3 W'); simpl.
    + eapply memdb_ok_grow; [apply W|apply I3].
    + eapply omemdb_ok_grow; [apply W|apply I3].
    + auto.
    + unfold cbatch_ok; simpl. split; auto. apply W; auto.
    + intros r Hr. apply W. apply I3; auto.
    + apply I3.
  - constructor.
    + unfold sp_bat; cbn [sbase]. rewrite (wframe_content_same c s3 s'); auto. apply R3.
    + unfold sp_bat; cbn [stxn]. change (txn s') with (txn s3).
      pose proof (r_txn _ _ R3) as T. pose proof (i_txn _ _ I3) as IT.
      destruct (txn s3) as [t|]; destruct (stxn sp); auto.
      unfold txn_content in *. rewrite (wframe_content_same c s3 s'), (wframe_tabs_content s3 s') by auto.
      rewrite (mem_content_grow (hp s3) (hp s')); auto. apply W'.
    + unfold sp_bat; cbn [sbat]. simpl. rewrite CA, C3.
      unfold vb. destruct del; auto.
    + unfold sp_bat; cbn [sits]. apply (wframe_iters_rel s3 s'); auto; try apply I3; try apply R3.
Qed.

Lemma rel_sp_base_same s sp : Rel s sp -> Rel s (sp_base sp (sbase sp)).
Proof. intros R. destruct R. constructor; auto. Qed.

Lemma mem_content_rev h l rs : mem_content h {| mkv := l; mds := rev rs |} = rev (mem_content h {| mkv := l; mds := rs |}).
Proof. unfold mem_content; simpl. apply map_rev. Qed.

Lemma put_mem_ok c : forall rs s sp bl,
  Inv c s -> Rel s sp -> txn s = None -> own (hp s) bl ClientBatch -> Forall (ment_ok (hp s) bl) rs ->
  Inv c (put_mem fixed_modes c s rs) /\
  Rel (put_mem fixed_modes c s rs) (sp_base sp (rev (mem_content (hp s) {| mkv := bl; mds := rs |}) ++ sbase sp)) /\
  cvis (put_mem fixed_modes c s rs) = cvis s /\ cbatch (put_mem fixed_modes c s rs) = cbatch s /\
  txn (put_mem fixed_modes c s rs) = None /\ wframe s (put_mem fixed_modes c s rs).
Proof.
  induction rs as [|e rs IH]; intros s sp bl I R ET O F.
  - simpl. split; [auto|]. split; [apply rel_sp_base_same; auto|]. split; [auto|]. split; [auto|]. split; [auto|apply wframe_refl].
  - cbn [put_mem].
    pose proof (put_into_mem c s sp (mk e) (mv e) (mdel e) I R ET) as (I1 & R1 & V1 & C1 & T1 & W1).
    destruct (memdb_put fixed_modes c s (mem s) (mk e) (mv e) (mdel e)) as [s1 m1]. cbn [fst snd] in *.
    inversion F as [|? ? Fe Frs]; subst.
    assert (own (hp (set_mem s1 m1)) bl ClientBatch) as O1 by (apply W1; auto).
    assert (Forall (ment_ok (hp (set_mem s1 m1)) bl) rs) as F1.
    { eapply Forall_impl; [|exact Frs]. intros x Hx. apply (bat_ment_ok_grow (hp s) _ bl x (w_bat _ _ W1) O Hx). }
    destruct (IH _ _ bl I1 R1 T1 O1 F1) as (I2 & R2 & V2 & C2 & T2 & W2).
    split; [auto|]. split; [|split; [congruence|split; [congruence|split; [auto|eapply wframe_trans; eauto]]]].
    rewrite (wframe_bat_content s (set_mem s1 m1) bl rs W1 O Frs) in R2.
    unfold sp_base in *. cbn [sbase stxn sbat sits] in *.
    unfold mem_content at 1. cbn [mds map]. fold (mem_content (hp s) {| mkv := bl; mds := rs |}).
    cbn [rev]. rewrite <- app_assoc. cbn [app]. exact R2.
Qed.

(* everything but batch buffers is left alone *)
Definition notbat (o : owner) : bool := negb (owner_eqb o ClientBatch).

Record frameB (s s' : state) : Prop := {
  b_keep : keep notbat (hp s) (hp s');
  b_mem : mem s' = mem s;
  b_frozen : frozen s' = frozen s;
  b_files : files s' = files s;
  b_l0 : l0 s' = l0 s;
  b_deep : deep s' = deep s;
  b_cache : cache s' = cache s;
  b_pool : pool s' = pool s;
  b_wbatch : wbatch s' = wbatch s;
  b_iters : iters s' = iters s;
  b_txn : txn s' = txn s
}.

Lemma frameB_memgrow s s' : frameB s s' -> memgrow (hp s) (hp s').
Proof. intros B. eapply keep_memgrow; [|apply B]. auto. Qed.

Lemma frameB_files_ext s s' : frameB s s' -> files_ext s s'.
Proof. intros B. exists []. rewrite app_nil_r. apply B. Qed.

Lemma inv_frameB c s s' :
  Inv c s -> frameB s s' -> cbatch_ok s' -> (forall r, In r (cvis s') -> own (hp s') (rloc r) Client) -> Inv c s'.
Proof.
  intros I B CB V. pose proof (frameB_memgrow _ _ B) as G.
  constructor; auto.
  - rewrite (b_mem _ _ B). eapply memdb_ok_grow; eauto. apply I.
  - rewrite (b_frozen _ _ B). eapply omemdb_ok_grow; eauto. apply I.
  - rewrite (b_txn _ _ B). eapply omemdb_ok_grow; eauto. apply I.
  - apply (blockinv_frame c s s'); try apply B; try apply I.
    + eapply keep_weaken; [|apply B]. intros [| |[]| |]; simpl; auto; discriminate.
    + apply frameB_files_ext; auto.
  - rewrite (b_wbatch _ _ B). eapply keep_own; [apply B|apply I|auto].
  - apply (iters_ok_frame s s'); auto; try apply B; try apply I.
    + eapply keep_iterbufs; [|apply B]. auto.
    + apply frameB_files_ext; auto.
  - unfold tids_ok, txn_tabs. rewrite (b_l0 _ _ B), (b_deep _ _ B), (b_txn _ _ B), (b_files _ _ B). apply I.
  - rewrite (b_txn _ _ B). intros H. unfold empty_mems. rewrite (b_mem _ _ B), (b_frozen _ _ B). apply I; auto.
Qed.

Lemma rel_frameB c s s' sp b :
  Inv c s -> frameB s s' -> Rel s sp ->
  match cbatch s' with
  | None => b = []
  | Some (bl, recs) => mem_content (hp s') {| mkv := bl; mds := recs |} = b
  end ->
  Rel s' (sp_bat sp b).
Proof.
  intros I B R RB. pose proof (frameB_memgrow _ _ B) as G.
  assert (content s' = content s) as EC.
  { apply content_frame; try apply B; try apply I; auto. apply frameB_files_ext; auto. }
  constructor; unfold sp_bat; cbn [sbase stxn sbat sits].
  - rewrite EC. apply R.
  - rewrite (b_txn _ _ B). pose proof (r_txn _ _ R) as T. pose proof (i_txn _ _ I) as IT.
    destruct (txn s) as [t|]; destruct (stxn sp); auto.
    unfold txn_content in *. rewrite EC.
    assert (tabs_content s' (ttabs t) = tabs_content s (ttabs t)) as ->
      by (unfold tabs_content, tab_file_content; rewrite (b_files _ _ B); auto).
    rewrite (mem_content_grow (hp s) (hp s')); auto.
  - exact RB.
  - apply (iters_rel_frame s s'); auto; try apply B; try apply I; try apply R.
    + eapply keep_iterbufs; [|apply B]. auto.
    + apply frameB_files_ext; auto.
Qed.

Lemma step_batch_write c s sp :
  Inv c s -> Rel s sp -> txn s = None ->
  Inv c (batch_write fixed_modes c s) /\
  Rel (batch_write fixed_modes c s) {| sbase := sbat sp ++ sbase sp; stxn := stxn sp; sbat := []; sits := sits sp |}.
Proof.
  intros I R ET. unfold batch_write.
  pose proof (i_cbatch _ _ I) as CB. pose proof (r_bat _ _ R) as RB. unfold cbatch_ok in CB.
  destruct (cbatch s) as [[bl recs]|] eqn:EC.
  - destruct CB as [O F].
    assert (Forall (ment_ok (hp s) bl) (rev recs)) as Fr
      by (apply Forall_forall; intros x Hx; apply in_rev in Hx; eapply Forall_forall in F; eauto).
    destruct (put_mem_ok c (rev recs) s sp bl I R ET O Fr) as (I1 & R1 & V1 & C1 & T1 & W1).
    rewrite mem_content_rev, rev_involutive, RB in R1.
    remember (put_mem fixed_modes c s (rev recs)) as s1 eqn:Es1. clear Es1.
    assert (own (hp s1) bl ClientBatch) as O1 by (apply W1; auto).
    cbv zeta.
    set (h2 := hchown (hp s1) bl Client).
    set (s' := set_cbatch (set_cvis (set_hp s1 h2) (whole h2 bl :: cvis (set_hp s1 h2))) None).
    assert (frameB s1 s') as B.
    { constructor; auto. simpl. eapply keep_hchown; eauto. }
    change (Inv c s' /\ Rel s' {| sbase := sbat sp ++ sbase sp; stxn := stxn sp; sbat := []; sits := sits sp |}).
    split.
    + apply (inv_frameB c s1 s' I1 B).
      * unfold cbatch_ok. simpl. auto.
      * simpl. intros r [<-|Hr].
        -- simpl. unfold own, h2. apply hown_hchown_same. eapply own_lt; eauto.
        -- unfold own, h2. rewrite hown_hchown_other; [apply I1; auto|].
           intros E. pose proof (i_cvis _ _ I1 r Hr) as Oc. rewrite <- E in Oc.
           pose proof (own_fun _ _ _ _ O1 Oc). discriminate.
    + exact (rel_frameB c s1 s' _ [] I1 B R1 eq_refl).
  - split.
    + exact I.
    + destruct R. constructor; cbn [sbase stxn sbat sits]; auto.
      * rewrite RB. auto.
      * rewrite EC. auto.
Qed.

(* ---- Transaction.Put / Delete ---- *)

Definition sp_txn (sp : sstate) (t : option amap) : sstate :=
  {| sbase := sbase sp; stxn := t; sbat := sbat sp; sits := sits sp |}.

Lemma step_txn_put c s sp k v del :
  Inv c s -> Rel s sp ->
  Inv c (txn_put fixed_modes c s k v del) /\
  Rel (txn_put fixed_modes c s k v del)
      (match stxn sp with Some ov => sp_txn sp (Some ((k, if del then None else Some v) :: ov)) | None => sp end).
Proof.
  intros I R. unfold txn_put. pose proof (r_txn _ _ R) as T.
  destruct (txn s) as [t|] eqn:ET; destruct (stxn sp) as [ov|] eqn:ES; try contradiction; [|auto].
  destruct (client_buf_ok c s sp k I R) as (I1 & R1 & Q1 & V1 & O1 & D1 & E1).
  pose proof (client_buf_wframe s k) as (W1 & M1 & T1 & C1).
  destruct (client_buf s k) as [s1 kr]. cbn [fst snd] in *.
  assert (exists s2 vr, (if del then (s1, mkref (rloc kr) 0 0) else client_buf s1 v) = (s2, vr) /\
          Inv c s2 /\ Rel s2 sp /\ txn s2 = Some t /\ deref (hp s2) kr = k /\ (del = false -> deref (hp s2) vr = v))
    as (s2 & vr & E2 & I2 & R2 & T2 & DK & DV).
  { destruct del.
    - exists s1, (mkref (rloc kr) 0 0). split; auto. split; auto. split; auto. split; [congruence|]. split; auto. discriminate.
    - destruct (client_buf_ok c s1 sp v I1 R1) as (Ia & Ra & Qa & Va & Oa & Da & Ea).
      pose proof (client_buf_wframe s1 v) as (_ & _ & Ta & _).
      destruct (client_buf s1 v) as [s2 vr]. cbn [fst snd] in *.
      exists s2, vr. split; auto. split; auto. split; auto. split; [congruence|]. split; auto.
      unfold deref. erewrite keep_get; [exact D1|apply Qa|exact O1|auto]. }
  rewrite E2. clear E2.
  pose proof (i_txn _ _ I2) as MT. rewrite T2 in MT. simpl in MT.
  destruct (memdb_put_ok c s2 (tmem t) kr vr del MT) as (h' & E3 & Eh & Ekv & MO & MC).
  destruct (memdb_put fixed_modes c s2 (tmem t) kr vr del) as [s3 m]. cbn [fst snd] in *. subst s3.
  set (s' := set_txn (set_hp s2 h') (Some {| tmem := m; ttabs := ttabs t |})).
  assert (wframe s2 (set_hp s2 h')) as W0 by (rewrite Eh; apply wframe_happend_mem; apply MT).
  assert (wframe s2 s') as W by (destruct W0; constructor; auto).
  split.
  - apply (inv_wframe c s2 s' I2 W); simpl; auto.
    + eapply memdb_ok_grow; [apply W0|apply I2].
    + unfold txn_tabs. simpl. rewrite T2. auto.
    + apply (wframe_cbatch_ok s2 s' W); auto. apply I2.
    + intros r Hr. apply W0. apply I2; auto.
    + intros _. apply (i_txnq _ _ I2). congruence.
  - pose proof (r_txn _ _ R2) as TT. rewrite T2, ES in TT.
    constructor; unfold sp_txn; cbn [sbase stxn sbat sits].
    + rewrite (wframe_content_same c s2 s'); auto. apply R2.
    + simpl. unfold txn_content. cbn [tmem ttabs]. change (hp s') with h'. rewrite MC.
      rewrite (wframe_content_same c s2 s'), (wframe_tabs_content s2 s') by auto.
      rewrite DK. simpl.
      replace (if del then None else Some (deref (hp s2) vr)) with (if del then None else Some v)
        by (destruct del; auto; rewrite DV; auto).
      apply lookup_eq_cons. exact TT.
    + change (cbatch s') with (cbatch s2). pose proof (r_bat _ _ R2) as B. pose proof (i_cbatch _ _ I2) as CB. unfold cbatch_ok in CB.
      destruct (cbatch s2) as [[bl recs]|]; auto. destruct CB as [O F].
      rewrite <- B. apply (wframe_bat_content s2 s'); auto.
    + apply (wframe_iters_rel s2 s'); auto; try apply I2; try apply R2.
Qed.

(* ================================================================ Part 3: background work, transactions *)

Definition allo (o : owner) : bool := true.

(* layout changes: the heap only gains cells, the file list only grows; cache, pool, iterators, the
   client's things stay *)
Record frameL (s s' : state) : Prop := {
  l_keep : keep allo (hp s) (hp s');
  l_files : files_ext s s';
  l_cache : cache s' = cache s;
  l_pool : pool s' = pool s;
  l_wbatch : wbatch s' = wbatch s;
  l_iters : iters s' = iters s;
  l_cbatch : cbatch s' = cbatch s;
  l_cvis : cvis s' = cvis s
}.

Lemma files_ext_same s s' : files s' = files s -> files_ext s s'.
Proof. intros E. exists []. rewrite app_nil_r. auto. Qed.

Lemma frameL_memgrow s s' : frameL s s' -> memgrow (hp s) (hp s').
Proof. intros L. eapply keep_memgrow; [|apply L]. auto. Qed.

Lemma frameL_refl s : frameL s s.
Proof. constructor; auto. apply keep_refl. apply files_ext_refl. Qed.

Lemma files_ext_trans s1 s2 s3 : files_ext s1 s2 -> files_ext s2 s3 -> files_ext s1 s3.
Proof. intros [x E1] [y E2]. exists (x ++ y). rewrite E2, E1, app_assoc. auto. Qed.

Lemma frameL_trans s1 s2 s3 : frameL s1 s2 -> frameL s2 s3 -> frameL s1 s3.
Proof.
  intros A B. destruct A, B. constructor; try congruence.
  - eapply keep_trans; eauto.
  - eapply files_ext_trans; eauto.
Qed.

Lemma inv_frameL c s s' :
  Inv c s -> frameL s s' ->
  memdb_ok (hp s') (mem s') -> omemdb_ok (hp s') (frozen s') -> omemdb_ok (hp s') (option_map tmem (txn s')) ->
  tids_ok s' -> (txn s' <> None -> empty_mems s') -> Inv c s'.
Proof.
  intros I L M F T TI Q. pose proof (frameL_memgrow _ _ L) as G.
  constructor; auto.
  - rewrite (l_cvis _ _ L). intros r Hr. eapply keep_own; [apply L|apply I; auto|auto].
  - apply (blockinv_frame c s s'); try apply L; try apply I.
    eapply keep_weaken; [|apply L]. auto.
  - rewrite (l_wbatch _ _ L). eapply keep_own; [apply L|apply I|auto].
  - apply (iters_ok_frame s s'); auto; try apply L; try apply I.
    eapply keep_iterbufs; [|apply L]. auto.
  - unfold cbatch_ok. rewrite (l_cbatch _ _ L). pose proof (i_cbatch _ _ I) as CB. unfold cbatch_ok in CB.
    destruct (cbatch s) as [[bl recs]|]; auto. destruct CB as [O F0]. split.
    + eapply keep_own; [apply L|eauto|auto].
    + eapply Forall_impl; [|exact F0]. intros e He. eapply bat_ment_ok_grow; eauto.
      eapply keep_batgrow; [|apply L]. auto.
Qed.

Lemma rel_frameL c s s' sp sp' :
  Inv c s -> frameL s s' -> Rel s sp ->
  lookup_eq (content s') (sbase sp') ->
  match txn s', stxn sp' with
  | None, None => True
  | Some t, Some ov => lookup_eq (txn_content s' t) ov
  | _, _ => False
  end ->
  sbat sp' = sbat sp -> sits sp' = sits sp -> Rel s' sp'.
Proof.
  intros I L R B T EB EI. constructor; auto.
  - rewrite (l_cbatch _ _ L), EB. pose proof (r_bat _ _ R) as RB. pose proof (i_cbatch _ _ I) as CB. unfold cbatch_ok in CB.
    destruct (cbatch s) as [[bl recs]|]; auto. destruct CB as [O F].
    rewrite <- RB. eapply bat_content_grow; eauto. eapply keep_batgrow; [|apply L]. auto.
  - rewrite EI. apply (iters_rel_frame s s'); auto; try apply L; try apply I; try apply R.
    + apply frameL_memgrow; auto.
    + eapply keep_iterbufs; [|apply L]. auto.
Qed.

Lemma frameL_tabs_content s s' tids :
  frameL s s' -> (forall t, In t tids -> t < length (files s)) -> tabs_content s' tids = tabs_content s tids.
Proof. intros L H. apply tabs_content_ext; auto. apply L. Qed.

Lemma tids_l0deep c s t : Inv c s -> In t (l0 s ++ deep s) -> t < length (files s).
Proof. intros I H. apply (i_tids _ _ I). rewrite app_assoc. apply in_or_app. auto. Qed.

Lemma tids_txn c s t x : Inv c s -> txn s = Some x -> In t (ttabs x) -> t < length (files s).
Proof. intros I E H. apply (i_tids _ _ I). unfold txn_tabs. rewrite E. apply in_or_app. right. apply in_or_app. auto. Qed.

(* the contents of the layers other than the tables, through a layout change that keeps them *)
Lemma frameL_mem_content c s s' m : Inv c s -> frameL s s' -> memdb_ok (hp s) m -> mem_content (hp s') m = mem_content (hp s) m.
Proof. intros I L M. apply mem_content_grow; auto. apply frameL_memgrow; auto. Qed.

(* ---- rotate ---- *)

Lemma rotate_ok c s sp : Inv c s -> Rel s sp -> Inv c (rotate s) /\ Rel (rotate s) sp /\ frameL s (rotate s) /\
  txn (rotate s) = txn s /\ (frozen s = None -> frozen (rotate s) = Some (mem s) /\ mds (mem (rotate s)) = []) /\
  l0 (rotate s) = l0 s /\ deep (rotate s) = deep s /\ (frozen s <> None -> rotate s = s).
Proof.
  intros I R. unfold rotate. destruct (frozen s) as [fm|] eqn:EF.
  - split; [auto|]. split; [auto|]. split; [apply frameL_refl|]. split; [auto|]. split; [discriminate|]. auto.
  - unfold alloc. cbv beta iota zeta. cbn [fst snd].
    set (h1 := fst (halloc (hp s) [] (DB KMem))).
    set (l := snd (halloc (hp s) [] (DB KMem))).
    set (s' := set_mem (set_frozen (set_hp s h1) (Some (mem (set_hp s h1)))) {| mkv := l; mds := [] |}).
    assert (frameL s s') as L.
    { constructor; auto. apply keep_alloc. apply files_ext_same; auto. }
    pose proof (frameL_memgrow _ _ L) as G.
    assert (Inv c s') as I'.
    { apply (inv_frameL c s s' I L); simpl.
      - split; simpl; auto. apply own_alloc_new.
      - eapply memdb_ok_grow; [exact G|apply I].
      - eapply omemdb_ok_grow; [exact G|apply I].
      - exact (i_tids _ _ I).
      - intros H. destruct (i_txnq _ _ I H) as [E1 E2]. split; simpl; auto. }
    assert (content s' = content s) as EC.
    { unfold content. simpl. rewrite EF. simpl.
      rewrite (mem_content_grow (hp s) h1); auto. apply I. }
    split; [exact I'|]. split; [|split; [exact L|split; [auto|split; [auto|split; [auto|split; [auto|congruence]]]]]].
    apply (rel_frameL c s s' sp sp I L R); auto.
    + rewrite EC. apply R.
    + change (txn s') with (txn s). pose proof (r_txn _ _ R) as T. pose proof (i_txn _ _ I) as IT.
      destruct (txn s) as [t|]; destruct (stxn sp); auto.
      unfold txn_content in *. rewrite EC.
      change (tabs_content s' (ttabs t)) with (tabs_content s (ttabs t)).
      change (hp s') with h1. rewrite (mem_content_grow (hp s) h1); auto.
Qed.

(* ---- flush of the frozen buffer ---- *)

Lemma nth_error_snoc {A} (l : list A) x : nth_error (l ++ [x]) (length l) = Some x.
Proof. rewrite nth_error_app2, Nat.sub_diag; auto. Qed.

Lemma tab_file_content_new s s' T : files s' = files s ++ [T] -> tab_file_content s' (length (files s)) = tab_content T.
Proof. intros E. unfold tab_file_content. rewrite E, nth_error_snoc. auto. Qed.

Lemma flush_ok c s sp : Inv c s -> Rel s sp -> Inv c (flush_frozen c s) /\ Rel (flush_frozen c s) sp /\
  frameL s (flush_frozen c s) /\ txn (flush_frozen c s) = txn s /\ frozen (flush_frozen c s) = None /\
  mem (flush_frozen c s) = mem s /\ deep (flush_frozen c s) = deep s.
Proof.
  intros I R. unfold flush_frozen. destruct (frozen s) as [fm|] eqn:EF.
  2:{ split; [auto|]. split; [auto|]. split; [apply frameL_refl|]. auto. }
  unfold add_table. cbv beta iota zeta. cbn [fst snd].
  set (T := build_table (blk c) (mem_content (hp s) fm)).
  set (id := length (files s)).
  set (s' := set_frozen (set_tabs (set_tabs s (files s ++ [T]) (l0 s) (deep s)) (files s ++ [T]) (id :: l0 s) (deep s)) None).
  change (Inv c s' /\ Rel s' sp /\ frameL s s' /\ txn s' = txn s /\ frozen s' = None /\ mem s' = mem s /\ deep s' = deep s).
  assert (frameL s s') as L.
  { constructor; auto. apply keep_refl. exists [T]. auto. }
  assert (tab_file_content s' id = mem_content (hp s) fm) as ET
    by (unfold id; rewrite (tab_file_content_new s s' T); auto; apply build_table_ok).
  assert (Inv c s') as I'.
  { apply (inv_frameL c s s' I L); simpl; try apply I.
    - auto.
    - unfold tids_ok, txn_tabs. simpl. rewrite app_length. simpl.
      intros t [<-|Ht]; [unfold id; lia|]. pose proof (i_tids _ _ I t Ht). lia.
    - intros H. destruct (i_txnq _ _ I H) as [E1 E2]. split; simpl; auto. }
  assert (content s' = content s) as EC.
  { unfold content. change (l0 s') with (id :: l0 s). change (deep s') with (deep s).
    change (frozen s') with (@None memdb). change (mem s') with (mem s). change (hp s') with (hp s).
    rewrite EF. cbn [ocontent app]. unfold tabs_content at 1. cbn [flat_map app].
    fold (tabs_content s' (l0 s ++ deep s)). rewrite ET.
    rewrite (frameL_tabs_content s s'); auto. intros t Ht. eapply tids_l0deep; eauto. }
  split; [exact I'|]. split; [|auto 10].
  apply (rel_frameL c s s' sp sp I L R); auto.
  - rewrite EC. apply R.
  - change (txn s') with (txn s). pose proof (r_txn _ _ R) as TT.
    destruct (txn s) as [t|] eqn:ETx; destruct (stxn sp); auto.
    unfold txn_content in *. rewrite EC. change (hp s') with (hp s).
    rewrite (frameL_tabs_content s s'); auto. intros x Hx. eapply tids_txn; eauto.
Qed.

(* ---- compaction ---- *)

Lemma tab_view_from_eq s tid : cache_ok s -> forall t' bi,
  (forall j fb, nth_error t' j = Some fb -> file_block s tid (bi + j) = Some fb) ->
  tab_view_from s tid t' bi = tab_content t'.
Proof.
  intros [_ C]. induction t' as [|fb t' IH]; intros bi H; simpl; auto.
  unfold tab_content in *. simpl. f_equal.
  - f_equal. unfold blk_view. destruct (cache_lookup (cache s) tid bi) as [l|] eqn:EL; auto.
    apply cache_lookup_in in EL. destruct (C _ _ _ EL) as [_ [fb' [F G]]].
    specialize (H 0 fb eq_refl). rewrite Nat.add_0_r in H. congruence.
  - apply IH. intros j fb' Hj. replace (S bi + j) with (bi + S j) by lia. apply H. auto.
Qed.

Lemma tab_view_eq s tid : cache_ok s -> tab_view s tid = tab_file_content s tid.
Proof.
  intros C. unfold tab_view, tab_file_content. destruct (nth_error (files s) tid) as [t|] eqn:E; auto.
  apply tab_view_from_eq; auto. intros j fb Hj. unfold file_block. rewrite E. auto.
Qed.

Lemma compact_ok c s sp : Inv c s -> Rel s sp -> Inv c (compact c s) /\ Rel (compact c s) sp.
Proof.
  intros I R. unfold compact. destruct (l0 s ++ deep s) as [|t0 ts] eqn:ET; [auto|].
  rewrite <- ET. unfold add_table. cbv beta iota zeta. cbn [fst snd].
  assert (flat_map (tab_view s) (l0 s ++ deep s) = tabs_content s (l0 s ++ deep s)) as EV.
  { unfold tabs_content. apply flat_map_ext. intros a. apply tab_view_eq. apply I. }
  rewrite EV.
  set (es := tabs_content s (l0 s ++ deep s)).
  set (T := build_table (blk c) (drop_tomb (dedupe es))).
  set (id := length (files s)).
  set (s' := set_tabs (set_tabs s (files s ++ [T]) (l0 s) (deep s)) (files s ++ [T]) [] [id]).
  assert (frameL s s') as L.
  { constructor; auto. apply keep_refl. exists [T]. auto. }
  assert (tab_file_content s' id = drop_tomb (dedupe es)) as ETf
    by (unfold id; rewrite (tab_file_content_new s s' T); auto; apply build_table_ok).
  assert (Inv c s') as I'.
  { apply (inv_frameL c s s' I L); simpl; try apply I.
    - unfold tids_ok, txn_tabs. simpl. rewrite app_length. simpl.
      intros t [<-|Ht]; [unfold id; lia|]. pose proof (i_tids _ _ I t) as HT.
      assert (t < length (files s)); [|lia]. apply HT. apply in_or_app. right. apply in_or_app. right. exact Ht. }
  assert (lookup_eq (content s') (content s)) as LC.
  { unfold content. change (l0 s') with (@nil nat). change (deep s') with [id].
    change (frozen s') with (frozen s). change (mem s') with (mem s). change (hp s') with (hp s).
    unfold tabs_content at 1. cbn [app flat_map]. rewrite app_nil_r, ETf.
    apply lookup_eq_app_r. apply lookup_eq_app_r. apply lookup_eq_drop_tomb_dedupe. }
  split; [exact I'|].
  apply (rel_frameL c s s' sp sp I L R); auto.
  - eapply lookup_eq_trans; [exact LC|apply R].
  - change (txn s') with (txn s). pose proof (r_txn _ _ R) as TT.
    destruct (txn s) as [t|] eqn:ETx; destruct (stxn sp); auto.
    unfold txn_content in *. change (hp s') with (hp s).
    rewrite (frameL_tabs_content s s'); auto; [|intros x Hx; eapply tids_txn; eauto].
    eapply lookup_eq_trans; [|exact TT]. apply lookup_eq_app_r. apply lookup_eq_app_r. exact LC.
Qed.

(* ---- eviction from the block cache ---- *)

Lemma in_remove_nth {A} n (l : list A) x : In x (remove_nth n l) -> In x l.
Proof.
  revert n. induction l as [|y l IH]; intros [|n]; simpl; auto.
  intros [H|H]; auto. right. eapply IH; eauto.
Qed.

Lemma nodup_remove_nth {A B} (f : A -> B) n (l : list A) : NoDup (map f l) -> NoDup (map f (remove_nth n l)).
Proof.
  revert n. induction l as [|y l IH]; intros [|n] H; simpl; auto; inversion H; subst; auto.
  constructor; auto. intros Hin. apply H2. apply in_map_iff in Hin as [z [E Hz]]. apply in_map_iff. exists z.
  split; auto. eapply in_remove_nth; eauto.
Qed.

Lemma removed_notin {A B} (f : A -> B) n (l : list A) x :
  NoDup (map f l) -> nth_error l n = Some x -> ~ In (f x) (map f (remove_nth n l)).
Proof.
  revert n. induction l as [|y l IH]; intros [|n] H E; simpl in *; try discriminate.
  - injection E as ->. inversion H; auto.
  - inversion H; subst. intros [Hin|Hin].
    + apply H2. rewrite Hin. apply in_map. eapply nth_error_In; eauto.
    + eapply IH; eauto.
Qed.

Lemma evict_ok c s sp n : Inv c s -> Rel s sp -> Inv c (evict c s n) /\ Rel (evict c s n) sp.
Proof.
  intros I R. unfold evict. destruct (nth_error (cache s) n) as [[[tid bi] l]|] eqn:EN; [|auto].
  pose proof (i_block _ _ I) as ([CN CC] & [PN PO] & E1 & E2).
  assert (In (tid, bi, l) (cache s)) as Hin by (eapply nth_error_In; eauto).
  destruct (CC _ _ _ Hin) as [Ol _].
  pose proof (removed_notin snd n (cache s) _ CN EN) as NI. simpl in NI.
  set (s1 := set_cache s (remove_nth n (cache s))).
  assert (forall o', o' = Pool \/ o' = DB KBlock ->
          cache_ok (set_hp s1 (hchown (hp s1) l o'))) as CO.
  { intros o' _. split; simpl.
    - apply nodup_remove_nth; auto.
    - intros t b l' Hl'. assert (l' <> l) as Nl.
      { intros ->. apply NI. apply in_map_iff. exists (t, b, l). auto. }
      destruct (CC _ _ _ (in_remove_nth _ _ _ Hl')) as [O' [fb [F G]]]. split.
      + unfold own. rewrite hown_hchown_other; auto.
      + exists fb. split; auto. rewrite hget_hchown. auto. }
  assert (keep nonblock (hp s) (hchown (hp s) l Pool) /\ keep nonblock (hp s) (hchown (hp s) l (DB KBlock))) as [K1 K2]
    by (split; eapply keep_hchown; eauto).
  destruct (pool_on c) eqn:EP.
  - unfold pool_put. rewrite EP.
    set (s' := set_pool (set_hp s1 (hchown (hp s1) l Pool)) (l :: pool s1)).
    assert (quiet s s') as Q by (constructor; auto).
    assert (blockinv c s') as B.
    { split; [|split; [|split]].
      - destruct (CO Pool (or_introl eq_refl)) as [A1 A2]. split; auto.
      - split; simpl.
        + constructor; auto. intros Hp. pose proof (own_fun _ _ _ _ Ol (PO _ Hp)). discriminate.
        + intros l' [<-|Hl'].
          * unfold own. apply hown_hchown_same. eapply own_lt; eauto.
          * unfold own. rewrite hown_hchown_other; [apply PO; auto|].
            intros ->. pose proof (own_fun _ _ _ _ Ol (PO _ Hl')). discriminate.
      - simpl. intros H. rewrite (E1 H) in EN. destruct n; discriminate.
      - intros H. congruence. }
    split.
    + apply (inv_quiet c s s' I Q B). simpl. intros r Hr. unfold own. rewrite hown_hchown_other; [apply I; auto|].
      intros ->. pose proof (own_fun _ _ _ _ Ol (i_cvis _ _ I r Hr)). discriminate.
    + exact (rel_quiet c s s' sp I Q R).
  - set (s' := set_hp s1 (hchown (hp s1) l (DB KBlock))).
    assert (quiet s s') as Q by (constructor; auto).
    assert (blockinv c s') as B.
    { split; [|split; [|split]].
      - apply CO. auto.
      - split; simpl; auto. intros l' Hl'. unfold own. rewrite hown_hchown_other; [apply PO; auto|].
        intros ->. pose proof (own_fun _ _ _ _ Ol (PO _ Hl')). discriminate.
      - simpl. intros H. rewrite (E1 H) in EN. destruct n; discriminate.
      - simpl. auto. }
    split.
    + apply (inv_quiet c s s' I Q B). simpl. intros r Hr. unfold own. rewrite hown_hchown_other; [apply I; auto|].
      intros ->. pose proof (own_fun _ _ _ _ Ol (i_cvis _ _ I r Hr)). discriminate.
    + exact (rel_quiet c s s' sp I Q R).
Qed.

(* ---- Transaction.flush ---- *)

Lemma txn_flush_ok c s sp :
  Inv c s -> Rel s sp -> Inv c (txn_flush c s) /\ Rel (txn_flush c s) sp /\
  l0 (txn_flush c s) = l0 s /\ deep (txn_flush c s) = deep s /\ mem (txn_flush c s) = mem s /\ frozen (txn_flush c s) = frozen s /\
  match txn s with
  | None => txn_flush c s = s
  | Some t => exists t', txn (txn_flush c s) = Some t' /\ mds (tmem t') = []
  end.
Proof.
  intros I R. unfold txn_flush. destruct (txn s) as [t|] eqn:ET; [|auto 10].
  unfold add_table, alloc. cbv beta iota zeta. cbn [fst snd].
  set (T := build_table (blk c) (mem_content (hp s) (tmem t))).
  set (id := length (files s)).
  set (s1 := set_tabs s (files s ++ [T]) (l0 s) (deep s)).
  set (h2 := fst (halloc (hp s1) [] (DB KMem))).
  set (l := snd (halloc (hp s1) [] (DB KMem))).
  set (t' := {| tmem := {| mkv := l; mds := [] |}; ttabs := id :: ttabs t |}).
  set (s' := set_txn (set_hp s1 h2) (Some t')).
  assert (frameL s s') as L.
  { constructor; auto. apply (keep_alloc allo (hp s) [] (DB KMem)). exists [T]. auto. }
  pose proof (frameL_memgrow _ _ L) as G.
  assert (tab_file_content s' id = mem_content (hp s) (tmem t)) as ETf
    by (unfold id; rewrite (tab_file_content_new s s' T); auto; apply build_table_ok).
  pose proof (i_txn _ _ I) as MT. rewrite ET in MT. simpl in MT.
  assert (Inv c s') as I'.
  { apply (inv_frameL c s s' I L); simpl.
    - eapply memdb_ok_grow; [exact G|apply I].
    - eapply omemdb_ok_grow; [exact G|apply I].
    - split; simpl; auto. apply (own_alloc_new (hp s) [] (DB KMem)).
    - unfold tids_ok, txn_tabs. simpl. rewrite app_length. simpl.
      intros x Hx. apply in_app_or in Hx as [Hx|Hx].
      + pose proof (i_tids _ _ I x) as HT. assert (x < length (files s)); [|lia]. apply HT. apply in_or_app; auto.
      + apply in_app_or in Hx as [Hx|Hx].
        * pose proof (i_tids _ _ I x) as HT. assert (x < length (files s)); [|lia]. apply HT.
          apply in_or_app. right. apply in_or_app. auto.
        * destruct Hx as [<-|Hx]; [unfold id; lia|].
          assert (x < length (files s)); [|lia]. eapply tids_txn; eauto.
    - intros _. apply (i_txnq _ _ I). congruence. }
  assert (content s' = content s) as EC.
  { apply content_frame; auto; try apply L; try apply I. }
  split; [exact I'|]. split; [|split; [auto|split; [auto|split; [auto|split; [auto|exists t'; auto]]]]].
  apply (rel_frameL c s s' sp sp I L R); auto.
  - rewrite EC. apply R.
  - change (txn s') with (Some t'). pose proof (r_txn _ _ R) as TT. rewrite ET in TT.
    destruct (stxn sp) as [ov|]; auto.
    eapply lookup_eq_trans; [|exact TT]. unfold txn_content. rewrite EC.
    cbn [tmem ttabs t']. unfold mem_content at 1. cbn [mds map app].
    unfold tabs_content at 1. cbn [flat_map]. fold (tabs_content s' (ttabs t)). rewrite ETf.
    rewrite (frameL_tabs_content s s'); auto; [|intros x Hx; eapply tids_txn; eauto].
    rewrite <- app_assoc. apply lookup_eq_refl.
Qed.

(* ---- OpenTransaction / Commit / Discard ---- *)

Lemma ocontent_empty h (f : option memdb) : match f with Some m => mds m = [] | None => True end -> ocontent h f = [].
Proof. destruct f as [m|]; simpl; auto. intros E. unfold mem_content. rewrite E. auto. Qed.

Lemma step_txn_open c s sp :
  Inv c s -> Rel s sp ->
  Inv c (txn_open c s) /\
  Rel (txn_open c s) (match stxn sp with Some _ => sp | None => sp_txn sp (Some (sbase sp)) end).
Proof.
  intros I R. unfold txn_open. pose proof (r_txn _ _ R) as T.
  destruct (txn s) as [t|] eqn:ET; destruct (stxn sp) as [ov|] eqn:ES; try contradiction; [auto|].
  destruct (flush_ok c s sp I R) as (Ia & Ra & La & Ta & Fa & Ma & Da).
  destruct (rotate_ok c _ sp Ia Ra) as (Ib & Rb & Lb & Tb & Fb & _).
  destruct (Fb Fa) as [Fb1 Fb2].
  destruct (flush_ok c _ sp Ib Rb) as (Ic & Rc & Lc & Tc & Fc & Mc & Dc).
  remember (flush_frozen c (rotate (flush_frozen c s))) as s1 eqn:Es1. clear Es1.
  assert (txn s1 = None) as ET1 by congruence.
  assert (mds (mem s1) = []) as EM1 by congruence.
  unfold alloc. cbv beta iota zeta. cbn [fst snd].
  set (h2 := fst (halloc (hp s1) [] (DB KMem))).
  set (l := snd (halloc (hp s1) [] (DB KMem))).
  set (t' := {| tmem := {| mkv := l; mds := [] |}; ttabs := [] |}).
  set (s' := set_txn (set_hp s1 h2) (Some t')).
  assert (frameL s1 s') as L.
  { constructor; auto. apply (keep_alloc allo (hp s1) [] (DB KMem)). apply files_ext_same; auto. }
  pose proof (frameL_memgrow _ _ L) as G.
  assert (content s' = content s1) as EC.
  { apply content_frame; auto; try apply L; try apply Ic. }
  split.
  - apply (inv_frameL c s1 s' Ic L); simpl.
    + eapply memdb_ok_grow; [exact G|apply Ic].
    + eapply omemdb_ok_grow; [exact G|apply Ic].
    + split; simpl; auto. apply (own_alloc_new (hp s1) [] (DB KMem)).
    + unfold tids_ok, txn_tabs. simpl. pose proof (i_tids _ _ Ic) as TI. unfold tids_ok, txn_tabs in TI. rewrite ET1 in TI. exact TI.
    + intros _. split; simpl; auto. rewrite Fc. auto.
  - apply (rel_frameL c s1 s' sp _ Ic L Rc); unfold sp_txn; cbn [sbase stxn sbat sits]; auto.
    + rewrite EC. apply Rc.
    + simpl. unfold txn_content. cbn [tmem ttabs t']. unfold mem_content at 1. cbn [mds map app].
      unfold tabs_content at 1. cbn [flat_map app]. rewrite EC. apply Rc.
Qed.

Lemma step_txn_commit c s sp :
  Inv c s -> Rel s sp ->
  Inv c (txn_commit c s) /\
  Rel (txn_commit c s) (match stxn sp with
                        | Some ov => {| sbase := ov; stxn := None; sbat := sbat sp; sits := sits sp |}
                        | None => sp end).
Proof.
  intros I R. unfold txn_commit. pose proof (r_txn _ _ R) as T.
  destruct (txn_flush_ok c s sp I R) as (I1 & R1 & EL & ED & EM & EF & TX).
  destruct (txn s) as [t|] eqn:ET; destruct (stxn sp) as [ov|] eqn:ES; try contradiction.
  2:{ rewrite TX, ET. auto. }
  destruct TX as (t' & ET' & EMt).
  remember (txn_flush c s) as s1 eqn:Es1. clear Es1. rewrite ET'.
  set (s' := set_txn (set_tabs s1 (files s1) (ttabs t' ++ l0 s1) (deep s1)) None).
  assert (frameL s1 s') as L.
  { constructor; auto. apply keep_refl. apply files_ext_same; auto. }
  assert (txn s1 <> None) as NT by congruence.
  destruct (i_txnq _ _ I1 NT) as [EM1 EF1].
  split.
  - apply (inv_frameL c s1 s' I1 L); simpl.
    + apply I1.
    + apply I1.
    + auto.
    + unfold tids_ok, txn_tabs. simpl. rewrite app_nil_r. intros x Hx.
      apply in_app_or in Hx as [Hx|Hx].
      * apply in_app_or in Hx as [Hx|Hx].
        -- eapply tids_txn; eauto.
        -- eapply tids_l0deep; eauto. apply in_or_app; auto.
      * eapply tids_l0deep; eauto. apply in_or_app; auto.
    + congruence.
  - pose proof (r_txn _ _ R1) as TT. rewrite ET', ES in TT.
    apply (rel_frameL c s1 s' sp _ I1 L R1); cbn [sbase stxn sbat sits]; auto.
    + eapply lookup_eq_trans; [|exact TT].
      unfold txn_content, content. change (hp s') with (hp s1). change (mem s') with (mem s1).
      change (frozen s') with (frozen s1). change (l0 s') with (ttabs t' ++ l0 s1). change (deep s') with (deep s1).
      assert (mem_content (hp s1) (mem s1) = []) as -> by (unfold mem_content; rewrite EM1; auto).
      assert (mem_content (hp s1) (tmem t') = []) as -> by (unfold mem_content; rewrite EMt; auto).
      rewrite (ocontent_empty (hp s1) (frozen s1) EF1). cbn [app].
      change (tabs_content s' ((ttabs t' ++ l0 s1) ++ deep s1)) with (tabs_content s1 ((ttabs t' ++ l0 s1) ++ deep s1)).
      rewrite <- app_assoc, tabs_content_app. apply lookup_eq_refl.
    + simpl. auto.
Qed.

Lemma step_txn_discard c s sp :
  Inv c s -> Rel s sp -> Inv c (set_txn s None) /\ Rel (set_txn s None) (sp_txn sp None).
Proof.
  intros I R.
  assert (frameL s (set_txn s None)) as L.
  { constructor; auto. apply keep_refl. apply files_ext_same; auto. }
  split.
  - apply (inv_frameL c s _ I L); simpl.
    + apply I.
    + apply I.
    + auto.
    + unfold tids_ok, txn_tabs. simpl. rewrite app_nil_r. intros x Hx. eapply tids_l0deep; eauto.
    + congruence.
  - apply (rel_frameL c s _ sp _ I L R); unfold sp_txn; cbn [sbase stxn sbat sits]; auto.
    + apply R.
    + simpl. auto.
Qed.

(* ================================================================ Part 4: iterators *)

Definition sp_its (sp : sstate) (l : list siter) : sstate :=
  {| sbase := sbase sp; stxn := stxn sp; sbat := sbat sp; sits := l |}.

Lemma inv_set_iters c s its : Inv c s -> iters_ok (set_iters s its) -> Inv c (set_iters s its).
Proof. intros I IO. destruct I. constructor; auto. Qed.

Lemma rel_set_iters s sp its sl :
  Rel s sp -> Forall2 (iter_rel (set_iters s its)) its sl -> Rel (set_iters s its) (sp_its sp sl).
Proof. intros R F. destruct R. constructor; auto. Qed.

(* ---- what the sources of a new iterator resolve to ---- *)

Lemma pmap_app {A B} (f : A -> B) (a b : list (bytes * A)) : pmap f (a ++ b) = pmap f a ++ pmap f b.
Proof. unfold pmap. apply map_app. Qed.

Lemma mem_srcs_content s m : pmap (option_map (src_val s)) (mem_srcs (hp s) m) = mem_content (hp s) m.
Proof.
  unfold pmap, mem_srcs, mem_content. rewrite map_map. apply map_ext. intros e. simpl.
  destruct (mdel e); auto.
Qed.

Lemma tab_srcs_from_content s tid : cache_ok s -> forall t' bi,
  (forall j fb, nth_error t' j = Some fb -> file_block s tid (bi + j) = Some fb) ->
  pmap (option_map (src_val s)) (tab_srcs_from s tid t' bi) = tab_content t'.
Proof.
  intros [_ C]. induction t' as [|fb t' IH]; intros bi H; simpl; auto.
  unfold tab_content in *. simpl. rewrite pmap_app. f_equal.
  - assert (file_block s tid bi = Some fb) as FB by (specialize (H 0 fb eq_refl); rewrite Nat.add_0_r in H; auto).
    assert (blk_view s tid bi fb = fimg fb) as EV.
    { unfold blk_view. destruct (cache_lookup (cache s) tid bi) as [l|] eqn:EL; auto.
      apply cache_lookup_in in EL. destruct (C _ _ _ EL) as [_ [fb' [F G]]]. congruence. }
    unfold pmap, resolve. rewrite map_map. apply map_ext. intros d. simpl. rewrite EV. f_equal.
    unfold dval. destruct (isdel d); simpl; auto. rewrite FB. auto.
  - apply IH. intros j fb' Hj. replace (S bi + j) with (bi + S j) by lia. apply H. auto.
Qed.

Lemma tab_srcs_content s tid : cache_ok s -> pmap (option_map (src_val s)) (tab_srcs s tid) = tab_file_content s tid.
Proof.
  intros C. unfold tab_srcs, tab_file_content. destruct (nth_error (files s) tid) as [t|] eqn:E; auto.
  apply tab_srcs_from_content; auto. intros j fb Hj. unfold file_block. rewrite E. auto.
Qed.

Lemma all_srcs_content c s : Inv c s -> pmap (option_map (src_val s)) (all_srcs s) = content s.
Proof.
  intros I. unfold all_srcs, content. rewrite !pmap_app. f_equal; [apply mem_srcs_content|]. f_equal.
  - destruct (frozen s); simpl; auto. apply mem_srcs_content.
  - unfold tabs_content. induction (l0 s ++ deep s) as [|t ts IH]; simpl; auto.
    rewrite pmap_app, IH. f_equal. apply tab_srcs_content. apply I.
Qed.

(* every source of the live layers is well-formed and carries its key *)
Definition src_good (s : state) (x : bytes * option src) : Prop :=
  match snd x with Some y => src_ok s y /\ src_key s y = fst x | None => True end.

Lemma mem_srcs_good s m : memdb_ok (hp s) m -> Forall (src_good s) (mem_srcs (hp s) m).
Proof.
  intros [O F]. unfold mem_srcs. apply Forall_forall. intros x Hx. apply in_map_iff in Hx as [e [<- He]].
  unfold src_good. simpl. destruct (mdel e); auto. eapply Forall_forall in F; eauto.
  destruct F as (E1 & E2 & R1 & R2). simpl. split; auto. split; [rewrite E1; auto|]. repeat split; auto. congruence.
Qed.

Lemma tab_srcs_from_good s tid : cache_ok s -> forall t' bi,
  (forall j fb, nth_error t' j = Some fb -> file_block s tid (bi + j) = Some fb) ->
  Forall (src_good s) (tab_srcs_from s tid t' bi).
Proof.
  intros [_ C]. induction t' as [|fb t' IH]; intros bi H; simpl; auto.
  apply Forall_app. split.
  - assert (file_block s tid bi = Some fb) as FB by (specialize (H 0 fb eq_refl); rewrite Nat.add_0_r in H; auto).
    assert (blk_view s tid bi fb = fimg fb) as EV.
    { unfold blk_view. destruct (cache_lookup (cache s) tid bi) as [l|] eqn:EL; auto.
      apply cache_lookup_in in EL. destruct (C _ _ _ EL) as [_ [fb' [F G]]]. congruence. }
    apply Forall_forall. intros x Hx. apply in_map_iff in Hx as [d [<- Hd]].
    unfold src_good. simpl. destruct (isdel d); auto. simpl. rewrite FB, EV. split; eauto.
  - apply IH. intros j fb' Hj. replace (S bi + j) with (bi + S j) by lia. apply H. auto.
Qed.

Lemma all_srcs_good c s : Inv c s -> Forall (src_good s) (all_srcs s).
Proof.
  intros I. unfold all_srcs. apply Forall_app. split; [apply mem_srcs_good; apply I|]. apply Forall_app. split.
  - pose proof (i_frozen _ _ I) as F. destruct (frozen s); simpl; auto. apply mem_srcs_good; auto.
  - induction (l0 s ++ deep s) as [|t ts IH]; simpl; auto. apply Forall_app. split; auto.
    unfold tab_srcs. destruct (nth_error (files s) t) as [tb|] eqn:E; auto.
    apply tab_srcs_from_good; [apply I|]. intros j fb Hj. unfold file_block. rewrite E. auto.
Qed.

Lemma nodup_app_intro {A} (a b : list A) :
  NoDup a -> NoDup b -> (forall x, In x a -> ~ In x b) -> NoDup (a ++ b).
Proof.
  induction a as [|x a IH]; intros Ha Hb H; simpl; auto.
  inversion Ha; subst. constructor.
  - intros Hin. apply in_app_or in Hin as [Hin|Hin]; auto. eapply H; eauto. simpl; auto.
  - apply IH; auto. intros y Hy. apply H. simpl; auto.
Qed.

Lemma iter_bufs_app a b : iter_bufs (a ++ b) = iter_bufs a ++ iter_bufs b.
Proof. unfold iter_bufs. apply flat_map_app. Qed.

Lemma iter_bufs_lt s l : Forall (iter_ok s) (iters s) -> In l (iter_bufs (iters s)) -> l < length (hp s).
Proof.
  intros F H. unfold iter_bufs in H. apply in_flat_map in H as [it [Hit Hl]].
  eapply Forall_forall in F; eauto. destruct F as (O1 & O2 & _).
  destruct Hl as [<-|[<-|[]]]; eapply own_lt; eauto.
Qed.

Lemma step_iter_new c s sp :
  Inv c s -> Rel s sp ->
  Inv c (new_iter s) /\
  Rel (new_iter s) (sp_its sp (sits sp ++ [{| slist := canon (sbase sp); spos := None; slive := true |}])).
Proof.
  intros I R. unfold new_iter, alloc. cbv beta iota zeta. cbn [fst snd].
  set (h1 := fst (halloc (hp s) [] (DB KIter))).
  set (kb := snd (halloc (hp s) [] (DB KIter))).
  set (h2 := fst (halloc h1 [] (DB KIter))).
  set (vb := snd (halloc h1 [] (DB KIter))).
  assert (kb = length (hp s)) as Ekb by reflexivity.
  assert (vb = S (length (hp s))) as Evb by (unfold vb, halloc; simpl; unfold h1; rewrite halloc_length; auto).
  set (srcs := canon (all_srcs s)).
  set (it := {| ikbuf := kb; ivbuf := vb; iexk := mkref kb 0 0; iexv := mkref vb 0 0; isrcs := srcs; ipos := None; ilive := true |}).
  set (s1 := set_hp (set_hp s h1) h2).
  assert (frameL s s1) as L.
  { constructor; auto; [|apply files_ext_same; auto]. simpl.
    eapply keep_trans; [apply (keep_alloc allo (hp s) [] (DB KIter))|apply (keep_alloc allo h1 [] (DB KIter))]. }
  pose proof (frameL_memgrow _ _ L) as G.
  assert (Inv c s1) as I1.
  { apply (inv_frameL c s s1 I L); simpl.
    - eapply memdb_ok_grow; [exact G|apply I].
    - eapply omemdb_ok_grow; [exact G|apply I].
    - eapply omemdb_ok_grow; [exact G|apply I].
    - exact (i_tids _ _ I).
    - exact (i_txnq _ _ I). }
  assert (content s1 = content s) as EC by (apply content_frame; auto; try apply L; try apply I).
  assert (Rel s1 sp) as R1.
  { apply (rel_frameL c s s1 sp sp I L R); auto.
    - rewrite EC. apply R.
    - change (txn s1) with (txn s). pose proof (r_txn _ _ R) as TT. pose proof (i_txn _ _ I) as IT.
      destruct (txn s) as [t|]; destruct (stxn sp); auto.
      unfold txn_content in *. rewrite EC. change (tabs_content s1 (ttabs t)) with (tabs_content s (ttabs t)).
      rewrite (mem_content_grow (hp s) (hp s1)); auto. }
  assert (own h2 kb (DB KIter)) as Ok.
  { unfold h2. apply own_alloc_old. unfold h1. rewrite Ekb. apply own_alloc_new. }
  assert (own h2 vb (DB KIter)) as Ov.
  { unfold h2, vb. apply (own_alloc_new h1 [] (DB KIter)). }
  (* the sources *)
  pose proof (all_srcs_good c s I) as GS.
  assert (forall k x, In (k, x) srcs -> src_ok s x /\ src_key s x = k) as SG.
  { intros k x Hx. apply in_canon in Hx. eapply Forall_forall in GS; eauto. exact GS. }
  assert (files_ext s s1) as FE by (apply files_ext_same; auto).
  assert (iter_ok s1 it) as IO.
  { unfold iter_ok. cbn [ikbuf ivbuf iexk iexv isrcs it mkref rloc]. split; [exact Ok|]. split; [exact Ov|]. split; [auto|]. split; [auto|].
    apply Forall_forall. intros [k x] Hx. simpl. destruct (SG _ _ Hx) as [SO _]. eapply src_ok_frame; eauto. }
  assert (iter_rel s1 it {| slist := canon (sbase sp); spos := None; slive := true |}) as IR.
  { unfold iter_rel. cbn [ilive ipos isrcs iexk iexv it slive spos slist].
    split; [auto|]. split; [auto|]. split; [|split].
    - assert (pmap (src_val s1) srcs = pmap (src_val s) srcs) as ->.
      { apply pmap_ext. intros [k x] Hx. simpl. destruct (SG _ _ Hx) as [SO _]. eapply src_val_frame; eauto. }
      unfold srcs. rewrite <- canon_pmap, (all_srcs_content c s I). apply canon_lookup_eq. apply R.
    - apply Forall_forall. intros [k x] Hx. simpl. destruct (SG _ _ Hx) as [SO SK].
      rewrite (src_key_frame s s1); auto.
    - intros p k v Hp. discriminate. }
  set (its' := iters s1 ++ [it]).
  change (Inv c (set_iters s1 its') /\
          Rel (set_iters s1 its') (sp_its sp (sits sp ++ [{| slist := canon (sbase sp); spos := None; slive := true |}]))).
  split.
  - apply inv_set_iters; auto. split; simpl.
    + unfold its'. apply Forall_app. split; [apply (i_iters _ _ I1)|]. constructor; auto.
    + unfold its'. rewrite iter_bufs_app. simpl.
      assert (forall l, In l (iter_bufs (iters s1)) -> l < length (hp s)) as LT.
      { intros l Hl. apply (iter_bufs_lt s); auto. apply (i_iters _ _ I). }
      apply nodup_app_intro.
      * apply (i_iters _ _ I1).
      * constructor; [|constructor; [|constructor]]; simpl; auto. intros [E|[]]. lia.
      * intros l Hl [E|[E|[]]]; subst l; apply LT in Hl; lia.
  - apply rel_set_iters; auto. unfold its'. apply Forall2_app; [apply R1|]. constructor; auto.
Qed.

(* ---- moving an iterator: only its two buffers change ---- *)

Definition notiter (o : owner) : bool := negb (owner_eqb o (DB KIter)).

Record frameI (s s' : state) (kbuf vbuf : loc) : Prop := {
  fi_len : length (hp s') = length (hp s);
  fi_other : forall l, l <> kbuf -> l <> vbuf -> nth_error (hp s') l = nth_error (hp s) l;
  fi_own : forall l o, own (hp s) l o -> own (hp s') l o;
  fi_mem : mem s' = mem s;
  fi_frozen : frozen s' = frozen s;
  fi_files : files s' = files s;
  fi_l0 : l0 s' = l0 s;
  fi_deep : deep s' = deep s;
  fi_cache : cache s' = cache s;
  fi_pool : pool s' = pool s;
  fi_wbatch : wbatch s' = wbatch s;
  fi_txn : txn s' = txn s;
  fi_cbatch : cbatch s' = cbatch s;
  fi_cvis : cvis s' = cvis s
}.

Lemma frameI_keep s s' kb vb :
  frameI s s' kb vb -> own (hp s) kb (DB KIter) -> own (hp s) vb (DB KIter) -> keep notiter (hp s) (hp s').
Proof.
  intros F Ok Ov. split; [rewrite (fi_len _ _ _ _ F); lia|].
  intros l c0 H HP. rewrite (fi_other _ _ _ _ F); auto.
  - intros ->. unfold own, hown in Ok. rewrite H in Ok. injection Ok as E. rewrite E in HP. discriminate.
  - intros ->. unfold own, hown in Ov. rewrite H in Ov. injection Ov as E. rewrite E in HP. discriminate.
Qed.

Lemma nodup_app_disj {A} (a b : list A) x : NoDup (a ++ b) -> In x a -> In x b -> False.
Proof.
  induction a as [|y a IH]; simpl; intros H Ha Hb; [contradiction|].
  inversion H; subst. destruct Ha as [->|Ha].
  - apply H2. apply in_or_app; auto.
  - eapply IH; eauto.
Qed.

Lemma nodup_app_r {A} (a b : list A) : NoDup (a ++ b) -> NoDup b.
Proof. induction a as [|y a IH]; simpl; auto. intros H. inversion H; auto. Qed.

Lemma nodup_app_l {A} (a b : list A) : NoDup (a ++ b) -> NoDup a.
Proof.
  induction a as [|y a IH]; simpl; intros H; [constructor|].
  inversion H; subst. constructor; auto. intros Hin. apply H2. apply in_or_app; auto.
Qed.

Lemma flat_map_disj {A B} (f : A -> list B) (l : list A) : forall i j a b x,
  NoDup (flat_map f l) -> nth_error l i = Some a -> nth_error l j = Some b -> i <> j -> In x (f a) -> In x (f b) -> False.
Proof.
  induction l as [|c l IH]; intros [|i] [|j] a b x N Ha Hb Nij Hxa Hxb; simpl in *; try discriminate; try congruence.
  - injection Ha as ->. eapply nodup_app_disj; eauto. apply in_flat_map. exists b. split; auto. eapply nth_error_In; eauto.
  - injection Hb as ->. eapply nodup_app_disj; eauto. apply in_flat_map. exists a. split; auto. eapply nth_error_In; eauto.
  - eapply (IH i j); eauto. eapply nodup_app_r; eauto.
Qed.

Lemma flat_map_nodup_elem {A B} (f : A -> list B) (l : list A) i a :
  NoDup (flat_map f l) -> nth_error l i = Some a -> NoDup (f a).
Proof.
  revert i. induction l as [|c l IH]; intros [|i] N H; simpl in *; try discriminate.
  - injection H as ->. eapply nodup_app_l; eauto.
  - eapply IH; eauto. eapply nodup_app_r; eauto.
Qed.

Lemma Forall2_impl_nth {A B} (R0 R : A -> B -> Prop) l1 l2 :
  Forall2 R0 l1 l2 ->
  (forall j a b, nth_error l1 j = Some a -> nth_error l2 j = Some b -> R0 a b -> R a b) ->
  Forall2 R l1 l2.
Proof.
  intros F. induction F as [|a b l1 l2 Hab F IH]; intros H; constructor.
  - apply (H 0); auto.
  - apply IH. intros j a0 b0 H1 H2 H3. apply (H (S j)); auto.
Qed.

Lemma Forall2_replace_nth_gen {A B} (R0 R : A -> B -> Prop) : forall l1 l2 i x y,
  Forall2 R0 l1 l2 ->
  (forall j a b, j <> i -> nth_error l1 j = Some a -> nth_error l2 j = Some b -> R0 a b -> R a b) ->
  R x y -> Forall2 R (replace_nth i l1 x) (replace_nth i l2 y).
Proof.
  intros l1 l2 i x y F. revert i. induction F as [|a b l1 l2 Hab F IH]; intros [|i] H Hxy; simpl; constructor; auto.
  - apply (Forall2_impl_nth R0 R); auto. intros j a0 b0 H1 H2 H3. apply (H (S j)); auto.
  - apply (H 0); auto.
  - apply IH; auto. intros j a0 b0 Nj H1 H2 H3. apply (H (S j)); auto.
Qed.

Lemma Forall_replace_nth_gen {A} (P0 P : A -> Prop) : forall l i x,
  Forall P0 l -> (forall j a, j <> i -> nth_error l j = Some a -> P0 a -> P a) -> P x -> Forall P (replace_nth i l x).
Proof.
  induction l as [|a l IH]; intros [|i] x F H Hx; simpl; auto; inversion F; subst; constructor; auto.
  - apply Forall_forall. intros y Hy. apply In_nth_error in Hy as [j Hj].
    apply (H (S j)); auto. eapply Forall_forall in H3; eauto. eapply nth_error_In; eauto.
  - apply (H 0); auto.
  - apply IH; auto. intros j a0 Nj H1 H4. apply (H (S j)); auto.
Qed.

Lemma iter_update_ok c s s' sp i it it' si p :
  Inv c s -> Rel s sp -> nth_error (iters s) i = Some it -> nth_error (sits sp) i = Some si -> slive si = true ->
  frameI s s' (ikbuf it) (ivbuf it) -> iters s' = replace_nth i (iters s) it' ->
  ikbuf it' = ikbuf it -> ivbuf it' = ivbuf it -> isrcs it' = isrcs it -> ilive it' = ilive it -> ipos it' = Some p ->
  rloc (iexk it') = ikbuf it -> rloc (iexv it') = ivbuf it ->
  (forall k v, nth_error (slist si) p = Some (k, v) -> deref (hp s') (iexk it') = k /\ deref (hp s') (iexv it') = v) ->
  Inv c s' /\ Rel s' (sp_its sp (replace_nth i (sits sp) {| slist := slist si; spos := Some p; slive := true |})).
Proof.
  intros I R Hi Hs LV FI EI Ek Ev Es El Ep Rk Rv EX.
  destruct (i_iters _ _ I) as [IO ND].
  assert (iter_ok s it) as IOi by (eapply Forall_forall in IO; eauto; eapply nth_error_In; eauto).
  destruct IOi as (Ok & Ov & E1 & E2 & FS).
  pose proof (frameI_keep _ _ _ _ FI Ok Ov) as K.
  assert (memgrow (hp s) (hp s')) as G by (eapply keep_memgrow; [|exact K]; auto).
  assert (files_ext s s') as FE by (apply files_ext_same; apply FI).
  (* the other iterators keep their buffers *)
  assert (forall j a, j <> i -> nth_error (iters s) j = Some a -> bufs_kept s s' a) as BK.
  { intros j a Nj Ha.
    assert (iter_ok s a) as IOa by (eapply Forall_forall in IO; eauto; eapply nth_error_In; eauto).
    destruct IOa as (Oka & Ova & _).
    assert (forall x, In x [ikbuf a; ivbuf a] -> x <> ikbuf it /\ x <> ivbuf it) as D.
    { intros x Hx. split; intros ->.
      - eapply (flat_map_disj (fun t => [ikbuf t; ivbuf t]) (iters s) j i a it); eauto. simpl; auto.
      - eapply (flat_map_disj (fun t => [ikbuf t; ivbuf t]) (iters s) j i a it); eauto. simpl; auto. }
    destruct (D (ikbuf a) ltac:(simpl; auto)) as [D1 D2]. destruct (D (ivbuf a) ltac:(simpl; auto)) as [D3 D4].
    split; split; try (apply FI; auto); unfold hget; rewrite (fi_other _ _ _ _ FI); auto. }
  split.
  - constructor.
    + rewrite (fi_cvis _ _ _ _ FI). intros r Hr. apply FI. apply I; auto.
    + rewrite (fi_mem _ _ _ _ FI). eapply memdb_ok_grow; eauto. apply I.
    + rewrite (fi_frozen _ _ _ _ FI). eapply omemdb_ok_grow; eauto. apply I.
    + rewrite (fi_txn _ _ _ _ FI). eapply omemdb_ok_grow; eauto. apply I.
    + apply (blockinv_frame c s s'); try apply FI; try apply I; auto.
      eapply keep_weaken; [|exact K]. intros [| |[]| |]; simpl; auto; discriminate.
    + rewrite (fi_wbatch _ _ _ _ FI). apply FI. apply I.
    + split; rewrite EI.
      * apply (Forall_replace_nth_gen (iter_ok s) (iter_ok s')); auto.
        -- intros j a Nj Ha IOa. eapply iter_ok_frame1; eauto.
        -- unfold iter_ok. rewrite Ek, Ev, Es. repeat split; auto; try (apply FI; auto).
           eapply Forall_impl; [|exact FS]. intros x Hx. eapply src_ok_frame; eauto.
      * rewrite (iter_bufs_replace i (iters s) it it'); auto.
    + unfold tids_ok, txn_tabs. rewrite (fi_l0 _ _ _ _ FI), (fi_deep _ _ _ _ FI), (fi_txn _ _ _ _ FI), (fi_files _ _ _ _ FI). apply I.
    + unfold cbatch_ok. rewrite (fi_cbatch _ _ _ _ FI). pose proof (i_cbatch _ _ I) as CB. unfold cbatch_ok in CB.
      destruct (cbatch s) as [[bl recs]|]; auto. destruct CB as [O F0]. split; [apply FI; auto|].
      eapply Forall_impl; [|exact F0]. intros e He. eapply bat_ment_ok_grow; eauto.
      eapply keep_batgrow; [|exact K]. auto.
    + rewrite (fi_txn _ _ _ _ FI). intros H. unfold empty_mems. rewrite (fi_mem _ _ _ _ FI), (fi_frozen _ _ _ _ FI). apply I; auto.
  - assert (content s' = content s) as EC by (apply content_frame; auto; try apply FI; try apply I).
    constructor; unfold sp_its; cbn [sbase stxn sbat sits].
    + rewrite EC. apply R.
    + rewrite (fi_txn _ _ _ _ FI). pose proof (r_txn _ _ R) as T. pose proof (i_txn _ _ I) as IT.
      destruct (txn s) as [t|]; destruct (stxn sp); auto.
      unfold txn_content in *. rewrite EC.
      assert (tabs_content s' (ttabs t) = tabs_content s (ttabs t)) as ->
        by (unfold tabs_content, tab_file_content; rewrite (fi_files _ _ _ _ FI); auto).
      rewrite (mem_content_grow (hp s) (hp s')); auto.
    + rewrite (fi_cbatch _ _ _ _ FI). pose proof (r_bat _ _ R) as B. pose proof (i_cbatch _ _ I) as CB. unfold cbatch_ok in CB.
      destruct (cbatch s) as [[bl recs]|]; auto. destruct CB as [O F0].
      rewrite <- B. eapply bat_content_grow; eauto. eapply keep_batgrow; [|exact K]. auto.
    + rewrite EI. apply (Forall2_replace_nth_gen (iter_rel s) (iter_rel s')); [apply R| |].
      * intros j a b Nj Ha Hb Rab. eapply iter_rel_frame1; eauto.
        eapply Forall_forall in IO; eauto. eapply nth_error_In; eauto.
      * destruct (Forall2_nth _ _ _ _ _ (r_its _ _ R) Hi) as [si' [Hs' (L1 & P1 & S1 & K1 & X1)]].
        assert (si' = si) by congruence. subst si'.
        unfold iter_rel. cbn [slive spos slist]. rewrite El, Ep, Es.
        split; [congruence|]. split; [auto|]. split; [|split].
        -- rewrite <- S1. apply pmap_ext. intros x Hx. eapply Forall_forall in FS; eauto. eapply src_val_frame; eauto.
        -- apply Forall_forall. intros x Hx. rewrite src_key_frame with (s := s); auto.
           ++ eapply Forall_forall in K1; eauto.
           ++ eapply Forall_forall in FS; eauto.
        -- intros p0 k v Hp Hn. injection Hp as <-. apply EX; auto.
Qed.

Lemma nth_error_pmap {A B} (f : A -> B) (l : list (bytes * A)) p :
  nth_error (pmap f l) p = option_map (fun x => (fst x, f (snd x))) (nth_error l p).
Proof. unfold pmap. apply nth_error_map. Qed.

Lemma release_set_iters c s l cached its :
  set_iters (release_block c s l cached) its = release_block c (set_iters s its) l cached.
Proof. unfold release_block, pool_put. destruct cached; auto. destruct (pool_on c); auto. Qed.

Lemma iters_release c s l cached : iters (release_block c s l cached) = iters s.
Proof. unfold release_block, pool_put. destruct cached; auto. destruct (pool_on c); auto. Qed.

(* the heap after dbIter copied key and value into its buffers *)
Lemma expose_eq c s it kr vr p :
  expose fixed_modes c s it kr vr p =
  (set_hp s (hset (hset (hp s) (ikbuf it) (deref (hp s) kr)) (ivbuf it) (deref (hp s) vr)),
   {| ikbuf := ikbuf it; ivbuf := ivbuf it;
      iexk := mkref (ikbuf it) 0 (length (deref (hp s) kr)); iexv := mkref (ivbuf it) 0 (length (deref (hp s) vr));
      isrcs := isrcs it; ipos := Some p; ilive := ilive it |}).
Proof. reflexivity. Qed.

Lemma expose_update_ok c s sp i it si kr vr p :
  Inv c s -> Rel s sp -> nth_error (iters s) i = Some it -> nth_error (sits sp) i = Some si -> slive si = true ->
  (forall k v, nth_error (slist si) p = Some (k, v) -> deref (hp s) kr = k /\ deref (hp s) vr = v) ->
  let x := expose fixed_modes c s it kr vr p in
  let s' := set_iters (fst x) (replace_nth i (iters (fst x)) (snd x)) in
  Inv c s' /\ Rel s' (sp_its sp (replace_nth i (sits sp) {| slist := slist si; spos := Some p; slive := true |})) /\
  frameI s s' (ikbuf it) (ivbuf it).
Proof.
  intros I R Hi Hs LV EX. rewrite expose_eq. cbv zeta. cbn [fst snd].
  destruct (i_iters _ _ I) as [IO ND].
  assert (iter_ok s it) as IOi by (eapply Forall_forall in IO; eauto; eapply nth_error_In; eauto).
  destruct IOi as (Ok & Ov & E1 & E2 & FS).
  assert (ikbuf it <> ivbuf it) as NKV.
  { pose proof (flat_map_nodup_elem (fun t => [ikbuf t; ivbuf t]) (iters s) i it ND Hi) as N2.
    inversion N2; subst. intros E. apply H1. rewrite E. simpl; auto. }
  set (kb := deref (hp s) kr). set (vb := deref (hp s) vr).
  set (h2 := hset (hset (hp s) (ikbuf it) kb) (ivbuf it) vb).
  set (it' := {| ikbuf := ikbuf it; ivbuf := ivbuf it; iexk := mkref (ikbuf it) 0 (length kb);
                 iexv := mkref (ivbuf it) 0 (length vb); isrcs := isrcs it; ipos := Some p; ilive := ilive it |}).
  set (s' := set_iters (set_hp s h2) (replace_nth i (iters (set_hp s h2)) it')).
  assert (frameI s s' (ikbuf it) (ivbuf it)) as FI.
  { constructor; auto.
    - simpl. unfold h2. rewrite !hset_length. auto.
    - intros l N1 N2. simpl. unfold h2, hset. rewrite !hupd_other; auto.
    - intros l o H. simpl. unfold h2. apply own_hset. apply own_hset. auto. }
  assert (hget h2 (ikbuf it) = kb) as GK.
  { unfold h2. rewrite hget_hset_other; auto. apply hget_hset_same. eapply own_lt; eauto. }
  assert (hget h2 (ivbuf it) = vb) as GV.
  { unfold h2. apply hget_hset_same. rewrite hset_length. eapply own_lt; eauto. }
  split; [|split; [|exact FI]];
  apply (iter_update_ok c s s' sp i it it' si p I R Hi Hs LV FI); auto;
  intros k v Hn; destruct (EX _ _ Hn) as [<- <-];
  (split; unfold deref; cbn [it' iexk iexv mkref rloc roff rlen]; change (hp s') with h2;
   [rewrite GK|rewrite GV]; apply sub_all).
Qed.

Lemma iter_load_ok c s sp i it si p :
  Inv c s -> Rel s sp -> nth_error (iters s) i = Some it -> nth_error (sits sp) i = Some si -> slive si = true ->
  let x := iter_load fixed_modes c s it p in
  let s' := set_iters (fst x) (replace_nth i (iters (fst x)) (snd x)) in
  Inv c s' /\ Rel s' (sp_its sp (replace_nth i (sits sp) {| slist := slist si; spos := Some p; slive := true |})).
Proof.
  intros I R Hi Hs LV. cbv zeta.
  destruct (i_iters _ _ I) as [IO ND].
  assert (iter_ok s it) as IOi by (eapply Forall_forall in IO; eauto; eapply nth_error_In; eauto).
  destruct IOi as (Ok & Ov & E1 & E2 & FS).
  destruct (Forall2_nth _ _ _ _ _ (r_its _ _ R) Hi) as [si' [Hs' (L1 & P1 & S1 & K1 & X1)]].
  assert (si' = si) by congruence. subst si'.
  unfold iter_load. destruct (nth_error (isrcs it) p) as [[k0 sr]|] eqn:EN.
  2:{ (* past the end: only the position changes *)
    cbn [fst snd].
    set (it' := set_pos it (Some p)).
    set (s' := set_iters s (replace_nth i (iters s) it')).
    assert (frameI s s' (ikbuf it) (ivbuf it)) as FI by (constructor; auto).
    apply (iter_update_ok c s s' sp i it it' si p I R Hi Hs LV FI); auto.
    intros k v Hn. rewrite <- S1, nth_error_pmap, EN in Hn. discriminate. }
  assert (src_ok s sr /\ src_key s sr = k0) as [SO SK].
  { split.
    - eapply Forall_forall in FS; [|eapply nth_error_In; eauto]. exact FS.
    - eapply Forall_forall in K1; [|eapply nth_error_In; eauto]. exact K1. }
  assert (forall k v, nth_error (slist si) p = Some (k, v) -> k = k0 /\ v = src_val s sr) as SL.
  { intros k v Hn. rewrite <- S1, nth_error_pmap, EN in Hn. simpl in Hn. injection Hn as <- <-. auto. }
  destruct sr as [e|tid bi d].
  - (* entry of a pinned write buffer *)
    pose proof (expose_update_ok c s sp i it si (mk e) (mv e) p I R Hi Hs LV) as H.
    cbv zeta in H. destruct H as (A & B & _); auto.
    intros k v Hn. destruct (SL _ _ Hn) as [-> ->]. simpl in *. auto.
  - (* entry of a table block *)
    simpl in SO. destruct SO as [fb FB]. rewrite FB.
    destruct (load_block c s tid bi fb) as [[s1 l] cached] eqn:EL.
    destruct (load_block_ok _ _ _ _ _ _ _ _ (i_block _ _ I) FB EL) as (Q1 & B1 & V1 & G1 & O1).
    assert (Inv c s1) as I1.
    { apply (inv_quiet c s s1 I Q1 B1). rewrite V1. intros r Hr. eapply keep_own; [apply Q1|apply I; auto|auto]. }
    assert (Rel s1 sp) as R1 by exact (rel_quiet c s s1 sp I Q1 R).
    assert (nth_error (iters s1) i = Some it) as Hi1 by (rewrite (q_iters _ _ Q1); auto).
    simpl in SK. rewrite FB in SK.
    pose proof (expose_update_ok c s1 sp i it si (mkref l (koff d) (klen d)) (mkref l (voff d) (vlen d)) p I1 R1 Hi1 Hs LV) as H.
    cbv zeta in H.
    destruct (expose fixed_modes c s1 it (mkref l (koff d) (klen d)) (mkref l (voff d) (vlen d)) p) as [s2 it'] eqn:EE.
    cbn [fst snd] in *.
    destruct H as (I2 & R2 & FI2).
    { intros k v Hn. destruct (SL _ _ Hn) as [-> ->]. simpl. rewrite FB.
      unfold deref; cbn [mkref rloc roff rlen]. rewrite G1. unfold dkey in SK. auto. }
    rewrite iters_release, release_set_iters.
    set (s2' := set_iters s2 (replace_nth i (iters s2) it')) in *.
    assert (if cached then True else own (hp s2') l (DB KBlock)) as O2.
    { destruct cached; auto. apply FI2. tauto. }
    destruct (release_block_ok c s2' l cached (i_block _ _ I2) O2) as (Q3 & B3 & V3 & K3).
    split.
    + apply (inv_quiet c s2' _ I2 Q3 B3). rewrite V3. intros r Hr. eapply keep_own; [apply Q3|apply I2; auto|auto].
    + exact (rel_quiet c s2' _ _ I2 Q3 R2).
Qed.

Lemma pmap_length {A B} (f : A -> B) (l : list (bytes * A)) : length (pmap f l) = length l.
Proof. unfold pmap. apply map_length. Qed.

Lemma step_iter_next c s sp i :
  Inv c s -> Rel s sp -> step_good c s sp (step fixed_modes c s (OIterNext i)) (sstep sp (OIterNext i)).
Proof.
  intros I R. cbn [step sstep].
  destruct (nth_error (iters s) i) as [it|] eqn:Hi.
  2:{ rewrite (Forall2_nth_none _ _ _ _ (r_its _ _ R) Hi). split; [|split]; auto. }
  destruct (Forall2_nth _ _ _ _ _ (r_its _ _ R) Hi) as [si [Hs (L1 & P1 & S1 & K1 & X1)]].
  rewrite Hs, <- L1, <- P1.
  destruct (ilive it) eqn:EL; [|split; [|split]; auto].
  set (p := match ipos it with Some n => S n | None => 0 end).
  pose proof (iter_load_ok c s sp i it si p I R Hi Hs (eq_sym L1)) as H. cbv zeta in H.
  destruct (iter_load fixed_modes c s it p) as [s1 it'] eqn:EE. cbn [fst snd] in *.
  destruct H as [I' R'].
  split; [exact I'|]. split; [exact R'|].
  rewrite <- S1, pmap_length. auto.
Qed.

Lemma step_iter_seek c s sp i k :
  Inv c s -> Rel s sp -> step_good c s sp (step fixed_modes c s (OIterSeek i k)) (sstep sp (OIterSeek i k)).
Proof.
  intros I R. cbn [step sstep].
  destruct (nth_error (iters s) i) as [it|] eqn:Hi.
  2:{ rewrite (Forall2_nth_none _ _ _ _ (r_its _ _ R) Hi). split; [|split]; auto. }
  destruct (Forall2_nth _ _ _ _ _ (r_its _ _ R) Hi) as [si [Hs (L1 & P1 & S1 & K1 & X1)]].
  rewrite Hs, <- L1.
  destruct (ilive it) eqn:EL; [|split; [|split]; auto].
  destruct (client_buf_ok c s sp k I R) as (I0 & R0 & Q0 & V0 & O0 & D0 & E0).
  destruct (client_buf s k) as [s0 kr]. cbn [fst snd] in *.
  assert (nth_error (iters s0) i = Some it) as Hi0 by (rewrite (q_iters _ _ Q0); auto).
  assert (seek_pos (isrcs it) k = seek_pos (slist si) k) as EP.
  { apply seek_pos_keys. rewrite <- S1, map_fst_pmap. auto. }
  set (p := seek_pos (isrcs it) k) in *.
  pose proof (iter_load_ok c s0 sp i it si p I0 R0 Hi0 Hs (eq_sym L1)) as H. cbv zeta in H.
  destruct (iter_load fixed_modes c s0 it p) as [s1 it'] eqn:EE. cbn [fst snd] in *.
  destruct H as [I' R'].
  rewrite <- EP.
  split; [exact I'|]. split; [exact R'|].
  rewrite <- S1, pmap_length. auto.
Qed.

Lemma step_iter_read c s sp i :
  Inv c s -> Rel s sp -> step_good c s sp (step fixed_modes c s (OIterRead i)) (sstep sp (OIterRead i)).
Proof.
  intros I R. cbn [step sstep].
  destruct (nth_error (iters s) i) as [it|] eqn:Hi.
  2:{ rewrite (Forall2_nth_none _ _ _ _ (r_its _ _ R) Hi). split; [|split]; auto. }
  destruct (Forall2_nth _ _ _ _ _ (r_its _ _ R) Hi) as [si [Hs (L1 & P1 & S1 & K1 & X1)]].
  rewrite Hs, <- L1, <- P1.
  destruct (ilive it) eqn:EL; cbn [andb]; [|split; [|split]; auto].
  unfold valid_pos. destruct (ipos it) as [p|] eqn:EP; [|split; [|split]; auto].
  assert (length (slist si) = length (isrcs it)) as EL2 by (rewrite <- S1; apply pmap_length).
  destruct (Nat.ltb p (length (isrcs it))) eqn:ELt.
  - apply Nat.ltb_lt in ELt.
    destruct (nth_error (slist si) p) as [[k v]|] eqn:EN.
    + destruct (X1 p k v eq_refl EN) as [-> ->]. split; [|split]; auto.
    + apply nth_error_None in EN. lia.
  - apply Nat.ltb_ge in ELt.
    assert (nth_error (slist si) p = None) as -> by (apply nth_error_None; lia).
    split; [|split]; auto.
Qed.

Lemma step_iter_release c s sp i :
  Inv c s -> Rel s sp -> step_good c s sp (step fixed_modes c s (OIterRelease i)) (sstep sp (OIterRelease i)).
Proof.
  intros I R. cbn [step sstep].
  destruct (nth_error (iters s) i) as [it|] eqn:Hi.
  2:{ rewrite (Forall2_nth_none _ _ _ _ (r_its _ _ R) Hi). split; [|split]; auto. }
  destruct (Forall2_nth _ _ _ _ _ (r_its _ _ R) Hi) as [si [Hs (L1 & P1 & S1 & K1 & X1)]].
  rewrite Hs. cbn [fst snd].
  set (it' := {| ikbuf := ikbuf it; ivbuf := ivbuf it; iexk := iexk it; iexv := iexv it; isrcs := isrcs it; ipos := ipos it; ilive := false |}).
  destruct (i_iters _ _ I) as [IO ND].
  assert (iter_ok s it) as IOi by (eapply Forall_forall in IO; eauto; eapply nth_error_In; eauto).
  split; [|split; auto].
  - apply inv_set_iters; auto. split; simpl.
    + apply Forall_replace_nth; auto.
    + rewrite (iter_bufs_replace i (iters s) it it'); auto.
  - apply (rel_set_iters s sp _ _ R). simpl.
    apply Forall2_replace_nth; [apply R|].
    unfold iter_rel. cbn [it' ilive ipos isrcs iexk iexv slive spos slist]. auto.
Qed.

(* ================================================================ every step *)

Theorem step_ok c s sp o :
  Inv c s -> Rel s sp -> step_good c s sp (step fixed_modes c s o) (sstep sp o).
Proof.
  intros I R. pose proof (txn_some_agree _ _ R) as TA.
  destruct o.
  - (* Put *) cbn [step sstep]. rewrite <- TA. destruct (txn s) eqn:ET; cbn [is_some].
    + split; [|split]; auto.
    + destruct (step_put_rec c s sp k v false I R ET) as [A B]. split; [|split]; auto.
  - (* Delete *) cbn [step sstep]. rewrite <- TA. destruct (txn s) eqn:ET; cbn [is_some].
    + split; [|split]; auto.
    + destruct (step_put_rec c s sp k [] true I R ET) as [A B]. split; [|split]; auto.
  - (* Batch.Put *) cbn [step sstep]. destruct (step_batch_append c s sp k v false I R) as [A B]. split; [|split]; auto.
  - (* Batch.Delete *) cbn [step sstep]. destruct (step_batch_append c s sp k [] true I R) as [A B]. split; [|split]; auto.
  - (* Write *) cbn [step sstep]. rewrite <- TA. destruct (txn s) eqn:ET; cbn [is_some].
    + split; [|split]; auto.
    + destruct (step_batch_write c s sp I R ET) as [A B]. split; [|split]; auto.
  - apply step_get; auto.
  - apply step_has; auto.
  - (* OpenTransaction *) cbn [step sstep]. destruct (step_txn_open c s sp I R) as [A B].
    destruct (stxn sp); split; [|split| |split]; auto.
  - (* Transaction.Put *) cbn [step sstep]. destruct (step_txn_put c s sp k v false I R) as [A B].
    destruct (stxn sp); split; [|split| |split]; auto.
  - (* Transaction.Delete *) cbn [step sstep]. destruct (step_txn_put c s sp k [] true I R) as [A B].
    destruct (stxn sp); split; [|split| |split]; auto.
  - apply step_txnget; auto.
  - (* Commit *) cbn [step sstep]. destruct (step_txn_commit c s sp I R) as [A B].
    destruct (stxn sp); split; [|split| |split]; auto.
  - (* Discard *) cbn [step sstep]. destruct (step_txn_discard c s sp I R) as [A B]. split; [|split]; auto.
  - (* NewIterator *) cbn [step sstep]. destruct (step_iter_new c s sp I R) as [A B]. split; [|split]; auto.
  - apply step_iter_next; auto.
  - apply step_iter_seek; auto.
  - apply step_iter_read; auto.
  - apply step_iter_release; auto.
  - (* rotate *) cbn [step sstep]. destruct (rotate_ok c s sp I R) as (A & B & _). split; [|split]; auto.
  - (* flush *) cbn [step sstep]. destruct (flush_ok c s sp I R) as (A & B & _). split; [|split]; auto.
  - (* compact *) cbn [step sstep]. destruct (compact_ok c s sp I R) as (A & B). split; [|split]; auto.
  - (* evict *) cbn [step sstep]. destruct (evict_ok c s sp n I R) as (A & B). split; [|split]; auto.
  - (* transaction flush *) cbn [step sstep]. destruct (txn_flush_ok c s sp I R) as (A & B & _). split; [|split]; auto.
  - apply step_scribble; auto.
Qed.
