(* Alias/HeapProofs.v — lemmas about the heap of the ownership model (Alias/Heap.v). *)
From GL Require Import Alias.Heap Base.BytesProofs.
From Coq Require Import Arith Lia.
Local Open Scope nat_scope.

(* ---- nth_error / hupd ---- *)

Lemma hupd_length h l f : length (hupd h l f) = length h.
Proof. revert l; induction h; intros [|l]; simpl; auto. Qed.

Lemma hupd_same h l f : nth_error (hupd h l f) l = option_map f (nth_error h l).
Proof. revert l; induction h; intros [|l]; simpl; auto. Qed.

Lemma hupd_other h l l' f : l <> l' -> nth_error (hupd h l f) l' = nth_error h l'.
Proof.
  revert l l'; induction h; intros [|l] [|l'] H; simpl; auto; try congruence.
Qed.

Lemma nth_error_app_l {A} (h x : list A) l : l < length h -> nth_error (h ++ x) l = nth_error h l.
Proof. intros; apply nth_error_app1; auto. Qed.

Lemma nth_error_some_lt {A} (h : list A) l c : nth_error h l = Some c -> l < length h.
Proof. intros H; apply nth_error_Some; congruence. Qed.

Lemma nth_error_app_some {A} (h x : list A) l c : nth_error h l = Some c -> nth_error (h ++ x) l = Some c.
Proof. intros H; rewrite nth_error_app1; auto. eapply nth_error_some_lt; eauto. Qed.

(* ---- hget / hown through the updates ---- *)

Lemma hget_hset_same h l b : l < length h -> hget (hset h l b) l = b.
Proof.
  intros H; unfold hget, hset; rewrite hupd_same.
  destruct (nth_error h l) eqn:E; simpl; auto. apply nth_error_None in E; lia.
Qed.

Lemma hget_hset_other h l l' b : l <> l' -> hget (hset h l b) l' = hget h l'.
Proof. intros; unfold hget, hset; rewrite hupd_other; auto. Qed.

Lemma hown_hset h l l' b : hown (hset h l b) l' = hown h l'.
Proof.
  unfold hown, hset. destruct (Nat.eq_dec l l') as [->|N].
  - rewrite hupd_same. destruct (nth_error h l'); auto.
  - rewrite hupd_other; auto.
Qed.

Lemma hget_hchown h l l' o : hget (hchown h l o) l' = hget h l'.
Proof.
  unfold hget, hchown. destruct (Nat.eq_dec l l') as [->|N].
  - rewrite hupd_same. destruct (nth_error h l'); auto.
  - rewrite hupd_other; auto.
Qed.

Lemma hown_hchown_same h l o : l < length h -> hown (hchown h l o) l = Some o.
Proof.
  intros H; unfold hown, hchown; rewrite hupd_same.
  destruct (nth_error h l) eqn:E; simpl; auto. apply nth_error_None in E; lia.
Qed.

Lemma hown_hchown_other h l l' o : l <> l' -> hown (hchown h l o) l' = hown h l'.
Proof. intros; unfold hown, hchown; rewrite hupd_other; auto. Qed.

Lemma hset_length h l b : length (hset h l b) = length h.
Proof. apply hupd_length. Qed.
Lemma hchown_length h l o : length (hchown h l o) = length h.
Proof. apply hupd_length. Qed.

Lemma hown_lt h l o : hown h l = Some o -> l < length h.
Proof. unfold hown; destruct (nth_error h l) eqn:E; try discriminate. intros _. eapply nth_error_some_lt; eauto. Qed.

Lemma hget_alloc_old h b o l : l < length h -> hget (fst (halloc h b o)) l = hget h l.
Proof. intros; unfold hget, halloc; simpl; rewrite nth_error_app1; auto. Qed.

Lemma hown_alloc_old h b o l : l < length h -> hown (fst (halloc h b o)) l = hown h l.
Proof. intros; unfold hown, halloc; simpl; rewrite nth_error_app1; auto. Qed.

Lemma hget_alloc_new h b o : hget (fst (halloc h b o)) (length h) = b.
Proof. unfold hget, halloc; simpl. rewrite nth_error_app2, Nat.sub_diag; auto. Qed.

Lemma hown_alloc_new h b o : hown (fst (halloc h b o)) (length h) = Some o.
Proof. unfold hown, halloc; simpl. rewrite nth_error_app2, Nat.sub_diag; auto. Qed.

Lemma halloc_length h b o : length (fst (halloc h b o)) = S (length h).
Proof. unfold halloc; simpl; rewrite app_length; simpl; lia. Qed.

Lemma hget_none h l : length h <= l -> hget h l = [].
Proof. intros H; unfold hget. destruct (nth_error h l) eqn:E; auto. apply nth_error_some_lt in E; lia. Qed.

(* ---- sub ---- *)

Lemma sub_length b off len : off + len <= length b -> length (sub b off len) = len.
Proof. intros; unfold sub. rewrite firstn_length, skipn_length. lia. Qed.

Lemma sub_app b x off len : off + len <= length b -> sub (b ++ x) off len = sub b off len.
Proof.
  intros H; unfold sub. rewrite skipn_app.
  rewrite firstn_app, skipn_length.
  replace (len - (length b - off)) with 0 by lia. simpl. rewrite app_nil_r; auto.
Qed.

Lemma sub_prefix p b len : sub (p ++ b) (length p) len = firstn len b.
Proof.
  unfold sub. rewrite skipn_app, Nat.sub_diag, skipn_all. simpl; auto.
Qed.

Lemma sub_prefix_app p b x : sub (p ++ b ++ x) (length p) (length b) = b.
Proof.
  rewrite sub_prefix. rewrite firstn_app, Nat.sub_diag, firstn_all. simpl. apply app_nil_r.
Qed.

Lemma sub_all b : sub b 0 (length b) = b.
Proof. unfold sub; simpl. apply firstn_all. Qed.

Lemma overwrite_length b off g : length (overwrite b off g) = length b.
Proof.
  unfold overwrite. repeat rewrite app_length. rewrite firstn_length, skipn_length.
  set (g' := firstn (length b - off) g).
  assert (length g' <= length b - off) by (subst g'; rewrite firstn_length; lia).
  lia.
Qed.
