(* Alias/XModel.v — the read side of the ownership model extended (property C20, parts b, c, d): iterators in
   BOTH directions (First/Last/Seek/Next/Prev), Snapshot and Transaction reads, reads in two phases so that several
   calls are in flight, and the life cycle of table block buffers between the buffer pool of Base/UBuffer.v
   (util.BufferPool), the block cache (with handles), the iterators' table children and the reading calls.
   Model file: definitions only (proofs in Alias/XPoolProofs.v, Alias/XInvProofs.v, Alias/XIterProofs.v).

   Derived by reading
     leveldb/db_iter.go        dbIter.next() AND dbIter.prev() both do  i.key = append(i.key[:0], ukey...) and
                               i.value = append(i.value[:0], i.iter.Value()...): in both directions Key()/Value() are
                               the iterator's OWN two buffers, whatever the children are (a memdb iterator exposes slices
                               of the arena kvData, a table block iterator its own key buffer and a slice of the block
                               buffer).  Release(): i.key = nil; i.value = nil; i.iter.Release(): the two buffers are
                               dropped for the garbage collector — never pooled —, the children give their blocks back.
     leveldb/iterator/indexed_iter.go  setData(): the old data iterator is released (blockIter.Release ->
                               blockReleaser.Release) and the next block acquired; clearData() at either end.
     leveldb/table/reader.go   readBlockCached: cache handle (cache.Handle) or a private buffer from the pool
                               (readRawBlock: bpool.Get, ReadAt, snappy into a second pooled buffer, first one Put back);
                               block.Release(): bpool.Put(b.data), called by the last cache handle of an evicted node or by
                               the only holder; find(): value copied unless bpool == nil && cache == nil.
     leveldb/db.go             DB.get(auxm, auxt, key, seq): transaction buffer, live buffers, then tables; used by DB.Get
                               (newest sequence number), Snapshot.Get (snap.elem.seq) and Transaction.Get (tr.mem, tr.tables,
                               tr.seq) alike: append([]byte(nil), mv...) for a write buffer hit.
     leveldb/db_snapshot.go, db_transaction.go   NewIterator: db.newIterator(auxm, auxt, seq, ...), the same dbIter.

   Internal keys: user key ++ [sequence number] (one cell instead of the code's 8 bytes; the kind is the del flag).
   A reader with bound q sees the newest entry of a user key whose sequence number is <= q.

   The block cache's reference counting is NOT re-modelled (property C17 proves it): a node is deleted — its buffer
   Put back — exactly when it has been evicted and no handle is left, where "a handle is left" is read off the
   iterators and calls that hold one ([held_anywhere]).

   Every movement and every read takes oracle arguments: [picks] (what sync.Pool.Get hands back: any pooled slice of
   the class, or none) and [extra] (which OTHER blocks the call acquires or drops on the way: the other children of
   the merged iterator reposition themselves; index and filter blocks; a movement has a second list for where the
   children rest once the entry has been exposed).  The theorems quantify over them.

   Not modelled: in-place reuse of write-buffer arenas (memdb.Reset of a pooled memdb at reference count zero, and
   Transaction.flush when nobody else holds the buffer: the model always takes a new arena), reallocation by append (a dbIter buffer that grows gets a new array and the old one stays as it is:
   the model always reuses the array, the worst case), the garbage collector, the Go scheduler (one step at a time;
   but reads are split in two so that calls overlap), argument buffers of reads (Alias/AliasModel.v has them),
   compaction's drop rule (tables only come from flushes here; a compaction is, for ownership, an internal iterator
   plus a table writer, and both exist here). *)
From GL Require Export Alias.Heap Alias.AliasModel.
From GL Require Base.UBuffer.
Local Open Scope nat_scope.

(* ---------------------------------------------------------------- who reads, where a copy could be made *)

Inductive acc := AccDB | AccSnap (j : nat) | AccTxn.
Inductive acckind := KDB | KSnap | KTxn.
Definition kind_of (a : acc) : acckind := match a with AccDB => KDB | AccSnap _ => KSnap | AccTxn => KTxn end.

Inductive idir := DFwd | DBwd.

Inductive xpath :=
| XPGetMem (k : acckind)              (* DB.get: hit in a write buffer (live, or the transaction's) *)
| XPGetTable (k : acckind)            (* table.Reader.find *)
| XPIterKey (k : acckind) (d : idir)  (* dbIter.next / dbIter.prev: user key of the merged iterator's key *)
| XPIterValue (k : acckind) (d : idir)
| XPMemPut.                           (* memdb.Put *)

Definition xmodes := xpath -> config -> mode.

(* the code *)
Definition xfixed : xmodes := fun p c =>
  match p with
  | XPGetTable _ => if pool_on c || cache_on c then Copy else Slice
  | _ => Copy
  end.

(* ---------------------------------------------------------------- state *)

Definition picks := (option nat * option nat)%type.

Inductive hkind := HCache | HOwn.     (* through a cache handle / as the only owner of a private buffer *)
Record hold := { h_tid : nat; h_bi : nat; h_loc : loc; h_kind : hkind }.

Record cnode := { n_tid : nat; n_bi : nat; n_loc : loc; n_lru : bool }.

Inductive xsrc :=
| XSMem (e : ment)
| XSTab (tid bi : nat) (d : desc).

Inductive ipos := PSOI | PAt (n : nat) | PEOI.

Record xiter := {
  xi_kind : acckind;
  xi_kbuf : loc; xi_vbuf : loc;
  xi_exk : ref; xi_exv : ref;
  xi_srcs : list (bytes * xsrc);        (* user key, where the visible entry lives; key order; fixed at creation *)
  xi_pos : ipos;
  xi_held : list hold;                  (* the data blocks its table children hold, at most one per table *)
  xi_live : bool
}.

Record xcall := {
  c_kind : acckind;
  c_src : option xsrc;                  (* what DB.get found: None = not found or deleted *)
  c_hold : option hold;
  c_done : bool
}.

(* the buffer manager: the heap, util.BufferPool, the block cache *)
Record bm := { bh : heap; bpl : UBuffer.bpool; bca : list cnode }.

Record xstate := {
  xbm : bm;
  xseq : nat;
  xmem : memdb;
  xfiles : list table;
  xlive : list nat;                     (* live tables, newest first *)
  xtxn : option txnst;
  xsnaps : list nat;
  xiters : list xiter;
  xcalls : list xcall;
  xcvis : list ref
}.

Definition xhp (s : xstate) : heap := bh (xbm s).
Definition xpool (s : xstate) : UBuffer.bpool := bpl (xbm s).
Definition xcache (s : xstate) : list cnode := bca (xbm s).

Definition bm_hp (b : bm) (h : heap) : bm := {| bh := h; bpl := bpl b; bca := bca b |}.
Definition bm_pool (b : bm) (p : UBuffer.bpool) : bm := {| bh := bh b; bpl := p; bca := bca b |}.
Definition bm_cache (b : bm) (c : list cnode) : bm := {| bh := bh b; bpl := bpl b; bca := c |}.

Definition xset_bm (s : xstate) (b : bm) : xstate :=
  {| xbm := b; xseq := xseq s; xmem := xmem s; xfiles := xfiles s; xlive := xlive s; xtxn := xtxn s; xsnaps := xsnaps s;
     xiters := xiters s; xcalls := xcalls s; xcvis := xcvis s |}.
Definition xset_hp (s : xstate) (h : heap) : xstate := xset_bm s (bm_hp (xbm s) h).
Definition xset_mem (s : xstate) (q : nat) (m : memdb) : xstate :=
  {| xbm := xbm s; xseq := q; xmem := m; xfiles := xfiles s; xlive := xlive s; xtxn := xtxn s; xsnaps := xsnaps s;
     xiters := xiters s; xcalls := xcalls s; xcvis := xcvis s |}.
Definition xset_tabs (s : xstate) (f : list table) (l : list nat) : xstate :=
  {| xbm := xbm s; xseq := xseq s; xmem := xmem s; xfiles := f; xlive := l; xtxn := xtxn s; xsnaps := xsnaps s;
     xiters := xiters s; xcalls := xcalls s; xcvis := xcvis s |}.
Definition xset_txn (s : xstate) (t : option txnst) : xstate :=
  {| xbm := xbm s; xseq := xseq s; xmem := xmem s; xfiles := xfiles s; xlive := xlive s; xtxn := t; xsnaps := xsnaps s;
     xiters := xiters s; xcalls := xcalls s; xcvis := xcvis s |}.
Definition xset_snaps (s : xstate) (l : list nat) : xstate :=
  {| xbm := xbm s; xseq := xseq s; xmem := xmem s; xfiles := xfiles s; xlive := xlive s; xtxn := xtxn s; xsnaps := l;
     xiters := xiters s; xcalls := xcalls s; xcvis := xcvis s |}.
Definition xset_iters (s : xstate) (l : list xiter) : xstate :=
  {| xbm := xbm s; xseq := xseq s; xmem := xmem s; xfiles := xfiles s; xlive := xlive s; xtxn := xtxn s; xsnaps := xsnaps s;
     xiters := l; xcalls := xcalls s; xcvis := xcvis s |}.
Definition xset_calls (s : xstate) (l : list xcall) : xstate :=
  {| xbm := xbm s; xseq := xseq s; xmem := xmem s; xfiles := xfiles s; xlive := xlive s; xtxn := xtxn s; xsnaps := xsnaps s;
     xiters := xiters s; xcalls := l; xcvis := xcvis s |}.
Definition xset_cvis (s : xstate) (l : list ref) : xstate :=
  {| xbm := xbm s; xseq := xseq s; xmem := xmem s; xfiles := xfiles s; xlive := xlive s; xtxn := xtxn s; xsnaps := xsnaps s;
     xiters := xiters s; xcalls := xcalls s; xcvis := l |}.

(* pbase: the baseline of the buffer pool (block size + trailer in the code) *)
Definition xinit (pbase : N) : xstate :=
  {| xbm := {| bh := [{| cbytes := []; cown := DB KMem |}]; bpl := UBuffer.bp_new pbase; bca := [] |};
     xseq := 0; xmem := {| mkv := 0; mds := [] |};
     xfiles := []; xlive := []; xtxn := None; xsnaps := []; xiters := []; xcalls := []; xcvis := [] |}.

Definition bm_alloc (b : bm) (x : bytes) (o : owner) : bm * loc :=
  (bm_hp b (fst (halloc (bh b) x o)), length (bh b)).

Definition xalloc (s : xstate) (x : bytes) (o : owner) : xstate * loc :=
  (xset_bm s (fst (bm_alloc (xbm s) x o)), snd (bm_alloc (xbm s) x o)).

(* ---------------------------------------------------------------- internal keys *)

Definition ikey (k : bytes) (q : nat) : bytes := k ++ [N.of_nat q].
Definition ukey_of (ik : bytes) : bytes := removelast ik.
Definition seq_of (ik : bytes) : nat := N.to_nat (last ik 0%N).
(* the user key part of a slice holding an internal key *)
Definition ukey_ref (r : ref) : ref := mkref (rloc r) (roff r) (rlen r - 1).

(* ---------------------------------------------------------------- util.BufferPool *)

Definition pool_ids (p : UBuffer.bpool) : list loc := map fst (concat (UBuffer.bp_cls p)).

(* the capacity of a block buffer: its contents and the block trailer (the model keeps arrays exactly sized) *)
Definition cap_of (b : bm) (l : loc) : N := N.of_nat (length (hget (bh b) l) + 5).

(* bpool.Get(n) (make when the pool is disabled): the buffer is the caller's *)
Definition bpool_get (c : config) (b : bm) (n : N) (pick : option nat) : bm * loc :=
  if pool_on c then
    let '(p', g) := UBuffer.bp_get (bpl b) n pick (length (bh b)) in
    if UBuffer.pg_reused g
    then (bm_hp (bm_pool b p') (hchown (bh b) (UBuffer.pg_id g) (DB KBlock)), UBuffer.pg_id g)
    else bm_alloc (bm_pool b p') [] (DB KBlock)
  else bm_alloc b [] (DB KBlock).

(* bpool.Put(b) (nothing when the pool is disabled: the buffer is left to the garbage collector) *)
Definition bpool_put (c : config) (b : bm) (l : loc) : bm :=
  if pool_on c
  then bm_hp (bm_pool b (UBuffer.bp_put (bpl b) (l, cap_of b l))) (hchown (bh b) l Pool)
  else b.

(* ---------------------------------------------------------------- blocks *)

Definition xfile_block (s : xstate) (tid bi : nat) : option fblock :=
  match nth_error (xfiles s) tid with
  | Some t => nth_error t bi
  | None => None
  end.

Fixpoint node_lookup (c : list cnode) (tid bi : nat) : option cnode :=
  match c with
  | [] => None
  | n :: c' => if Nat.eqb (n_tid n) tid && Nat.eqb (n_bi n) bi then Some n else node_lookup c' tid bi
  end.

Definition set_lru (n : cnode) (b : bool) : cnode := {| n_tid := n_tid n; n_bi := n_bi n; n_loc := n_loc n; n_lru := b |}.

Fixpoint promote (c : list cnode) (l : loc) : list cnode :=
  match c with
  | [] => []
  | n :: c' => if Nat.eqb (n_loc n) l then set_lru n true :: c' else n :: promote c' l
  end.

(* readRawBlock *)
Definition read_raw (c : config) (b : bm) (fb : fblock) (pk : picks) : bm * loc :=
  let n := N.of_nat (length (fimg fb) + 5) in
  let (b1, l) := bpool_get c b n (fst pk) in
  let b2 := bm_hp b1 (hset (bh b1) l (fimg fb)) in
  if snappy c then
    let (b3, l2) := bpool_get c b2 n (snd pk) in
    let b4 := bm_hp b3 (hset (bh b3) l2 (fimg fb)) in
    (bpool_put c b4 l, l2)
  else (b2, l).

(* readBlockCached: a handle on the cached block (inserted if absent), or a private buffer *)
Definition acquire (c : config) (b : bm) (tid bi : nat) (ofb : option fblock) (pk : picks) : bm * option hold :=
  match ofb with
  | None => (b, None)
  | Some fb =>
      if cache_on c then
        match node_lookup (bca b) tid bi with
        | Some n => (bm_cache b (promote (bca b) (n_loc n)),
                     Some {| h_tid := tid; h_bi := bi; h_loc := n_loc n; h_kind := HCache |})
        | None =>
            let (b1, l) := read_raw c b fb pk in
            (bm_cache (bm_hp b1 (hchown (bh b1) l Cache))
               ({| n_tid := tid; n_bi := bi; n_loc := l; n_lru := true |} :: bca b1),
             Some {| h_tid := tid; h_bi := bi; h_loc := l; h_kind := HCache |})
        end
      else
        let (b1, l) := read_raw c b fb pk in
        (b1, Some {| h_tid := tid; h_bi := bi; h_loc := l; h_kind := HOwn |})
  end.

Definition is_cache_hold (l : loc) (h : hold) : bool :=
  match h_kind h with HCache => Nat.eqb (h_loc h) l | HOwn => false end.

Definition ohold_list (o : option hold) : list hold := match o with Some h => [h] | None => [] end.

Definition all_holds (s : xstate) : list hold :=
  flat_map xi_held (xiters s) ++ flat_map (fun cl => ohold_list (c_hold cl)) (xcalls s).

(* some iterator or call has a handle on the cached block behind l *)
Definition held_anywhere (s : xstate) (l : loc) : bool := existsb (is_cache_hold l) (all_holds s).

Fixpoint remove_node (c : list cnode) (l : loc) : list cnode :=
  match c with
  | [] => []
  | n :: c' => if Nat.eqb (n_loc n) l then c' else n :: remove_node c' l
  end.

Fixpoint node_of (c : list cnode) (l : loc) : option cnode :=
  match c with
  | [] => None
  | n :: c' => if Nat.eqb (n_loc n) l then Some n else node_of c' l
  end.

(* the cache node behind l dies when it is evicted and no handle is left: block.Release() -> bpool.Put *)
Definition gc_node (c : config) (b : bm) (held : bool) (l : loc) : bm :=
  match node_of (bca b) l with
  | Some n =>
      if n_lru n || held then b
      else bpool_put c (bm_cache b (remove_node (bca b) l)) l
  | None => b
  end.

(* a holder lets go (it has taken the hold out of its own record already; [held]: who else has a handle) *)
Definition release_hold (c : config) (b : bm) (held : loc -> bool) (h : hold) : bm :=
  match h_kind h with
  | HOwn => bpool_put c b (h_loc h)
  | HCache => gc_node c b (held (h_loc h)) (h_loc h)
  end.

Definition xrelease (c : config) (s : xstate) (h : hold) : xstate :=
  xset_bm s (release_hold c (xbm s) (held_anywhere s) h).

Definition xacquire (c : config) (s : xstate) (tid bi : nat) (pk : picks) : xstate * option hold :=
  let r := acquire c (xbm s) tid bi (xfile_block s tid bi) pk in (xset_bm s (fst r), snd r).

(* the cache evicts its k-th node (capacity, EvictNS of a removed table, a cache without a cacher) *)
Definition xevict (c : config) (s : xstate) (k : nat) : xstate :=
  match nth_error (xcache s) k with
  | None => s
  | Some n =>
      let b1 := bm_cache (xbm s) (replace_nth k (xcache s) (set_lru n false)) in
      xset_bm s (gc_node c b1 (held_anywhere s (n_loc n)) (n_loc n))
  end.

(* ---------------------------------------------------------------- what a reader sees *)

Definition bound_of (s : xstate) (a : acc) : nat :=
  match a with
  | AccDB | AccTxn => xseq s
  | AccSnap j => nth j (xsnaps s) 0
  end.

Definition visible (q : nat) (ik : bytes) : bool := Nat.leb (seq_of ik) q.

(* entries of a write buffer, newest first: (user key, source or tombstone), only the visible ones *)
Definition xmem_srcs (h : heap) (q : nat) (m : memdb) : list (bytes * option xsrc) :=
  flat_map (fun e => let ik := deref h (mk e) in
                     if visible q ik then [(ukey_of ik, if mdel e then None else Some (XSMem e))] else []) (mds m).

Fixpoint xtab_srcs_from (q : nat) (tid : nat) (t : table) (bi : nat) : list (bytes * option xsrc) :=
  match t with
  | [] => []
  | fb :: t' =>
      flat_map (fun d => let ik := dkey (fimg fb) d in
                         if visible q ik then [(ukey_of ik, if isdel d then None else Some (XSTab tid bi d))] else []) (fds fb)
      ++ xtab_srcs_from q tid t' (S bi)
  end.

Definition xtab_srcs (s : xstate) (q : nat) (tid : nat) : list (bytes * option xsrc) :=
  match nth_error (xfiles s) tid with
  | Some t => xtab_srcs_from q tid t 0
  | None => []
  end.

(* DB.get / newRawIterator order: transaction buffer, live buffer, transaction tables, live tables *)
Definition view_srcs (s : xstate) (a : acc) : list (bytes * option xsrc) :=
  let q := bound_of s a in
  let aux := match a, xtxn s with AccTxn, Some t => Some t | _, _ => None end in
  match aux with Some t => xmem_srcs (xhp s) q (tmem t) | None => [] end
  ++ xmem_srcs (xhp s) q (xmem s)
  ++ flat_map (xtab_srcs s q) (match aux with Some t => ttabs t | None => [] end ++ xlive s).

(* ---------------------------------------------------------------- writes *)

(* memdb.Put(ikey, value): appended to the arena *)
Definition xmem_put (md : xmodes) (c : config) (s : xstate) (m : memdb) (k v : bytes) (del : bool) (q : nat) : xstate * memdb :=
  let h := xhp s in
  let old := length (hget h (mkv m)) in
  let kb := ikey k q in
  let vb := if del then [] else v in
  let e := {| mk := mkref (mkv m) old (length kb); mv := mkref (mkv m) (old + length kb) (length vb); mdel := del |} in
  (xset_hp s (happend h (mkv m) (kb ++ vb)), {| mkv := mkv m; mds := e :: mds m |}).

Definition xput (md : xmodes) (c : config) (s : xstate) (k v : bytes) (del : bool) : xstate :=
  let q := S (xseq s) in
  let (s1, m) := xmem_put md c s (xmem s) k v del q in
  xset_mem s1 q m.

Definition xtxn_put (md : xmodes) (c : config) (s : xstate) (k v : bytes) (del : bool) : xstate :=
  match xtxn s with
  | None => s
  | Some t =>
      let q := S (xseq s) in
      let (s1, m) := xmem_put md c s (tmem t) k v del q in
      xset_txn (xset_mem s1 q (xmem s1)) (Some {| tmem := m; ttabs := ttabs t |})
  end.

(* table.Writer: one pooled buffer for the data blocks (NewWriter: bpool.Get; Close: bpool.Put), overwritten *)
Definition bm_writer (c : config) (b : bm) (n : N) (pick : option nat) (g : bytes) : bm :=
  let (b1, l) := bpool_get c b n pick in
  bpool_put c (bm_hp b1 (hset (bh b1) l g)) l.
Definition table_writer (c : config) (s : xstate) (n : N) (pick : option nat) (g : bytes) : xstate :=
  xset_bm s (bm_writer c (xbm s) n pick g).

Definition first_img (t : table) : bytes := match t with fb :: _ => fimg fb | [] => [] end.

(* the write buffer becomes a level-0 table; a new arena *)
Definition xflush (c : config) (s : xstate) (pick : option nat) : xstate :=
  let t := build_table (blk c) (mem_content (xhp s) (xmem s)) in
  let s1 := table_writer c s (N.of_nat (length (first_img t) + 5)) pick (first_img t) in
  let id := length (xfiles s1) in
  let (s2, l) := xalloc (xset_tabs s1 (xfiles s1 ++ [t]) (id :: xlive s1)) [] (DB KMem) in
  xset_mem s2 (xseq s2) {| mkv := l; mds := [] |}.

Definition xtxn_flush (c : config) (s : xstate) (pick : option nat) : xstate :=
  match xtxn s with
  | None => s
  | Some tx =>
      let t := build_table (blk c) (mem_content (xhp s) (tmem tx)) in
      let s1 := table_writer c s (N.of_nat (length (first_img t) + 5)) pick (first_img t) in
      let id := length (xfiles s1) in
      let (s2, l) := xalloc (xset_tabs s1 (xfiles s1 ++ [t]) (xlive s1)) [] (DB KMem) in
      xset_txn s2 (Some {| tmem := {| mkv := l; mds := [] |}; ttabs := id :: ttabs tx |})
  end.

Definition xtxn_open (s : xstate) : xstate :=
  match xtxn s with
  | Some _ => s
  | None =>
      let (s1, l) := xalloc s [] (DB KMem) in
      xset_txn s1 (Some {| tmem := {| mkv := l; mds := [] |}; ttabs := [] |})
  end.

Definition xtxn_commit (c : config) (s : xstate) (pick : option nat) : xstate :=
  match xtxn (xtxn_flush c s pick) with
  | None => s
  | Some t => let s1 := xtxn_flush c s pick in xset_txn (xset_tabs s1 (xfiles s1) (ttabs t ++ xlive s1)) None
  end.

(* ---------------------------------------------------------------- reads in two phases *)

Definition extras := list (nat * option nat * picks).

(* index / filter blocks and the like: acquired and released within the call *)
Fixpoint touch_blocks (c : config) (s : xstate) (ex : extras) : xstate :=
  match ex with
  | [] => s
  | (tid, Some bi, pk) :: ex' =>
      let (s1, oh) := xacquire c s tid bi pk in
      touch_blocks c (match oh with Some h => xrelease c s1 h | None => s1 end) ex'
  | (_, None, _) :: ex' => touch_blocks c s ex'
  end.

(* first entry for k in the reader's order *)
Definition xfind (s : xstate) (a : acc) (k : bytes) : option xsrc :=
  match assoc k (view_srcs s a) with
  | Some (Some x) => Some x
  | _ => None
  end.

Definition xget_begin (c : config) (s : xstate) (a : acc) (k : bytes) (ex : extras) (pk : picks) : xstate :=
  let found := xfind s a k in
  let s1 := touch_blocks c s ex in
  let '(s2, oh) :=
    match found with
    | Some (XSTab tid bi _) => xacquire c s1 tid bi pk
    | _ => (s1, None)
    end in
  xset_calls s2 (xcalls s2 ++ [{| c_kind := kind_of a; c_src := found; c_hold := oh; c_done := false |}]).

Definition xtransfer (m : mode) (s : xstate) (r : ref) (o : owner) : xstate * ref :=
  match m with
  | Copy =>
      let b := deref (xhp s) r in
      let (s1, l) := xalloc s b o in
      (s1, mkref l 0 (length b))
  | Slice => (s, r)
  end.

Inductive xout :=
| XVal (v : option bytes)
| XPair (kv : option (bytes * bytes))
| XBool (b : bool)
| XBlocked.

Definition xget_end (md : xmodes) (c : config) (s : xstate) (j : nat) : xstate * option xout :=
  match nth_error (xcalls s) j with
  | None => (s, None)
  | Some cl =>
      if c_done cl then (s, None) else
      let fin := {| c_kind := c_kind cl; c_src := c_src cl; c_hold := None; c_done := true |} in
      let s0 := xset_calls s (replace_nth j (xcalls s) fin) in
      match c_src cl, c_hold cl with
      | Some (XSMem e), _ =>
          let (s1, r) := xtransfer (md (XPGetMem (c_kind cl)) c) s0 (mv e) Client in
          (xset_cvis s1 (r :: xcvis s1), Some (XVal (Some (deref (xhp s1) r))))
      | Some (XSTab _ _ d), Some h =>
          let vr := mkref (h_loc h) (voff d) (vlen d) in
          match md (XPGetTable (c_kind cl)) c with
          | Copy =>
              let (s1, r) := xtransfer Copy s0 vr Client in
              let s2 := xrelease c s1 h in
              (xset_cvis s2 (r :: xcvis s2), Some (XVal (Some (deref (xhp s2) r))))
          | Slice =>
              let s1 := xrelease c s0 h in
              (* a private buffer of a disabled pool is referenced by nothing but the slice: the client's now *)
              let s2 := match h_kind h with
                        | HOwn => if pool_on c then s1 else xset_hp s1 (hchown (xhp s1) (h_loc h) Client)
                        | HCache => s1
                        end in
              (xset_cvis s2 (vr :: xcvis s2), Some (XVal (Some (deref (xhp s2) vr))))
          end
      | _, oh => ((match oh with Some h => xrelease c s0 h | None => s0 end), Some (XVal None))
      end
  end.

(* ---------------------------------------------------------------- iterators *)

Definition xnew_iter (s : xstate) (a : acc) : xstate :=
  let srcs := canon (view_srcs s a) in
  let (s1, kb) := xalloc s [] (DB KIter) in
  let (s2, vb) := xalloc s1 [] (DB KIter) in
  xset_iters s2 (xiters s2 ++ [{| xi_kind := kind_of a; xi_kbuf := kb; xi_vbuf := vb; xi_exk := mkref kb 0 0; xi_exv := mkref vb 0 0;
                                  xi_srcs := srcs; xi_pos := PSOI; xi_held := []; xi_live := true |}]).

Definition it_set_held (it : xiter) (hs : list hold) : xiter :=
  {| xi_kind := xi_kind it; xi_kbuf := xi_kbuf it; xi_vbuf := xi_vbuf it; xi_exk := xi_exk it; xi_exv := xi_exv it;
     xi_srcs := xi_srcs it; xi_pos := xi_pos it; xi_held := hs; xi_live := xi_live it |}.
Definition it_set_pos (it : xiter) (p : ipos) : xiter :=
  {| xi_kind := xi_kind it; xi_kbuf := xi_kbuf it; xi_vbuf := xi_vbuf it; xi_exk := xi_exk it; xi_exv := xi_exv it;
     xi_srcs := xi_srcs it; xi_pos := p; xi_held := xi_held it; xi_live := xi_live it |}.
Definition it_set_ex (it : xiter) (k v : ref) : xiter :=
  {| xi_kind := xi_kind it; xi_kbuf := xi_kbuf it; xi_vbuf := xi_vbuf it; xi_exk := k; xi_exv := v;
     xi_srcs := xi_srcs it; xi_pos := xi_pos it; xi_held := xi_held it; xi_live := xi_live it |}.
Definition it_kill (it : xiter) : xiter :=
  {| xi_kind := xi_kind it; xi_kbuf := xi_kbuf it; xi_vbuf := xi_vbuf it; xi_exk := xi_exk it; xi_exv := xi_exv it;
     xi_srcs := xi_srcs it; xi_pos := xi_pos it; xi_held := []; xi_live := false |}.

Definition get_iter (s : xstate) (i : nat) : option xiter := nth_error (xiters s) i.
Definition put_iter (s : xstate) (i : nat) (it : xiter) : xstate := xset_iters s (replace_nth i (xiters s) it).

Definition hold_of_tid (hs : list hold) (tid : nat) : option hold := find (fun h => Nat.eqb (h_tid h) tid) hs.
Fixpoint drop_tid (hs : list hold) (tid : nat) : list hold :=
  match hs with
  | [] => []
  | h :: t => if Nat.eqb (h_tid h) tid then t else h :: drop_tid t tid
  end.

(* the table child tid of iterator i lets its block go (setData / clearData: i.data.Release()) *)
Definition child_drop (c : config) (s : xstate) (i tid : nat) : xstate :=
  match get_iter s i with
  | None => s
  | Some it =>
      match hold_of_tid (xi_held it) tid with
      | None => s
      | Some h => xrelease c (put_iter s i (it_set_held it (drop_tid (xi_held it) tid))) h
      end
  end.

(* the table child tid of iterator i positions itself in block bi: nothing if it holds it, else release and acquire *)
Definition child_goto (c : config) (s : xstate) (i tid bi : nat) (pk : picks) : xstate :=
  match get_iter s i with
  | None => s
  | Some it =>
      match hold_of_tid (xi_held it) tid with
      | Some h => if Nat.eqb (h_bi h) bi then s else
          let s1 := child_drop c s i tid in
          let (s2, oh) := xacquire c s1 tid bi pk in
          match get_iter s2 i, oh with
          | Some it2, Some h2 => put_iter s2 i (it_set_held it2 (h2 :: xi_held it2))
          | _, _ => s2
          end
      | None =>
          let (s2, oh) := xacquire c s tid bi pk in
          match get_iter s2 i, oh with
          | Some it2, Some h2 => put_iter s2 i (it_set_held it2 (h2 :: xi_held it2))
          | _, _ => s2
          end
      end
  end.

Fixpoint children_move (c : config) (s : xstate) (i : nat) (ex : extras) : xstate :=
  match ex with
  | [] => s
  | (tid, Some bi, pk) :: ex' => children_move c (child_goto c s i tid bi pk) i ex'
  | (tid, None, _) :: ex' => children_move c (child_drop c s i tid) i ex'
  end.

Inductive move := MFirst | MLast | MSeek (k : bytes) | MNext | MPrev.

Definition move_dir (m : move) : idir := match m with MLast | MPrev => DBwd | _ => DFwd end.

(* where the movement lands; None: the call returns false at once and changes nothing (Next at the end, Prev at the
   start) *)
Definition land {A} (srcs : list A) (p : ipos) (m : move) (seekp : nat) : option ipos :=
  let L := length srcs in
  let first := if Nat.eqb L 0 then PEOI else PAt 0 in
  let lastp := if Nat.eqb L 0 then PSOI else PAt (L - 1) in
  match m with
  | MFirst => Some first
  | MLast => Some lastp
  | MSeek _ => Some (if Nat.ltb seekp L then PAt seekp else PEOI)
  | MNext =>
      match p with
      | PSOI => Some first
      | PAt n => Some (if Nat.ltb (S n) L then PAt (S n) else PEOI)
      | PEOI => None
      end
  | MPrev =>
      match p with
      | PEOI => Some lastp
      | PAt n => Some (match n with O => PSOI | S n' => PAt n' end)
      | PSOI => None
      end
  end.

(* dbIter.next / dbIter.prev at the entry found: key and value into the iterator's own buffers *)
Definition xexpose (md : xmodes) (c : config) (s : xstate) (i : nat) (d : idir) (kr vr : ref) : xstate :=
  match get_iter s i with
  | None => s
  | Some it =>
      let kb := deref (xhp s) kr in
      let vb := deref (xhp s) vr in
      let (s1, ek) :=
        match md (XPIterKey (xi_kind it) d) c with
        | Copy => (xset_hp s (hset (xhp s) (xi_kbuf it) kb), mkref (xi_kbuf it) 0 (length kb))
        | Slice => (s, kr)
        end in
      let (s2, ev) :=
        match md (XPIterValue (xi_kind it) d) c with
        | Copy => (xset_hp s1 (hset (xhp s1) (xi_vbuf it) vb), mkref (xi_vbuf it) 0 (length vb))
        | Slice => (s1, vr)
        end in
      match get_iter s2 i with
      | Some it2 => put_iter s2 i (it_set_ex it2 ek ev)
      | None => s2
      end
  end.

Definition set_pos_of (s : xstate) (i : nat) (p : ipos) : xstate :=
  match get_iter s i with Some it => put_iter s i (it_set_pos it p) | None => s end.

Definition xiter_move (md : xmodes) (c : config) (s : xstate) (i : nat) (m : move) (ex : extras) (pk : picks) : xstate * option xout :=
  match get_iter s i with
  | None => (s, None)
  | Some it =>
      if xi_live it then
        match land (xi_srcs it) (xi_pos it) m (match m with MSeek k => seek_pos (xi_srcs it) k | _ => 0 end) with
        | None => (s, Some (XBool false))
        | Some p =>
            let s1 := children_move c s i ex in
            match p with
            | PAt n =>
                match nth_error (xi_srcs it) n with
                | Some (_, XSMem e) =>
                    (set_pos_of (xexpose md c s1 i (move_dir m) (ukey_ref (mk e)) (mv e)) i p, Some (XBool true))
                | Some (_, XSTab tid bi d) =>
                    let s2 := child_goto c s1 i tid bi pk in
                    match get_iter s2 i with
                    | Some it2 =>
                        match hold_of_tid (xi_held it2) tid with
                        | Some h =>
                            (set_pos_of (xexpose md c s2 i (move_dir m)
                                           (mkref (h_loc h) (koff d) (klen d - 1)) (mkref (h_loc h) (voff d) (vlen d))) i p,
                             Some (XBool true))
                        | None => (set_pos_of s2 i p, Some (XBool true))
                        end
                    | None => (s2, None)
                    end
                | None => (set_pos_of s1 i p, Some (XBool false))
                end
            | _ => (set_pos_of s1 i p, Some (XBool false))
            end
        end
      else (s, None)
  end.

(* dbIter.prev() exposes an entry and goes on until the merged iterator rests on the entry BEFORE it (that is why it
   must save key and value first); dbIter.next() rests on the exposed entry.  [ex2]: where the children are after the
   call, applied once the entry has been exposed (forward: normally nothing). *)
Definition xiter_move2 (md : xmodes) (c : config) (s : xstate) (i : nat) (m : move) (ex : extras) (pk : picks) (ex2 : extras)
  : xstate * option xout :=
  let r := xiter_move md c s i m ex pk in
  (match snd r with Some (XBool true) => children_move c (fst r) i ex2 | _ => fst r end, snd r).

Definition xiter_read (s : xstate) (i : nat) : option xout :=
  match get_iter s i with
  | None => None
  | Some it =>
      match xi_live it, xi_pos it with
      | true, PAt _ => Some (XPair (Some (deref (xhp s) (xi_exk it), deref (xhp s) (xi_exv it))))
      | _, _ => Some (XPair None)
      end
  end.

(* the children give their blocks back one after the other *)
Fixpoint release_all (c : config) (s : xstate) (i : nat) (fuel : nat) : xstate :=
  match fuel with
  | O => s
  | S f =>
      match get_iter s i with
      | Some it =>
          match xi_held it with
          | h :: _ => release_all c (child_drop c s i (h_tid h)) i f
          | [] => s
          end
      | None => s
      end
  end.

(* dbIter.Release: i.key = nil; i.value = nil (the two buffers are left to the garbage collector: nothing refers to
   them any more but the slices the caller kept); i.iter.Release() *)
Definition xiter_release (c : config) (s : xstate) (i : nat) : xstate :=
  match get_iter s i with
  | None => s
  | Some it =>
      if xi_live it then
        let s1 := release_all c s i (length (xi_held it)) in
        match get_iter s1 i with
        | Some it1 => put_iter s1 i (it_kill it1)
        | None => s1
        end
      else s
  end.

(* ---------------------------------------------------------------- environment *)

(* sync.Pool forgets the idx-th slice of class cls *)
Definition xpool_drop (s : xstate) (cls idx : nat) : xstate :=
  let p := xpool s in
  let items := nth cls (UBuffer.bp_cls p) [] in
  xset_bm s (bm_pool (xbm s) (UBuffer.BP (UBuffer.bp_base p) (UBuffer.set_nth_cls (UBuffer.bp_cls p) cls (UBuffer.remove_nth items idx)))).

Definition xscribble (s : xstate) (i pos : nat) (g : bytes) : xstate :=
  match nth_error (xcvis s) i with
  | None => s
  | Some r => xset_hp s (hset (xhp s) (rloc r) (overwrite (hget (xhp s) (rloc r)) (roff r + pos) g))
  end.

(* ---------------------------------------------------------------- operations *)

Inductive xop :=
| XPut (k v : bytes) | XDelete (k : bytes)
| XSnapNew
| XGetBegin (a : acc) (k : bytes) (ex : extras) (pk : picks)
| XGetEnd (j : nat)
| XIterNew (a : acc)
| XIterMove (i : nat) (m : move) (ex : extras) (pk : picks) (ex2 : extras)
| XIterRead (i : nat)
| XIterRelease (i : nat)
| XTxnOpen | XTxnPut (k v : bytes) | XTxnDelete (k : bytes) | XTxnCommit (pick : option nat) | XTxnDiscard
| EXFlush (pick : option nat) | EXTxnFlush (pick : option nat)
| EXEvict (k : nat)
| EXPoolDrop (cls idx : nat)
| EXTableWrite (n : N) (pick : option nat) (g : bytes)
| XScribble (i pos : nat) (g : bytes).

Definition xstep (md : xmodes) (c : config) (s : xstate) (o : xop) : xstate * option xout :=
  match o with
  | XPut k v => if is_some (xtxn s) then (s, Some XBlocked) else (xput md c s k v false, None)
  | XDelete k => if is_some (xtxn s) then (s, Some XBlocked) else (xput md c s k [] true, None)
  | XSnapNew => (xset_snaps s (xsnaps s ++ [xseq s]), None)
  | XGetBegin a k ex pk => (xget_begin c s a k ex pk, None)
  | XGetEnd j => xget_end md c s j
  | XIterNew a => (xnew_iter s a, None)
  | XIterMove i m ex pk ex2 => xiter_move2 md c s i m ex pk ex2
  | XIterRead i => (s, xiter_read s i)
  | XIterRelease i => (xiter_release c s i, None)
  | XTxnOpen => (xtxn_open s, None)
  | XTxnPut k v => (xtxn_put md c s k v false, None)
  | XTxnDelete k => (xtxn_put md c s k [] true, None)
  | XTxnCommit pick => (xtxn_commit c s pick, None)
  | XTxnDiscard => (xset_txn s None, None)
  | EXFlush pick => if is_some (xtxn s) then (s, None) else (xflush c s pick, None)
  | EXTxnFlush pick => (xtxn_flush c s pick, None)
  | EXEvict k => (xevict c s k, None)
  | EXPoolDrop cls idx => (xpool_drop s cls idx, None)
  | EXTableWrite n pick g => (table_writer c s n pick g, None)
  | XScribble i pos g => (xscribble s i pos g, None)
  end.

Fixpoint xrun (md : xmodes) (c : config) (s : xstate) (p : list xop) : xstate * list xout :=
  match p with
  | [] => (s, [])
  | o :: p' =>
      let (s1, x) := xstep md c s o in
      let (s2, xs) := xrun md c s1 p' in
      (s2, match x with Some y => y :: xs | None => xs end)
  end.

Definition xoutputs (md : xmodes) (c : config) (pbase : N) (p : list xop) : list xout := snd (xrun md c (xinit pbase) p).
Definition xfinal (md : xmodes) (c : config) (pbase : N) (p : list xop) : xstate := fst (xrun md c (xinit pbase) p).

Definition x_is_scribble (o : xop) : bool := match o with XScribble _ _ _ => true | _ => false end.
Definition x_no_scribbles (p : list xop) : list xop := filter (fun o => negb (x_is_scribble o)) p.

(* does the operation move or release iterator i? *)
Definition xmoves (i : nat) (o : xop) : bool :=
  match o with
  | XIterMove j _ _ _ _ | XIterRelease j => Nat.eqb i j
  | _ => false
  end.

(* ---------------------------------------------------------------- the census of block buffers *)

Definition own_locs (hs : list hold) : list loc :=
  flat_map (fun h => match h_kind h with HOwn => [h_loc h] | HCache => [] end) hs.

(* every block buffer somebody is responsible for: the pool's, the cache nodes', the private ones of iterators'
   children and of reading calls *)
Definition census (s : xstate) : list loc :=
  pool_ids (xpool s) ++ map n_loc (xcache s) ++ own_locs (all_holds s).

Definition handle_ok (s : xstate) (h : hold) : Prop :=
  match h_kind h with
  | HCache => exists n, In n (xcache s) /\ n_loc n = h_loc h /\ n_tid n = h_tid h /\ n_bi n = h_bi h
  | HOwn => True
  end.

(* a block buffer has exactly one owner — the pool, a cache node, an iterator's child or a reading call —, and whoever
   reads a cached block through a handle reads a block the cache still holds *)
Definition single_owner (s : xstate) : Prop :=
  NoDup (census s) /\ forall h, In h (all_holds s) -> handle_ok s h.

(* what the client may write / what the DB side refers to *)
Definition iter_buf_locs (it : xiter) : list loc := [xi_kbuf it; xi_vbuf it].

Definition xseparated (s : xstate) : Prop :=
  (forall r, In r (xcvis s) -> hown (xhp s) (rloc r) = Some Client)
  /\ (forall l, In l (census s) -> exists o, hown (xhp s) l = Some o /\ is_client o = false)
  /\ (forall it, In it (xiters s) -> forall l, In l (iter_buf_locs it) -> hown (xhp s) l = Some (DB KIter)).
