(* Alias/XInvProofs.v — the ownership invariant of Alias/XModel.v and its preservation by every step.
   [RInv c b H K]: the buffer manager b is consistent (BInv), every private hold of H owns a distinct buffer tagged
   "block in use", every cache handle of H refers to a node the cache still has, and every claim of K (a client
   visible buffer, an arena, an iterator buffer) has the tag it should have.  H and K are read off the records of a
   state ([all_holds], [claims]); the lemmas are stated for arbitrary H and K so that moving a hold between records
   is a matter of permutations. *)
From Coq Require Import List NArith Bool Arith Lia Permutation.
From GL Require Import Alias.Heap Alias.HeapProofs Alias.AliasModel Alias.XModel Alias.XPoolProofs.
From GL Require Base.UBuffer.
Import ListNotations.
Local Open Scope nat_scope.

Definition handle_ok_b (b : bm) (h : hold) : Prop :=
  match h_kind h with
  | HCache => exists n, In n (bca b) /\ n_loc n = h_loc h /\ n_tid n = h_tid h /\ n_bi n = h_bi h
  | HOwn => True
  end.

Definition claim_ok (o : owner) : bool := match o with Client | DB KMem | DB KIter => true | _ => false end.

Record RInv (c : config) (b : bm) (H : list hold) (K : list (loc * owner)) : Prop := {
  r_bm : BInv b;
  r_own : forall h, In h H -> h_kind h = HOwn -> tag b (h_loc h) = Some (DB KBlock);
  r_nd : NoDup (own_locs H);
  r_handle : forall h, In h H -> handle_ok_b b h;
  r_claims : forall l o, In (l, o) K -> tag b l = Some o /\ claim_ok o = true;
  r_nocache : cache_on c = false -> forall h, In h H -> h_kind h = HOwn
}.

Lemma own_locs_in H l : In l (own_locs H) <-> exists h, In h H /\ h_kind h = HOwn /\ h_loc h = l.
Proof.
  unfold own_locs. rewrite in_flat_map. split.
  - intros (h & Hh & Hl). destruct (h_kind h) eqn:E; simpl in Hl; [contradiction|]. destruct Hl as [<-|[]]. eauto.
  - intros (h & Hh & Ek & El). exists h. split; auto. rewrite Ek. left. auto.
Qed.

Lemma own_locs_perm H H' : Permutation H H' -> Permutation (own_locs H) (own_locs H').
Proof.
  unfold own_locs. induction 1; simpl; auto.
  - apply Permutation_app_head. auto.
  - rewrite !app_assoc. apply Permutation_app_tail. apply Permutation_app_comm.
  - etransitivity; eauto.
Qed.

Lemma own_locs_app A B : own_locs (A ++ B) = own_locs A ++ own_locs B.
Proof. unfold own_locs. apply flat_map_app. Qed.

Lemma not_was_pool b l o : tag b l = Some o -> o <> Pool -> ~ was_pool_or_new b l.
Proof. intros Ht Ho [H|H]; [congruence|]. apply tag_lt in Ht. lia. Qed.

Lemma tags_kept_at b b' X l o : tags_kept b b' X -> tag b l = Some o -> ~ X l -> tag b' l = Some o.
Proof. intros [_ K] Ht Hn. rewrite K; auto. eapply tag_lt; eauto. Qed.

(* L1: an operation that touched only pooled or new locations and kept the nodes *)
Lemma RInv_kept c b b' H K : RInv c b H K -> BInv b' -> tags_kept b b' (was_pool_or_new b) ->
  (forall n, In n (bca b) -> exists n', In n' (bca b') /\ same_node n n') -> RInv c b' H K.
Proof.
  intros [R1 R2 R3 R4 R5 R6] I' T N. constructor; auto.
  - intros h Hh Ek. eapply tags_kept_at; eauto. eapply not_was_pool; eauto. discriminate.
  - intros h Hh. specialize (R4 h Hh). unfold handle_ok_b in *. destruct (h_kind h); auto.
    destruct R4 as (n & Hn & E1 & E2 & E3). destruct (N n Hn) as (n' & Hn' & (S1 & S2 & S3)).
    exists n'. repeat split; auto; congruence.
  - intros l o Hk. destruct (R5 l o Hk) as [Ht Ho]. split; auto. eapply tags_kept_at; eauto.
    eapply not_was_pool; eauto. intros ->. discriminate.
Qed.

Lemma RInv_perm c b H H' K : Permutation H H' -> RInv c b H K -> RInv c b H' K.
Proof.
  intros P [R1 R2 R3 R4 R5 R6]. constructor; auto.
  - intros h Hh. apply R2. eapply Permutation_in; [symmetry|]; eauto.
  - eapply Permutation_NoDup; [apply own_locs_perm|]; eauto.
  - intros h Hh. apply R4. eapply Permutation_in; [symmetry|]; eauto.
  - intros E h Hh. apply R6; auto. eapply Permutation_in; [symmetry|]; eauto.
Qed.

Lemma RInv_claims_incl c b H K K' : incl K' K -> RInv c b H K -> RInv c b H K'.
Proof. intros P [R1 R2 R3 R4 R5 R6]. constructor; auto. Qed.

(* what a hold must satisfy to be added to / what it satisfies when taken out of H *)
Definition hold_fits (c : config) (b : bm) (H : list hold) (h : hold) : Prop :=
  match h_kind h with
  | HOwn => tag b (h_loc h) = Some (DB KBlock) /\ ~ In (h_loc h) (own_locs H)
  | HCache => handle_ok_b b h /\ cache_on c = true
  end.

Lemma RInv_add c b H K h : RInv c b H K -> hold_fits c b H h -> RInv c b (h :: H) K.
Proof.
  intros [R1 R2 R3 R4 R5 R6] F. unfold hold_fits in F. constructor; auto.
  - intros h' [<-|Hh] Ek; [rewrite Ek in F; apply F|auto].
  - unfold own_locs. simpl. fold (own_locs H). destruct (h_kind h); simpl; auto. constructor; auto. apply F.
  - intros h' [<-|Hh]; auto. destruct (h_kind h) eqn:Ek; [apply F|]. unfold handle_ok_b. rewrite Ek. exact I.
  - intros E h' [<-|Hh]; auto. destruct (h_kind h); auto. destruct F as [_ F]. congruence.
Qed.

Lemma RInv_tail c b H K h : RInv c b (h :: H) K -> RInv c b H K /\ hold_fits c b H h.
Proof.
  intros [R1 R2 R3 R4 R5 R6]. split.
  - constructor; auto.
    + intros h' Hh. apply R2. right. auto.
    + unfold own_locs in R3. simpl in R3. apply nodup_app_inv in R3. apply R3.
    + intros h' Hh. apply R4. right. auto.
    + intros E h' Hh. apply R6; auto. right. auto.
  - unfold hold_fits. destruct (h_kind h) eqn:Ek.
    + split.
      * specialize (R4 h (or_introl eq_refl)). auto.
      * destruct (cache_on c) eqn:Ec; auto. specialize (R6 eq_refl h (or_introl eq_refl)). congruence.
    + split; [apply R2; auto; left; auto|].
      unfold own_locs in R3. simpl in R3. rewrite Ek in R3. simpl in R3. inversion R3; auto.
Qed.

(* the death of a cache node (if it is evicted and nobody of H holds it) *)
Lemma RInv_gc c b H K held l : RInv c b H K ->
  (forall h', In h' H -> is_cache_hold l h' = true -> held = true) ->
  RInv c (gc_node c b held l) H K.
Proof.
  intros R Hheld. pose proof R as [R1 R2 R3 R4 R5 R6].
  pose proof (gc_node_spec c b held l R1) as (I' & T & _ & _ & Nk & Nsub & Nc & _ & _).
  destruct (node_of (bca b) l) as [n|] eqn:En.
  2:{ unfold gc_node in *. rewrite En in *. exact R. }
  destruct (node_of_in _ _ _ En) as [Hin El].
  assert (Ht : tag b l = Some Cache) by (rewrite <- El; apply (bi_cache _ R1); auto).
  constructor; auto.
  - intros h' Hh Ek. eapply tags_kept_at; eauto. cbv beta. intros E. specialize (R2 h' Hh Ek). rewrite E in R2. congruence.
  - intros h' Hh. specialize (R4 h' Hh). unfold handle_ok_b in *. destruct (h_kind h') eqn:Ek'; auto.
    destruct R4 as (m & Hm & E1 & E2 & E3).
    destruct (Nat.eq_dec (n_loc m) l) as [E|E].
    + assert (Hc : is_cache_hold l h' = true).
      { unfold is_cache_hold. rewrite Ek'. apply Nat.eqb_eq. congruence. }
      rewrite (Nc (Hheld h' Hh Hc)). exists m. auto.
    + exists m. split; auto.
  - intros x o Hk. destruct (R5 x o Hk) as [Hx Hc]. split; auto. eapply tags_kept_at; eauto. cbv beta. intros E. subst x.
    rewrite Ht in Hx. inversion Hx; subst; discriminate.
Qed.

(* L2: a holder lets go of a hold that is not in H any more *)
Lemma RInv_release c b H K h held : RInv c b H K -> hold_fits c b H h ->
  (forall h', In h' H -> is_cache_hold (h_loc h) h' = true -> held (h_loc h) = true) ->
  RInv c (release_hold c b held h) H K.
Proof.
  intros R F Hheld. unfold release_hold. unfold hold_fits in F. destruct (h_kind h) eqn:Ek.
  - apply RInv_gc; auto.
  - destruct F as [Ft Fn]. pose proof R as [R1 R2 R3 R4 R5 R6].
    assert (Lt : h_loc h < length (bh b)) by (eapply tag_lt; eauto).
    assert (Hnp : ~ In (h_loc h) (pool_ids (bpl b))) by (intros Hp; pose proof (bi_pool _ R1 _ Hp); congruence).
    assert (Hnc : ~ In (h_loc h) (map n_loc (bca b))).
    { intros Hin. apply in_map_iff in Hin. destruct Hin as (m & Em & Hm). pose proof (bi_cache _ R1 m Hm) as Hc. rewrite Em in Hc. congruence. }
    pose proof (bpool_put_spec c b (h_loc h) R1 Lt Hnp Hnc) as (I2 & C2 & L2 & K2 & _ & _ & _).
    constructor; auto.
    + intros h' Hh Ek'. eapply tags_kept_at; eauto. cbv beta. intros E. apply Fn. apply own_locs_in. exists h'. auto.
    + intros h' Hh. specialize (R4 h' Hh). unfold handle_ok_b in *. destruct (h_kind h'); auto. rewrite C2. auto.
    + intros x o Hk. destruct (R5 x o Hk) as [Hx Hc]. split; auto. eapply tags_kept_at; eauto. cbv beta. intros E. subst x.
      rewrite Ft in Hx. inversion Hx; subst; discriminate.
Qed.

(* a new allocation with a claim *)
Lemma RInv_alloc c b H K x o : RInv c b H K -> claim_ok o = true ->
  RInv c (fst (bm_alloc b x o)) H ((length (bh b), o) :: K).
Proof.
  intros [R1 R2 R3 R4 R5 R6] Ho.
  destruct (bm_alloc_spec b x o) as (El & Elen & Et & Ec & Ep & Eca & Hold).
  constructor; [apply BInv_alloc; auto| |exact R3| | |exact R6].
  - intros h Hh Ek. destruct (Hold (h_loc h) (tag_lt _ _ _ (R2 h Hh Ek))) as [-> _]. auto.
  - intros h Hh. specialize (R4 h Hh). unfold handle_ok_b in *. destruct (h_kind h); auto.
  - intros l o' [E|Hk].
    + inversion E; subst. split; auto.
    + destruct (R5 l o' Hk) as [Ht Hc]. split; auto. destruct (Hold l (tag_lt _ _ _ Ht)) as [-> _]. auto.
Qed.

(* contents only *)
Lemma RInv_hset c b H K l x : RInv c b H K -> RInv c (bm_hp b (hset (bh b) l x)) H K.
Proof.
  intros [R1 R2 R3 R4 R5 R6]. constructor; [apply BInv_hset; auto| |exact R3|exact R4| |exact R6].
  - intros h Hh Ek. unfold tag. cbn [bh bm_hp]. rewrite hown_hset. apply R2; auto.
  - intros l' o Hk. unfold tag. cbn [bh bm_hp]. rewrite hown_hset. apply R5; auto.
Qed.

(* a private buffer nobody of H holds becomes the client's (find's slice of an unpooled, uncached block) *)
Lemma RInv_handover c b H K l : RInv c b H K -> tag b l = Some (DB KBlock) -> ~ In l (own_locs H) ->
  RInv c (bm_hp b (hchown (bh b) l Client)) H ((l, Client) :: K).
Proof.
  intros [R1 R2 R3 R4 R5 R6] Ht Hn. pose proof R1 as [B1 B2 B3 B4].
  assert (Lt : l < length (bh b)) by (eapply tag_lt; eauto).
  constructor; [ | |exact R3|exact R4| |exact R6].
  - constructor; cbn [bh bpl bca bm_hp]; auto.
    + intros x Hx. unfold tag. cbn [bh bm_hp]. rewrite hown_hchown_other; [apply B1; auto|]. intros <-. specialize (B1 _ Hx). congruence.
    + intros n Hn'. unfold tag. cbn [bh bm_hp]. rewrite hown_hchown_other; [apply B2; auto|]. intros E. specialize (B2 _ Hn'). rewrite <- E in B2. congruence.
  - intros h Hh Ek. unfold tag. cbn [bh bm_hp]. rewrite hown_hchown_other; [apply R2; auto|].
    intros E. apply Hn. apply own_locs_in. exists h. auto.
  - intros l' o [E|Hk].
    + inversion E; subst. split; auto. unfold tag. cbn [bh bm_hp]. apply hown_hchown_same. auto.
    + destruct (R5 l' o Hk) as [Hx Hc]. split; auto. unfold tag. cbn [bh bm_hp]. rewrite hown_hchown_other; auto.
      intros <-. rewrite Ht in Hx. inversion Hx; subst. discriminate.
Qed.

(* the pool forgets slices *)
Lemma RInv_pool_shrinks c b H K p' r : RInv c b H K -> pool_shrinks (bpl b) p' r -> RInv c (bm_pool b p') H K.
Proof.
  intros [R1 R2 R3 R4 R5 R6] S. pose proof R1 as [B1 B2 B3 B4].
  destruct (shrinks_nodup _ _ _ S B3) as (N' & _ & _ & Hsub & _).
  constructor; [|exact R2|exact R3|exact R4|exact R5|exact R6].
  constructor; cbn [bh bpl bca bm_pool]; auto. intros x Hx. apply (B1 x). auto.
Qed.

(* a cache node changes its LRU flag *)
Lemma RInv_set_lru c b H K k n f : RInv c b H K -> nth_error (bca b) k = Some n ->
  RInv c (bm_cache b (replace_nth k (bca b) (set_lru n f))) H K.
Proof.
  intros [R1 R2 R3 R4 R5 R6] Hk. pose proof R1 as [B1 B2 B3 B4].
  assert (Hrep : forall (l : list cnode) k, nth_error l k = Some n ->
            map n_loc (replace_nth k l (set_lru n f)) = map n_loc l /\
            (forall m, In m (replace_nth k l (set_lru n f)) -> m = set_lru n f \/ In m l) /\
            (forall m, In m l -> exists m', In m' (replace_nth k l (set_lru n f)) /\ same_node m m')).
  { induction l as [|y l IH]; intros [|k0] E; simpl in *; try discriminate.
    - inversion E; subst. repeat split; auto.
      + intros m [E0|Hm]; auto.
      + intros m [E0|Hm]; [subst m; exists (set_lru n f); split; [left; auto|repeat split]
                          |exists m; split; [right; auto|apply same_node_refl]].
    - destruct (IH k0 E) as (E1 & E2 & E3). repeat split.
      + f_equal. auto.
      + intros m [E0|Hm]; auto. destruct (E2 m Hm); auto.
      + intros m [E0|Hm]; [subst m; exists y; split; [left; auto|apply same_node_refl]|].
        destruct (E3 m Hm) as (m' & Hm' & S). exists m'. split; [right; auto|auto]. }
  destruct (Hrep _ _ Hk) as (E1 & E2 & E3).
  constructor; [|exact R2|exact R3| |exact R5|exact R6].
  - constructor; cbn [bh bpl bca bm_cache]; auto.
    + intros m Hm. destruct (E2 m Hm) as [->|Hm']; [|apply B2; auto]. cbn [n_loc set_lru]. apply B2. eapply nth_error_In; eauto.
    + rewrite E1. auto.
  - intros h Hh. specialize (R4 h Hh). unfold handle_ok_b in *. destruct (h_kind h); auto.
    destruct R4 as (m & Hm & A1 & A2 & A3). destruct (E3 m Hm) as (m' & Hm' & (S1 & S2 & S3)).
    exists m'. cbn [bca bm_cache]. repeat split; auto; congruence.
Qed.

(* ================================================================ the state level *)

Definition iter_claims (it : xiter) : list (loc * owner) := [(xi_kbuf it, DB KIter); (xi_vbuf it, DB KIter)].

Definition claims (s : xstate) : list (loc * owner) :=
  map (fun r => (rloc r, Client)) (xcvis s)
  ++ [(mkv (xmem s), DB KMem)]
  ++ match xtxn s with Some t => [(mkv (tmem t), DB KMem)] | None => [] end
  ++ flat_map iter_claims (xiters s).

Definition iter_bufs (s : xstate) : list loc := flat_map iter_buf_locs (xiters s).

(* the read paths copy as the code does; the iterator paths are left free (for the refutations) *)
Definition get_modes_fixed (md : xmodes) : Prop :=
  forall k c, md (XPGetMem k) c = Copy /\ md (XPGetTable k) c = xfixed (XPGetTable k) c.

Record XInv (c : config) (s : xstate) : Prop := {
  xv_r : RInv c (xbm s) (all_holds s) (claims s);
  xv_nd : NoDup (iter_bufs s)
}.

Lemma hold_fits_perm c b H H' h : Permutation H H' -> hold_fits c b H h -> hold_fits c b H' h.
Proof.
  intros P. unfold hold_fits. destruct (h_kind h); auto. intros [Ht Hn]. split; auto. intros Hin. apply Hn.
  eapply Permutation_in; [symmetry; apply own_locs_perm; eauto|auto].
Qed.

Lemma split_nth {A} (l : list A) : forall i x, nth_error l i = Some x ->
  exists P Q, l = P ++ x :: Q /\ forall y, replace_nth i l y = P ++ y :: Q.
Proof.
  induction l as [|a l IH]; intros [|i] x H; simpl in *; try discriminate.
  - inversion H; subst. exists [], l. split; auto.
  - destruct (IH i x H) as (P & Q & E1 & E2). exists (a :: P), Q. split; [simpl; f_equal; auto|].
    intros y. simpl. f_equal. auto.
Qed.

Lemma holds_iter s i it : get_iter s i = Some it ->
  exists R, Permutation (all_holds s) (xi_held it ++ R) /\
            forall it', Permutation (all_holds (put_iter s i it')) (xi_held it' ++ R).
Proof.
  unfold get_iter. intros H. destruct (split_nth _ _ _ H) as (P & Q & E1 & E2).
  exists (flat_map xi_held P ++ flat_map xi_held Q ++ flat_map (fun cl => ohold_list (c_hold cl)) (xcalls s)). split.
  - unfold all_holds. rewrite E1. rewrite flat_map_app. simpl. rewrite <- !app_assoc. apply Permutation_app_swap_app.
  - intros it'. unfold all_holds, put_iter. cbn [xiters xcalls xset_iters]. rewrite E2. rewrite flat_map_app. simpl.
    rewrite <- !app_assoc. apply Permutation_app_swap_app.
Qed.

Lemma holds_call s j cl : nth_error (xcalls s) j = Some cl ->
  exists R, Permutation (all_holds s) (ohold_list (c_hold cl) ++ R) /\
            forall cl', Permutation (all_holds (xset_calls s (replace_nth j (xcalls s) cl'))) (ohold_list (c_hold cl') ++ R).
Proof.
  intros H. destruct (split_nth _ _ _ H) as (P & Q & E1 & E2).
  set (f := fun cl => ohold_list (c_hold cl)).
  exists (flat_map xi_held (xiters s) ++ flat_map f P ++ flat_map f Q). split.
  - unfold all_holds. fold f. rewrite E1. rewrite flat_map_app. simpl. fold (f cl).
    rewrite (app_assoc (flat_map xi_held (xiters s))). rewrite (app_assoc (flat_map xi_held (xiters s)) (flat_map f P) (flat_map f Q)).
    apply Permutation_app_swap_app.
  - intros cl'. unfold all_holds. cbn [xiters xcalls xset_calls]. fold f. rewrite E2. rewrite flat_map_app. simpl. fold (f cl').
    rewrite (app_assoc (flat_map xi_held (xiters s))). rewrite (app_assoc (flat_map xi_held (xiters s)) (flat_map f P) (flat_map f Q)).
    apply Permutation_app_swap_app.
Qed.

Lemma acquire_cache_kind c b tid bi ofb pk h : snd (acquire c b tid bi ofb pk) = Some h ->
  (h_kind h = HCache -> cache_on c = true) /\ (cache_on c = false -> h_kind h = HOwn).
Proof.
  unfold acquire. destruct ofb; cbn [snd]; [|discriminate]. destruct (cache_on c).
  - intros _. split; auto. discriminate.
  - destruct (read_raw c b f pk). cbn [snd]. intros E. inversion E; subst. cbn [h_kind]. split; auto. discriminate.
Qed.

Lemma held_anywhere_spec s l h : In h (all_holds s) -> is_cache_hold l h = true -> held_anywhere s l = true.
Proof. intros Hin Hc. unfold held_anywhere. apply existsb_exists. eauto. Qed.

(* a step of the buffer manager that leaves the records alone *)
Lemma XInv_set_bm c s b' : XInv c s -> RInv c b' (all_holds s) (claims s) -> XInv c (xset_bm s b').
Proof. intros [R N] R'. constructor; auto. Qed.

(* the contents of the iterators' buffers, except those in X, are the same in s' *)
Definition foot (s s' : xstate) (X : loc -> Prop) : Prop :=
  forall l, In l (iter_bufs s) -> ~ X l -> cont (xbm s') l = cont (xbm s) l.

Lemma iter_buf_tag c s l : XInv c s -> In l (iter_bufs s) -> tag (xbm s) l = Some (DB KIter).
Proof.
  intros [R N] Hin. unfold iter_bufs in Hin. apply in_flat_map in Hin. destruct Hin as (it & Hit & Hl).
  apply (r_claims _ _ _ _ R l (DB KIter)).
  unfold claims. apply in_or_app. right. apply in_or_app. right. apply in_or_app. right.
  apply in_flat_map. exists it. split; auto. unfold iter_claims. unfold iter_buf_locs in Hl. simpl in *.
  destruct Hl as [<-|[<-|[]]]; auto.
Qed.

Lemma foot_refl s X : foot s s X.
Proof. intros l _ _. reflexivity. Qed.

Lemma foot_trans s1 s2 s3 X : foot s1 s2 X -> foot s2 s3 X -> (forall l, In l (iter_bufs s1) -> In l (iter_bufs s2)) -> foot s1 s3 X.
Proof. intros F1 F2 Hsub l Hl Hn. rewrite F2; auto. Qed.

Lemma foot_weaken s s' (X Y : loc -> Prop) : foot s s' X -> (forall l, X l -> Y l) -> foot s s' Y.
Proof. intros F H l Hl Hn. apply F; auto. Qed.

(* a step of the buffer manager whose writes went to pooled or new locations *)
Lemma foot_pool c s b' X : XInv c s -> conts_kept (xbm s) b' (was_pool_or_new (xbm s)) -> foot s (xset_bm s b') X.
Proof.
  intros Xi Q l Hl _. cbn [xbm xset_bm]. pose proof (iter_buf_tag c s l Xi Hl) as Ht. apply Q; [eapply tag_lt; eauto|].
  eapply not_was_pool; eauto. discriminate.
Qed.

Lemma foot_none c s b' X : XInv c s -> conts_kept (xbm s) b' (fun _ => False) -> foot s (xset_bm s b') X.
Proof.
  intros Xi Q l Hl _. cbn [xbm xset_bm]. pose proof (iter_buf_tag c s l Xi Hl) as Ht. apply Q; [eapply tag_lt; eauto|auto].
Qed.

(* readBlockCached by somebody who will store the hold *)
Lemma XInv_acquire c s tid bi pk : XInv c s ->
  let s' := fst (xacquire c s tid bi pk) in
  XInv c s' /\ foot s s' (fun _ => False) /\
  match snd (xacquire c s tid bi pk) with
  | Some h => hold_fits c (xbm s') (all_holds s) h /\ h_tid h = tid /\ h_bi h = bi
  | None => True
  end.
Proof.
  intros X. pose proof X as [R N]. unfold xacquire. cbn [fst snd].
  pose proof (acquire_spec c (xbm s) tid bi (xfile_block s tid bi) pk (r_bm _ _ _ _ R)) as (I' & T & Q & Nf & _ & _ & Hh).
  assert (R' : RInv c (fst (acquire c (xbm s) tid bi (xfile_block s tid bi) pk)) (all_holds s) (claims s)).
  { eapply RInv_kept; eauto. }
  split; [apply XInv_set_bm; auto|]. split; [eapply foot_pool; eauto|].
  destruct (snd (acquire c (xbm s) tid bi (xfile_block s tid bi) pk)) as [h|] eqn:Eh; auto.
  destruct Hh as (Et & Eb & Hk & _). split; auto. cbn [xbm xset_bm].
  destruct (acquire_cache_kind _ _ _ _ _ _ _ Eh) as [Hc _].
  unfold hold_fits. destruct (h_kind h) eqn:Ek.
  - split; auto. unfold handle_ok_b. rewrite Ek. destruct Hk as (n & Hn & E1 & E2 & E3). exists n. repeat split; auto; congruence.
  - destruct Hk as (Ht & _ & Hw & _). split; auto. intros Hin. apply own_locs_in in Hin. destruct Hin as (h' & Hh' & Ek' & El).
    pose proof (r_own _ _ _ _ R h' Hh' Ek') as Ht'. rewrite El in Ht'.
    eapply not_was_pool; eauto. discriminate.
Qed.

Lemma XInv_release c s h : XInv c s -> hold_fits c (xbm s) (all_holds s) h -> XInv c (xrelease c s h).
Proof.
  intros [R N] F. unfold xrelease. apply XInv_set_bm; [constructor; auto|].
  apply RInv_release; auto. intros h' Hh Hc. eapply held_anywhere_spec; eauto.
Qed.

Lemma foot_release c s h X : XInv c s -> hold_fits c (xbm s) (all_holds s) h -> foot s (xrelease c s h) X.
Proof.
  intros Xi F. unfold xrelease. eapply foot_none; eauto.
  assert (Ho : h_kind h = HOwn -> tag (xbm s) (h_loc h) = Some (DB KBlock)).
  { intros E. unfold hold_fits in F. rewrite E in F. apply F. }
  destruct Xi as [R _].
  apply (release_hold_spec c (xbm s) (held_anywhere s) h (r_bm _ _ _ _ R) Ho).
Qed.

Lemma xacquire_frame c s tid bi pk :
  let s' := fst (xacquire c s tid bi pk) in
  xiters s' = xiters s /\ xcalls s' = xcalls s /\ xcvis s' = xcvis s /\ xmem s' = xmem s /\ xtxn s' = xtxn s /\
  xfiles s' = xfiles s /\ xlive s' = xlive s /\ xseq s' = xseq s /\ xsnaps s' = xsnaps s.
Proof. unfold xacquire. cbn. repeat split. Qed.

Lemma xrelease_frame c s h :
  let s' := xrelease c s h in
  xiters s' = xiters s /\ xcalls s' = xcalls s /\ xcvis s' = xcvis s /\ xmem s' = xmem s /\ xtxn s' = xtxn s /\
  xfiles s' = xfiles s /\ xlive s' = xlive s /\ xseq s' = xseq s /\ xsnaps s' = xsnaps s.
Proof. unfold xrelease. cbn. repeat split. Qed.

Lemma iter_bufs_eq s s' : xiters s' = xiters s -> iter_bufs s' = iter_bufs s.
Proof. unfold iter_bufs. intros ->. reflexivity. Qed.

Lemma XInv_touch c : forall ex s, XInv c s -> XInv c (touch_blocks c s ex) /\
  xiters (touch_blocks c s ex) = xiters s /\ xcalls (touch_blocks c s ex) = xcalls s /\ xcvis (touch_blocks c s ex) = xcvis s /\
  xmem (touch_blocks c s ex) = xmem s /\ xtxn (touch_blocks c s ex) = xtxn s /\ xfiles (touch_blocks c s ex) = xfiles s /\
  xlive (touch_blocks c s ex) = xlive s /\ xseq (touch_blocks c s ex) = xseq s /\ xsnaps (touch_blocks c s ex) = xsnaps s /\
  foot s (touch_blocks c s ex) (fun _ => False).
Proof.
  induction ex as [|[[tid [bi|]] pk] ex IH]; intros s X; cbn [touch_blocks].
  - split; [exact X|repeat split].
  - destruct (xacquire c s tid bi pk) as [s1 oh] eqn:Ea.
    pose proof (XInv_acquire c s tid bi pk X) as A. pose proof (xacquire_frame c s tid bi pk) as F.
    rewrite Ea in A, F. cbn [fst snd] in A, F. destruct A as (X1 & Ft1 & Hh).
    destruct F as (F1 & F2 & F3 & F4 & F5 & F6 & F7 & F8 & F9).
    destruct oh as [h|].
    + destruct Hh as [Fit _].
      assert (Eh : all_holds s1 = all_holds s) by (unfold all_holds; rewrite F1, F2; auto).
      assert (Fit1 : hold_fits c (xbm s1) (all_holds s1) h) by (rewrite Eh; auto).
      assert (X2 : XInv c (xrelease c s1 h)) by (apply XInv_release; auto).
      pose proof (foot_release c s1 h (fun _ => False) X1 Fit1) as Ft2.
      destruct (IH _ X2) as (X3 & G1 & G2 & G3 & G4 & G5 & G6 & G7 & G8 & G9 & Ft3).
      destruct (xrelease_frame c s1 h) as (H1 & H2 & H3 & H4 & H5 & H6 & H7 & H8 & H9).
      split; [exact X3|]. repeat split; try congruence.
      eapply foot_trans; [eapply foot_trans; [exact Ft1|exact Ft2|]|exact Ft3|].
      * intros l Hl. rewrite (iter_bufs_eq s s1 F1). auto.
      * intros l Hl. rewrite (iter_bufs_eq s1 (xrelease c s1 h) H1), (iter_bufs_eq s s1 F1). auto.
    + destruct (IH _ X1) as (X3 & G1 & G2 & G3 & G4 & G5 & G6 & G7 & G8 & G9 & Ft3). split; [exact X3|]. repeat split; try congruence.
      eapply foot_trans; [exact Ft1|exact Ft3|]. intros l Hl. rewrite (iter_bufs_eq s s1 F1). auto.
  - apply IH. auto.
Qed.

(* ---------------------------------------------------------------- iterator records *)

Lemma flat_map_replace_same {A B} (f : A -> list B) (l : list A) : forall i x y,
  nth_error l i = Some x -> f y = f x -> flat_map f (replace_nth i l y) = flat_map f l.
Proof.
  induction l as [|a l IH]; intros [|i] x y H E; simpl in *; try discriminate.
  - inversion H; subst. rewrite E. reflexivity.
  - f_equal. eauto.
Qed.

Lemma put_iter_claims s i it it' : get_iter s i = Some it -> xi_kbuf it' = xi_kbuf it -> xi_vbuf it' = xi_vbuf it ->
  claims (put_iter s i it') = claims s /\ iter_bufs (put_iter s i it') = iter_bufs s.
Proof.
  intros H Ek Ev. unfold claims, iter_bufs, put_iter. cbn [xcvis xmem xtxn xiters xset_iters]. split.
  - rewrite (flat_map_replace_same iter_claims _ _ _ _ H); auto. unfold iter_claims. rewrite Ek, Ev. reflexivity.
  - apply (flat_map_replace_same iter_buf_locs _ _ _ _ H). unfold iter_buf_locs. rewrite Ek, Ev. reflexivity.
Qed.

Lemma drop_tid_perm hs tid h : hold_of_tid hs tid = Some h -> Permutation hs (h :: drop_tid hs tid) /\ h_tid h = tid.
Proof.
  unfold hold_of_tid. induction hs as [|a hs IH]; simpl; [discriminate|].
  destruct (Nat.eqb (h_tid a) tid) eqn:E.
  - intros H. inversion H; subst. apply Nat.eqb_eq in E. split; auto.
  - intros H. destruct (IH H) as [P Et]. split; auto. rewrite P at 1. apply perm_swap.
Qed.

Lemma get_put_iter s i it it' : get_iter s i = Some it -> get_iter (put_iter s i it') i = Some it'.
Proof.
  unfold get_iter, put_iter. cbn [xiters xset_iters]. generalize (xiters s). intros l. revert i.
  induction l as [|a l IH]; intros [|i] H; simpl in *; try discriminate; auto.
Qed.

Lemma get_put_iter_other s i j it' : i <> j -> get_iter (put_iter s i it') j = get_iter s j.
Proof.
  unfold get_iter, put_iter. cbn [xiters xset_iters]. generalize (xiters s). intros l. revert i j.
  induction l as [|a l IH]; intros [|i] [|j] H; simpl in *; auto; try congruence.
Qed.

(* the records of the iterators other than i are the same, and i keeps its buffers *)
Definition iters_kept (i : nat) (s s' : xstate) : Prop :=
  length (xiters s') = length (xiters s) /\
  (forall j, j <> i -> get_iter s' j = get_iter s j) /\
  (forall it, get_iter s i = Some it -> exists it', get_iter s' i = Some it' /\ xi_kbuf it' = xi_kbuf it /\ xi_vbuf it' = xi_vbuf it
                                                  /\ xi_srcs it' = xi_srcs it /\ xi_kind it' = xi_kind it /\ xi_live it' = xi_live it
                                                  /\ xi_pos it' = xi_pos it /\ xi_exk it' = xi_exk it /\ xi_exv it' = xi_exv it).

(* everything but the buffer manager and the iterator records *)
Definition rest_kept (s s' : xstate) : Prop :=
  xcalls s' = xcalls s /\ xcvis s' = xcvis s /\ xmem s' = xmem s /\ xtxn s' = xtxn s /\
  xfiles s' = xfiles s /\ xlive s' = xlive s /\ xseq s' = xseq s /\ xsnaps s' = xsnaps s.

Lemma rest_kept_refl s : rest_kept s s.
Proof. repeat split. Qed.

Lemma rest_kept_trans s1 s2 s3 : rest_kept s1 s2 -> rest_kept s2 s3 -> rest_kept s1 s3.
Proof.
  intros (A1 & A2 & A3 & A4 & A5 & A6 & A7 & A8) (B1 & B2 & B3 & B4 & B5 & B6 & B7 & B8). repeat split; congruence.
Qed.

Lemma replace_nth_length {A} (l : list A) : forall i x, length (replace_nth i l x) = length l.
Proof. induction l; intros [|i] x; simpl; auto. Qed.

(* the table child tid of iterator i lets its block go *)
Lemma XInv_child_drop c s i tid : XInv c s -> XInv c (child_drop c s i tid) /\ rest_kept s (child_drop c s i tid) /\
  foot s (child_drop c s i tid) (fun _ => False) /\
  length (xiters (child_drop c s i tid)) = length (xiters s) /\
  (forall j, j <> i -> get_iter (child_drop c s i tid) j = get_iter s j) /\
  (forall it, get_iter s i = Some it ->
     get_iter (child_drop c s i tid) i = Some (it_set_held it (match hold_of_tid (xi_held it) tid with Some _ => drop_tid (xi_held it) tid | None => xi_held it end))).
Proof.
  intros X. unfold child_drop. destruct (get_iter s i) as [it|] eqn:Ei.
  2:{ split; auto. split; [apply rest_kept_refl|]. split; [apply foot_refl|]. split; auto. split; auto. intros it H. discriminate. }
  destruct (hold_of_tid (xi_held it) tid) as [h|] eqn:Eh.
  2:{ split; auto. split; [apply rest_kept_refl|]. split; [apply foot_refl|]. split; auto. split; auto. intros it0 H. inversion H; subst it0. rewrite Eh.
      rewrite Ei. f_equal. destruct it; reflexivity. }
  set (it1 := it_set_held it (drop_tid (xi_held it) tid)). set (s1 := put_iter s i it1).
  destruct (holds_iter s i it Ei) as (R & P0 & P1). specialize (P1 it1). fold s1 in P1. cbn [xi_held it1 it_set_held] in P1.
  destruct (drop_tid_perm _ _ _ Eh) as [Pd _].
  destruct (put_iter_claims s i it it1 Ei eq_refl eq_refl) as [Ec Eb]. fold s1 in Ec, Eb.
  pose proof X as [Rv Nd].
  assert (R1 : RInv c (xbm s) (h :: drop_tid (xi_held it) tid ++ R) (claims s)).
  { eapply RInv_perm; [|exact Rv]. rewrite P0. rewrite Pd at 1. reflexivity. }
  destruct (RInv_tail _ _ _ _ _ R1) as [R2 F2].
  assert (X1 : XInv c s1).
  { constructor; [|rewrite Eb; auto]. rewrite Ec. change (xbm s1) with (xbm s). eapply RInv_perm; [symmetry; exact P1|exact R2]. }
  assert (F1 : hold_fits c (xbm s1) (all_holds s1) h).
  { change (xbm s1) with (xbm s). eapply hold_fits_perm; [symmetry; exact P1|exact F2]. }
  split; [apply XInv_release; auto|]. split; [repeat split|].
  split.
  { intros l Hl Hn. rewrite (foot_release c s1 h (fun _ => False) X1 F1 l); auto. rewrite Eb. auto. }
  split; [unfold xrelease, s1, put_iter; cbn; apply replace_nth_length|].
  split.
  - intros j Hj. unfold xrelease. change (get_iter (xset_bm s1 (release_hold c (xbm s1) (held_anywhere s1) h)) j) with (get_iter s1 j).
    apply get_put_iter_other. auto.
  - intros it0 H. inversion H; subst it0.
    change (get_iter (xrelease c s1 h) i) with (get_iter s1 i). unfold s1. erewrite get_put_iter; eauto.
    rewrite Eh. reflexivity.
Qed.

Definition same_but_held (it it' : xiter) : Prop :=
  xi_kbuf it' = xi_kbuf it /\ xi_vbuf it' = xi_vbuf it /\ xi_srcs it' = xi_srcs it /\ xi_kind it' = xi_kind it /\
  xi_live it' = xi_live it /\ xi_pos it' = xi_pos it /\ xi_exk it' = xi_exk it /\ xi_exv it' = xi_exv it.

Definition iters_frame (i : nat) (s s' : xstate) : Prop :=
  length (xiters s') = length (xiters s) /\
  (forall j, j <> i -> get_iter s' j = get_iter s j) /\
  (forall it, get_iter s i = Some it -> exists it', get_iter s' i = Some it' /\ same_but_held it it') /\
  (get_iter s i = None -> get_iter s' i = None).

Lemma same_but_held_refl it : same_but_held it it.
Proof. repeat split. Qed.

Lemma same_but_held_trans a b c : same_but_held a b -> same_but_held b c -> same_but_held a c.
Proof.
  intros (A1 & A2 & A3 & A4 & A5 & A6 & A7 & A8) (B1 & B2 & B3 & B4 & B5 & B6 & B7 & B8). repeat split; congruence.
Qed.

Lemma iters_frame_refl i s : iters_frame i s s.
Proof. repeat split; auto. intros it H. exists it. split; auto. apply same_but_held_refl. Qed.

Lemma iters_frame_trans i s1 s2 s3 : iters_frame i s1 s2 -> iters_frame i s2 s3 -> iters_frame i s1 s3.
Proof.
  intros (A1 & A2 & A3 & A4) (B1 & B2 & B3 & B4). split; [congruence|]. split; [intros j Hj; rewrite B2, A2; auto|]. split.
  - intros it H. destruct (A3 it H) as (it' & H' & S1). destruct (B3 it' H') as (it'' & H'' & S2).
    exists it''. split; auto. eapply same_but_held_trans; eauto.
  - intros H. auto.
Qed.


Definition same_bufs (it it' : xiter) : Prop :=
  xi_kbuf it' = xi_kbuf it /\ xi_vbuf it' = xi_vbuf it /\ xi_srcs it' = xi_srcs it /\ xi_kind it' = xi_kind it.

Definition iters_loose (i : nat) (s s' : xstate) : Prop :=
  length (xiters s') = length (xiters s) /\
  (forall j, j <> i -> get_iter s' j = get_iter s j) /\
  (forall it, get_iter s i = Some it -> exists it', get_iter s' i = Some it' /\ same_bufs it it') /\
  (get_iter s i = None -> get_iter s' i = None).

Lemma iters_frame_loose i s s' : iters_frame i s s' -> iters_loose i s s'.
Proof.
  intros (A1 & A2 & A3 & A4). split; auto. split; auto. split; auto.
  intros it H. destruct (A3 it H) as (it' & H' & (B1 & B2 & B3 & B4 & _)). exists it'. split; auto. repeat split; auto.
Qed.

Lemma iters_loose_refl i s : iters_loose i s s.
Proof. apply iters_frame_loose. apply iters_frame_refl. Qed.

Lemma iters_loose_trans i s1 s2 s3 : iters_loose i s1 s2 -> iters_loose i s2 s3 -> iters_loose i s1 s3.
Proof.
  intros (A1 & A2 & A3 & A4) (B1 & B2 & B3 & B4). split; [congruence|]. split; [intros j Hj; rewrite B2, A2; auto|]. split.
  - intros it H. destruct (A3 it H) as (it' & H' & (S1 & S2 & S3 & S4)). destruct (B3 it' H') as (it'' & H'' & (T1 & T2 & T3 & T4)).
    exists it''. split; auto. repeat split; congruence.
  - auto.
Qed.

Lemma map_nth_ext {A B} (f : A -> B) : forall l l', length l = length l' ->
  (forall j, option_map f (nth_error l j) = option_map f (nth_error l' j)) -> map f l = map f l'.
Proof.
  induction l as [|a l IH]; intros [|a' l'] L H; simpl in *; try discriminate; auto.
  pose proof (H 0) as H0. simpl in H0. inversion H0. f_equal. apply IH; [lia|]. intros j. apply (H (S j)).
Qed.

Lemma iters_loose_bufs i s s' : iters_loose i s s' -> iter_bufs s' = iter_bufs s.
Proof.
  intros (L & O & Si & Sn). unfold iter_bufs. rewrite !flat_map_concat_map. f_equal.
  apply map_nth_ext; auto. intros j. destruct (Nat.eq_dec j i) as [->|Hj].
  - unfold get_iter in *. destruct (nth_error (xiters s) i) as [it|] eqn:E.
    + destruct (Si it eq_refl) as (it' & E' & (B1 & B2 & _)). rewrite E'. simpl. unfold iter_buf_locs. rewrite B1, B2. reflexivity.
    + rewrite (Sn eq_refl). reflexivity.
  - unfold get_iter in O. rewrite (O j Hj). reflexivity.
Qed.

Lemma child_drop_frame c s i tid : XInv c s -> iters_frame i s (child_drop c s i tid).
Proof.
  intros X. destruct (XInv_child_drop c s i tid X) as (_ & _ & _ & L & O & Si). split; auto. split; auto. split.
  - intros it H. eexists. split; [apply (Si it H)|]. repeat split.
  - intros H. unfold child_drop. rewrite H. auto.
Qed.

(* adding a hold to iterator i *)
Lemma XInv_add_hold c s i it h : XInv c s -> get_iter s i = Some it -> hold_fits c (xbm s) (all_holds s) h ->
  XInv c (put_iter s i (it_set_held it (h :: xi_held it))).
Proof.
  intros [R N] Ei F. destruct (holds_iter s i it Ei) as (Rr & P0 & P1).
  specialize (P1 (it_set_held it (h :: xi_held it))). cbn [xi_held it_set_held] in P1.
  destruct (put_iter_claims s i it (it_set_held it (h :: xi_held it)) Ei eq_refl eq_refl) as [Ec Eb].
  constructor; [|rewrite Eb; auto]. rewrite Ec.
  change (xbm (put_iter s i (it_set_held it (h :: xi_held it)))) with (xbm s).
  eapply RInv_perm; [symmetry; exact P1|]. simpl. apply RInv_add.
  - eapply RInv_perm; [exact P0|exact R].
  - eapply hold_fits_perm; [exact P0|exact F].
Qed.

Lemma put_iter_frame s i it it' : get_iter s i = Some it -> same_but_held it it' -> iters_frame i s (put_iter s i it').
Proof.
  intros Ei S. split; [unfold put_iter; cbn; apply replace_nth_length|]. split; [intros j Hj; apply get_put_iter_other; auto|]. split.
  - intros it0 H. rewrite Ei in H. inversion H; subst. exists it'. split; auto. eapply get_put_iter; eauto.
  - intros H. congruence.
Qed.

(* acquire for iterator i, then store the hold *)
Lemma XInv_acquire_store c s i tid bi pk : XInv c s ->
  let r := xacquire c s tid bi pk in
  let s' := match get_iter (fst r) i, snd r with
            | Some it2, Some h2 => put_iter (fst r) i (it_set_held it2 (h2 :: xi_held it2))
            | _, _ => fst r
            end in
  XInv c s' /\ rest_kept s s' /\ iters_frame i s s' /\ foot s s' (fun _ => False).
Proof.
  intros X. cbv zeta.
  pose proof (XInv_acquire c s tid bi pk X) as A. pose proof (xacquire_frame c s tid bi pk) as F.
  destruct (xacquire c s tid bi pk) as [s2 oh] eqn:Ea. cbn [fst snd] in *. destruct A as (X2 & Ft2 & Hh).
  destruct F as (F1 & F2 & F3 & F4 & F5 & F6 & F7 & F8 & F9).
  assert (Rk : rest_kept s s2) by (repeat split; auto).
  assert (If : iters_frame i s s2).
  { split; [congruence|]. unfold get_iter. rewrite F1. split; auto. split; auto. intros it H. exists it. split; auto. apply same_but_held_refl. }
  destruct (get_iter s2 i) as [it2|] eqn:Ei; [|auto]. destruct oh as [h2|]; [|auto].
  destruct Hh as [Fit _].
  assert (Eh : all_holds s2 = all_holds s) by (unfold all_holds; rewrite F1, F2; auto).
  split; [apply XInv_add_hold; auto; rewrite Eh; auto|]. split; [|split].
  - eapply rest_kept_trans; [exact Rk|]. repeat split.
  - eapply iters_frame_trans; [exact If|]. eapply put_iter_frame; eauto. repeat split.
  - exact Ft2.
Qed.

Lemma XInv_child_goto c s i tid bi pk : XInv c s ->
  XInv c (child_goto c s i tid bi pk) /\ rest_kept s (child_goto c s i tid bi pk) /\ iters_frame i s (child_goto c s i tid bi pk)
  /\ foot s (child_goto c s i tid bi pk) (fun _ => False).
Proof.
  intros X. unfold child_goto. destruct (get_iter s i) as [it|] eqn:Ei.
  2:{ split; auto. split; [apply rest_kept_refl|]. split; [apply iters_frame_refl|apply foot_refl]. }
  destruct (hold_of_tid (xi_held it) tid) as [h|] eqn:Eh.
  - destruct (Nat.eqb (h_bi h) bi).
    + split; auto. split; [apply rest_kept_refl|]. split; [apply iters_frame_refl|apply foot_refl].
    + destruct (XInv_child_drop c s i tid X) as (X1 & K1 & Ft1 & _).
      pose proof (child_drop_frame c s i tid X) as F1.
      pose proof (XInv_acquire_store c (child_drop c s i tid) i tid bi pk X1) as A. cbv zeta in A.
      destruct (xacquire c (child_drop c s i tid) tid bi pk) as [s2 oh]. cbn [fst snd] in A.
      destruct A as (X2 & K2 & F2 & Ft2). split; auto. split; [eapply rest_kept_trans; eauto|]. split; [eapply iters_frame_trans; eauto|].
      eapply foot_trans; eauto. intros l Hl. rewrite (iters_loose_bufs i _ _ (iters_frame_loose _ _ _ F1)). auto.
  - pose proof (XInv_acquire_store c s i tid bi pk X) as A. cbv zeta in A.
    destruct (xacquire c s tid bi pk) as [s2 oh]. cbn [fst snd] in A. exact A.
Qed.

Lemma XInv_children_move c i : forall ex s, XInv c s ->
  XInv c (children_move c s i ex) /\ rest_kept s (children_move c s i ex) /\ iters_frame i s (children_move c s i ex)
  /\ foot s (children_move c s i ex) (fun _ => False).
Proof.
  induction ex as [|[[tid [bi|]] pk] ex IH]; intros s X; cbn [children_move].
  - split; auto. split; [apply rest_kept_refl|]. split; [apply iters_frame_refl|apply foot_refl].
  - destruct (XInv_child_goto c s i tid bi pk X) as (X1 & K1 & F1 & Ft1). destruct (IH _ X1) as (X2 & K2 & F2 & Ft2).
    split; auto. split; [eapply rest_kept_trans; eauto|]. split; [eapply iters_frame_trans; eauto|].
    eapply foot_trans; eauto. intros l Hl. rewrite (iters_loose_bufs i _ _ (iters_frame_loose _ _ _ F1)). auto.
  - destruct (XInv_child_drop c s i tid X) as (X1 & K1 & Ft1 & _). pose proof (child_drop_frame c s i tid X) as F1.
    destruct (IH _ X1) as (X2 & K2 & F2 & Ft2).
    split; auto. split; [eapply rest_kept_trans; eauto|]. split; [eapply iters_frame_trans; eauto|].
    eapply foot_trans; eauto. intros l Hl. rewrite (iters_loose_bufs i _ _ (iters_frame_loose _ _ _ F1)). auto.
Qed.

(* ---------------------------------------------------------------- exposing, positions *)

Lemma XInv_hset c s l x : XInv c s -> XInv c (xset_hp s (hset (xhp s) l x)).
Proof. intros [R N]. unfold xset_hp. apply XInv_set_bm; [constructor; auto|]. apply RInv_hset. auto. Qed.

Lemma XInv_put_same_held c s i it it' : XInv c s -> get_iter s i = Some it ->
  xi_held it' = xi_held it -> xi_kbuf it' = xi_kbuf it -> xi_vbuf it' = xi_vbuf it -> XInv c (put_iter s i it').
Proof.
  intros [R N] Ei Eh Ek Ev. destruct (holds_iter s i it Ei) as (Rr & P0 & P1). specialize (P1 it'). rewrite Eh in P1.
  destruct (put_iter_claims s i it it' Ei Ek Ev) as [Ec Eb].
  constructor; [|rewrite Eb; auto]. rewrite Ec. change (xbm (put_iter s i it')) with (xbm s).
  eapply RInv_perm; [|exact R]. rewrite P1. exact P0.
Qed.

Lemma put_iter_loose s i it it' : get_iter s i = Some it -> same_bufs it it' -> iters_loose i s (put_iter s i it').
Proof.
  intros Ei S. split; [unfold put_iter; cbn; apply replace_nth_length|]. split; [intros j Hj; apply get_put_iter_other; auto|]. split.
  - intros it0 H. rewrite Ei in H. inversion H; subst. exists it'. split; auto. eapply get_put_iter; eauto.
  - intros H. congruence.
Qed.

Definition bufs_of (s : xstate) (i : nat) (l : loc) : Prop := exists it, get_iter s i = Some it /\ In l (iter_buf_locs it).

Lemma foot_hset s l x : foot s (xset_hp s (hset (xhp s) l x)) (fun y => y = l).
Proof. intros y _ Hn. unfold cont, xset_hp. cbn [xbm xset_bm bh bm_hp]. apply hget_hset_other. auto. Qed.

Lemma XInv_expose md c s i d kr vr : XInv c s ->
  XInv c (xexpose md c s i d kr vr) /\ rest_kept s (xexpose md c s i d kr vr) /\ iters_loose i s (xexpose md c s i d kr vr) /\
  foot s (xexpose md c s i d kr vr) (bufs_of s i) /\
  (forall it, get_iter s i = Some it -> exists it', get_iter (xexpose md c s i d kr vr) i = Some it' /\
        xi_held it' = xi_held it /\ xi_live it' = xi_live it /\ xi_pos it' = xi_pos it /\
        (md (XPIterKey (xi_kind it) d) c = Copy -> rloc (xi_exk it') = xi_kbuf it) /\
        (md (XPIterValue (xi_kind it) d) c = Copy -> rloc (xi_exv it') = xi_vbuf it)).
Proof.
  intros X. unfold xexpose. destruct (get_iter s i) as [it|] eqn:Ei.
  2:{ split; auto. split; [apply rest_kept_refl|]. split; [apply iters_loose_refl|]. split; [apply foot_refl|]. intros it H; discriminate. }
  set (r1 := match md (XPIterKey (xi_kind it) d) c with
             | Copy => (xset_hp s (hset (xhp s) (xi_kbuf it) (deref (xhp s) kr)), mkref (xi_kbuf it) 0 (length (deref (xhp s) kr)))
             | Slice => (s, kr) end).
  assert (A1 : XInv c (fst r1) /\ rest_kept s (fst r1) /\ xiters (fst r1) = xiters s /\ foot s (fst r1) (fun y => y = xi_kbuf it)).
  { unfold r1. destruct (md (XPIterKey (xi_kind it) d) c); cbn [fst].
    - split; [apply XInv_hset; auto|]. split; [repeat split|]. split; [reflexivity|apply foot_hset].
    - split; auto. split; [apply rest_kept_refl|]. split; [auto|apply foot_refl]. }
  pose (r1x := r1). assert (A1x : r1x = r1) by reflexivity. unfold r1 in r1x.
  destruct r1 as [s1 ek]. cbn [fst] in A1. destruct A1 as (X1 & K1 & E1 & Ft1).
  set (r2 := match md (XPIterValue (xi_kind it) d) c with
             | Copy => (xset_hp s1 (hset (xhp s1) (xi_vbuf it) (deref (xhp s) vr)), mkref (xi_vbuf it) 0 (length (deref (xhp s) vr)))
             | Slice => (s1, vr) end).
  assert (A2 : XInv c (fst r2) /\ rest_kept s1 (fst r2) /\ xiters (fst r2) = xiters s1 /\ foot s1 (fst r2) (fun y => y = xi_vbuf it)).
  { unfold r2. destruct (md (XPIterValue (xi_kind it) d) c); cbn [fst].
    - split; [apply XInv_hset; auto|]. split; [repeat split|]. split; [reflexivity|apply foot_hset].
    - split; auto. split; [apply rest_kept_refl|]. split; [auto|apply foot_refl]. }
  pose (r2x := r2). assert (A2x : r2x = r2) by reflexivity. unfold r2 in r2x.
  destruct r2 as [s2 ev]. cbn [fst] in A2. destruct A2 as (X2 & K2 & E2 & Ft2).
  assert (Ei2 : get_iter s2 i = Some it) by (unfold get_iter in *; rewrite E2, E1; auto).
  rewrite Ei2.
  split; [eapply XInv_put_same_held; eauto|].
  split; [eapply rest_kept_trans; [exact K1|]; eapply rest_kept_trans; [exact K2|]; repeat split|].
  assert (L0 : iters_loose i s s2).
  { split; [congruence|]. unfold get_iter. rewrite E2, E1. split; auto. split; auto. intros it0 H. exists it0. split; auto. repeat split. }
  split; [|split].
  - eapply iters_loose_trans; [exact L0|]. eapply put_iter_loose; eauto. repeat split.
  - intros l Hl Hn. change (cont (xbm (put_iter s2 i (it_set_ex it ek ev))) l) with (cont (xbm s2) l).
    assert (Nk : l <> xi_kbuf it) by (intros ->; apply Hn; exists it; split; auto; left; auto).
    assert (Nv : l <> xi_vbuf it) by (intros ->; apply Hn; exists it; split; auto; right; left; auto).
    rewrite Ft2; auto. rewrite (iter_bufs_eq s s1 E1). auto.
  - intros it0 H. inversion H; subst it0. eexists. split; [eapply get_put_iter; eauto|]. cbn [xi_held xi_live xi_pos xi_exk xi_exv it_set_ex].
    repeat split.
    + intros Em. revert A1x. unfold r1x. rewrite Em. intros A1x. inversion A1x; subst. reflexivity.
    + intros Em. revert A2x. unfold r2x. rewrite Em. intros A2x. inversion A2x; subst. reflexivity.
Qed.

Lemma foot_set_pos s i p X : foot s (set_pos_of s i p) X.
Proof. intros l _ _. unfold set_pos_of. destruct (get_iter s i); reflexivity. Qed.

Lemma XInv_set_pos c s i p : XInv c s -> XInv c (set_pos_of s i p) /\ rest_kept s (set_pos_of s i p) /\ iters_loose i s (set_pos_of s i p) /\
  (forall it, get_iter s i = Some it -> get_iter (set_pos_of s i p) i = Some (it_set_pos it p)).
Proof.
  intros X. unfold set_pos_of. destruct (get_iter s i) as [it|] eqn:Ei.
  2:{ split; auto. split; [apply rest_kept_refl|]. split; [apply iters_loose_refl|]. intros it H; discriminate. }
  split; [eapply XInv_put_same_held; eauto|]. split; [repeat split|]. split; [eapply put_iter_loose; eauto; repeat split|].
  intros it0 H. inversion H; subst. eapply get_put_iter; eauto.
Qed.

Lemma bufs_of_loose i s s' l : iters_loose i s s' -> bufs_of s' i l -> bufs_of s i l.
Proof.
  intros (L & O & Si & Sn) (it' & E' & Hl). destruct (get_iter s i) as [it|] eqn:E.
  - destruct (Si it eq_refl) as (it2 & E2 & (B1 & B2 & _)). rewrite E2 in E'. inversion E'; subst it2.
    exists it. split; auto. unfold iter_buf_locs in *. rewrite <- B1, <- B2. auto.
  - rewrite (Sn eq_refl) in E'. discriminate.
Qed.

Definition moved c i s s' : Prop := XInv c s' /\ rest_kept s s' /\ iters_loose i s s' /\ foot s s' (bufs_of s i).

Lemma moved_refl c i s : XInv c s -> moved c i s s.
Proof. intros X. split; auto. split; [apply rest_kept_refl|]. split; [apply iters_loose_refl|apply foot_refl]. Qed.

Lemma moved_trans c i s1 s2 s3 : moved c i s1 s2 -> moved c i s2 s3 -> moved c i s1 s3.
Proof.
  intros (X2 & K2 & L2 & F2) (X3 & K3 & L3 & F3). split; auto. split; [eapply rest_kept_trans; eauto|].
  split; [eapply iters_loose_trans; eauto|].
  eapply foot_trans; [exact F2| |intros l Hl; rewrite (iters_loose_bufs i _ _ L2); auto].
  eapply foot_weaken; [exact F3|]. intros l Hl. eapply bufs_of_loose; eauto.
Qed.

Lemma XInv_iter_move md c s i m ex pk : XInv c s -> moved c i s (fst (xiter_move md c s i m ex pk)).
Proof.
  intros X. unfold xiter_move.
  pose proof (moved_refl c i s X) as Same.
  destruct (get_iter s i) as [it|] eqn:Ei; [|exact Same].
  destruct (xi_live it); [|exact Same].
  destruct (land (xi_srcs it) (xi_pos it) m _) as [p|]; [|exact Same].
  destruct (XInv_children_move c i ex s X) as (X1 & K1 & F1 & Ft1). apply iters_frame_loose in F1.
  set (s1 := children_move c s i ex) in *.
  assert (M1 : moved c i s s1).
  { split; auto. split; auto. split; auto. eapply foot_weaken; [exact Ft1|]. intros l []. }
  assert (Pos : forall s2, moved c i s s2 -> moved c i s (set_pos_of s2 i p)).
  { intros s2 M2. eapply moved_trans; [exact M2|]. destruct M2 as (X2 & _).
    destruct (XInv_set_pos c s2 i p X2) as (X3 & K3 & L3 & _). split; auto. split; auto. split; auto. apply foot_set_pos. }
  assert (Exp : forall s2 d kr vr, moved c i s s2 -> moved c i s (set_pos_of (xexpose md c s2 i d kr vr) i p)).
  { intros s2 d kr vr M2. apply Pos. eapply moved_trans; [exact M2|]. destruct M2 as (X2 & _).
    destruct (XInv_expose md c s2 i d kr vr X2) as (X3 & K3 & L3 & F3 & _). split; auto. }
  destruct p as [|n|]; cbn [fst]; try (apply Pos; assumption).
  destruct (nth_error (xi_srcs it) n) as [[k [e|tid bi d]]|]; cbn [fst]; try (apply Pos; assumption).
  - apply Exp; auto.
  - destruct (XInv_child_goto c s1 i tid bi pk X1) as (X2 & K2 & F2 & Ft2). apply iters_frame_loose in F2.
    assert (M2 : moved c i s (child_goto c s1 i tid bi pk)).
    { eapply moved_trans; [exact M1|]. split; auto. split; auto. split; auto. eapply foot_weaken; [exact Ft2|]. intros l []. }
    destruct (get_iter (child_goto c s1 i tid bi pk) i) as [it2|]; cbn [fst]; [|exact M2].
    destruct (hold_of_tid (xi_held it2) tid); cbn [fst]; [apply Exp; auto|apply Pos; auto].
Qed.

Lemma XInv_iter_move2 md c s i m ex pk ex2 : XInv c s -> moved c i s (fst (xiter_move2 md c s i m ex pk ex2)).
Proof.
  intros X. unfold xiter_move2. cbn [fst]. pose proof (XInv_iter_move md c s i m ex pk X) as M.
  destruct (snd (xiter_move md c s i m ex pk)) as [[| |[|]|]|]; auto.
  eapply moved_trans; [exact M|]. destruct M as (X1 & _).
  destruct (XInv_children_move c i ex2 _ X1) as (X2 & K2 & F2 & Ft2). split; auto. split; auto.
  split; [apply iters_frame_loose; auto|]. eapply foot_weaken; [exact Ft2|]. intros l [].
Qed.

(* ---------------------------------------------------------------- releasing and creating iterators *)

Lemma RInv_app_r c b A R K : RInv c b (A ++ R) K -> RInv c b R K.
Proof. induction A; simpl; auto. intros H. apply IHA. apply (RInv_tail _ _ _ _ _ H). Qed.

Lemma XInv_release_all c i : forall fuel s, XInv c s ->
  XInv c (release_all c s i fuel) /\ rest_kept s (release_all c s i fuel) /\ iters_frame i s (release_all c s i fuel)
  /\ foot s (release_all c s i fuel) (fun _ => False).
Proof.
  induction fuel; intros s X; cbn [release_all].
  - split; auto. split; [apply rest_kept_refl|]. split; [apply iters_frame_refl|apply foot_refl].
  - assert (Same : XInv c s /\ rest_kept s s /\ iters_frame i s s /\ foot s s (fun _ => False))
      by (split; auto; split; [apply rest_kept_refl|]; split; [apply iters_frame_refl|apply foot_refl]).
    destruct (get_iter s i) as [it|]; [|exact Same]. destruct (xi_held it) as [|h hs]; [exact Same|].
    destruct (XInv_child_drop c s i (h_tid h) X) as (X1 & K1 & Ft1 & _). pose proof (child_drop_frame c s i (h_tid h) X) as F1.
    destruct (IHfuel _ X1) as (X2 & K2 & F2 & Ft2). split; auto. split; [eapply rest_kept_trans; eauto|].
    split; [eapply iters_frame_trans; eauto|].
    eapply foot_trans; eauto. intros l Hl. rewrite (iters_loose_bufs i _ _ (iters_frame_loose _ _ _ F1)). auto.
Qed.

Lemma XInv_kill c s i it : XInv c s -> get_iter s i = Some it -> XInv c (put_iter s i (it_kill it)).
Proof.
  intros [R N] Ei. destruct (holds_iter s i it Ei) as (Rr & P0 & P1). specialize (P1 (it_kill it)). cbn [xi_held it_kill] in P1.
  destruct (put_iter_claims s i it (it_kill it) Ei eq_refl eq_refl) as [Ec Eb].
  constructor; [|rewrite Eb; auto]. rewrite Ec. change (xbm (put_iter s i (it_kill it))) with (xbm s).
  eapply RInv_perm; [symmetry; exact P1|]. simpl. eapply RInv_app_r. eapply RInv_perm; [exact P0|exact R].
Qed.

Lemma XInv_iter_release c s i : XInv c s ->
  XInv c (xiter_release c s i) /\ rest_kept s (xiter_release c s i) /\ iters_loose i s (xiter_release c s i)
  /\ foot s (xiter_release c s i) (fun _ => False).
Proof.
  intros X. unfold xiter_release.
  assert (Same : XInv c s /\ rest_kept s s /\ iters_loose i s s /\ foot s s (fun _ => False))
    by (split; auto; split; [apply rest_kept_refl|]; split; [apply iters_loose_refl|apply foot_refl]).
  destruct (get_iter s i) as [it|] eqn:Ei; [|exact Same]. destruct (xi_live it); [|exact Same].
  destruct (XInv_release_all c i (length (xi_held it)) s X) as (X1 & K1 & F1 & Ft1).
  destruct (get_iter (release_all c s i (length (xi_held it))) i) as [it1|] eqn:E1.
  - split; [apply XInv_kill; auto|]. split; [eapply rest_kept_trans; [exact K1|repeat split]|].
    split; [eapply iters_loose_trans; [apply iters_frame_loose; exact F1|]; eapply put_iter_loose; eauto; repeat split|].
    intros l Hl Hn. apply Ft1; auto.
  - split; auto. split; auto. split; [apply iters_frame_loose; auto|auto].
Qed.

Lemma XInv_alloc_claim c s x o : XInv c s -> claim_ok o = true ->
  RInv c (xbm (fst (xalloc s x o))) (all_holds s) ((length (xhp s), o) :: claims s) /\ snd (xalloc s x o) = length (xhp s).
Proof.
  intros [R N] Ho. unfold xalloc. cbn [fst snd xbm xset_bm]. split; [apply RInv_alloc; auto|reflexivity].
Qed.

Lemma claims_lt c s l : XInv c s -> In l (iter_bufs s) -> l < length (xhp s).
Proof.
  intros [R N] Hin. unfold iter_bufs in Hin. apply in_flat_map in Hin. destruct Hin as (it & Hit & Hl).
  assert (Hc : In (l, DB KIter) (claims s)).
  { unfold claims. apply in_or_app. right. apply in_or_app. right. apply in_or_app. right.
    apply in_flat_map. exists it. split; auto. unfold iter_claims. unfold iter_buf_locs in Hl. simpl in *.
    destruct Hl as [<-|[<-|[]]]; auto. }
  destruct (r_claims _ _ _ _ R _ _ Hc) as [Ht _]. eapply tag_lt; eauto.
Qed.

Lemma XInv_new_iter c s a : XInv c s -> XInv c (xnew_iter s a) /\ rest_kept s (xnew_iter s a) /\
  xiters (xnew_iter s a) = xiters s ++ [{| xi_kind := kind_of a; xi_kbuf := length (xhp s); xi_vbuf := S (length (xhp s));
       xi_exk := mkref (length (xhp s)) 0 0; xi_exv := mkref (S (length (xhp s))) 0 0;
       xi_srcs := canon (view_srcs s a); xi_pos := PSOI; xi_held := []; xi_live := true |}].
Proof.
  intros X. pose proof X as [R N]. unfold xnew_iter.
  destruct (XInv_alloc_claim c s [] (DB KIter) X eq_refl) as [R1 E1].
  destruct (xalloc s [] (DB KIter)) as [s1 kb] eqn:Ea1. cbn [fst snd] in R1, E1. subst kb.
  assert (F1 : xiters s1 = xiters s /\ xcalls s1 = xcalls s /\ xcvis s1 = xcvis s /\ xmem s1 = xmem s /\ xtxn s1 = xtxn s
               /\ xfiles s1 = xfiles s /\ xlive s1 = xlive s /\ xseq s1 = xseq s /\ xsnaps s1 = xsnaps s
               /\ length (xhp s1) = S (length (xhp s))).
  { unfold xalloc in Ea1. inversion Ea1; subst. cbn. repeat split. unfold xhp. cbn. apply halloc_length. }
  destruct F1 as (A1 & A2 & A3 & A4 & A5 & A6 & A7 & A8 & A9 & A10).
  assert (Eh1 : all_holds s1 = all_holds s) by (unfold all_holds; rewrite A1, A2; auto).
  assert (R2 : RInv c (xbm (fst (xalloc s1 [] (DB KIter)))) (all_holds s) ((length (xhp s1), DB KIter) :: (length (xhp s), DB KIter) :: claims s)).
  { unfold xalloc. cbn [fst xbm xset_bm]. apply RInv_alloc; auto. }
  destruct (xalloc s1 [] (DB KIter)) as [s2 vb] eqn:Ea2. cbn [fst] in R2.
  assert (F2 : xiters s2 = xiters s1 /\ xcalls s2 = xcalls s1 /\ xcvis s2 = xcvis s1 /\ xmem s2 = xmem s1 /\ xtxn s2 = xtxn s1
               /\ xfiles s2 = xfiles s1 /\ xlive s2 = xlive s1 /\ xseq s2 = xseq s1 /\ xsnaps s2 = xsnaps s1 /\ vb = length (xhp s1)).
  { unfold xalloc in Ea2. inversion Ea2; subst. cbn. repeat split. }
  destruct F2 as (B1 & B2 & B3 & B4 & B5 & B6 & B7 & B8 & B9 & B10). subst vb. rewrite A10 in *.
  split; [|split; [repeat split; cbn; congruence|cbn [xiters xset_iters]; rewrite B1, A1; reflexivity]].
  constructor.
  - cbn [xbm xset_iters]. eapply RInv_perm; [|eapply RInv_claims_incl; [|exact R2]].
    + unfold all_holds. cbn [xiters xcalls xset_iters]. rewrite B1, A1, B2, A2. rewrite flat_map_app. simpl. rewrite app_nil_r. reflexivity.
    + unfold claims. cbn [xcvis xmem xtxn xiters xset_iters]. rewrite B1, A1, B3, A3, B4, A4, B5, A5. rewrite flat_map_app. simpl.
      intros x Hx. simpl in Hx |- *. rewrite !in_app_iff in Hx. simpl in Hx. rewrite !in_app_iff in Hx. simpl in Hx.
      rewrite !in_app_iff. simpl. rewrite !in_app_iff. tauto.
  - unfold iter_bufs. cbn [xiters xset_iters]. rewrite B1, A1. rewrite flat_map_app. simpl.
    apply nodup_app_intro; auto.
    + constructor; [simpl; intros [H|[]]; lia|constructor; auto; constructor].
    + intros x Hx Hin. pose proof (claims_lt c s x X Hx). simpl in Hin. destruct Hin as [<-|[<-|[]]]; lia.
Qed.

(* ---------------------------------------------------------------- reads in two phases *)

Lemma holds_add_call s cl : Permutation (all_holds (xset_calls s (xcalls s ++ [cl]))) (ohold_list (c_hold cl) ++ all_holds s).
Proof.
  unfold all_holds. cbn [xiters xcalls xset_calls]. rewrite flat_map_app. simpl. rewrite app_nil_r.
  rewrite app_assoc. apply Permutation_app_comm.
Qed.

Lemma XInv_get_begin c s a k ex pk : XInv c s -> XInv c (xget_begin c s a k ex pk).
Proof.
  intros X. unfold xget_begin.
  destruct (XInv_touch c ex s X) as (X1 & T1 & T2 & T3 & T4 & T5 & T6 & T7 & T8 & T9 & _).
  set (s1 := touch_blocks c s ex) in *.
  assert (Plain : forall s2, XInv c s2 ->
            XInv c (xset_calls s2 (xcalls s2 ++ [{| c_kind := kind_of a; c_src := xfind s a k; c_hold := None; c_done := false |}]))).
  { intros s2 [R N]. constructor; auto. cbn [xbm xset_calls]. eapply RInv_perm; [symmetry; apply holds_add_call|]. simpl. exact R. }
  destruct (xfind s a k) as [[e|tid bi d]|] eqn:Ef; try (apply Plain; auto).
  pose proof (XInv_acquire c s1 tid bi pk X1) as A. pose proof (xacquire_frame c s1 tid bi pk) as F.
  destruct (xacquire c s1 tid bi pk) as [s2 oh]. cbn [fst snd] in A, F. destruct A as (X2 & _ & Hh).
  destruct oh as [h|]; [|apply Plain; auto].
  destruct Hh as [Fit _]. destruct F as (F1 & F2 & _).
  assert (Eh : all_holds s2 = all_holds s1) by (unfold all_holds; rewrite F1, F2; auto).
  pose proof X2 as [R N]. constructor; auto. cbn [xbm xset_calls].
  eapply RInv_perm; [symmetry; apply holds_add_call|]. simpl. apply RInv_add; auto. rewrite Eh. auto.
Qed.

Lemma xfixed_slice c k : xfixed (XPGetTable k) c = Slice -> pool_on c = false /\ cache_on c = false.
Proof. unfold xfixed. destruct (pool_on c), (cache_on c); simpl; auto; discriminate. Qed.

Lemma XInv_cvis c s r : RInv c (xbm s) (all_holds s) ((rloc r, Client) :: claims s) -> NoDup (iter_bufs s) ->
  XInv c (xset_cvis s (r :: xcvis s)).
Proof. intros R N. constructor; auto. Qed.

Lemma XInv_get_end md c s j : get_modes_fixed md -> XInv c s -> XInv c (fst (xget_end md c s j)).
Proof.
  intros Md X. unfold xget_end. destruct (nth_error (xcalls s) j) as [cl|] eqn:Ej; [|auto].
  destruct (c_done cl); [auto|].
  set (fin := {| c_kind := c_kind cl; c_src := c_src cl; c_hold := None; c_done := true |}).
  set (s0 := xset_calls s (replace_nth j (xcalls s) fin)).
  destruct (holds_call s j cl Ej) as (Rr & P0 & P1). specialize (P1 fin). cbn [c_hold fin ohold_list app] in P1. fold s0 in P1.
  pose proof X as [R N].
  assert (Ec0 : claims s0 = claims s) by reflexivity. assert (Eb0 : iter_bufs s0 = iter_bufs s) by reflexivity.
  assert (R0 : RInv c (xbm s0) (all_holds s0) (claims s0) /\
               forall h, c_hold cl = Some h -> hold_fits c (xbm s0) (all_holds s0) h).
  { change (xbm s0) with (xbm s). rewrite Ec0. destruct (c_hold cl) as [h|] eqn:Eh; cbn [ohold_list app] in P0.
    - assert (Rh : RInv c (xbm s) (h :: Rr) (claims s)) by (eapply RInv_perm; [exact P0|exact R]).
      destruct (RInv_tail _ _ _ _ _ Rh) as [Rt Ft]. split.
      + eapply RInv_perm; [symmetry; exact P1|exact Rt].
      + intros h0 E0. inversion E0; subst. eapply hold_fits_perm; [symmetry; exact P1|exact Ft].
    - split; [|discriminate]. eapply RInv_perm; [|exact R]. rewrite P1. exact P0. }
  destruct R0 as [R0 Fit].
  assert (X0 : XInv c s0) by (constructor; auto).
  assert (RelOpt : XInv c (match c_hold cl with Some h => xrelease c s0 h | None => s0 end)).
  { destruct (c_hold cl) as [h|]; auto. apply XInv_release; auto. }
  destruct (c_src cl) as [[e|tid bi d]|] eqn:Es; cbn [fst]; auto.
  - (* a write buffer hit: a private copy *)
    destruct (Md (c_kind cl) c) as [Mm _]. rewrite Mm. unfold xtransfer.
    destruct (XInv_alloc_claim c s0 (deref (xhp s0) (mv e)) Client X0 eq_refl) as [R1 E1].
    destruct (xalloc s0 (deref (xhp s0) (mv e)) Client) as [s1 l] eqn:Ea. cbn [fst snd] in *. subst l.
    assert (F1 : all_holds s1 = all_holds s0 /\ claims s1 = claims s0 /\ iter_bufs s1 = iter_bufs s0).
    { unfold xalloc in Ea. inversion Ea; subst. repeat split. }
    destruct F1 as (A1 & A2 & A3). apply XInv_cvis; [rewrite A1, A2; exact R1|rewrite A3; auto].
  - destruct (c_hold cl) as [h|] eqn:Eh; cbn [fst]; auto.
    specialize (Fit h eq_refl). destruct (Md (c_kind cl) c) as [_ Mt]. rewrite Mt.
    destruct (xfixed (XPGetTable (c_kind cl)) c) eqn:Em.
    + (* copy, then release *)
      unfold xtransfer.
      set (x := deref (xhp s0) (mkref (h_loc h) (voff d) (vlen d))).
      destruct (XInv_alloc_claim c s0 x Client X0 eq_refl) as [R1 E1].
      destruct (xalloc s0 x Client) as [s1 l] eqn:Ea. cbn [fst snd] in *. subst l.
      assert (F1 : all_holds s1 = all_holds s0 /\ claims s1 = claims s0 /\ iter_bufs s1 = iter_bufs s0 /\ xcvis s1 = xcvis s0
                   /\ forall y, y < length (xhp s0) -> tag (xbm s1) y = tag (xbm s0) y).
      { unfold xalloc in Ea. inversion Ea; subst. repeat split. intros y Hy. apply (bm_alloc_spec (xbm s0) x Client). auto. }
      destruct F1 as (A1 & A2 & A3 & A4 & A5).
      assert (Fit1 : hold_fits c (xbm s1) (all_holds s1) h).
      { rewrite A1. unfold hold_fits in *. destruct (h_kind h) eqn:Ek.
        - destruct Fit as [Fh Fc]. split; auto. unfold handle_ok_b in *. rewrite Ek in *.
          unfold xalloc in Ea. inversion Ea; subst. exact Fh.
        - destruct Fit as [Ft Fn]. split; auto. rewrite A5; auto. eapply tag_lt; eauto. }
      apply XInv_cvis.
      * change (all_holds (xrelease c s1 h)) with (all_holds s1). change (claims (xrelease c s1 h)) with (claims s1).
        unfold xrelease. cbn [xbm xset_bm]. apply RInv_release; auto.
        -- rewrite A1, A2. exact R1.
        -- intros h' Hh Hc. eapply held_anywhere_spec; eauto.
      * change (iter_bufs (xrelease c s1 h)) with (iter_bufs s1). rewrite A3. auto.
    + (* slice: the private buffer of a disabled pool is handed over *)
      destruct (xfixed_slice _ _ Em) as [Ep Ecc].
      assert (Ek : h_kind h = HOwn).
      { apply (r_nocache _ _ _ _ R Ecc). eapply Permutation_in; [symmetry; exact P0|]. left. auto. }
      rewrite Ek. rewrite Ep. unfold hold_fits in Fit. rewrite Ek in Fit. destruct Fit as [Ft Fn].
      assert (Erel : xrelease c s0 h = xset_bm s0 (xbm s0)).
      { unfold xrelease, release_hold. rewrite Ek. unfold bpool_put. rewrite Ep. reflexivity. }
      rewrite Erel. apply XInv_cvis.
      * cbn [rloc mkref]. unfold xset_hp. cbn [xbm xset_bm]. apply RInv_handover; auto.
      * exact N.
Qed.

(* ---------------------------------------------------------------- writes, background work, the client *)

Lemma tags_kept_weaken b b' (X Y : loc -> Prop) : tags_kept b b' X -> (forall l, l < length (bh b) -> X l -> Y l) -> tags_kept b b' Y.
Proof. intros [L K] H. split; auto. Qed.

(* table.Writer: takes a pooled buffer, overwrites it, gives it back *)
Lemma RInv_writer c b H K n pick g : RInv c b H K -> RInv c (bm_writer c b n pick g) H K.
Proof.
  intros R. unfold bm_writer.
  pose proof (bpool_get_spec c b n pick (r_bm _ _ _ _ R)) as S.
  destruct (bpool_get c b n pick) as [b1 l]. cbn [fst snd] in S. destruct S as (I1 & T1 & N1 & C1 & O1 & K1 & _ & _).
  assert (W : was_pool_or_new b l) by (destruct O1; [left; auto|right; lia]).
  assert (R1 : RInv c b1 H K).
  { eapply RInv_kept; eauto.
    - eapply tags_kept_weaken; [exact K1|]. intros x _ ->. exact W.
    - intros m Hm. exists m. rewrite C1. split; auto. apply same_node_refl. }
  assert (R2 : RInv c (bm_hp b1 (hset (bh b1) l g)) H K) by (apply RInv_hset; auto).
  set (h := {| h_tid := 0; h_bi := 0; h_loc := l; h_kind := HOwn |}).
  change (bpool_put c (bm_hp b1 (hset (bh b1) l g)) l) with (release_hold c (bm_hp b1 (hset (bh b1) l g)) (fun _ => false) h).
  apply RInv_release; auto.
  - unfold hold_fits. cbn [h_kind h h_loc]. split.
    + unfold tag. cbn [bh bm_hp]. rewrite hown_hset. exact T1.
    + intros Hin. apply own_locs_in in Hin. destruct Hin as (h' & Hh' & Ek & El).
      pose proof (r_own _ _ _ _ R h' Hh' Ek) as Ht. rewrite El in Ht. eapply not_was_pool; eauto. discriminate.
  - intros h' Hh' Hc. exfalso. unfold is_cache_hold in Hc. cbn [h_loc h] in Hc. destruct (h_kind h') eqn:Ek; [|discriminate].
    apply Nat.eqb_eq in Hc.
    pose proof (r_handle _ _ _ _ R h' Hh') as Hk. unfold handle_ok_b in Hk. rewrite Ek in Hk. destruct Hk as (m & Hm & E1 & _).
    pose proof (bi_cache _ (r_bm _ _ _ _ R) m Hm) as Htc. rewrite E1, Hc in Htc. eapply not_was_pool; eauto. discriminate.
Qed.

Lemma XInv_table_writer c s n pick g : XInv c s -> XInv c (table_writer c s n pick g).
Proof. intros [R N]. unfold table_writer. apply XInv_set_bm; [constructor; auto|]. apply RInv_writer. auto. Qed.

Ltac incl_tauto :=
  let x := fresh "x" in let Hx := fresh "Hx" in
  intros x Hx; simpl in Hx |- *; rewrite ?in_app_iff in Hx; simpl in Hx; rewrite ?in_app_iff in Hx;
  rewrite ?in_app_iff; simpl; rewrite ?in_app_iff; tauto.

Lemma XInv_claims_same c s s' : XInv c s -> xbm s' = xbm s -> all_holds s' = all_holds s -> incl (claims s') (claims s) ->
  iter_bufs s' = iter_bufs s -> XInv c s'.
Proof.
  intros [R N] Eb Eh Ec Ei. constructor; [|rewrite Ei; auto]. rewrite Eb, Eh. eapply RInv_claims_incl; eauto.
Qed.

Lemma XInv_mem_put md c s m k v del q : XInv c s ->
  XInv c (fst (xmem_put md c s m k v del q)) /\ mkv (snd (xmem_put md c s m k v del q)) = mkv m /\
  rest_kept s (fst (xmem_put md c s m k v del q)) /\ xiters (fst (xmem_put md c s m k v del q)) = xiters s.
Proof.
  intros X. unfold xmem_put. cbn [fst snd mkv]. split; [unfold happend; apply XInv_hset; auto|]. split; auto. split; repeat split.
Qed.

Lemma XInv_put md c s k v del : XInv c s -> XInv c (xput md c s k v del).
Proof.
  intros X. unfold xput.
  destruct (XInv_mem_put md c s (xmem s) k v del (S (xseq s)) X) as (X1 & Em & K1 & E1).
  destruct (xmem_put md c s (xmem s) k v del (S (xseq s))) as [s1 m]. cbn [fst snd] in *.
  destruct K1 as (A1 & A2 & A3 & A4 & _).
  eapply XInv_claims_same; [exact X1|reflexivity|reflexivity| |reflexivity].
  unfold claims. cbn [xcvis xmem xtxn xiters xset_mem]. rewrite Em, A3. apply incl_refl.
Qed.

Lemma XInv_txn_put md c s k v del : XInv c s -> XInv c (xtxn_put md c s k v del).
Proof.
  intros X. unfold xtxn_put. destruct (xtxn s) as [t|] eqn:Et; auto.
  destruct (XInv_mem_put md c s (tmem t) k v del (S (xseq s)) X) as (X1 & Em & K1 & E1).
  destruct (xmem_put md c s (tmem t) k v del (S (xseq s))) as [s1 m]. cbn [fst snd] in *.
  destruct K1 as (A1 & A2 & A3 & A4 & _).
  eapply XInv_claims_same; [exact X1|reflexivity|reflexivity| |reflexivity].
  unfold claims. cbn [xcvis xmem xtxn xiters xset_mem xset_txn tmem]. rewrite Em, A4, Et. cbn [tmem]. apply incl_refl.
Qed.

(* a new arena *)
Lemma XInv_new_arena c s : XInv c s ->
  RInv c (xbm (fst (xalloc s [] (DB KMem)))) (all_holds s) ((length (xhp s), DB KMem) :: claims s) /\
  snd (xalloc s [] (DB KMem)) = length (xhp s).
Proof. intros X. apply XInv_alloc_claim; auto. Qed.

Lemma XInv_flush c s pick : XInv c s -> XInv c (xflush c s pick).
Proof.
  intros X. unfold xflush.
  set (t := build_table (blk c) (mem_content (xhp s) (xmem s))).
  pose proof (XInv_table_writer c s (N.of_nat (length (first_img t) + 5)) pick (first_img t) X) as X1.
  set (s1 := table_writer c s (N.of_nat (length (first_img t) + 5)) pick (first_img t)) in *.
  set (s1' := xset_tabs s1 (xfiles s1 ++ [t]) (length (xfiles s1) :: xlive s1)).
  assert (X1' : XInv c s1') by (eapply XInv_claims_same; [exact X1|reflexivity|reflexivity|apply incl_refl|reflexivity]).
  destruct (XInv_new_arena c s1' X1') as [R2 E2]. pose proof X1' as [_ N1].
  destruct (xalloc s1' [] (DB KMem)) as [s2 l] eqn:Ea. cbn [fst snd] in *. subst l.
  assert (F : all_holds s2 = all_holds s1' /\ iter_bufs s2 = iter_bufs s1' /\ xcvis s2 = xcvis s1' /\ xtxn s2 = xtxn s1' /\ xiters s2 = xiters s1').
  { unfold xalloc in Ea. inversion Ea; subst. repeat split. }
  destruct F as (F1 & F2 & F3 & F4 & F5).
  constructor; [|change (iter_bufs (xset_mem s2 (xseq s2) {| mkv := length (xhp s1'); mds := [] |})) with (iter_bufs s2); rewrite F2; auto].
  cbn [xbm xset_mem]. change (all_holds (xset_mem s2 (xseq s2) {| mkv := length (xhp s1'); mds := [] |})) with (all_holds s2). rewrite F1.
  eapply RInv_claims_incl; [|exact R2].
  unfold claims. cbn [xcvis xmem xtxn xiters xset_mem mkv]. rewrite F3, F4, F5.
  incl_tauto.
Qed.

Lemma XInv_txn_flush c s pick : XInv c s -> XInv c (xtxn_flush c s pick).
Proof.
  intros X. unfold xtxn_flush. destruct (xtxn s) as [tx|] eqn:Et; auto.
  set (t := build_table (blk c) (mem_content (xhp s) (tmem tx))).
  pose proof (XInv_table_writer c s (N.of_nat (length (first_img t) + 5)) pick (first_img t) X) as X1.
  set (s1 := table_writer c s (N.of_nat (length (first_img t) + 5)) pick (first_img t)) in *.
  set (s1' := xset_tabs s1 (xfiles s1 ++ [t]) (xlive s1)).
  assert (X1' : XInv c s1') by (eapply XInv_claims_same; [exact X1|reflexivity|reflexivity|apply incl_refl|reflexivity]).
  destruct (XInv_new_arena c s1' X1') as [R2 E2]. pose proof X1' as [_ N1].
  destruct (xalloc s1' [] (DB KMem)) as [s2 l] eqn:Ea. cbn [fst snd] in *. subst l.
  assert (F : all_holds s2 = all_holds s1' /\ iter_bufs s2 = iter_bufs s1' /\ xcvis s2 = xcvis s1' /\ xmem s2 = xmem s1' /\ xiters s2 = xiters s1').
  { unfold xalloc in Ea. inversion Ea; subst. repeat split. }
  destruct F as (F1 & F2 & F3 & F4 & F5).
  set (s3 := xset_txn s2 (Some {| tmem := {| mkv := length (xhp s1'); mds := [] |}; ttabs := length (xfiles s1) :: ttabs tx |})).
  constructor; [|change (iter_bufs s3) with (iter_bufs s2); rewrite F2; auto].
  change (xbm s3) with (xbm s2). change (all_holds s3) with (all_holds s2). rewrite F1.
  eapply RInv_claims_incl; [|exact R2].
  unfold claims, s3. cbn [xcvis xmem xtxn xiters xset_txn tmem mkv]. rewrite F3, F4, F5.
  incl_tauto.
Qed.

Lemma XInv_txn_none c s : XInv c s -> XInv c (xset_txn s None).
Proof.
  intros X. eapply XInv_claims_same; [exact X|reflexivity|reflexivity| |reflexivity].
  unfold claims. cbn [xcvis xmem xtxn xiters xset_txn].
  incl_tauto.
Qed.

Lemma XInv_txn_commit c s pick : XInv c s -> XInv c (xtxn_commit c s pick).
Proof.
  intros X. unfold xtxn_commit. pose proof (XInv_txn_flush c s pick X) as X1.
  destruct (xtxn (xtxn_flush c s pick)) as [t|]; auto.
  apply XInv_txn_none. eapply XInv_claims_same; [exact X1|reflexivity|reflexivity|apply incl_refl|reflexivity].
Qed.

Lemma XInv_txn_open c s : XInv c s -> XInv c (xtxn_open s).
Proof.
  intros X. unfold xtxn_open. destruct (xtxn s) eqn:Et; auto.
  destruct (XInv_new_arena c s X) as [R2 E2]. pose proof X as [_ N1].
  destruct (xalloc s [] (DB KMem)) as [s2 l] eqn:Ea. cbn [fst snd] in *. subst l.
  assert (F : all_holds s2 = all_holds s /\ iter_bufs s2 = iter_bufs s /\ xcvis s2 = xcvis s /\ xmem s2 = xmem s /\ xiters s2 = xiters s).
  { unfold xalloc in Ea. inversion Ea; subst. repeat split. }
  destruct F as (F1 & F2 & F3 & F4 & F5).
  set (s3 := xset_txn s2 (Some {| tmem := {| mkv := length (xhp s); mds := [] |}; ttabs := [] |})).
  constructor; [|change (iter_bufs s3) with (iter_bufs s2); rewrite F2; auto].
  change (xbm s3) with (xbm s2). change (all_holds s3) with (all_holds s2). rewrite F1.
  eapply RInv_claims_incl; [|exact R2].
  unfold claims, s3. cbn [xcvis xmem xtxn xiters xset_txn tmem mkv]. rewrite F3, F4, F5.
  incl_tauto.
Qed.

Lemma XInv_evict c s k : XInv c s -> XInv c (xevict c s k).
Proof.
  intros X. pose proof X as [R N]. unfold xevict. destruct (nth_error (xcache s) k) as [n|] eqn:Ek; auto.
  apply XInv_set_bm; auto. apply RInv_gc.
  - apply RInv_set_lru; auto.
  - intros h' Hh Hc. eapply held_anywhere_spec; eauto.
Qed.

Lemma XInv_pool_drop c s cls idx : XInv c s -> XInv c (xpool_drop s cls idx).
Proof.
  intros X. pose proof X as [R N]. unfold xpool_drop. apply XInv_set_bm; auto.
  destruct (pool_drop_shrinks (xpool s) cls idx) as (r & Hs). eapply RInv_pool_shrinks; eauto.
Qed.

Lemma XInv_scribble c s i pos g : XInv c s -> XInv c (xscribble s i pos g).
Proof. intros X. unfold xscribble. destruct (nth_error (xcvis s) i); auto. apply XInv_hset. auto. Qed.

Lemma XInv_init c pbase : XInv c (xinit pbase).
Proof.
  constructor.
  - constructor.
    + constructor; cbn; try constructor. intros l [].
      intros n [].
    + intros h [].
    + constructor.
    + intros h [].
    + cbn. intros l o [E|[]]. inversion E; subst. split; reflexivity.
    + intros _ h [].
  - constructor.
Qed.

(* every step keeps the invariant *)
Theorem XInv_step md c s o : get_modes_fixed md -> XInv c s -> XInv c (fst (xstep md c s o)).
Proof.
  intros Md X. destruct o; cbn [xstep fst].
  - destruct (is_some (xtxn s)); cbn [fst]; auto. apply XInv_put; auto.
  - destruct (is_some (xtxn s)); cbn [fst]; auto. apply XInv_put; auto.
  - eapply XInv_claims_same; [exact X|reflexivity|reflexivity|apply incl_refl|reflexivity].
  - apply XInv_get_begin; auto.
  - apply XInv_get_end; auto.
  - apply XInv_new_iter; auto.
  - apply XInv_iter_move2; auto.
  - auto.
  - apply XInv_iter_release; auto.
  - apply XInv_txn_open; auto.
  - apply XInv_txn_put; auto.
  - apply XInv_txn_put; auto.
  - apply XInv_txn_commit; auto.
  - apply XInv_txn_none; auto.
  - destruct (is_some (xtxn s)); cbn [fst]; auto. apply XInv_flush; auto.
  - apply XInv_txn_flush; auto.
  - apply XInv_evict; auto.
  - apply XInv_pool_drop; auto.
  - apply XInv_table_writer; auto.
  - apply XInv_scribble; auto.
Qed.

Lemma XInv_run md c : get_modes_fixed md -> forall p s, XInv c s -> XInv c (fst (xrun md c s p)).
Proof.
  intros Md. induction p as [|o p IH]; intros s X; cbn [xrun]; auto.
  pose proof (XInv_step md c s o Md X) as X1. destruct (xstep md c s o) as [s1 x]. cbn [fst] in X1.
  specialize (IH s1 X1). destruct (xrun md c s1 p) as [s2 xs]. cbn [fst] in *. auto.
Qed.

Lemma xfixed_get_modes : get_modes_fixed xfixed.
Proof. intros k c. split; reflexivity. Qed.

Theorem XInv_final c pbase p : XInv c (xfinal xfixed c pbase p).
Proof. unfold xfinal. apply XInv_run; [apply xfixed_get_modes|apply XInv_init]. Qed.

(* ---------------------------------------------------------------- what the invariant says *)

Lemma XInv_single_owner c s : XInv c s -> single_owner s.
Proof.
  intros [R N]. pose proof R as [R1 R2 R3 R4 R5 R6]. pose proof R1 as [B1 B2 B3 B4]. split.
  - unfold census. apply nodup_app_intro; auto; [apply nodup_app_intro; auto|].
    + intros l Hc Ho. apply in_map_iff in Hc. destruct Hc as (n & En & Hn). apply own_locs_in in Ho. destruct Ho as (h & Hh & Ek & El).
      pose proof (B2 n Hn) as T1. pose proof (R2 h Hh Ek) as T2. unfold xcache in *. rewrite En in T1. rewrite El in T2. congruence.
    + intros l Hp Hx. apply in_app_or in Hx. destruct Hx as [Hc|Ho].
      * apply in_map_iff in Hc. destruct Hc as (n & En & Hn). pose proof (B2 n Hn) as T1. pose proof (B1 l Hp) as T2.
        rewrite En in T1. congruence.
      * apply own_locs_in in Ho. destruct Ho as (h & Hh & Ek & El). pose proof (R2 h Hh Ek) as T1. pose proof (B1 l Hp) as T2.
        rewrite El in T1. congruence.
  - intros h Hh. specialize (R4 h Hh). unfold handle_ok, handle_ok_b in *. destruct (h_kind h); auto.
Qed.

Lemma XInv_separated c s : XInv c s -> xseparated s.
Proof.
  intros [R N]. pose proof R as [R1 R2 R3 R4 R5 R6]. pose proof R1 as [B1 B2 B3 B4]. split; [|split].
  - intros r Hr. apply (R5 (rloc r) Client). unfold claims. apply in_or_app. left. apply in_map_iff. exists r. auto.
  - intros l Hl. unfold census in Hl. apply in_app_or in Hl. destruct Hl as [Hp|Hl]; [exists Pool; split; auto; apply B1; auto|].
    apply in_app_or in Hl. destruct Hl as [Hc|Ho].
    + apply in_map_iff in Hc. destruct Hc as (n & En & Hn). exists Cache. split; auto. rewrite <- En. apply B2. auto.
    + apply own_locs_in in Ho. destruct Ho as (h & Hh & Ek & El). exists (DB KBlock). split; auto. rewrite <- El. apply R2; auto.
  - intros it Hit l Hl. apply (R5 l (DB KIter)). unfold claims. apply in_or_app. right. apply in_or_app. right. apply in_or_app. right.
    apply in_flat_map. exists it. split; auto. unfold iter_claims. unfold iter_buf_locs in Hl. simpl in *. destruct Hl as [<-|[<-|[]]]; auto.
Qed.
