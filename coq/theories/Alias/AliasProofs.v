(* Alias/AliasProofs.v — the theorems of the ownership model (property C20):
   separation, noninterference, iterator_buffers_stable for the fixed code; the refutations for the
   table path before the fix.  The step-by-step work is in Alias/StepProofs.v. *)
From GL Require Import Alias.Heap Alias.AliasModel Alias.HeapProofs Alias.ContentProofs Alias.InvProofs
  Alias.BlockProofs Alias.ReadProofs Alias.StepProofs Base.BytesProofs.
From Coq Require Import Arith Lia.
Local Open Scope nat_scope.

(* ---------------------------------------------------------------- the initial state *)

Lemma inv_init c : Inv c init.
Proof.
  constructor; simpl; auto.
  - intros r [].
  - split; simpl; auto. reflexivity.
  - split; [|split; [|split]]; simpl; auto.
    + split; simpl; [constructor|]. intros tid bi l [].
    + split; simpl; [constructor|]. intros l [].
  - reflexivity.
  - split; simpl; constructor.
  - intros t [].
  - unfold cbatch_ok; simpl; auto.
  - congruence.
Qed.

Lemma rel_init : Rel init sinit.
Proof.
  constructor; simpl; auto.
  intros k. reflexivity.
Qed.

(* ---------------------------------------------------------------- runs *)

Lemma run_ok c : forall p s sp,
  Inv c s -> Rel s sp ->
  Inv c (fst (run fixed_modes c s p)) /\ snd (run fixed_modes c s p) = srun sp p.
Proof.
  induction p as [|o p IH]; intros s sp I R; simpl; auto.
  destruct (step_ok c s sp o I R) as (I1 & R1 & E1).
  destruct (step fixed_modes c s o) as [s1 x]. destruct (sstep sp o) as [sp1 y]. cbn [fst snd] in *. subst y.
  destruct (IH s1 sp1 I1 R1) as [I2 E2].
  destruct (run fixed_modes c s1 p) as [s2 xs]. cbn [fst snd] in *.
  split; auto. destruct x; congruence.
Qed.

(* the specification's state after a program *)
Fixpoint sfinal (sp : sstate) (p : list op) : sstate :=
  match p with
  | [] => sp
  | o :: p' => sfinal (fst (sstep sp o)) p'
  end.

Lemma run_rel c : forall p s sp,
  Inv c s -> Rel s sp -> Inv c (fst (run fixed_modes c s p)) /\ Rel (fst (run fixed_modes c s p)) (sfinal sp p).
Proof.
  induction p as [|o p IH]; intros s sp I R; simpl; auto.
  destruct (step_ok c s sp o I R) as (I1 & R1 & E1).
  destruct (step fixed_modes c s o) as [s1 x]. cbn [fst snd] in *.
  destruct (IH s1 _ I1 R1) as [I2 R2].
  destruct (run fixed_modes c s1 p) as [s2 xs]. cbn [fst snd] in *. auto.
Qed.

Lemma run_app md c : forall p q s,
  run md c s (p ++ q) =
  (fst (run md c (fst (run md c s p)) q), snd (run md c s p) ++ snd (run md c (fst (run md c s p)) q)).
Proof.
  induction p as [|o p IH]; intros q s; simpl.
  - destruct (run md c s q); auto.
  - destruct (step md c s o) as [s1 x]. rewrite IH.
    destruct (run md c s1 p) as [s2 xs]. cbn [fst snd].
    destruct (run md c s2 q) as [s3 ys]. cbn [fst snd]. destruct x; auto.
Qed.

Lemma sfinal_app : forall p q sp, sfinal sp (p ++ q) = sfinal (sfinal sp p) q.
Proof. induction p as [|o p IH]; intros q sp; simpl; auto. Qed.

(* ---------------------------------------------------------------- noninterference *)

(* every program, with client scribbles and background work interleaved at will, in every
   configuration, answers exactly like the plain map that never sees a scribble *)
Theorem noninterference c p : outputs fixed_modes c p = spec_outputs p.
Proof. unfold outputs, spec_outputs. apply (run_ok c p init sinit (inv_init c) rel_init). Qed.

Lemma srun_no_scribbles : forall p sp, srun sp (no_scribbles p) = srun sp p.
Proof.
  induction p as [|o p IH]; intros sp; auto.
  unfold no_scribbles in *. cbn [filter]. destruct (is_scribble o) eqn:E; cbn [negb].
  - destruct o; try discriminate. cbn [srun sstep]. apply IH.
  - cbn [srun]. destruct (sstep sp o) as [sp1 [y|]]; rewrite IH; auto.
Qed.

(* the outputs with scribbles equal the outputs of the same program without them *)
Theorem scribbles_do_not_matter c p : outputs fixed_modes c p = outputs fixed_modes c (no_scribbles p).
Proof. rewrite !noninterference. unfold spec_outputs. symmetry. apply srun_no_scribbles. Qed.

(* nor do the configuration (pool, cache, compression, block size) or where the data lives *)
Theorem configuration_does_not_matter c1 c2 p : outputs fixed_modes c1 p = outputs fixed_modes c2 p.
Proof. rewrite !noninterference. auto. Qed.

Definition no_env (p : list op) : list op := filter (fun o => negb (is_env o)) p.

Lemma srun_no_env : forall p sp, srun sp (no_env p) = srun sp p.
Proof.
  induction p as [|o p IH]; intros sp; auto.
  unfold no_env in *. cbn [filter]. destruct (is_env o) eqn:E; cbn [negb].
  - destruct o; try discriminate; cbn [srun sstep]; apply IH.
  - cbn [srun]. destruct (sstep sp o) as [sp1 [y|]]; rewrite IH; auto.
Qed.

Theorem data_location_does_not_matter c p : outputs fixed_modes c p = outputs fixed_modes c (no_env p).
Proof. rewrite !noninterference. unfold spec_outputs. symmetry. apply srun_no_env. Qed.

(* ---------------------------------------------------------------- separation *)

Lemma inv_separated c s : Inv c s -> separated s.
Proof.
  intros I. split; [exact (i_cvis _ _ I)|].
  assert (forall m, memdb_ok (hp s) m -> forall l, In l (memdb_locs m) -> hown (hp s) l = Some (DB KMem)) as MM.
  { intros m [O F] l [<-|Hl]; auto. apply in_flat_map in Hl as [e [He Hl]].
    eapply Forall_forall in F; eauto. destruct F as (E1 & E2 & _). destruct Hl as [<-|[<-|[]]]; congruence. }
  intros l Hl. unfold db_reach in Hl.
  apply in_app_or in Hl as [Hl|Hl].
  { exists (DB KMem). split; auto. apply (MM _ (i_mem _ _ I)); auto. }
  apply in_app_or in Hl as [Hl|Hl].
  { pose proof (i_frozen _ _ I) as F. destruct (frozen s) as [m|]; [|contradiction]. exists (DB KMem). split; auto. apply (MM _ F); auto. }
  apply in_app_or in Hl as [Hl|Hl].
  { pose proof (i_txn _ _ I) as F. destruct (txn s) as [t|]; [|contradiction]. exists (DB KMem). split; auto. apply (MM _ F); auto. }
  apply in_app_or in Hl as [Hl|Hl].
  { apply in_map_iff in Hl as [[[tid bi] l'] [E Hin]]. simpl in E. subst l'.
    destruct (i_block _ _ I) as ([_ C] & _). destruct (C _ _ _ Hin) as [O _]. exists Cache. auto. }
  apply in_app_or in Hl as [Hl|Hl].
  { destruct (i_block _ _ I) as (_ & [_ P] & _). exists Pool. split; auto. apply P; auto. }
  apply in_app_or in Hl as [Hl|Hl].
  { destruct Hl as [<-|[]]. exists (DB KBatch). split; auto. apply I. }
  apply in_flat_map in Hl as [it [Hit Hl]].
  destruct (i_iters _ _ I) as [IO _]. eapply Forall_forall in IO; eauto.
  destruct IO as (O1 & O2 & E1 & E2 & FS).
  unfold iter_locs in Hl. destruct (ilive it); [|contradiction].
  apply in_app_or in Hl as [Hl|Hl].
  - exists (DB KIter). split; auto. destruct Hl as [<-|[<-|[<-|[<-|[]]]]]; auto; congruence.
  - apply in_flat_map in Hl as [x [Hx Hl]]. eapply Forall_forall in FS; eauto.
    unfold src_locs in Hl. destruct (snd x) as [e|]; [|contradiction].
    destruct FS as [O (E3 & E4 & _)]. exists (DB KMem). split; auto.
    destruct Hl as [<-|[<-|[]]]; auto. unfold own in O. congruence.
Qed.

(* in every reachable state (any program, any configuration) whatever the client can write to is
   client-owned, and nothing a DB-side structure refers to is *)
Theorem separation c p : separated (final fixed_modes c p).
Proof.
  apply (inv_separated c). unfold final. apply (run_ok c p init sinit (inv_init c) rel_init).
Qed.

(* hence no buffer the client may overwrite is one the DB still refers to *)
Theorem separation_disjoint c p r :
  In r (cvis (final fixed_modes c p)) -> ~ In (rloc r) (db_reach (final fixed_modes c p)).
Proof.
  intros Hr Hd. destruct (separation c p) as [S1 S2].
  specialize (S1 r Hr). destruct (S2 _ Hd) as [o [O N]]. unfold owned_by_client in S1.
  rewrite S1 in O. injection O as <-. discriminate.
Qed.

(* ---------------------------------------------------------------- iterators *)

Definition moves (i : nat) (o : op) : bool :=
  match o with
  | OIterNext j | OIterSeek j _ | OIterRelease j => Nat.eqb i j
  | _ => false
  end.

Lemma nth_error_replace_other {A} i j (l : list A) x : i <> j -> nth_error (replace_nth j l x) i = nth_error l i.
Proof.
  revert i j. induction l as [|y l IH]; intros [|i] [|j] N; simpl; auto; try congruence.
Qed.

Lemma sstep_keeps_iter sp o i :
  moves i o = false -> nth_error (sits sp) i <> None -> nth_error (sits (fst (sstep sp o))) i = nth_error (sits sp) i.
Proof.
  intros M E. destruct o; simpl in *; auto;
    try (destruct (is_some (stxn sp)); simpl; auto; fail);
    try (destruct (stxn sp); simpl; auto; fail).
  - (* new iterator: appended at the end *)
    rewrite nth_error_app1; auto. apply nth_error_Some; auto.
  - destruct (nth_error (sits sp) i0) as [it|] eqn:H; simpl; auto.
    destruct (slive it); simpl; auto. apply nth_error_replace_other. apply Nat.eqb_neq; auto.
  - destruct (nth_error (sits sp) i0) as [it|] eqn:H; simpl; auto.
    destruct (slive it); simpl; auto. apply nth_error_replace_other. apply Nat.eqb_neq; auto.
  - destruct (nth_error (sits sp) i0) as [it|] eqn:H; simpl; auto.
    destruct (slive it); simpl; auto.
  - destruct (nth_error (sits sp) i0) as [it|] eqn:H; simpl; auto.
    apply nth_error_replace_other. apply Nat.eqb_neq; auto.
Qed.

Lemma sfinal_keeps_iter : forall mid sp i,
  (forall o, In o mid -> moves i o = false) -> nth_error (sits sp) i <> None ->
  nth_error (sits (sfinal sp mid)) i = nth_error (sits sp) i.
Proof.
  induction mid as [|o mid IH]; intros sp i H E; simpl; auto.
  assert (nth_error (sits (fst (sstep sp o))) i = nth_error (sits sp) i) as E1
    by (apply sstep_keeps_iter; auto; apply H; simpl; auto).
  rewrite IH; auto.
  - intros o' Ho'. apply H; simpl; auto.
  - congruence.
Qed.

(* what Key()/Value() of an existing iterator show does not change while that iterator is neither moved
   nor released, whatever else happens in between: writes, flushes, compactions, cache evictions,
   moves of other iterators, client scribbles *)
Theorem iterator_buffers_stable c pre mid i :
  (forall o, In o mid -> moves i o = false) ->
  nth_error (iters (final fixed_modes c pre)) i <> None ->
  snd (step fixed_modes c (final fixed_modes c (pre ++ mid)) (OIterRead i)) =
  snd (step fixed_modes c (final fixed_modes c pre) (OIterRead i)).
Proof.
  intros HM HE. unfold final in *. rewrite run_app. cbn [fst].
  destruct (run_rel c pre init sinit (inv_init c) rel_init) as [I1 R1].
  set (s1 := fst (run fixed_modes c init pre)) in *.
  destruct (run_rel c mid s1 _ I1 R1) as [I2 R2].
  set (s2 := fst (run fixed_modes c s1 mid)) in *.
  destruct (step_ok c s1 _ (OIterRead i) I1 R1) as (_ & _ & E1).
  destruct (step_ok c s2 _ (OIterRead i) I2 R2) as (_ & _ & E2).
  rewrite E1, E2. cbn [sstep].
  assert (nth_error (sits (sfinal sinit pre)) i <> None) as HS.
  { destruct (nth_error (iters s1) i) as [it|] eqn:Hi; [|congruence].
    destruct (Forall2_nth _ _ _ _ _ (r_its _ _ R1) Hi) as [si [Hs _]]. congruence. }
  rewrite (sfinal_keeps_iter mid _ i HM HS).
  destruct (nth_error (sits (sfinal sinit pre)) i) as [si|]; auto.
  destruct (slive si); auto.
Qed.

(* ---------------------------------------------------------------- the code before the fix *)

Local Open Scope N_scope.

(* DisableBufferPool, block cache on: Put, flush, Get, the client overwrites the value it got, Get again *)
Definition d1_config : config := {| pool_on := false; cache_on := true; snappy := false; blk := 1%nat |}.
Definition d1_program : list op :=
  [OPut [107; 49] [1; 2; 3]; ERotate; EFlush; OGet [107; 49]; CScribble 0 0 [9; 9; 9]; OGet [107; 49]].

Theorem get_alias_refuted :
  exists c p, outputs unfixed_modes c p <> spec_outputs p /\ outputs unfixed_modes c p <> outputs unfixed_modes c (no_scribbles p).
Proof. exists d1_config, d1_program. split; vm_compute; discriminate. Qed.

(* ... and the state in between violates separation: the client holds a slice of a block the cache owns *)
Theorem separation_refuted : exists c p, ~ separated (final unfixed_modes c p).
Proof.
  exists d1_config, [OPut [107; 49] [1; 2; 3]; ERotate; EFlush; OGet [107; 49]].
  intros [S _].
  assert (In {| rloc := 6%nat; roff := 2%nat; rlen := 3%nat |}
             (cvis (final unfixed_modes d1_config [OPut [107; 49] [1; 2; 3]; ERotate; EFlush; OGet [107; 49]]))) as Hin
    by (vm_compute; auto).
  specialize (S _ Hin). vm_compute in S. discriminate.
Qed.

(* with the fix the same program answers like the map (an instance of noninterference, by computation) *)
Example d1_fixed : outputs fixed_modes d1_config d1_program = spec_outputs d1_program.
Proof. vm_compute. reflexivity. Qed.

(* ---------------------------------------------------------------- the copy/slice table is tight *)

Definition path_eqb (a b : path) : bool :=
  match a, b with
  | PBatchAppend, PBatchAppend | PPutRec, PPutRec | PMemPut, PMemPut | PGetMem, PGetMem
  | PGetAuxMem, PGetAuxMem | PGetTable, PGetTable | PIterKey, PIterKey | PIterValue, PIterValue => true
  | _, _ => false
  end.

(* the fixed code with one copy replaced by a slice *)
Definition flip (p : path) : modes := fun q c => if path_eqb p q then Slice else fixed_modes q c.

Definition cfg_plain : config := {| pool_on := true; cache_on := true; snappy := false; blk := 1%nat |}.
Definition cfg_pool_nocache : config := {| pool_on := true; cache_on := false; snappy := false; blk := 0%nat |}.

(* DB.get returning the write buffer's slice: the client's scribble changes the next Get *)
Example copy_needed_get_mem :
  outputs (flip PGetMem) cfg_plain [OPut [1] [10; 11]; OGet [1]; CScribble 0 0 [9; 9]; OGet [1]]
  <> spec_outputs [OPut [1] [10; 11]; OGet [1]; CScribble 0 0 [9; 9]; OGet [1]].
Proof. vm_compute. discriminate. Qed.

(* memdb.Put keeping the slice it was given (the pooled batch of putRec): the next Put overwrites it *)
Example copy_needed_mem_put :
  outputs (flip PMemPut) cfg_plain [OPut [1] [10]; OPut [2] [20]; OGet [1]]
  <> spec_outputs [OPut [1] [10]; OPut [2] [20]; OGet [1]].
Proof. vm_compute. discriminate. Qed.

(* Batch.Put keeping the caller's slices: overwriting the argument before Write changes what is written *)
Example copy_needed_batch_append :
  outputs (flip PBatchAppend) cfg_plain [OBatchPut [1] [10]; CScribble 0 0 [9]; OBatchWrite; OGet [1]]
  <> spec_outputs [OBatchPut [1] [10]; CScribble 0 0 [9]; OBatchWrite; OGet [1]].
Proof. vm_compute. discriminate. Qed.

(* Transaction.Get returning the transaction buffer's slice *)
Example copy_needed_txn_get :
  outputs (flip PGetAuxMem) cfg_plain [OTxnOpen; OTxnPut [1] [10]; OTxnGet [1]; CScribble 0 0 [9]; OTxnGet [1]]
  <> spec_outputs [OTxnOpen; OTxnPut [1] [10]; OTxnGet [1]; CScribble 0 0 [9]; OTxnGet [1]].
Proof. vm_compute. discriminate. Qed.

(* find returning a slice of a pooled block: the buffer is recycled by the next block read, so the
   value the client holds changes under it; seen here through a later scribble hitting another block *)
Example copy_needed_get_table_pool :
  outputs (flip PGetTable) cfg_pool_nocache
    [OPut [1] [10]; OPut [2] [20]; ERotate; EFlush; OGet [1]; OGet [2]; CScribble 2 0 [9; 9]; OGet [2]; OGet [1]]
  = spec_outputs
    [OPut [1] [10]; OPut [2] [20]; ERotate; EFlush; OGet [1]; OGet [2]; CScribble 2 0 [9; 9]; OGet [2]; OGet [1]]
  /\ ~ separated (final (flip PGetTable) cfg_pool_nocache [OPut [1] [10]; ERotate; EFlush; OGet [1]]).
Proof.
  split; [vm_compute; reflexivity|].
  intros [S _].
  assert (In {| rloc := 6%nat; roff := 1%nat; rlen := 1%nat |}
             (cvis (final (flip PGetTable) cfg_pool_nocache [OPut [1] [10]; ERotate; EFlush; OGet [1]]))) as Hin
    by (vm_compute; auto).
  specialize (S _ Hin). vm_compute in S. discriminate.
Qed.

(* dbIter exposing the block's slice instead of copying: the pooled block is recycled by the next read *)
Example copy_needed_iter_value :
  outputs (flip PIterValue) cfg_pool_nocache
    [OPut [1] [10]; OPut [2] [20]; ERotate; EFlush; OIterNew; OIterNext 0; OIterRead 0; OGet [2]; OIterRead 0]
  <> spec_outputs
    [OPut [1] [10]; OPut [2] [20]; ERotate; EFlush; OIterNew; OIterNext 0; OIterRead 0; OGet [2]; OIterRead 0].
Proof. vm_compute. discriminate. Qed.
