(* Alias/InvProofs.v — the invariant of the ownership model, the relation to the plain-map
   specification, and their frame lemmas (what a change of the heap/state that leaves a class of
   cells alone preserves). *)
From GL Require Import Alias.Heap Alias.AliasModel Alias.HeapProofs Alias.ContentProofs Base.BytesProofs.
From Coq Require Import Arith Lia.
Local Open Scope nat_scope.

Definition own (h : heap) (l : loc) (o : owner) : Prop := hown h l = Some o.
Definition ref_in (h : heap) (r : ref) : Prop := roff r + rlen r <= length (hget h (rloc r)).

(* cells a block read juggles with *)
Definition blockish (o : owner) : bool := match o with Pool | Cache | DB KBlock => true | _ => false end.
Definition nonblock (o : owner) : bool := negb (blockish o).

(* h' has every cell of h whose owner satisfies P, unchanged *)
Definition keep (P : owner -> bool) (h h' : heap) : Prop :=
  length h <= length h' /\ forall l c, nth_error h l = Some c -> P (cown c) = true -> nth_error h' l = Some c.

(* write-buffer arenas only grow *)
Definition memgrow (h h' : heap) : Prop :=
  length h <= length h' /\
  forall l, own h l (DB KMem) -> own h' l (DB KMem) /\ exists x, hget h' l = hget h l ++ x.

Lemma keep_refl P h : keep P h h.
Proof. split; auto. Qed.

Lemma keep_trans P h1 h2 h3 : keep P h1 h2 -> keep P h2 h3 -> keep P h1 h3.
Proof. intros [L1 K1] [L2 K2]. split; [lia|]. intros l c H HP. apply K2; auto. Qed.

Lemma keep_weaken (P Q : owner -> bool) h h' : (forall o, Q o = true -> P o = true) -> keep P h h' -> keep Q h h'.
Proof. intros HQ [L K]. split; auto. Qed.

Lemma keep_own P h h' l o : keep P h h' -> own h l o -> P o = true -> own h' l o.
Proof.
  intros [_ K] H HP. unfold own, hown in *. destruct (nth_error h l) eqn:E; try discriminate.
  injection H as H. subst o. rewrite (K _ _ E HP). auto.
Qed.

Lemma keep_get P h h' l o : keep P h h' -> own h l o -> P o = true -> hget h' l = hget h l.
Proof.
  intros [_ K] H HP. unfold own, hown, hget in *. destruct (nth_error h l) eqn:E; try discriminate.
  injection H as H. subst o. rewrite (K _ _ E HP). auto.
Qed.

Lemma memgrow_refl h : memgrow h h.
Proof. split; auto. intros l H. split; auto. exists []. rewrite app_nil_r; auto. Qed.

Lemma memgrow_trans h1 h2 h3 : memgrow h1 h2 -> memgrow h2 h3 -> memgrow h1 h3.
Proof.
  intros [L1 G1] [L2 G2]. split; [lia|]. intros l H.
  destruct (G1 l H) as [H2 [x Hx]]. destruct (G2 l H2) as [H3 [y Hy]]. split; auto.
  exists (x ++ y). rewrite Hy, Hx, app_assoc. auto.
Qed.

Lemma keep_memgrow P h h' : P (DB KMem) = true -> keep P h h' -> memgrow h h'.
Proof.
  intros HP K. split; [apply K|]. intros l H. split.
  - eapply keep_own; eauto.
  - exists []. rewrite app_nil_r. eapply keep_get; eauto.
Qed.

(* ---- the primitive heap updates as frames ---- *)

Lemma keep_alloc P h b o : keep P h (fst (halloc h b o)).
Proof.
  split.
  - rewrite halloc_length. lia.
  - intros l c H _. unfold halloc; simpl. apply nth_error_app_some; auto.
Qed.

Lemma keep_hupd P h l f o : own h l o -> P o = false -> keep P h (hupd h l f).
Proof.
  intros H HP. split.
  - rewrite hupd_length. lia.
  - intros l' c Hc HPc. destruct (Nat.eq_dec l l') as [->|N].
    + unfold own, hown in H. rewrite Hc in H. injection H as H. congruence.
    + rewrite hupd_other; auto.
Qed.

Lemma keep_hset P h l b o : own h l o -> P o = false -> keep P h (hset h l b).
Proof. apply keep_hupd. Qed.
Lemma keep_hchown P h l o' o : own h l o -> P o = false -> keep P h (hchown h l o').
Proof. apply keep_hupd. Qed.

Lemma memgrow_happend h l b : memgrow h (happend h l b).
Proof.
  unfold happend. split.
  - rewrite hset_length. lia.
  - intros l' H. split.
    + unfold own. rewrite hown_hset. auto.
    + destruct (Nat.eq_dec l l') as [->|N].
      * exists b. rewrite hget_hset_same; auto. eapply hown_lt; eauto.
      * exists []. rewrite hget_hset_other, app_nil_r; auto.
Qed.

Lemma own_hset h l b l' o : own (hset h l b) l' o <-> own h l' o.
Proof. unfold own. rewrite hown_hset. tauto. Qed.

Lemma own_lt h l o : own h l o -> l < length h.
Proof. apply hown_lt. Qed.

Lemma own_diff h l l' o o' : own h l o -> own h l' o' -> o <> o' -> l <> l'.
Proof. unfold own. intros H1 H2 N E. subst. congruence. Qed.

Lemma own_alloc_old h b o l o' : own h l o' -> own (fst (halloc h b o)) l o'.
Proof. intros H. unfold own. rewrite hown_alloc_old; auto. eapply own_lt; eauto. Qed.

Lemma own_alloc_new h b o : own (fst (halloc h b o)) (length h) o.
Proof. apply hown_alloc_new. Qed.

Lemma own_fun h l o o' : own h l o -> own h l o' -> o = o'.
Proof. unfold own. congruence. Qed.

(* ---------------------------------------------------------------- invariant *)

Definition ment_ok (h : heap) (kv : loc) (e : ment) : Prop :=
  rloc (mk e) = kv /\ rloc (mv e) = kv /\ ref_in h (mk e) /\ ref_in h (mv e).
Definition memdb_ok (h : heap) (m : memdb) : Prop :=
  own h (mkv m) (DB KMem) /\ Forall (ment_ok h (mkv m)) (mds m).
Definition omemdb_ok (h : heap) (om : option memdb) : Prop :=
  match om with Some m => memdb_ok h m | None => True end.

Definition cache_ok (s : state) : Prop :=
  NoDup (map snd (cache s)) /\
  forall tid bi l, In (tid, bi, l) (cache s) ->
    own (hp s) l Cache /\ exists fb, file_block s tid bi = Some fb /\ hget (hp s) l = fimg fb.
Definition pool_ok (s : state) : Prop :=
  NoDup (pool s) /\ forall l, In l (pool s) -> own (hp s) l Pool.
Definition blockinv (c : config) (s : state) : Prop :=
  cache_ok s /\ pool_ok s /\ (cache_on c = false -> cache s = []) /\ (pool_on c = false -> pool s = []).

Definition src_ok (s : state) (x : src) : Prop :=
  match x with
  | SMem e => own (hp s) (rloc (mk e)) (DB KMem) /\ ment_ok (hp s) (rloc (mk e)) e
  | STab tid bi d => exists fb, file_block s tid bi = Some fb
  end.

Definition iter_ok (s : state) (it : iter) : Prop :=
  own (hp s) (ikbuf it) (DB KIter) /\ own (hp s) (ivbuf it) (DB KIter) /\
  rloc (iexk it) = ikbuf it /\ rloc (iexv it) = ivbuf it /\
  Forall (fun x => src_ok s (snd x)) (isrcs it).

Definition iter_bufs (its : list iter) : list loc := flat_map (fun it => [ikbuf it; ivbuf it]) its.

Definition iters_ok (s : state) : Prop := Forall (iter_ok s) (iters s) /\ NoDup (iter_bufs (iters s)).

Definition txn_tabs (s : state) : list nat := match txn s with Some t => ttabs t | None => [] end.

Definition tids_ok (s : state) : Prop :=
  forall t, In t (l0 s ++ deep s ++ txn_tabs s) -> t < length (files s).

Definition cbatch_ok (s : state) : Prop :=
  match cbatch s with
  | None => True
  | Some (bl, recs) => own (hp s) bl ClientBatch /\ Forall (ment_ok (hp s) bl) recs
  end.

Definition empty_mems (s : state) : Prop :=
  mds (mem s) = [] /\ match frozen s with Some m => mds m = [] | None => True end.

Record Inv (c : config) (s : state) : Prop := {
  i_cvis : forall r, In r (cvis s) -> own (hp s) (rloc r) Client;
  i_mem : memdb_ok (hp s) (mem s);
  i_frozen : omemdb_ok (hp s) (frozen s);
  i_txn : omemdb_ok (hp s) (option_map tmem (txn s));
  i_block : blockinv c s;
  i_wbatch : own (hp s) (wbatch s) (DB KBatch);
  i_iters : iters_ok s;
  i_tids : tids_ok s;
  i_cbatch : cbatch_ok s;
  i_txnq : txn s <> None -> empty_mems s
}.

(* ---------------------------------------------------------------- relation to the plain map *)

Definition tab_file_content (s : state) (tid : nat) : amap :=
  match nth_error (files s) tid with Some t => tab_content t | None => [] end.
Definition ocontent (h : heap) (om : option memdb) : amap :=
  match om with Some m => mem_content h m | None => [] end.
Definition tabs_content (s : state) (tids : list nat) : amap := flat_map (tab_file_content s) tids.
Definition content (s : state) : amap :=
  mem_content (hp s) (mem s) ++ ocontent (hp s) (frozen s) ++ tabs_content s (l0 s ++ deep s).
Definition txn_content (s : state) (t : txnst) : amap :=
  mem_content (hp s) (tmem t) ++ tabs_content s (ttabs t) ++ content s.

Definition src_key (s : state) (x : src) : bytes :=
  match x with
  | SMem e => deref (hp s) (mk e)
  | STab tid bi d => match file_block s tid bi with Some fb => dkey (fimg fb) d | None => [] end
  end.
Definition src_val (s : state) (x : src) : bytes :=
  match x with
  | SMem e => deref (hp s) (mv e)
  | STab tid bi d => match file_block s tid bi with Some fb => sub (fimg fb) (voff d) (vlen d) | None => [] end
  end.

Definition iter_rel (s : state) (it : iter) (si : siter) : Prop :=
  ilive it = slive si /\ ipos it = spos si /\
  pmap (src_val s) (isrcs it) = slist si /\
  Forall (fun x => src_key s (snd x) = fst x) (isrcs it) /\
  (forall p k v, ipos it = Some p -> nth_error (slist si) p = Some (k, v) ->
                 deref (hp s) (iexk it) = k /\ deref (hp s) (iexv it) = v).

Record Rel (s : state) (sp : sstate) : Prop := {
  r_base : lookup_eq (content s) (sbase sp);
  r_txn : match txn s, stxn sp with
          | None, None => True
          | Some t, Some ov => lookup_eq (txn_content s t) ov
          | _, _ => False
          end;
  r_bat : match cbatch s with
          | None => sbat sp = []
          | Some (bl, recs) => mem_content (hp s) {| mkv := bl; mds := recs |} = sbat sp
          end;
  r_its : Forall2 (iter_rel s) (iters s) (sits sp)
}.

(* ---------------------------------------------------------------- frame lemmas: heap level *)

Lemma ref_in_grow h h' r : memgrow h h' -> own h (rloc r) (DB KMem) -> ref_in h r -> ref_in h' r.
Proof.
  intros [_ G] H R. destruct (G _ H) as [_ [x Hx]]. unfold ref_in in *. rewrite Hx, app_length. lia.
Qed.

Lemma deref_grow h h' r : memgrow h h' -> own h (rloc r) (DB KMem) -> ref_in h r -> deref h' r = deref h r.
Proof.
  intros [_ G] H R. destruct (G _ H) as [_ [x Hx]]. unfold deref. rewrite Hx. apply sub_app. exact R.
Qed.

Lemma ment_ok_grow h h' kv e : memgrow h h' -> own h kv (DB KMem) -> ment_ok h kv e -> ment_ok h' kv e.
Proof.
  intros G H (E1 & E2 & R1 & R2). repeat split; auto; eapply ref_in_grow; eauto; congruence.
Qed.

Lemma memdb_ok_grow h h' m : memgrow h h' -> memdb_ok h m -> memdb_ok h' m.
Proof.
  intros G [H F]. split.
  - apply G; auto.
  - eapply Forall_impl; [|exact F]. intros e He. eapply ment_ok_grow; eauto.
Qed.

Lemma omemdb_ok_grow h h' m : memgrow h h' -> omemdb_ok h m -> omemdb_ok h' m.
Proof. destruct m; simpl; auto. apply memdb_ok_grow. Qed.

Lemma mem_content_grow h h' m : memgrow h h' -> memdb_ok h m -> mem_content h' m = mem_content h m.
Proof.
  intros G [H F]. unfold mem_content. apply map_ext_in. intros e He.
  eapply Forall_forall in F; eauto. destruct F as (E1 & E2 & R1 & R2).
  rewrite (deref_grow h h' (mk e)); auto; try congruence.
  destruct (mdel e); auto. rewrite (deref_grow h h' (mv e)); auto; congruence.
Qed.

Lemma ocontent_grow h h' m : memgrow h h' -> omemdb_ok h m -> ocontent h' m = ocontent h m.
Proof. destruct m; simpl; auto. apply mem_content_grow. Qed.

(* records of a batch under construction: same shape, owner ClientBatch *)
Definition batgrow (h h' : heap) : Prop :=
  forall l, own h l ClientBatch -> own h' l ClientBatch /\ exists x, hget h' l = hget h l ++ x.

Lemma keep_batgrow P h h' : P ClientBatch = true -> keep P h h' -> batgrow h h'.
Proof.
  intros HP K l H. split.
  - eapply keep_own; eauto.
  - exists []. rewrite app_nil_r. eapply keep_get; eauto.
Qed.

Lemma bat_ment_ok_grow h h' bl e : batgrow h h' -> own h bl ClientBatch -> ment_ok h bl e -> ment_ok h' bl e.
Proof.
  intros G H (E1 & E2 & R1 & R2). destruct (G _ H) as [_ [x Hx]].
  repeat split; auto; unfold ref_in in *; rewrite ?E1, ?E2 in *; rewrite Hx, app_length; lia.
Qed.

Lemma bat_content_grow h h' bl recs :
  batgrow h h' -> own h bl ClientBatch -> Forall (ment_ok h bl) recs ->
  mem_content h' {| mkv := bl; mds := recs |} = mem_content h {| mkv := bl; mds := recs |}.
Proof.
  intros G H F. destruct (G _ H) as [_ [x Hx]]. unfold mem_content; simpl. apply map_ext_in. intros e He.
  eapply Forall_forall in F; eauto. destruct F as (E1 & E2 & R1 & R2).
  unfold deref, ref_in in *. rewrite E1, E2 in *. rewrite Hx, !sub_app; auto.
Qed.

(* ---------------------------------------------------------------- frame lemmas: state level *)

Definition files_ext (s s' : state) : Prop := exists x, files s' = files s ++ x.

Lemma files_ext_refl s : files_ext s s.
Proof. exists []. rewrite app_nil_r; auto. Qed.

Lemma file_block_ext s s' tid bi fb : files_ext s s' -> file_block s tid bi = Some fb -> file_block s' tid bi = Some fb.
Proof.
  intros [x E] H. unfold file_block in *. rewrite E.
  destruct (nth_error (files s) tid) eqn:F; try discriminate.
  rewrite (nth_error_app_some _ _ _ _ F). auto.
Qed.

Lemma tab_file_content_ext s s' tid : files_ext s s' -> tid < length (files s) -> tab_file_content s' tid = tab_file_content s tid.
Proof.
  intros [x E] H. unfold tab_file_content. rewrite E, nth_error_app1; auto.
Qed.

Lemma tabs_content_ext s s' tids :
  files_ext s s' -> (forall t, In t tids -> t < length (files s)) -> tabs_content s' tids = tabs_content s tids.
Proof.
  intros E H. unfold tabs_content. induction tids as [|t ts IH]; simpl; auto.
  rewrite (tab_file_content_ext s s'); auto; [|apply H; simpl; auto].
  rewrite IH; auto. intros; apply H; simpl; auto.
Qed.

Lemma cache_ok_frame s s' :
  cache_ok s -> keep blockish (hp s) (hp s') -> cache s' = cache s -> files_ext s s' -> cache_ok s'.
Proof.
  intros [N C] K Ec Ef. split; rewrite Ec; auto.
  intros tid bi l H. destruct (C _ _ _ H) as [O [fb [F G]]]. split.
  - eapply keep_own; eauto.
  - exists fb. split; [eapply file_block_ext; eauto|]. rewrite <- G. eapply keep_get; eauto.
Qed.

Lemma pool_ok_frame s s' : pool_ok s -> keep blockish (hp s) (hp s') -> pool s' = pool s -> pool_ok s'.
Proof.
  intros [N P] K E. split; rewrite E; auto. intros l H. eapply keep_own; eauto.
Qed.

Lemma blockinv_frame c s s' :
  blockinv c s -> keep blockish (hp s) (hp s') -> cache s' = cache s -> pool s' = pool s -> files_ext s s' -> blockinv c s'.
Proof.
  intros (C & P & E1 & E2) K Ec Ep Ef. split; [|split; [|split]].
  - eapply cache_ok_frame; eauto.
  - eapply pool_ok_frame; eauto.
  - rewrite Ec; auto.
  - rewrite Ep; auto.
Qed.

Lemma src_ok_frame s s' x : memgrow (hp s) (hp s') -> files_ext s s' -> src_ok s x -> src_ok s' x.
Proof.
  intros G Ef. destruct x as [e|tid bi d]; simpl.
  - intros [O M]. split; [apply G; auto|]. eapply ment_ok_grow; eauto.
  - intros [fb F]. exists fb. eapply file_block_ext; eauto.
Qed.

Definition iterbufs_kept (s s' : state) : Prop :=
  forall l, own (hp s) l (DB KIter) -> own (hp s') l (DB KIter) /\ hget (hp s') l = hget (hp s) l.

Lemma keep_iterbufs P s s' : P (DB KIter) = true -> keep P (hp s) (hp s') -> iterbufs_kept s s'.
Proof. intros HP K l H. split; [eapply keep_own|eapply keep_get]; eauto. Qed.

Definition bufs_kept (s s' : state) (it : iter) : Prop :=
  (own (hp s') (ikbuf it) (DB KIter) /\ hget (hp s') (ikbuf it) = hget (hp s) (ikbuf it)) /\
  (own (hp s') (ivbuf it) (DB KIter) /\ hget (hp s') (ivbuf it) = hget (hp s) (ivbuf it)).

Lemma iterbufs_bufs_kept s s' it : iterbufs_kept s s' -> iter_ok s it -> bufs_kept s s' it.
Proof. intros K (O1 & O2 & _). split; apply K; auto. Qed.

Lemma iter_ok_frame1 s s' it :
  memgrow (hp s) (hp s') -> bufs_kept s s' it -> files_ext s s' -> iter_ok s it -> iter_ok s' it.
Proof.
  intros G [[K1 _] [K2 _]] Ef (O1 & O2 & E1 & E2 & F). repeat split; auto.
  eapply Forall_impl; [|exact F]. intros x Hx. eapply src_ok_frame; eauto.
Qed.

Lemma iter_ok_frame s s' it :
  memgrow (hp s) (hp s') -> iterbufs_kept s s' -> files_ext s s' -> iter_ok s it -> iter_ok s' it.
Proof. intros G K Ef I. eapply iter_ok_frame1; eauto. apply iterbufs_bufs_kept; auto. Qed.

Lemma iters_ok_frame s s' :
  memgrow (hp s) (hp s') -> iterbufs_kept s s' -> files_ext s s' -> iters s' = iters s -> iters_ok s -> iters_ok s'.
Proof.
  intros G K Ef Ei [F N]. split; rewrite Ei; auto.
  eapply Forall_impl; [|exact F]. intros it Hit. eapply iter_ok_frame; eauto.
Qed.

Lemma src_key_frame s s' x : memgrow (hp s) (hp s') -> files_ext s s' -> src_ok s x -> src_key s' x = src_key s x.
Proof.
  intros G Ef. destruct x as [e|tid bi d]; simpl.
  - intros [O (E1 & E2 & R1 & R2)]. apply deref_grow; auto.
  - intros [fb F]. rewrite F, (file_block_ext s s' _ _ _ Ef F). auto.
Qed.

Lemma src_val_frame s s' x : memgrow (hp s) (hp s') -> files_ext s s' -> src_ok s x -> src_val s' x = src_val s x.
Proof.
  intros G Ef. destruct x as [e|tid bi d]; simpl.
  - intros [O (E1 & E2 & R1 & R2)]. apply deref_grow; auto. congruence.
  - intros [fb F]. rewrite F, (file_block_ext s s' _ _ _ Ef F). auto.
Qed.

Lemma iter_rel_frame1 s s' it si :
  memgrow (hp s) (hp s') -> bufs_kept s s' it -> files_ext s s' -> iter_ok s it ->
  iter_rel s it si -> iter_rel s' it si.
Proof.
  intros G [[_ K1] [_ K2]] Ef (O1 & O2 & E1 & E2 & F) (L & P & S & Ks & X).
  split; [auto|]. split; [auto|]. split; [|split].
  - rewrite <- S. apply pmap_ext. intros x Hx. eapply Forall_forall in F; eauto. eapply src_val_frame; eauto.
  - apply Forall_forall. intros x Hx. rewrite src_key_frame with (s := s); auto.
    + eapply Forall_forall in Ks; eauto.
    + eapply Forall_forall in F; eauto.
  - intros p k v Hp Hn. destruct (X _ _ _ Hp Hn) as [A1 A2]. split.
    + rewrite <- A1. unfold deref. rewrite E1, K1. auto.
    + rewrite <- A2. unfold deref. rewrite E2, K2. auto.
Qed.

Lemma iter_rel_frame s s' it si :
  memgrow (hp s) (hp s') -> iterbufs_kept s s' -> files_ext s s' -> iter_ok s it ->
  iter_rel s it si -> iter_rel s' it si.
Proof. intros G K Ef I. eapply iter_rel_frame1; eauto. apply iterbufs_bufs_kept; auto. Qed.

Lemma iters_rel_frame s s' sits0 :
  memgrow (hp s) (hp s') -> iterbufs_kept s s' -> files_ext s s' -> iters s' = iters s -> iters_ok s ->
  Forall2 (iter_rel s) (iters s) sits0 -> Forall2 (iter_rel s') (iters s') sits0.
Proof.
  intros G K Ef Ei [F _] R. rewrite Ei. clear Ei.
  induction R; constructor.
  - inversion F; subst. eapply iter_rel_frame; eauto.
  - inversion F; subst. apply IHR; auto.
Qed.

Lemma content_frame s s' :
  memgrow (hp s) (hp s') -> files_ext s s' -> mem s' = mem s -> frozen s' = frozen s -> l0 s' = l0 s -> deep s' = deep s ->
  memdb_ok (hp s) (mem s) -> omemdb_ok (hp s) (frozen s) -> tids_ok s -> content s' = content s.
Proof.
  intros G Ef Em Efz El Ed M Fz T. unfold content. rewrite Em, Efz, El, Ed.
  rewrite (mem_content_grow (hp s) (hp s')), (ocontent_grow (hp s) (hp s')) by auto.
  rewrite (tabs_content_ext s s'); auto.
  intros t Ht. apply T. rewrite app_assoc. apply in_or_app; auto.
Qed.

(* a state change that leaves everything but block buffers, cache, pool and the client's list alone *)
Record quiet (s s' : state) : Prop := {
  q_keep : keep nonblock (hp s) (hp s');
  q_mem : mem s' = mem s;
  q_frozen : frozen s' = frozen s;
  q_files : files s' = files s;
  q_l0 : l0 s' = l0 s;
  q_deep : deep s' = deep s;
  q_wbatch : wbatch s' = wbatch s;
  q_iters : iters s' = iters s;
  q_txn : txn s' = txn s;
  q_cbatch : cbatch s' = cbatch s
}.

Lemma quiet_refl s : quiet s s.
Proof. constructor; auto. apply keep_refl. Qed.

Lemma quiet_trans s1 s2 s3 : quiet s1 s2 -> quiet s2 s3 -> quiet s1 s3.
Proof.
  intros A B. destruct A, B. constructor; try congruence. eapply keep_trans; eauto.
Qed.

Lemma quiet_files_ext s s' : quiet s s' -> files_ext s s'.
Proof. intros Q. exists []. rewrite app_nil_r. apply Q. Qed.

Lemma quiet_memgrow s s' : quiet s s' -> memgrow (hp s) (hp s').
Proof. intros Q. eapply keep_memgrow; [|apply Q]. auto. Qed.

Lemma quiet_iterbufs s s' : quiet s s' -> iterbufs_kept s s'.
Proof. intros Q. eapply keep_iterbufs; [|apply Q]. auto. Qed.

Lemma quiet_file_block s s' tid bi : quiet s s' -> file_block s' tid bi = file_block s tid bi.
Proof. intros Q. unfold file_block. rewrite (q_files _ _ Q). auto. Qed.

Lemma quiet_content s s' c : quiet s s' -> Inv c s -> content s' = content s.
Proof.
  intros Q I. apply content_frame; try apply Q; try apply I.
  - apply quiet_memgrow; auto.
  - apply quiet_files_ext; auto.
Qed.

Lemma quiet_tabs_content s s' tids : quiet s s' -> tabs_content s' tids = tabs_content s tids.
Proof.
  intros Q. unfold tabs_content, tab_file_content. rewrite (q_files _ _ Q). auto.
Qed.

(* Inv and Rel through a quiet change, given the parts that did move *)
Lemma inv_quiet c s s' :
  Inv c s -> quiet s s' -> blockinv c s' -> (forall r, In r (cvis s') -> own (hp s') (rloc r) Client) -> Inv c s'.
Proof.
  intros I Q B V.
  pose proof (quiet_memgrow _ _ Q) as G.
  constructor; auto.
  - rewrite (q_mem _ _ Q). eapply memdb_ok_grow; eauto. apply I.
  - rewrite (q_frozen _ _ Q). eapply omemdb_ok_grow; eauto. apply I.
  - rewrite (q_txn _ _ Q). eapply omemdb_ok_grow; eauto. apply I.
  - rewrite (q_wbatch _ _ Q). eapply keep_own; [apply Q|apply I|auto].
  - eapply iters_ok_frame; eauto; try apply Q; try apply I.
    + apply quiet_iterbufs; auto.
    + apply quiet_files_ext; auto.
  - unfold tids_ok, txn_tabs. rewrite (q_l0 _ _ Q), (q_deep _ _ Q), (q_txn _ _ Q), (q_files _ _ Q). apply I.
  - unfold cbatch_ok. rewrite (q_cbatch _ _ Q). pose proof (i_cbatch _ _ I) as CB. unfold cbatch_ok in CB.
    destruct (cbatch s) as [[bl recs]|]; auto. destruct CB as [O F]. split.
    + eapply keep_own; [apply Q|eauto|auto].
    + eapply Forall_impl; [|exact F]. intros e He. eapply bat_ment_ok_grow; eauto.
      eapply keep_batgrow; [|apply Q]. auto.
  - rewrite (q_txn _ _ Q). intros H. unfold empty_mems. rewrite (q_mem _ _ Q), (q_frozen _ _ Q). apply I; auto.
Qed.

Lemma rel_quiet c s s' sp : Inv c s -> quiet s s' -> Rel s sp -> Rel s' sp.
Proof.
  intros I Q R.
  pose proof (quiet_memgrow _ _ Q) as G.
  constructor.
  - rewrite (quiet_content _ _ _ Q I). apply R.
  - rewrite (q_txn _ _ Q). pose proof (r_txn _ _ R) as T. pose proof (i_txn _ _ I) as IT.
    destruct (txn s) as [t|]; destruct (stxn sp); auto.
    unfold txn_content in *. rewrite (quiet_content _ _ _ Q I), (quiet_tabs_content _ _ _ Q).
    rewrite (mem_content_grow (hp s) (hp s')); auto.
  - rewrite (q_cbatch _ _ Q). pose proof (r_bat _ _ R) as B. pose proof (i_cbatch _ _ I) as CB. unfold cbatch_ok in CB.
    destruct (cbatch s) as [[bl recs]|]; auto. destruct CB as [O F].
    rewrite <- B. eapply bat_content_grow; eauto. eapply keep_batgrow; [|apply Q]. auto.
  - eapply iters_rel_frame; eauto; try apply Q; try apply I; try apply R.
    + apply quiet_iterbufs; auto.
    + apply quiet_files_ext; auto.
Qed.

(* ---------------------------------------------------------------- write-side frame *)

(* cells whose bytes something depends on exactly: block buffers and iterator buffers *)
Definition wk (o : owner) : bool := match o with Pool | Cache | DB KBlock | DB KIter => true | _ => false end.

(* a change of the heap by a write call or a client scribble: arenas and batch buffers grow, block and
   iterator buffers are untouched, no cell changes owner; tables, cache, pool, iterators stay *)
Record wframe (s s' : state) : Prop := {
  w_grow : memgrow (hp s) (hp s');
  w_keep : keep wk (hp s) (hp s');
  w_own : forall l o, own (hp s) l o -> own (hp s') l o;
  w_bat : batgrow (hp s) (hp s');
  w_frozen : frozen s' = frozen s;
  w_files : files s' = files s;
  w_l0 : l0 s' = l0 s;
  w_deep : deep s' = deep s;
  w_cache : cache s' = cache s;
  w_pool : pool s' = pool s;
  w_wbatch : wbatch s' = wbatch s;
  w_iters : iters s' = iters s
}.

Lemma wframe_files_ext s s' : wframe s s' -> files_ext s s'.
Proof. intros W. exists []. rewrite app_nil_r. apply W. Qed.

Lemma wframe_iterbufs s s' : wframe s s' -> iterbufs_kept s s'.
Proof. intros W. eapply keep_iterbufs; [|apply W]. auto. Qed.

Lemma wframe_blockinv c s s' : wframe s s' -> blockinv c s -> blockinv c s'.
Proof.
  intros W B. eapply blockinv_frame; eauto; try apply W.
  - eapply keep_weaken; [|apply W]. intros [| |[]| |]; simpl; auto; discriminate.
  - apply wframe_files_ext; auto.
Qed.

Lemma wframe_tabs_content s s' tids : wframe s s' -> tabs_content s' tids = tabs_content s tids.
Proof. intros W. unfold tabs_content, tab_file_content. rewrite (w_files _ _ W). auto. Qed.

Lemma wframe_iters_ok s s' : wframe s s' -> iters_ok s -> iters_ok s'.
Proof.
  intros W I. apply (iters_ok_frame s s'); auto; try apply W.
  - apply wframe_iterbufs; auto.
  - apply wframe_files_ext; auto.
Qed.

Lemma wframe_iters_rel s s' sits0 :
  wframe s s' -> iters_ok s -> Forall2 (iter_rel s) (iters s) sits0 -> Forall2 (iter_rel s') (iters s') sits0.
Proof.
  intros W I R. apply (iters_rel_frame s s'); auto; try apply W.
  - apply wframe_iterbufs; auto.
  - apply wframe_files_ext; auto.
Qed.

Lemma wframe_cbatch_ok s s' : wframe s s' -> cbatch s' = cbatch s -> cbatch_ok s -> cbatch_ok s'.
Proof.
  intros W E CB. unfold cbatch_ok in *. rewrite E. destruct (cbatch s) as [[bl recs]|]; auto.
  destruct CB as [O F]. split.
  - apply W; auto.
  - eapply Forall_impl; [|exact F]. intros e He. eapply bat_ment_ok_grow; eauto. apply W.
Qed.

Lemma wframe_bat_content s s' bl recs :
  wframe s s' -> own (hp s) bl ClientBatch -> Forall (ment_ok (hp s) bl) recs ->
  mem_content (hp s') {| mkv := bl; mds := recs |} = mem_content (hp s) {| mkv := bl; mds := recs |}.
Proof. intros W O F. eapply bat_content_grow; eauto. apply W. Qed.

(* Inv through a write frame, given the parts that moved *)
Lemma inv_wframe c s s' :
  Inv c s -> wframe s s' ->
  memdb_ok (hp s') (mem s') ->
  omemdb_ok (hp s') (option_map tmem (txn s')) ->
  txn_tabs s' = txn_tabs s ->
  cbatch_ok s' ->
  (forall r, In r (cvis s') -> own (hp s') (rloc r) Client) ->
  (txn s' <> None -> empty_mems s') ->
  Inv c s'.
Proof.
  intros I W M T TT CB V Q. constructor; auto.
  - rewrite (w_frozen _ _ W). eapply omemdb_ok_grow; [apply W|apply I].
  - eapply wframe_blockinv; eauto. apply I.
  - rewrite (w_wbatch _ _ W). apply W. apply I.
  - eapply wframe_iters_ok; eauto. apply I.
  - unfold tids_ok. rewrite TT, (w_l0 _ _ W), (w_deep _ _ W), (w_files _ _ W). apply I.
Qed.

Lemma wframe_ocontent_frozen c s s' : Inv c s -> wframe s s' -> ocontent (hp s') (frozen s') = ocontent (hp s) (frozen s).
Proof. intros I W. rewrite (w_frozen _ _ W). apply ocontent_grow; [apply W|apply I]. Qed.

(* generic list facts used by the step proofs *)
Lemma Forall2_replace_nth {A B} (R : A -> B -> Prop) i l1 l2 x y :
  Forall2 R l1 l2 -> R x y -> Forall2 R (replace_nth i l1 x) (replace_nth i l2 y).
Proof.
  intros F. revert i. induction F; intros [|i] Hxy; simpl; constructor; auto.
Qed.

Lemma Forall_replace_nth {A} (P : A -> Prop) i l x : Forall P l -> P x -> Forall P (replace_nth i l x).
Proof.
  intros F. revert i. induction F; intros [|i] Hx; simpl; constructor; auto.
Qed.

Lemma Forall2_nth {A B} (R : A -> B -> Prop) l1 l2 i x :
  Forall2 R l1 l2 -> nth_error l1 i = Some x -> exists y, nth_error l2 i = Some y /\ R x y.
Proof.
  intros F. revert i. induction F; intros [|i] Hn; simpl in *; try discriminate.
  - injection Hn as <-. eauto.
  - apply IHF; auto.
Qed.

Lemma Forall2_nth_none {A B} (R : A -> B -> Prop) l1 l2 i :
  Forall2 R l1 l2 -> nth_error l1 i = None -> nth_error l2 i = None.
Proof.
  intros F. revert i. induction F; intros [|i] Hn; simpl in *; try discriminate; auto.
Qed.

Lemma iter_bufs_replace i its it it' :
  nth_error its i = Some it -> ikbuf it' = ikbuf it -> ivbuf it' = ivbuf it ->
  iter_bufs (replace_nth i its it') = iter_bufs its.
Proof.
  revert i. induction its as [|x its IH]; intros [|i] H E1 E2; simpl in *; try discriminate; auto.
  - injection H as ->. rewrite E1, E2. auto.
  - rewrite (IH i); auto.
Qed.
