(* Alias/ApiModes.v — property C20, part c: per API method, what its doc comment PROMISES about the buffers that cross
   the boundary, and what the code DELIVERS (read off the copy/slice tables: [fixed_modes] of Alias/AliasModel.v for the
   write side and DB.Get, [xfixed] of Alias/XModel.v for snapshot / transaction reads and iterators in both
   directions).  Model file: definitions only (proofs in Alias/ApiProofs.v).

   The doc comments (leveldb/db.go, db_write.go, batch.go, db_snapshot.go, db_transaction.go, iterator/iter.go):
     DB.Get, Transaction.Get     "The returned slice is its own copy, it is safe to modify the contents of the returned
                                  slice.  It is safe to modify the contents of the argument after Get returns."
     Snapshot.Get                "The caller should not modify the contents of the returned slice, but it is safe to modify
                                  the contents of the argument after Get returns."   (the same DB.get underneath)
     Has (all three)             "It is safe to modify the contents of the argument after Has returns."
     Iterator.Key / Value        "The caller should not modify the contents of the returned slice, and its contents may
                                  change on the next call to any 'seeks method'."  (DB / Snapshot / Transaction
                                  .NewIterator: "Any slice returned by interator ... its content should not be modified".)
                                  Release is not a seeks method (First, Last, Seek, Next, Prev are).
     Iterator.Seek               "It is safe to modify the contents of the argument after Seek returns."
     DB.Put / Delete / Write     "It is safe to modify the contents of the arguments after Put returns but not before."
                                 Write: "Write will not modify content of the batch."
     Batch.Put / Delete          "It is safe to modify the contents of the argument after Put returns but not before."
     Transaction.Put/Delete/Write "It is safe to modify the contents of the arguments after Put returns."
     Batch.Dump / Batch.Load     documented sharing ("not its own copy" / "will not be copied"): outside the property.
     NewIterator(slice *util.Range, ...)   nothing is said about the Range; the code copies Start and Limit
                                 (makeInternalKey(nil, ...)). *)
From GL Require Import Alias.Heap Alias.AliasModel Alias.XModel.

Inductive api :=
| ApiGet (k : acckind)                   (* result of DB.Get / Snapshot.Get / Transaction.Get *)
| ApiGetKey (k : acckind)                (* key argument of Get / Has *)
| ApiIterKey (k : acckind) (d : idir)    (* Key() of an iterator of DB / Snapshot / Transaction after a forward / backward move *)
| ApiIterValue (k : acckind) (d : idir)
| ApiSeekKey                             (* argument of Iterator.Seek *)
| ApiRange                               (* Start / Limit of the util.Range given to NewIterator *)
| ApiPutArg                              (* key / value of DB.Put, DB.Delete *)
| ApiWriteBatch                          (* the Batch given to DB.Write *)
| ApiBatchArg                            (* key / value of Batch.Put, Batch.Delete *)
| ApiTxnPutArg                           (* key / value of Transaction.Put / Delete, the Batch of Transaction.Write *).

Inductive promise :=
| POwnCopy          (* "its own copy, it is safe to modify" *)
| PReadOnly         (* "should not modify"; nothing about its life time *)
| PUntilSeek        (* "should not modify, and its contents may change on the next call to any 'seeks method'" *)
| PFreeAfterReturn  (* "safe to modify the contents of the argument after the call returns (but not before)" *)
| PUnstated.        (* the doc comment is silent *)

Definition promised (a : api) : promise :=
  match a with
  | ApiGet KDB | ApiGet KTxn => POwnCopy
  | ApiGet KSnap => PReadOnly
  | ApiGetKey _ | ApiSeekKey | ApiPutArg | ApiWriteBatch | ApiBatchArg | ApiTxnPutArg => PFreeAfterReturn
  | ApiIterKey _ _ | ApiIterValue _ _ => PUntilSeek
  | ApiRange => PUnstated
  end.

(* what the code does *)
Inductive delivery :=
| DFreshCopy        (* a newly allocated exact copy that nothing else refers to *)
| DPrivateBlock     (* a slice of a block buffer that nothing else refers to any more (no pool, no cache) *)
| DIterBuffer       (* a copy in the iterator's own buffer: rewritten by that iterator's next movement only, dropped
                       (not pooled) at Release *)
| DArgCopied        (* the argument is copied before the call returns (for a merged writer: before it is
                       acknowledged); nothing keeps a reference *)
| DShared.          (* a slice of memory the DB goes on using *)

(* where the data is when a read finds it: a write buffer, or a table *)
Inductive dplace := InMem | InTable.

Definition of_mode_get (m : mode) (c : config) (p : dplace) : delivery :=
  match m, p with
  | Copy, _ => DFreshCopy
  | Slice, InTable => if pool_on c || cache_on c then DShared else DPrivateBlock
  | Slice, InMem => DShared
  end.

Definition of_mode_iter (m : mode) : delivery := match m with Copy => DIterBuffer | Slice => DShared end.
Definition of_mode_arg (m : mode) : delivery := match m with Copy => DArgCopied | Slice => DShared end.

(* the tables consulted: [md] for the paths of Alias/AliasModel.v, [xmd] for those of Alias/XModel.v *)
Definition delivered (md : modes) (xmd : xmodes) (a : api) (c : config) (p : dplace) : delivery :=
  match a with
  | ApiGet k => of_mode_get (xmd (match p with InMem => XPGetMem k | InTable => XPGetTable k end) c) c p
  | ApiIterKey k d => of_mode_iter (xmd (XPIterKey k d) c)
  | ApiIterValue k d => of_mode_iter (xmd (XPIterValue k d) c)
  | ApiPutArg => match md PPutRec c with Copy => DArgCopied | Slice => of_mode_arg (md PMemPut c) end
  | ApiWriteBatch => of_mode_arg (md PMemPut c)
  | ApiBatchArg => of_mode_arg (md PBatchAppend c)
  | ApiTxnPutArg => of_mode_arg (xmd XPMemPut c)
  | ApiGetKey _ | ApiSeekKey | ApiRange => DArgCopied      (* makeInternalKey(nil, key, ...) *)
  end.

(* does a delivery honour a promise? *)
Definition honours (d : delivery) (p : promise) : bool :=
  match d, p with
  | DShared, _ => false
  | (DFreshCopy | DPrivateBlock), (POwnCopy | PReadOnly | PUntilSeek) => true
  | DIterBuffer, PUntilSeek => true
  | DArgCopied, (PFreeAfterReturn | PUnstated) => true
  | _, _ => false
  end.

(* is a delivery strictly more than what is promised?  (the client may even overwrite the slice) *)
Definition stronger_than_promised (d : delivery) (p : promise) : bool :=
  match d, p with
  | (DFreshCopy | DPrivateBlock), (PReadOnly | PUntilSeek) => true
  | DArgCopied, PUnstated => true
  | _, _ => false
  end.
