(* Alias/Heap.v — the heap of the ownership model for property C20: locations holding byte
   strings, each with an owner tag, and references (slices) into them.
   Model file: definitions only (proofs in Alias/AliasProofs.v).

   A location stands for one Go allocation (the backing array of a []byte).  A [ref] is a Go
   slice restricted to what matters here: backing array, offset, length; its capacity is
   "up to the end of the array" (the client action [scribble] may write there).
   Locations are never freed (garbage collection is outside the model). *)
From GL Require Export Base.Bytes.
Local Open Scope nat_scope.

(* what a DB-owned buffer is used for *)
Inductive dbkind :=
| KMem      (* key/value arena (kvData) of a write buffer *)
| KIter     (* dbIter.key / dbIter.value *)
| KBatch    (* buffer of the pooled batch used by putRec *)
| KBlock.   (* a table block buffer in use by a read (neither pooled nor cached right now) *)

Inductive owner :=
| Client                (* allocated by / handed over to the client: it may overwrite it *)
| ClientBatch           (* buffer of a Batch object the client is still filling (Batch.Put/Delete) *)
| DB (k : dbkind)
| Pool                  (* sitting in util.BufferPool, free for reuse *)
| Cache.                (* held by the block cache *)

Definition dbkind_eqb (a b : dbkind) : bool :=
  match a, b with
  | KMem, KMem | KIter, KIter | KBatch, KBatch | KBlock, KBlock => true
  | _, _ => false
  end.

Definition owner_eqb (a b : owner) : bool :=
  match a, b with
  | Client, Client | ClientBatch, ClientBatch | Pool, Pool | Cache, Cache => true
  | DB x, DB y => dbkind_eqb x y
  | _, _ => false
  end.

Definition is_client (o : owner) : bool := match o with Client | ClientBatch => true | _ => false end.

Record cell := { cbytes : bytes; cown : owner }.
Definition heap := list cell.
Definition loc := nat.

Definition hget (h : heap) (l : loc) : bytes :=
  match nth_error h l with Some c => cbytes c | None => [] end.
Definition hown (h : heap) (l : loc) : option owner :=
  match nth_error h l with Some c => Some (cown c) | None => None end.

(* make([]byte, ...) filled with b *)
Definition halloc (h : heap) (b : bytes) (o : owner) : heap * loc :=
  (h ++ [{| cbytes := b; cown := o |}], length h).

Fixpoint hupd (h : heap) (l : loc) (f : cell -> cell) : heap :=
  match h, l with
  | [], _ => []
  | c :: t, O => f c :: t
  | c :: t, S l' => c :: hupd t l' f
  end.

Definition hset (h : heap) (l : loc) (b : bytes) : heap :=
  hupd h l (fun c => {| cbytes := b; cown := cown c |}).
Definition hchown (h : heap) (l : loc) (o : owner) : heap :=
  hupd h l (fun c => {| cbytes := cbytes c; cown := o |}).
Definition hfill (h : heap) (l : loc) (b : bytes) (o : owner) : heap :=
  hupd h l (fun _ => {| cbytes := b; cown := o |}).

(* ---- references (slices) ---- *)
Record ref := { rloc : loc; roff : nat; rlen : nat }.

Definition sub (b : bytes) (off len : nat) : bytes := firstn len (skipn off b).
Definition deref (h : heap) (r : ref) : bytes := sub (hget h (rloc r)) (roff r) (rlen r).
Definition whole (h : heap) (l : loc) : ref := {| rloc := l; roff := 0; rlen := length (hget h l) |}.

(* write g at offset off, clipped to the length of the array: any write through a slice,
   including writes into its spare capacity (append within capacity) *)
Definition overwrite (b : bytes) (off : nat) (g : bytes) : bytes :=
  let g' := firstn (length b - off) g in
  firstn off b ++ g' ++ skipn (off + length g') b.

(* append(dst, src...) on the array behind l, abstracting reallocation *)
Definition happend (h : heap) (l : loc) (b : bytes) : heap := hset h l (hget h l ++ b).
