(* Alias/MergeProofs.v — proofs about Alias/MergeModel.v (property C20, the write-merge path).
   1. protocol level (no memory): whoever is in a leader's group before unlockWrite is still inside its call
      (group_waiting), hence every read of caller memory happens while that caller's call is in progress
      (reads_in_call), and none after its acknowledgement was sent (no_read_after_ack).
   2. memory level, the code's order: every copy the DB makes (journal record, write buffer, pooled batch) is a copy of
      what the caller passed, whatever the clients scribble once their calls returned (copies_are_args_inv).
   3. the pooled batches have one owner (pooled_single_owner).
   4. the two re-orderings are refuted by a run each. *)
From Coq Require Import List NArith Bool Arith Lia Permutation.
From GL Require Import Base.Bytes Conc.WriteMerge Conc.WriteMergeProofs Alias.MergeModel.
Import ListNotations.
Local Open Scope nat_scope.

(* ------------------------------------------------------------------ 1. protocol level *)

(* the leader's local variables while it may still read its group's batches (before unlockWrite) *)
Definition mctx (p : wpc) : option lctx :=
  match p with
  | WLMerge c | WLReply c _ | WLJournal c | WLApply c | WLPublish c | WLRotate c => Some c
  | _ => None
  end.

Definition group_waiting (L : list writer) : Prop :=
  forall l wl c, nth_error L l = Some wl -> mctx (pc wl) = Some c ->
  forall y, In y (lreplied c) -> exists wy, nth_error L y = Some wy /\ pc wy = WWaitAck.

Lemma mctx_holds p c : mctx p = Some c -> holdsp p = 1.
Proof. destruct p; simpl; intros H; try discriminate; reflexivity. Qed.

Lemma group_waiting_init n : group_waiting (ws (init n)).
Proof.
  intros l wl c H Hc. simpl in H. apply nth_error_In in H. apply repeat_spec in H. subst. discriminate.
Qed.

(* a writer that is not waiting for an acknowledgement changes; if it is a leader afterwards, the members of
   its group were members before or are waiting for their acknowledgement *)
Lemma gw_upd1 L i w w' :
  group_waiting L -> nth_error L i = Some w -> pc w <> WWaitAck ->
  (forall c' y, mctx (pc w') = Some c' -> In y (lreplied c') ->
     (exists c, mctx (pc w) = Some c /\ In y (lreplied c)) \/
     (exists wy, y <> i /\ nth_error L y = Some wy /\ pc wy = WWaitAck)) ->
  group_waiting (upd L i w').
Proof.
  intros G Hi Hp Hc l wl c Hl Hm y Hy.
  assert (Hkeep : forall wy, nth_error L y = Some wy -> pc wy = WWaitAck ->
                  exists wy', nth_error (upd L i w') y = Some wy' /\ pc wy' = WWaitAck).
  { intros wy Hwy Hpy. exists wy. split; auto. rewrite nth_upd_other; auto.
    intros <-. rewrite Hi in Hwy. inversion Hwy; subst. auto. }
  apply nth_upd_inv in Hl. destruct Hl as [[-> ->]|[Hne Hl]].
  - destruct (Hc c y Hm Hy) as [(c0 & Hc0 & Hy0)|(wy & Hn & Hwy & Hpy)].
    + destruct (G i w c0 Hi Hc0 y Hy0) as (wy & Hwy & Hpy). eauto.
    + eauto.
  - destruct (G l wl c Hl Hm y Hy) as (wy & Hwy & Hpy). eauto.
Qed.

Lemma gw_none L : (forall l wl, nth_error L l = Some wl -> mctx (pc wl) = None) -> group_waiting L.
Proof. intros H l wl c Hl Hm. rewrite (H l wl Hl) in Hm. discriminate. Qed.

Section Protocol.
Variable mp : mparams.

Ltac same_ctx :=
  cbn [pc set_pc mctx]; intros ? ? Hm_ Hy_; try discriminate; left;
  match goal with E : pc _ = _ |- _ => rewrite E end; cbn [mctx]; eauto.

Lemma step_gw s a s' : inv s -> group_waiting (ws s) -> step mp s a = Some s' -> group_waiting (ws s').
Proof.
  intros Hv G H.
  destruct a; unfold step, getw in H; dm; inversion H; subst; clear H;
    cbn [ws setw with_ws with_lock with_env with_logs]; try exact G.
  all: try (eapply gw_upd1; eauto; [congruence | same_ctx]; fail).
  - (* ASelMerge i l *)
    assert (Hn : i <> l) by (apply (pcs_differ (ws s) i l w w0 E E0); congruence).
    eapply gw_upd1; [eapply gw_upd1; eauto; [congruence | same_ctx] | rewrite nth_upd_other by auto; eauto | congruence |].
    cbn [pc set_pc]. unfold merge_decide. intros c' y Hm Hy. left. rewrite E2. cbn [mctx]. exists c. split; auto.
    destruct (llim c <? wsize w)%N; cbn [mctx] in Hm; inversion Hm; subst; cbn [lreplied] in Hy; auto.
  - (* AFlushOk *)
    eapply gw_upd1; eauto; [congruence|]. cbn [pc set_pc]. intros c' y Hm Hy.
    destruct (wmerge w); cbn [mctx] in Hm; inversion Hm; subst; cbn [lreplied] in Hy; contradiction.
  - (* AReplyTrue l i *)
    assert (Hn : i <> l) by (apply (pcs_differ (ws s) i l w0 w E0 E); congruence).
    eapply gw_upd1; [eapply gw_upd1; eauto; [congruence | same_ctx] | rewrite nth_upd_other by auto; eauto | congruence |].
    cbn [pc set_pc mctx]. intros c' y Hm Hy. inversion Hm; subst. cbn [after_reply lreplied] in Hy.
    apply in_app_or in Hy. destruct Hy as [Hy|[<-|[]]].
    + left. rewrite E1. cbn [mctx]. eauto.
    + right. eexists. split; [auto|]. split; [eapply nth_upd_same; eauto|]. reflexivity.
  - (* AAck l i *)
    assert (Hn : i <> l) by (apply (pcs_differ (ws s) i l w0 w E0 E); congruence).
    assert (Hh : holds w = 1) by (unfold holds; rewrite E1; reflexivity).
    destruct (only_leader s l w Hv E Hh) as [Ho _].
    apply gw_none. intros j wj Hj.
    apply nth_upd_inv in Hj. destruct Hj as [[-> ->]|[Hne Hj]]; [reflexivity|].
    apply nth_upd_inv in Hj. destruct Hj as [[-> ->]|[Hne2 Hj]]; [reflexivity|].
    specialize (Ho j wj Hne Hj). unfold holds in Ho.
    destruct (mctx (pc wj)) eqn:Em; auto. apply mctx_holds in Em. lia.
  - (* AHandover l o *)
    assert (Hn : o <> l) by (apply (pcs_differ (ws s) o l w0 w E0 E); congruence).
    eapply gw_upd1; [eapply gw_upd1; eauto; [congruence | same_ctx] | rewrite nth_upd_other by auto; eauto | congruence | same_ctx].
Qed.
End Protocol.

(* ------------------------------------------------------------------ how an action changes a program counter *)

Definition returned (p : wpc) : bool := match p with WRet _ | WDone _ => true | _ => false end.
Definition owns_batch (p : wpc) : Prop := holdsp p = 1 \/ exists e, p = WRet e.

Lemma nth_upd_eq {A} (l : list A) i x : i < length l -> nth_error (upd l i x) i = Some x.
Proof.
  revert i; induction l; intros i H; simpl in H; [lia|]. destruct i; simpl; auto. apply IHl. lia.
Qed.

Lemma nth_some_lt {A} (l : list A) i w : nth_error l i = Some w -> i < length l.
Proof. intros H. apply nth_error_Some. congruence. Qed.

Ltac updcases :=
  repeat match goal with
  | |- context [nth_error (upd ?L ?i ?x) ?i] =>
      rewrite (nth_upd_eq L i x) by (rewrite ?upd_length; eapply nth_some_lt; eassumption)
  | |- context [nth_error (upd ?L ?j ?x) ?i] =>
      destruct (Nat.eq_dec j i) as [?|?];
      [ subst; rewrite nth_upd_eq by (rewrite ?upd_length; eapply nth_some_lt; eassumption)
      | rewrite (nth_upd_other L j i x) by assumption ]
  end.

Ltac oldpc :=
  repeat match goal with
  | E : nth_error ?L ?i = Some ?w, H : context [nth_error ?L ?i] |- _ =>
      lazymatch H with E => fail | _ => rewrite E in H end
  | E : nth_error ?L ?i = Some ?w |- context [nth_error ?L ?i] => rewrite E
  end;
  repeat match goal with
  | E : pc ?w = _, H : context [pc ?w] |- _ => lazymatch H with E => fail | _ => rewrite E in H end
  | E : pc ?w = _ |- context [pc ?w] => rewrite E
  end.

Section Pcs.
Variable mp : mparams.

Ltac open_step H :=
  unfold step, getw in H; dm; inversion H; subst; clear H;
  unfold wpc_of, getw in *; cbn [ws setw with_ws with_lock with_env with_logs] in *.

Lemma step_length s a s' : step mp s a = Some s' -> length (ws s') = length (ws s).
Proof.
  intros H. destruct a; unfold step, getw in H; dm; inversion H; subst; clear H;
    cbn [ws setw with_ws with_lock with_env with_logs]; rewrite ?upd_length; reflexivity.
Qed.

Lemma step_not_idle s a s' i : step mp s a = Some s' -> wpc_of s i <> WIdle -> wpc_of s' i <> WIdle.
Proof.
  intros H Hp. destruct a; open_step H; auto; updcases; oldpc; cbn [pc set_pc]; try congruence;
    try (unfold merge_decide; destruct (llim _ <? _)%N; congruence); try (destruct (wmerge _); congruence).
Qed.

Lemma step_in_call s a s' i : step mp s a = Some s' -> in_call (wpc_of s' i) = true ->
  in_call (wpc_of s i) = true \/ (wpc_of s i = WIdle /\ exists m p z, a = ACall i m p z).
Proof.
  intros H Hp. destruct a; open_step H; auto; revert Hp; updcases; oldpc; cbn [pc set_pc in_call]; auto;
    try discriminate.
  intros _. right. split; auto. eauto.
Qed.

Lemma step_returned s a s' i : step mp s a = Some s' -> returned (wpc_of s i) = true -> returned (wpc_of s' i) = true.
Proof.
  intros H Hp. destruct a; open_step H; auto; revert Hp; updcases; oldpc; cbn [pc set_pc returned]; auto;
    try discriminate.
Qed.

Lemma step_owns s a s' i : step mp s a = Some s' -> owns_batch (wpc_of s i) ->
  owns_batch (wpc_of s' i) \/ a = AReturn i.
Proof.
  unfold owns_batch.
  intros H Hp. destruct a; open_step H; auto; revert Hp; updcases; oldpc; cbn [pc set_pc holdsp]; auto;
    try (intros [Hx|[e Hx]]; discriminate);
    try (intros _; left; left; unfold merge_decide; try destruct (llim _ <? _)%N; try destruct (wmerge _); reflexivity);
    try (intros _; left; right; eauto).
Qed.

Lemma run_gw l : forall s s', inv s -> group_waiting (ws s) -> run mp s l = Some s' -> group_waiting (ws s').
Proof.
  induction l; simpl; intros s s' Hi G H.
  - inversion H; subst; auto.
  - destruct (step mp s a) eqn:E; try discriminate.
    eapply IHl; [| |eauto]; [eapply step_inv; eauto | eapply step_gw; eauto].
Qed.

Lemma reachable_gw n s : reachable mp n s -> group_waiting (ws s).
Proof. intros [l H]. eapply run_gw; [apply inv_init|apply group_waiting_init|eauto]. Qed.

Lemma reachable_P2 n s : reachable mp n s -> P2 (ws s).
Proof.
  intros [l H]. destruct (run_P2 mp l _ _ (inv_init n) (P2_init n) (Forall_nil _) H) as [HP _]. exact HP.
Qed.

Lemma reachable_step n s a s' : reachable mp n s -> step mp s a = Some s' -> reachable mp n s'.
Proof.
  intros [l H] E. exists (l ++ [a]).
  assert (G : forall l s0, run mp s0 l = Some s -> run mp s0 (l ++ [a]) = Some s').
  { induction l0; simpl; intros s0 H0.
    - inversion H0; subst. rewrite E. reflexivity.
    - destruct (step mp s0 a0); try discriminate. auto. }
  auto.
Qed.

(* every member of the group of a leader that has not reached unlockWrite is inside its call *)
Lemma group_in_call n s l wl c : reachable mp n s -> nth_error (ws s) l = Some wl -> mctx (pc wl) = Some c ->
  forall y, In y (lbatches c) -> in_call (wpc_of s y) = true.
Proof.
  intros R Hl Hm y Hy. pose proof (reachable_P2 n s R l wl Hl) as HP. pose proof (reachable_gw n s R l wl c Hl Hm) as G.
  assert (Hself : in_call (wpc_of s l) = true).
  { unfold wpc_of, getw. rewrite Hl. destruct (pc wl); simpl in Hm; try discriminate; reflexivity. }
  assert (Hrep : forall z, In z (lreplied c) -> in_call (wpc_of s z) = true).
  { intros z Hz. destruct (G z Hz) as (wz & Hwz & Hpz). unfold wpc_of, getw. rewrite Hwz, Hpz. reflexivity. }
  destruct (pc wl) eqn:Ep; simpl in Hm; try discriminate; inversion Hm; subst; cbn [lead_ok] in HP.
  1,3-6: rewrite HP in Hy; destruct Hy as [<-|Hy]; auto.
  destruct HP as [Hb (wx & Hwx & Hpx)]. rewrite Hb in Hy. destruct Hy as [<-|Hy]; auto.
  apply in_app_or in Hy. destruct Hy as [Hy|[<-|[]]]; auto.
  unfold wpc_of, getw. rewrite Hwx, Hpx. reflexivity.
Qed.

Lemma ctx_of_mctx p c : ctx_of p = Some c -> mctx p = Some c \/ exists k e, p = WLUnlock c k e.
Proof. destruct p; simpl; intros H; inversion H; subst; eauto. Qed.

(* T1: the DB reads a caller's memory only while that caller's call is in progress *)
Theorem reads_in_call n s a s' i : reachable mp n s -> step mp s a = Some s' -> In i (mreads s a) ->
  in_call (wpc_of s i) = true.
Proof.
  intros R H Hi. destruct a; simpl in Hi; try contradiction.
  all: unfold own_if_write in Hi.
  all: try (repeat match type of Hi with context [if ?b then _ else _] => destruct b end; try contradiction;
            destruct Hi as [<-|[]]; open_step H; oldpc; reflexivity).
  all: match type of Hi with context [ctx_of (wpc_of _ ?l)] =>
       destruct (ctx_of (wpc_of s l)) eqn:Ec; [|contradiction];
       unfold batch_owners in Hi; apply filter_In in Hi; destruct Hi as [Hi _];
       unfold step, getw in H; dm; inversion H; subst; clear H; unfold wpc_of, getw in Ec;
       match goal with E : nth_error (ws _) l = Some ?w, E0 : pc ?w = _ |- _ =>
         rewrite E, E0 in Ec; simpl in Ec; inversion Ec; subst;
         eapply (group_in_call n s l w); eauto; rewrite E0; reflexivity
       end end.
Qed.

Lemma run_returned l : forall s s' i, run mp s l = Some s' -> returned (wpc_of s i) = true -> returned (wpc_of s' i) = true.
Proof.
  induction l; simpl; intros s s' i H Hr.
  - inversion H; subst; auto.
  - destruct (step mp s a) eqn:E; try discriminate. eapply IHl; eauto. eapply step_returned; eauto.
Qed.

Lemma run_reachable l : forall n s s', reachable mp n s -> run mp s l = Some s' -> reachable mp n s'.
Proof.
  induction l; simpl; intros n s s' R H.
  - inversion H; subst; auto.
  - destruct (step mp s a) eqn:E; try discriminate. eapply IHl; [|eauto]. eapply reachable_step; eauto.
Qed.

Lemma returned_not_in_call p : returned p = true -> in_call p = false.
Proof. destruct p; simpl; auto; discriminate. Qed.

(* T1, trace form: once the acknowledgement of writer i has been SENT (the rendezvous on writeAckC), no later
   action of anybody reads i's memory *)
Theorem no_read_after_ack n s0 l i s1 tr s2 a s3 :
  reachable mp n s0 -> step mp s0 (AAck l i) = Some s1 -> run mp s1 tr = Some s2 -> step mp s2 a = Some s3 ->
  ~ In i (mreads s2 a).
Proof.
  intros R H1 H2 H3 Hin.
  assert (Hr : returned (wpc_of s1 i) = true).
  { clear H2 H3 Hin. open_step H1. updcases; try reflexivity.
    exfalso. rewrite E in E0. inversion E0; subst. congruence. }
  pose proof (run_returned tr _ _ i H2 Hr) as Hr2.
  assert (R2 : reachable mp n s2) by (eapply run_reachable; [eapply reachable_step; eauto|eauto]).
  pose proof (reads_in_call n s2 a s3 i R2 H3 Hin) as Hc. rewrite (returned_not_in_call _ Hr2) in Hc. discriminate.
Qed.

(* the same for a leader: once its call has returned nobody reads its memory *)
Theorem no_read_after_return n s0 i s1 tr s2 a s3 :
  reachable mp n s0 -> step mp s0 (AReturn i) = Some s1 -> run mp s1 tr = Some s2 -> step mp s2 a = Some s3 ->
  ~ In i (mreads s2 a).
Proof.
  intros R H1 H2 H3 Hin.
  assert (Hr : returned (wpc_of s1 i) = true).
  { clear H2 H3 Hin. open_step H1. updcases; try reflexivity. }
  pose proof (run_returned tr _ _ i H2 Hr) as Hr2.
  assert (R2 : reachable mp n s2) by (eapply run_reachable; [eapply reachable_step; eauto|eauto]).
  pose proof (reads_in_call n s2 a s3 i R2 H3 Hin) as Hc. rewrite (returned_not_in_call _ Hr2) in Hc. discriminate.
Qed.
End Pcs.

(* ------------------------------------------------------------------ 2. memory level *)

Lemma nth_upd_same_d {A} (l : list A) i x d : i < length l -> nth i (upd l i x) d = x.
Proof. revert i; induction l; intros i H; simpl in H; [lia|]. destruct i; simpl; auto. apply IHl. lia. Qed.

Lemma nth_upd_other_d {A} (l : list A) i j x d : i <> j -> nth j (upd l i x) d = nth j l d.
Proof.
  revert i j; induction l; intros i j H; destruct i; destruct j; simpl; auto; try congruence.
Qed.

Lemma nth_upd_cases {A} (l : list A) i j x d : nth j (upd l i x) d = x \/ nth j (upd l i x) d = nth j l d.
Proof.
  destruct (Nat.eq_dec i j) as [->|Hn]; [|right; apply nth_upd_other_d; auto].
  destruct (Nat.lt_ge_cases j (length l)); [left; apply nth_upd_same_d; auto|].
  right. rewrite !nth_overflow; auto. rewrite upd_length. auto.
Qed.

Lemma somes_upd_some {A} (h : list (option A)) l b :
  nth_error h l = Some None -> Permutation (somes (upd h l (Some b))) (b :: somes h).
Proof.
  revert l; induction h; intros l H; destruct l; simpl in *; try discriminate.
  - inversion H; subst. reflexivity.
  - destruct a; simpl.
    + rewrite (IHh l H). apply perm_swap.
    + apply IHh; auto.
Qed.

Lemma somes_upd_none {A} (h : list (option A)) l b :
  nth_error h l = Some (Some b) -> Permutation (somes h) (b :: somes (upd h l None)).
Proof.
  revert l; induction h; intros l H; destruct l; simpl in *; try discriminate.
  - inversion H; subst. reflexivity.
  - destruct a; simpl.
    + rewrite (IHh l H). apply perm_swap.
    + apply IHh; auto.
Qed.

Lemma somes_upd_none_incl {A} (h : list (option A)) l x : In x (somes (upd h l None)) -> In x (somes h).
Proof.
  revert l; induction h; intros l H; destruct l; simpl in *; auto.
  - destruct a; simpl; auto.
  - destruct a; simpl in *; [destruct H; eauto|eauto].
Qed.

Lemma somes_in {A} (h : list (option A)) x : In x (somes h) <-> exists i, nth_error h i = Some (Some x).
Proof.
  induction h; simpl.
  - split; [contradiction|intros [[|i] H]; discriminate].
  - destruct a; simpl; rewrite IHh; split.
    + intros [->|[i H]]; [exists 0; reflexivity|exists (S i); auto].
    + intros [[|i] H]; simpl in H; [inversion H; auto|right; eauto].
    + intros [i H]. exists (S i); auto.
    + intros [[|i] H]; simpl in H; [discriminate|eauto].
Qed.

Lemma nth_nth_error {A} (l : list A) i d x : nth_error l i = Some x -> nth i l d = x.
Proof. revert i; induction l; intros [|i] H; simpl in *; try discriminate; [inversion H; auto|auto]. Qed.

Lemma nth_error_nth_some {A} (l : list (option A)) i x : nth i l None = Some x -> nth_error l i = Some (Some x).
Proof. revert i; induction l; intros [|i] H; simpl in *; try discriminate; [subst; auto|auto]. Qed.

(* the memory invariant, relative to a protocol state b *)
Record minv_at (b : WriteMerge.state) (s : mstate) : Prop := {
  mi_len_buf : length (mbuf s) = length (ws b);
  mi_len_arg : length (marg s) = length (ws b);
  mi_len_held : length (mheld s) = length (ws b);
  mi_call : forall i, in_call (wpc_of b i) = true -> buf_of s i = arg_of s i;
  mi_pb : forall k x d, In (x, d) (pb_of s k) -> d = arg_of s x /\ wpc_of b x <> WIdle;
  mi_logs : forall x d, In (x, d) (mjournal s ++ mmem s) -> d = arg_of s x /\ wpc_of b x <> WIdle;
  mi_held : forall i k, held_of s i = Some k -> owns_batch (wpc_of b i);
  mi_ids : forall k, In k (mpool s ++ somes (mheld s)) -> k < length (mpb s);
  mi_nodup : NoDup (mpool s ++ somes (mheld s))
}.

Definition minv (s : mstate) : Prop := minv_at (mb s) s.

Lemma minv_rebase b b' s :
  minv_at b s ->
  length (ws b') = length (ws b) ->
  (forall i, in_call (wpc_of b' i) = true -> in_call (wpc_of b i) = true) ->
  (forall i, wpc_of b i <> WIdle -> wpc_of b' i <> WIdle) ->
  (forall i k, held_of s i = Some k -> owns_batch (wpc_of b' i)) ->
  minv_at b' s.
Proof.
  intros [H1 H2 H3 H4 H5 H6 H7 H8 H9] Hl Hc Hi Hh. constructor; try congruence; auto.
  - intros k x d Hin. destruct (H5 k x d Hin). auto.
  - intros x d Hin. destruct (H6 x d Hin). auto.
Qed.

Lemma minv_set_mb b s b0 : minv_at b s -> minv_at b (set_mb s b0).
Proof. intros [H1 H2 H3 H4 H5 H6 H7 H8 H9]. constructor; auto. Qed.

Lemma owns_not_free p : owns_batch p -> holdsp p = 0 -> (forall e, p <> WRet e) -> False.
Proof. intros [H|[e H]] H0 Hr; [lia|eapply Hr; eauto]. Qed.

Lemma held_none b s i : minv_at b s -> holdsp (wpc_of b i) = 0 -> (forall e, wpc_of b i <> WRet e) -> held_of s i = None.
Proof.
  intros M H0 Hr. destruct (held_of s i) eqn:E; auto. exfalso. eapply owns_not_free; eauto. eapply mi_held; eauto.
Qed.

(* batch := db.batchPool.Get(); batch.Reset() *)
Lemma minv_take b s l : minv_at b s -> l < length (ws b) -> held_of s l = None -> owns_batch (wpc_of b l) ->
  minv_at b (fst (pb_take s l)) /\ held_of (fst (pb_take s l)) l = Some (snd (pb_take s l)) /\
  pb_of (fst (pb_take s l)) (snd (pb_take s l)) = [] /\ mbuf (fst (pb_take s l)) = mbuf s /\
  marg (fst (pb_take s l)) = marg s /\ mjournal (fst (pb_take s l)) = mjournal s /\ mmem (fst (pb_take s l)) = mmem s.
Proof.
  intros M Hl Hn Ho. pose proof M as [H1 H2 H3 H4 H5 H6 H7 H8 H9].
  assert (Hnl : nth_error (mheld s) l = Some None).
  { unfold held_of in Hn. destruct (nth_error (mheld s) l) eqn:E.
    - erewrite nth_nth_error in Hn by eauto. subst. auto.
    - apply nth_error_None in E. lia. }
  unfold pb_take. destruct (mpool s) as [|k p'] eqn:Ep; cbn [fst snd].
  - (* a new batch *)
    split; [|split; [|split; [|repeat split; reflexivity]]].
    + constructor; cbn [mbuf marg mheld mpool mpb mjournal mmem set_pool]; auto.
      * rewrite upd_length; auto.
      * intros k x d Hin. unfold pb_of in Hin. cbn [mpb set_pool] in Hin.
        destruct (Nat.lt_ge_cases k (length (mpb s))).
        -- rewrite app_nth1 in Hin by auto. eapply H5; eauto.
        -- destruct (Nat.eq_dec k (length (mpb s))) as [->|].
           ++ rewrite app_nth2, Nat.sub_diag in Hin by lia. simpl in Hin. contradiction.
           ++ rewrite nth_overflow in Hin; [contradiction|]. rewrite app_length. simpl. lia.
      * intros i k Hk. unfold held_of in Hk. cbn [mheld set_pool] in Hk.
        destruct (Nat.eq_dec l i) as [->|Hne]; auto. rewrite nth_upd_other_d in Hk by auto. eapply H7; eauto.
      * intros k Hk. rewrite app_length. simpl. cbn [app] in Hk.
        apply (Permutation_in _ (somes_upd_some _ _ _ Hnl)) in Hk. destruct Hk as [<-|Hk]; [lia|].
        specialize (H8 k). simpl in H8. specialize (H8 Hk). lia.
      * cbn [app]. eapply Permutation_NoDup; [symmetry; apply somes_upd_some; eauto|].
        constructor; [|exact H9].
        intros Hin. specialize (H8 (length (mpb s))). specialize (H8 Hin). lia.
    + unfold held_of. cbn [mheld set_pool]. apply nth_upd_same_d. lia.
    + unfold pb_of. cbn [mpb set_pool]. rewrite app_nth2, Nat.sub_diag by lia. reflexivity.
  - (* a pooled batch, emptied *)
    assert (Hk : k < length (mpb s)) by (apply H8; left; auto).
    split; [|split; [|split; [|repeat split; reflexivity]]].
    + constructor; cbn [mbuf marg mheld mpool mpb mjournal mmem set_pool]; auto.
      * rewrite upd_length; auto.
      * intros k0 x d Hin. unfold pb_of in Hin. cbn [mpb set_pool] in Hin.
        destruct (Nat.eq_dec k k0) as [->|Hne].
        -- rewrite nth_upd_same_d in Hin by auto. contradiction.
        -- rewrite nth_upd_other_d in Hin by auto. eapply H5; eauto.
      * intros i k0 Hk0. unfold held_of in Hk0. cbn [mheld set_pool] in Hk0.
        destruct (Nat.eq_dec l i) as [->|Hne]; auto. rewrite nth_upd_other_d in Hk0 by auto. eapply H7; eauto.
      * intros k0 Hk0. rewrite upd_length. apply H8.
        apply in_app_or in Hk0. destruct Hk0 as [Hk0|Hk0]; [right; apply in_or_app; auto|].
        apply (Permutation_in _ (somes_upd_some _ _ _ Hnl)) in Hk0. destruct Hk0 as [<-|Hk0]; [left; auto|].
        right. apply in_or_app; auto.
      * eapply Permutation_NoDup; [|exact H9].
        simpl. rewrite (somes_upd_some _ _ _ Hnl). apply Permutation_middle.
    + unfold held_of. cbn [mheld set_pool]. apply nth_upd_same_d. lia.
    + unfold pb_of. cbn [mpb set_pool]. apply nth_upd_same_d. auto.
Qed.

(* b.appendRec(kt, key, value) for a writer whose call is in progress *)
Lemma minv_append b s k x : minv_at b s -> in_call (wpc_of b x) = true -> minv_at b (pb_append s k x).
Proof.
  intros M Hc. pose proof M as [H1 H2 H3 H4 H5 H6 H7 H8 H9].
  constructor; cbn [pb_append mbuf marg mheld mpool mpb mjournal mmem set_pool]; auto.
  - intros k0 y d Hin.
    change (pb_of (pb_append s k x) k0) with (nth k0 (upd (mpb s) k (pb_of s k ++ [(x, buf_of s x)])) []) in Hin.
    destruct (nth_upd_cases (mpb s) k k0 (pb_of s k ++ [(x, buf_of s x)]) []) as [E|E]; rewrite E in Hin.
    + apply in_app_or in Hin. destruct Hin as [Hin|[Hin|[]]]; [eapply H5; eauto|].
      inversion Hin; subst. split; [apply H4; auto|]. intros E0. rewrite E0 in Hc. discriminate.
    + eapply H5; eauto.
  - rewrite upd_length. auto.
Qed.

Lemma held_append s k x i : held_of (pb_append s k x) i = held_of s i.
Proof. reflexivity. Qed.

(* putRec once it owns the lock *)
Lemma minv_own_put b s i : minv_at b s -> i < length (ws b) -> held_of s i = None -> owns_batch (wpc_of b i) ->
  in_call (wpc_of b i) = true -> minv_at b (own_put s i).
Proof.
  intros M Hl Hn Ho Hc. unfold own_put. destruct (wput_of (mb s) i); auto.
  destruct (minv_take b s i M Hl Hn Ho) as (M1 & _). destruct (pb_take s i) as [s1 k]. cbn [fst] in M1.
  apply minv_append; auto.
Qed.

(* defer db.batchPool.Put(ourBatch) *)
Lemma minv_giveback b s l : minv_at b s -> minv_at b (pb_giveback s l) /\ held_of (pb_giveback s l) l = None.
Proof.
  intros M. pose proof M as [H1 H2 H3 H4 H5 H6 H7 H8 H9]. unfold pb_giveback.
  destruct (held_of s l) eqn:Eh; [|auto].
  assert (Hnl : nth_error (mheld s) l = Some (Some n)) by (apply nth_error_nth_some; auto).
  assert (Hl : l < length (mheld s)) by (eapply nth_some_lt; eauto).
  split.
  - constructor; cbn [mbuf marg mheld mpool mpb mjournal mmem set_pool]; auto.
    + rewrite upd_length; auto.
    + intros i k Hk. unfold held_of in Hk. cbn [mheld set_pool] in Hk.
      destruct (Nat.eq_dec l i) as [->|Hne]; [rewrite nth_upd_same_d in Hk by auto; discriminate|].
      rewrite nth_upd_other_d in Hk by auto. eapply H7; eauto.
    + intros k Hk. apply H8. simpl in Hk. destruct Hk as [<-|Hk].
      * apply in_or_app. right. apply somes_in. eauto.
      * apply in_app_or in Hk. apply in_or_app. destruct Hk; auto. right. eapply somes_upd_none_incl; eauto.
    + eapply Permutation_NoDup; [|exact H9]. simpl. rewrite (somes_upd_none _ _ _ Hnl). symmetry. apply Permutation_middle.
  - unfold held_of. cbn [mheld set_pool]. apply nth_upd_same_d. auto.
Qed.

(* the pooled batch is dropped (db.flush failed: writeLocked returns before the defer is registered) *)
Lemma minv_drop_held b s l : minv_at b s -> minv_at b (set_pool s (upd (mheld s) l None) (mpool s) (mpb s)).
Proof.
  intros M. pose proof M as [H1 H2 H3 H4 H5 H6 H7 H8 H9].
  constructor; cbn [mbuf marg mheld mpool mpb mjournal mmem set_pool]; auto.
  - rewrite upd_length; auto.
  - intros i k Hk. unfold held_of in Hk. cbn [mheld set_pool] in Hk.
    destruct (nth_upd_cases (mheld s) l i None None) as [E|E]; rewrite E in Hk; [discriminate|]. eapply H7; eauto.
  - intros k Hk. apply H8. apply in_app_or in Hk. apply in_or_app. destruct Hk; auto. right. eapply somes_upd_none_incl; eauto.
  - destruct (nth_error (mheld s) l) as [[k|]|] eqn:E.
    + pose proof (somes_upd_none _ _ _ E) as P.
      assert (P2 : Permutation (mpool s ++ somes (mheld s)) (k :: mpool s ++ somes (upd (mheld s) l None))).
      { rewrite P. symmetry. apply Permutation_middle. }
      pose proof (Permutation_NoDup P2 H9) as N. inversion N; auto.
    + assert (Eu : upd (mheld s) l None = mheld s).
      { clear -E. revert l E. induction (mheld s); intros [|l0] E; simpl in *; try discriminate; auto.
        - inversion E; subst; auto. - f_equal. auto. }
      rewrite Eu. auto.
    + assert (Eu : upd (mheld s) l None = mheld s).
      { clear -E. revert l E. induction (mheld s); intros [|l0] E; simpl in *; try discriminate; auto. f_equal. auto. }
      rewrite Eu. auto.
Qed.

(* a walk over the group's batches by a leader that has not reached unlockWrite copies arguments *)
Lemma minv_records mp n b s l wl c : reachable mp n b -> minv_at b s ->
  nth_error (ws b) l = Some wl -> mctx (pc wl) = Some c -> mb s = b ->
  forall x d, In (x, d) (group_records s l c) -> d = arg_of s x /\ wpc_of b x <> WIdle.
Proof.
  intros R M Hl Hm Eb x d Hin. unfold group_records in Hin. apply in_app_or in Hin. destruct Hin as [Hin|Hin].
  - apply in_map_iff in Hin. destruct Hin as (y & Hy & Hin). inversion Hy; subst. clear Hy.
    unfold batch_owners in Hin. apply filter_In in Hin. destruct Hin as [Hin _].
    pose proof (group_in_call mp n (mb s) l wl c R Hl Hm x Hin) as Hc.
    split; [apply (mi_call _ _ M); auto|]. intros E0. rewrite E0 in Hc. discriminate.
  - destruct (held_of s l); [|contradiction]. eapply (mi_pb _ _ M); eauto.
Qed.

Lemma minv_logs b s j m : minv_at b s ->
  (forall x d, In (x, d) (j ++ m) -> d = arg_of s x /\ wpc_of b x <> WIdle) -> minv_at b (set_logs s j m).
Proof. intros [H1 H2 H3 H4 H5 H6 H7 H8 H9] H. constructor; auto. Qed.

Lemma late_work_code s l : late_work code_variant s l = s.
Proof. unfold late_work. destruct (wpc_of (mb s) l); reflexivity. Qed.

Lemma minv_init n : minv (minit n).
Proof.
  constructor; cbn [minit mb mbuf marg mheld mpool mpb mjournal mmem WriteMerge.init ws]; rewrite ?repeat_length; auto.
  - intros k x d Hin. unfold pb_of in Hin. simpl in Hin. destruct k; contradiction.
  - intros x d [].
  - intros i k Hk. unfold held_of in Hk. simpl in Hk.
    destruct (nth_in_or_default i (repeat (@None nat) n) None) as [Hi|Hi].
    + apply repeat_spec in Hi. congruence. + congruence.
  - intros k Hk. simpl in Hk. exfalso. induction n; simpl in Hk; auto.
  - simpl. induction n; simpl; auto. constructor.
Qed.

Section Memory.
Variable mp : mparams.

Ltac open_step H :=
  unfold step, getw in H; dm; inversion H; subst; clear H;
  unfold wpc_of, getw in *; cbn [ws setw with_ws with_lock with_env with_logs] in *.

Lemma rebase_step b a b' s : step mp b a = Some b' -> (forall i m p z, a <> ACall i m p z) ->
  minv_at b s -> (forall i, a = AReturn i -> held_of s i = None) -> minv_at b' s.
Proof.
  intros H Hn M Hr. eapply minv_rebase; eauto.
  - eapply step_length; eauto.
  - intros i Hc. destruct (step_in_call mp b a b' i H Hc) as [|(_ & m & p & z & E)]; auto. exfalso. eapply Hn; eauto.
  - intros i. eapply step_not_idle; eauto.
  - intros i k Hk. destruct (step_owns mp b a b' i H (mi_held _ _ M i k Hk)) as [|E]; auto.
    rewrite (Hr i E) in Hk. discriminate.
Qed.

Lemma sel_lock_pcs b i b' : step mp b (ASelLock i) = Some b' ->
  wpc_of b i = WSelect /\ wpc_of b' i = WLFlush /\ i < length (ws b').
Proof.
  intros H. pose proof (step_length mp _ _ _ H) as Hl. open_step H. oldpc. updcases.
  repeat split; auto. rewrite Hl. eapply nth_some_lt; eauto.
Qed.

Lemma handover_pcs b l o b' : step mp b (AHandover l o) = Some b' ->
  wpc_of b o = WWaitMerged /\ wpc_of b' o = WLFlush /\ o < length (ws b').
Proof.
  intros H. pose proof (step_length mp _ _ _ H) as Hl. open_step H. oldpc.
  assert (Hn : o <> l) by (apply (pcs_differ (ws b) o l w0 w E0 E); congruence).
  updcases; try (exfalso; congruence).
  repeat split; auto. rewrite Hl. eapply nth_some_lt; eauto.
Qed.

Lemma sel_merge_pcs b i l b' : step mp b (ASelMerge i l) = Some b' ->
  holdsp (wpc_of b' l) = 1 /\ wpc_of b' i = WWaitMerged /\ l < length (ws b').
Proof.
  intros H. pose proof (step_length mp _ _ _ H) as Hl. open_step H. oldpc.
  assert (Hn : i <> l) by (apply (pcs_differ (ws b) i l w w0 E E0); congruence).
  updcases; try (exfalso; congruence). cbn [pc set_pc].
  repeat split; auto.
  - unfold merge_decide. destruct (llim c <? wsize w)%N; reflexivity.
  - rewrite Hl. eapply nth_some_lt; eauto.
Qed.

Lemma ctx_leader b l c : ctx_of (wpc_of b l) = Some c -> exists wl, nth_error (ws b) l = Some wl /\ ctx_of (pc wl) = Some c.
Proof. unfold wpc_of, getw. destruct (nth_error (ws b) l); simpl; [eauto|discriminate]. Qed.

Lemma journal_mctx b l b' c : (step mp b (AJournalOk l) = Some b' \/ (exists e, step mp b (AJournalFail l e) = Some b')
                               \/ step mp b (AApply l) = Some b') ->
  ctx_of (wpc_of b l) = Some c -> exists wl, nth_error (ws b) l = Some wl /\ mctx (pc wl) = Some c.
Proof.
  intros H Hc. destruct (ctx_leader b l c Hc) as (wl & Hl & Hx). exists wl. split; auto.
  destruct H as [H|[[e H]|H]]; unfold step, getw in H; rewrite Hl in H; destruct (pc wl); try discriminate;
    simpl in Hx |- *; auto.
Qed.

Lemma firstn_skipn_nth {A} (p : list A) k d : k < length p -> p = firstn k p ++ nth k p d :: skipn (S k) p.
Proof.
  revert k; induction p; intros k H; simpl in H; [lia|]. destruct k; simpl; auto. f_equal. apply IHp. lia.
Qed.

Lemma mstep_minv n s a s' : reachable mp n (mb s) -> minv s -> mstep mp code_variant s a = Some s' ->
  minv s' /\ reachable mp n (mb s').
Proof.
  intros R M H. destruct a as [x|i g|k]; cbn [mstep] in H.
  - (* a protocol action *)
    destruct (step mp (mb s) x) as [b'|] eqn:E; [|discriminate]. inversion H; subst; clear H.
    split; [|eapply reachable_step; eauto]. unfold minv. cbn [mb set_mb]. apply minv_set_mb.
    unfold minv in M.
    assert (Generic : (forall i m p z, x <> ACall i m p z) -> (forall i, x <> AReturn i) -> minv_at b' s).
    { intros Hn Hr. eapply rebase_step; eauto. intros i Ei. exfalso. eapply Hr; eauto. }
    destruct x; cbn [meffect]; try (apply Generic; intros; discriminate).
    + (* ACall *)
      pose proof M as [H1 H2 H3 H4 H5 H6 H7 H8 H9].
      assert (Hidle : wpc_of (mb s) i = WIdle /\ i < length (ws (mb s))).
      { clear -E. unfold step, getw in E. unfold wpc_of, getw. destruct (nth_error (ws (mb s)) i) eqn:Ei; [|discriminate].
        destruct (pc w); try discriminate. split; auto. eapply nth_some_lt; eauto. }
      destruct Hidle as [Hidle Hlt].
      assert (Harg : forall j, j <> i -> arg_of (set_marg s (upd (marg s) i (buf_of s i))) j = arg_of s j).
      { intros j Hj. unfold arg_of. cbn [marg set_marg]. apply nth_upd_other_d. auto. }
      constructor; cbn [mbuf marg mheld mpool mpb mjournal mmem set_marg]; rewrite ?upd_length;
        rewrite ?(step_length mp _ _ _ E); auto.
      * intros j Hc. destruct (Nat.eq_dec j i) as [->|Hj].
        -- unfold arg_of. cbn [marg set_marg]. rewrite nth_upd_same_d by lia. reflexivity.
        -- rewrite Harg by auto. apply H4.
           destruct (step_in_call mp _ _ _ j E Hc) as [|(_ & m' & p' & z' & Ea)]; auto. inversion Ea. congruence.
      * intros k y d Hin. destruct (H5 k y d Hin) as [Hd Hy].
        assert (y <> i) by congruence. rewrite Harg by auto. split; auto. eapply step_not_idle; eauto.
      * intros y d Hin. destruct (H6 y d Hin) as [Hd Hy].
        assert (y <> i) by congruence. rewrite Harg by auto. split; auto. eapply step_not_idle; eauto.
      * intros j k Hk. destruct (step_owns mp _ _ _ j E (H7 j k Hk)) as [|Ea]; auto. discriminate.
    + (* ASelMerge *)
      assert (M' : minv_at b' s) by (apply Generic; intros; discriminate).
      destruct (sel_merge_pcs _ _ _ _ E) as (Hh & Hi & Hl).
      destruct (is_reply (wpc_of b' l) && wput_of (mb s) i); auto.
      destruct (held_of s l) eqn:Eh.
      * apply minv_append; auto. rewrite Hi. reflexivity.
      * destruct (minv_take b' s l M' Hl Eh) as (M1 & _); [left; auto|].
        destruct (pb_take s l) as [s1 k]. cbn [fst] in M1. apply minv_append; auto. rewrite Hi. reflexivity.
    + (* ASelLock *)
      assert (M' : minv_at b' s) by (apply Generic; intros; discriminate).
      destruct (sel_lock_pcs _ _ _ E) as (Ho & Hn & Hl).
      apply minv_own_put; auto.
      * apply (held_none (mb s) s _ M); rewrite Ho; [reflexivity|discriminate].
      * left. rewrite Hn. reflexivity.
      * rewrite Hn. reflexivity.
    + (* AFlushFail *)
      eapply rebase_step; eauto; try (intros; discriminate). apply minv_drop_held. auto.
    + (* AJournalOk *)
      destruct (ctx_of (wpc_of (mb s) l)) eqn:Ec; [|apply Generic; intros; discriminate]. cbn [v_journal_late code_variant].
      destruct (journal_mctx _ l b' l0 (or_introl E) Ec) as (wl & Hl & Hm).
      eapply rebase_step; eauto; try (intros; discriminate).
      apply minv_logs; auto. intros y d Hin. rewrite <- app_assoc in Hin. apply in_app_or in Hin.
      destruct Hin as [Hin|Hin]; [apply (mi_logs _ _ M); apply in_or_app; auto|].
      apply in_app_or in Hin. destruct Hin as [Hin|Hin]; [|apply (mi_logs _ _ M); apply in_or_app; auto].
      eapply minv_records; eauto.
    + (* AJournalFail *)
      destruct (ctx_of (wpc_of (mb s) l)) eqn:Ec; [|apply Generic; intros; discriminate]. cbn [v_journal_late code_variant].
      destruct (journal_mctx _ l b' l0 (or_intror (or_introl (ex_intro _ e E))) Ec) as (wl & Hl & Hm).
      eapply rebase_step; eauto; try (intros; discriminate).
      apply minv_logs; auto. intros y d Hin. rewrite <- app_assoc in Hin. apply in_app_or in Hin.
      destruct Hin as [Hin|Hin]; [apply (mi_logs _ _ M); apply in_or_app; auto|].
      apply in_app_or in Hin. destruct Hin as [Hin|Hin]; [|apply (mi_logs _ _ M); apply in_or_app; auto].
      eapply minv_records; eauto.
    + (* AApply *)
      destruct (ctx_of (wpc_of (mb s) l)) eqn:Ec; [|apply Generic; intros; discriminate]. cbn [v_apply_late code_variant].
      destruct (journal_mctx _ l b' l0 (or_intror (or_intror E)) Ec) as (wl & Hl & Hm).
      eapply rebase_step; eauto; try (intros; discriminate).
      apply minv_logs; auto. intros y d Hin. rewrite app_assoc in Hin. apply in_app_or in Hin.
      destruct Hin as [Hin|Hin]; [apply (mi_logs _ _ M); auto|].
      eapply minv_records; eauto.
    + (* AHandover *)
      rewrite late_work_code.
      assert (M' : minv_at b' s) by (apply Generic; intros; discriminate).
      destruct (handover_pcs _ _ _ _ E) as (Ho & Hn & Hl).
      apply minv_own_put; auto.
      * apply (held_none (mb s) s _ M); rewrite Ho; [reflexivity|discriminate].
      * left. rewrite Hn. reflexivity.
      * rewrite Hn. reflexivity.
    + (* ARelease *)
      rewrite late_work_code. apply Generic; intros; discriminate.
    + (* AReturn *)
      destruct (minv_giveback _ _ i M) as [M1 Hn].
      eapply rebase_step; eauto; try (intros; discriminate). intros j Ej. inversion Ej; subst. auto.
  - (* the client overwrites its memory *)
    destruct (getw (mb s) i) as [w|] eqn:Ew; [|discriminate]. destruct (client_turn (pc w)) eqn:Ec; [|discriminate].
    inversion H; subst; clear H. split; [|exact R]. unfold minv in *. cbn [mb set_mbuf].
    pose proof M as [H1 H2 H3 H4 H5 H6 H7 H8 H9].
    constructor; cbn [mbuf marg mheld mpool mpb mjournal mmem set_mbuf]; rewrite ?upd_length; auto.
    intros j Hc. unfold buf_of. cbn [mbuf set_mbuf]. rewrite nth_upd_other_d; [apply H4; auto|].
    intros <-. unfold wpc_of in Hc. rewrite Ew in Hc. destruct (pc w); simpl in *; discriminate.
  - (* sync.Pool drops an item *)
    destruct (k <? length (mpool s)) eqn:Ek; [|discriminate]. apply Nat.ltb_lt in Ek.
    inversion H; subst; clear H. split; [|exact R]. unfold minv in *. cbn [mb set_pool].
    pose proof M as [H1 H2 H3 H4 H5 H6 H7 H8 H9].
    pose proof (firstn_skipn_nth (mpool s) k 0 Ek) as Ep.
    constructor; cbn [mbuf marg mheld mpool mpb mjournal mmem set_pool]; auto.
    + intros j Hj. apply H8. rewrite Ep. rewrite <- app_assoc in Hj. rewrite <- app_assoc.
      apply in_app_or in Hj. apply in_or_app. destruct Hj as [Hj|Hj]; auto. right. simpl. right. auto.
    + rewrite Ep in H9. rewrite <- app_assoc in H9. simpl in H9. apply NoDup_remove_1 in H9.
      rewrite <- app_assoc. exact H9.
Qed.

Lemma mrun_minv n l : forall s s', reachable mp n (mb s) -> minv s -> mrun mp code_variant s l = Some s' ->
  minv s' /\ reachable mp n (mb s').
Proof.
  induction l; simpl; intros s s' R M H.
  - inversion H; subst; auto.
  - destruct (mstep mp code_variant s a) eqn:E; [|discriminate].
    destruct (mstep_minv n _ _ _ R M E). eauto.
Qed.

Lemma mreachable_minv n s : mreachable mp code_variant n s -> minv s /\ reachable mp n (mb s).
Proof.
  intros [l H]. eapply mrun_minv; eauto; [exists []; reflexivity|apply minv_init].
Qed.

(* T2: whatever the clients scribble once their calls returned, every copy the DB made (journal record, write
   buffer) is a copy of what its caller passed when it made the call *)
Theorem copies_are_args_inv n s : mreachable mp code_variant n s -> copies_are_args s.
Proof.
  intros R x d Hin. destruct (mreachable_minv n s R) as [M _]. apply (mi_logs _ _ M x d Hin).
Qed.

(* T3: a pooled batch is in the pool or belongs to exactly one writeLocked frame *)
Theorem pooled_single_owner n s : mreachable mp code_variant n s -> pooled_batches_single_owner s.
Proof. intros R. destruct (mreachable_minv n s R) as [M _]. apply (mi_nodup _ _ M). Qed.

End Memory.

(* ------------------------------------------------------------------ 4. the re-orderings are refuted *)

Definition mp_code : mparams := {| mergeThreshold := 131072; mergeBigLimit := 1048576; mergeSmallLimit := 131072 |}.

(* writer 0 leads through Write, writer 1 is merged through Write; 1 is acknowledged, returns, and overwrites its
   batch with [9]; then the leader leaves unlockWrite *)
Definition m6_trace : list maction :=
  [MScribble 0 [1%N]; MScribble 1 [2%N];
   MBase (ACall 0 true false 10%N); MBase (ACall 1 true false 10%N);
   MBase (ASelLock 0); MBase (AFlushOk 0 1000%N); MBase (ASelMerge 1 0); MBase (AReplyTrue 0 1); MBase (AMergeDone 0);
   MBase (AJournalOk 0); MBase (AApply 0); MBase (APublish 0); MBase (ARotateSkip 0);
   MBase (AAck 0 1); MBase (AReturn 1); MScribble 1 [9%N]; MBase (ARelease 0); MBase (AReturn 0)].

Definition m6_variant : mvariant := {| v_apply_late := true; v_journal_late := false |}.
Definition lazy_journal_variant : mvariant := {| v_apply_late := false; v_journal_late := true |}.

Definition logs_of (v : mvariant) (tr : list maction) : option (list (nat * bytes) * list (nat * bytes) * list bytes) :=
  match mrun mp_code v (minit 2) tr with
  | Some s => Some (mjournal s, mmem s, marg s)
  | None => None
  end.

(* the code: both copies of writer 1's batch hold what it passed *)
Lemma m6_trace_code :
  logs_of code_variant m6_trace = Some ([(0, [1%N]); (1, [2%N])], [(0, [1%N]); (1, [2%N])], [[1%N]; [2%N]]).
Proof. vm_compute. reflexivity. Qed.

(* M6, merged writers acknowledged before putMem: the write buffer receives what the client wrote AFTER its call
   returned *)
Theorem ack_before_putmem_refuted :
  exists n tr s, mrun mp_code m6_variant (minit n) tr = Some s /\ ~ copies_are_args s.
Proof.
  exists 2, m6_trace. destruct (mrun mp_code m6_variant (minit 2) m6_trace) as [s|] eqn:E; [|vm_compute in E; discriminate].
  exists s. split; auto. intros H.
  assert (Hm : In (1, [9%N]) (mjournal s ++ mmem s)) by (vm_compute in E; inversion E; subst; simpl; auto 10).
  specialize (H 1 [9%N] Hm). vm_compute in E. inversion E; subst. vm_compute in H. discriminate.
Qed.

(* the journal record buffer filled lazily: the journal receives the scribbled bytes *)
Theorem lazy_journal_refuted :
  exists n tr s, mrun mp_code lazy_journal_variant (minit n) tr = Some s /\ ~ copies_are_args s.
Proof.
  exists 2, m6_trace. destruct (mrun mp_code lazy_journal_variant (minit 2) m6_trace) as [s|] eqn:E; [|vm_compute in E; discriminate].
  exists s. split; auto. intros H.
  assert (Hm : In (1, [9%N]) (mjournal s ++ mmem s)) by (vm_compute in E; inversion E; subst; simpl; auto 10).
  specialize (H 1 [9%N] Hm). vm_compute in E. inversion E; subst. vm_compute in H. discriminate.
Qed.

(* non-vacuity of T1: in that run the leader does read writer 1's batch while 1 waits for its acknowledgement *)
Lemma m6_trace_reads :
  match mrun mp_code code_variant (minit 2) (firstn 9 m6_trace) with
  | Some s => mreads (mb s) (AJournalOk 0) = [0; 1] /\ wpc_of (mb s) 1 = WWaitAck
  | None => False
  end.
Proof. vm_compute. split; reflexivity. Qed.

(* Put/Delete callers: the leader (through putRec) takes a pooled batch and copies its own key/value in; the merged
   Put's key/value are copied into the same batch when the request is received, before the reply; the journal and
   putMem walks read no caller memory at all, and the pooled batch goes back to the pool when writeLocked returns *)
Definition put_trace : list maction :=
  [MScribble 0 [1%N]; MScribble 1 [2%N];
   MBase (ACall 0 true true 10%N); MBase (ACall 1 true true 10%N);
   MBase (ASelLock 0); MBase (AFlushOk 0 1000%N); MBase (ASelMerge 1 0); MBase (AReplyTrue 0 1); MBase (AMergeDone 0);
   MBase (AJournalOk 0); MBase (AApply 0); MBase (APublish 0); MBase (ARotateSkip 0);
   MBase (AAck 0 1); MBase (AReturn 1); MScribble 1 [9%N]; MBase (ARelease 0); MBase (AReturn 0)].

Lemma put_trace_code :
  match mrun mp_code code_variant (minit 2) put_trace with
  | Some s => mjournal s = [(0, [1%N]); (1, [2%N])] /\ mmem s = [(0, [1%N]); (1, [2%N])] /\ mpool s = [0] /\ mheld s = [None; None]
  | None => False
  end
  /\ match mrun mp_code code_variant (minit 2) (firstn 9 put_trace) with
     | Some s => mreads (mb s) (AJournalOk 0) = [] /\ mheld s = [Some 0; None] /\ mpb s = [[(0, [1%N]); (1, [2%N])]]
     | None => False
     end.
Proof. vm_compute. repeat split; reflexivity. Qed.
