(* Alias/ApiProofs.v — the code delivers at least what every doc comment promises, in every configuration and
   wherever the data is; Snapshot.Get delivers exactly what DB.Get does (more than its comment says); each mutant
   table breaks a promise. *)
From Coq Require Import List Bool.
From GL Require Import Alias.Heap Alias.AliasModel Alias.XModel Alias.ApiModes Alias.XIterProofs.
Import ListNotations.

Theorem delivered_honours_promised a c p : honours (delivered fixed_modes xfixed a c p) (promised a) = true.
Proof.
  destruct a as [[| |]|k|k d|k d| | | | | |]; destruct p; cbn; try reflexivity;
    try (destruct (pool_on c) eqn:Ep, (cache_on c) eqn:Ec; cbn; rewrite ?Ep, ?Ec; reflexivity).
Qed.

(* Snapshot.Get is the same DB.get as DB.Get: the same delivery, although its comment only says "should not modify" *)
Theorem snapshot_get_as_db_get c p :
  delivered fixed_modes xfixed (ApiGet KSnap) c p = delivered fixed_modes xfixed (ApiGet KDB) c p
  /\ stronger_than_promised (delivered fixed_modes xfixed (ApiGet KSnap) c p) (promised (ApiGet KSnap)) = true.
Proof. destruct p; cbn; split; try reflexivity; destruct (pool_on c) eqn:Ep, (cache_on c) eqn:Ec; cbn; rewrite ?Ep, ?Ec; reflexivity. Qed.

(* both directions of an iterator expose its own buffers *)
Theorem iterator_delivery k d c p :
  delivered fixed_modes xfixed (ApiIterKey k d) c p = DIterBuffer /\ delivered fixed_modes xfixed (ApiIterValue k d) c p = DIterBuffer.
Proof. split; reflexivity. Qed.

(* the mutants break a promise *)
Theorem prev_value_slice_breaks_promise c p :
  honours (delivered fixed_modes md_prev_value_slice (ApiIterValue KDB DBwd) c p) (promised (ApiIterValue KDB DBwd)) = false.
Proof. reflexivity. Qed.

Theorem snap_get_slice_breaks_promise c :
  honours (delivered fixed_modes md_snap_get_slice (ApiGet KSnap) c InMem) (promised (ApiGet KSnap)) = false.
Proof. reflexivity. Qed.

(* the table path before the fix (slice whenever the pool is off) with the cache on: a shared slice for an "own copy" *)
Definition xunfixed : xmodes := fun p c =>
  match p with XPGetTable _ => if pool_on c then Copy else Slice | _ => Copy end.

Theorem unfixed_get_breaks_promise :
  honours (delivered fixed_modes xunfixed (ApiGet KDB) {| pool_on := false; cache_on := true; snappy := false; blk := 0 |} InTable)
          (promised (ApiGet KDB)) = false.
Proof. reflexivity. Qed.
