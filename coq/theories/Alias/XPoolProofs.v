(* Alias/XPoolProofs.v — the buffer manager of Alias/XModel.v (heap, util.BufferPool of Base/UBuffer.v, block cache):
   what Get / Put / readRawBlock / readBlockCached / the death of a cache node / a release do to the owner tags, to
   the contents and to the three populations (pooled slices, cache nodes, everything else).  Used by
   Alias/XInvProofs.v. *)
From Coq Require Import List NArith Bool Arith Lia Permutation.
From GL Require Import Alias.Heap Alias.HeapProofs Alias.AliasModel Alias.XModel.
From GL Require Base.UBuffer.
Import ListNotations.
Local Open Scope nat_scope.

(* ---------------------------------------------------------------- lists of classes *)

Lemma split_cls (cls : list (list UBuffer.pbuf)) : forall c, c < length cls ->
  exists A B, cls = A ++ nth c cls [] :: B /\ forall x, UBuffer.set_nth_cls cls c x = A ++ x :: B.
Proof.
  induction cls as [|y cls IH]; intros c H; simpl in H; [lia|]. destruct c.
  - exists [], cls. split; reflexivity.
  - destruct (IH c) as (A & B & E1 & E2); [lia|]. exists (y :: A), B. split.
    + simpl. f_equal. exact E1.
    + intros x. simpl. f_equal. apply E2.
Qed.

Lemma set_nth_cls_overflow (cls : list (list UBuffer.pbuf)) : forall c x, length cls <= c -> UBuffer.set_nth_cls cls c x = cls.
Proof.
  induction cls as [|y cls IH]; intros c x H; simpl; auto. destruct c; simpl in H; [lia|]. f_equal. apply IH. lia.
Qed.

Lemma remove_nth_perm {A} (l : list A) : forall i x, nth_error l i = Some x -> Permutation l (x :: UBuffer.remove_nth l i).
Proof.
  induction l as [|y l IH]; intros i x H; destruct i; simpl in *; try discriminate.
  - inversion H; subst. reflexivity.
  - rewrite (IH i x H) at 1. apply perm_swap.
Qed.

Lemma remove_nth_none {A} (l : list A) : forall i, nth_error l i = None -> UBuffer.remove_nth l i = l.
Proof.
  induction l as [|y l IH]; intros i H; destruct i; simpl in *; try discriminate; auto. f_equal. auto.
Qed.

Lemma pool_ids_set p c x : c < length (UBuffer.bp_cls p) ->
  exists A B, pool_ids p = A ++ map fst (nth c (UBuffer.bp_cls p) []) ++ B /\
              pool_ids (UBuffer.BP (UBuffer.bp_base p) (UBuffer.set_nth_cls (UBuffer.bp_cls p) c x)) = A ++ map fst x ++ B.
Proof.
  intros H. destruct (split_cls _ _ H) as (A & B & E1 & E2).
  exists (map fst (concat A)), (map fst (concat B)). unfold pool_ids. cbn [UBuffer.bp_cls]. split.
  - rewrite E1 at 1. rewrite concat_app. simpl. rewrite !map_app. reflexivity.
  - rewrite E2. rewrite concat_app. simpl. rewrite !map_app. reflexivity.
Qed.

(* [removed] left the pool *)
Definition pool_shrinks (p p' : UBuffer.bpool) (removed : list loc) : Prop :=
  Permutation (pool_ids p) (removed ++ pool_ids p').

Lemma pool_drop_shrinks p c i :
  exists r, pool_shrinks p (UBuffer.BP (UBuffer.bp_base p)
                              (UBuffer.set_nth_cls (UBuffer.bp_cls p) c (UBuffer.remove_nth (nth c (UBuffer.bp_cls p) []) i))) r.
Proof.
  unfold pool_shrinks.
  destruct (Nat.lt_ge_cases c (length (UBuffer.bp_cls p))) as [H|H].
  - destruct (pool_ids_set p c (UBuffer.remove_nth (nth c (UBuffer.bp_cls p) []) i) H) as (A & B & E1 & E2).
    rewrite E1, E2. destruct (nth_error (nth c (UBuffer.bp_cls p) []) i) as [x|] eqn:En.
    + exists [fst x]. rewrite (remove_nth_perm _ _ _ En) at 1. simpl. symmetry. apply Permutation_middle.
    + exists []. rewrite (remove_nth_none _ _ En). reflexivity.
  - exists []. rewrite set_nth_cls_overflow by auto. simpl. destruct p; reflexivity.
Qed.

(* Get: a reused slice left the pool; otherwise at most the slice that was too small did *)
Lemma bp_get_shrinks p n pick fresh :
  exists r, pool_shrinks p (fst (UBuffer.bp_get p n pick fresh)) r /\
            (UBuffer.pg_reused (snd (UBuffer.bp_get p n pick fresh)) = true ->
             r = [UBuffer.pg_id (snd (UBuffer.bp_get p n pick fresh))]) /\
            (UBuffer.pg_reused (snd (UBuffer.bp_get p n pick fresh)) = false ->
             UBuffer.pg_id (snd (UBuffer.bp_get p n pick fresh)) = fresh).
Proof.
  unfold UBuffer.bp_get. set (c := UBuffer.pool_num (UBuffer.bp_base p) n).
  assert (Hsame : pool_shrinks p p []) by (unfold pool_shrinks; reflexivity).
  destruct pick as [i|]; [|exists []; cbn; repeat split; auto; discriminate].
  destruct (nth_error (nth c (UBuffer.bp_cls p) []) i) as [[id cp]|] eqn:En;
    [|exists []; cbn; repeat split; auto; discriminate].
  assert (Hc : c < length (UBuffer.bp_cls p)).
  { destruct (Nat.lt_ge_cases c (length (UBuffer.bp_cls p))); auto. rewrite nth_overflow in En by auto. destruct i; discriminate. }
  assert (Hrem : pool_shrinks p (UBuffer.BP (UBuffer.bp_base p) (UBuffer.set_nth_cls (UBuffer.bp_cls p) c
                                   (UBuffer.remove_nth (nth c (UBuffer.bp_cls p) []) i))) [id]).
  { unfold pool_shrinks. destruct (pool_ids_set p c (UBuffer.remove_nth (nth c (UBuffer.bp_cls p) []) i) Hc) as (A & B & E1 & E2).
    rewrite E1, E2. rewrite (remove_nth_perm _ _ _ En) at 1. simpl. symmetry. apply Permutation_middle. }
  exists [id]. destruct (N.eqb cp 0); [cbn; repeat split; auto; discriminate|].
  destruct (N.leb n cp); cbn; repeat split; auto; discriminate.
Qed.

(* Put: the slice joins the pool (or is lost when its class does not exist) *)
Lemma bp_put_ids p l cp :
  Permutation (pool_ids (UBuffer.bp_put p (l, cp))) (l :: pool_ids p) \/ pool_ids (UBuffer.bp_put p (l, cp)) = pool_ids p.
Proof.
  unfold UBuffer.bp_put. cbn [snd]. set (c := UBuffer.pool_num (UBuffer.bp_base p) cp).
  destruct (Nat.lt_ge_cases c (length (UBuffer.bp_cls p))) as [H|H].
  - left. destruct (pool_ids_set p c ((l, cp) :: nth c (UBuffer.bp_cls p) []) H) as (A & B & E1 & E2).
    rewrite E1. etransitivity; [apply Permutation_refl'; exact E2|]. simpl. symmetry. apply Permutation_middle.
  - right. rewrite set_nth_cls_overflow by auto. destruct p; reflexivity.
Qed.

Lemma nodup_app_inv {A} (a b : list A) : NoDup (a ++ b) ->
  NoDup a /\ NoDup b /\ (forall x, In x a -> ~ In x b).
Proof.
  induction a; simpl; intros H.
  - repeat split; auto. constructor.
  - inversion H; subst. destruct (IHa H3) as (Na & Nb & Hd). repeat split; auto.
    + constructor; auto. intros Hin. apply H2. apply in_or_app. auto.
    + intros x [->|Hx]; auto. intros Hb. apply H2. apply in_or_app. auto.
Qed.

Lemma nodup_app_intro {A} (a b : list A) : NoDup a -> NoDup b -> (forall x, In x a -> ~ In x b) -> NoDup (a ++ b).
Proof.
  induction a; simpl; intros Na Nb Hd; auto. inversion Na; subst. constructor.
  - intros Hin. apply in_app_or in Hin. destruct Hin; auto. eapply Hd; eauto.
  - apply IHa; auto.
Qed.

Lemma shrinks_nodup p p' r : pool_shrinks p p' r -> NoDup (pool_ids p) -> NoDup (pool_ids p') /\ NoDup r /\
  (forall l, In l r -> ~ In l (pool_ids p')) /\ (forall l, In l (pool_ids p') -> In l (pool_ids p)) /\
  (forall l, In l r -> In l (pool_ids p)).
Proof.
  unfold pool_shrinks. intros P N. pose proof (Permutation_NoDup P N) as N'.
  destruct (nodup_app_inv _ _ N') as (Nr & Np & Hd).
  split; auto. split; auto. split; [|split].
  - auto.
  - intros l Hl. eapply Permutation_in; [symmetry; eauto|]. apply in_or_app. auto.
  - intros l Hl. eapply Permutation_in; [symmetry; eauto|]. apply in_or_app. auto.
Qed.

(* ---------------------------------------------------------------- the buffer manager *)

Definition tag (b : bm) (l : loc) : option owner := hown (bh b) l.
Definition cont (b : bm) (l : loc) : bytes := hget (bh b) l.

Record BInv (b : bm) : Prop := {
  bi_pool : forall l, In l (pool_ids (bpl b)) -> tag b l = Some Pool;
  bi_cache : forall n, In n (bca b) -> tag b (n_loc n) = Some Cache;
  bi_nd_pool : NoDup (pool_ids (bpl b));
  bi_nd_cache : NoDup (map n_loc (bca b))
}.

(* b' differs from b in the tags of the locations in X at most; nothing shrinks *)
Definition tags_kept (b b' : bm) (X : loc -> Prop) : Prop :=
  length (bh b) <= length (bh b') /\ forall l, l < length (bh b) -> ~ X l -> tag b' l = tag b l.
Definition conts_kept (b b' : bm) (X : loc -> Prop) : Prop :=
  forall l, l < length (bh b) -> ~ X l -> cont b' l = cont b l.

Lemma tag_lt b l o : tag b l = Some o -> l < length (bh b).
Proof. apply hown_lt. Qed.

Lemma tags_kept_refl b X : tags_kept b b X.
Proof. split; auto. Qed.

Lemma tags_kept_trans b1 b2 b3 (X Y Z : loc -> Prop) :
  tags_kept b1 b2 X -> tags_kept b2 b3 Y -> (forall l, l < length (bh b1) -> X l \/ Y l -> Z l) -> tags_kept b1 b3 Z.
Proof.
  intros [L1 H1] [L2 H2] HZ. split; [lia|]. intros l Hl Hn.
  rewrite H2; [apply H1; auto|lia|]; intros Hx; apply Hn; apply HZ; auto.
Qed.

Lemma conts_kept_trans b1 b2 b3 (X Y Z : loc -> Prop) :
  length (bh b1) <= length (bh b2) ->
  conts_kept b1 b2 X -> conts_kept b2 b3 Y -> (forall l, l < length (bh b1) -> X l \/ Y l -> Z l) -> conts_kept b1 b3 Z.
Proof.
  intros L1 H1 H2 HZ l Hl Hn.
  rewrite H2; [apply H1; auto|lia|]; intros Hx; apply Hn; apply HZ; auto.
Qed.

(* bm_alloc *)
Lemma bm_alloc_spec b x o : let b' := fst (bm_alloc b x o) in let l := snd (bm_alloc b x o) in
  l = length (bh b) /\ length (bh b') = S (length (bh b)) /\ tag b' l = Some o /\ cont b' l = x /\
  bpl b' = bpl b /\ bca b' = bca b /\
  (forall l', l' < length (bh b) -> tag b' l' = tag b l' /\ cont b' l' = cont b l').
Proof.
  unfold bm_alloc, tag, cont. cbn [fst snd bh bpl bca bm_hp]. repeat split; auto.
  - apply halloc_length.
  - apply hown_alloc_new.
  - apply hget_alloc_new.
  - apply hown_alloc_old; auto.
  - apply hget_alloc_old; auto.
Qed.

Lemma BInv_alloc b x o : BInv b -> BInv (fst (bm_alloc b x o)).
Proof.
  intros [H1 H2 H3 H4]. destruct (bm_alloc_spec b x o) as (_ & _ & _ & _ & Ep & Ec & Hold).
  constructor; rewrite ?Ep, ?Ec; auto.
  - intros l Hl. destruct (Hold l (tag_lt _ _ _ (H1 l Hl))) as [-> _]. auto.
  - intros n Hn. destruct (Hold (n_loc n) (tag_lt _ _ _ (H2 n Hn))) as [-> _]. auto.
Qed.

(* bpool.Get *)
Lemma bpool_get_spec c b n pick : BInv b ->
  let b' := fst (bpool_get c b n pick) in let l := snd (bpool_get c b n pick) in
  BInv b' /\ tag b' l = Some (DB KBlock) /\ ~ In l (pool_ids (bpl b')) /\ bca b' = bca b /\
  (tag b l = Some Pool \/ l = length (bh b)) /\
  tags_kept b b' (fun x => x = l) /\ conts_kept b b' (fun _ => False) /\
  (forall x, In x (pool_ids (bpl b')) -> In x (pool_ids (bpl b))).
Proof.
  intros I. pose proof I as [H1 H2 H3 H4]. unfold bpool_get. destruct (pool_on c).
  - destruct (UBuffer.bp_get (bpl b) n pick (length (bh b))) as [p' g] eqn:Eg.
    destruct (bp_get_shrinks (bpl b) n pick (length (bh b))) as (r & Hs & Hr & Hf). rewrite Eg in Hs, Hr, Hf. cbn [fst snd] in *.
    destruct (shrinks_nodup _ _ _ Hs H3) as (N' & Nr & Hd & Hsub & Hrin).
    destruct (UBuffer.pg_reused g) eqn:Er; cbn [fst snd].
    + (* a pooled slice *)
      specialize (Hr eq_refl). subst r. set (l := UBuffer.pg_id g).
      assert (Hl : tag b l = Some Pool) by (apply H1; apply Hrin; left; auto).
      assert (Hlt : l < length (bh b)) by (eapply tag_lt; eauto).
      assert (Hnp : ~ In l (pool_ids p')) by (apply Hd; left; auto).
      split.
      { constructor; cbn [bh bpl bca bm_hp bm_pool]; auto.
        -- intros x Hx. unfold tag. cbn [bh bm_hp bm_pool]. rewrite hown_hchown_other; [apply H1; auto|]. intros <-. auto.
        -- intros m Hm. unfold tag. cbn [bh bm_hp bm_pool]. rewrite hown_hchown_other; [apply H2; auto|].
           intros E. specialize (H2 m Hm). unfold tag in *. rewrite <- E in H2. congruence. }
      unfold tag, cont. cbn [bh bpl bca bm_hp bm_pool]. repeat split; auto.
      * apply hown_hchown_same. auto.
      * cbn [bh bm_hp bm_pool]. rewrite hchown_length. auto.
      * intros x Hx Hn. unfold tag. cbn [bh bm_hp bm_pool]. apply hown_hchown_other. auto.
      * intros x Hx _. unfold cont. cbn [bh bm_hp bm_pool]. apply hget_hchown.
    + (* a new array *)
      specialize (Hf eq_refl).
      pose proof (bm_alloc_spec (bm_pool b p') [] (DB KBlock)) as (El & Elen & Et & Ec & Ep & Eca & Hold).
      cbn [bh bpl bca bm_pool] in *.
      assert (Ibp : BInv (bm_pool b p')).
      { constructor; cbn [bh bpl bca bm_pool]; auto. intros x Hx. apply (H1 x). auto. }
      split; [apply BInv_alloc; auto|]. repeat split; auto.
      * rewrite Ep. intros Hin. specialize (H1 _ (Hsub _ Hin)). apply tag_lt in H1. rewrite El in H1. lia.
      * rewrite Elen. lia.
      * intros x Hx _. apply Hold. auto.
      * intros x Hx _. apply Hold. auto.
  - pose proof (bm_alloc_spec b [] (DB KBlock)) as (El & Elen & Et & Ec & Ep & Eca & Hold).
    split; [apply BInv_alloc; auto|]. repeat split; auto.
    + rewrite Ep. intros Hin. specialize (H1 _ Hin). apply tag_lt in H1. rewrite El in H1. lia.
    + rewrite Elen. lia.
    + intros x Hx _. apply Hold. auto.
    + intros x Hx _. apply Hold. auto.
Qed.

(* bpool.Put of a buffer that is neither pooled nor cached *)
Lemma bpool_put_spec c b l : BInv b -> l < length (bh b) -> ~ In l (pool_ids (bpl b)) -> ~ In l (map n_loc (bca b)) ->
  let b' := bpool_put c b l in
  BInv b' /\ bca b' = bca b /\ length (bh b') = length (bh b) /\
  tags_kept b b' (fun x => x = l) /\ conts_kept b b' (fun _ => False) /\
  (forall x, In x (pool_ids (bpl b')) -> x = l \/ In x (pool_ids (bpl b))) /\
  (forall o, tag b' l = Some o -> is_client o = false \/ tag b l = Some o).
Proof.
  intros I Hlt Hnp Hnc. pose proof I as [H1 H2 H3 H4]. unfold bpool_put. destruct (pool_on c).
  - unfold tag, cont. cbn [bh bpl bca bm_hp bm_pool].
    assert (Hids : forall x, In x (pool_ids (UBuffer.bp_put (bpl b) (l, cap_of b l))) -> x = l \/ In x (pool_ids (bpl b))).
    { intros x Hx. destruct (bp_put_ids (bpl b) l (cap_of b l)) as [P|E].
      - apply (Permutation_in _ P) in Hx. destruct Hx; auto.
      - right. rewrite <- E. exact Hx. }
    split.
    { constructor; cbn [bh bpl bca bm_hp bm_pool]; auto.
      * intros x Hx. unfold tag. cbn [bh bm_hp bm_pool]. destruct (Nat.eq_dec l x) as [<-|Hn].
        -- apply hown_hchown_same; auto.
        -- rewrite hown_hchown_other by auto. destruct (Hids x Hx); [congruence|]. apply H1; auto.
      * intros m Hm. unfold tag. cbn [bh bm_hp bm_pool]. rewrite hown_hchown_other; [apply H2; auto|].
        intros E. apply Hnc. rewrite E. apply in_map. auto.
      * destruct (bp_put_ids (bpl b) l (cap_of b l)) as [P|E].
        -- eapply Permutation_NoDup; [symmetry; exact P|]. constructor; auto.
        -- eapply Permutation_NoDup; [apply Permutation_refl'; symmetry; exact E|]. auto. }
    repeat split; auto; unfold tag, cont; cbn [bh bpl bca bm_hp bm_pool].
    + apply hchown_length.
    + rewrite hchown_length. auto.
    + intros x Hx Hn. apply hown_hchown_other. auto.
    + intros x Hx _. apply hget_hchown.
    + intros o Ho. rewrite hown_hchown_same in Ho by auto. inversion Ho; subst. left. reflexivity.
  - split; auto. repeat split; auto.
Qed.

(* the contents of l are replaced *)
Lemma BInv_hset b l x : BInv b -> BInv (bm_hp b (hset (bh b) l x)).
Proof.
  intros [H1 H2 H3 H4]. constructor; cbn [bh bpl bca bm_hp]; auto.
  - intros y Hy. unfold tag. cbn [bh bm_hp]. rewrite hown_hset. apply H1; auto.
  - intros n Hn. unfold tag. cbn [bh bm_hp]. rewrite hown_hset. apply H2; auto.
Qed.

Lemma hset_tags b l x : tags_kept b (bm_hp b (hset (bh b) l x)) (fun _ => False).
Proof. split; cbn [bh bm_hp]; [rewrite hset_length; auto|]. intros y _ _. unfold tag. cbn [bh bm_hp]. apply hown_hset. Qed.

Lemma hset_conts b l x : conts_kept b (bm_hp b (hset (bh b) l x)) (fun y => y = l).
Proof. intros y _ Hn. unfold cont. cbn [bh bm_hp]. apply hget_hset_other. auto. Qed.

(* readRawBlock: the result is a private buffer holding the block; only pooled (or new) locations changed *)
Definition was_pool_or_new (b : bm) (l : loc) : Prop := tag b l = Some Pool \/ length (bh b) <= l.

Lemma owner_dec (a b : option owner) : {a = b} + {a <> b}.
Proof. repeat decide equality. Qed.

Lemma classic_was b l : was_pool_or_new b l \/ ~ was_pool_or_new b l.
Proof.
  unfold was_pool_or_new. destruct (owner_dec (tag b l) (Some Pool)); [left; auto|].
  destruct (le_dec (length (bh b)) l); [left; auto|]. right. intros [|]; auto.
Qed.

Lemma read_raw_spec c b fb pk : BInv b ->
  let b' := fst (read_raw c b fb pk) in let l := snd (read_raw c b fb pk) in
  BInv b' /\ tag b' l = Some (DB KBlock) /\ ~ In l (pool_ids (bpl b')) /\ bca b' = bca b /\ was_pool_or_new b l /\
  cont b' l = fimg fb /\
  tags_kept b b' (was_pool_or_new b) /\ conts_kept b b' (was_pool_or_new b) /\
  (forall x, In x (pool_ids (bpl b')) -> was_pool_or_new b x).
Proof.
  intros I. unfold read_raw.
  destruct (bpool_get c b (N.of_nat (length (fimg fb) + 5)) (fst pk)) as [b1 l] eqn:E1.
  pose proof (bpool_get_spec c b (N.of_nat (length (fimg fb) + 5)) (fst pk) I) as S1. rewrite E1 in S1. cbn [fst snd] in S1.
  destruct S1 as (I1 & T1 & N1 & C1 & O1 & K1 & Q1 & P1).
  assert (Wl : was_pool_or_new b l) by (destruct O1; [left; auto|right; lia]).
  assert (Lt1 : l < length (bh b1)) by (eapply tag_lt; eauto).
  set (b2 := bm_hp b1 (hset (bh b1) l (fimg fb))).
  assert (I2 : BInv b2) by (apply BInv_hset; auto).
  assert (T2 : tag b2 l = Some (DB KBlock)) by (unfold b2, tag; cbn [bh bm_hp]; rewrite hown_hset; auto).
  assert (C2 : cont b2 l = fimg fb) by (unfold b2, cont; cbn [bh bm_hp]; apply hget_hset_same; auto).
  assert (K2 : tags_kept b b2 (was_pool_or_new b)).
  { eapply tags_kept_trans; [exact K1|apply hset_tags|]. intros x Hx H; destruct H as [H|H]; [subst; auto|contradiction]. }
  assert (Q2 : conts_kept b b2 (was_pool_or_new b)).
  { eapply conts_kept_trans; [apply K1|exact Q1|apply hset_conts|]. intros x Hx H; destruct H as [H|H]; [contradiction|subst; auto]. }
  assert (P2 : forall x, In x (pool_ids (bpl b2)) -> was_pool_or_new b x).
  { intros x Hx. left. apply (bi_pool _ I). apply P1. exact Hx. }
  destruct (snappy c); cbn [fst snd].
  - destruct (bpool_get c b2 (N.of_nat (length (fimg fb) + 5)) (snd pk)) as [b3 l2] eqn:E3.
    pose proof (bpool_get_spec c b2 (N.of_nat (length (fimg fb) + 5)) (snd pk) I2) as S3. rewrite E3 in S3. cbn [fst snd] in S3.
    destruct S3 as (I3 & T3 & N3 & C3 & O3 & K3 & Q3 & P3).
    assert (Hne : l2 <> l).
    { destruct O3 as [O3|O3]; [congruence|]. unfold b2 in O3. cbn [bh bm_hp] in O3. rewrite hset_length in O3. lia. }
    assert (Lt3 : l2 < length (bh b3)) by (eapply tag_lt; eauto).
    set (b4 := bm_hp b3 (hset (bh b3) l2 (fimg fb))).
    assert (I4 : BInv b4) by (apply BInv_hset; auto).
    assert (Wl2 : was_pool_or_new b l2).
    { destruct O3 as [O3|O3].
      - destruct (Nat.lt_ge_cases l2 (length (bh b))) as [Hlt|]; [|right; auto].
        destruct (classic_was b l2) as [W|W]; auto.
        destruct K2 as [_ K2]. rewrite K2 in O3 by auto. left. auto.
      - right. destruct K2 as [L2 _]. lia. }
    assert (Tl4 : tag b4 l = Some (DB KBlock)).
    { unfold b4, tag. cbn [bh bm_hp]. rewrite hown_hset. destruct K3 as [_ K3]. unfold tag in K3. rewrite K3; auto.
      unfold b2. cbn [bh bm_hp]. rewrite hset_length. auto. }
    assert (Lt4 : l < length (bh b4)).
    { eapply tag_lt; eauto. }
    assert (Np4 : ~ In l (pool_ids (bpl b4))).
    { unfold b4. cbn [bpl bm_hp]. intros Hin. apply P3 in Hin. unfold b2 in Hin. cbn [bpl bm_hp] in Hin. auto. }
    assert (Nc4 : ~ In l (map n_loc (bca b4))).
    { unfold b4. cbn [bca bm_hp]. rewrite C3. unfold b2. cbn [bca bm_hp]. intros Hin. apply in_map_iff in Hin.
      destruct Hin as (m & Em & Hm). pose proof (bi_cache _ I1 m Hm) as Hc. rewrite Em in Hc. congruence. }
    pose proof (bpool_put_spec c b4 l I4 Lt4 Np4 Nc4) as (I5 & C5 & L5 & K5 & Q5 & P5 & _).
    assert (K4 : tags_kept b b4 (was_pool_or_new b)).
    { eapply tags_kept_trans; [exact K2| |].
      - eapply tags_kept_trans; [exact K3|apply hset_tags|]. intros x Hx H. exact H.
      - intros x Hx H; destruct H as [H|[H|H]]; [auto|subst; auto|contradiction]. }
    assert (Q4 : conts_kept b b4 (was_pool_or_new b)).
    { eapply conts_kept_trans; [apply K2|exact Q2| |].
      - eapply conts_kept_trans; [apply K3|exact Q3|apply hset_conts|]. intros x Hx H. exact H.
      - intros x Hx H; destruct H as [H|[H|H]]; [auto|contradiction|subst; auto]. }
    assert (K6 : tags_kept b (bpool_put c b4 l) (was_pool_or_new b)).
    { eapply tags_kept_trans; [exact K4|exact K5|]. intros x Hx H; destruct H as [H|H]; [auto|subst; auto]. }
    split; [exact I5|]. cbn [fst snd]. repeat split; auto; try apply K6.
    + destruct K5 as [_ K5].
      rewrite K5; [unfold b4, tag; cbn [bh bm_hp]; rewrite hown_hset; auto
                  | unfold b4; cbn [bh bm_hp]; rewrite hset_length; auto | auto].
    + cbn [fst snd]. intros Hin. destruct (P5 _ Hin) as [E|Hin']; [congruence|]. unfold b4 in Hin'. cbn [bpl bm_hp] in Hin'. auto.
    + rewrite C5. unfold b4. cbn [bca bm_hp]. rewrite C3. unfold b2. cbn [bca bm_hp]. auto.
    + cbn [fst snd]. rewrite Q5; [unfold b4, cont; cbn [bh bm_hp]; apply hget_hset_same; auto
                                  | unfold b4; cbn [bh bm_hp]; rewrite hset_length; auto | auto].
    + eapply conts_kept_trans; [apply K4|exact Q4|exact Q5|]. intros x Hx H; destruct H as [H|H]; [auto|contradiction].
    + intros x Hx. destruct (P5 _ Hx) as [->|Hx']; auto.
  - split; [exact I2|]. repeat split; auto; try apply K2.
Qed.

(* ---------------------------------------------------------------- cache nodes *)

Definition same_node (n n' : cnode) : Prop := n_loc n' = n_loc n /\ n_tid n' = n_tid n /\ n_bi n' = n_bi n.

Lemma same_node_refl n : same_node n n.
Proof. repeat split. Qed.

Lemma node_lookup_in c tid bi n : node_lookup c tid bi = Some n -> In n c /\ n_tid n = tid /\ n_bi n = bi.
Proof.
  induction c as [|m c IH]; simpl; [discriminate|].
  destruct (Nat.eqb (n_tid m) tid && Nat.eqb (n_bi m) bi) eqn:E.
  - intros H. inversion H; subst. apply andb_true_iff in E. destruct E as [E1 E2].
    apply Nat.eqb_eq in E1. apply Nat.eqb_eq in E2. auto.
  - intros H. destruct (IH H) as (? & ? & ?). auto.
Qed.

Lemma promote_locs c l : map n_loc (promote c l) = map n_loc c.
Proof. induction c as [|m c IH]; simpl; auto. destruct (Nat.eqb (n_loc m) l); simpl; [reflexivity|f_equal; auto]. Qed.

Lemma promote_fwd c l n : In n c -> exists n', In n' (promote c l) /\ same_node n n'.
Proof.
  induction c as [|m c IH]; simpl; [contradiction|]. intros [->|H].
  - destruct (Nat.eqb (n_loc n) l).
    + exists (set_lru n true). split; [left; auto|repeat split].
    + exists n. split; [left; auto|apply same_node_refl].
  - destruct (Nat.eqb (n_loc m) l).
    + exists n. split; [right; auto|apply same_node_refl].
    + destruct (IH H) as (n' & Hn' & S). exists n'. split; [right; auto|auto].
Qed.

Lemma promote_bwd c l n' : In n' (promote c l) -> exists n, In n c /\ same_node n n'.
Proof.
  induction c as [|m c IH]; simpl; [contradiction|]. destruct (Nat.eqb (n_loc m) l); simpl.
  - intros [<-|H]; [exists m; split; [left; auto|repeat split]|exists n'; split; [right; auto|apply same_node_refl]].
  - intros [<-|H]; [exists m; split; [left; auto|apply same_node_refl]|].
    destruct (IH H) as (n & Hn & S). exists n. split; [right; auto|auto].
Qed.

Lemma node_of_in c l n : node_of c l = Some n -> In n c /\ n_loc n = l.
Proof.
  induction c as [|m c IH]; simpl; [discriminate|]. destruct (Nat.eqb (n_loc m) l) eqn:E.
  - intros H. inversion H; subst. apply Nat.eqb_eq in E. auto.
  - intros H. destruct (IH H). auto.
Qed.

Lemma remove_node_sub c l n : In n (remove_node c l) -> In n c.
Proof.
  induction c as [|m c IH]; simpl; auto. destruct (Nat.eqb (n_loc m) l); simpl; auto. intros [->|H]; auto.
Qed.

Lemma remove_node_keeps c l n : In n c -> n_loc n <> l -> In n (remove_node c l).
Proof.
  induction c as [|m c IH]; simpl; auto. intros [->|H] Hn.
  - destruct (Nat.eqb (n_loc n) l) eqn:E; [apply Nat.eqb_eq in E; congruence|left; auto].
  - destruct (Nat.eqb (n_loc m) l); [auto|right; auto].
Qed.

Lemma remove_node_nodup c l : NoDup (map n_loc c) -> NoDup (map n_loc (remove_node c l)) /\ ~ In l (map n_loc (remove_node c l)).
Proof.
  induction c as [|m c IH]; simpl; intros N; [split; [constructor|auto]|]. inversion N; subst.
  destruct (Nat.eqb (n_loc m) l) eqn:E.
  - apply Nat.eqb_eq in E. subst. auto.
  - apply Nat.eqb_neq in E. destruct (IH H2) as [N' Hn]. split.
    + simpl. constructor; auto. intros Hin. apply H1. apply in_map_iff in Hin. destruct Hin as (x & Ex & Hx).
      apply in_map_iff. exists x. split; auto. eapply remove_node_sub; eauto.
    + simpl. intros [H|H]; auto.
Qed.

(* readBlockCached *)
Lemma acquire_spec c b tid bi ofb pk : BInv b ->
  let b' := fst (acquire c b tid bi ofb pk) in
  BInv b' /\ tags_kept b b' (was_pool_or_new b) /\ conts_kept b b' (was_pool_or_new b) /\
  (forall n, In n (bca b) -> exists n', In n' (bca b') /\ same_node n n') /\
  (forall n', In n' (bca b') -> (exists n, In n (bca b) /\ same_node n n') \/ was_pool_or_new b (n_loc n')) /\
  (forall x, In x (pool_ids (bpl b')) -> In x (pool_ids (bpl b)) \/ was_pool_or_new b x) /\
  match snd (acquire c b tid bi ofb pk) with
  | None => True
  | Some h =>
      h_tid h = tid /\ h_bi h = bi /\
      match h_kind h with
      | HCache => exists n, In n (bca b') /\ n_loc n = h_loc h /\ n_tid n = tid /\ n_bi n = bi
      | HOwn => tag b' (h_loc h) = Some (DB KBlock) /\ ~ In (h_loc h) (pool_ids (bpl b')) /\
                was_pool_or_new b (h_loc h) /\ bca b' = bca b
      end /\
      exists fb, ofb = Some fb /\ (h_kind h = HOwn \/ node_lookup (bca b) tid bi = None -> cont b' (h_loc h) = fimg fb)
  end.
Proof.
  intros I. unfold acquire. destruct ofb as [fb|]; cbn [fst snd].
  2:{ split; auto. split; [apply tags_kept_refl|]. split; [intros x _ _; reflexivity|].
      split; [intros n Hn; exists n; split; auto; apply same_node_refl|].
      split; [intros n Hn; left; exists n; split; auto; apply same_node_refl|]. split; auto. }
  destruct (cache_on c).
  - destruct (node_lookup (bca b) tid bi) as [n|] eqn:En; cbn [fst snd].
    + (* a hit *)
      destruct (node_lookup_in _ _ _ _ En) as (Hin & Et & Eb).
      pose proof I as [H1 H2 H3 H4].
      split.
      { constructor; cbn [bh bpl bca bm_cache]; auto.
        - intros m Hm. destruct (promote_bwd _ _ _ Hm) as (m0 & Hm0 & (El & _)). unfold tag in *. cbn [bh bm_cache].
          rewrite El. apply H2. auto.
        - rewrite promote_locs. auto. }
      split; [split; auto|]. split; [intros x _ _; reflexivity|].
      split; [intros m Hm; cbn [bca bm_cache]; apply promote_fwd; auto|].
      split; [intros m Hm; cbn [bca bm_cache] in Hm; left; apply promote_bwd in Hm; auto|].
      split; [auto|]. cbn [h_tid h_bi h_loc h_kind]. repeat split; auto.
      * destruct (promote_fwd _ (n_loc n) _ Hin) as (n' & Hn' & (E1 & E2 & E3)). exists n'. cbn [bca bm_cache].
        repeat split; auto; congruence.
      * exists fb. split; auto. intros [H|H]; discriminate.
    + (* a miss: read and insert *)
      destruct (read_raw c b fb pk) as [b1 l] eqn:Er.
      pose proof (read_raw_spec c b fb pk I) as S. rewrite Er in S. cbn [fst snd] in S.
      destruct S as (I1 & T1 & N1 & C1 & W1 & Q1 & K1 & R1 & P1). cbn [fst snd].
      assert (Lt : l < length (bh b1)) by (eapply tag_lt; eauto).
      assert (Hnc : ~ In l (map n_loc (bca b1))).
      { intros Hin. apply in_map_iff in Hin. destruct Hin as (m & Em & Hm). pose proof (bi_cache _ I1 m Hm) as Hc.
        rewrite Em in Hc. congruence. }
      pose proof I1 as [H1 H2 H3 H4].
      split.
      { constructor; cbn [bh bpl bca bm_cache bm_hp]; auto.
        - intros x Hx. unfold tag. cbn [bh bm_cache bm_hp]. rewrite hown_hchown_other; [apply H1; auto|]. intros <-. auto.
        - intros m [<-|Hm]; unfold tag; cbn [bh bm_cache bm_hp n_loc].
          + apply hown_hchown_same. auto.
          + rewrite hown_hchown_other; [apply H2; auto|]. intros E. apply Hnc. rewrite E. apply in_map. auto.
        - simpl. constructor; auto. }
      split.
      { eapply tags_kept_trans; [exact K1| |].
        - split; [cbn [bh bm_cache bm_hp]; rewrite hchown_length; auto|].
          intros x Hx Hn. unfold tag. cbn [bh bm_cache bm_hp]. apply hown_hchown_other. exact Hn.
        - intros x Hx H; destruct H as [H|H]; [auto|subst; auto]. }
      split.
      { intros x Hx Hn. unfold cont. cbn [bh bm_cache bm_hp]. rewrite hget_hchown. apply R1; auto. }
      split; [intros m Hm; exists m; split; [right; rewrite C1; auto|apply same_node_refl]|].
      split.
      { intros m [<-|Hm]; [right; auto|left]. exists m. rewrite C1 in Hm. split; auto. apply same_node_refl. }
      split; [intros x Hx; right; apply P1; auto|].
      cbn [h_tid h_bi h_loc h_kind]. repeat split; auto.
      * eexists. split; [left; reflexivity|]. repeat split.
      * exists fb. split; auto. intros _. unfold cont. cbn [bh bm_cache bm_hp]. rewrite hget_hchown. auto.
  - destruct (read_raw c b fb pk) as [b1 l] eqn:Er.
    pose proof (read_raw_spec c b fb pk I) as S. rewrite Er in S. cbn [fst snd] in S.
    destruct S as (I1 & T1 & N1 & C1 & W1 & Q1 & K1 & R1 & P1). cbn [fst snd].
    split; auto. split; auto. split; auto.
    split; [intros m Hm; exists m; split; [rewrite C1; auto|apply same_node_refl]|].
    split; [intros m Hm; left; exists m; rewrite C1 in Hm; split; auto; apply same_node_refl|].
    split; [intros x Hx; right; apply P1; auto|].
    cbn [h_tid h_bi h_loc h_kind]. repeat split; auto.
    exists fb. split; auto.
Qed.

(* the death of a cache node *)
Lemma gc_node_spec c b held l : BInv b ->
  let b' := gc_node c b held l in
  BInv b' /\ tags_kept b b' (fun x => x = l) /\ conts_kept b b' (fun _ => False) /\ length (bh b') = length (bh b) /\
  (forall n, In n (bca b) -> n_loc n <> l -> In n (bca b')) /\ (forall n, In n (bca b') -> In n (bca b)) /\
  (held = true -> bca b' = bca b) /\
  (forall x, In x (pool_ids (bpl b')) -> x = l \/ In x (pool_ids (bpl b))) /\
  (forall o, tag b' l = Some o -> is_client o = false \/ tag b l = Some o).
Proof.
  intros I. unfold gc_node.
  assert (Same : BInv b /\ tags_kept b b (fun x => x = l) /\ conts_kept b b (fun _ => False) /\ length (bh b) = length (bh b) /\
    (forall n, In n (bca b) -> n_loc n <> l -> In n (bca b)) /\ (forall n, In n (bca b) -> In n (bca b)) /\
    (held = true -> bca b = bca b) /\
    (forall x, In x (pool_ids (bpl b)) -> x = l \/ In x (pool_ids (bpl b))) /\
    (forall o, tag b l = Some o -> is_client o = false \/ tag b l = Some o)).
  { split; auto. split; [apply tags_kept_refl|]. split; [intros x _ _; reflexivity|]. repeat split; auto. }
  destruct (node_of (bca b) l) as [n|] eqn:En; [|exact Same].
  destruct (n_lru n || held) eqn:Eh; [exact Same|].
  apply orb_false_iff in Eh. destruct Eh as [_ Eh]. subst held.
  destruct (node_of_in _ _ _ En) as [Hin El].
  pose proof I as [H1 H2 H3 H4].
  destruct (remove_node_nodup (bca b) l H4) as [N' Hnl].
  set (b1 := bm_cache b (remove_node (bca b) l)).
  assert (I1 : BInv b1).
  { constructor; cbn [bh bpl bca bm_cache b1]; auto. intros m Hm. apply (H2 m). eapply remove_node_sub; eauto. }
  assert (Lt : l < length (bh b1)).
  { cbn [bh bm_cache b1]. rewrite <- El. apply (tag_lt b _ Cache). apply (H2 n Hin). }
  assert (Hnp : ~ In l (pool_ids (bpl b1))).
  { cbn [bpl bm_cache b1]. intros Hp. specialize (H1 _ Hp). specialize (H2 _ Hin). rewrite El in H2. congruence. }
  pose proof (bpool_put_spec c b1 l I1 Lt Hnp Hnl) as (I2 & C2 & L2 & K2 & Q2 & P2 & O2).
  split; auto. split; [exact K2|]. split; [exact Q2|]. split; [exact L2|].
  split; [intros m Hm Hne; rewrite C2; cbn [bca bm_cache b1]; apply remove_node_keeps; auto|].
  split; [intros m Hm; rewrite C2 in Hm; cbn [bca bm_cache b1] in Hm; eapply remove_node_sub; eauto|].
  split; [discriminate|]. split; [exact P2|exact O2].
Qed.

(* a holder lets go *)
Lemma release_hold_spec c b held h : BInv b -> (h_kind h = HOwn -> tag b (h_loc h) = Some (DB KBlock)) ->
  let b' := release_hold c b held h in let l := h_loc h in
  BInv b' /\ tags_kept b b' (fun x => x = l) /\ conts_kept b b' (fun _ => False) /\ length (bh b') = length (bh b) /\
  (forall n, In n (bca b) -> n_loc n <> l -> In n (bca b')) /\ (forall n, In n (bca b') -> In n (bca b)) /\
  (h_kind h = HCache -> held l = true -> bca b' = bca b) /\ (h_kind h = HOwn -> bca b' = bca b) /\
  (forall x, In x (pool_ids (bpl b')) -> x = l \/ In x (pool_ids (bpl b))) /\
  (forall o, tag b' l = Some o -> is_client o = false \/ tag b l = Some o).
Proof.
  intros I Ho. unfold release_hold. destruct (h_kind h) eqn:Ek.
  - pose proof (gc_node_spec c b (held (h_loc h)) (h_loc h) I) as (A1 & A2 & A3 & A4 & A5 & A6 & A7 & A8 & A9).
    split; auto. split; auto. split; auto. split; auto. split; auto. split; auto. split; auto. split; [discriminate|]. auto.
  - specialize (Ho eq_refl). pose proof I as [H1 H2 H3 H4].
    assert (Lt : h_loc h < length (bh b)) by (eapply tag_lt; eauto).
    assert (Hnp : ~ In (h_loc h) (pool_ids (bpl b))) by (intros Hp; specialize (H1 _ Hp); congruence).
    assert (Hnc : ~ In (h_loc h) (map n_loc (bca b))).
    { intros Hin. apply in_map_iff in Hin. destruct Hin as (m & Em & Hm). specialize (H2 m Hm). rewrite Em in H2. congruence. }
    pose proof (bpool_put_spec c b (h_loc h) I Lt Hnp Hnc) as (I2 & C2 & L2 & K2 & Q2 & P2 & O2).
    split; auto. split; auto. split; auto. split; auto.
    split; [intros m Hm _; rewrite C2; auto|]. split; [intros m Hm; rewrite C2 in Hm; auto|].
    split; [discriminate|]. split; auto.
Qed.
