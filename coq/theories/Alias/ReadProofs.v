(* Alias/ReadProofs.v — DB.get / DB.has of the ownership model (fixed code): they are quiet, keep the
   block invariant, return client-owned copies, and answer like the stored contents. *)
From GL Require Import Alias.Heap Alias.AliasModel Alias.HeapProofs Alias.ContentProofs Alias.InvProofs Alias.BlockProofs Base.BytesProofs.
From Coq Require Import Arith Lia.
Local Open Scope nat_scope.

(* what a read-side function (started in a state quiet-reachable from s) must deliver for the stored list lst *)
Definition getspec (c : config) (s : state) (k : bytes) (lst : amap) (x : state * option (option ref)) : Prop :=
  quiet s (fst x) /\ blockinv c (fst x) /\ cvis (fst x) = cvis s /\
  res_client (hp (fst x)) (snd x) /\ res_val (hp (fst x)) (snd x) = assoc k lst.

Lemma res_val_quiet s s' r : quiet s s' -> res_client (hp s) r -> res_val (hp s') r = res_val (hp s) r /\ res_client (hp s') r.
Proof.
  intros Q. destruct r as [[v|]|]; simpl; auto. intros O. split.
  - f_equal. f_equal. unfold deref. erewrite keep_get; eauto. apply Q. auto.
  - eapply keep_own; eauto. apply Q. auto.
Qed.

Lemma orelse_spec c s k l1 l2 x f :
  getspec c s k l1 x ->
  (forall s1, quiet s s1 -> blockinv c s1 -> cvis s1 = cvis s -> getspec c s k l2 (f s1)) ->
  getspec c s k (l1 ++ l2) (orelse x f).
Proof.
  intros (Q & B & V & RC & RV) H. destruct x as [s1 [r|]]; simpl in *.
  - unfold getspec; simpl. split5; auto. rewrite assoc_app, <- RV. destruct r; auto.
  - destruct (H s1 Q B V) as (Q2 & B2 & V2 & RC2 & RV2).
    unfold getspec. split5; auto. rewrite assoc_app, <- RV. simpl. auto.
Qed.

Lemma tabs_get_spec c tids : forall s0 s k,
  quiet s0 s -> blockinv c s -> cvis s = cvis s0 ->
  getspec c s0 k (tabs_content s0 tids) (tabs_get fixed_modes c s tids k).
Proof.
  induction tids as [|t ts IH]; intros s0 s k Q B V.
  - simpl. unfold getspec; simpl. split5; auto.
  - simpl. destruct (tab_get fixed_modes c s t k) as [s1 r1] eqn:ET.
    destruct (tab_get_ok _ _ _ _ _ _ B ET) as (Q1 & B1 & V1 & RV1 & RC1).
    assert (quiet s0 s1) as Q01 by (eapply quiet_trans; eauto).
    assert (tab_file_content s t = tab_file_content s0 t) as ET0
      by (unfold tab_file_content; rewrite (q_files _ _ Q); auto).
    destruct r1 as [r|].
    + unfold getspec; simpl. split5; auto; try congruence.
      unfold tabs_content; simpl. rewrite assoc_app, <- ET0, <- RV1. destruct r; auto.
    + destruct (IH s0 s1 k Q01 B1 ltac:(congruence)) as (Q2 & B2 & V2 & RC2 & RV2).
      unfold getspec. split5; auto.
      unfold tabs_content in *; simpl. rewrite assoc_app, <- ET0, <- RV1. simpl. auto.
Qed.

Lemma mem_find_assoc h m k :
  match mem_find h (mds m) k with
  | Some e => assoc k (mem_content h m) = Some (if mdel e then None else Some (deref h (mv e)))
  | None => assoc k (mem_content h m) = None
  end.
Proof.
  unfold mem_content. induction (mds m) as [|e es IH]; simpl; auto.
  destruct (beq (deref h (mk e)) k); auto.
Qed.

Lemma mem_get_spec c p s0 s m k :
  fixed_modes p c = Copy -> quiet s0 s -> blockinv c s -> cvis s = cvis s0 ->
  getspec c s0 k (mem_content (hp s) m) (mem_get fixed_modes c p s m k).
Proof.
  intros EM Q B V. unfold mem_get.
  pose proof (mem_find_assoc (hp s) m k) as HF.
  destruct (mem_find (hp s) (mds m) k) as [e|].
  - destruct (mdel e).
    + unfold getspec; simpl. split5; auto.
    + rewrite EM. unfold transfer.
      destruct (alloc s (deref (hp s) (mv e)) Client) as [s1 nl] eqn:EA.
      assert (s1 = fst (alloc s (deref (hp s) (mv e)) Client)) as Es1 by (rewrite EA; auto).
      assert (nl = length (hp s)) as Enl by (unfold alloc in EA; injection EA as _ <-; auto).
      unfold getspec; simpl. split5.
      * eapply quiet_trans; [exact Q|]. rewrite Es1. apply quiet_alloc.
      * rewrite Es1. apply blockinv_alloc; auto.
      * rewrite Es1. unfold alloc; simpl. auto.
      * rewrite Es1, Enl. unfold alloc; simpl. apply own_alloc_new.
      * assert (hget (hp s1) nl = deref (hp s) (mv e)) as Gn
          by (rewrite Es1, Enl; unfold alloc; simpl; apply hget_alloc_new).
        rewrite HF. f_equal. f_equal. unfold deref at 1. simpl. rewrite Gn. apply sub_all.
  - unfold getspec; simpl. split5; auto.
Qed.

Lemma omem_get_spec c p s0 s m k :
  fixed_modes p c = Copy -> quiet s0 s -> blockinv c s -> cvis s = cvis s0 ->
  getspec c s0 k (ocontent (hp s) m) (omem_get fixed_modes c p s m k).
Proof.
  intros EM Q B V. destruct m as [m|]; simpl.
  - apply mem_get_spec; auto.
  - unfold getspec; simpl. split5; auto.
Qed.

Definition flatten (x : option (option bytes)) : option bytes :=
  match x with Some (Some v) => Some v | _ => None end.

Lemma glookup_flatten k l : glookup k l = flatten (assoc k l).
Proof. unfold glookup, flatten. destruct (assoc k l) as [[v|]|]; auto. Qed.

Definition aux_ok (s : state) (aux : option txnst) : Prop :=
  match aux with None => True | Some t => txn s = Some t end.

Definition view (s : state) (aux : option txnst) : amap :=
  match aux with None => content s | Some t => txn_content s t end.

Lemma tabs_content_app s a b : tabs_content s (a ++ b) = tabs_content s a ++ tabs_content s b.
Proof. unfold tabs_content. apply flat_map_app. Qed.

Lemma db_get_ok c s aux k :
  Inv c s -> aux_ok s aux ->
  getspec c s k (view s aux) (db_get fixed_modes c s aux k).
Proof.
  intros I A.
  assert (view s aux =
          ocontent (hp s) (option_map tmem aux) ++ (mem_content (hp s) (mem s) ++
          (ocontent (hp s) (frozen s) ++ tabs_content s (match aux with Some t => ttabs t | None => [] end ++ l0 s ++ deep s)))) as EV.
  { destruct aux as [t|]; simpl.
    - simpl in A.
      assert (txn s <> None) as NT by congruence.
      destruct (i_txnq _ _ I NT) as [EM EF].
      assert (mem_content (hp s) (mem s) = []) as M0 by (unfold mem_content; rewrite EM; auto).
      assert (ocontent (hp s) (frozen s) = []) as F0.
      { destruct (frozen s) as [m|]; auto. simpl. unfold mem_content. rewrite EF. auto. }
      unfold txn_content, content. rewrite M0, F0. simpl. rewrite !tabs_content_app. auto.
    - auto. }
  rewrite EV. unfold db_get.
  apply orelse_spec.
  { apply omem_get_spec; auto. apply quiet_refl. apply I. }
  intros s1 Q1 B1 V1.
  assert (mem_content (hp s) (mem s) = mem_content (hp s1) (mem s1)) as ->.
  { rewrite (q_mem _ _ Q1). symmetry. apply mem_content_grow; [apply quiet_memgrow; auto|apply I]. }
  apply orelse_spec.
  { apply mem_get_spec; auto. }
  intros s2 Q2 B2 V2.
  assert (ocontent (hp s) (frozen s) = ocontent (hp s2) (frozen s2)) as ->.
  { rewrite (q_frozen _ _ Q2). symmetry. apply ocontent_grow; [apply quiet_memgrow; auto|apply I]. }
  apply orelse_spec.
  { apply omem_get_spec; auto. }
  intros s3 Q3 B3 V3.
  rewrite (q_l0 _ _ Q3), (q_deep _ _ Q3).
  apply tabs_get_spec; auto.
Qed.

(* ---- Has ---- *)

Definition hasspec (c : config) (s : state) (k : bytes) (lst : amap) (x : state * option bool) : Prop :=
  quiet s (fst x) /\ blockinv c (fst x) /\ cvis (fst x) = cvis s /\
  snd x = option_map (fun ov => match ov with Some _ => true | None => false end) (assoc k lst).

Lemma orelse_hasspec c s k l1 l2 x f :
  hasspec c s k l1 x ->
  (forall s1, quiet s s1 -> blockinv c s1 -> cvis s1 = cvis s -> hasspec c s k l2 (f s1)) ->
  hasspec c s k (l1 ++ l2) (orelse x f).
Proof.
  intros (Q & B & V & R) H. destruct x as [s1 [r|]]; simpl in *.
  - unfold hasspec; simpl. split; [|split; [|split]]; auto.
    rewrite assoc_app. destruct (assoc k l1); simpl in *; try discriminate. auto.
  - destruct (H s1 Q B V) as (Q2 & B2 & V2 & R2).
    unfold hasspec. split; [|split; [|split]]; auto.
    rewrite assoc_app. destruct (assoc k l1); simpl in *; try discriminate. auto.
Qed.

Lemma tab_has_ok c s tid k s' r :
  blockinv c s -> tab_has c s tid k = (s', r) ->
  quiet s s' /\ blockinv c s' /\ cvis s' = cvis s /\
  r = option_map (fun ov => match ov with Some _ => true | None => false end) (assoc k (tab_file_content s tid)).
Proof.
  intros B E. unfold tab_has in E. unfold tab_file_content.
  destruct (nth_error (files s) tid) as [t|] eqn:EF.
  2:{ injection E as <- <-. split; [apply quiet_refl|]. auto. }
  pose proof (tab_find_assoc t k 0) as HT.
  destruct (tab_find t k 0) as [[bi fb]|] eqn:ET.
  2:{ injection E as <- <-. split; [apply quiet_refl|]. rewrite HT. auto. }
  destruct HT as (_ & HN & HA & HNB). rewrite Nat.sub_0_r in HN.
  assert (file_block s tid bi = Some fb) as FB by (unfold file_block; rewrite EF; auto).
  destruct (load_block c s tid bi fb) as [[s1 l] cached] eqn:EL.
  destruct (load_block_ok _ _ _ _ _ _ _ _ B FB EL) as (Q1 & B1 & V1 & G1 & O1).
  rewrite G1 in E.
  pose proof (blk_find_assoc (fimg fb) (fds fb) k) as HB.
  destruct (blk_find (fimg fb) (fds fb) k) as [d|] eqn:EB; [|congruence].
  assert (if cached then True else own (hp s1) l (DB KBlock)) as O1' by (destruct cached; tauto).
  injection E as <- <-.
  destruct (release_block_ok c s1 l cached B1 O1') as (Q2 & B2 & V2 & K2).
  split; [eapply quiet_trans; eauto|]. split; [auto|]. split; [congruence|].
  rewrite HA, HB. simpl. unfold dval. destruct (isdel d); auto.
Qed.

Lemma tabs_has_spec c tids : forall s0 s k,
  quiet s0 s -> blockinv c s -> cvis s = cvis s0 ->
  hasspec c s0 k (tabs_content s0 tids) (tabs_has c s tids k).
Proof.
  induction tids as [|t ts IH]; intros s0 s k Q B V.
  - simpl. unfold hasspec; simpl. auto.
  - simpl. destruct (tab_has c s t k) as [s1 r1] eqn:ET.
    destruct (tab_has_ok _ _ _ _ _ _ B ET) as (Q1 & B1 & V1 & R1).
    assert (quiet s0 s1) as Q01 by (eapply quiet_trans; eauto).
    assert (tab_file_content s t = tab_file_content s0 t) as ET0
      by (unfold tab_file_content; rewrite (q_files _ _ Q); auto).
    rewrite ET0 in R1.
    destruct r1 as [r|].
    + unfold hasspec; simpl. split; [|split; [|split]]; auto; try congruence.
      unfold tabs_content; simpl. rewrite assoc_app.
      destruct (assoc k (tab_file_content s0 t)); simpl in *; try discriminate. auto.
    + destruct (IH s0 s1 k Q01 B1 ltac:(congruence)) as (Q2 & B2 & V2 & R2).
      unfold hasspec. split; [|split; [|split]]; auto.
      unfold tabs_content in *; simpl. rewrite assoc_app.
      destruct (assoc k (tab_file_content s0 t)); simpl in *; try discriminate. auto.
Qed.

Lemma mem_has_spec c s0 s m k :
  quiet s0 s -> blockinv c s -> cvis s = cvis s0 ->
  hasspec c s0 k (ocontent (hp s) m) (mem_has s m k).
Proof.
  intros Q B V. destruct m as [m|]; simpl.
  - pose proof (mem_find_assoc (hp s) m k) as HF.
    destruct (mem_find (hp s) (mds m) k) as [e|]; unfold hasspec; simpl; rewrite HF; simpl.
    + split; [|split; [|split]]; auto. destruct (mdel e); auto.
    + auto.
  - unfold hasspec; simpl. auto.
Qed.

Lemma db_has_ok c s k :
  Inv c s -> hasspec c s k (content s) (db_has c s k).
Proof.
  intros I. unfold content, db_has.
  apply orelse_hasspec.
  { apply (mem_has_spec c s s (Some (mem s))); auto. apply quiet_refl. apply I. }
  intros s2 Q2 B2 V2.
  assert (ocontent (hp s) (frozen s) = ocontent (hp s2) (frozen s2)) as ->.
  { rewrite (q_frozen _ _ Q2). symmetry. apply ocontent_grow; [apply quiet_memgrow; auto|apply I]. }
  apply orelse_hasspec.
  { apply mem_has_spec; auto. }
  intros s3 Q3 B3 V3.
  rewrite (q_l0 _ _ Q3), (q_deep _ _ Q3).
  apply tabs_has_spec; auto.
Qed.
