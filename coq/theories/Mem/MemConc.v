(* Mem/MemConc.v — one writer and any number of readers on one memdb, as a transition system
   over the ARRAY model (definitions only; proofs in Mem/MemConcProofs.v).

   Atomic actions are the critical sections of the code: a whole Put or Delete (p.mu.Lock held
   from entry to return), and one iterator call First/Last/Seek/Next/Prev or one Get/Find/Contains
   (p.mu.RLock held for the call).  Readers inside the read lock only read, so any schedule of the
   real system at lock granularity is a sequence of these actions; the theorems quantify over all
   sequences.  Between two actions of a reader any number of writer actions may occur: an iterator
   keeps only its node index, its direction and the key/value it copied out (dbIter.node, forward,
   key, value), exactly as in the code.
   Not modelled: Reset while iterators exist (the code then indexes truncated arrays: see the
   report), the Go memory model below lock granularity, Release.
   c_hist is a ghost log of every pair the writer ever passed to Put. *)
From GL Require Export Mem.MemDB.
Open Scope N_scope.

Inductive mv := MFirst | MLast | MSeek (k : bytes) | MNext | MPrev.

Inductive action :=
| AWPut (k v : bytes) (h : N)          (* writer: Put; h = what randHeight draws if it inserts *)
| AWDelete (k : bytes)                 (* writer: Delete *)
| ARNew (r : N) (sl : option range)    (* reader r: NewIterator(slice) *)
| ARMove (r : N) (m : mv)              (* reader r: one iterator call *)
| ARGet (k : bytes)                    (* some reader: Get *)
| ARFind (k : bytes)                   (* some reader: Find *)
| ARContains (k : bytes).

Record cstate := { c_db : db; c_its : iters; c_hist : list (bytes * bytes) }.

(* what a step lets its caller see, with the ghost log at that moment *)
Inductive cobs :=
| ObsNone
| ObsMove (m : mv) (before after : iter) (hist : list (bytes * bytes))
| ObsGet (k : bytes) (v : option bytes) (hist : list (bytes * bytes))
| ObsFind (k : bytes) (kv : option (bytes * bytes)) (hist : list (bytes * bytes)).

Section Conc.
  Variable c : comparer.
  Variable p : mparams.

  Definition do_move (fuel : nat) (d : db) (it : iter) (m : mv) : res (iter * bool) :=
    match m with
    | MFirst => it_first c p fuel d it
    | MLast => it_last c p fuel d it
    | MSeek k => it_seek c p fuel d it k
    | MNext => it_next c p fuel d it
    | MPrev => it_prev c p fuel d it
    end.

  Definition cstep (s : cstate) (a : action) : res (cstate * cobs) :=
    let d := c_db s in
    let fuel := op_fuel d in
    match a with
    | AWPut k v h =>
        d' <- mdb_put c p fuel d k v h ;;
        Ok ({| c_db := d'; c_its := c_its s; c_hist := (k, v) :: c_hist s |}, ObsNone)
    | AWDelete k =>
        '(d', _) <- mdb_delete c p fuel d k ;;
        Ok ({| c_db := d'; c_its := c_its s; c_hist := c_hist s |}, ObsNone)
    | ARNew r sl =>
        Ok ({| c_db := d; c_its := it_store r (new_iter sl) (c_its s); c_hist := c_hist s |}, ObsNone)
    | ARMove r m =>
        match it_lookup r (c_its s) with
        | None => Ok (s, ObsNone)
        | Some it =>
            '(it', _) <- do_move fuel d it m ;;
            Ok ({| c_db := d; c_its := it_store r it' (c_its s); c_hist := c_hist s |},
                ObsMove m it it' (c_hist s))
        end
    | ARGet k => r <- mdb_get c p fuel d k ;; Ok (s, ObsGet k r (c_hist s))
    | ARFind k => r <- mdb_find c p fuel d k ;; Ok (s, ObsFind k r (c_hist s))
    | ARContains k => _ <- mdb_contains c p fuel d k ;; Ok (s, ObsNone)
    end.

  Fixpoint crun_from (s : cstate) (acts : list action) : res (list cobs) :=
    match acts with
    | [] => Ok []
    | a :: acts' =>
        '(s', o) <- cstep s a ;;
        os <- crun_from s' acts' ;;
        Ok (o :: os)
    end.

  Definition crun (acts : list action) : res (list cobs) :=
    d <- mdb_new p ;;
    crun_from {| c_db := d; c_its := []; c_hist := [] |} acts.

  Definition aheights_ok (acts : list action) : Prop :=
    Forall (fun a => match a with AWPut _ _ h => 1 <= h /\ h <= tMaxHeight p | _ => True end) acts.

  (* what must hold of everything a reader sees *)
  Definition slice_has (sl : option range) (k : bytes) : Prop :=
    match sl with
    | None => True
    | Some (st, li) =>
        (match st with Some s => cmp c k s <> Lt | None => True end) /\
        (match li with Some l => cmp c k l = Lt | None => True end)
    end.

  Definition obs_good (o : cobs) : Prop :=
    match o with
    | ObsNone => True
    | ObsMove m before after hist =>
        if it_valid after then
          exists k v, it_key after = Some k /\ it_val after = Some v /\
                      In (k, v) hist /\                              (* a pair that was stored *)
                      slice_has (it_slice after) k /\                (* inside the slice *)
                      match m with
                      | MNext => forall k0, it_valid before = true -> it_key before = Some k0 -> lt c k0 k
                      | MPrev => forall k0, it_valid before = true -> it_key before = Some k0 -> lt c k k0
                      | MSeek t => cmp c k t <> Lt
                      | _ => True
                      end
        else it_key after = None /\ it_val after = None
    | ObsGet k (Some v) hist => In (k, v) hist
    | ObsGet _ None _ => True
    | ObsFind k (Some (k', v)) hist => In (k', v) hist /\ cmp c k' k <> Lt
    | ObsFind _ None _ => True
    end.
End Conc.
