(* Mem/MemPut.v — Put on the array model: what the link loop does to nodeData, and both
   branches (insert a new node / overwrite in place) preserve the representation invariant
   and act on the abstract map as s_insert (proof file). *)
From GL Require Import Base.OrderProofs Mem.MemDB Mem.MemSpec Mem.ArrayLemmas Mem.ListLemmas
  Mem.MemInv Mem.MemFrame Mem.MemFind Mem.MemSpecProofs.
From Coq Require Import Lia ZifyBool.
Open Scope N_scope.

Section Put.
  Variable c : comparer.
  Hypothesis cok : comparer_ok c.
  Variable p : mparams.
  Hypothesis pok : mparams_ok p.

  Local Notation tmax := (tMaxHeight p).

  (* ---- the link loop ---- *)
  Lemma put_link_spec (pn : list N) (node : N) (nd0 : list N) :
    forall cnt i nd,
      len nd0 <= len nd ->
      i + N.of_nat cnt <= len pn ->
      (forall l, i <= l < i + N.of_nat cnt -> rd pn l + 4 + l < len nd0) ->
      (forall l l', i <= l < i + N.of_nat cnt -> i <= l' < i + N.of_nat cnt -> l <> l' ->
                    rd pn l + l <> rd pn l' + l') ->
      exists nd',
        put_link p cnt i pn nd node = Ok nd' /\
        len nd' = len nd + N.of_nat cnt /\
        (forall s, s < len nd -> (forall l, i <= l < i + N.of_nat cnt -> s <> rd pn l + 4 + l) ->
                   rd nd' s = rd nd s) /\
        (forall l, i <= l < i + N.of_nat cnt ->
                   rd nd' (rd pn l + 4 + l) = node /\
                   rd nd' (len nd + (l - i)) = rd nd (rd pn l + 4 + l)).
  Proof.
    induction cnt as [|cnt IH]; intros i nd Hlen Hpn Hin Hdist.
    - exists nd. cbn [put_link]. split; [reflexivity|]. split; [lia|]. split; [auto|]. intros l Hl. lia.
    - cbn [put_link]. rewrite (Enext p pok).
      rewrite (aget_ok pn i) by lia. cbn [bind].
      set (m := rd pn i + 4 + i).
      assert (Hm : m < len nd0) by (apply Hin; lia).
      rewrite (aget_ok nd m) by lia. cbn [bind].
      assert (Hm2 : m < len (nd ++ [rd nd m])) by (rewrite len_app; lia).
      rewrite (aset_ok _ m node Hm2). cbn [bind].
      set (nd2 := upd (nd ++ [rd nd m]) m node).
      assert (Hl2 : len nd2 = len nd + 1).
      { unfold nd2. rewrite len_upd by exact Hm2. rewrite len_app. reflexivity. }
      destruct (IH (i + 1) nd2) as (nd' & E & Hl' & Hun & Hhit).
      + lia.
      + lia.
      + intros l Hl. apply Hin. lia.
      + intros l l' Hl Hl'. apply Hdist; lia.
      + exists nd'. split; [exact E|]. split; [lia|]. split.
        * intros s Hs Hne. rewrite Hun.
          -- unfold nd2. rewrite rd_upd_other; [|exact Hm2|apply Hne; lia]. apply rd_app1. exact Hs.
          -- lia.
          -- intros l Hl. apply Hne. lia.
        * intros l Hl. destruct (N.eq_dec l i) as [->|Hne].
          -- fold m. split.
             ++ rewrite Hun.
                ** unfold nd2. apply rd_upd_same. exact Hm2.
                ** lia.
                ** intros l Hl3. unfold m. specialize (Hdist i l). lia.
             ++ replace (i - i) with 0 by lia. rewrite N.add_0_r. rewrite Hun.
                ** unfold nd2. rewrite rd_upd_other; [|exact Hm2|lia].
                   replace (len nd) with (len nd + 0) at 1 by lia. rewrite rd_app2. reflexivity.
                ** lia.
                ** intros l Hl3. specialize (Hin l). lia.
          -- destruct (Hhit l) as (H1 & H2); [lia|]. split; [exact H1|].
             replace (len nd + (l - i)) with (len nd2 + (l - (i + 1))) by lia. rewrite H2.
             unfold nd2. rewrite rd_upd_other; [|exact Hm2|].
             ++ apply rd_app1. specialize (Hin l). lia.
             ++ unfold m. specialize (Hdist l i). lia.
  Qed.

  Lemma zero_prev_spec :
    forall cnt i pn,
      i + N.of_nat cnt <= len pn ->
      exists pn', zero_prev cnt i pn = Ok pn' /\ len pn' = len pn /\
                  (forall j, i <= j < i + N.of_nat cnt -> rd pn' j = 0) /\
                  (forall j, ~ (i <= j < i + N.of_nat cnt) -> rd pn' j = rd pn j).
  Proof.
    induction cnt as [|cnt IH]; intros i pn H.
    - exists pn. cbn [zero_prev]. split; [reflexivity|]. split; [reflexivity|]. split; [intros j Hj; lia|auto].
    - cbn [zero_prev]. rewrite (aset_ok pn i 0) by lia. cbn [bind].
      destruct (IH (i + 1) (upd pn i 0)) as (pn' & E & Hl & Hr0 & Hr).
      + rewrite len_upd by lia. lia.
      + exists pn'. split; [exact E|]. split; [rewrite Hl; apply len_upd; lia|]. split.
        * intros j Hj. destruct (N.eq_dec j i) as [->|Hne].
          -- rewrite Hr by lia. apply rd_upd_same. lia.
          -- apply Hr0. lia.
        * intros j Hj. rewrite Hr by lia. apply rd_upd_other; lia.
  Qed.

  (* what nodeData looks like after inserting a node of height h behind the nodes q 0 .. q (h-1) *)
  Definition ins_shape (nd nd' : list N) (kvlen klen vlen h : N) (q : N -> N) : Prop :=
    let node := len nd in
    len nd' = len nd + 4 + h /\
    rd nd' node = kvlen /\ rd nd' (node + 1) = klen /\ rd nd' (node + 2) = vlen /\ rd nd' (node + 3) = h /\
    (forall l, l < h -> rd nd' (q l + 4 + l) = node /\ rd nd' (node + 4 + l) = rd nd (q l + 4 + l)) /\
    (forall s, s < len nd -> (forall l, l < h -> s <> q l + 4 + l) -> rd nd' s = rd nd s).

  Section Insert.
    Variables (d : db) (A L : list N).
    Hypothesis I : Inv c tmax d A L.
    Local Notation nd := (nodeData d).
    Local Notation kv := (kvData d).
    Variables (k v : bytes) (h : N) (Lb Lr : list N).
    Hypothesis EL : L = Lb ++ Lr.
    Hypothesis Hb : Forall (ltk c d k) Lb.
    Hypothesis Hr : Forall (gek c d k) Lr.
    Hypothesis Hh : 1 <= h /\ h <= tmax.

    Definition qof (l : N) : N := last (lvl nd l Lb) 0.

    Lemma qof_props l : l < tmax -> inh A (qof l) /\ l < rech tmax nd (qof l) /\ (qof l = 0 \/ In (qof l) Lb).
    Proof.
      intros Hl. unfold qof, inh, rech.
      destruct (lvl nd l Lb) as [|y r] eqn:E.
      - cbn. repeat split; auto.
      - assert (Hin : In (last (y :: r) 0) (lvl nd l Lb)) by (rewrite E; apply last_in; discriminate).
        apply lvl_incl in Hin as (Hin & Hlt).
        assert (HA : In (last (y :: r) 0) A).
        { apply (inv_sub _ _ _ _ _ I). rewrite EL. apply in_or_app. left. exact Hin. }
        pose proof (inv_nonzero c tmax d A L I _ HA) as Hnz.
        replace (last (y :: r) 0 =? 0) with false by lia. repeat split; auto.
    Qed.

    Lemma qof_slot_bound l : l < tmax -> qof l + 4 + l < len nd.
    Proof.
      intros Hl. destruct (qof_props l Hl) as (H1 & H2 & _).
      replace (qof l + 4 + l) with (qof l + (4 + l)) by lia.
      apply (slot_in_bounds tmax nd kv (maxHeight d) A (inv_head _ _ _ _ _ I) (inv_nodes _ _ _ _ _ I) _ _ H1). lia.
    Qed.

    Lemma slot_eq x i l :
      inh A x -> i < rech tmax nd x -> l < tmax -> x + 4 + i = qof l + 4 + l -> x = qof l /\ i = l.
    Proof.
      intros Hx Hi Hl E. destruct (qof_props l Hl) as (H1 & H2 & _).
      destruct (slot_distinct tmax nd kv (maxHeight d) A (inv_head _ _ _ _ _ I) (inv_nodes _ _ _ _ _ I) (inv_disj _ _ _ _ _ I)
                  x (qof l) (4 + i) (4 + l) Hx H1) as (E1 & E2); lia.
    Qed.

    Lemma field_not_slot x f l :
      inh A x -> f < 4 -> l < tmax -> x + f <> qof l + 4 + l.
    Proof.
      intros Hx Hf Hl E. destruct (qof_props l Hl) as (H1 & H2 & _).
      destruct (slot_distinct tmax nd kv (maxHeight d) A (inv_head _ _ _ _ _ I) (inv_nodes _ _ _ _ _ I) (inv_disj _ _ _ _ _ I)
                  x (qof l) f (4 + l) Hx H1) as (E1 & E2); lia.
    Qed.

    Section Shape.
      Variable nd' : list N.
      Hypothesis S : ins_shape nd nd' (len kv) (len k) (len v) h qof.
      Hypothesis Hgt : forall y, In y Lr -> lt c k (keyof nd kv y).
      Local Notation node := (len nd).
      Local Notation kv' := (kv ++ k ++ v).
      Local Notation mh' := (if maxHeight d <? h then h else maxHeight d).

      Lemma ins_lenle : len nd <= len nd'.
      Proof. destruct S as (S1 & _). lia. Qed.

      Lemma ins_mhle : maxHeight d <= mh'.
      Proof. destruct (maxHeight d <? h) eqn:E; lia. Qed.

      Lemma ins_same_fields : same_fields nd nd' A.
      Proof.
        destruct S as (S1 & S2 & S3 & S4 & S5 & S6 & S7).
        intros x Hx.
        destruct (inv_node_A c tmax d A L I x Hx) as (H1 & H2 & H3 & H4 & H5).
        assert (Hi : inh A x) by (right; exact Hx).
        unfold hgt.
        repeat split; apply S7; try lia; intros l Hl.
        - replace x with (x + 0) by lia. apply field_not_slot; auto; lia.
        - apply field_not_slot; auto; lia.
        - apply field_not_slot; auto; lia.
        - apply field_not_slot; auto; lia.
      Qed.

      Lemma ins_nx x i :
        inh A x -> i < rech tmax nd x ->
        nx nd' x i = if (i <? h) && (x =? qof i) then node else nx nd x i.
      Proof.
        destruct S as (S1 & S2 & S3 & S4 & S5 & S6 & S7).
        intros Hx Hi. unfold nx.
        assert (Hit : i < tmax).
        { unfold rech in Hi. destruct Hx as [->|Hx].
          - rewrite N.eqb_refl in Hi. exact Hi.
          - destruct (inv_node_A c tmax d A L I x Hx) as (H1 & H2 & H3 & H4 & H5).
            destruct (inv_mh _ _ _ _ _ I). replace (x =? 0) with false in Hi by lia. lia. }
        destruct ((i <? h) && (x =? qof i)) eqn:E.
        - assert (x = qof i) by lia. subst x. apply S6. lia.
        - apply S7.
          + replace (x + 4 + i) with (x + (4 + i)) by lia.
            apply (slot_in_bounds tmax nd kv (maxHeight d) A (inv_head _ _ _ _ _ I) (inv_nodes _ _ _ _ _ I) _ _ Hx). lia.
          + intros l Hl Heq. destruct (slot_eq x i l Hx Hi) as (E1 & E2); [lia|exact Heq|].
            subst l x. lia.
      Qed.

      Lemma ins_hgt_node : hgt nd' node = h.
      Proof. destruct S as (S1 & S2 & S3 & S4 & S5 & S6 & S7). exact S5. Qed.

      Lemma ins_kvof_node : kvof nd' kv' node = (k, v).
      Proof.
        destruct S as (S1 & S2 & S3 & S4 & S5 & S6 & S7).
        unfold kvof, keyof, valof. rewrite S2, S3, S4. now rewrite sl_app_mid, sl_app_end.
      Qed.

      Lemma ins_lvl i :
        lvl nd' i (Lb ++ node :: Lr) = lvl nd i Lb ++ (if i <? h then [node] else []) ++ lvl nd i Lr.
      Proof.
        pose proof (inv_sub _ _ _ _ _ I) as Hsub.
        rewrite lvl_app. unfold lvl at 2. cbn [filter]. fold (lvl nd' i Lr).
        rewrite ins_hgt_node.
        rewrite (lvl_same nd nd' A ins_same_fields i Lb).
        2:{ intros x Hx. apply Hsub. rewrite EL. apply in_or_app. left. exact Hx. }
        rewrite (lvl_same nd nd' A ins_same_fields i Lr).
        2:{ intros x Hx. apply Hsub. rewrite EL. apply in_or_app. right. exact Hx. }
        destruct (i <? h); reflexivity.
      Qed.

      Lemma node_fresh : ~ In node A.
      Proof.
        intros Hin. destruct (inv_node_A c tmax d A L I _ Hin) as (H1 & H2 & H3 & H4 & H5). lia.
      Qed.

      Lemma ins_inv :
        Inv c tmax {| kvData := kv'; nodeData := nd'; maxHeight := mh'; nEnt := (nEnt d + 1)%Z;
                      kvSize := (kvSize d + Z.of_N (len k) + Z.of_N (len v))%Z |}
            (A ++ [node]) (Lb ++ node :: Lr).
      Proof.
        pose proof S as (S1 & S2 & S3 & S4 & S5 & S6 & S7).
        pose proof (inv_head _ _ _ _ _ I) as Hhead.
        destruct (inv_mh _ _ _ _ _ I) as (Hmh1 & Hmh2).
        pose proof (inv_sub _ _ _ _ _ I) as Hsub.
        pose proof (inv_nodes _ _ _ _ _ I) as Hnodes.
        assert (HLbA : incl Lb A).
        { intros x Hx. apply Hsub. rewrite EL. apply in_or_app. left. exact Hx. }
        assert (HLrA : incl Lr A).
        { intros x Hx. apply Hsub. rewrite EL. apply in_or_app. right. exact Hx. }
        assert (Hmhle : maxHeight d <= mh') by (destruct (maxHeight d <? h) eqn:E; lia).
        assert (Hlenle : len nd <= len nd') by lia.
        constructor; cbn [nodeData kvData maxHeight nEnt kvSize].
        - lia.
        - destruct (maxHeight d <? h) eqn:E; lia.
        - apply Forall_app. split.
          + apply Forall_forall. intros x Hx.
            apply (node_ok_same tmax nd nd' kv (k ++ v) (maxHeight d) mh' A Hnodes ins_same_fields Hlenle Hmhle x Hx).
          + constructor; [|constructor]. unfold node_ok. fold (hgt nd' node). rewrite ins_hgt_node.
            rewrite S2, S3, S4, !len_app.
            destruct (maxHeight d <? h) eqn:E; repeat split; lia.
        - intros x y Hx Hy Hlt.
          apply in_app_or in Hx. apply in_app_or in Hy.
          destruct Hx as [Hx|[<-|[]]], Hy as [Hy|[<-|[]]].
          + destruct (ins_same_fields x Hx) as (_ & _ & _ & ->). apply (inv_disj _ _ _ _ _ I); auto.
          + destruct (ins_same_fields x Hx) as (_ & _ & _ & ->).
            destruct (inv_node_A c tmax d A L I x Hx) as (H1 & H2 & H3 & H4 & H5). lia.
          + destruct (inv_node_A c tmax d A L I y Hy) as (H1 & H2 & H3 & H4 & H5). lia.
          + lia.
        - intros x Hx. apply in_app_or in Hx. apply in_or_app.
          destruct Hx as [Hx|[<-|Hx]]; [left; auto|right; left; reflexivity|left; auto].
        - (* sorted *)
          pose proof (inv_sorted _ _ _ _ _ I) as HS. rewrite EL in HS.
          apply sorted_app in HS as (HS1 & HS2 & HS3).
          assert (Kold : forall x, In x A -> keyof nd' kv' x = keyof nd kv x).
          { intros x Hx. apply (keyof_same tmax nd nd' kv (k ++ v) (maxHeight d) mh' A Hnodes ins_same_fields Hlenle Hmhle x Hx). }
          assert (Knew : keyof nd' kv' node = k).
          { pose proof ins_kvof_node as E. unfold kvof in E. congruence. }
          unfold key_sorted. apply sorted_app. split; [|split].
          + apply (key_sorted_same c tmax nd nd' kv (k ++ v) (maxHeight d) mh' A Hnodes ins_same_fields Hlenle Hmhle Lb HLbA HS1).
          + cbn [sorted]. split.
            * apply Forall_forall. intros y Hy. rewrite Knew, Kold by (apply HLrA; exact Hy). apply Hgt. exact Hy.
            * apply (key_sorted_same c tmax nd nd' kv (k ++ v) (maxHeight d) mh' A Hnodes ins_same_fields Hlenle Hmhle Lr HLrA HS2).
          + apply Forall_forall. intros x Hx. constructor.
            * rewrite Knew, Kold by (apply HLbA; exact Hx).
              exact (proj1 (Forall_forall _ _) Hb x Hx).
            * apply Forall_forall. intros y Hy.
              rewrite !Kold by (first [apply HLbA; assumption|apply HLrA; assumption]).
              exact (proj1 (Forall_forall _ _) (proj1 (Forall_forall _ _) HS3 x Hx) y Hy).
        - (* chains *)
          intros i Hi. rewrite ins_lvl.
          pose proof (inv_chain _ _ _ _ _ I i Hi) as Hc. rewrite EL, lvl_app in Hc.
          apply path_app in Hc as (Hc1 & Hc2). fold (qof i) in Hc2.
          assert (HND : NoDup L) by (apply (key_sorted_NoDup c cok nd kv); apply (inv_sorted _ _ _ _ _ I)).
          assert (Hin_lvl : forall u l, In u (lvl nd i l) -> incl l A -> inh A u /\ i < rech tmax nd u).
          { intros u l Hu Hl. apply lvl_incl in Hu as (Hu1 & Hu2). split; [right; auto|].
            unfold rech. pose proof (inv_nonzero c tmax d A L I u (Hl u Hu1)).
            replace (u =? 0) with false by lia. exact Hu2. }
          assert (Hhead_in : inh A 0 /\ i < rech tmax nd 0).
          { split; [left; reflexivity|]. unfold rech. rewrite N.eqb_refl. exact Hi. }
          destruct (i <? h) eqn:Eih.
          + (* the new node is on this level *)
            cbn [app]. apply path_app_cons. split.
            * apply (path_upd_last nd nd' i 0 (lvl nd i Lb) (hd 0 (lvl nd i Lr)) node).
              -- constructor.
                 ++ intros H0. apply lvl_incl in H0 as (H0 & _).
                    exact (inv_nonzero c tmax d A L I 0 (HLbA 0 H0) eq_refl).
                 ++ unfold lvl. apply NoDup_filter. rewrite EL in HND. apply NoDup_app_l in HND. exact HND.
              -- intros u Hu Hne.
                 assert (Hu' : inh A u /\ i < rech tmax nd u).
                 { destruct Hu as [<-|Hu]; [exact Hhead_in|exact (Hin_lvl u Lb Hu HLbA)]. }
                 rewrite ins_nx by tauto. fold (qof i) in Hne.
                 replace (u =? qof i) with false by lia. rewrite andb_false_r. reflexivity.
              -- fold (qof i). destruct (qof_props i Hi) as (Q1 & Q2 & _).
                 rewrite ins_nx by assumption. rewrite Eih, N.eqb_refl. reflexivity.
              -- exact Hc1.
            * assert (Hn : nx nd' node i = nx nd (qof i) i).
              { unfold nx. apply S6. lia. }
              assert (Hrest : forall u, In u (lvl nd i Lr) -> nx nd' u i = nx nd u i).
              { intros u Hu. destruct (Hin_lvl u Lr Hu HLrA) as (U1 & U2).
                rewrite ins_nx by assumption.
                destruct (N.eq_dec u (qof i)) as [E|E]; [|replace (u =? qof i) with false by lia; now rewrite andb_false_r].
                exfalso. apply lvl_incl in Hu as (Hu & _).
                destruct (qof_props i Hi) as (_ & _ & [Q|Q]).
                - rewrite Q in E. exact (inv_nonzero c tmax d A L I u (HLrA u Hu) E).
                - rewrite EL in HND. rewrite <- E in Q. exact (NoDup_app_disjoint Lb Lr u HND Q Hu). }
              destruct (lvl nd i Lr) as [|z r] eqn:ELr.
              -- cbn [path] in *. rewrite Hn. exact Hc2.
              -- cbn [path] in *. destruct Hc2 as (Hz & Hc2). split; [rewrite Hn; exact Hz|].
                 apply (path_ext nd nd' i z r 0); [|exact Hc2].
                 intros u Hu. apply Hrest. exact Hu.
          + (* the new node is too short for this level: nothing changes here *)
            cbn [app]. apply path_app. split.
            * apply (path_ext nd nd' i 0 (lvl nd i Lb)); [|exact Hc1].
              intros u Hu.
              assert (Hu' : inh A u /\ i < rech tmax nd u).
              { destruct Hu as [<-|Hu]; [exact Hhead_in|exact (Hin_lvl u Lb Hu HLbA)]. }
              rewrite ins_nx by tauto. rewrite Eih. reflexivity.
            * fold (qof i).
              assert (Hq : nx nd' (qof i) i = nx nd (qof i) i).
              { destruct (qof_props i Hi) as (Q1 & Q2 & _). rewrite ins_nx by assumption. now rewrite Eih. }
              destruct (lvl nd i Lr) as [|z r] eqn:ELr.
              -- cbn [path] in *. rewrite Hq. exact Hc2.
              -- cbn [path] in *. destruct Hc2 as (Hz & Hc2). split; [rewrite Hq; exact Hz|].
                 apply (path_ext nd nd' i z r 0); [|exact Hc2].
                 intros u Hu.
                 assert (Hu2 : In u (lvl nd i Lr)) by (rewrite ELr; exact Hu).
                 destruct (Hin_lvl u Lr Hu2 HLrA) as (U1 & U2).
                 rewrite ins_nx by assumption. now rewrite Eih.
        - rewrite (inv_n _ _ _ _ _ I), EL, !app_length. cbn [length]. lia.
        - rewrite (inv_size _ _ _ _ _ I), EL, !sum_kv_app. cbn [sum_kv].
          rewrite S3, S4.
          rewrite (sum_kv_same nd nd' A ins_same_fields Lb HLbA).
          rewrite (sum_kv_same nd nd' A ins_same_fields Lr HLrA). lia.
      Qed.

      Lemma ins_abs :
        map (kvof nd' kv') (Lb ++ node :: Lr) = map (kvof nd kv) Lb ++ (k, v) :: map (kvof nd kv) Lr.
      Proof.
        pose proof (inv_sub _ _ _ _ _ I) as Hsub.
        pose proof (inv_nodes _ _ _ _ _ I) as Hnodes.
        rewrite map_app. cbn [map]. rewrite ins_kvof_node.
        rewrite (map_kvof_same tmax nd nd' kv (k ++ v) (maxHeight d) mh' A Hnodes ins_same_fields ins_lenle ins_mhle Lb).
        2:{ intros x Hx. apply Hsub. rewrite EL. apply in_or_app. left. exact Hx. }
        rewrite (map_kvof_same tmax nd nd' kv (k ++ v) (maxHeight d) mh' A Hnodes ins_same_fields ins_lenle ins_mhle Lr).
        2:{ intros x Hx. apply Hsub. rewrite EL. apply in_or_app. right. exact Hx. }
        reflexivity.
      Qed.
    End Shape.

    Lemma put_insert_run fuel :
      exact_of c d k Lr = false ->
      (length L + N.to_nat (maxHeight d) <= fuel)%nat ->
      exists nd',
        mdb_put c p fuel d k v h =
          Ok {| kvData := kv ++ k ++ v; nodeData := nd';
                maxHeight := (if maxHeight d <? h then h else maxHeight d);
                nEnt := (nEnt d + 1)%Z;
                kvSize := (kvSize d + Z.of_N (len k) + Z.of_N (len v))%Z |} /\
        ins_shape nd nd' (len kv) (len k) (len v) h qof.
    Proof.
      intros Hex Hfuel.
      destruct (inv_mh _ _ _ _ _ I) as (Hmh1 & Hmh2).
      destruct (findGE_ok c cok p pok d A L I k true Lb Lr fuel EL Hb Hr Hfuel) as (pn & E & Hlpn & Hpn).
      specialize (Hpn eq_refl). fold qof in Hpn.
      unfold mdb_put. rewrite E. cbn [bind]. rewrite Hex.
      (* the levels added above maxHeight *)
      assert (Hpn1 : exists pn1,
        (if maxHeight d <? h then zero_prev (N.to_nat (h - maxHeight d)) (maxHeight d) pn else Ok pn) = Ok pn1 /\
        len pn1 = tmax /\ forall j, j < tmax -> rd pn1 j = qof j).
      { destruct (maxHeight d <? h) eqn:Emh.
        - destruct (zero_prev_spec (N.to_nat (h - maxHeight d)) (maxHeight d) pn) as (pn1 & E1 & Hl1 & Hz & Hs).
          + lia.
          + exists pn1. split; [exact E1|]. split; [lia|]. intros j Hj.
            destruct (N.le_gt_cases (maxHeight d) j) as [Hge|Hlt].
            * destruct (N.lt_ge_cases j h) as [Hjh|Hjh].
              -- rewrite Hz by lia. unfold qof. rewrite (lvl_above_mh c p d A L I j Lb); [reflexivity| |exact Hge].
                 intros x Hx. rewrite EL. apply in_or_app. left. exact Hx.
              -- rewrite Hs by lia. apply Hpn. exact Hj.
            * rewrite Hs by lia. apply Hpn. exact Hj.
        - exists pn. auto. }
      destruct Hpn1 as (pn1 & -> & Hlpn1 & Hq). cbn [bind].
      replace (tMaxHeight p <? h) with false by lia.
      set (nd0 := nd ++ [len kv; len k; len v; h]).
      assert (Hl0 : len nd0 = len nd + 4).
      { unfold nd0. rewrite len_app. reflexivity. }
      destruct (put_link_spec pn1 (len nd) nd (N.to_nat h) 0 nd0) as (nd' & E' & Hl' & Hun & Hhit).
      - lia.
      - lia.
      - intros l Hl. rewrite Hq by lia. apply qof_slot_bound. lia.
      - intros l l' Hl Hl' Hne Heq. rewrite !Hq in Heq by lia.
        destruct (qof_props l) as (Q1 & Q2 & _); [lia|].
        destruct (slot_eq (qof l) l l' Q1 Q2); [lia|lia|]. lia.
      - rewrite E'. cbn [bind]. exists nd'. split; [reflexivity|].
        assert (Hfield : forall f, f < 4 -> rd nd' (len nd + f) = rd [len kv; len k; len v; h] f).
        { intros f Hf. rewrite Hun.
          - unfold nd0. apply rd_app2.
          - lia.
          - intros l Hl. rewrite Hq by lia. pose proof (qof_slot_bound l). lia. }
        unfold ins_shape. split; [lia|].
        split; [replace (len nd) with (len nd + 0) by lia; apply (Hfield 0); lia|].
        split; [apply (Hfield 1); lia|].
        split; [apply (Hfield 2); lia|].
        split; [apply (Hfield 3); lia|].
        split.
        + intros l Hl. destruct (Hhit l) as (H1 & H2); [lia|]. rewrite Hq in H1, H2 by lia. split; [exact H1|].
          replace (len nd + 4 + l) with (len nd0 + (l - 0)) by lia. rewrite H2.
          unfold nd0. apply rd_app1. apply qof_slot_bound. lia.
        + intros s Hs Hne. rewrite Hun.
          * unfold nd0. apply rd_app1. exact Hs.
          * lia.
          * intros l Hl. rewrite Hq by lia. apply Hne. lia.
    Qed.
  End Insert.

  (* ---- overwrite in place ---- *)
  Section Overwrite.
    Variables (d : db) (A L : list N).
    Hypothesis I : Inv c tmax d A L.
    Local Notation nd := (nodeData d).
    Local Notation kv := (kvData d).
    Variables (k v : bytes) (x : N) (Lb Lr : list N).
    Hypothesis EL : L = Lb ++ x :: Lr.
    Hypothesis Hb : Forall (ltk c d k) Lb.
    Hypothesis Hx : cmp c (keyof nd kv x) k = Eq.

    Local Notation nd2 := (upd (upd nd x (len kv)) (x + 2) (len v)).
    Local Notation kv' := (kv ++ k ++ v).

    Lemma ow_xA : In x A.
    Proof. apply (inv_sub _ _ _ _ _ I). rewrite EL. apply in_or_app. right. left. reflexivity. Qed.

    Lemma ow_bounds : x < len nd /\ x + 2 < len (upd nd x (len kv)) /\ len nd2 = len nd.
    Proof.
      destruct (inv_node_A c tmax d A L I x ow_xA) as (H1 & H2 & H3 & H4 & H5).
      assert (x < len nd) by lia. split; [exact H|]. rewrite !len_upd; try lia. rewrite len_upd; lia.
    Qed.

    Lemma ow_rd s : rd nd2 s = if s =? x + 2 then len v else if s =? x then len kv else rd nd s.
    Proof.
      destruct ow_bounds as (B1 & B2 & B3).
      rewrite rd_upd by exact B2. rewrite rd_upd by exact B1. reflexivity.
    Qed.

    Lemma ow_other_cell y a :
      inh A y -> a < 4 + rech tmax nd y -> (y <> x \/ (a <> 0 /\ a <> 2)) -> rd nd2 (y + a) = rd nd (y + a).
    Proof.
      intros Hy Ha Hne. rewrite ow_rd.
      assert (Hxi : inh A x) by (right; exact ow_xA).
      destruct (inv_node_A c tmax d A L I x ow_xA) as (H1 & H2 & H3 & H4 & H5).
      assert (Hrx : rech tmax nd x = hgt nd x).
      { unfold rech. destruct (inv_mh _ _ _ _ _ I). replace (x =? 0) with false by lia. reflexivity. }
      destruct (N.eq_dec (y + a) (x + 2)) as [E|E].
      - exfalso.
        destruct (slot_distinct tmax nd kv (maxHeight d) A (inv_head _ _ _ _ _ I) (inv_nodes _ _ _ _ _ I)
                    (inv_disj _ _ _ _ _ I) y x a 2 Hy Hxi Ha) as (E1 & E2); lia.
      - replace (y + a =? x + 2) with false by lia.
        destruct (N.eq_dec (y + a) x) as [E'|E'].
        + exfalso.
          destruct (slot_distinct tmax nd kv (maxHeight d) A (inv_head _ _ _ _ _ I) (inv_nodes _ _ _ _ _ I)
                      (inv_disj _ _ _ _ _ I) y x a 0 Hy Hxi Ha) as (E1 & E2); lia.
        + replace (y + a =? x) with false by lia. reflexivity.
    Qed.

    Lemma ow_hgt y : inh A y -> y <> 0 -> hgt nd2 y = hgt nd y.
    Proof.
      intros Hy Hy0. unfold hgt. apply ow_other_cell; [exact Hy| |right; lia].
      unfold rech. replace (y =? 0) with false by lia.
      destruct Hy as [->|Hy]; [congruence|].
      destruct (inv_node_A c tmax d A L I y Hy) as (H1 & H2 & H3 & H4 & H5). lia.
    Qed.

    Lemma ow_hgtA y : In y A -> hgt nd2 y = hgt nd y.
    Proof.
      intros Hy. apply ow_hgt; [right; exact Hy|exact (inv_nonzero c tmax d A L I y Hy)].
    Qed.

    Lemma ow_nx y i : inh A y -> i < rech tmax nd y -> nx nd2 y i = nx nd y i.
    Proof.
      intros Hy Hi. unfold nx. replace (y + 4 + i) with (y + (4 + i)) by lia.
      apply ow_other_cell; [exact Hy|lia|right; lia].
    Qed.

    Lemma ow_same_fields : same_fields nd nd2 (filter (fun y => negb (y =? x)) A).
    Proof.
      intros y Hy. apply filter_In in Hy as (Hy & Hne).
      assert (Hyx : y <> x) by lia.
      assert (Hi : inh A y) by (right; exact Hy).
      destruct (inv_node_A c tmax d A L I y Hy) as (H1 & H2 & H3 & H4 & H5).
      assert (Hr : rech tmax nd y = hgt nd y).
      { unfold rech. destruct (inv_mh _ _ _ _ _ I). replace (y =? 0) with false by lia. reflexivity. }
      repeat split.
      - replace y with (y + 0) by lia. apply ow_other_cell; [exact Hi|lia|left; exact Hyx].
      - apply ow_other_cell; [exact Hi|lia|left; exact Hyx].
      - apply ow_other_cell; [exact Hi|lia|left; exact Hyx].
      - apply ow_hgtA. exact Hy.
    Qed.

    Lemma ow_key_x : keyof nd kv x = k.
    Proof. apply (cmp_eq c cok). exact Hx. Qed.

    Lemma ow_kl : rd nd (x + 1) = len k.
    Proof.
      destruct (inv_node_A c tmax d A L I x ow_xA) as (H1 & H2 & H3 & H4 & H5).
      rewrite <- ow_key_x. unfold keyof. rewrite sl_len; lia.
    Qed.

    Lemma ow_kvof_x : kvof nd2 kv' x = (k, v).
    Proof.
      unfold kvof, keyof, valof. rewrite !ow_rd.
      replace (x =? x + 2) with false by lia. rewrite !N.eqb_refl.
      replace (x + 1 =? x + 2) with false by lia. replace (x + 1 =? x) with false by lia.
      rewrite ow_kl. now rewrite sl_app_mid, sl_app_end.
    Qed.

    Lemma ow_kvof_other y : In y A -> y <> x -> kvof nd2 kv' y = kvof nd kv y.
    Proof.
      intros Hy Hne.
      assert (Hnodes : Forall (node_ok tmax nd kv (maxHeight d)) (filter (fun y => negb (y =? x)) A)).
      { apply Forall_forall. intros z Hz. apply filter_In in Hz as (Hz & _). exact (inv_node_A c tmax d A L I z Hz). }
      destruct ow_bounds as (_ & _ & B3).
      apply (kvof_same tmax nd nd2 kv (k ++ v) (maxHeight d) (maxHeight d) _ Hnodes ow_same_fields); try lia.
      apply filter_In. split; [exact Hy|lia].
    Qed.

    Lemma ow_keyof y : In y A -> keyof nd2 kv' y = keyof nd kv y.
    Proof.
      intros Hy. destruct (N.eq_dec y x) as [->|Hne].
      - pose proof ow_kvof_x as E. unfold kvof in E. rewrite ow_key_x. congruence.
      - pose proof (ow_kvof_other y Hy Hne) as E. unfold kvof in E. congruence.
    Qed.

    Lemma ow_notin : ~ In x Lb /\ ~ In x Lr.
    Proof.
      assert (HND : NoDup L) by (apply (key_sorted_NoDup c cok nd kv); apply (inv_sorted _ _ _ _ _ I)).
      rewrite EL in HND. split; intros Hin.
      - apply (NoDup_app_disjoint Lb (x :: Lr) x HND Hin). left. reflexivity.
      - apply NoDup_app_r in HND. inversion HND; auto.
    Qed.

    Lemma ow_inv :
      Inv c tmax {| kvData := kv'; nodeData := nd2; maxHeight := maxHeight d; nEnt := nEnt d;
                    kvSize := (kvSize d + (Z.of_N (len v) - Z.of_N (rd nd (x + 2))))%Z |} A L.
    Proof.
      pose proof (inv_head _ _ _ _ _ I) as Hhead.
      destruct (inv_mh _ _ _ _ _ I) as (Hmh1 & Hmh2).
      pose proof (inv_sub _ _ _ _ _ I) as Hsub.
      destruct ow_bounds as (B1 & B2 & B3).
      destruct ow_notin as (Nb & Nr).
      constructor; cbn [nodeData kvData maxHeight nEnt kvSize].
      - lia.
      - lia.
      - apply Forall_forall. intros y Hy.
        destruct (inv_node_A c tmax d A L I y Hy) as (H1 & H2 & H3 & H4 & H5).
        destruct (N.eq_dec y x) as [->|Hne].
        + unfold node_ok. rewrite ow_hgtA by exact Hy. rewrite !ow_rd.
          replace (x =? x + 2) with false by lia. rewrite !N.eqb_refl.
          replace (x + 1 =? x + 2) with false by lia. replace (x + 1 =? x) with false by lia.
          rewrite ow_kl, !len_app. repeat split; lia.
        + assert (Hnodes : Forall (node_ok tmax nd kv (maxHeight d)) (filter (fun y => negb (y =? x)) A)).
          { apply Forall_forall. intros z Hz. apply filter_In in Hz as (Hz & _). exact (inv_node_A c tmax d A L I z Hz). }
          apply (node_ok_same tmax nd nd2 kv (k ++ v) (maxHeight d) (maxHeight d) _ Hnodes ow_same_fields); try lia.
          apply filter_In. split; [exact Hy|lia].
      - intros y z Hy Hz Hlt. rewrite ow_hgtA by exact Hy. apply (inv_disj _ _ _ _ _ I); auto.
      - exact Hsub.
      - pose proof (inv_sorted _ _ _ _ _ I) as HS. revert HS. apply sorted_ext.
        intros a b Ha Hb'. rewrite !ow_keyof by (apply Hsub; assumption). auto.
      - intros i Hi.
        rewrite (lvl_ext nd nd2 i L).
        2:{ intros y Hy. apply ow_hgtA. apply Hsub. exact Hy. }
        apply (path_ext nd nd2 i 0 _ 0); [|exact (inv_chain _ _ _ _ _ I i Hi)].
        intros u [<-|Hu].
        + apply ow_nx; [left; reflexivity|]. unfold rech. rewrite N.eqb_refl. exact Hi.
        + apply lvl_incl in Hu as (Hu1 & Hu2). apply ow_nx; [right; apply Hsub; exact Hu1|].
          unfold rech. pose proof (inv_nonzero c tmax d A L I u (Hsub u Hu1)).
          replace (u =? 0) with false by lia. exact Hu2.
      - apply (inv_n _ _ _ _ _ I).
      - rewrite (inv_size _ _ _ _ _ I), EL, !sum_kv_app. cbn [sum_kv].
        assert (Hnodes : Forall (node_ok tmax nd kv (maxHeight d)) (filter (fun y => negb (y =? x)) A)).
        { apply Forall_forall. intros z Hz. apply filter_In in Hz as (Hz & _). exact (inv_node_A c tmax d A L I z Hz). }
        rewrite (sum_kv_same nd nd2 _ ow_same_fields Lb).
        2:{ intros y Hy. apply filter_In. split.
            - apply Hsub. rewrite EL. apply in_or_app. left. exact Hy.
            - assert (y <> x) by (intros ->; exact (Nb Hy)). lia. }
        rewrite (sum_kv_same nd nd2 _ ow_same_fields Lr).
        2:{ intros y Hy. apply filter_In. split.
            - apply Hsub. rewrite EL. apply in_or_app. right. right. exact Hy.
            - assert (y <> x) by (intros ->; exact (Nr Hy)). lia. }
        rewrite !ow_rd.
        replace (x + 1 =? x + 2) with false by lia. replace (x + 1 =? x) with false by lia.
        rewrite N.eqb_refl. lia.
    Qed.

    Lemma ow_abs :
      map (kvof nd2 kv') L = map (kvof nd kv) Lb ++ (k, v) :: map (kvof nd kv) Lr.
    Proof.
      pose proof (inv_sub _ _ _ _ _ I) as Hsub.
      destruct ow_notin as (Nb & Nr).
      rewrite EL, map_app. cbn [map]. rewrite ow_kvof_x. f_equal; [|f_equal].
      - apply map_ext_in. intros y Hy. apply ow_kvof_other.
        + apply Hsub. rewrite EL. apply in_or_app. left. exact Hy.
        + intros ->. exact (Nb Hy).
      - apply map_ext_in. intros y Hy. apply ow_kvof_other.
        + apply Hsub. rewrite EL. apply in_or_app. right. right. exact Hy.
        + intros ->. exact (Nr Hy).
    Qed.

    Lemma put_overwrite_run fuel h :
      Forall (gek c d k) (x :: Lr) ->
      (length L + N.to_nat (maxHeight d) <= fuel)%nat ->
      mdb_put c p fuel d k v h =
        Ok {| kvData := kv'; nodeData := nd2; maxHeight := maxHeight d; nEnt := nEnt d;
              kvSize := (kvSize d + (Z.of_N (len v) - Z.of_N (rd nd (x + 2))))%Z |}.
    Proof.
      intros Hr Hfuel.
      destruct (findGE_ok c cok p pok d A L I k true Lb (x :: Lr) fuel EL Hb Hr Hfuel) as (pn & E & Hlpn & Hpn).
      unfold mdb_put. rewrite E. cbn [bind hd exact_of]. rewrite Hx. cbn [is_eq].
      destruct ow_bounds as (B1 & B2 & B3).
      rewrite (aset_ok nd x (len kv) B1). cbn [bind]. rewrite (Eval p pok).
      rewrite (aget_ok _ (x + 2) B2). cbn [bind].
      rewrite (aset_ok _ (x + 2) (len v) B2). cbn [bind].
      rewrite rd_upd_other by lia. reflexivity.
    Qed.
  End Overwrite.
End Put.
