(* Mem/MemConcProofs.v — one writer, many readers over the ARRAY model: every interleaving of
   atomic Put/Delete with reader steps runs without Panic and without OutOfFuel, and everything a
   reader sees is a pair that was stored, inside its slice, strictly increasing along Next and
   strictly decreasing along Prev (proof file).

   Beyond the representation invariant this needs, for every record ever allocated (A), live or
   unlinked:
     FInv  its level-0 link is 0 or another allocated record with a strictly larger key
           (Delete leaves the unlinked node's links alone; keys never change), and
     HInv  its current key/value pair is in the writer's log.
   An iterator (Cit) is invalid, or stands on an allocated record whose key it copied. *)
From GL Require Import Base.OrderProofs Mem.MemDB Mem.MemSpec Mem.MemConc Mem.ArrayLemmas Mem.ListLemmas
  Mem.MemInv Mem.MemFrame Mem.MemFind Mem.MemSpecProofs Mem.MemPut Mem.MemDelete Mem.MemOps
  Mem.MemIter.
From Coq Require Import Lia ZifyBool.
Open Scope N_scope.

Section ConcProofs.
  Variable c : comparer.
  Hypothesis cok : comparer_ok c.
  Variable p : mparams.
  Hypothesis pok : mparams_ok p.

  Local Notation tmax := (tMaxHeight p).

  Definition FInv (d : db) (A : list N) : Prop :=
    forall x, In x A ->
      nx (nodeData d) x 0 = 0 \/
      (In (nx (nodeData d) x 0) A /\
       lt c (keyof (nodeData d) (kvData d) x) (keyof (nodeData d) (kvData d) (nx (nodeData d) x 0))).

  Definition HInv (d : db) (A : list N) (hist : list (bytes * bytes)) : Prop :=
    forall x, In x A -> In (kvof (nodeData d) (kvData d) x) hist.

  Definition Cit (d : db) (A : list N) (hist : list (bytes * bytes)) (it : iter) : Prop :=
    (it_node it = 0 /\ it_key it = None /\ it_val it = None) \/
    (In (it_node it) A /\
     it_key it = Some (keyof (nodeData d) (kvData d) (it_node it)) /\
     exists v, it_val it = Some v /\ In (keyof (nodeData d) (kvData d) (it_node it), v) hist /\
               in_range c (it_slice it) (keyof (nodeData d) (kvData d) (it_node it)) = true).

  Definition CInv (s : cstate) : Prop :=
    exists A L,
      Inv c tmax (c_db s) A L /\ FInv (c_db s) A /\ HInv (c_db s) A (c_hist s) /\
      Forall (fun ri => Cit (c_db s) A (c_hist s) (snd ri)) (c_its s).

  Lemma rech_A d A L x : Inv c tmax d A L -> In x A -> 0 < rech tmax (nodeData d) x.
  Proof.
    intros I Hx. destruct (inv_node_A c tmax d A L I x Hx) as (H1 & H2 & _).
    unfold rech. pose proof (inv_nonzero c tmax d A L I x Hx). replace (x =? 0) with false by lia. lia.
  Qed.

  (* ---- the writer ---- *)
  Lemma put_conc d A L hist k v h :
    Inv c tmax d A L -> FInv d A -> HInv d A hist -> 1 <= h -> h <= tmax ->
    exists d' A' L',
      mdb_put c p (op_fuel d) d k v h = Ok d' /\
      Inv c tmax d' A' L' /\ FInv d' A' /\ HInv d' A' ((k, v) :: hist) /\
      (forall x, In x A -> In x A' /\ keyof (nodeData d') (kvData d') x = keyof (nodeData d) (kvData d) x).
  Proof.
    intros I HF HH Hh1 Hh2.
    pose proof (op_fuel_ok c p d A L I) as Hfuel.
    destruct (split_at c cok d L k (inv_sorted _ _ _ _ _ I)) as (Lb & Lr & EL & Hb & Hr).
    pose proof (sorted_tail c p d A L Lb Lr I EL) as HSr.
    destruct (exact_of c d k Lr) eqn:Hex.
    - (* overwrite *)
      destruct (exact_head c d k Lr Hex) as (x & Lr' & -> & Hx).
      pose proof (put_overwrite_run c cok p pok d A L I k v x Lb Lr' EL Hb Hx (op_fuel d) h Hr Hfuel) as E.
      pose proof (ow_keyof c cok p d A L I k v x Lb Lr' EL Hx) as Hkey.
      eexists _, A, L. split; [exact E|]. split; [apply (ow_inv c cok p d A L I k v x Lb Lr' EL Hx)|].
      unfold FInv, HInv. cbn [nodeData kvData]. split; [|split].
      + intros y Hy.
        rewrite (ow_nx c p d A L I v x Lb Lr' EL y 0 (or_intror Hy) (rech_A d A L y I Hy)).
        destruct (HF y Hy) as [H0|(H1 & H2)]; [left; exact H0|right]. split; [exact H1|].
        rewrite !Hkey by assumption. exact H2.
      + intros y Hy. destruct (N.eq_dec y x) as [->|Hne].
        * rewrite (ow_kvof_x c cok p d A L I k v x Lb Lr' EL Hx). left. reflexivity.
        * rewrite (ow_kvof_other c p d A L I k v x Lb Lr' EL y Hy Hne). right. apply HH. exact Hy.
      + intros y Hy. split; [exact Hy|apply Hkey; exact Hy].
    - (* insert *)
      assert (Hgt : forall y, In y Lr -> lt c k (keyof (nodeData d) (kvData d) y)).
      { apply Forall_forall. apply (all_gt_of_inexact c cok); assumption. }
      destruct (put_insert_run c cok p pok d A L I k v h Lb Lr EL Hb Hr (conj Hh1 Hh2) (op_fuel d) Hex Hfuel)
        as (nd' & E & S).
      pose proof (ins_inv c cok p d A L I k v h Lb Lr EL Hb (conj Hh1 Hh2) nd' S Hgt) as I'.
      pose proof (ins_same_fields c p d A L I k v h Lb Lr EL (conj Hh1 Hh2) nd' S) as Hsf.
      assert (Hkey : forall x, In x A ->
                keyof nd' (kvData d ++ k ++ v) x = keyof (nodeData d) (kvData d) x).
      { intros x Hx.
        apply (keyof_same tmax (nodeData d) nd' (kvData d) (k ++ v) (maxHeight d)
                 (if maxHeight d <? h then h else maxHeight d) A (inv_nodes _ _ _ _ _ I) Hsf
                 (ins_lenle p d k v h Lb (conj Hh1 Hh2) nd' S) (ins_mhle p d h (conj Hh1 Hh2)) x Hx). }
      assert (Hkv : forall x, In x A ->
                kvof nd' (kvData d ++ k ++ v) x = kvof (nodeData d) (kvData d) x).
      { intros x Hx.
        apply (kvof_same tmax (nodeData d) nd' (kvData d) (k ++ v) (maxHeight d)
                 (if maxHeight d <? h then h else maxHeight d) A (inv_nodes _ _ _ _ _ I) Hsf
                 (ins_lenle p d k v h Lb (conj Hh1 Hh2) nd' S) (ins_mhle p d h (conj Hh1 Hh2)) x Hx). }
      pose proof (ins_kvof_node d k v h Lb nd' S) as Hnode.
      assert (Hknode : keyof nd' (kvData d ++ k ++ v) (len (nodeData d)) = k).
      { unfold kvof in Hnode. congruence. }
      eexists _, (A ++ [len (nodeData d)]), (Lb ++ len (nodeData d) :: Lr).
      split; [exact E|]. split; [exact I'|]. unfold FInv, HInv. cbn [nodeData kvData]. split; [|split].
      + (* FInv *)
        intros x Hx. apply in_app_or in Hx. destruct Hx as [Hx|[<-|[]]].
        * rewrite (ins_nx c p d A L I k v h Lb Lr EL (conj Hh1 Hh2) nd' S x 0 (or_intror Hx) (rech_A d A L x I Hx)).
          replace (0 <? h) with true by lia. cbn [andb].
          destruct (x =? qof d Lb 0) eqn:Eq.
          -- right. split; [apply in_or_app; right; left; reflexivity|].
             rewrite Hknode, Hkey by exact Hx.
             assert (x = qof d Lb 0) by lia.
             destruct (qof_props c p d A L I h Lb Lr EL (conj Hh1 Hh2) 0) as (_ & _ & [Q|Q]);
               [pose proof (tmax_pos p pok); lia| |].
             ++ exfalso. apply (inv_nonzero c tmax d A L I x Hx). congruence.
             ++ rewrite <- H in Q. exact (proj1 (Forall_forall _ _) Hb x Q).
          -- destruct (HF x Hx) as [H0|(H1 & H2)]; [left; exact H0|right]. split.
             ++ apply in_or_app. left. exact H1.
             ++ rewrite !Hkey by assumption. exact H2.
        * (* the new node points to what its predecessor pointed to *)
          destruct S as (S1 & S2 & S3 & S4 & S5 & S6 & S7).
          assert (Hn : nx nd' (len (nodeData d)) 0 = nx (nodeData d) (qof d Lb 0) 0).
          { unfold nx. apply S6. lia. }
          rewrite Hn.
          pose proof (level0_path c p pok d A L I) as Hp. rewrite EL in Hp. apply path_app in Hp as (_ & Hp).
          assert (Hq : qof d Lb 0 = last Lb 0).
          { unfold qof. rewrite lvl0; [reflexivity|]. apply Forall_forall. intros y Hy.
            destruct (inv_node_L c tmax d A L I y) as (_ & H & _); [|exact H].
            rewrite EL. apply in_or_app. left. exact Hy. }
          rewrite Hq. rewrite (path_hd _ _ _ _ _ Hp).
          destruct Lr as [|y Lr']; [left; reflexivity|right]. cbn [hd].
          assert (HyA : In y A).
          { apply (inv_sub _ _ _ _ _ I). rewrite EL. apply in_or_app. right. left. reflexivity. }
          split; [apply in_or_app; left; exact HyA|].
          fold (keyof nd' (kvData d ++ k ++ v) (len (nodeData d))).
          rewrite Hknode, Hkey by exact HyA. apply Hgt. left. reflexivity.
      + intros x Hx. apply in_app_or in Hx. destruct Hx as [Hx|[<-|[]]].
        * rewrite Hkv by exact Hx. right. apply HH. exact Hx.
        * rewrite Hnode. left. reflexivity.
      + intros x Hx. split; [apply in_or_app; left; exact Hx|apply Hkey; exact Hx].
  Qed.

  Lemma delete_conc d A L hist k :
    Inv c tmax d A L -> FInv d A -> HInv d A hist ->
    exists d' L' found,
      mdb_delete c p (op_fuel d) d k = Ok (d', found) /\
      Inv c tmax d' A L' /\ FInv d' A /\ HInv d' A hist /\
      (forall x, In x A -> keyof (nodeData d') (kvData d') x = keyof (nodeData d) (kvData d) x).
  Proof.
    intros I HF HH.
    pose proof (op_fuel_ok c p d A L I) as Hfuel.
    destruct (split_at c cok d L k (inv_sorted _ _ _ _ _ I)) as (Lb & Lr & EL & Hb & Hr).
    pose proof (sorted_tail c p d A L Lb Lr I EL) as HSr.
    destruct (exact_of c d k Lr) eqn:Hex.
    - destruct (exact_head c d k Lr Hex) as (x & Lr' & -> & Hx).
      destruct (delete_run c cok p pok d A L I k x Lb Lr' EL Hb Hx (op_fuel d) Hr Hfuel) as (nd' & E & S).
      pose proof (del_same_fields c p pok d A L I x Lb Lr' EL nd' S) as Hsf.
      assert (Hlen : len (nodeData d) <= len nd') by (destruct S as (S1 & _); lia).
      assert (Hkey : forall y, In y A -> keyof nd' (kvData d) y = keyof (nodeData d) (kvData d) y).
      { intros y Hy.
        pose proof (keyof_same tmax (nodeData d) nd' (kvData d) [] (maxHeight d) (maxHeight d) A
                      (inv_nodes _ _ _ _ _ I) Hsf Hlen (N.le_refl _) y Hy) as H.
        rewrite app_nil_r in H. exact H. }
      assert (Hkv : forall y, In y A -> kvof nd' (kvData d) y = kvof (nodeData d) (kvData d) y).
      { intros y Hy.
        pose proof (kvof_same tmax (nodeData d) nd' (kvData d) [] (maxHeight d) (maxHeight d) A
                      (inv_nodes _ _ _ _ _ I) Hsf Hlen (N.le_refl _) y Hy) as H.
        rewrite app_nil_r in H. exact H. }
      assert (HxA : In x A).
      { apply (inv_sub _ _ _ _ _ I). rewrite EL. apply in_or_app. right. left. reflexivity. }
      eexists _, (Lb ++ Lr'), true. split; [exact E|].
      split; [apply (del_inv c cok p pok d A L I x Lb Lr' EL nd' S)|]. unfold FInv, HInv. cbn [nodeData kvData].
      split; [|split; [|exact Hkey]].
      + intros y Hy.
        rewrite (del_nx c p pok d A L I x Lb Lr' EL nd' S y 0 (or_intror Hy) (rech_A d A L y I Hy)).
        destruct ((0 <? hgt (nodeData d) x) && (y =? qof d Lb 0)) eqn:Eq.
        * (* y is the level-0 predecessor of the unlinked node: it now points past it *)
          assert (Hyq : y = qof d Lb 0) by lia.
          assert (H11 : 1 <= 1 /\ 1 <= tmax) by (pose proof (tmax_pos p pok); lia).
          destruct (qof_props c p d A L I 1 Lb (x :: Lr') EL H11 0) as (_ & _ & [Q|Q]);
            [pose proof (tmax_pos p pok); lia| |].
          -- exfalso. apply (inv_nonzero c tmax d A L I y Hy). congruence.
          -- rewrite <- Hyq in Q.
             assert (Hyx : lt c (keyof (nodeData d) (kvData d) y) (keyof (nodeData d) (kvData d) x)).
             { pose proof (inv_sorted _ _ _ _ _ I) as HS. rewrite EL in HS.
               apply sorted_app in HS as (_ & _ & HS). rewrite Forall_forall in HS.
               specialize (HS y Q). inversion HS; assumption. }
             destruct (HF x HxA) as [H0|(H1 & H2)]; [left; exact H0|right]. split; [exact H1|].
             rewrite !Hkey by assumption. exact (OrderProofs.lt_trans c cok _ _ _ Hyx H2).
        * destruct (HF y Hy) as [H0|(H1 & H2)]; [left; exact H0|right]. split; [exact H1|].
          rewrite !Hkey by assumption. exact H2.
      + intros y Hy. rewrite Hkv by exact Hy. apply HH. exact Hy.
    - destruct (findGE_ok c cok p pok d A L I k true Lb Lr (op_fuel d) EL Hb Hr Hfuel) as (pn & E & _).
      exists d, L, false. split.
      + unfold mdb_delete. rewrite E. cbn [bind]. rewrite Hex. reflexivity.
      + auto.
  Qed.

  (* ---- readers ---- *)
  Definition cu_of (it : iter) : cursor :=
    {| cu_slice := it_slice it;
       cu_cur := match it_key it, it_val it with Some k, Some v => Some (k, v) | _, _ => None end;
       cu_fwd := it_fwd it; cu_stale := true |}.

  Lemma find_last_some {X} (f : X -> bool) l e : find_last f l = Some e -> In e l /\ f e = true.
  Proof.
    induction l as [|x l IH]; cbn; [discriminate|].
    destruct (find_last f l) as [y|] eqn:E.
    - intros H. injection H as <-. destruct (IH eq_refl). auto.
    - destruct (f x) eqn:Ef; [|discriminate]. intros H. injection H as <-. auto.
  Qed.

  Lemma in_range_slice_has sl k : in_range c sl k = true -> slice_has c sl k.
  Proof.
    unfold in_range, slice_has, ltb. destruct sl as [(st, li)|]; [|auto]. intros H.
    apply andb_prop in H as (H1 & H2). split.
    - destruct st as [s|]; [|auto]. destruct (cmp c k s); cbn in H1; congruence.
    - destruct li as [l|]; [|auto]. destruct (cmp c k l); congruence.
  Qed.

  Section Readers.
    Variables (d : db) (A L : list N) (hist : list (bytes * bytes)).
    Hypothesis I : Inv c tmax d A L.
    Hypothesis HF : FInv d A.
    Hypothesis HH : HInv d A hist.
    Local Notation nd := (nodeData d).
    Local Notation kv := (kvData d).
    Local Notation m := (abs d L).

    Lemma Cit_Rit it : Cit d A hist it -> Rit c d L it (cu_of it).
    Proof.
      intros [(H0 & Hk & Hv)|(HA & Hk & v & Hv & Hh & Hr)]; unfold Rit, cu_of; cbn [cu_slice cu_fwd cu_cur cu_stale].
      - rewrite Hk. auto.
      - rewrite Hk, Hv. split; [reflexivity|]. split; [reflexivity|].
        split; [exact (inv_nonzero c tmax d A L I _ HA)|]. repeat split; auto. discriminate.
    Qed.

    Lemma in_abs_hist e : In e m -> In e hist.
    Proof.
      unfold abs. intros H. apply in_map_iff in H as (y & <- & Hy). apply HH.
      apply (inv_sub _ _ _ _ _ I). exact Hy.
    Qed.

    (* what an iterator related to a fresh (non-stale) cursor looks like *)
    Lemma landed_good it' cu r fwd :
      Rit c d L it' (cur_at cu r fwd) -> (forall e, r = Some e -> In e m) ->
      Cit d A hist it' /\
      if it_valid it' then
        exists k v, r = Some (k, v) /\ it_key it' = Some k /\ it_val it' = Some v /\
                    In (k, v) hist /\ slice_has c (it_slice it') k
      else it_key it' = None /\ it_val it' = None.
    Proof.
      intros (Hsl & Hfw & Hcur) Hr. cbn [cur_at cu_slice cu_fwd cu_cur cu_stale] in *. unfold it_valid.
      destruct r as [(k, v)|].
      - destruct Hcur as (H0 & Hk & Hv & Hin & Hlive). destruct (Hlive eq_refl) as (HL & Hkey).
        pose proof (in_abs_hist _ (Hr _ eq_refl)) as Hh.
        replace (it_node it' =? 0) with false by lia. cbn [negb]. split.
        + right. split; [apply (inv_sub _ _ _ _ _ I); exact HL|]. rewrite Hkey. split; [exact Hk|].
          exists v. rewrite Hsl. auto.
        + exists k, v. rewrite Hsl. repeat split; auto. apply in_range_slice_has. exact Hin.
      - destruct Hcur as (H0 & Hk & Hv). rewrite H0, N.eqb_refl. cbn [negb]. split; [left; auto|auto].
    Qed.

    Lemma rit_none_good it' cu' :
      Rit c d L it' cu' -> cu_cur cu' = None ->
      Cit d A hist it' /\ it_valid it' = false /\ it_key it' = None /\ it_val it' = None.
    Proof.
      intros (Hsl & Hfw & Hcur) E. rewrite E in Hcur. destruct Hcur as (H0 & Hk & Hv).
      unfold it_valid. rewrite H0, N.eqb_refl. split; [left; auto|auto].
    Qed.

    Lemma in_vis sl e : In e (vis c sl m) -> In e m.
    Proof. unfold vis. intros H. apply filter_In in H. tauto. Qed.

    Definition good (mvm : mv) (it it' : iter) : Prop := obs_good c (ObsMove mvm it it' hist).

    Lemma first_conc it :
      Cit d A hist it ->
      exists it' ret, it_first c p (op_fuel d) d it = Ok (it', ret) /\ Cit d A hist it' /\
                      good MFirst it it' /\ good MNext (bail it) it'.
    Proof.
      intros HC. destruct (it_first_ok c cok p pok d A L I it (cu_of it) (Cit_Rit it HC)) as (it' & ret & E & HR & _).
      exists it', ret. split; [exact E|]. unfold c_first in HR.
      destruct (landed_good it' _ _ _ HR) as (HC' & Hg).
      - intros e He. apply (in_vis (cu_slice (cu_of it))). destruct (vis c (cu_slice (cu_of it)) m); [discriminate|].
        cbn in He. injection He as <-. left. reflexivity.
      - split; [exact HC'|]. unfold good, obs_good. destruct (it_valid it').
        + destruct Hg as (k & v & _ & Hk & Hv & Hh & Hs). split.
          * exists k, v. repeat split; auto.
          * exists k, v. repeat split; auto. intros k0 Hval. cbn in Hval. discriminate.
        + auto.
    Qed.

    Lemma last_conc it :
      Cit d A hist it ->
      exists it' ret, it_last c p (op_fuel d) d it = Ok (it', ret) /\ Cit d A hist it' /\
                      good MLast it it' /\ good MPrev (bail it) it'.
    Proof.
      intros HC. destruct (it_last_ok c cok p pok d A L I it (cu_of it) (Cit_Rit it HC)) as (it' & ret & E & HR & _).
      exists it', ret. split; [exact E|]. unfold c_last in HR.
      destruct (landed_good it' _ _ _ HR) as (HC' & Hg).
      - intros e He. apply find_last_some in He as (He & _). exact (in_vis _ _ He).
      - split; [exact HC'|]. unfold good, obs_good. destruct (it_valid it').
        + destruct Hg as (k & v & _ & Hk & Hv & Hh & Hs). split.
          * exists k, v. repeat split; auto.
          * exists k, v. repeat split; auto. intros k0 Hval. cbn in Hval. discriminate.
        + auto.
    Qed.

    Lemma seek_conc it t :
      Cit d A hist it ->
      exists it' ret, it_seek c p (op_fuel d) d it t = Ok (it', ret) /\ Cit d A hist it' /\ good (MSeek t) it it'.
    Proof.
      intros HC. destruct (it_seek_ok c cok p pok d A L I it (cu_of it) t (Cit_Rit it HC)) as (it' & ret & E & HR & _).
      exists it', ret. split; [exact E|]. unfold c_seek in HR.
      destruct (landed_good it' _ _ _ HR) as (HC' & Hg).
      - intros e He. apply find_some in He as (He & _). exact (in_vis _ _ He).
      - split; [exact HC'|]. unfold good, obs_good. destruct (it_valid it'); [|exact Hg].
        destruct Hg as (k & v & Hr & Hk & Hv & Hh & Hs). exists k, v. repeat split; auto.
        apply find_some in Hr as (_ & Hr). unfold key_ge, ltb in Hr. cbn [fst] in Hr.
        destruct (cmp c k t); cbn in Hr; congruence.
    Qed.

    Lemma prev_conc it :
      Cit d A hist it ->
      exists it' ret, it_prev c p (op_fuel d) d it = Ok (it', ret) /\ Cit d A hist it' /\ good MPrev it it'.
    Proof.
      intros HC. pose proof (Cit_Rit it HC) as HR0.
      destruct (it_prev_ok c cok p pok d A L I it (cu_of it) HR0) as (it' & ret & E & HR & _).
      exists it', ret. split; [exact E|]. unfold c_prev in HR.
      destruct (cu_cur (cu_of it)) as [(k0, v0)|] eqn:Ecur.
      - destruct (landed_good it' _ _ _ HR) as (HC' & Hg).
        + intros e He. apply find_last_some in He as (He & _). exact (in_vis _ _ He).
        + split; [exact HC'|]. unfold good, obs_good. destruct (it_valid it'); [|exact Hg].
          destruct Hg as (k & v & Hr & Hk & Hv & Hh & Hs). exists k, v. repeat split; auto.
          intros k1 _ Hk1. apply find_last_some in Hr as (_ & Hr). unfold key_lt in Hr. cbn [fst] in Hr.
          apply (ltb_lt c) in Hr.
          unfold cu_of in Ecur. cbn [cu_cur] in Ecur. rewrite Hk1 in Ecur.
          destruct (it_val it); [|discriminate]. injection Ecur as -> _. exact Hr.
      - assert (Hinv : it_valid it = false).
        { destruct HR0 as (_ & _ & H). rewrite Ecur in H. destruct H as (H0 & _). unfold it_valid.
          rewrite H0. reflexivity. }
        destruct (cu_fwd (cu_of it)).
        + unfold c_last in HR. destruct (landed_good it' _ _ _ HR) as (HC' & Hg).
          * intros e He. apply find_last_some in He as (He & _). exact (in_vis _ _ He).
          * split; [exact HC'|]. unfold good, obs_good. destruct (it_valid it'); [|exact Hg].
            destruct Hg as (k & v & Hr & Hk & Hv & Hh & Hs). exists k, v. repeat split; auto.
            intros k1 Hval. congruence.
        + destruct (rit_none_good it' _ HR Ecur) as (HC' & Hv' & Hk' & Hvv).
          split; [exact HC'|]. unfold good, obs_good. rewrite Hv'. auto.
    Qed.

    Lemma fill_node_A it x fwd cs cl :
      In x A ->
      fill c p d (with_node it x fwd) cs cl =
        if fill_bad c it (keyof nd kv x) cs cl then Ok (bail (with_node it x fwd), false)
        else Ok ({| it_slice := it_slice it; it_node := x; it_fwd := fwd;
                    it_key := Some (keyof nd kv x); it_val := Some (valof nd kv x) |}, true).
    Proof.
      intros Hx. pose proof (inv_nonzero c tmax d A L I x Hx) as Hx0.
      destruct (inv_node_A c tmax d A L I x Hx) as (H1 & H2 & H3 & H4 & H5).
      unfold fill. cbn [it_node with_node it_slice it_fwd].
      replace (x =? 0) with false by lia.
      rewrite (Ekey p pok), (Eval p pok).
      rewrite (aget_ok nd x) by lia. cbn [bind]. rewrite (aget_ok nd (x + 1)) by lia. cbn [bind].
      rewrite bslice_ok by lia. cbn [bind].
      unfold fill_bad. unfold sl_limit, sl_start. cbn [it_slice with_node].
      match goal with |- (if ?b then _ else _) = (if ?b' then _ else _) => change b' with b; destruct b end.
      - reflexivity.
      - rewrite (aget_ok nd (x + 2)) by lia. cbn [bind]. rewrite bslice_ok by lia. reflexivity.
    Qed.

    Lemma next_conc it :
      Cit d A hist it ->
      exists it' ret, it_next c p (op_fuel d) d it = Ok (it', ret) /\ Cit d A hist it' /\ good MNext it it'.
    Proof.
      intros HC. pose proof HC as [(H0 & Hk & Hv)|(HA & Hk & v & Hv & Hh & Hr)].
      - (* invalid iterator: First, or nothing *)
        unfold it_next. rewrite H0, N.eqb_refl.
        destruct (it_fwd it); cbn [negb].
        + exists it, false. split; [reflexivity|]. split; [exact HC|].
          unfold good, obs_good, it_valid. rewrite H0, N.eqb_refl. cbn [negb]. auto.
        + destruct (first_conc it HC) as (it' & ret & E & HC' & _ & Hg).
          exists it', ret. split; [exact E|]. split; [exact HC'|].
          unfold good, obs_good in *. destruct (it_valid it'); [|exact Hg].
          destruct Hg as (k & v & Hk' & Hv' & Hh & Hs & _). exists k, v. repeat split; auto.
          intros k0 Hval. unfold it_valid in Hval. rewrite H0, N.eqb_refl in Hval. discriminate.
      - (* on an allocated record, live or unlinked: follow its level-0 link *)
        set (x := it_node it) in *.
        pose proof (inv_nonzero c tmax d A L I x HA) as Hx0.
        destruct (inv_node_A c tmax d A L I x HA) as (H1 & H2 & H3 & H4 & H5).
        unfold it_next. fold x. replace (x =? 0) with false by lia.
        rewrite (Enext p pok). rewrite (aget_ok nd (x + 4)) by lia. cbn [bind].
        replace (x + 4) with (x + 4 + 0) by lia. change (rd nd (x + 4 + 0)) with (nx nd x 0).
        destruct (HF x HA) as [Hy0|(HyA & Hlt)].
        + rewrite Hy0. rewrite (fill_zero c p d it true false true).
          eexists _, _. split; [reflexivity|]. split; [left; cbn; auto|].
          unfold good, obs_good, it_valid. cbn. auto.
        + set (y := nx nd x 0) in *.
          rewrite (fill_node_A it y true false true HyA).
          rewrite (fill_bad_limit c).
          destruct (lim_ok c (it_slice it) (keyof nd kv y)) eqn:El; cbn [negb].
          * eexists _, _. split; [reflexivity|].
            assert (Hrange : in_range c (it_slice it) (keyof nd kv y) = true).
            { rewrite in_range_split, El, andb_true_r.
              rewrite in_range_split in Hr. apply andb_prop in Hr as (Hs & _).
              exact (start_ok_mono c cok _ _ _ Hlt Hs). }
            split.
            -- right. cbn [it_node it_key it_val it_slice]. split; [exact HyA|]. split; [reflexivity|].
               exists (valof nd kv y). split; [reflexivity|]. split; [apply (HH y HyA)|exact Hrange].
            -- unfold good, obs_good, it_valid. cbn [it_node it_key it_val it_slice].
               pose proof (inv_nonzero c tmax d A L I y HyA). replace (y =? 0) with false by lia. cbn [negb].
               exists (keyof nd kv y), (valof nd kv y). repeat split; auto.
               ++ apply (HH y HyA).
               ++ apply in_range_slice_has. exact Hrange.
               ++ intros k0 _ Hk0. rewrite Hk in Hk0. injection Hk0 as <-. exact Hlt.
          * eexists _, _. split; [reflexivity|]. split; [left; cbn; auto|].
            unfold good, obs_good, it_valid. cbn. auto.
    Qed.

    Lemma move_conc it mvm :
      Cit d A hist it ->
      exists it' ret, do_move c p (op_fuel d) d it mvm = Ok (it', ret) /\ Cit d A hist it' /\ good mvm it it'.
    Proof.
      intros HC. destruct mvm; cbn [do_move].
      - destruct (first_conc it HC) as (it' & ret & E & HC' & Hg & _). eauto.
      - destruct (last_conc it HC) as (it' & ret & E & HC' & Hg & _). eauto.
      - apply seek_conc. exact HC.
      - apply next_conc. exact HC.
      - apply prev_conc. exact HC.
    Qed.

    Lemma get_conc k : exists r, mdb_get c p (op_fuel d) d k = Ok r /\ obs_good c (ObsGet k r hist).
    Proof.
      assert (Hrep : rep c p d A L m (len kv)) by (split; [exact I|split; reflexivity]).
      rewrite (get_ok c cok p pok d A L m _ k Hrep). eexists. split; [reflexivity|].
      unfold obs_good, s_get. destruct (find (key_eq c k) m) as [(k', v)|] eqn:E; cbn [option_map snd]; [|exact Logic.I].
      apply find_some in E as (Hin & He). unfold key_eq in He. cbn [fst] in He.
      assert (k' = k).
      { apply (cmp_eq c cok). destruct (cmp c k' k); cbn in He; congruence. }
      subst k'. apply in_abs_hist. exact Hin.
    Qed.

    Lemma find_conc k : exists r, mdb_find c p (op_fuel d) d k = Ok r /\ obs_good c (ObsFind k r hist).
    Proof.
      assert (Hrep : rep c p d A L m (len kv)) by (split; [exact I|split; reflexivity]).
      rewrite (find_ok c cok p pok d A L m _ k Hrep). eexists. split; [reflexivity|].
      unfold obs_good, s_find_ge. destruct (find (key_ge c k) m) as [(k', v)|] eqn:E; [|exact Logic.I].
      apply find_some in E as (Hin & He). split; [apply in_abs_hist; exact Hin|].
      unfold key_ge, ltb in He. cbn [fst] in He. destruct (cmp c k' k); cbn in He; congruence.
    Qed.

    Lemma contains_conc k : exists r, mdb_contains c p (op_fuel d) d k = Ok r.
    Proof.
      assert (Hrep : rep c p d A L m (len kv)) by (split; [exact I|split; reflexivity]).
      rewrite (contains_ok c cok p pok d A L m _ k Hrep). eauto.
    Qed.
  End Readers.

  (* ---- iterators across a writer step ---- *)
  Lemma Cit_keep d d' A A' hist hist' it :
    (forall x, In x A -> In x A' /\ keyof (nodeData d') (kvData d') x = keyof (nodeData d) (kvData d) x) ->
    incl hist hist' ->
    Cit d A hist it -> Cit d' A' hist' it.
  Proof.
    intros Hk Hh [H|(HA & Hkey & v & Hv & Hin & Hr)]; [left; exact H|right].
    destruct (Hk _ HA) as (HA' & E). rewrite E. split; [exact HA'|]. split; [exact Hkey|].
    exists v. repeat split; auto.
  Qed.

  Lemma lookup_Forall (P : iter -> Prop) its r it :
    Forall (fun ri : N * iter => P (snd ri)) its -> it_lookup r its = Some it -> P it.
  Proof.
    induction 1 as [|(i, x) its Hx _ IH]; cbn; [discriminate|].
    destruct (i =? r); [intros E; injection E as <-; exact Hx|exact IH].
  Qed.

  Lemma store_Forall (P : iter -> Prop) its r it :
    Forall (fun ri : N * iter => P (snd ri)) its -> P it ->
    Forall (fun ri : N * iter => P (snd ri)) (it_store r it its).
  Proof.
    intros H Hit. induction H as [|(i, x) its Hx Htl IH]; cbn.
    - constructor; [exact Hit|constructor].
    - destruct (i =? r); constructor; auto.
  Qed.

  Lemma cstep_safe s a :
    CInv s -> match a with AWPut _ _ h => 1 <= h /\ h <= tmax | _ => True end ->
    exists s' o, cstep c p s a = Ok (s', o) /\ CInv s' /\ obs_good c o.
  Proof.
    intros (A & L & I & HF & HH & Hits) Ha. destruct a; cbn [cstep].
    - destruct Ha as (Hh1 & Hh2).
      destruct (put_conc (c_db s) A L (c_hist s) k v h I HF HH Hh1 Hh2) as (d' & A' & L' & E & I' & HF' & HH' & Hk).
      rewrite E. cbn [bind]. eexists _, _. split; [reflexivity|]. split; [|exact Logic.I].
      exists A', L'. cbn [c_db c_its c_hist]. split; [exact I'|]. split; [exact HF'|]. split; [exact HH'|].
      eapply Forall_impl; [|exact Hits]. intros ri Hri.
      apply (Cit_keep (c_db s) d' A A' (c_hist s)); auto. intros e He. right. exact He.
    - destruct (delete_conc (c_db s) A L (c_hist s) k I HF HH) as (d' & L' & f & E & I' & HF' & HH' & Hk).
      rewrite E. cbn [bind]. eexists _, _. split; [reflexivity|]. split; [|exact Logic.I].
      exists A, L'. cbn [c_db c_its c_hist]. split; [exact I'|]. split; [exact HF'|]. split; [exact HH'|].
      eapply Forall_impl; [|exact Hits]. intros ri Hri.
      apply (Cit_keep (c_db s) d' A A (c_hist s)); auto. intros e He. exact He.
    - eexists _, _. split; [reflexivity|]. split; [|exact Logic.I].
      exists A, L. cbn [c_db c_its c_hist]. split; [exact I|]. split; [exact HF|]. split; [exact HH|].
      apply store_Forall; [exact Hits|]. left. cbn. auto.
    - destruct (it_lookup r (c_its s)) as [it|] eqn:El.
      + pose proof (lookup_Forall _ _ _ _ Hits El) as HC.
        destruct (move_conc (c_db s) A L (c_hist s) I HF HH it m HC) as (it' & ret & E & HC' & Hg).
        rewrite E. cbn [bind]. eexists _, _. split; [reflexivity|]. split; [|exact Hg].
        exists A, L. cbn [c_db c_its c_hist]. split; [exact I|]. split; [exact HF|]. split; [exact HH|].
        apply store_Forall; assumption.
      + exists s, ObsNone. split; [reflexivity|]. split; [|exact Logic.I]. exists A, L. auto.
    - destruct (get_conc (c_db s) A L (c_hist s) I HH k) as (r & E & Hg). rewrite E. cbn [bind].
      eexists _, _. split; [reflexivity|]. split; [|exact Hg]. exists A, L. auto.
    - destruct (find_conc (c_db s) A L (c_hist s) I HH k) as (r & E & Hg). rewrite E. cbn [bind].
      eexists _, _. split; [reflexivity|]. split; [|exact Hg]. exists A, L. auto.
    - destruct (contains_conc (c_db s) A L I k) as (r & E). rewrite E. cbn [bind].
      eexists _, _. split; [reflexivity|]. split; [|exact Logic.I]. exists A, L. auto.
  Qed.

  Lemma crun_from_safe acts :
    forall s, CInv s -> aheights_ok p acts ->
    exists obs, crun_from c p s acts = Ok obs /\ Forall (obs_good c) obs.
  Proof.
    induction acts as [|a acts IH]; intros s HC Hh; cbn [crun_from].
    - exists []. auto.
    - inversion Hh as [|? ? Ha Hacts]; subst.
      destruct (cstep_safe s a HC Ha) as (s' & o & E & HC' & Ho).
      destruct (IH s' HC' Hacts) as (obs & E' & Hobs).
      rewrite E. cbn [bind]. rewrite E'. cbn [bind]. exists (o :: obs). auto.
  Qed.

  (* every interleaving of one writer with any number of readers *)
  Theorem conc_safe acts :
    aheights_ok p acts -> exists obs, crun c p acts = Ok obs /\ Forall (obs_good c) obs.
  Proof.
    intros Hh. unfold crun. destruct (new_ok c p pok) as (d & -> & (I & _ & _)). cbn [bind].
    apply crun_from_safe; [|exact Hh].
    exists [], []. cbn [c_db c_its c_hist]. split; [exact I|]. split; [intros x []|]. split; [intros x []|constructor].
  Qed.
End ConcProofs.
