(* Mem/ListLemmas.v — list facts used by the memdb proofs: filter/last/splits, strict sortedness
   as a Fixpoint, find / find_last over a list cut into a low and a high part. *)
From Coq Require Import List Bool Lia.
Import ListNotations.

Section Lists.
  Context {A : Type}.
  Implicit Types (l : list A) (f : A -> bool).

  Lemma filter_nil_iff f l : filter f l = [] <-> Forall (fun x => f x = false) l.
  Proof.
    induction l as [|x l IH]; cbn; [split; auto|].
    destruct (f x) eqn:E; split; intros H.
    - discriminate.
    - inversion H; congruence.
    - constructor; [exact E|]. now apply IH.
    - inversion H; subst. now apply IH.
  Qed.

  Lemma filter_all f l : Forall (fun x => f x = true) l -> filter f l = l.
  Proof.
    induction 1 as [|x l Hx _ IH]; cbn; [reflexivity|]. now rewrite Hx, IH.
  Qed.

  Lemma filter_hd_split f l y r :
    filter f l = y :: r ->
    exists l1 l2, l = l1 ++ y :: l2 /\ filter f l1 = [] /\ filter f l2 = r /\ f y = true.
  Proof.
    induction l as [|x l IH]; cbn; [discriminate|].
    destruct (f x) eqn:E; intros H.
    - injection H as -> <-. exists [], l. cbn. auto.
    - destruct (IH H) as (l1 & l2 & -> & H1 & H2 & H3).
      exists (x :: l1), l2. cbn. rewrite E. auto.
  Qed.

  Lemma filter_snoc f l x : filter f (l ++ [x]) = filter f l ++ (if f x then [x] else []).
  Proof. rewrite filter_app. cbn. destruct (f x); reflexivity. Qed.

  Lemma last_snoc l x d : last (l ++ [x]) d = x.
  Proof. apply last_last. Qed.

  Lemma last_cons_default l x d : last (x :: l) d = last l x.
  Proof.
    revert x d. induction l as [|y l IH]; intros x d; [reflexivity|].
    change (last (x :: y :: l) d) with (last (y :: l) d). now rewrite !IH.
  Qed.

  Lemma last_app_nonnil l1 l2 d : l2 <> [] -> last (l1 ++ l2) d = last l2 d.
  Proof.
    intros H. induction l1 as [|x l1 IH]; [reflexivity|].
    cbn [app]. destruct (l1 ++ l2) eqn:E.
    - destruct l1; cbn in E; [congruence|discriminate].
    - cbn [last]. exact IH.
  Qed.

  Lemma last_in l d : l <> [] -> In (last l d) l.
  Proof.
    induction l as [|x l IH]; [congruence|]. intros _.
    destruct l as [|y l]; [left; reflexivity|].
    right. apply IH. discriminate.
  Qed.

  Lemma list_snoc_cases l : l = [] \/ exists l' x, l = l' ++ [x].
  Proof.
    destruct l as [|y l]; [left; reflexivity|]. right.
    destruct (@exists_last _ (y :: l)) as (l' & x & E); [discriminate|]. eauto.
  Qed.

  Lemma in_split_first (eqd : forall a b : A, {a = b} + {a <> b}) x l :
    In x l -> exists l1 l2, l = l1 ++ x :: l2 /\ ~ In x l1.
  Proof.
    induction l as [|y l IH]; [intros []|].
    intros H. destruct (eqd y x) as [->|Hne].
    - exists [], l. auto.
    - destruct H as [->|H]; [congruence|].
      destruct (IH H) as (l1 & l2 & -> & Hn). exists (y :: l1), l2. split; [reflexivity|].
      intros [->|H']; auto.
  Qed.

  (* ---- strictly sorted lists ---- *)
  Section Sorted.
    Variable R : A -> A -> Prop.

    Fixpoint sorted l : Prop :=
      match l with
      | [] => True
      | x :: l' => Forall (R x) l' /\ sorted l'
      end.

    Lemma sorted_app l1 l2 :
      sorted (l1 ++ l2) <-> sorted l1 /\ sorted l2 /\ Forall (fun x => Forall (R x) l2) l1.
    Proof.
      induction l1 as [|x l1 IH]; cbn.
      - split; [intros H; auto|intros (_ & H & _); exact H].
      - rewrite Forall_app, IH. split.
        + intros ((H1 & H2) & H3 & H4 & H5). repeat split; auto.
        + intros ((H1 & H2) & H3 & H4). inversion H4; subst. repeat split; auto.
    Qed.

    Lemma sorted_filter f l : sorted l -> sorted (filter f l).
    Proof.
      induction l as [|x l IH]; cbn; [auto|]. intros (H1 & H2).
      destruct (f x); cbn; auto. split; auto.
      rewrite Forall_forall in *. intros y Hy. apply filter_In in Hy. apply H1, Hy.
    Qed.

    Lemma sorted_NoDup l : (forall x, ~ R x x) -> sorted l -> NoDup l.
    Proof.
      intros Hirr. induction l as [|x l IH]; cbn; [constructor|]. intros (H1 & H2).
      constructor; auto. intros Hin. rewrite Forall_forall in H1. exact (Hirr x (H1 x Hin)).
    Qed.
  End Sorted.

  Lemma sorted_ext (R R' : A -> A -> Prop) l :
    (forall x y, In x l -> In y l -> R x y -> R' x y) -> sorted R l -> sorted R' l.
  Proof.
    induction l as [|x l IH]; cbn; [auto|]. intros H (H1 & H2). split.
    - rewrite Forall_forall in *. intros y Hy. apply H; auto.
    - apply IH; [intros a b Ha Hb; apply H; auto|exact H2].
  Qed.

  (* ---- find / find_last over l1 ++ l2 ---- *)
  Lemma find_app_none f l1 l2 : Forall (fun x => f x = false) l1 -> find f (l1 ++ l2) = find f l2.
  Proof. induction 1 as [|x l Hx _ IH]; cbn; [reflexivity|]. now rewrite Hx. Qed.

  Lemma find_none f l : Forall (fun x => f x = false) l -> find f l = None.
  Proof. induction 1 as [|x l Hx _ IH]; cbn; [reflexivity|]. now rewrite Hx. Qed.

  Lemma find_hd f x l : f x = true -> find f (x :: l) = Some x.
  Proof. cbn. now intros ->. Qed.
End Lists.

Lemma NoDup_app_disjoint {A} (l1 l2 : list A) x : NoDup (l1 ++ l2) -> In x l1 -> In x l2 -> False.
Proof.
  induction l1 as [|y l1 IH]; [intros _ []|].
  cbn. intros H [->|H1] H2; inversion H; subst.
  - apply H3. apply in_or_app. auto.
  - eauto.
Qed.

Lemma map_filter_comm {A B} (g : A -> B) (f : B -> bool) l :
  filter f (map g l) = map g (filter (fun x => f (g x)) l).
Proof.
  induction l as [|x l IH]; cbn; [reflexivity|]. destruct (f (g x)); cbn; now rewrite IH.
Qed.

Lemma NoDup_app_l {A} (l1 l2 : list A) : NoDup (l1 ++ l2) -> NoDup l1.
Proof.
  induction l1 as [|x l1 IH]; [constructor|]. cbn. intros H. inversion H; subst.
  constructor; [|auto]. intros Hin. apply H2. apply in_or_app. auto.
Qed.

Lemma NoDup_app_r {A} (l1 l2 : list A) : NoDup (l1 ++ l2) -> NoDup l2.
Proof.
  induction l1 as [|x l1 IH]; [auto|]. cbn. intros H. inversion H; subst. auto.
Qed.
