(* Mem/MemDBProofs.v — the proof development of the memdb model, gathered, plus the statements
   about fuel: under the representation invariant every search returns (neither OutOfFuel nor
   Panic) as soon as fuel >= number of live nodes + maxHeight — which is what step gives it.
     ArrayLemmas   aget/aset/bslice against total accessors
     MemInv        the representation invariant Inv
     MemFrame      records of distinct nodes do not overlap
     MemFind       findGE (with/without prevNode), findLT, findLast
     MemPut        Put: link loop, insert branch, overwrite branch
     MemDelete     Delete: unlink loop
     MemOps        every DB call against the sorted association list
     MemIter       every iterator movement against the reference cursor
     MemRefine     simulation and the refinement theorem
   (Mem/MemConcProofs.v: one writer and many readers; Mem/MemTotal.v: no program panics) *)
From GL Require Export Base.OrderProofs Mem.MemDB Mem.MemSpec Mem.ArrayLemmas Mem.ListLemmas
  Mem.MemInv Mem.MemFrame Mem.MemFind Mem.MemSpecProofs Mem.MemPut Mem.MemDelete Mem.MemOps
  Mem.MemIter Mem.MemRefine.
From Coq Require Import Lia.
Open Scope N_scope.

Section Fuel.
  Variable c : comparer.
  Hypothesis cok : comparer_ok c.
  Variable p : mparams.
  Hypothesis pok : mparams_ok p.

  Theorem search_fuel_suffices d A L k prev fuel :
    Inv c (tMaxHeight p) d A L ->
    (length L + N.to_nat (maxHeight d) <= fuel)%nat ->
    (exists r, findGE c p fuel d k prev (prev_init p) = Ok r) /\
    (exists r, findLT c p fuel d k = Ok r) /\
    (exists r, findLast p fuel d = Ok r).
  Proof.
    intros I Hf.
    destruct (split_at c cok d L k (inv_sorted _ _ _ _ _ I)) as (Lb & Lr & EL & Hb & Hr).
    destruct (findGE_ok c cok p pok d A L I k prev Lb Lr fuel EL Hb Hr Hf) as (pn & E & _).
    split; [eauto|]. split.
    - rewrite (findLT_ok c p pok d A L I k Lb Lr fuel EL Hb Hr Hf). eauto.
    - rewrite (findLast_ok c p pok d A L I fuel Hf). eauto.
  Qed.

  (* the fuel step hands to every search is exactly that bound *)
  Theorem op_fuel_is_bound d A L :
    Inv c (tMaxHeight p) d A L -> op_fuel d = (length L + N.to_nat (maxHeight d))%nat.
  Proof. intros I. unfold op_fuel. rewrite (inv_n _ _ _ _ _ I). lia. Qed.
End Fuel.
