(* Mem/MemTotal.v — the array model never panics and never runs out of fuel on ANY sequential
   program (heights in range), including those the reference declines (Next on an iterator whose
   key was deleted under it): every operation returns (proof file).  Uses the invariants of the
   concurrent development (allocated records keep level-0 links to allocated records). *)
From GL Require Import Base.OrderProofs Mem.MemDB Mem.MemSpec Mem.MemConc Mem.ArrayLemmas Mem.ListLemmas
  Mem.MemInv Mem.MemFrame Mem.MemFind Mem.MemSpecProofs Mem.MemPut Mem.MemDelete Mem.MemOps
  Mem.MemIter Mem.MemConcProofs.
From Coq Require Import Lia ZifyBool.
Open Scope N_scope.

Section Total.
  Variable c : comparer.
  Hypothesis cok : comparer_ok c.
  Variable p : mparams.
  Hypothesis pok : mparams_ok p.

  Local Notation tmax := (tMaxHeight p).

  Definition SInv (s : mstate) : Prop :=
    exists A L hist,
      Inv c tmax (st_db s) A L /\ FInv c (st_db s) A /\ HInv (st_db s) A hist /\
      Forall (fun ri => Cit c (st_db s) A hist (snd ri)) (st_its s).

  Lemma move_total s id (f : nat -> db -> iter -> res (iter * bool)) :
    SInv s ->
    (forall A L hist it,
        Inv c tmax (st_db s) A L -> FInv c (st_db s) A -> HInv (st_db s) A hist -> Cit c (st_db s) A hist it ->
        exists it' ret, f (op_fuel (st_db s)) (st_db s) it = Ok (it', ret) /\ Cit c (st_db s) A hist it') ->
    exists s' r, move s id f = Ok (s', r) /\ SInv s'.
  Proof.
    intros (A & L & hist & I & HF & HH & Hits) Hf. unfold move.
    destruct (it_lookup id (st_its s)) as [it|] eqn:El.
    - pose proof (lookup_Forall _ _ _ _ Hits El) as HC.
      destruct (Hf A L hist it I HF HH HC) as (it' & ret & E & HC').
      rewrite E. cbn [bind]. eexists _, _. split; [reflexivity|].
      exists A, L, hist. cbn [st_db st_its]. split; [exact I|]. split; [exact HF|]. split; [exact HH|].
      apply store_Forall; assumption.
    - exists s, RNoIter. split; [reflexivity|]. exists A, L, hist. auto.
  Qed.

  Lemma step_total s o :
    SInv s -> match o with OPut _ _ h => 1 <= h /\ h <= tmax | _ => True end ->
    exists s' r, step c p s o = Ok (s', r) /\ SInv s'.
  Proof.
    intros HS Ho. pose proof HS as (A & L & hist & I & HF & HH & Hits). destruct o; cbn [step].
    - destruct Ho as (Hh1 & Hh2).
      destruct (put_conc c cok p pok (st_db s) A L hist k v h I HF HH Hh1 Hh2) as (d' & A' & L' & E & I' & HF' & HH' & Hk).
      rewrite E. cbn [bind]. eexists _, _. split; [reflexivity|].
      exists A', L', ((k, v) :: hist). cbn [st_db st_its]. split; [exact I'|]. split; [exact HF'|]. split; [exact HH'|].
      eapply Forall_impl; [|exact Hits]. intros ri Hri.
      apply (Cit_keep c (st_db s) d' A A' hist); auto. intros e He. right. exact He.
    - destruct (delete_conc c cok p pok (st_db s) A L hist k I HF HH) as (d' & L' & f & E & I' & HF' & HH' & Hk).
      rewrite E. cbn [bind]. eexists _, _. split; [reflexivity|].
      exists A, L', hist. cbn [st_db st_its]. split; [exact I'|]. split; [exact HF'|]. split; [exact HH'|].
      eapply Forall_impl; [|exact Hits]. intros ri Hri.
      apply (Cit_keep c (st_db s) d' A A hist); auto. intros e He. exact He.
    - destruct (get_conc c cok p pok (st_db s) A L hist I HH k) as (r & E & _). rewrite E. cbn [bind]. eauto.
    - destruct (find_conc c cok p pok (st_db s) A L hist I HH k) as (r & E & _). rewrite E. cbn [bind]. eauto.
    - destruct (contains_conc c cok p pok (st_db s) A L I k) as (r & E). rewrite E. cbn [bind]. eauto.
    - eauto.
    - eauto.
    - eauto.
    - destruct (reset_ok c p pok (st_db s) (inv_head _ _ _ _ _ I)) as (d' & E & (I' & _ & _)).
      rewrite E. cbn [bind]. eexists _, _. split; [reflexivity|].
      exists [], [], []. cbn [st_db st_its]. split; [exact I'|]. split; [intros x []|]. split; [intros x []|constructor].
    - eexists _, _. split; [reflexivity|]. exists A, L, hist. cbn [st_db st_its].
      split; [exact I|]. split; [exact HF|]. split; [exact HH|].
      apply store_Forall; [exact Hits|]. left. cbn. auto.
    - apply move_total; [exact HS|]. intros A0 L0 h0 it I0 HF0 HH0 HC.
      destruct (first_conc c cok p pok (st_db s) A0 L0 h0 I0 HH0 it HC) as (it' & ret & E & HC' & _). eauto.
    - apply move_total; [exact HS|]. intros A0 L0 h0 it I0 HF0 HH0 HC.
      destruct (last_conc c cok p pok (st_db s) A0 L0 h0 I0 HH0 it HC) as (it' & ret & E & HC' & _). eauto.
    - apply (move_total s id (fun f d it => it_seek c p f d it k)); [exact HS|]. intros A0 L0 h0 it I0 HF0 HH0 HC.
      destruct (seek_conc c cok p pok (st_db s) A0 L0 h0 I0 HH0 it k HC) as (it' & ret & E & HC' & _). eauto.
    - apply move_total; [exact HS|]. intros A0 L0 h0 it I0 HF0 HH0 HC.
      destruct (next_conc c cok p pok (st_db s) A0 L0 h0 I0 HF0 HH0 it HC) as (it' & ret & E & HC' & _). eauto.
    - apply move_total; [exact HS|]. intros A0 L0 h0 it I0 HF0 HH0 HC.
      destruct (prev_conc c cok p pok (st_db s) A0 L0 h0 I0 HH0 it HC) as (it' & ret & E & HC' & _). eauto.
  Qed.

  Lemma run_from_total ops :
    forall s, SInv s -> heights_ok tmax ops -> exists s' outs, run_from c p s ops = Ok (s', outs).
  Proof.
    induction ops as [|o ops IH]; intros s HS Hh; cbn [run_from]; [eauto|].
    inversion Hh as [|? ? Ho Hops]; subst.
    destruct (step_total s o HS Ho) as (s1 & r & E & HS1).
    destruct (IH s1 HS1 Hops) as (s2 & outs & E2).
    rewrite E. cbn [bind]. rewrite E2. cbn [bind]. eauto.
  Qed.

  Theorem run_total ops : heights_ok tmax ops -> exists outs, run c p ops = Ok outs.
  Proof.
    intros Hh. unfold run. destruct (new_ok c p pok) as (d & -> & (I & _ & _)). cbn [bind].
    destruct (run_from_total ops {| st_db := d; st_its := [] |}) as (s' & outs & E); [|exact Hh|].
    - exists [], [], []. cbn [st_db st_its]. split; [exact I|]. split; [intros x []|]. split; [intros x []|constructor].
    - rewrite E. cbn [bind]. eauto.
  Qed.
End Total.
