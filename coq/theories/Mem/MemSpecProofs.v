(* Mem/MemSpecProofs.v — facts about the reference (Mem/MemSpec.v): how each question is answered
   on a map cut into the entries below a key and the rest; the map stays strictly sorted; Len and
   Size of the reference (proof file). *)
From GL Require Import Base.OrderProofs Mem.MemDB Mem.MemSpec Mem.ListLemmas.
From Coq Require Import Lia.
Open Scope N_scope.

Section SpecProofs.
  Variable c : comparer.
  Hypothesis cok : comparer_ok c.

  Definition e_lt (k : bytes) (e : bytes * bytes) : Prop := lt c (fst e) k.       (* entry below k *)
  Definition e_ge (k : bytes) (e : bytes * bytes) : Prop := cmp c (fst e) k <> Lt.
  Definition e_gt (k : bytes) (e : bytes * bytes) : Prop := lt c k (fst e).

  Definition smap_sorted (m : smap) : Prop := sorted (fun a b => lt c (fst a) (fst b)) m.

  Lemma s_insert_new lo hi k v :
    Forall (e_lt k) lo -> Forall (e_gt k) hi -> s_insert c k v (lo ++ hi) = lo ++ (k, v) :: hi.
  Proof.
    intros Hlo Hhi. induction Hlo as [|(k', v') lo Hk _ IH]; cbn [app].
    - destruct hi as [|(k', v') hi]; [reflexivity|]. cbn.
      inversion Hhi; subst. unfold e_gt, lt in H1. cbn in H1. now rewrite H1.
    - cbn. unfold e_lt, lt in Hk. cbn in Hk. apply (cmp_lt_gt c cok) in Hk. rewrite Hk, IH. reflexivity.
  Qed.

  Lemma s_insert_over lo k0 v0 hi k v :
    Forall (e_lt k) lo -> cmp c k k0 = Eq ->
    s_insert c k v (lo ++ (k0, v0) :: hi) = lo ++ (k, v) :: hi.
  Proof.
    intros Hlo E. induction Hlo as [|(k', v') lo Hk _ IH]; cbn [app].
    - cbn. now rewrite E.
    - cbn. unfold e_lt, lt in Hk. cbn in Hk. apply (cmp_lt_gt c cok) in Hk. rewrite Hk, IH. reflexivity.
  Qed.

  Lemma key_eq_lt k e : e_lt k e -> key_eq c k e = false.
  Proof. unfold e_lt, lt, key_eq. intros ->. reflexivity. Qed.

  Lemma key_eq_gt k e : e_gt k e -> key_eq c k e = false.
  Proof.
    unfold e_gt, key_eq. intros H. apply (cmp_lt_gt c cok) in H. rewrite H. reflexivity.
  Qed.

  Lemma s_get_skip lo hi k : Forall (e_lt k) lo -> s_get c k (lo ++ hi) = s_get c k hi.
  Proof.
    intros H. unfold s_get. rewrite find_app_none; [reflexivity|].
    eapply Forall_impl; [|exact H]. apply key_eq_lt.
  Qed.

  Lemma s_get_hit k0 v0 hi k : cmp c k0 k = Eq -> s_get c k ((k0, v0) :: hi) = Some v0.
  Proof. intros E. unfold s_get. cbn. unfold key_eq. cbn. rewrite E. reflexivity. Qed.

  Lemma s_get_hit_e e hi k : cmp c (fst e) k = Eq -> s_get c k (e :: hi) = Some (snd e).
  Proof. destruct e as (k0, v0). apply s_get_hit. Qed.

  Lemma s_get_miss hi k : Forall (e_gt k) hi -> s_get c k hi = None.
  Proof.
    intros H. unfold s_get. rewrite find_none; [reflexivity|].
    eapply Forall_impl; [|exact H]. apply key_eq_gt.
  Qed.

  Lemma s_find_ge_split lo hi k :
    Forall (e_lt k) lo -> Forall (e_ge k) hi -> s_find_ge c k (lo ++ hi) = hd_error hi.
  Proof.
    intros Hlo Hhi. unfold s_find_ge. rewrite find_app_none.
    - destruct hi as [|e hi]; [reflexivity|]. inversion Hhi; subst. cbn.
      unfold key_ge, ltb. unfold e_ge in H1. destruct (cmp c (fst e) k); try congruence; reflexivity.
    - eapply Forall_impl; [|exact Hlo]. intros e He. unfold key_ge, ltb. unfold e_lt, lt in He.
      now rewrite He.
  Qed.

  Lemma s_remove_split lo k0 v0 hi k :
    Forall (e_lt k) lo -> cmp c k0 k = Eq -> Forall (e_gt k) hi ->
    s_remove c k (lo ++ (k0, v0) :: hi) = lo ++ hi.
  Proof.
    intros Hlo E Hhi. unfold s_remove. rewrite filter_app. cbn [filter].
    unfold key_eq at 2. cbn [fst]. rewrite E. cbn [is_eq negb].
    rewrite !filter_all; [reflexivity| |].
    - eapply Forall_impl; [|exact Hhi]. intros e He. now rewrite key_eq_gt.
    - eapply Forall_impl; [|exact Hlo]. intros e He. now rewrite key_eq_lt.
  Qed.

  Lemma find_last_app_none {A} (f : A -> bool) l1 l2 :
    Forall (fun x => f x = false) l2 -> find_last f (l1 ++ l2) = find_last f l1.
  Proof.
    intros H. induction l1 as [|x l1 IH]; cbn [app find_last].
    - induction H as [|y l2 Hy _ IH2]; cbn; [reflexivity|]. now rewrite IH2, Hy.
    - now rewrite IH.
  Qed.

  Lemma find_last_all {A} (f : A -> bool) l :
    Forall (fun x => f x = true) l -> find_last f l = find_last (fun _ => true) l.
  Proof.
    induction 1 as [|x l Hx _ IH]; cbn; [reflexivity|]. now rewrite IH, Hx.
  Qed.

  Lemma find_last_true_snoc {A} (l : list A) x : find_last (fun _ => true) (l ++ [x]) = Some x.
  Proof. induction l as [|y l IH]; cbn; [reflexivity|]. cbn in IH. now rewrite IH. Qed.

  Lemma s_find_lt_split lo hi k :
    Forall (e_lt k) lo -> Forall (e_ge k) hi ->
    s_find_lt c k (lo ++ hi) = find_last (fun _ => true) lo.
  Proof.
    intros Hlo Hhi. unfold s_find_lt. rewrite find_last_app_none.
    - apply find_last_all. eapply Forall_impl; [|exact Hlo]. intros e He.
      unfold key_lt, ltb. unfold e_lt, lt in He. now rewrite He.
    - eapply Forall_impl; [|exact Hhi]. intros e He. unfold key_lt, ltb. unfold e_ge in He.
      destruct (cmp c (fst e) k); try congruence; reflexivity.
  Qed.

  Lemma s_len_map {A} (f : A -> bytes * bytes) l : s_len (map f l) = Z.of_nat (length l).
  Proof. unfold s_len. now rewrite map_length. Qed.

  (* ---- the visible part of the map and the two kinds of cursor query ---- *)
  Definition start_ok (sl : option range) (k : bytes) : bool :=
    match sl with Some (Some s, _) => negb (ltb c k s) | _ => true end.
  Definition lim_ok (sl : option range) (k : bytes) : bool :=
    match sl with Some (_, Some l) => ltb c k l | _ => true end.

  Lemma in_range_split sl k : in_range c sl k = start_ok sl k && lim_ok sl k.
  Proof. destruct sl as [(s, l)|]; cbn; [|reflexivity]. destruct s, l; reflexivity. Qed.

  Lemma hd_error_filter {A} (f : A -> bool) l : hd_error (filter f l) = find f l.
  Proof. induction l as [|x l IH]; cbn; [reflexivity|]. destruct (f x); cbn; auto. Qed.

  Lemma find_filter {A} (f g : A -> bool) l : find g (filter f l) = find (fun x => f x && g x) l.
  Proof.
    induction l as [|x l IH]; cbn; [reflexivity|]. destruct (f x); cbn; [|exact IH].
    destruct (g x); auto.
  Qed.

  Lemma find_last_filter {A} (f g : A -> bool) l :
    find_last g (filter f l) = find_last (fun x => f x && g x) l.
  Proof.
    induction l as [|x l IH]; cbn; [reflexivity|]. destruct (f x); cbn; rewrite <- IH; [reflexivity|].
    destruct (find_last g (filter f l)); reflexivity.
  Qed.

  Lemma find_last_none {A} (f : A -> bool) l : Forall (fun x => f x = false) l -> find_last f l = None.
  Proof. induction 1 as [|x l Hx _ IH]; cbn; [reflexivity|]. now rewrite IH, Hx. Qed.

  Lemma find_last_snoc {A} (f : A -> bool) l x :
    find_last f (l ++ [x]) = if f x then Some x else find_last f l.
  Proof.
    induction l as [|y l IH]; cbn [app find_last].
    - destruct (f x); reflexivity.
    - rewrite IH. destruct (f x); reflexivity.
  Qed.

  Lemma lim_ok_mono sl a b : lt c a b -> lim_ok sl b = true -> lim_ok sl a = true.
  Proof.
    destruct sl as [(s, [l|])|]; cbn; auto. unfold ltb. intros Hab Hb.
    destruct (cmp c b l) eqn:E; try discriminate.
    pose proof (OrderProofs.lt_trans c cok _ _ _ Hab E) as H. unfold lt in H. now rewrite H.
  Qed.

  Lemma start_ok_mono sl a b : lt c a b -> start_ok sl a = true -> start_ok sl b = true.
  Proof.
    destruct sl as [([s|], l)|]; cbn; auto. unfold ltb. intros Hab Ha.
    destruct (cmp c b s) eqn:E; auto.
    pose proof (OrderProofs.lt_trans c cok _ _ _ Hab E) as H. unfold lt in H. rewrite H in Ha. discriminate.
  Qed.

  (* forward query: the answer is the first entry of the high part, if it is below the limit *)
  Lemma fwd_query sl (f : bytes * bytes -> bool) lo hi :
    smap_sorted (lo ++ hi) ->
    Forall (fun e => in_range c sl (fst e) && f e = false) lo ->
    Forall (fun e => f e = true /\ start_ok sl (fst e) = true) hi ->
    find f (vis c sl (lo ++ hi)) =
      match hi with [] => None | e :: _ => if lim_ok sl (fst e) then Some e else None end.
  Proof.
    intros HS Hlo Hhi. unfold vis. rewrite find_filter. rewrite find_app_none by exact Hlo.
    destruct hi as [|e hi]; [reflexivity|].
    apply sorted_app in HS as (_ & HS & _). destruct HS as (He & _).
    inversion Hhi as [|? ? (Hf & Hs) Hhi']; subst.
    cbn [find]. rewrite in_range_split, Hf, Hs. cbn [andb].
    destruct (lim_ok sl (fst e)) eqn:El; cbn [andb]; [reflexivity|].
    apply find_none. apply Forall_forall. intros e' He'.
    rewrite in_range_split.
    destruct (lim_ok sl (fst e')) eqn:El'; [|now rewrite andb_false_r].
    rewrite Forall_forall in He. rewrite (lim_ok_mono sl _ _ (He e' He') El') in El. discriminate.
  Qed.

  (* backward query: the answer is the last entry of the low part, if it is not below the start *)
  Lemma bwd_query_nil sl (f : bytes * bytes -> bool) hi :
    Forall (fun e => in_range c sl (fst e) && f e = false) hi ->
    find_last f (vis c sl hi) = None.
  Proof. intros H. unfold vis. rewrite find_last_filter. now apply find_last_none. Qed.

  Lemma bwd_query sl (f : bytes * bytes -> bool) lo e hi :
    smap_sorted ((lo ++ [e]) ++ hi) ->
    Forall (fun e => in_range c sl (fst e) && f e = false) hi ->
    Forall (fun e => f e = true /\ lim_ok sl (fst e) = true) (lo ++ [e]) ->
    find_last f (vis c sl ((lo ++ [e]) ++ hi)) = if start_ok sl (fst e) then Some e else None.
  Proof.
    intros HS Hhi Hlo. unfold vis. rewrite find_last_filter. rewrite find_last_app_none by exact Hhi.
    rewrite find_last_snoc.
    apply Forall_app in Hlo as (Hlo & He). inversion He as [|? ? (Hf & Hl) _]; subst.
    rewrite in_range_split, Hf, Hl, andb_true_r. cbn [andb].
    destruct (start_ok sl (fst e)) eqn:Es; [reflexivity|].
    apply find_last_none. apply Forall_forall. intros e' He'.
    rewrite in_range_split.
    destruct (start_ok sl (fst e')) eqn:Es'; [|reflexivity].
    apply sorted_app in HS as (HS & _). apply sorted_app in HS as (_ & _ & HS).
    rewrite Forall_forall in HS. specialize (HS e' He'). inversion HS; subst.
    rewrite (start_ok_mono sl _ _ H1 Es') in Es. discriminate.
  Qed.

  Lemma find_true_hd {A} (l : list A) : find (fun _ => true) l = hd_error l.
  Proof. destruct l; reflexivity. Qed.
End SpecProofs.
