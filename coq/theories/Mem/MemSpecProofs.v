(* Mem/MemSpecProofs.v — facts about the reference (Mem/MemSpec.v): how each question is answered
   on a map cut into the entries below a key and the rest; the map stays strictly sorted; Len and
   Size of the reference (proof file). *)
From GL Require Import Base.OrderProofs Mem.MemDB Mem.MemSpec Mem.ListLemmas.
From Coq Require Import Lia.
Open Scope N_scope.

Section SpecProofs.
  Variable c : comparer.
  Hypothesis cok : comparer_ok c.

  Definition e_lt (k : bytes) (e : bytes * bytes) : Prop := lt c (fst e) k.       (* entry below k *)
  Definition e_ge (k : bytes) (e : bytes * bytes) : Prop := cmp c (fst e) k <> Lt.
  Definition e_gt (k : bytes) (e : bytes * bytes) : Prop := lt c k (fst e).

  Definition smap_sorted (m : smap) : Prop := sorted (fun a b => lt c (fst a) (fst b)) m.

  Lemma s_insert_new lo hi k v :
    Forall (e_lt k) lo -> Forall (e_gt k) hi -> s_insert c k v (lo ++ hi) = lo ++ (k, v) :: hi.
  Proof.
    intros Hlo Hhi. induction Hlo as [|(k', v') lo Hk _ IH]; cbn [app].
    - destruct hi as [|(k', v') hi]; [reflexivity|]. cbn.
      inversion Hhi; subst. unfold e_gt, lt in H1. cbn in H1. now rewrite H1.
    - cbn. unfold e_lt, lt in Hk. cbn in Hk. apply (cmp_lt_gt c cok) in Hk. rewrite Hk, IH. reflexivity.
  Qed.

  Lemma s_insert_over lo k0 v0 hi k v :
    Forall (e_lt k) lo -> cmp c k k0 = Eq ->
    s_insert c k v (lo ++ (k0, v0) :: hi) = lo ++ (k, v) :: hi.
  Proof.
    intros Hlo E. induction Hlo as [|(k', v') lo Hk _ IH]; cbn [app].
    - cbn. now rewrite E.
    - cbn. unfold e_lt, lt in Hk. cbn in Hk. apply (cmp_lt_gt c cok) in Hk. rewrite Hk, IH. reflexivity.
  Qed.

  Lemma key_eq_lt k e : e_lt k e -> key_eq c k e = false.
  Proof. unfold e_lt, lt, key_eq. intros ->. reflexivity. Qed.

  Lemma key_eq_gt k e : e_gt k e -> key_eq c k e = false.
  Proof.
    unfold e_gt, key_eq. intros H. apply (cmp_lt_gt c cok) in H. rewrite H. reflexivity.
  Qed.

  Lemma s_get_skip lo hi k : Forall (e_lt k) lo -> s_get c k (lo ++ hi) = s_get c k hi.
  Proof.
    intros H. unfold s_get. rewrite find_app_none; [reflexivity|].
    eapply Forall_impl; [|exact H]. apply key_eq_lt.
  Qed.

  Lemma s_get_hit k0 v0 hi k : cmp c k0 k = Eq -> s_get c k ((k0, v0) :: hi) = Some v0.
  Proof. intros E. unfold s_get. cbn. unfold key_eq. cbn. rewrite E. reflexivity. Qed.

  Lemma s_get_miss hi k : Forall (e_gt k) hi -> s_get c k hi = None.
  Proof.
    intros H. unfold s_get. rewrite find_none; [reflexivity|].
    eapply Forall_impl; [|exact H]. apply key_eq_gt.
  Qed.

  Lemma s_find_ge_split lo hi k :
    Forall (e_lt k) lo -> Forall (e_ge k) hi -> s_find_ge c k (lo ++ hi) = hd_error hi.
  Proof.
    intros Hlo Hhi. unfold s_find_ge. rewrite find_app_none.
    - destruct hi as [|e hi]; [reflexivity|]. inversion Hhi; subst. cbn.
      unfold key_ge, ltb. unfold e_ge in H1. destruct (cmp c (fst e) k); try congruence; reflexivity.
    - eapply Forall_impl; [|exact Hlo]. intros e He. unfold key_ge, ltb. unfold e_lt, lt in He.
      now rewrite He.
  Qed.

  Lemma s_remove_split lo k0 v0 hi k :
    Forall (e_lt k) lo -> cmp c k0 k = Eq -> Forall (e_gt k) hi ->
    s_remove c k (lo ++ (k0, v0) :: hi) = lo ++ hi.
  Proof.
    intros Hlo E Hhi. unfold s_remove. rewrite filter_app. cbn [filter].
    unfold key_eq at 2. cbn [fst]. rewrite E. cbn [is_eq negb].
    rewrite !filter_all; [reflexivity| |].
    - eapply Forall_impl; [|exact Hhi]. intros e He. now rewrite key_eq_gt.
    - eapply Forall_impl; [|exact Hlo]. intros e He. now rewrite key_eq_lt.
  Qed.

  Lemma find_last_app_none {A} (f : A -> bool) l1 l2 :
    Forall (fun x => f x = false) l2 -> find_last f (l1 ++ l2) = find_last f l1.
  Proof.
    intros H. induction l1 as [|x l1 IH]; cbn [app find_last].
    - induction H as [|y l2 Hy _ IH2]; cbn; [reflexivity|]. now rewrite IH2, Hy.
    - now rewrite IH.
  Qed.

  Lemma find_last_all {A} (f : A -> bool) l :
    Forall (fun x => f x = true) l -> find_last f l = find_last (fun _ => true) l.
  Proof.
    induction 1 as [|x l Hx _ IH]; cbn; [reflexivity|]. now rewrite IH, Hx.
  Qed.

  Lemma find_last_true_snoc {A} (l : list A) x : find_last (fun _ => true) (l ++ [x]) = Some x.
  Proof. induction l as [|y l IH]; cbn; [reflexivity|]. cbn in IH. now rewrite IH. Qed.

  Lemma s_find_lt_split lo hi k :
    Forall (e_lt k) lo -> Forall (e_ge k) hi ->
    s_find_lt c k (lo ++ hi) = find_last (fun _ => true) lo.
  Proof.
    intros Hlo Hhi. unfold s_find_lt. rewrite find_last_app_none.
    - apply find_last_all. eapply Forall_impl; [|exact Hlo]. intros e He.
      unfold key_lt, ltb. unfold e_lt, lt in He. now rewrite He.
    - eapply Forall_impl; [|exact Hhi]. intros e He. unfold key_lt, ltb. unfold e_ge in He.
      destruct (cmp c (fst e) k); try congruence; reflexivity.
  Qed.

  Lemma s_len_map {A} (f : A -> bytes * bytes) l : s_len (map f l) = Z.of_nat (length l).
  Proof. unfold s_len. now rewrite map_length. Qed.
End SpecProofs.
