(* Mem/MemOps.v — every DB operation of the array model against the reference map, under the
   representation invariant: Put, Delete, Get, Find, Contains, Len, Size, used bytes, Reset, New
   (proof file).  rep d A L m used: the arrays represent the sorted map m. *)
From GL Require Import Base.OrderProofs Mem.MemDB Mem.MemSpec Mem.ArrayLemmas Mem.ListLemmas
  Mem.MemInv Mem.MemFrame Mem.MemFind Mem.MemSpecProofs Mem.MemPut Mem.MemDelete.
From Coq Require Import Lia ZifyBool.
Open Scope N_scope.

Section Ops.
  Variable c : comparer.
  Hypothesis cok : comparer_ok c.
  Variable p : mparams.
  Hypothesis pok : mparams_ok p.

  Local Notation tmax := (tMaxHeight p).

  Definition rep (d : db) (A L : list N) (m : smap) (used : N) : Prop :=
    Inv c tmax d A L /\ abs d L = m /\ len (kvData d) = used.

  Definition fuel_ok (d : db) (L : list N) (fuel : nat) : Prop :=
    (length L + N.to_nat (maxHeight d) <= fuel)%nat.

  Lemma op_fuel_ok d A L : Inv c tmax d A L -> fuel_ok d L (op_fuel d).
  Proof.
    intros I. unfold fuel_ok, op_fuel. rewrite (inv_n _ _ _ _ _ I). lia.
  Qed.

  (* node-level and entry-level cuts agree *)
  Lemma ltk_map d k l :
    Forall (ltk c d k) l -> Forall (e_lt c k) (map (kvof (nodeData d) (kvData d)) l).
  Proof. intros H. apply Forall_map. eapply Forall_impl; [|exact H]. intros x Hx. exact Hx. Qed.

  Lemma gek_map d k l :
    Forall (gek c d k) l -> Forall (e_ge c k) (map (kvof (nodeData d) (kvData d)) l).
  Proof. intros H. apply Forall_map. eapply Forall_impl; [|exact H]. intros x Hx. exact Hx. Qed.

  (* in a sorted cut whose head equals k, or whose head is above k, the rest is above k *)
  Lemma tail_gt d k x Lr :
    key_sorted c (nodeData d) (kvData d) (x :: Lr) ->
    cmp c (keyof (nodeData d) (kvData d) x) k <> Lt ->
    Forall (fun y => lt c k (keyof (nodeData d) (kvData d) y)) Lr.
  Proof.
    intros (H1 & _) Hx. eapply Forall_impl; [|exact H1]. intros y Hy. cbn in Hy.
    destruct (cmp c (keyof (nodeData d) (kvData d) x) k) eqn:E; [| congruence |].
    - apply (cmp_eq c cok) in E. now rewrite <- E.
    - apply (cmp_gt_lt c cok) in E. exact (OrderProofs.lt_trans c cok _ _ _ E Hy).
  Qed.

  Lemma all_gt_of_inexact d k Lr :
    key_sorted c (nodeData d) (kvData d) Lr -> Forall (gek c d k) Lr -> exact_of c d k Lr = false ->
    Forall (fun y => lt c k (keyof (nodeData d) (kvData d) y)) Lr.
  Proof.
    intros HS HG Hex. destruct Lr as [|x Lr]; [constructor|].
    inversion HG; subst. cbn in Hex. constructor.
    - unfold gek in H1. destruct (cmp c (keyof (nodeData d) (kvData d) x) k) eqn:E; cbn in Hex; try congruence.
      apply (cmp_gt_lt c cok). exact E.
    - apply (tail_gt d k x Lr HS H1).
  Qed.

  Lemma exact_head d k Lr :
    exact_of c d k Lr = true -> exists x Lr', Lr = x :: Lr' /\ cmp c (keyof (nodeData d) (kvData d) x) k = Eq.
  Proof.
    destruct Lr as [|x Lr']; cbn; [discriminate|]. intros H. exists x, Lr'. split; [reflexivity|].
    destruct (cmp c (keyof (nodeData d) (kvData d) x) k); cbn in H; congruence.
  Qed.

  Lemma sorted_tail d A L Lb Lr :
    Inv c tmax d A L -> L = Lb ++ Lr -> key_sorted c (nodeData d) (kvData d) Lr.
  Proof.
    intros I EL. pose proof (inv_sorted _ _ _ _ _ I) as HS. rewrite EL in HS.
    apply sorted_app in HS. tauto.
  Qed.

  (* ---- Put ---- *)
  Lemma put_ok d A L m used k v h :
    rep d A L m used -> 1 <= h -> h <= tmax ->
    exists d' A' L',
      mdb_put c p (op_fuel d) d k v h = Ok d' /\
      rep d' A' L' (s_insert c k v m) (used + len k + len v) /\
      (forall y, In y L -> In y L' /\ keyof (nodeData d') (kvData d') y = keyof (nodeData d) (kvData d) y).
  Proof.
    intros (I & Eabs & Eused) Hh1 Hh2.
    pose proof (op_fuel_ok d A L I) as Hfuel.
    destruct (split_at c cok d L k (inv_sorted _ _ _ _ _ I)) as (Lb & Lr & EL & Hb & Hr).
    pose proof (sorted_tail d A L Lb Lr I EL) as HSr.
    destruct (exact_of c d k Lr) eqn:Hex.
    - (* overwrite *)
      destruct (exact_head d k Lr Hex) as (x & Lr' & -> & Hx).
      pose proof (put_overwrite_run c cok p pok d A L I k v x Lb Lr' EL Hb Hx (op_fuel d) h Hr Hfuel) as E.
      eexists _, A, L. split; [exact E|]. split.
      + split; [apply (ow_inv c cok p d A L I k v x Lb Lr' EL Hx)|]. split.
        * unfold abs. cbn [nodeData kvData].
          rewrite (ow_abs c cok p d A L I k v x Lb Lr' EL Hx).
          rewrite <- Eabs. unfold abs. rewrite EL, map_app. cbn [map].
          symmetry. apply (s_insert_over c cok).
          -- apply ltk_map. exact Hb.
          -- cbn. rewrite (cmp_opp c cok). rewrite Hx. reflexivity.
        * cbn [kvData]. rewrite !len_app. lia.
      + intros y Hy. split; [exact Hy|]. cbn [nodeData kvData].
        apply (ow_keyof c cok p d A L I k v x Lb Lr' EL Hx). apply (inv_sub _ _ _ _ _ I). exact Hy.
    - (* insert *)
      assert (Hgt : forall y, In y Lr -> lt c k (keyof (nodeData d) (kvData d) y)).
      { apply Forall_forall. apply all_gt_of_inexact; assumption. }
      destruct (put_insert_run c cok p pok d A L I k v h Lb Lr EL Hb Hr (conj Hh1 Hh2) (op_fuel d) Hex Hfuel)
        as (nd' & E & S).
      eexists _, (A ++ [len (nodeData d)]), (Lb ++ len (nodeData d) :: Lr). split; [exact E|]. split.
      + split; [apply (ins_inv c cok p d A L I k v h Lb Lr EL Hb (conj Hh1 Hh2) nd' S Hgt)|]. split.
        * unfold abs. cbn [nodeData kvData].
          rewrite (ins_abs c p d A L I k v h Lb Lr EL (conj Hh1 Hh2) nd' S).
          rewrite <- Eabs. unfold abs. rewrite EL, map_app.
          symmetry. apply (s_insert_new c cok).
          -- apply ltk_map. exact Hb.
          -- apply Forall_map. apply Forall_forall. intros y Hy. exact (Hgt y Hy).
        * cbn [kvData]. rewrite !len_app. lia.
      + intros y Hy. split.
        * rewrite EL in Hy. apply in_app_or in Hy. apply in_or_app. destruct Hy; [left; auto|right; right; auto].
        * cbn [nodeData kvData].
          apply (keyof_same tmax (nodeData d) nd' (kvData d) (k ++ v) (maxHeight d)
                   (if maxHeight d <? h then h else maxHeight d) A (inv_nodes _ _ _ _ _ I)
                   (ins_same_fields c p d A L I k v h Lb Lr EL (conj Hh1 Hh2) nd' S)
                   (ins_lenle p d k v h Lb (conj Hh1 Hh2) nd' S)
                   (ins_mhle p d h (conj Hh1 Hh2))).
          apply (inv_sub _ _ _ _ _ I). exact Hy.
  Qed.

  (* ---- Delete ---- *)
  Lemma delete_ok d A L m used k :
    rep d A L m used ->
    exists d' L' found,
      mdb_delete c p (op_fuel d) d k = Ok (d', found) /\
      match s_get c k m with
      | Some _ =>
          found = true /\ rep d' A L' (s_remove c k m) used /\
          (forall y, In y L -> keyof (nodeData d) (kvData d) y <> k ->
                     In y L' /\ keyof (nodeData d') (kvData d') y = keyof (nodeData d) (kvData d) y)
      | None => found = false /\ d' = d /\ L' = L
      end.
  Proof.
    intros (I & Eabs & Eused).
    pose proof (op_fuel_ok d A L I) as Hfuel.
    destruct (split_at c cok d L k (inv_sorted _ _ _ _ _ I)) as (Lb & Lr & EL & Hb & Hr).
    pose proof (sorted_tail d A L Lb Lr I EL) as HSr.
    assert (Em : m = map (kvof (nodeData d) (kvData d)) Lb ++ map (kvof (nodeData d) (kvData d)) Lr).
    { rewrite <- Eabs. unfold abs. rewrite EL, map_app. reflexivity. }
    destruct (exact_of c d k Lr) eqn:Hex.
    - destruct (exact_head d k Lr Hex) as (x & Lr' & -> & Hx).
      destruct (delete_run c cok p pok d A L I k x Lb Lr' EL Hb Hx (op_fuel d) Hr Hfuel) as (nd' & E & S).
      pose proof (Forall_inv Hr) as Hgx.
      pose proof (tail_gt d k x Lr' HSr Hgx) as Hgt.
      eexists _, (Lb ++ Lr'), true. split; [exact E|].
      rewrite Em. cbn [map]. rewrite (s_get_skip c) by (apply ltk_map; exact Hb).
      rewrite (s_get_hit_e c) by exact Hx.
      split; [reflexivity|]. split.
      + split; [apply (del_inv c cok p pok d A L I x Lb Lr' EL nd' S)|]. split.
        * unfold abs. cbn [nodeData kvData].
          rewrite (del_abs c p pok d A L I x Lb Lr' EL nd' S).
          symmetry. apply (s_remove_split c cok).
          -- apply ltk_map. exact Hb.
          -- exact Hx.
          -- apply Forall_map. exact Hgt.
        * exact Eused.
      + intros y Hy Hne. cbn [nodeData kvData].
        assert (Hyx : y <> x).
        { intros ->. apply Hne. apply (cmp_eq c cok). exact Hx. }
        split.
        * rewrite EL in Hy. apply in_app_or in Hy. apply in_or_app.
          destruct Hy as [Hy|[Hy|Hy]]; [left; auto|congruence|right; auto].
        * pose proof (keyof_same tmax (nodeData d) nd' (kvData d) [] (maxHeight d) (maxHeight d) A
                        (inv_nodes _ _ _ _ _ I) (del_same_fields c p pok d A L I x Lb Lr' EL nd' S)) as H.
          rewrite app_nil_r in H. apply H.
          -- destruct S as (S1 & _). lia.
          -- lia.
          -- apply (inv_sub _ _ _ _ _ I). exact Hy.
    - pose proof (all_gt_of_inexact d k Lr HSr Hr Hex) as Hgt.
      destruct (findGE_ok c cok p pok d A L I k true Lb Lr (op_fuel d) EL Hb Hr Hfuel) as (pn & E & _).
      exists d, L, false. split.
      + unfold mdb_delete. rewrite E. cbn [bind]. rewrite Hex. reflexivity.
      + rewrite Em. rewrite (s_get_skip c) by (apply ltk_map; exact Hb).
        rewrite (s_get_miss c cok) by (apply Forall_map; exact Hgt). auto.
  Qed.

  (* ---- reads ---- *)
  Lemma read_node_ok d A L x :
    Inv c tmax d A L -> In x L ->
    let nd := nodeData d in
    aget nd x = Ok (rd nd x) /\ aget nd (x + 1) = Ok (rd nd (x + 1)) /\ aget nd (x + 2) = Ok (rd nd (x + 2)) /\
    bslice (kvData d) (rd nd x) (rd nd x + rd nd (x + 1)) = Ok (keyof nd (kvData d) x) /\
    bslice (kvData d) (rd nd x + rd nd (x + 1)) (rd nd x + rd nd (x + 1) + rd nd (x + 2)) = Ok (valof nd (kvData d) x).
  Proof.
    intros I Hx. cbn zeta.
    destruct (inv_node_L c tmax d A L I x Hx) as (H1 & H2 & H3 & H4 & H5).
    repeat split; try (apply aget_ok; lia); apply bslice_ok; lia.
  Qed.

  Lemma get_ok d A L m used k :
    rep d A L m used -> mdb_get c p (op_fuel d) d k = Ok (s_get c k m).
  Proof.
    intros (I & Eabs & Eused).
    pose proof (op_fuel_ok d A L I) as Hfuel.
    destruct (split_at c cok d L k (inv_sorted _ _ _ _ _ I)) as (Lb & Lr & EL & Hb & Hr).
    pose proof (sorted_tail d A L Lb Lr I EL) as HSr.
    destruct (findGE_ok c cok p pok d A L I k false Lb Lr (op_fuel d) EL Hb Hr Hfuel) as (pn & E & _).
    unfold mdb_get. rewrite E. cbn [bind].
    rewrite <- Eabs. unfold abs. rewrite EL, map_app.
    rewrite (s_get_skip c) by (apply ltk_map; exact Hb).
    destruct (exact_of c d k Lr) eqn:Hex.
    - destruct (exact_head d k Lr Hex) as (x & Lr' & -> & Hx). cbn [hd map].
      rewrite (s_get_hit_e c) by exact Hx.
      assert (HxL : In x L) by (rewrite EL; apply in_or_app; right; left; reflexivity).
      destruct (read_node_ok d A L x I HxL) as (R0 & R1 & R2 & _ & RV).
      rewrite (Ekey p pok), (Eval p pok). rewrite R0. cbn [bind]. rewrite R1. cbn [bind]. rewrite R2. cbn [bind].
      rewrite RV. reflexivity.
    - rewrite (s_get_miss c cok); [reflexivity|]. apply Forall_map. apply all_gt_of_inexact; assumption.
  Qed.

  Lemma contains_ok d A L m used k :
    rep d A L m used ->
    mdb_contains c p (op_fuel d) d k = Ok (match s_get c k m with Some _ => true | None => false end).
  Proof.
    intros (I & Eabs & Eused).
    pose proof (op_fuel_ok d A L I) as Hfuel.
    destruct (split_at c cok d L k (inv_sorted _ _ _ _ _ I)) as (Lb & Lr & EL & Hb & Hr).
    pose proof (sorted_tail d A L Lb Lr I EL) as HSr.
    destruct (findGE_ok c cok p pok d A L I k false Lb Lr (op_fuel d) EL Hb Hr Hfuel) as (pn & E & _).
    unfold mdb_contains. rewrite E. cbn [bind].
    rewrite <- Eabs. unfold abs. rewrite EL, map_app.
    rewrite (s_get_skip c) by (apply ltk_map; exact Hb).
    destruct (exact_of c d k Lr) eqn:Hex.
    - destruct (exact_head d k Lr Hex) as (x & Lr' & -> & Hx). cbn [map].
      rewrite (s_get_hit_e c) by exact Hx. reflexivity.
    - rewrite (s_get_miss c cok); [reflexivity|]. apply Forall_map. apply all_gt_of_inexact; assumption.
  Qed.

  Lemma find_ok d A L m used k :
    rep d A L m used -> mdb_find c p (op_fuel d) d k = Ok (s_find_ge c k m).
  Proof.
    intros (I & Eabs & Eused).
    pose proof (op_fuel_ok d A L I) as Hfuel.
    destruct (split_at c cok d L k (inv_sorted _ _ _ _ _ I)) as (Lb & Lr & EL & Hb & Hr).
    destruct (findGE_ok c cok p pok d A L I k false Lb Lr (op_fuel d) EL Hb Hr Hfuel) as (pn & E & _).
    unfold mdb_find. rewrite E. cbn [bind].
    rewrite <- Eabs. unfold abs. rewrite EL, map_app.
    rewrite (s_find_ge_split c) by (first [apply ltk_map; exact Hb|apply gek_map; exact Hr]).
    destruct Lr as [|x Lr']; cbn [hd map hd_error]; [reflexivity|].
    assert (HxL : In x L) by (rewrite EL; apply in_or_app; right; left; reflexivity).
    pose proof (inv_nonzero c tmax d A L I x (inv_sub _ _ _ _ _ I x HxL)) as Hx0.
    replace (x =? 0) with false by lia.
    destruct (read_node_ok d A L x I HxL) as (R0 & R1 & R2 & RK & RV).
    rewrite (Ekey p pok), (Eval p pok). rewrite R0. cbn [bind]. rewrite R1. cbn [bind].
    rewrite RK. cbn [bind]. rewrite R2. cbn [bind]. rewrite RV. reflexivity.
  Qed.

  Lemma len_ok d A L m used : rep d A L m used -> mdb_len d = s_len m.
  Proof.
    intros (I & Eabs & _). unfold mdb_len. rewrite (inv_n _ _ _ _ _ I), <- Eabs. unfold abs.
    symmetry. apply s_len_map.
  Qed.

  Lemma size_ok d A L m used : rep d A L m used -> mdb_size d = s_size m.
  Proof.
    intros (I & Eabs & _). unfold mdb_size. rewrite (inv_size _ _ _ _ _ I), <- Eabs. unfold abs.
    pose proof (inv_node_L c tmax d A L I) as HL. clear Eabs.
    induction L as [|x L IH] in HL |- *; [reflexivity|].
    cbn [map sum_kv s_size kvof].
    destruct (HL x (or_introl eq_refl)) as (H1 & H2 & H3 & H4 & H5).
    unfold keyof at 1, valof at 1. rewrite !sl_len by lia.
    rewrite IH by (intros y Hy; apply HL; right; exact Hy).
    unfold kvof. lia.
  Qed.

  Lemma used_ok d A L m used : rep d A L m used -> mdb_used d = used.
  Proof. intros (_ & _ & E). exact E. Qed.

  (* ---- Reset and New ---- *)
  Lemma reset_links_spec :
    forall cnt i nd,
      4 + i + N.of_nat cnt <= len nd ->
      exists nd', reset_links p cnt i nd = Ok nd' /\ len nd' = len nd /\
                  (forall j, i <= j < i + N.of_nat cnt -> rd nd' (4 + j) = 0) /\
                  (forall s, ~ (4 + i <= s < 4 + i + N.of_nat cnt) -> rd nd' s = rd nd s).
  Proof.
    induction cnt as [|cnt IH]; intros i nd H.
    - exists nd. cbn [reset_links]. split; [reflexivity|]. split; [reflexivity|]. split; [intros j Hj; lia|auto].
    - cbn [reset_links]. rewrite (Enext p pok). rewrite (aset_ok nd (4 + i) 0) by lia. cbn [bind].
      destruct (IH (i + 1) (upd nd (4 + i) 0)) as (nd' & E & Hl & Hz & Hs).
      + rewrite len_upd by lia. lia.
      + exists nd'. split; [exact E|]. split; [rewrite Hl; apply len_upd; lia|]. split.
        * intros j Hj. destruct (N.eq_dec j i) as [->|Hne].
          -- rewrite Hs by lia. apply rd_upd_same. lia.
          -- apply Hz. lia.
        * intros s Hsn. rewrite Hs by lia. apply rd_upd_other; lia.
  Qed.

  Lemma empty_rep nd :
    len nd = 4 + tmax -> (forall j, j < tmax -> rd nd (4 + j) = 0) ->
    rep {| kvData := []; nodeData := nd; maxHeight := 1; nEnt := 0%Z; kvSize := 0%Z |} [] [] [] 0.
  Proof.
    intros Hl Hz. pose proof (tmax_pos p pok) as Ht. split; [|split; reflexivity].
    constructor; cbn [nodeData kvData maxHeight nEnt kvSize]; try reflexivity.
    - lia.
    - lia.
    - constructor.
    - intros x y [].
    - intros x [].
    - intros i Hi. cbn. unfold nx. replace (0 + 4 + i) with (4 + i) by lia. apply Hz. exact Hi.
  Qed.

  Lemma reset_ok d :
    4 + tmax <= len (nodeData d) ->
    exists d', mdb_reset p d = Ok d' /\ rep d' [] [] [] 0.
  Proof.
    intros Hlen. pose proof (tmax_pos p pok) as Ht.
    unfold mdb_reset. rewrite (Enext p pok), (Ekv p pok), (Ekey p pok), (Eval p pok), (Ehgt p pok).
    replace (len (nodeData d) <? 4 + tmax) with false by lia.
    set (nd0 := firstn (N.to_nat (4 + tmax)) (nodeData d)).
    assert (Hl0 : len nd0 = 4 + tmax).
    { unfold nd0. rewrite len_firstn; lia. }
    rewrite (aset_ok nd0 0 0) by lia. cbn [bind].
    rewrite (aset_ok _ 1 0) by (rewrite len_upd; lia). cbn [bind].
    rewrite (aset_ok _ 2 0) by (rewrite !len_upd; try lia; rewrite len_upd; lia). cbn [bind].
    set (nd3 := upd (upd (upd nd0 0 0) 1 0) 2 0).
    assert (Hl3 : len nd3 = 4 + tmax).
    { unfold nd3. rewrite !len_upd; try lia; rewrite !len_upd; try lia. rewrite len_upd; lia. }
    rewrite (aset_ok nd3 3 tmax) by lia. cbn [bind].
    destruct (reset_links_spec (N.to_nat tmax) 0 (upd nd3 3 tmax)) as (nd5 & E & Hl5 & Hz & _).
    - rewrite len_upd by lia. lia.
    - rewrite E. cbn [bind]. eexists. split; [reflexivity|]. apply empty_rep.
      + rewrite Hl5, len_upd by lia. exact Hl3.
      + intros j Hj. apply Hz. lia.
  Qed.

  Lemma new_ok : exists d, mdb_new p = Ok d /\ rep d [] [] [] 0.
  Proof.
    pose proof (tmax_pos p pok) as Ht. unfold mdb_new. rewrite (Ehgt p pok).
    rewrite aset_ok by (rewrite len_repeat; lia). cbn [bind].
    eexists. split; [reflexivity|]. apply empty_rep.
    - rewrite len_upd by (rewrite len_repeat; lia). rewrite len_repeat. lia.
    - intros j Hj. rewrite rd_upd_other by (first [rewrite len_repeat; lia|lia]). apply rd_repeat0.
  Qed.
End Ops.
