(* Mem/MemFind.v — correctness of the three searches of the array model under the
   representation invariant: findGE (with and without prevNode), findLT, findLast; fuel
   n + maxHeight suffices and no array access is out of range (proof file). *)
From GL Require Import Base.OrderProofs Mem.MemDB Mem.ArrayLemmas Mem.ListLemmas Mem.MemInv.
From Coq Require Import Lia ZifyBool.
Open Scope N_scope.

Section Find.
  Variable c : comparer.
  Hypothesis cok : comparer_ok c.
  Variable p : mparams.
  Hypothesis pok : mparams_ok p.

  Let tmax := tMaxHeight p.
  Lemma Ekv : nKV p = 0. Proof. apply pok. Qed.
  Lemma Ekey : nKey p = 1. Proof. apply pok. Qed.
  Lemma Eval : nVal p = 2. Proof. apply pok. Qed.
  Lemma Ehgt : nHeight p = 3. Proof. apply pok. Qed.
  Lemma Enext : nNext p = 4. Proof. apply pok. Qed.
  Lemma tmax_pos : 1 <= tmax. Proof. apply pok. Qed.

  Definition ltk (d : db) (k : bytes) (x : N) : Prop := lt c (keyof (nodeData d) (kvData d) x) k.
  Definition gek (d : db) (k : bytes) (x : N) : Prop := cmp c (keyof (nodeData d) (kvData d) x) k <> Lt.

  (* the live list cut at k *)
  Lemma split_at d L k :
    key_sorted c (nodeData d) (kvData d) L ->
    exists Lb Lr, L = Lb ++ Lr /\ Forall (ltk d k) Lb /\ Forall (gek d k) Lr.
  Proof.
    induction L as [|x L IH]; intros HS.
    - exists [], []. auto.
    - destruct HS as (H1 & H2).
      destruct (cmp c (keyof (nodeData d) (kvData d) x) k) eqn:E.
      + exists [], (x :: L). repeat split; auto. constructor; [unfold gek; congruence|].
        rewrite Forall_forall in *. intros y Hy. unfold gek.
        apply (cmp_eq c cok) in E. rewrite <- E.
        intros Hlt. apply (cmp_lt_gt c cok) in Hlt. specialize (H1 y Hy). unfold lt in H1. congruence.
      + destruct (IH H2) as (Lb & Lr & -> & Hb & Hr). exists (x :: Lb), Lr. repeat split; auto.
      + exists [], (x :: L). repeat split; auto. constructor; [unfold gek; congruence|].
        rewrite Forall_forall in *. intros y Hy. unfold gek. intros Hlt.
        apply (cmp_gt_lt c cok) in E.
        pose proof (OrderProofs.lt_trans c cok _ _ _ (H1 y Hy) Hlt) as H3.
        pose proof (OrderProofs.lt_trans c cok _ _ _ E H3) as H4. exact (OrderProofs.lt_irrefl c cok _ H4).
  Qed.

  Definition exact_of (d : db) (k : bytes) (Lr : list N) : bool :=
    match Lr with
    | x :: _ => is_eq (cmp c (keyof (nodeData d) (kvData d) x) k)
    | [] => false
    end.

  Section WithInv.
    Variables (d : db) (A L : list N).
    Hypothesis I : Inv c tmax d A L.
    Local Notation nd := (nodeData d).
    Local Notation kv := (kvData d).

    Lemma node_key_ok x : In x A -> node_key p d x = Ok (keyof nd kv x).
    Proof.
      intros Hx. destruct (inv_node_A c tmax d A L I x Hx) as (H1 & H2 & H3 & H4 & H5).
      unfold node_key. rewrite Ekey.
      rewrite (aget_ok (nodeData d) x) by lia. cbn [bind].
      rewrite (aget_ok (nodeData d) (x + 1)) by lia. cbn [bind].
      rewrite bslice_ok; [reflexivity|lia|lia].
    Qed.

    (* where the search stands: node is the last element of the prefix Lb1 (or the head) *)
    Lemma inv_pos Lb1 rest h node :
      L = Lb1 ++ rest -> node = last Lb1 0 -> (Lb1 <> [] -> h < hgt nd node) -> h < tmax ->
      path nd h node (lvl nd h rest) 0 /\ last (lvl nd h Lb1) 0 = node /\
      node + 4 + h < len nd /\ (Lb1 <> [] -> In node L).
    Proof.
      intros EL En Hh Ht.
      assert (Hlast : last (lvl nd h Lb1) 0 = node).
      { destruct (list_snoc_cases Lb1) as [->|(l' & x & ->)].
        - cbn. now subst node.
        - rewrite last_snoc in En. subst node. apply last_lvl_snoc. apply Hh.
          destruct l'; discriminate. }
      pose proof (inv_chain _ _ _ _ _ I h Ht) as Hc.
      rewrite EL, lvl_app in Hc. apply path_app in Hc as (_ & Hc). rewrite Hlast in Hc.
      split; [exact Hc|]. split; [exact Hlast|].
      destruct (list_snoc_cases Lb1) as [->|(l' & x & ->)].
      - cbn in En. subst node. split; [|congruence].
        pose proof (inv_head _ _ _ _ _ I). lia.
      - rewrite last_snoc in En. subst node.
        assert (HxL : In x L) by (rewrite EL; apply in_or_app; left; apply in_or_app; right; left; reflexivity).
        split; [|auto].
        destruct (inv_node_L c tmax d A L I x HxL) as (H1 & H2 & H3 & H4 & H5).
        specialize (Hh ltac:(destruct l'; discriminate)). lia.
    Qed.

    Lemma eq_is_head k Lr x :
      key_sorted c nd kv Lr -> Forall (gek d k) Lr -> In x Lr ->
      cmp c (keyof nd kv x) k = Eq -> exists t, Lr = x :: t.
    Proof.
      intros HS HG Hx E. destruct Lr as [|z t]; [destruct Hx|].
      destruct Hx as [->|Hx]; [eauto|]. exfalso.
      destruct HS as (H1 & _). rewrite Forall_forall in H1. specialize (H1 x Hx).
      apply (cmp_eq c cok) in E. inversion HG; subst. apply H2. unfold gek, lt in *. exact H1.
    Qed.

    Lemma findGE_loop_ok k prev Lb Lr :
      L = Lb ++ Lr -> Forall (ltk d k) Lb -> Forall (gek d k) Lr ->
      forall fuel Lb1 Lb2 h pn node,
        Lb = Lb1 ++ Lb2 -> node = last Lb1 0 -> (Lb1 <> [] -> h < hgt nd node) ->
        h < maxHeight d -> len pn = tmax ->
        (length Lb2 + N.to_nat h < fuel)%nat ->
        exists pn',
          findGE_loop c p fuel d k prev pn node h = Ok (hd 0 Lr, exact_of d k Lr, pn') /\
          len pn' = tmax /\
          (prev = true ->
           (forall j, j <= h -> rd pn' j = last (lvl nd j Lb) 0) /\
           (forall j, h < j -> rd pn' j = rd pn j)).
    Proof.
      intros EL Hb Hr.
      assert (HsL : key_sorted c nd kv L) by apply (inv_sorted _ _ _ _ _ I).
      assert (HsLr : key_sorted c nd kv Lr).
      { rewrite EL in HsL. apply sorted_app in HsL. tauto. }
      destruct (inv_mh _ _ _ _ _ I) as (Hmh1 & Hmh2).
      induction fuel as [|fuel IH]; intros Lb1 Lb2 h pn node ELb En Hh Hhm Hpn Hfuel; [lia|].
      assert (Ht : h < tmax) by lia.
      assert (EL' : L = Lb1 ++ (Lb2 ++ Lr)) by (rewrite EL, ELb, app_assoc; reflexivity).
      destruct (inv_pos Lb1 (Lb2 ++ Lr) h node EL' En Hh Ht) as (Hpath & Hlast & Hbound & HinL).
      cbn [findGE_loop]. rewrite Enext.
      rewrite (aget_ok (nodeData d) (node + 4 + h)) by exact Hbound. cbn [bind].
      change (rd (nodeData d) (node + 4 + h)) with (nx nd node h).
      rewrite (path_hd _ _ _ _ _ Hpath). rewrite lvl_app.
      destruct (lvl nd h Lb2) as [|y r] eqn:ELv.
      - (* nothing more below k on this level: go down or stop *)
        cbn [app].
        assert (HlastLb : last (lvl nd h Lb) 0 = node).
        { rewrite ELb, lvl_app, ELv, app_nil_r. exact Hlast. }
        set (next := hd 0 (lvl nd h Lr)).
        assert (Hnext : next = 0 /\ lvl nd h Lr = [] \/
                        next <> 0 /\ In next Lr /\ In next A /\ exists r', lvl nd h Lr = next :: r').
        { subst next. destruct (lvl nd h Lr) as [|z r'] eqn:E; [left; auto|right].
          assert (Hz : In z (lvl nd h Lr)) by (rewrite E; left; reflexivity).
          apply lvl_incl in Hz as (Hz & _). cbn [hd].
          assert (HzA : In z A).
          { apply (inv_sub _ _ _ _ _ I). rewrite EL. apply in_or_app. right. exact Hz. }
          repeat split; eauto. exact (inv_nonzero c tmax d A L I z HzA). }
        assert (HLrh : lvl nd 0 Lr = Lr).
        { apply lvl0. apply Forall_forall. intros x Hx.
          destruct (inv_node_L c tmax d A L I x) as (_ & H & _); [|exact H].
          rewrite EL. apply in_or_app. right. exact Hx. }
        assert (Hr' : exists r0,
          (if next =? 0 then Ok Gt else k0 <- node_key p d next;; Ok (cmp c k0 k)) = Ok r0 /\ r0 <> Lt /\
          (r0 = Eq -> hd 0 Lr = next /\ exact_of d k Lr = true) /\
          (h = 0 -> hd 0 Lr = next /\ exact_of d k Lr = is_eq r0)).
        { destruct Hnext as [(E0 & Enil)|(Hn0 & HnLr & HnA & r' & Er')].
          - rewrite E0. cbn. exists Gt. split; [reflexivity|]. split; [congruence|]. split; [congruence|].
            intros ->. rewrite HLrh in Enil. rewrite Enil. cbn. split; reflexivity.
          - replace (next =? 0) with false by lia.
            rewrite (node_key_ok next HnA). cbn [bind].
            exists (cmp c (keyof nd kv next) k).
            assert (Hge : gek d k next) by (exact (proj1 (Forall_forall _ _) Hr next HnLr)).
            split; [reflexivity|]. split; [exact Hge|]. split.
            + intros E. destruct (eq_is_head k Lr next HsLr Hr HnLr E) as (t & Et).
              rewrite Et. cbn. rewrite E. split; reflexivity.
            + intros ->. rewrite HLrh in Er'. rewrite Er'. cbn. split; reflexivity. }
        destruct Hr' as (r0 & -> & Hr0 & HEq & Hh0). cbn [bind].
        assert (Hset : h < len pn) by lia.
        (* the common tail after the comparison *)
        assert (Htail : exists pn',
          (pn1 <- (if prev then aset pn h node else Ok pn);;
           (if negb prev && is_eq r0 then Ok (next, true, pn1)
            else if h =? 0 then Ok (next, is_eq r0, pn1)
            else findGE_loop c p fuel d k prev pn1 node (h - 1)))
          = Ok (hd 0 Lr, exact_of d k Lr, pn') /\ len pn' = tmax /\
          (prev = true ->
           (forall j, j <= h -> rd pn' j = last (lvl nd j Lb) 0) /\
           (forall j, h < j -> rd pn' j = rd pn j))).
        { destruct prev.
          - (* prevNode is recorded *)
            rewrite (aset_ok pn h node Hset). cbn [bind negb andb].
            destruct (h =? 0) eqn:Eh0.
            + assert (h = 0) by lia. destruct (Hh0 H) as (E1 & E2). rewrite E1, E2.
              eexists. split; [reflexivity|]. split; [rewrite len_upd; lia|]. intros _. split.
              * intros j Hj. assert (j = h) by lia. subst j.
                rewrite rd_upd_same by exact Hset. symmetry. exact HlastLb.
              * intros j Hj. apply rd_upd_other; [exact Hset|lia].
            + destruct (IH Lb1 Lb2 (h - 1) (upd pn h node) node ELb En) as (pn' & E & Hl & Hp).
              * intros Hne. specialize (Hh Hne). lia.
              * lia.
              * rewrite len_upd; lia.
              * lia.
              * exists pn'. split; [exact E|]. split; [exact Hl|]. intros _.
                destruct (Hp eq_refl) as (Hp1 & Hp2). split.
                -- intros j Hj. destruct (N.eq_dec j h) as [->|Hne].
                   ++ rewrite Hp2 by lia. rewrite rd_upd_same by exact Hset. symmetry. exact HlastLb.
                   ++ apply Hp1. lia.
                -- intros j Hj. rewrite Hp2 by lia. apply rd_upd_other; [exact Hset|lia].
          - cbn [bind negb andb].
            destruct (is_eq r0) eqn:Eis.
            + assert (r0 = Eq) by (destruct r0; cbn in Eis; congruence).
              destruct (HEq H) as (E1 & E2). rewrite E1, E2.
              exists pn. split; [reflexivity|split; [exact Hpn|discriminate]].
            + destruct (h =? 0) eqn:Eh0.
              * assert (h = 0) by lia. destruct (Hh0 H) as (E1 & E2). rewrite E1, E2.
                exists pn. split; [reflexivity|]. split; [exact Hpn|discriminate].
              * destruct (IH Lb1 Lb2 (h - 1) pn node ELb En) as (pn' & E & Hl & Hp).
                -- intros Hne. specialize (Hh Hne). lia.
                -- lia.
                -- exact Hpn.
                -- lia.
                -- exists pn'. split; [exact E|]. split; [exact Hl|discriminate]. }
        destruct Htail as (pn' & E & Hl & Hp).
        exists pn'. split; [|split; [exact Hl|exact Hp]].
        destruct r0; try congruence; exact E.
      - (* the next node on this level is still below k: move right *)
        cbn [app hd].
        destruct (filter_hd_split _ _ _ _ ELv) as (l1 & l2 & ELb2 & Hl1 & Hl2 & Hfy).
        assert (HyLb : In y Lb).
        { rewrite ELb, ELb2. apply in_or_app. right. apply in_or_app. right. left. reflexivity. }
        assert (HyA : In y A).
        { apply (inv_sub _ _ _ _ _ I). rewrite EL. apply in_or_app. left. exact HyLb. }
        pose proof (inv_nonzero c tmax d A L I y HyA) as Hy0.
        replace (y =? 0) with false by lia.
        rewrite (node_key_ok y HyA). cbn [bind].
        assert (Hlt : cmp c (keyof nd kv y) k = Lt).
        { exact (proj1 (Forall_forall _ _) Hb y HyLb). }
        rewrite Hlt.
        apply (IH (Lb1 ++ l1 ++ [y]) l2 h pn y).
        + rewrite ELb, ELb2. rewrite <- !app_assoc. reflexivity.
        + rewrite app_assoc, last_snoc. reflexivity.
        + intros _. lia.
        + exact Hhm.
        + exact Hpn.
        + rewrite ELb2, app_length in Hfuel. cbn [length] in Hfuel. lia.
    Qed.

    Lemma lvl_above_mh j l : incl l L -> maxHeight d <= j -> lvl nd j l = [].
    Proof.
      intros Hl Hj. apply lvl_high. apply Forall_forall. intros x Hx.
      destruct (inv_node_L c tmax d A L I x (Hl x Hx)) as (_ & _ & H & _). lia.
    Qed.

    Lemma findGE_ok k prev Lb Lr fuel :
      L = Lb ++ Lr -> Forall (ltk d k) Lb -> Forall (gek d k) Lr ->
      (length L + N.to_nat (maxHeight d) <= fuel)%nat ->
      exists pn',
        findGE c p fuel d k prev (prev_init p) = Ok (hd 0 Lr, exact_of d k Lr, pn') /\
        len pn' = tmax /\
        (prev = true -> forall j, j < tmax -> rd pn' j = last (lvl nd j Lb) 0).
    Proof.
      intros EL Hb Hr Hfuel. destruct (inv_mh _ _ _ _ _ I) as (Hmh1 & Hmh2).
      unfold findGE.
      destruct (findGE_loop_ok k prev Lb Lr EL Hb Hr fuel [] Lb (maxHeight d - 1) (prev_init p) 0)
        as (pn' & E & Hl & Hp).
      - reflexivity.
      - reflexivity.
      - congruence.
      - lia.
      - unfold prev_init. rewrite len_repeat. fold tmax. lia.
      - rewrite EL, app_length in Hfuel. lia.
      - exists pn'. split; [exact E|]. split; [exact Hl|]. intros Hprev j Hj.
        destruct (Hp Hprev) as (Hp1 & Hp2).
        destruct (N.le_gt_cases j (maxHeight d - 1)) as [Hle|Hgt].
        + apply Hp1. exact Hle.
        + rewrite Hp2 by exact Hgt. unfold prev_init. rewrite rd_repeat0.
          rewrite lvl_above_mh; [reflexivity| |lia].
          rewrite EL. intros x Hx. apply in_or_app. left. exact Hx.
    Qed.

    Lemma findLT_loop_ok k Lb Lr :
      L = Lb ++ Lr -> Forall (ltk d k) Lb -> Forall (gek d k) Lr ->
      forall fuel Lb1 Lb2 h node,
        Lb = Lb1 ++ Lb2 -> node = last Lb1 0 -> (Lb1 <> [] -> h < hgt nd node) ->
        h < maxHeight d ->
        (length Lb2 + N.to_nat h < fuel)%nat ->
        findLT_loop c p fuel d k node h = Ok (last Lb 0).
    Proof.
      intros EL Hb Hr.
      destruct (inv_mh _ _ _ _ _ I) as (Hmh1 & Hmh2).
      pose proof (inv_head _ _ _ _ _ I) as Hhead.
      induction fuel as [|fuel IH]; intros Lb1 Lb2 h node ELb En Hh Hhm Hfuel; [lia|].
      assert (Ht : h < tmax) by lia.
      assert (EL' : L = Lb1 ++ (Lb2 ++ Lr)) by (rewrite EL, ELb, app_assoc; reflexivity).
      destruct (inv_pos Lb1 (Lb2 ++ Lr) h node EL' En Hh Ht) as (Hpath & Hlast & Hbound & HinL).
      cbn [findLT_loop]. rewrite Enext, Ekey.
      rewrite (aget_ok (nodeData d) (node + 4 + h)) by exact Hbound. cbn [bind].
      change (rd (nodeData d) (node + 4 + h)) with (nx nd node h).
      rewrite (path_hd _ _ _ _ _ Hpath). rewrite lvl_app.
      destruct (lvl nd h Lb2) as [|y r] eqn:ELv.
      - cbn [app]. set (next := hd 0 (lvl nd h Lr)).
        assert (Hnext : next = 0 \/ next <> 0 /\ In next Lr /\ In next A).
        { subst next. destruct (lvl nd h Lr) as [|z r'] eqn:E; [left; reflexivity|right].
          assert (Hz : In z (lvl nd h Lr)) by (rewrite E; left; reflexivity).
          apply lvl_incl in Hz as (Hz & _). cbn [hd].
          assert (HzA : In z A).
          { apply (inv_sub _ _ _ _ _ I). rewrite EL. apply in_or_app. right. exact Hz. }
          repeat split; auto. exact (inv_nonzero c tmax d A L I z HzA). }
        assert (Hstop : exists o,
          aget nd next = Ok o /\
          (if next =? 0 then Ok true
           else kl <- aget nd (next + 1);; k0 <- bslice kv o (o + kl);;
                Ok (negb (match cmp c k0 k with Lt => true | _ => false end))) = Ok true).
        { destruct Hnext as [E0|(Hn0 & HnLr & HnA)].
          - rewrite E0. exists (rd nd 0). split; [apply aget_ok; lia|reflexivity].
          - replace (next =? 0) with false by lia.
            pose proof (node_key_ok next HnA) as HK. unfold node_key in HK. rewrite Ekey in HK.
            destruct (inv_node_A c tmax d A L I next HnA) as (H1 & H2 & H3 & H4 & H5).
            exists (rd nd next). split; [apply aget_ok; lia|].
            rewrite (aget_ok nd next) in HK by lia. cbn [bind] in HK.
            destruct (aget nd (next + 1)) as [kl| |]; cbn [bind] in *; try discriminate.
            rewrite HK. cbn [bind].
            assert (Hge : gek d k next) by (exact (proj1 (Forall_forall _ _) Hr next HnLr)).
            unfold gek in Hge. destruct (cmp c (keyof nd kv next) k); try congruence; reflexivity. }
        destruct Hstop as (o & -> & Hstop). cbn [bind]. rewrite Hstop. cbn [bind].
        destruct (h =? 0) eqn:Eh0.
        + assert (h = 0) by lia. subst h.
          rewrite (lvl0 nd Lb2) in ELv.
          * subst Lb2. rewrite app_nil_r in ELb. subst Lb1. congruence.
          * apply Forall_forall. intros x Hx.
            destruct (inv_node_L c tmax d A L I x) as (_ & H & _); [|exact H].
            rewrite EL, ELb. apply in_or_app. left. apply in_or_app. right. exact Hx.
        + apply (IH Lb1 Lb2 (h - 1) node ELb En).
          * intros Hne. specialize (Hh Hne). lia.
          * lia.
          * lia.
      - cbn [app hd].
        destruct (filter_hd_split _ _ _ _ ELv) as (l1 & l2 & ELb2 & Hl1 & Hl2 & Hfy).
        assert (HyLb : In y Lb).
        { rewrite ELb, ELb2. apply in_or_app. right. apply in_or_app. right. left. reflexivity. }
        assert (HyA : In y A).
        { apply (inv_sub _ _ _ _ _ I). rewrite EL. apply in_or_app. left. exact HyLb. }
        pose proof (inv_nonzero c tmax d A L I y HyA) as Hy0.
        replace (y =? 0) with false by lia.
        pose proof (node_key_ok y HyA) as HK. unfold node_key in HK. rewrite Ekey in HK.
        destruct (inv_node_A c tmax d A L I y HyA) as (H1 & H2 & H3 & H4 & H5).
        rewrite (aget_ok nd y) in * by lia. cbn [bind] in *.
        destruct (aget nd (y + 1)) as [kl| |]; cbn [bind] in *; try discriminate.
        rewrite HK. cbn [bind].
        assert (Hlt : cmp c (keyof nd kv y) k = Lt).
        { exact (proj1 (Forall_forall _ _) Hb y HyLb). }
        rewrite Hlt. cbn [negb].
        apply (IH (Lb1 ++ l1 ++ [y]) l2 h y).
        + rewrite ELb, ELb2. rewrite <- !app_assoc. reflexivity.
        + rewrite app_assoc, last_snoc. reflexivity.
        + intros _. lia.
        + exact Hhm.
        + rewrite ELb2, app_length in Hfuel. cbn [length] in Hfuel. lia.
    Qed.

    Lemma findLT_ok k Lb Lr fuel :
      L = Lb ++ Lr -> Forall (ltk d k) Lb -> Forall (gek d k) Lr ->
      (length L + N.to_nat (maxHeight d) <= fuel)%nat ->
      findLT c p fuel d k = Ok (last Lb 0).
    Proof.
      intros EL Hb Hr Hfuel. destruct (inv_mh _ _ _ _ _ I) as (Hmh1 & Hmh2).
      unfold findLT.
      apply (findLT_loop_ok k Lb Lr EL Hb Hr fuel [] Lb (maxHeight d - 1) 0); auto.
      - congruence.
      - lia.
      - rewrite EL, app_length in Hfuel. lia.
    Qed.

    Lemma findLast_loop_ok :
      forall fuel Lb1 Lb2 h node,
        L = Lb1 ++ Lb2 -> node = last Lb1 0 -> (Lb1 <> [] -> h < hgt nd node) ->
        h < maxHeight d ->
        (length Lb2 + N.to_nat h < fuel)%nat ->
        findLast_loop p fuel d node h = Ok (last L 0).
    Proof.
      destruct (inv_mh _ _ _ _ _ I) as (Hmh1 & Hmh2).
      induction fuel as [|fuel IH]; intros Lb1 Lb2 h node EL En Hh Hhm Hfuel; [lia|].
      assert (Ht : h < tmax) by lia.
      destruct (inv_pos Lb1 Lb2 h node EL En Hh Ht) as (Hpath & Hlast & Hbound & HinL).
      cbn [findLast_loop]. rewrite Enext.
      rewrite (aget_ok (nodeData d) (node + 4 + h)) by exact Hbound. cbn [bind].
      change (rd (nodeData d) (node + 4 + h)) with (nx nd node h).
      rewrite (path_hd _ _ _ _ _ Hpath).
      destruct (lvl nd h Lb2) as [|y r] eqn:ELv.
      - cbn [hd]. replace (0 =? 0) with true by reflexivity.
        destruct (h =? 0) eqn:Eh0.
        + assert (h = 0) by lia. subst h.
          rewrite (lvl0 nd Lb2) in ELv.
          * subst Lb2. rewrite app_nil_r in EL. subst Lb1. congruence.
          * apply Forall_forall. intros x Hx.
            destruct (inv_node_L c tmax d A L I x) as (_ & H & _); [|exact H].
            rewrite EL. apply in_or_app. right. exact Hx.
        + apply (IH Lb1 Lb2 (h - 1) node EL En).
          * intros Hne. specialize (Hh Hne). lia.
          * lia.
          * lia.
      - cbn [hd].
        destruct (filter_hd_split _ _ _ _ ELv) as (l1 & l2 & ELb2 & Hl1 & Hl2 & Hfy).
        assert (HyL : In y L).
        { rewrite EL, ELb2. apply in_or_app. right. apply in_or_app. right. left. reflexivity. }
        assert (HyA : In y A) by (apply (inv_sub _ _ _ _ _ I); exact HyL).
        pose proof (inv_nonzero c tmax d A L I y HyA) as Hy0.
        replace (y =? 0) with false by lia.
        apply (IH (Lb1 ++ l1 ++ [y]) l2 h y).
        + rewrite EL, ELb2. rewrite <- !app_assoc. reflexivity.
        + rewrite app_assoc, last_snoc. reflexivity.
        + intros _. lia.
        + exact Hhm.
        + rewrite ELb2, app_length in Hfuel. cbn [length] in Hfuel. lia.
    Qed.

    Lemma findLast_ok fuel :
      (length L + N.to_nat (maxHeight d) <= fuel)%nat ->
      findLast p fuel d = Ok (last L 0).
    Proof.
      intros Hfuel. destruct (inv_mh _ _ _ _ _ I) as (Hmh1 & Hmh2).
      unfold findLast.
      apply (findLast_loop_ok fuel [] L (maxHeight d - 1) 0); auto.
      - congruence.
      - lia.
      - lia.
    Qed.
  End WithInv.
End Find.
