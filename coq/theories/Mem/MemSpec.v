(* Mem/MemSpec.v — the reference for memdb: a sorted association list and a cursor over it.
   Model file: definitions only (proofs in Mem/MemSpecProofs.v).

   The map is a list of (key, value) kept strictly increasing in the comparer's order; every
   question is answered by a plain scan.  The cursor of an iterator with slice [Start, Limit)
   walks the visible part of the map (the entries whose key is in the slice): First/Last are
   its ends, Seek k is its first entry >= k, Next/Prev from an entry with key k are its first
   entry > k / last entry < k *in the map as it is now* (the memdb iterator is not a snapshot).
   Key() and Value() are the pair found by the last movement (later overwrites do not show).

   One behaviour of the code is deliberately outside this reference: Next on an iterator whose
   current key was deleted after the iterator reached it (the code follows the forward link
   the unlinked node kept, which may lead to a key that is no longer live).  The reference
   marks such a cursor stale and gives no answer for Next on it (spec_step = None); what the
   code guarantees there is the subject of the concurrent theorem, not of the refinement. *)
From GL Require Export Mem.MemDB.
Open Scope N_scope.

Section Spec.
  Variable c : comparer.

  Definition smap := list (bytes * bytes).

  Definition key_lt (k : bytes) (kv : bytes * bytes) : bool := ltb c (fst kv) k.    (* entry < k *)
  Definition key_ge (k : bytes) (kv : bytes * bytes) : bool := negb (ltb c (fst kv) k).
  Definition key_gt (k : bytes) (kv : bytes * bytes) : bool := ltb c k (fst kv).
  Definition key_eq (k : bytes) (kv : bytes * bytes) : bool := is_eq (cmp c (fst kv) k).

  (* insert or overwrite, keeping the order *)
  Fixpoint s_insert (k v : bytes) (m : smap) : smap :=
    match m with
    | [] => [(k, v)]
    | (k', v') :: m' =>
        match cmp c k k' with
        | Lt => (k, v) :: m
        | Eq => (k, v) :: m'
        | Gt => (k', v') :: s_insert k v m'
        end
    end.

  Definition s_remove (k : bytes) (m : smap) : smap := filter (fun kv => negb (key_eq k kv)) m.

  Definition s_get (k : bytes) (m : smap) : option bytes :=
    option_map snd (find (key_eq k) m).

  Definition s_find_ge (k : bytes) (m : smap) : option (bytes * bytes) := find (key_ge k) m.
  Definition s_find_gt (k : bytes) (m : smap) : option (bytes * bytes) := find (key_gt k) m.

  Fixpoint find_last {A} (f : A -> bool) (l : list A) : option A :=
    match l with
    | [] => None
    | x :: l' =>
        match find_last f l' with
        | Some y => Some y
        | None => if f x then Some x else None
        end
    end.

  Definition s_find_lt (k : bytes) (m : smap) : option (bytes * bytes) := find_last (key_lt k) m.

  Definition s_len (m : smap) : Z := Z.of_nat (length m).

  Fixpoint s_size (m : smap) : Z :=
    match m with
    | [] => 0%Z
    | (k, v) :: m' => (Z.of_N (len k) + Z.of_N (len v) + s_size m')%Z
    end.

  (* ---- the cursor ---- *)
  Definition in_range (sl : option range) (k : bytes) : bool :=
    match sl with
    | None => true
    | Some (st, li) =>
        (match st with Some s => negb (ltb c k s) | None => true end) &&
        (match li with Some l => ltb c k l | None => true end)
    end.

  Definition vis (sl : option range) (m : smap) : smap := filter (fun kv => in_range sl (fst kv)) m.

  Record cursor := mkcur {
    cu_slice : option range;
    cu_cur : option (bytes * bytes);
    cu_fwd : bool;
    cu_stale : bool
  }.

  Definition new_cursor (sl : option range) : cursor :=
    {| cu_slice := sl; cu_cur := None; cu_fwd := false; cu_stale := false |}.

  Definition cur_at (cu : cursor) (r : option (bytes * bytes)) (fwd : bool) : cursor :=
    {| cu_slice := cu_slice cu; cu_cur := r; cu_fwd := fwd; cu_stale := false |}.

  Definition c_first (m : smap) (cu : cursor) : cursor :=
    cur_at cu (hd_error (vis (cu_slice cu) m)) true.
  Definition c_last (m : smap) (cu : cursor) : cursor :=
    cur_at cu (find_last (fun _ => true) (vis (cu_slice cu) m)) false.
  Definition c_seek (m : smap) (cu : cursor) (k : bytes) : cursor :=
    cur_at cu (s_find_ge k (vis (cu_slice cu) m)) true.

  (* None: no answer (stale cursor) *)
  Definition c_next (m : smap) (cu : cursor) : option cursor :=
    match cu_cur cu with
    | None => Some (if negb (cu_fwd cu) then c_first m cu else cu)
    | Some (k, _) =>
        if cu_stale cu then None
        else Some (cur_at cu (s_find_gt k (vis (cu_slice cu) m)) true)
    end.

  Definition c_prev (m : smap) (cu : cursor) : cursor :=
    match cu_cur cu with
    | None => if cu_fwd cu then c_last m cu else cu
    | Some (k, _) => cur_at cu (s_find_lt k (vis (cu_slice cu) m)) false
    end.

  Definition cur_out (cu : cursor) : out :=
    match cu_cur cu with
    | Some (k, v) => RIter true true (Some k) (Some v)
    | None => RIter false false None None
    end.

  (* ---- programs ---- *)
  Definition cursors := list (N * cursor).

  Fixpoint cu_lookup (id : N) (cs : cursors) : option cursor :=
    match cs with
    | [] => None
    | (i, cu) :: r => if i =? id then Some cu else cu_lookup id r
    end.

  Fixpoint cu_store (id : N) (cu : cursor) (cs : cursors) : cursors :=
    match cs with
    | [] => [(id, cu)]
    | (i, x) :: r => if i =? id then (id, cu) :: r else (i, x) :: cu_store id cu r
    end.

  (* Delete k makes the cursors standing on k stale *)
  Definition mark_stale (k : bytes) (cs : cursors) : cursors :=
    map (fun ic : N * cursor =>
           let (i, cu) := ic in
           match cu_cur cu with
           | Some (k', _) =>
               if is_eq (cmp c k' k)
               then (i, {| cu_slice := cu_slice cu; cu_cur := cu_cur cu; cu_fwd := cu_fwd cu; cu_stale := true |})
               else (i, cu)
           | None => (i, cu)
           end) cs.

  Record sstate := { sp_map : smap; sp_used : N; sp_cur : cursors }.

  Definition sp_init : sstate := {| sp_map := []; sp_used := 0; sp_cur := [] |}.

  Definition smove (s : sstate) (id : N) (f : smap -> cursor -> option cursor) : option (sstate * out) :=
    match cu_lookup id (sp_cur s) with
    | None => Some (s, RNoIter)
    | Some cu =>
        match f (sp_map s) cu with
        | None => None
        | Some cu' =>
            Some ({| sp_map := sp_map s; sp_used := sp_used s; sp_cur := cu_store id cu' (sp_cur s) |},
                  cur_out cu')
        end
    end.

  Definition spec_step (s : sstate) (o : op) : option (sstate * out) :=
    let m := sp_map s in
    match o with
    | OPut k v _ =>
        Some ({| sp_map := s_insert k v m; sp_used := sp_used s + len k + len v; sp_cur := sp_cur s |}, RUnit)
    | ODelete k =>
        match s_get k m with
        | Some _ => Some ({| sp_map := s_remove k m; sp_used := sp_used s; sp_cur := mark_stale k (sp_cur s) |},
                          RFound true)
        | None => Some (s, RFound false)
        end
    | OGet k => Some (s, RVal (s_get k m))
    | OFind k => Some (s, RKV (s_find_ge k m))
    | OContains k => Some (s, RFound (match s_get k m with Some _ => true | None => false end))
    | OLen => Some (s, RNum (s_len m))
    | OSize => Some (s, RNum (s_size m))
    | OUsed => Some (s, RNum (Z.of_N (sp_used s)))
    | OReset => Some (sp_init, RUnit)
    | ONewIter id sl =>
        Some ({| sp_map := m; sp_used := sp_used s; sp_cur := cu_store id (new_cursor sl) (sp_cur s) |}, RUnit)
    | OFirst id => smove s id (fun m cu => Some (c_first m cu))
    | OLast id => smove s id (fun m cu => Some (c_last m cu))
    | OSeek id k => smove s id (fun m cu => Some (c_seek m cu k))
    | ONext id => smove s id c_next
    | OPrev id => smove s id (fun m cu => Some (c_prev m cu))
    end.

  Fixpoint spec_run_from (s : sstate) (ops : list op) : option (sstate * list out) :=
    match ops with
    | [] => Some (s, [])
    | o :: ops' =>
        match spec_step s o with
        | None => None
        | Some (s', r) =>
            match spec_run_from s' ops' with
            | None => None
            | Some (s'', rs) => Some (s'', r :: rs)
            end
        end
    end.

  (* None: the program asks Next of a stale cursor somewhere *)
  Definition spec_run (ops : list op) : option (list out) :=
    option_map snd (spec_run_from sp_init ops).

  (* every Put carries a height randHeight could have drawn *)
  Definition heights_ok (tmax : N) (ops : list op) : Prop :=
    Forall (fun o => match o with OPut _ _ h => 1 <= h /\ h <= tmax | _ => True end) ops.

End Spec.
