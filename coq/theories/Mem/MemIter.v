(* Mem/MemIter.v — the iterator of the array model against the reference cursor: First, Last,
   Seek, Next, Prev with any slice, under the representation invariant (proof file).
   Rit d L it cu relates a model iterator to a reference cursor: same slice and direction,
   same current pair (as found by the last movement), the pair's key inside the slice, and —
   unless the cursor is stale — the iterator's node is the live node holding that key. *)
From GL Require Import Base.OrderProofs Mem.MemDB Mem.MemSpec Mem.ArrayLemmas Mem.ListLemmas
  Mem.MemInv Mem.MemFrame Mem.MemFind Mem.MemSpecProofs Mem.MemOps.
From Coq Require Import Lia ZifyBool.
Open Scope N_scope.

Section Iter.
  Variable c : comparer.
  Hypothesis cok : comparer_ok c.
  Variable p : mparams.
  Hypothesis pok : mparams_ok p.

  Local Notation tmax := (tMaxHeight p).

  Definition Rit (d : db) (L : list N) (it : iter) (cu : cursor) : Prop :=
    it_slice it = cu_slice cu /\ it_fwd it = cu_fwd cu /\
    match cu_cur cu with
    | None => it_node it = 0 /\ it_key it = None /\ it_val it = None
    | Some (k, v) =>
        it_node it <> 0 /\ it_key it = Some k /\ it_val it = Some v /\
        in_range c (cu_slice cu) k = true /\
        (cu_stale cu = false ->
         In (it_node it) L /\ keyof (nodeData d) (kvData d) (it_node it) = k)
    end.

  Definition fill_bad (it : iter) (key : bytes) (cs cl : bool) : bool :=
    (match sl_limit it with Some l => cl && negb (ltb c key l) | None => false end) ||
    (match sl_start it with Some s => cs && ltb c key s | None => false end).

  Lemma fill_bad_limit it key : fill_bad it key false true = negb (lim_ok c (it_slice it) key).
  Proof.
    unfold fill_bad, sl_limit, sl_start, lim_ok. destruct (it_slice it) as [([s|], [l|])|]; cbn;
      rewrite ?orb_false_r; reflexivity.
  Qed.

  Lemma fill_bad_start it key : fill_bad it key true false = negb (start_ok c (it_slice it) key).
  Proof.
    unfold fill_bad, sl_limit, sl_start, start_ok. destruct (it_slice it) as [([s|], [l|])|]; cbn;
      rewrite ?negb_involutive; reflexivity.
  Qed.

  Lemma abs_sorted nd kv l : key_sorted c nd kv l -> smap_sorted c (map (kvof nd kv) l).
  Proof.
    induction l as [|x l IH]; [cbn; auto|]. intros (H1 & H2).
    cbn [map]. split; [apply Forall_map; exact H1|apply IH; exact H2].
  Qed.

  Section WithInv.
    Variables (d : db) (A L : list N).
    Hypothesis I : Inv c tmax d A L.
    Local Notation nd := (nodeData d).
    Local Notation kv := (kvData d).

    Lemma fill_zero it fwd cs cl :
      fill c p d (with_node it 0 fwd) cs cl = Ok (bail (with_node it 0 fwd), false).
    Proof. reflexivity. Qed.

    Lemma fill_node it x fwd cs cl :
      In x L ->
      fill c p d (with_node it x fwd) cs cl =
        if fill_bad it (keyof nd kv x) cs cl then Ok (bail (with_node it x fwd), false)
        else Ok ({| it_slice := it_slice it; it_node := x; it_fwd := fwd;
                    it_key := Some (keyof nd kv x); it_val := Some (valof nd kv x) |}, true).
    Proof.
      intros Hx. pose proof (inv_nonzero c tmax d A L I x (inv_sub _ _ _ _ _ I x Hx)) as Hx0.
      destruct (read_node_ok c p d A L x I Hx) as (R0 & R1 & R2 & RK & RV).
      unfold fill. cbn [it_node with_node it_slice it_fwd].
      replace (x =? 0) with false by lia.
      rewrite (Ekey p pok), (Eval p pok). rewrite R0. cbn [bind]. rewrite R1. cbn [bind]. rewrite RK. cbn [bind].
      unfold fill_bad. unfold sl_limit, sl_start. cbn [it_slice with_node].
      match goal with |- (if ?b then _ else _) = (if ?b' then _ else _) => change b' with b; destruct b end.
      - reflexivity.
      - rewrite R2. cbn [bind]. rewrite RV. reflexivity.
    Qed.

    (* landing on candidate node x after a movement *)
    Lemma land it cu x fwd cs cl r :
      it_slice it = cu_slice cu -> (x = 0 \/ In x L) ->
      r = (if x =? 0 then None
           else if fill_bad it (keyof nd kv x) cs cl then None else Some (kvof nd kv x)) ->
      (forall k v, r = Some (k, v) -> in_range c (cu_slice cu) k = true) ->
      exists it' ret,
        fill c p d (with_node it x fwd) cs cl = Ok (it', ret) /\
        Rit d L it' (cur_at cu r fwd) /\
        RIter ret (it_valid it') (it_key it') (it_val it') = cur_out (cur_at cu r fwd).
    Proof.
      intros Hsl [->|Hx] Hr Hin.
      - rewrite fill_zero. cbn in Hr. subst r. eexists _, _. split; [reflexivity|]. split.
        + unfold Rit. cbn. auto.
        + reflexivity.
      - pose proof (inv_nonzero c tmax d A L I x (inv_sub _ _ _ _ _ I x Hx)) as Hx0.
        replace (x =? 0) with false in Hr by lia.
        rewrite (fill_node it x fwd cs cl Hx).
        destruct (fill_bad it (keyof nd kv x) cs cl); subst r.
        + eexists _, _. split; [reflexivity|]. split; [unfold Rit; cbn; auto|reflexivity].
        + eexists _, _. split; [reflexivity|]. split.
          * unfold Rit.
            cbn [cur_at cu_slice cu_fwd cu_cur cu_stale it_slice it_fwd it_node it_key it_val kvof].
            split; [exact Hsl|]. split; [reflexivity|]. split; [exact Hx0|].
            split; [reflexivity|]. split; [reflexivity|]. split; [apply (Hin _ _ eq_refl)|].
            intros _. split; [exact Hx|reflexivity].
          * unfold it_valid. cbn. replace (x =? 0) with false by lia. reflexivity.
    Qed.

    (* nodes of a cut are nonzero, so hd 0 / last 0 tell whether the cut is empty *)
    Lemma hd_zero l : incl l L -> hd 0 l = 0 -> l = [].
    Proof.
      destruct l as [|x l]; [auto|]. cbn. intros Hl ->.
      exfalso. apply (inv_nonzero c tmax d A L I 0); [|reflexivity].
      apply (inv_sub _ _ _ _ _ I). apply Hl. left. reflexivity.
    Qed.

    Lemma level0_path : path nd 0 0 L 0.
    Proof.
      pose proof (inv_chain _ _ _ _ _ I 0) as H. rewrite (inv_lvl0 c tmax d A L I) in H.
      apply H. pose proof (tmax_pos p pok). lia.
    Qed.

    Local Notation m := (abs d L).

    (* ---- forward landings ---- *)
    Lemma land_fwd it cu lo hiL f :
      it_slice it = cu_slice cu ->
      L = lo ++ hiL ->
      Forall (fun e => in_range c (cu_slice cu) (fst e) && f e = false) (map (kvof nd kv) lo) ->
      Forall (fun e => f e = true /\ start_ok c (cu_slice cu) (fst e) = true) (map (kvof nd kv) hiL) ->
      exists it' ret,
        fill c p d (with_node it (hd 0 hiL) true) false true = Ok (it', ret) /\
        Rit d L it' (cur_at cu (find f (vis c (cu_slice cu) m)) true) /\
        RIter ret (it_valid it') (it_key it') (it_val it') =
          cur_out (cur_at cu (find f (vis c (cu_slice cu) m)) true).
    Proof.
      intros Hsl EL Hlo Hhi.
      assert (HS : smap_sorted c (map (kvof nd kv) lo ++ map (kvof nd kv) hiL)).
      { rewrite <- map_app, <- EL. apply abs_sorted. apply (inv_sorted _ _ _ _ _ I). }
      assert (Eq : find f (vis c (cu_slice cu) m) =
                   match map (kvof nd kv) hiL with
                   | [] => None
                   | e :: _ => if lim_ok c (cu_slice cu) (fst e) then Some e else None
                   end).
      { unfold abs. rewrite EL, map_app. apply (fwd_query c cok); assumption. }
      apply land.
      - exact Hsl.
      - destruct hiL as [|x hiL]; [left; reflexivity|right]. rewrite EL. apply in_or_app. right. left. reflexivity.
      - rewrite Eq. destruct hiL as [|x hiL]; [reflexivity|]. cbn [hd map].
        assert (HxL : In x L) by (rewrite EL; apply in_or_app; right; left; reflexivity).
        pose proof (inv_nonzero c tmax d A L I x (inv_sub _ _ _ _ _ I x HxL)) as Hx0.
        replace (x =? 0) with false by lia. rewrite fill_bad_limit, Hsl. cbn [fst kvof].
        destruct (lim_ok c (cu_slice cu) (keyof nd kv x)); reflexivity.
      - intros k v. rewrite Eq. destruct hiL as [|x hiL]; [discriminate|]. cbn [map].
        inversion Hhi as [|? ? (_ & Hs) _]; subst.
        destruct (lim_ok c (cu_slice cu) (fst (kvof nd kv x))) eqn:El; [|discriminate].
        intros E. unfold kvof in E, Hs, El. cbn [fst] in Hs, El. injection E as E1 E2.
        rewrite in_range_split. rewrite E1 in Hs, El. now rewrite Hs, El.
    Qed.

    (* ---- backward landings ---- *)
    Lemma land_bwd it cu loL hi f :
      it_slice it = cu_slice cu ->
      L = loL ++ hi ->
      Forall (fun e => in_range c (cu_slice cu) (fst e) && f e = false) (map (kvof nd kv) hi) ->
      Forall (fun e => f e = true /\ lim_ok c (cu_slice cu) (fst e) = true) (map (kvof nd kv) loL) ->
      exists it' ret,
        fill c p d (with_node it (last loL 0) false) true false = Ok (it', ret) /\
        Rit d L it' (cur_at cu (find_last f (vis c (cu_slice cu) m)) false) /\
        RIter ret (it_valid it') (it_key it') (it_val it') =
          cur_out (cur_at cu (find_last f (vis c (cu_slice cu) m)) false).
    Proof.
      intros Hsl EL Hhi Hlo.
      assert (HS : smap_sorted c (map (kvof nd kv) loL ++ map (kvof nd kv) hi)).
      { rewrite <- map_app, <- EL. apply abs_sorted. apply (inv_sorted _ _ _ _ _ I). }
      destruct (list_snoc_cases loL) as [->|(lo' & x & ->)].
      - assert (Eq : find_last f (vis c (cu_slice cu) m) = None).
        { unfold abs. rewrite EL. cbn [app]. apply bwd_query_nil. exact Hhi. }
        rewrite Eq. cbn [last]. apply land; [exact Hsl|left; reflexivity|reflexivity|intros k v; discriminate].
      - rewrite last_snoc.
        assert (HxL : In x L).
        { rewrite EL. apply in_or_app. left. apply in_or_app. right. left. reflexivity. }
        pose proof (inv_nonzero c tmax d A L I x (inv_sub _ _ _ _ _ I x HxL)) as Hx0.
        assert (Eq : find_last f (vis c (cu_slice cu) m) =
                     if start_ok c (cu_slice cu) (keyof nd kv x) then Some (kvof nd kv x) else None).
        { unfold abs. rewrite EL, !map_app. cbn [map].
          rewrite map_app in HS, Hlo. cbn [map] in HS, Hlo.
          apply (bwd_query c cok (cu_slice cu) f _ (kvof nd kv x)); assumption. }
        rewrite Eq. apply land.
        + exact Hsl.
        + right. exact HxL.
        + replace (x =? 0) with false by lia. rewrite fill_bad_start, Hsl.
          destruct (start_ok c (cu_slice cu) (keyof nd kv x)); reflexivity.
        + intros k v.
          destruct (start_ok c (cu_slice cu) (keyof nd kv x)) eqn:Es; [|discriminate].
          intros E. injection E as E1 E2. rewrite in_range_split.
          rewrite map_app in Hlo. apply Forall_app in Hlo as (_ & Hlo). cbn [map] in Hlo.
          inversion Hlo as [|? ? (_ & Hl) _]; subst. cbn [fst kvof] in Hl. now rewrite Es, Hl.
    Qed.

    (* slice accessors of the model against start_ok / lim_ok *)
    Lemma start_ok_some it s k : sl_start it = Some s -> start_ok c (it_slice it) k = negb (ltb c k s).
    Proof. unfold sl_start, start_ok. destruct (it_slice it) as [([s'|], l)|]; intros E; try discriminate; now injection E as ->. Qed.
    Lemma start_ok_none it k : sl_start it = None -> start_ok c (it_slice it) k = true.
    Proof. unfold sl_start, start_ok. destruct (it_slice it) as [([s'|], l)|]; intros E; try discriminate; reflexivity. Qed.
    Lemma lim_ok_some it l k : sl_limit it = Some l -> lim_ok c (it_slice it) k = ltb c k l.
    Proof. unfold sl_limit, lim_ok. destruct (it_slice it) as [(s, [l'|])|]; intros E; try discriminate; now injection E as ->. Qed.
    Lemma lim_ok_none it k : sl_limit it = None -> lim_ok c (it_slice it) k = true.
    Proof. unfold sl_limit, lim_ok. destruct (it_slice it) as [(s, [l'|])|]; intros E; try discriminate; reflexivity. Qed.

    Lemma ltk_ltb k x : ltk c d k x -> ltb c (keyof nd kv x) k = true.
    Proof. unfold ltk, lt, ltb. now intros ->. Qed.
    Lemma gek_ltb k x : gek c d k x -> ltb c (keyof nd kv x) k = false.
    Proof. unfold gek, ltb. destruct (cmp c (keyof nd kv x) k); congruence. Qed.

    Definition move_ok (it : iter) (cu cu' : cursor) (r : res (iter * bool)) : Prop :=
      exists it' ret, r = Ok (it', ret) /\ Rit d L it' cu' /\
                      RIter ret (it_valid it') (it_key it') (it_val it') = cur_out cu'.

    Lemma it_first_ok it cu :
      Rit d L it cu -> move_ok it cu (c_first c m cu) (it_first c p (op_fuel d) d it).
    Proof.
      intros (Hsl & Hfw & Hcur). pose proof (op_fuel_ok c p d A L I) as Hfuel.
      unfold move_ok, c_first, it_first. rewrite <- find_true_hd.
      destruct (sl_start it) as [s|] eqn:Es.
      - destruct (split_at c cok d L s (inv_sorted _ _ _ _ _ I)) as (Lb & Lr & EL & Hb & Hr).
        destruct (findGE_ok c cok p pok d A L I s false Lb Lr (op_fuel d) EL Hb Hr Hfuel) as (pn & E & _).
        rewrite E. cbn [bind].
        apply (land_fwd it cu Lb Lr (fun _ => true) Hsl EL).
        + apply Forall_map. eapply Forall_impl; [|exact Hb]. intros x Hx. cbn [fst kvof].
          rewrite in_range_split, <- Hsl, (start_ok_some it s _ Es), (ltk_ltb s x Hx). reflexivity.
        + apply Forall_map. eapply Forall_impl; [|exact Hr]. intros x Hx. cbn [fst kvof].
          rewrite <- Hsl, (start_ok_some it s _ Es), (gek_ltb s x Hx). auto.
      - rewrite (Enext p pok). pose proof (inv_head _ _ _ _ _ I) as Hh. pose proof (tmax_pos p pok) as Ht.
        rewrite (aget_ok nd 4) by lia. cbn [bind].
        change (rd nd 4) with (nx nd 0 0). rewrite (path_hd _ _ _ _ _ level0_path).
        apply (land_fwd it cu [] L (fun _ => true) Hsl eq_refl).
        + constructor.
        + apply Forall_map. apply Forall_forall. intros x _. cbn [fst kvof].
          rewrite <- Hsl, (start_ok_none it _ Es). auto.
    Qed.

    Lemma it_seek_ok it cu k :
      Rit d L it cu -> move_ok it cu (c_seek c m cu k) (it_seek c p (op_fuel d) d it k).
    Proof.
      intros (Hsl & Hfw & Hcur). pose proof (op_fuel_ok c p d A L I) as Hfuel.
      unfold move_ok, c_seek, it_seek, s_find_ge.
      set (k' := match sl_start it with Some s => if ltb c k s then s else k | None => k end).
      destruct (split_at c cok d L k' (inv_sorted _ _ _ _ _ I)) as (Lb & Lr & EL & Hb & Hr).
      destruct (findGE_ok c cok p pok d A L I k' false Lb Lr (op_fuel d) EL Hb Hr Hfuel) as (pn & E & _).
      rewrite E. cbn [bind].
      apply (land_fwd it cu Lb Lr (key_ge c k) Hsl EL).
      - apply Forall_map. eapply Forall_impl; [|exact Hb]. intros x Hx. cbn [fst kvof]. unfold key_ge. cbn [fst kvof].
        subst k'. destruct (sl_start it) as [s|] eqn:Es; [destruct (ltb c k s) eqn:Eks|].
        + rewrite in_range_split, <- Hsl, (start_ok_some it s _ Es), (ltk_ltb s x Hx). reflexivity.
        + rewrite (ltk_ltb k x Hx). apply andb_false_r.
        + rewrite (ltk_ltb k x Hx). apply andb_false_r.
      - apply Forall_map. eapply Forall_impl; [|exact Hr]. intros x Hx. cbn [fst kvof]. unfold key_ge. cbn [fst kvof].
        subst k'. destruct (sl_start it) as [s|] eqn:Es; [destruct (ltb c k s) eqn:Eks|].
        + rewrite <- Hsl, (start_ok_some it s _ Es), (gek_ltb s x Hx). split; [|reflexivity].
          destruct (ltb c (keyof nd kv x) k) eqn:E1; [|reflexivity]. exfalso.
          apply (ltb_lt c) in E1, Eks. pose proof (OrderProofs.lt_trans c cok _ _ _ E1 Eks) as H.
          unfold gek in Hx. unfold lt in H. congruence.
        + rewrite <- Hsl, (start_ok_some it s _ Es), (gek_ltb k x Hx). split; [reflexivity|].
          destruct (ltb c (keyof nd kv x) s) eqn:E1; [|reflexivity]. exfalso.
          apply (ltb_lt c) in E1.
          assert (Hsk : le c s k).
          { apply (OrderProofs.not_lt_le c cok). intros H. apply (ltb_lt c) in H. congruence. }
          pose proof (OrderProofs.lt_le_trans c cok _ _ _ E1 Hsk) as H. unfold gek in Hx. unfold lt in H. congruence.
        + rewrite <- Hsl, (start_ok_none it _ Es), (gek_ltb k x Hx). auto.
    Qed.

    Lemma it_last_ok it cu :
      Rit d L it cu -> move_ok it cu (c_last c m cu) (it_last c p (op_fuel d) d it).
    Proof.
      intros (Hsl & Hfw & Hcur). pose proof (op_fuel_ok c p d A L I) as Hfuel.
      unfold move_ok, c_last, it_last.
      destruct (sl_limit it) as [l|] eqn:El.
      - destruct (split_at c cok d L l (inv_sorted _ _ _ _ _ I)) as (Lb & Lr & EL & Hb & Hr).
        rewrite (findLT_ok c p pok d A L I l Lb Lr (op_fuel d) EL Hb Hr Hfuel). cbn [bind].
        apply (land_bwd it cu Lb Lr (fun _ => true) Hsl EL).
        + apply Forall_map. eapply Forall_impl; [|exact Hr]. intros x Hx. cbn [fst kvof].
          rewrite in_range_split, <- Hsl, (lim_ok_some it l _ El), (gek_ltb l x Hx). now rewrite andb_false_r.
        + apply Forall_map. eapply Forall_impl; [|exact Hb]. intros x Hx. cbn [fst kvof].
          rewrite <- Hsl, (lim_ok_some it l _ El), (ltk_ltb l x Hx). auto.
      - rewrite (findLast_ok c p pok d A L I (op_fuel d) Hfuel). cbn [bind].
        apply (land_bwd it cu L [] (fun _ => true) Hsl).
        + now rewrite app_nil_r.
        + constructor.
        + apply Forall_map. apply Forall_forall. intros x _. cbn [fst kvof].
          rewrite <- Hsl, (lim_ok_none it _ El). auto.
    Qed.

    Lemma it_prev_ok it cu :
      Rit d L it cu -> move_ok it cu (c_prev c m cu) (it_prev c p (op_fuel d) d it).
    Proof.
      intros R. pose proof R as (Hsl & Hfw & Hcur). pose proof (op_fuel_ok c p d A L I) as Hfuel.
      unfold c_prev, it_prev.
      destruct (cu_cur cu) as [(k, v)|] eqn:Ecur.
      - destruct Hcur as (Hn0 & Hk & Hv & Hin & _).
        replace (it_node it =? 0) with false by lia.
        rewrite Hk. cbn [key_or_nil].
        destruct (split_at c cok d L k (inv_sorted _ _ _ _ _ I)) as (Lb & Lr & EL & Hb & Hr).
        rewrite (findLT_ok c p pok d A L I k Lb Lr (op_fuel d) EL Hb Hr Hfuel). cbn [bind].
        unfold move_ok, s_find_lt.
        apply (land_bwd it cu Lb Lr (key_lt c k) Hsl EL).
        + apply Forall_map. eapply Forall_impl; [|exact Hr]. intros x Hx. cbn [fst kvof]. unfold key_lt. cbn [fst kvof].
          rewrite (gek_ltb k x Hx). apply andb_false_r.
        + apply Forall_map. eapply Forall_impl; [|exact Hb]. intros x Hx. cbn [fst kvof]. unfold key_lt. cbn [fst kvof].
          rewrite (ltk_ltb k x Hx). split; [reflexivity|].
          rewrite in_range_split in Hin. apply andb_prop in Hin as (_ & Hl).
          exact (lim_ok_mono c cok _ _ _ Hx Hl).
      - destruct Hcur as (Hn0 & Hk & Hv). rewrite Hn0, N.eqb_refl, Hfw.
        destruct (cu_fwd cu); [apply it_last_ok; exact R|].
        exists it, false. split; [reflexivity|]. split; [exact R|].
        unfold cur_out, it_valid. rewrite Ecur, Hn0, Hk, Hv. reflexivity.
    Qed.

    Lemma it_next_ok it cu cu' :
      Rit d L it cu -> c_next c m cu = Some cu' -> move_ok it cu cu' (it_next c p (op_fuel d) d it).
    Proof.
      intros R. pose proof R as (Hsl & Hfw & Hcur). pose proof (op_fuel_ok c p d A L I) as Hfuel.
      unfold c_next, it_next.
      destruct (cu_cur cu) as [(k, v)|] eqn:Ecur.
      - destruct (cu_stale cu) eqn:Est; [discriminate|]. intros E. injection E as <-.
        destruct Hcur as (Hn0 & Hk & Hv & Hin & Hlive). destruct (Hlive eq_refl) as (HxL & Hkey).
        set (x := it_node it) in *.
        replace (x =? 0) with false by lia.
        destruct (in_split x L HxL) as (L1 & L2 & EL).
        pose proof level0_path as Hp. rewrite EL in Hp. apply path_app_cons in Hp as (_ & Hp).
        destruct (inv_node_L c tmax d A L I x HxL) as (H1 & H2 & H3 & H4 & H5).
        rewrite (Enext p pok). rewrite (aget_ok nd (x + 4)) by lia. cbn [bind].
        replace (x + 4) with (x + 4 + 0) by lia. change (rd nd (x + 4 + 0)) with (nx nd x 0).
        rewrite (path_hd _ _ _ _ _ Hp).
        pose proof (inv_sorted _ _ _ _ _ I) as HS. rewrite EL in HS.
        apply sorted_app in HS as (_ & HS2 & HS3). destruct HS2 as (HS2 & _).
        unfold move_ok, s_find_gt.
        apply (land_fwd it cu (L1 ++ [x]) L2 (key_gt c k) Hsl).
        + rewrite EL, <- app_assoc. reflexivity.
        + apply Forall_map. apply Forall_app. split.
          * eapply Forall_impl; [|exact HS3]. intros y Hy. cbn [fst kvof]. unfold key_gt. cbn [fst kvof].
            pose proof (Forall_inv Hy) as Hyx. cbn beta in Hyx. rewrite Hkey in Hyx.
            unfold ltb. apply (cmp_lt_gt c cok) in Hyx. rewrite Hyx. apply andb_false_r.
          * constructor; [|constructor]. cbn [fst kvof]. unfold key_gt. cbn [fst kvof]. rewrite Hkey.
            unfold ltb. rewrite (cmp_refl c cok). apply andb_false_r.
        + apply Forall_map. eapply Forall_impl; [|exact HS2]. intros y Hy. cbn [fst kvof]. unfold key_gt. cbn [fst kvof].
          rewrite Hkey in Hy. split; [apply (ltb_lt c); exact Hy|].
          rewrite in_range_split in Hin. apply andb_prop in Hin as (Hs & _).
          exact (start_ok_mono c cok _ _ _ Hy Hs).
      - intros E. injection E as <-.
        destruct Hcur as (Hn0 & Hk & Hv). rewrite Hn0, N.eqb_refl, Hfw.
        destruct (cu_fwd cu); cbn [negb]; [|apply it_first_ok; exact R].
        exists it, false. split; [reflexivity|]. split; [exact R|].
        unfold cur_out, it_valid. rewrite Ecur, Hn0, Hk, Hv. reflexivity.
    Qed.
  End WithInv.
End Iter.
