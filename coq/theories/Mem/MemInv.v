(* Mem/MemInv.v — the representation invariant of the array-encoded skip list and its basic
   consequences (proof file).

   Ghost view of the arrays: a node is its index x in nodeData; hgt/nx/keyof/valof read its
   fields.  Inv d A L says: A lists the records ever allocated (pairwise disjoint, inside the
   arrays, above the head record), L ⊆ A lists the live nodes in strictly increasing key order,
   and for every level i < tMaxHeight the chain that starts at the head and follows next_i is
   exactly the sub-list of L of the nodes taller than i, ending in 0.  n and kvSize count L. *)
From GL Require Import Base.OrderProofs Mem.MemDB Mem.ArrayLemmas Mem.ListLemmas.
From Coq Require Import Lia ZifyBool.
Open Scope N_scope.

(* ---- ghost accessors ---- *)
Definition hgt (nd : list N) (x : N) : N := rd nd (x + 3).
Definition nx (nd : list N) (x i : N) : N := rd nd (x + 4 + i).
Definition keyof (nd : list N) (kv : bytes) (x : N) : bytes :=
  sl kv (rd nd x) (rd nd x + rd nd (x + 1)).
Definition valof (nd : list N) (kv : bytes) (x : N) : bytes :=
  sl kv (rd nd x + rd nd (x + 1)) (rd nd x + rd nd (x + 1) + rd nd (x + 2)).
Definition kvof (nd : list N) (kv : bytes) (x : N) : bytes * bytes := (keyof nd kv x, valof nd kv x).

(* the nodes of l taller than i *)
Definition lvl (nd : list N) (i : N) (l : list N) : list N := filter (fun x => i <? hgt nd x) l.

(* following next_i from x visits exactly l and then points to y *)
Fixpoint path (nd : list N) (i x : N) (l : list N) (y : N) : Prop :=
  match l with
  | [] => nx nd x i = y
  | z :: l' => nx nd x i = z /\ path nd i z l' y
  end.

Fixpoint sum_kv (nd : list N) (l : list N) : Z :=
  match l with
  | [] => 0%Z
  | x :: l' => (Z.of_N (rd nd (x + 1)) + Z.of_N (rd nd (x + 2)) + sum_kv nd l')%Z
  end.

Section Inv.
  Variable c : comparer.
  Variable tmax : N.

  Definition node_ok (nd : list N) (kv : bytes) (mh x : N) : Prop :=
    4 + tmax <= x /\ 1 <= hgt nd x /\ hgt nd x <= mh /\ x + 4 + hgt nd x <= len nd /\
    rd nd x + rd nd (x + 1) + rd nd (x + 2) <= len kv.

  Definition disjoint (nd : list N) (A : list N) : Prop :=
    forall x y, In x A -> In y A -> x < y -> x + 4 + hgt nd x <= y.

  Definition key_sorted (nd : list N) (kv : bytes) (l : list N) : Prop :=
    sorted (fun x y => lt c (keyof nd kv x) (keyof nd kv y)) l.

  Record Inv (d : db) (A L : list N) : Prop := {
    inv_head : 4 + tmax <= len (nodeData d);
    inv_mh : 1 <= maxHeight d /\ maxHeight d <= tmax;
    inv_nodes : Forall (node_ok (nodeData d) (kvData d) (maxHeight d)) A;
    inv_disj : disjoint (nodeData d) A;
    inv_sub : incl L A;
    inv_sorted : key_sorted (nodeData d) (kvData d) L;
    inv_chain : forall i, i < tmax -> path (nodeData d) i 0 (lvl (nodeData d) i L) 0;
    inv_n : nEnt d = Z.of_nat (length L);
    inv_size : kvSize d = sum_kv (nodeData d) L
  }.

  Definition abs (d : db) (L : list N) : list (bytes * bytes) :=
    map (kvof (nodeData d) (kvData d)) L.

  (* ---- path ---- *)
  Lemma path_app nd i x l1 l2 y :
    path nd i x (l1 ++ l2) y <-> path nd i x l1 (hd y l2) /\ path nd i (last l1 x) l2 y.
  Proof.
    revert x. induction l1 as [|a l1 IH]; intros x.
    - cbn. destruct l2 as [|z l2]; cbn; tauto.
    - cbn [app path]. rewrite IH. rewrite last_cons_default. tauto.
  Qed.

  Lemma path_app_cons nd i x l1 z l2 y :
    path nd i x (l1 ++ z :: l2) y <-> path nd i x l1 z /\ path nd i z l2 y.
  Proof.
    revert x. induction l1 as [|a l1 IH]; intros x; cbn; [tauto|]. rewrite IH. tauto.
  Qed.

  Lemma path_ext nd nd' i x l y :
    (forall u, In u (x :: l) -> nx nd' u i = nx nd u i) -> path nd i x l y -> path nd' i x l y.
  Proof.
    revert x. induction l as [|z l IH]; intros x H; cbn.
    - intros <-. apply H. left; reflexivity.
    - intros (H1 & H2). split.
      + rewrite H by (left; reflexivity). exact H1.
      + apply IH; [|exact H2]. intros u Hu. apply H. right; exact Hu.
  Qed.

  Lemma path_last nd i x l y : path nd i x l y -> nx nd (last l x) i = y.
  Proof.
    revert x. induction l as [|z l IH]; intros x; cbn [path]; [auto|].
    intros (_ & H). rewrite last_cons_default. auto.
  Qed.

  Lemma path_hd nd i x l y : path nd i x l y -> nx nd x i = hd y l.
  Proof. destruct l; cbn; tauto. Qed.

  Lemma path_upd_last nd nd' i x l y y' :
    NoDup (x :: l) ->
    (forall u, In u (x :: l) -> u <> last l x -> nx nd' u i = nx nd u i) ->
    nx nd' (last l x) i = y' ->
    path nd i x l y -> path nd' i x l y'.
  Proof.
    revert x. induction l as [|z l IH]; intros x Hnd H Hl; cbn [path].
    - intros _. exact Hl.
    - rewrite last_cons_default in *. intros (H1 & H2).
      apply NoDup_cons_iff in Hnd as [Hni Hnd']. split.
      + rewrite H; [exact H1|left; reflexivity|].
        intros E. apply Hni.
        rewrite E at 1. destruct l as [|w l]; [left; reflexivity|].
        right. apply last_in. discriminate.
      + apply IH; auto.
        intros u Hu Hne. apply H; [right; exact Hu|exact Hne].
  Qed.

  (* ---- levels ---- *)
  Lemma lvl_app nd i l1 l2 : lvl nd i (l1 ++ l2) = lvl nd i l1 ++ lvl nd i l2.
  Proof. apply filter_app. Qed.

  Lemma lvl_ext nd nd' i l :
    (forall x, In x l -> hgt nd' x = hgt nd x) -> lvl nd' i l = lvl nd i l.
  Proof.
    intros H. unfold lvl. apply filter_ext_in. intros x Hx. now rewrite H.
  Qed.

  Lemma lvl_incl nd i l x : In x (lvl nd i l) -> In x l /\ i < hgt nd x.
  Proof. unfold lvl. rewrite filter_In. intros (H1 & H2). split; [exact H1|lia]. Qed.

  Lemma lvl0 nd l : Forall (fun x => 1 <= hgt nd x) l -> lvl nd 0 l = l.
  Proof.
    intros H. unfold lvl. apply filter_all. eapply Forall_impl; [|exact H]. cbn. intros; lia.
  Qed.

  Lemma lvl_high nd i l : Forall (fun x => hgt nd x <= i) l -> lvl nd i l = [].
  Proof.
    intros H. unfold lvl. apply filter_nil_iff. eapply Forall_impl; [|exact H]. cbn. intros; lia.
  Qed.

  Lemma last_lvl_snoc nd i l x : i < hgt nd x -> last (lvl nd i (l ++ [x])) 0 = x.
  Proof.
    intros H. unfold lvl. rewrite filter_snoc.
    replace (i <? hgt nd x) with true by lia. apply last_snoc.
  Qed.

  Lemma sum_kv_app nd l1 l2 : sum_kv nd (l1 ++ l2) = (sum_kv nd l1 + sum_kv nd l2)%Z.
  Proof. induction l1 as [|x l1 IH]; cbn [app sum_kv]; lia. Qed.

  Lemma sum_kv_ext nd nd' l :
    (forall x, In x l -> rd nd' (x + 1) = rd nd (x + 1) /\ rd nd' (x + 2) = rd nd (x + 2)) ->
    sum_kv nd' l = sum_kv nd l.
  Proof.
    induction l as [|x l IH]; intros H; cbn [sum_kv]; [reflexivity|].
    destruct (H x (or_introl eq_refl)) as (-> & ->). rewrite IH; [reflexivity|].
    intros y Hy. apply H. right; exact Hy.
  Qed.

  (* ---- consequences of Inv ---- *)
  Section WithInv.
    Variables (d : db) (A L : list N).
    Hypothesis I : Inv d A L.

    Lemma inv_node_A x : In x A -> node_ok (nodeData d) (kvData d) (maxHeight d) x.
    Proof. intros H. exact (proj1 (Forall_forall _ _) (inv_nodes _ _ _ I) x H). Qed.

    Lemma inv_node_L x : In x L -> node_ok (nodeData d) (kvData d) (maxHeight d) x.
    Proof. intros H. apply inv_node_A. apply (inv_sub _ _ _ I). exact H. Qed.

    Lemma inv_nonzero x : In x A -> x <> 0.
    Proof. intros H. destruct (inv_node_A x H) as (H1 & _). destruct (inv_mh _ _ _ I). lia. Qed.

    Lemma inv_L_heights : Forall (fun x => 1 <= hgt (nodeData d) x) L.
    Proof. apply Forall_forall. intros x Hx. destruct (inv_node_L x Hx) as (_ & H & _). exact H. Qed.

    Lemma inv_lvl0 : lvl (nodeData d) 0 L = L.
    Proof. apply lvl0. exact inv_L_heights. Qed.
  End WithInv.
End Inv.
