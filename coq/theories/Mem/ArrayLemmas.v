(* Mem/ArrayLemmas.v — facts about the result monad and the array primitives of Mem/MemDB.v
   (aget / aset / bslice) in terms of total ghost accessors rd / upd / sl. *)
From GL Require Import Mem.MemDB.
From Coq Require Import Lia ZifyBool.
Open Scope N_scope.

(* ---- result monad ---- *)
Lemma bind_ok {A B} (r : res A) (f : A -> res B) b :
  bind r f = Ok b -> exists a, r = Ok a /\ f a = Ok b.
Proof. destruct r; cbn; intros H; try discriminate. eauto. Qed.

Lemma bind_Ok {A B} (a : A) (f : A -> res B) : bind (Ok a) f = f a.
Proof. reflexivity. Qed.

(* ---- ghost accessors ---- *)
Definition rd (l : list N) (i : N) : N := nth (N.to_nat i) l 0.
Definition upd (l : list N) (i v : N) : list N :=
  firstn (N.to_nat i) l ++ v :: skipn (S (N.to_nat i)) l.
Definition sl (b : bytes) (lo hi : N) : bytes :=
  firstn (N.to_nat (hi - lo)) (skipn (N.to_nat lo) b).

Lemma len_app {A} (l1 l2 : list A) : len (l1 ++ l2) = len l1 + len l2.
Proof. unfold len. rewrite app_length. lia. Qed.

Lemma len_nil {A} : len (@nil A) = 0.
Proof. reflexivity. Qed.

Lemma len_cons {A} (x : A) l : len (x :: l) = 1 + len l.
Proof. unfold len. cbn [length]. lia. Qed.

Lemma len_repeat {A} (x : A) n : len (repeat x n) = N.of_nat n.
Proof. unfold len. now rewrite repeat_length. Qed.

Lemma aget_ok l i : i < len l -> aget l i = Ok (rd l i).
Proof.
  unfold aget, rd, len. intros H.
  destruct (nth_error l (N.to_nat i)) eqn:E.
  - now rewrite (nth_error_nth _ _ 0 E).
  - apply nth_error_None in E. lia.
Qed.

Lemma aget_inv l i v : aget l i = Ok v -> i < len l /\ v = rd l i.
Proof.
  unfold aget, rd, len. destruct (nth_error l (N.to_nat i)) eqn:E; intros H; try discriminate.
  injection H as <-. split.
  - assert (N.to_nat i < length l)%nat by (apply nth_error_Some; congruence). lia.
  - now rewrite (nth_error_nth _ _ 0 E).
Qed.

Lemma aset_ok l i v : i < len l -> aset l i v = Ok (upd l i v).
Proof. unfold aset, upd. intros H. apply N.ltb_lt in H. now rewrite H. Qed.

Lemma aset_inv l i v l' : aset l i v = Ok l' -> i < len l /\ l' = upd l i v.
Proof.
  unfold aset, upd. destruct (i <? len l) eqn:E; intros H; try discriminate.
  injection H as <-. split; [now apply N.ltb_lt|reflexivity].
Qed.

Lemma len_upd l i v : i < len l -> len (upd l i v) = len l.
Proof.
  unfold upd, len. intros H. rewrite app_length. cbn [length].
  rewrite firstn_length, skipn_length. lia.
Qed.

Lemma rd_upd l i v j : i < len l -> rd (upd l i v) j = if j =? i then v else rd l j.
Proof.
  unfold upd, rd, len. intros H.
  assert (Hl : length (firstn (N.to_nat i) l) = N.to_nat i) by (rewrite firstn_length; lia).
  destruct (j =? i) eqn:E.
  - apply N.eqb_eq in E. subst j.
    rewrite app_nth2 by (rewrite Hl; lia). rewrite Hl, Nat.sub_diag. reflexivity.
  - apply N.eqb_neq in E.
    destruct (N.lt_ge_cases j i) as [Hji|Hji].
    + rewrite app_nth1 by (rewrite Hl; lia).
      rewrite <- (firstn_skipn (N.to_nat i) l) at 2.
      rewrite app_nth1 by (rewrite Hl; lia). reflexivity.
    + rewrite app_nth2 by (rewrite Hl; lia). rewrite Hl.
      destruct (N.to_nat j - N.to_nat i)%nat as [|k] eqn:Ek; [lia|].
      cbn [nth].
      rewrite <- (firstn_skipn (S (N.to_nat i)) l) at 2.
      assert (Hl2 : length (firstn (S (N.to_nat i)) l) = S (N.to_nat i)) by (rewrite firstn_length; lia).
      rewrite app_nth2 by (rewrite Hl2; lia).
      rewrite Hl2. f_equal. lia.
Qed.

Lemma rd_upd_same l i v : i < len l -> rd (upd l i v) i = v.
Proof. intros H. rewrite rd_upd by exact H. now rewrite N.eqb_refl. Qed.

Lemma rd_upd_other l i v j : i < len l -> j <> i -> rd (upd l i v) j = rd l j.
Proof. intros H Hne. rewrite rd_upd by exact H. apply N.eqb_neq in Hne. now rewrite Hne. Qed.

Lemma rd_app1 l l' j : j < len l -> rd (l ++ l') j = rd l j.
Proof. unfold rd, len. intros H. apply app_nth1. lia. Qed.

Lemma rd_app2 l l' j : rd (l ++ l') (len l + j) = rd l' j.
Proof.
  unfold rd, len. rewrite app_nth2 by lia. f_equal. lia.
Qed.

Lemma rd_overflow l j : len l <= j -> rd l j = 0.
Proof. unfold rd, len. intros H. apply nth_overflow. lia. Qed.

Lemma rd_repeat0 n j : rd (repeat 0 n) j = 0.
Proof.
  unfold rd. destruct (Nat.lt_ge_cases (N.to_nat j) n) as [H|H].
  - apply nth_repeat.
  - apply nth_overflow. rewrite repeat_length. lia.
Qed.

Lemma rd_firstn l n j : j < N.of_nat n -> rd (firstn n l) j = rd l j.
Proof.
  unfold rd. intros H. revert l j H. induction n as [|n IH]; intros l j H; [lia|].
  destruct l as [|x l]; [reflexivity|].
  cbn [firstn]. destruct (N.to_nat j) as [|k] eqn:Ek; [reflexivity|].
  cbn [nth]. specialize (IH l (N.of_nat k)). rewrite Nat2N.id in IH. apply IH. lia.
Qed.

Lemma len_firstn {A} (l : list A) n : N.of_nat n <= len l -> len (firstn n l) = N.of_nat n.
Proof. unfold len. intros H. rewrite firstn_length. lia. Qed.

(* ---- byte slices ---- *)
Lemma bslice_ok b lo hi : lo <= hi -> hi <= len b -> bslice b lo hi = Ok (sl b lo hi).
Proof.
  unfold bslice, sl. intros H1 H2.
  apply N.leb_le in H1, H2. now rewrite H1, H2.
Qed.

Lemma bslice_inv b lo hi r : bslice b lo hi = Ok r -> lo <= hi /\ hi <= len b /\ r = sl b lo hi.
Proof.
  unfold bslice, sl. destruct (lo <=? hi) eqn:E1; destruct (hi <=? len b) eqn:E2; cbn; intros H; try discriminate.
  injection H as <-. apply N.leb_le in E1, E2. auto.
Qed.

Lemma sl_app1 b b' lo hi : hi <= len b -> sl (b ++ b') lo hi = sl b lo hi.
Proof.
  unfold sl, len. intros H.
  destruct (N.le_gt_cases lo hi) as [Hle|Hgt].
  - rewrite skipn_app. rewrite firstn_app.
    rewrite skipn_length.
    replace (N.to_nat (hi - lo) - (length b - N.to_nat lo))%nat with 0%nat by lia.
    cbn [firstn]. now rewrite app_nil_r.
  - replace (hi - lo) with 0 by lia. reflexivity.
Qed.

Lemma sl_len b lo hi : lo <= hi -> hi <= len b -> len (sl b lo hi) = hi - lo.
Proof.
  unfold sl, len. intros H1 H2. rewrite firstn_length, skipn_length. lia.
Qed.

Lemma sl_app_mid (b k v : bytes) : sl (b ++ k ++ v) (len b) (len b + len k) = k.
Proof.
  unfold sl, len.
  replace (N.to_nat (N.of_nat (length b))) with (length b + 0)%nat by lia.
  rewrite skipn_app. rewrite Nat.add_0_r, skipn_all, Nat.sub_diag. cbn [skipn app].
  replace (N.to_nat (N.of_nat (length b) + N.of_nat (length k) - N.of_nat (length b))) with (length k + 0)%nat by lia.
  rewrite firstn_app_2. cbn [firstn]. now rewrite app_nil_r.
Qed.

Lemma sl_app_end (b k v : bytes) :
  sl (b ++ k ++ v) (len b + len k) (len b + len k + len v) = v.
Proof.
  unfold sl, len. rewrite app_assoc.
  replace (N.to_nat (N.of_nat (length b) + N.of_nat (length k))) with (length (b ++ k) + 0)%nat
    by (rewrite app_length; lia).
  rewrite skipn_app. rewrite Nat.add_0_r, skipn_all, Nat.sub_diag. cbn [skipn app].
  replace (N.to_nat (N.of_nat (length b) + N.of_nat (length k) + N.of_nat (length v) -
                     (N.of_nat (length b) + N.of_nat (length k)))) with (length v) by lia.
  apply firstn_all.
Qed.
