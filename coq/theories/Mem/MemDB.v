(* Mem/MemDB.v — model of leveldb/memdb/memdb.go: the array-encoded skip list AS CODED.
   Model file: definitions only (proofs in Mem/MemDBProofs.v).

   State components are those of memdb.DB: kvData (append-only key/value bytes), nodeData
   (every node is the record [kv offset; key len; val len; height; next_0 .. next_{height-1}],
   node 0 is the head of height tMaxHeight), maxHeight, n, kvSize.  prevNode is scratch that
   findGE(key, true) fills for the levels below maxHeight and Put fills for the levels it adds
   before any of it is read, so it is passed around as a local array (prev_init).
   Differences from the Go code, all stated here:
     - Go ints are unbounded N here (indexes, lengths) and Z for the two counters n and kvSize
       (the code subtracts from them); no 64-bit wrap-around is modelled;
     - an index outside an array and a slice bound outside kvData are the explicit result
       Panic (Go checks slice bounds against the capacity, the model against the length:
       the model panics at least as often);
     - loops that chase pointers take fuel and return OutOfFuel when it runs out
       (Mem/MemDBProofs.v: under the representation invariant, fuel n + maxHeight suffices);
     - the height randHeight() would draw is an input of Put (used only when Put inserts);
     - capacity/growth of kvData (Capacity, Free) is not modelled, only its length. *)
From GL Require Export Base.Bytes Base.Order.
From Coq Require Export ZArith.
Open Scope N_scope.

(* constants of memdb.go, supplied by Gen/Consts.v through an instance (Gen/InstMem.v) *)
Record mparams := {
  tMaxHeight : N;
  nKV : N; nKey : N; nVal : N; nHeight : N; nNext : N
}.

Definition mparams_ok (p : mparams) : Prop :=
  1 <= tMaxHeight p /\
  nKV p = 0 /\ nKey p = 1 /\ nVal p = 2 /\ nHeight p = 3 /\ nNext p = 4.

(* ---- results ---- *)
Inductive res (A : Type) : Type :=
| Ok (a : A)
| Panic
| OutOfFuel.
Arguments Ok {A} a.
Arguments Panic {A}.
Arguments OutOfFuel {A}.

Definition bind {A B} (r : res A) (f : A -> res B) : res B :=
  match r with
  | Ok a => f a
  | Panic => Panic
  | OutOfFuel => OutOfFuel
  end.

Notation "x <- r ;; k" := (bind r (fun x => k)) (at level 61, r at next level, right associativity).
Notation "' pat <- r ;; k" := (bind r (fun x => match x with pat => k end))
  (at level 61, pat pattern, r at next level, right associativity).

(* ---- arrays ---- *)
Definition len {A} (l : list A) : N := N.of_nat (length l).

(* l[i] *)
Definition aget (l : list N) (i : N) : res N :=
  match nth_error l (N.to_nat i) with
  | Some v => Ok v
  | None => Panic
  end.

(* l[i] = v *)
Definition aset (l : list N) (i v : N) : res (list N) :=
  if i <? len l
  then Ok (firstn (N.to_nat i) l ++ v :: skipn (S (N.to_nat i)) l)
  else Panic.

(* b[lo:hi] *)
Definition bslice (b : bytes) (lo hi : N) : res bytes :=
  if (lo <=? hi) && (hi <=? len b)
  then Ok (firstn (N.to_nat (hi - lo)) (skipn (N.to_nat lo) b))
  else Panic.

Record db := mkdb {
  kvData : bytes;
  nodeData : list N;
  maxHeight : N;
  nEnt : Z;       (* field n *)
  kvSize : Z
}.

(* an iterator's slice: nil / &util.Range{Start, Limit} with nil bounds as None *)
Definition range := (option bytes * option bytes)%type.

Record iter := mkiter {
  it_slice : option range;
  it_node : N;
  it_fwd : bool;
  it_key : option bytes;     (* None = nil *)
  it_val : option bytes
}.

Section Model.
  Variable c : comparer.
  Variable p : mparams.

  (* memdb.New: make([]int, 4+tMaxHeight), nodeData[nHeight] = tMaxHeight *)
  Definition mdb_new : res db :=
    nd <- aset (repeat 0 (N.to_nat (4 + tMaxHeight p))) (nHeight p) (tMaxHeight p) ;;
    Ok {| kvData := []; nodeData := nd; maxHeight := 1; nEnt := 0%Z; kvSize := 0%Z |}.

  Definition prev_init : list N := repeat 0 (N.to_nat (tMaxHeight p)).

  (* kvData[o : o+nodeData[x+nKey]] with o = nodeData[x] *)
  Definition node_key (d : db) (x : N) : res bytes :=
    o <- aget (nodeData d) x ;;
    kl <- aget (nodeData d) (x + nKey p) ;;
    bslice (kvData d) o (o + kl).

  Definition is_eq (r : comparison) : bool := match r with Eq => true | _ => false end.

  (* findGE(key, prev): the loop; returns (node, exact, prevNode) *)
  Fixpoint findGE_loop (fuel : nat) (d : db) (key : bytes) (prev : bool)
           (pn : list N) (node h : N) : res (N * bool * list N) :=
    match fuel with
    | O => OutOfFuel
    | S f =>
        next <- aget (nodeData d) (node + nNext p + h) ;;
        r <- (if next =? 0 then Ok Gt
              else k <- node_key d next ;; Ok (cmp c k key)) ;;
        match r with
        | Lt => findGE_loop f d key prev pn next h
        | _ =>
            pn' <- (if prev then aset pn h node else Ok pn) ;;
            if negb prev && is_eq r then Ok (next, true, pn')
            else if h =? 0 then Ok (next, is_eq r, pn')
            else findGE_loop f d key prev pn' node (h - 1)
        end
    end.

  Definition findGE (fuel : nat) (d : db) (key : bytes) (prev : bool) (pn : list N)
    : res (N * bool * list N) :=
    findGE_loop fuel d key prev pn 0 (maxHeight d - 1).

  Fixpoint findLT_loop (fuel : nat) (d : db) (key : bytes) (node h : N) : res N :=
    match fuel with
    | O => OutOfFuel
    | S f =>
        next <- aget (nodeData d) (node + nNext p + h) ;;
        o <- aget (nodeData d) next ;;
        stop <- (if next =? 0 then Ok true
                 else kl <- aget (nodeData d) (next + nKey p) ;;
                      k <- bslice (kvData d) o (o + kl) ;;
                      Ok (negb (match cmp c k key with Lt => true | _ => false end))) ;;
        if stop then
          (if h =? 0 then Ok node else findLT_loop f d key node (h - 1))
        else findLT_loop f d key next h
    end.

  Definition findLT (fuel : nat) (d : db) (key : bytes) : res N :=
    findLT_loop fuel d key 0 (maxHeight d - 1).

  Fixpoint findLast_loop (fuel : nat) (d : db) (node h : N) : res N :=
    match fuel with
    | O => OutOfFuel
    | S f =>
        next <- aget (nodeData d) (node + nNext p + h) ;;
        if next =? 0 then
          (if h =? 0 then Ok node else findLast_loop f d node (h - 1))
        else findLast_loop f d next h
    end.

  Definition findLast (fuel : nat) (d : db) : res N :=
    findLast_loop fuel d 0 (maxHeight d - 1).

  (* for i := from; i < from+cnt; i++ { prevNode[i] = 0 } *)
  Fixpoint zero_prev (cnt : nat) (i : N) (pn : list N) : res (list N) :=
    match cnt with
    | O => Ok pn
    | S cnt' => pn' <- aset pn i 0 ;; zero_prev cnt' (i + 1) pn'
    end.

  (* for i, n := range prevNode[:h] { m := n+nNext+i; nodeData = append(nodeData, nodeData[m]); nodeData[m] = node } *)
  Fixpoint put_link (cnt : nat) (i : N) (pn nd : list N) (node : N) : res (list N) :=
    match cnt with
    | O => Ok nd
    | S cnt' =>
        n <- aget pn i ;;
        v <- aget nd (n + nNext p + i) ;;
        nd' <- aset (nd ++ [v]) (n + nNext p + i) node ;;
        put_link cnt' (i + 1) pn nd' node
    end.

  (* Put(key, value); h is what randHeight() returns if it is called *)
  Definition mdb_put (fuel : nat) (d : db) (key value : bytes) (h : N) : res db :=
    '(node, exact, pn) <- findGE fuel d key true prev_init ;;
    if (exact : bool) then
      let kvOffset := len (kvData d) in
      let kv' := kvData d ++ key ++ value in
      nd1 <- aset (nodeData d) node kvOffset ;;
      m <- aget nd1 (node + nVal p) ;;
      nd2 <- aset nd1 (node + nVal p) (len value) ;;
      Ok {| kvData := kv'; nodeData := nd2; maxHeight := maxHeight d; nEnt := nEnt d;
            kvSize := (kvSize d + (Z.of_N (len value) - Z.of_N m))%Z |}
    else
      pn1 <- (if maxHeight d <? h then zero_prev (N.to_nat (h - maxHeight d)) (maxHeight d) pn
              else Ok pn) ;;
      let mh := if maxHeight d <? h then h else maxHeight d in
      let kvOffset := len (kvData d) in
      let kv' := kvData d ++ key ++ value in
      let node := len (nodeData d) in
      let nd0 := nodeData d ++ [kvOffset; len key; len value; h] in
      (* p.prevNode[:h] on an array of tMaxHeight elements *)
      if tMaxHeight p <? h then Panic else
      nd' <- put_link (N.to_nat h) 0 pn1 nd0 node ;;
      Ok {| kvData := kv'; nodeData := nd'; maxHeight := mh; nEnt := (nEnt d + 1)%Z;
            kvSize := (kvSize d + Z.of_N (len key) + Z.of_N (len value))%Z |}.

  (* for i, n := range prevNode[:h] { m := n+nNext+i; nodeData[m] = nodeData[nodeData[m]+nNext+i] } *)
  Fixpoint del_unlink (cnt : nat) (i : N) (pn nd : list N) : res (list N) :=
    match cnt with
    | O => Ok nd
    | S cnt' =>
        n <- aget pn i ;;
        t <- aget nd (n + nNext p + i) ;;
        v <- aget nd (t + nNext p + i) ;;
        nd' <- aset nd (n + nNext p + i) v ;;
        del_unlink cnt' (i + 1) pn nd'
    end.

  (* Delete(key): (db, found) ; found = false is ErrNotFound *)
  Definition mdb_delete (fuel : nat) (d : db) (key : bytes) : res (db * bool) :=
    '(node, exact, pn) <- findGE fuel d key true prev_init ;;
    if negb exact then Ok (d, false)
    else
      h <- aget (nodeData d) (node + nHeight p) ;;
      if tMaxHeight p <? h then Panic else
      nd' <- del_unlink (N.to_nat h) 0 pn (nodeData d) ;;
      kl <- aget nd' (node + nKey p) ;;
      vl <- aget nd' (node + nVal p) ;;
      Ok ({| kvData := kvData d; nodeData := nd'; maxHeight := maxHeight d;
             nEnt := (nEnt d - 1)%Z;
             kvSize := (kvSize d - (Z.of_N kl + Z.of_N vl))%Z |}, true).

  Definition mdb_contains (fuel : nat) (d : db) (key : bytes) : res bool :=
    '(_, exact, _) <- findGE fuel d key false prev_init ;;
    Ok exact.

  (* Get: None = ErrNotFound *)
  Definition mdb_get (fuel : nat) (d : db) (key : bytes) : res (option bytes) :=
    '(node, exact, _) <- findGE fuel d key false prev_init ;;
    if (exact : bool) then
      a <- aget (nodeData d) node ;;
      kl <- aget (nodeData d) (node + nKey p) ;;
      vl <- aget (nodeData d) (node + nVal p) ;;
      v <- bslice (kvData d) (a + kl) (a + kl + vl) ;;
      Ok (Some v)
    else Ok None.

  (* Find: None = ErrNotFound *)
  Definition mdb_find (fuel : nat) (d : db) (key : bytes) : res (option (bytes * bytes)) :=
    '(node, _, _) <- findGE fuel d key false prev_init ;;
    if node =? 0 then Ok None
    else
      n <- aget (nodeData d) node ;;
      kl <- aget (nodeData d) (node + nKey p) ;;
      let m := n + kl in
      rkey <- bslice (kvData d) n m ;;
      vl <- aget (nodeData d) (node + nVal p) ;;
      v <- bslice (kvData d) m (m + vl) ;;
      Ok (Some (rkey, v)).

  Definition mdb_len (d : db) : Z := nEnt d.
  Definition mdb_size (d : db) : Z := kvSize d.
  (* len(kvData) = Capacity() - Free() *)
  Definition mdb_used (d : db) : N := len (kvData d).

  (* for n := 0; n < tMaxHeight; n++ { nodeData[nNext+n] = 0 } *)
  Fixpoint reset_links (cnt : nat) (i : N) (nd : list N) : res (list N) :=
    match cnt with
    | O => Ok nd
    | S cnt' => nd' <- aset nd (nNext p + i) 0 ;; reset_links cnt' (i + 1) nd'
    end.

  Definition mdb_reset (d : db) : res db :=
    let k := nNext p + tMaxHeight p in
    if len (nodeData d) <? k then Panic else
    let nd0 := firstn (N.to_nat k) (nodeData d) in
    nd1 <- aset nd0 (nKV p) 0 ;;
    nd2 <- aset nd1 (nKey p) 0 ;;
    nd3 <- aset nd2 (nVal p) 0 ;;
    nd4 <- aset nd3 (nHeight p) (tMaxHeight p) ;;
    nd5 <- reset_links (N.to_nat (tMaxHeight p)) 0 nd4 ;;
    Ok {| kvData := []; nodeData := nd5; maxHeight := 1; nEnt := 0%Z; kvSize := 0%Z |}.

  (* ---- iterator (dbIter without the Released part) ---- *)
  Definition new_iter (sl : option range) : iter :=
    {| it_slice := sl; it_node := 0; it_fwd := false; it_key := None; it_val := None |}.

  Definition sl_start (it : iter) : option bytes :=
    match it_slice it with Some (s, _) => s | None => None end.
  Definition sl_limit (it : iter) : option bytes :=
    match it_slice it with Some (_, l) => l | None => None end.

  Definition bail (it : iter) : iter :=
    {| it_slice := it_slice it; it_node := 0; it_fwd := it_fwd it; it_key := None; it_val := None |}.

  Definition with_node (it : iter) (node : N) (fwd : bool) : iter :=
    {| it_slice := it_slice it; it_node := node; it_fwd := fwd; it_key := it_key it; it_val := it_val it |}.

  (* fill(checkStart, checkLimit) *)
  Definition fill (d : db) (it : iter) (checkStart checkLimit : bool) : res (iter * bool) :=
    if it_node it =? 0 then Ok (bail it, false)
    else
      n <- aget (nodeData d) (it_node it) ;;
      kl <- aget (nodeData d) (it_node it + nKey p) ;;
      let m := n + kl in
      key <- bslice (kvData d) n m ;;
      let out_limit := match sl_limit it with
                       | Some l => checkLimit && negb (ltb c key l)
                       | None => false end in
      let out_start := match sl_start it with
                       | Some s => checkStart && ltb c key s
                       | None => false end in
      if out_limit || out_start then Ok (bail it, false)
      else
        vl <- aget (nodeData d) (it_node it + nVal p) ;;
        v <- bslice (kvData d) m (m + vl) ;;
        Ok ({| it_slice := it_slice it; it_node := it_node it; it_fwd := it_fwd it;
               it_key := Some key; it_val := Some v |}, true).

  Definition it_first (fuel : nat) (d : db) (it : iter) : res (iter * bool) :=
    node <- match sl_start it with
            | Some s => '(node, _, _) <- findGE fuel d s false prev_init ;; Ok node
            | None => aget (nodeData d) (nNext p)
            end ;;
    fill d (with_node it node true) false true.

  Definition it_last (fuel : nat) (d : db) (it : iter) : res (iter * bool) :=
    node <- match sl_limit it with
            | Some l => findLT fuel d l
            | None => findLast fuel d
            end ;;
    fill d (with_node it node false) true false.

  Definition it_seek (fuel : nat) (d : db) (it : iter) (key : bytes) : res (iter * bool) :=
    let key' := match sl_start it with
                | Some s => if ltb c key s then s else key
                | None => key end in
    '(node, _, _) <- findGE fuel d key' false prev_init ;;
    fill d (with_node it node true) false true.

  Definition it_next (fuel : nat) (d : db) (it : iter) : res (iter * bool) :=
    if it_node it =? 0 then
      (if negb (it_fwd it) then it_first fuel d it else Ok (it, false))
    else
      node <- aget (nodeData d) (it_node it + nNext p) ;;
      fill d (with_node it node true) false true.

  Definition key_or_nil (k : option bytes) : bytes := match k with Some b => b | None => [] end.

  Definition it_prev (fuel : nat) (d : db) (it : iter) : res (iter * bool) :=
    if it_node it =? 0 then
      (if it_fwd it then it_last fuel d it else Ok (it, false))
    else
      node <- findLT fuel d (key_or_nil (it_key it)) ;;
      fill d (with_node it node false) true false.

  Definition it_valid (it : iter) : bool := negb (it_node it =? 0).

  (* ---- programs: one DB, any number of iterators named by a number ---- *)
  Inductive op :=
  | OPut (k v : bytes) (h : N)
  | ODelete (k : bytes)
  | OGet (k : bytes)
  | OFind (k : bytes)
  | OContains (k : bytes)
  | OLen
  | OSize
  | OUsed
  | OReset
  | ONewIter (id : N) (sl : option range)
  | OFirst (id : N)
  | OLast (id : N)
  | OSeek (id : N) (k : bytes)
  | ONext (id : N)
  | OPrev (id : N).

  Inductive out :=
  | RUnit
  | RFound (b : bool)                       (* Delete: false = ErrNotFound; Contains *)
  | RVal (v : option bytes)                 (* Get *)
  | RKV (kv : option (bytes * bytes))       (* Find *)
  | RNum (z : Z)                            (* Len, Size, Used *)
  | RIter (ret valid : bool) (k v : option bytes)   (* a movement: return value, then Valid/Key/Value *)
  | RNoIter.

  Definition iters := list (N * iter).

  Fixpoint it_lookup (id : N) (its : iters) : option iter :=
    match its with
    | [] => None
    | (i, it) :: r => if i =? id then Some it else it_lookup id r
    end.

  Fixpoint it_store (id : N) (it : iter) (its : iters) : iters :=
    match its with
    | [] => [(id, it)]
    | (i, x) :: r => if i =? id then (id, it) :: r else (i, x) :: it_store id it r
    end.

  Record mstate := { st_db : db; st_its : iters }.

  (* fuel given to every search of an operation: n + maxHeight *)
  Definition op_fuel (d : db) : nat := Z.to_nat (nEnt d) + N.to_nat (maxHeight d).

  Definition move (s : mstate) (id : N) (f : nat -> db -> iter -> res (iter * bool)) : res (mstate * out) :=
    match it_lookup id (st_its s) with
    | None => Ok (s, RNoIter)
    | Some it =>
        '(it', ret) <- f (op_fuel (st_db s)) (st_db s) it ;;
        Ok ({| st_db := st_db s; st_its := it_store id it' (st_its s) |},
            RIter ret (it_valid it') (it_key it') (it_val it'))
    end.

  (* Reset forgets the iterators: an iterator that outlives Reset is outside the model
     (in the code it indexes the truncated/reused arrays). *)
  Definition step (s : mstate) (o : op) : res (mstate * out) :=
    let d := st_db s in
    let fuel := op_fuel d in
    match o with
    | OPut k v h => d' <- mdb_put fuel d k v h ;; Ok ({| st_db := d'; st_its := st_its s |}, RUnit)
    | ODelete k => '(d', found) <- mdb_delete fuel d k ;; Ok ({| st_db := d'; st_its := st_its s |}, RFound found)
    | OGet k => r <- mdb_get fuel d k ;; Ok (s, RVal r)
    | OFind k => r <- mdb_find fuel d k ;; Ok (s, RKV r)
    | OContains k => r <- mdb_contains fuel d k ;; Ok (s, RFound r)
    | OLen => Ok (s, RNum (mdb_len d))
    | OSize => Ok (s, RNum (mdb_size d))
    | OUsed => Ok (s, RNum (Z.of_N (mdb_used d)))
    | OReset => d' <- mdb_reset d ;; Ok ({| st_db := d'; st_its := [] |}, RUnit)
    | ONewIter id sl => Ok ({| st_db := d; st_its := it_store id (new_iter sl) (st_its s) |}, RUnit)
    | OFirst id => move s id it_first
    | OLast id => move s id it_last
    | OSeek id k => move s id (fun f d it => it_seek f d it k)
    | ONext id => move s id it_next
    | OPrev id => move s id it_prev
    end.

  Fixpoint run_from (s : mstate) (ops : list op) : res (mstate * list out) :=
    match ops with
    | [] => Ok (s, [])
    | o :: ops' =>
        '(s', r) <- step s o ;;
        '(s'', rs) <- run_from s' ops' ;;
        Ok (s'', r :: rs)
    end.

  Definition run (ops : list op) : res (list out) :=
    d <- mdb_new ;;
    '(_, rs) <- run_from {| st_db := d; st_its := [] |} ops ;;
    Ok rs.

End Model.
