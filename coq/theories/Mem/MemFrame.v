(* Mem/MemFrame.v — frame facts for the array model: records of distinct allocated nodes do not
   overlap, so a write to one field or link leaves every other field and link as it was; what the
   invariant's components need when nodeData changes only there and kvData only grows
   (proof file). *)
From GL Require Import Base.OrderProofs Mem.MemDB Mem.ArrayLemmas Mem.ListLemmas Mem.MemInv.
From Coq Require Import Lia ZifyBool.
Open Scope N_scope.

Section Frame.
  Variable c : comparer.
  Hypothesis cok : comparer_ok c.
  Variable tmax : N.

  (* head or allocated node, and the height of its record *)
  Definition inh (A : list N) (x : N) : Prop := x = 0 \/ In x A.
  Definition rech (nd : list N) (x : N) : N := if x =? 0 then tmax else hgt nd x.

  Section Slots.
    Variables (nd : list N) (kv : bytes) (mh : N) (A : list N).
    Hypothesis Hhead : 4 + tmax <= len nd.
    Hypothesis Hnodes : Forall (node_ok tmax nd kv mh) A.
    Hypothesis Hdisj : disjoint nd A.

    Lemma node_ok_in x : In x A -> node_ok tmax nd kv mh x.
    Proof. intros H. exact (proj1 (Forall_forall _ _) Hnodes x H). Qed.

    (* two cells of records coincide only if they are the same cell of the same record *)
    Lemma slot_distinct x y a b :
      inh A x -> inh A y -> a < 4 + rech nd x -> b < 4 + rech nd y -> x + a = y + b -> x = y /\ a = b.
    Proof.
      unfold inh, rech. intros Hx Hy Ha Hb E.
      destruct (N.eq_dec x y) as [->|Hne]; [split; [reflexivity|lia]|]. exfalso.
      destruct Hx as [->|Hx], Hy as [->|Hy].
      - congruence.
      - destruct (node_ok_in y Hy) as (H1 & _). rewrite N.eqb_refl in Ha.
        replace (y =? 0) with false in Hb by lia. lia.
      - destruct (node_ok_in x Hx) as (H1 & _). rewrite N.eqb_refl in Hb.
        replace (x =? 0) with false in Ha by lia. lia.
      - destruct (node_ok_in x Hx) as (H1 & _). destruct (node_ok_in y Hy) as (H1' & _).
        replace (x =? 0) with false in Ha by lia. replace (y =? 0) with false in Hb by lia.
        destruct (N.lt_ge_cases x y) as [Hlt|Hge].
        + pose proof (Hdisj x y Hx Hy Hlt). lia.
        + assert (Hlt : y < x) by lia. pose proof (Hdisj y x Hy Hx Hlt). lia.
    Qed.

    Lemma slot_in_bounds x a : inh A x -> a < 4 + rech nd x -> x + a < len nd.
    Proof.
      unfold inh, rech. intros [->|Hx] Ha.
      - rewrite N.eqb_refl in Ha. lia.
      - destruct (node_ok_in x Hx) as (H1 & H2 & H3 & H4 & H5).
        replace (x =? 0) with false in Ha by lia. lia.
    Qed.
  End Slots.

  (* nd' has the same header fields as nd for the nodes of A *)
  Definition same_fields (nd nd' : list N) (A : list N) : Prop :=
    forall x, In x A ->
      rd nd' x = rd nd x /\ rd nd' (x + 1) = rd nd (x + 1) /\
      rd nd' (x + 2) = rd nd (x + 2) /\ hgt nd' x = hgt nd x.

  Section Transfer.
    Variables (nd nd' : list N) (kv extra : bytes) (mh mh' : N) (A : list N).
    Hypothesis Hnodes : Forall (node_ok tmax nd kv mh) A.
    Hypothesis Hsame : same_fields nd nd' A.
    Hypothesis Hlen : len nd <= len nd'.
    Hypothesis Hmh : mh <= mh'.

    Lemma keyof_same x : In x A -> keyof nd' (kv ++ extra) x = keyof nd kv x.
    Proof.
      intros Hx. destruct (Hsame x Hx) as (E0 & E1 & E2 & E3).
      destruct (node_ok_in nd kv mh A Hnodes x Hx) as (H1 & H2 & H3 & H4 & H5).
      unfold keyof. rewrite E0, E1. apply sl_app1. lia.
    Qed.

    Lemma valof_same x : In x A -> valof nd' (kv ++ extra) x = valof nd kv x.
    Proof.
      intros Hx. destruct (Hsame x Hx) as (E0 & E1 & E2 & E3).
      destruct (node_ok_in nd kv mh A Hnodes x Hx) as (H1 & H2 & H3 & H4 & H5).
      unfold valof. rewrite E0, E1, E2. apply sl_app1. lia.
    Qed.

    Lemma kvof_same x : In x A -> kvof nd' (kv ++ extra) x = kvof nd kv x.
    Proof. intros Hx. unfold kvof. now rewrite keyof_same, valof_same. Qed.

    Lemma node_ok_same x : In x A -> node_ok tmax nd' (kv ++ extra) mh' x.
    Proof.
      intros Hx. destruct (Hsame x Hx) as (E0 & E1 & E2 & E3).
      destruct (node_ok_in nd kv mh A Hnodes x Hx) as (H1 & H2 & H3 & H4 & H5).
      unfold node_ok. rewrite E0, E1, E2, E3, len_app. repeat split; lia.
    Qed.

    Lemma disjoint_same : disjoint nd A -> disjoint nd' A.
    Proof.
      intros H x y Hx Hy Hlt. destruct (Hsame x Hx) as (_ & _ & _ & ->). apply H; auto.
    Qed.

    Lemma lvl_same i l : incl l A -> lvl nd' i l = lvl nd i l.
    Proof. intros Hl. apply lvl_ext. intros x Hx. apply Hsame. apply Hl. exact Hx. Qed.

    Lemma key_sorted_same l : incl l A -> key_sorted c nd kv l -> key_sorted c nd' (kv ++ extra) l.
    Proof.
      intros Hl. apply sorted_ext. intros x y Hx Hy.
      rewrite !keyof_same by (apply Hl; assumption). auto.
    Qed.

    Lemma sum_kv_same l : incl l A -> sum_kv nd' l = sum_kv nd l.
    Proof.
      intros Hl. apply sum_kv_ext. intros x Hx. destruct (Hsame x (Hl x Hx)) as (_ & E1 & E2 & _).
      auto.
    Qed.

    Lemma map_kvof_same l : incl l A -> map (kvof nd' (kv ++ extra)) l = map (kvof nd kv) l.
    Proof. intros Hl. apply map_ext_in. intros x Hx. apply kvof_same. apply Hl. exact Hx. Qed.
  End Transfer.

  (* strict order facts about a sorted live list *)
  Lemma key_sorted_NoDup nd kv l : key_sorted c nd kv l -> NoDup l.
  Proof. apply sorted_NoDup. intros x. apply (OrderProofs.lt_irrefl c cok). Qed.
End Frame.
