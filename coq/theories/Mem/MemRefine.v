(* Mem/MemRefine.v — the array model refines the reference: a simulation between model states
   and reference states that every operation preserves, with equal outputs (proof file). *)
From GL Require Import Base.OrderProofs Mem.MemDB Mem.MemSpec Mem.ArrayLemmas Mem.ListLemmas
  Mem.MemInv Mem.MemFrame Mem.MemFind Mem.MemSpecProofs Mem.MemOps Mem.MemIter.
From Coq Require Import Lia ZifyBool.
Open Scope N_scope.

Section Refine.
  Variable c : comparer.
  Hypothesis cok : comparer_ok c.
  Variable p : mparams.
  Hypothesis pok : mparams_ok p.

  Local Notation tmax := (tMaxHeight p).

  Definition Rits (d : db) (L : list N) (its : iters) (cs : cursors) : Prop :=
    Forall2 (fun a b => fst a = fst b /\ Rit c d L (snd a) (snd b)) its cs.

  Definition Rst (s : mstate) (t : sstate) : Prop :=
    exists A L, rep c p (st_db s) A L (sp_map t) (sp_used t) /\ Rits (st_db s) L (st_its s) (sp_cur t).

  Lemma lookup_rel d L its cs id :
    Rits d L its cs ->
    match it_lookup id its, cu_lookup id cs with
    | Some it, Some cu => Rit c d L it cu
    | None, None => True
    | _, _ => False
    end.
  Proof.
    induction 1 as [|(i, it) (j, cu) its cs (Hid & HR) _ IH]; cbn; [exact Logic.I|].
    cbn in Hid. subst j. destruct (i =? id); [exact HR|exact IH].
  Qed.

  Lemma store_rel d L its cs id it cu :
    Rits d L its cs -> Rit c d L it cu -> Rits d L (it_store id it its) (cu_store id cu cs).
  Proof.
    intros H HR. induction H as [|(i, it0) (j, cu0) its cs (Hid & HR0) Htl IH]; cbn.
    - constructor; [split; [reflexivity|exact HR]|constructor].
    - cbn in Hid. subst j. destruct (i =? id).
      + constructor; [split; [reflexivity|exact HR]|exact Htl].
      + constructor; [split; [reflexivity|exact HR0]|exact IH].
  Qed.

  (* the iterators survive a write that keeps every live node they may stand on *)
  Lemma Rits_keep d d' L L' its cs :
    (forall y, In y L -> In y L' /\ keyof (nodeData d') (kvData d') y = keyof (nodeData d) (kvData d) y) ->
    Rits d L its cs -> Rits d' L' its cs.
  Proof.
    intros Hk H. induction H as [|(i, it) (j, cu) its cs (Hid & HR) _ IH]; constructor; [|exact IH].
    split; [exact Hid|]. cbn [snd] in *. destruct HR as (H1 & H2 & H3). split; [exact H1|]. split; [exact H2|].
    destruct (cu_cur cu) as [(k, v)|]; [|exact H3].
    destruct H3 as (A1 & A2 & A3 & A4 & A5). repeat split; auto.
    - destruct (A5 H) as (B1 & B2). apply (Hk _ B1).
    - destruct (A5 H) as (B1 & B2). destruct (Hk _ B1) as (_ & ->). exact B2.
  Qed.

  Lemma Rits_delete d d' L L' its cs k :
    (forall y, In y L -> keyof (nodeData d) (kvData d) y <> k ->
               In y L' /\ keyof (nodeData d') (kvData d') y = keyof (nodeData d) (kvData d) y) ->
    Rits d L its cs -> Rits d' L' its (mark_stale c k cs).
  Proof.
    intros Hk H. induction H as [|(i, it) (j, cu) its cs (Hid & HR) _ IH]; cbn [mark_stale map]; constructor;
      [|exact IH].
    cbn [fst snd] in *. destruct HR as (H1 & H2 & H3).
    destruct (cu_cur cu) as [(k', v)|] eqn:Ecur.
    - destruct (is_eq (cmp c k' k)) eqn:Eeq.
      + cbn [fst snd]. split; [exact Hid|]. unfold Rit. cbn [cu_slice cu_fwd cu_cur cu_stale].
        split; [exact H1|]. split; [exact H2|]. try rewrite Ecur.
        destruct H3 as (A1 & A2 & A3 & A4 & A5). repeat split; auto; discriminate.
      + cbn [fst snd]. split; [exact Hid|]. unfold Rit. split; [exact H1|]. split; [exact H2|]. rewrite Ecur.
        destruct H3 as (A1 & A2 & A3 & A4 & A5). repeat split; auto.
        * destruct (A5 H) as (B1 & B2). apply (Hk _ B1). rewrite B2. intros ->.
          rewrite (cmp_refl c cok) in Eeq. discriminate.
        * destruct (A5 H) as (B1 & B2). destruct (Hk _ B1) as (_ & ->); [|exact B2].
          rewrite B2. intros ->. rewrite (cmp_refl c cok) in Eeq. discriminate.
    - cbn [fst snd]. split; [exact Hid|]. unfold Rit. rewrite Ecur. auto.
  Qed.

  Lemma move_rel s t id (fm : nat -> db -> iter -> res (iter * bool)) (fs : smap -> cursor -> option cursor) t' r :
    Rst s t ->
    (forall A L it cu cu',
        Inv c tmax (st_db s) A L -> abs (st_db s) L = sp_map t -> Rit c (st_db s) L it cu ->
        fs (sp_map t) cu = Some cu' ->
        move_ok c (st_db s) L it cu cu' (fm (op_fuel (st_db s)) (st_db s) it)) ->
    smove t id fs = Some (t', r) ->
    exists s', move s id fm = Ok (s', r) /\ Rst s' t'.
  Proof.
    intros (A & L & (I & Eabs & Eused) & HR) Hm. unfold smove, move.
    pose proof (lookup_rel _ _ _ _ id HR) as Hl.
    destruct (it_lookup id (st_its s)) as [it|], (cu_lookup id (sp_cur t)) as [cu|]; try contradiction.
    - destruct (fs (sp_map t) cu) as [cu'|] eqn:Efs; [|discriminate]. intros E. injection E as <- <-.
      destruct (Hm A L it cu cu' I Eabs Hl Efs) as (it' & ret & E & HR' & Hout).
      rewrite E. cbn [bind]. eexists. split; [rewrite Hout; reflexivity|].
      exists A, L. cbn [st_db st_its sp_map sp_used sp_cur]. split; [split; [exact I|split; [exact Eabs|exact Eused]]|].
      apply store_rel; assumption.
    - intros E. injection E as <- <-. exists s. split; [reflexivity|]. exists A, L. split; [split; [exact I|split; [exact Eabs|exact Eused]]|exact HR].
  Qed.

  Lemma step_rel s t o t' r :
    Rst s t ->
    match o with OPut _ _ h => 1 <= h /\ h <= tmax | _ => True end ->
    spec_step c t o = Some (t', r) ->
    exists s', step c p s o = Ok (s', r) /\ Rst s' t'.
  Proof.
    intros HRst Hh Hs. pose proof HRst as (A & L & Hrep & HR).
    destruct o; cbn [spec_step step] in *.
    - (* Put *)
      injection Hs as <- <-. destruct Hh as (Hh1 & Hh2).
      destruct (put_ok c cok p pok _ A L _ _ k v h Hrep Hh1 Hh2) as (d' & A' & L' & E & Hrep' & Hkeep).
      rewrite E. cbn [bind]. eexists. split; [reflexivity|]. exists A', L'. cbn [st_db st_its sp_map sp_used sp_cur].
      split; [exact Hrep'|]. eapply Rits_keep; eauto.
    - (* Delete *)
      destruct (delete_ok c cok p pok _ A L _ _ k Hrep) as (d' & L' & found & E & Hcase).
      rewrite E. cbn [bind].
      destruct (s_get c k (sp_map t)) eqn:Eg.
      + injection Hs as <- <-. destruct Hcase as (-> & Hrep' & Hkeep).
        eexists. split; [reflexivity|]. exists A, L'. cbn [st_db st_its sp_map sp_used sp_cur].
        split; [exact Hrep'|]. eapply Rits_delete; eauto.
      + injection Hs as <- <-. destruct Hcase as (-> & -> & ->).
        eexists. split; [reflexivity|]. exists A, L. destruct s; cbn. split; assumption.
    - injection Hs as <- <-. rewrite (get_ok c cok p pok _ A L _ _ k Hrep). cbn [bind]. eauto.
    - injection Hs as <- <-. rewrite (find_ok c cok p pok _ A L _ _ k Hrep). cbn [bind]. eauto.
    - injection Hs as <- <-. rewrite (contains_ok c cok p pok _ A L _ _ k Hrep). cbn [bind]. eauto.
    - injection Hs as <- <-. rewrite (len_ok c p _ A L _ _ Hrep). eauto.
    - injection Hs as <- <-. rewrite (size_ok c p _ A L _ _ Hrep). eauto.
    - injection Hs as <- <-. rewrite (used_ok c p _ A L _ _ Hrep). eauto.
    - (* Reset *)
      injection Hs as <- <-. destruct Hrep as (I & _).
      destruct (reset_ok c p pok (st_db s) (inv_head _ _ _ _ _ I)) as (d' & E & Hrep').
      rewrite E. cbn [bind]. eexists. split; [reflexivity|]. exists [], []. split; [exact Hrep'|constructor].
    - (* NewIter *)
      injection Hs as <- <-. eexists. split; [reflexivity|]. exists A, L. cbn [st_db st_its sp_map sp_used sp_cur].
      split; [exact Hrep|]. apply store_rel; [exact HR|]. unfold Rit. cbn. auto.
    - eapply (move_rel s t id (it_first c p) (fun m cu => Some (c_first c m cu))); eauto.
      intros A0 L0 it cu cu' I Eabs HRit E. injection E as <-. rewrite <- Eabs.
      apply (it_first_ok c cok p pok _ A0 L0 I). exact HRit.
    - eapply (move_rel s t id (it_last c p) (fun m cu => Some (c_last c m cu))); eauto.
      intros A0 L0 it cu cu' I Eabs HRit E. injection E as <-. rewrite <- Eabs.
      apply (it_last_ok c cok p pok _ A0 L0 I). exact HRit.
    - eapply (move_rel s t id (fun f d it => it_seek c p f d it k) (fun m cu => Some (c_seek c m cu k))); eauto.
      intros A0 L0 it cu cu' I Eabs HRit E. injection E as <-. rewrite <- Eabs.
      apply (it_seek_ok c cok p pok _ A0 L0 I). exact HRit.
    - eapply (move_rel s t id (it_next c p) (c_next c)); eauto.
      intros A0 L0 it cu cu' I Eabs HRit E. rewrite <- Eabs in E.
      apply (it_next_ok c cok p pok _ A0 L0 I it cu cu' HRit E).
    - eapply (move_rel s t id (it_prev c p) (fun m cu => Some (c_prev c m cu))); eauto.
      intros A0 L0 it cu cu' I Eabs HRit E. injection E as <-. rewrite <- Eabs.
      apply (it_prev_ok c cok p pok _ A0 L0 I). exact HRit.
  Qed.

  Lemma run_from_rel ops :
    forall s t t' outs,
      Rst s t -> heights_ok tmax ops ->
      spec_run_from c t ops = Some (t', outs) ->
      exists s', run_from c p s ops = Ok (s', outs) /\ Rst s' t'.
  Proof.
    induction ops as [|o ops IH]; intros s t t' outs HR Hh; cbn [spec_run_from run_from].
    - intros E. injection E as <- <-. eauto.
    - destruct (spec_step c t o) as [(t1, r)|] eqn:Es; [|discriminate].
      destruct (spec_run_from c t1 ops) as [(t2, rs)|] eqn:Er; [|discriminate].
      intros E. injection E as <- <-.
      inversion Hh as [|? ? Ho Hops]; subst.
      destruct (step_rel s t o t1 r HR Ho Es) as (s1 & E1 & HR1).
      destruct (IH s1 t1 t2 rs HR1 Hops Er) as (s2 & E2 & HR2).
      rewrite E1. cbn [bind]. rewrite E2. cbn [bind]. eauto.
  Qed.

  Lemma init_rel : exists d, mdb_new p = Ok d /\ Rst {| st_db := d; st_its := [] |} (sp_init).
  Proof.
    destruct (new_ok c p pok) as (d & E & Hrep). exists d. split; [exact E|].
    exists [], []. split; [exact Hrep|constructor].
  Qed.

  (* every program the reference answers is answered identically by the array model *)
  Theorem refines ops outs :
    heights_ok tmax ops -> spec_run c ops = Some outs -> run c p ops = Ok outs.
  Proof.
    intros Hh. unfold spec_run, run.
    destruct (spec_run_from c sp_init ops) as [(t', outs')|] eqn:E; [|discriminate].
    cbn [option_map snd]. intros E'. injection E' as <-.
    destruct init_rel as (d & -> & HR). cbn [bind].
    destruct (run_from_rel ops _ _ _ _ HR Hh E) as (s' & -> & _). reflexivity.
  Qed.

  (* Len and Size agree with the contents after every answered program *)
  Theorem len_size ops t outs :
    heights_ok tmax ops -> spec_run_from c sp_init ops = Some (t, outs) ->
    exists d s,
      mdb_new p = Ok d /\ run_from c p {| st_db := d; st_its := [] |} ops = Ok (s, outs) /\
      mdb_len (st_db s) = Z.of_nat (length (sp_map t)) /\
      mdb_size (st_db s) = s_size (sp_map t) /\
      smap_sorted c (sp_map t).
  Proof.
    intros Hh E. destruct init_rel as (d & Ed & HR).
    destruct (run_from_rel ops _ _ _ _ HR Hh E) as (s' & Er & (A & L & Hrep & _)).
    exists d, s'. split; [exact Ed|]. split; [exact Er|].
    split; [exact (len_ok c p _ A L _ _ Hrep)|]. split; [exact (size_ok c p _ A L _ _ Hrep)|].
    destruct Hrep as (I & <- & _). apply abs_sorted. apply (inv_sorted _ _ _ _ _ I).
  Qed.
End Refine.
