(* Mem/MemDelete.v — Delete on the array model: what the unlink loop does to nodeData; Delete of a
   present key preserves the representation invariant, removes exactly that node from every
   level and leaves the unlinked node's own links as they were (proof file). *)
From GL Require Import Base.OrderProofs Mem.MemDB Mem.MemSpec Mem.ArrayLemmas Mem.ListLemmas
  Mem.MemInv Mem.MemFrame Mem.MemFind Mem.MemSpecProofs Mem.MemPut.
From Coq Require Import Lia ZifyBool.
Open Scope N_scope.

Section Delete.
  Variable c : comparer.
  Hypothesis cok : comparer_ok c.
  Variable p : mparams.
  Hypothesis pok : mparams_ok p.

  Local Notation tmax := (tMaxHeight p).

  (* ---- the unlink loop ---- *)
  Lemma del_unlink_spec (pn : list N) :
    forall cnt i (nd : list N),
      i + N.of_nat cnt <= len pn ->
      (forall l, i <= l < i + N.of_nat cnt ->
                 rd pn l + 4 + l < len nd /\ rd nd (rd pn l + 4 + l) + 4 + l < len nd) ->
      (forall l l', i <= l < i + N.of_nat cnt -> i <= l' < i + N.of_nat cnt -> l <> l' ->
                    rd pn l + l <> rd pn l' + l' /\ rd nd (rd pn l + 4 + l) + l <> rd pn l' + l') ->
      exists nd',
        del_unlink p cnt i pn nd = Ok nd' /\
        len nd' = len nd /\
        (forall s, (forall l, i <= l < i + N.of_nat cnt -> s <> rd pn l + 4 + l) -> rd nd' s = rd nd s) /\
        (forall l, i <= l < i + N.of_nat cnt ->
                   rd nd' (rd pn l + 4 + l) = rd nd (rd nd (rd pn l + 4 + l) + 4 + l)).
  Proof.
    induction cnt as [|cnt IH]; intros i nd Hpn Hin Hdist.
    - exists nd. cbn [del_unlink]. split; [reflexivity|]. split; [reflexivity|]. split; [auto|]. intros l Hl. lia.
    - cbn [del_unlink]. rewrite (Enext p pok).
      rewrite (aget_ok pn i) by lia. cbn [bind].
      set (m := rd pn i + 4 + i).
      destruct (Hin i) as (Hm & Ht); [lia|]. fold m in Hm, Ht.
      rewrite (aget_ok nd m) by exact Hm. cbn [bind].
      rewrite (aget_ok nd (rd nd m + 4 + i)) by exact Ht. cbn [bind].
      rewrite (aset_ok nd m _ Hm). cbn [bind].
      set (v := rd nd (rd nd m + 4 + i)).
      set (nd2 := upd nd m v).
      assert (Hl2 : len nd2 = len nd) by (unfold nd2; apply len_upd; exact Hm).
      assert (Hsame : forall l, i + 1 <= l < i + 1 + N.of_nat cnt -> rd nd2 (rd pn l + 4 + l) = rd nd (rd pn l + 4 + l)).
      { intros l Hl. unfold nd2. apply rd_upd_other; [exact Hm|]. unfold m.
        destruct (Hdist l i); lia. }
      destruct (IH (i + 1) nd2) as (nd' & E & Hl' & Hun & Hhit).
      + lia.
      + intros l Hl. rewrite Hl2, Hsame by exact Hl. apply Hin. lia.
      + intros l l' Hl Hl' Hne. rewrite Hsame by exact Hl. apply Hdist; lia.
      + exists nd'. split; [exact E|]. split; [lia|]. split.
        * intros s Hne. rewrite Hun.
          -- unfold nd2. apply rd_upd_other; [exact Hm|]. apply Hne. lia.
          -- intros l Hl. apply Hne. lia.
        * intros l Hl. destruct (N.eq_dec l i) as [->|Hne].
          -- fold m. rewrite Hun.
             ++ unfold nd2. apply rd_upd_same. exact Hm.
             ++ intros l Hl3. unfold m. destruct (Hdist i l); lia.
          -- rewrite Hhit by lia. rewrite Hsame by lia.
             unfold nd2. apply rd_upd_other; [exact Hm|]. unfold m.
             destruct (Hdist l i); lia.
  Qed.

  Section WithInv.
    Variables (d : db) (A L : list N).
    Hypothesis I : Inv c tmax d A L.
    Local Notation nd := (nodeData d).
    Local Notation kv := (kvData d).
    Variables (k : bytes) (x : N) (Lb Lr : list N).
    Hypothesis EL : L = Lb ++ x :: Lr.
    Hypothesis Hb : Forall (ltk c d k) Lb.
    Hypothesis Hx : cmp c (keyof nd kv x) k = Eq.

    Local Notation q := (qof d Lb).
    Local Notation h := (hgt nd x).

    Let H11 : 1 <= 1 /\ 1 <= tmax.
    Proof. split; [lia|apply (tmax_pos p pok)]. Qed.

    Lemma del_xA : In x A.
    Proof. apply (inv_sub _ _ _ _ _ I). rewrite EL. apply in_or_app. right. left. reflexivity. Qed.

    Lemma del_xok : node_ok tmax nd kv (maxHeight d) x.
    Proof. exact (inv_node_A c tmax d A L I x del_xA). Qed.

    Lemma del_q_props l : l < tmax -> inh A (q l) /\ l < rech tmax nd (q l) /\ (q l = 0 \/ In (q l) Lb).
    Proof. exact (qof_props c p d A L I 1 Lb (x :: Lr) EL H11 l). Qed.

    Lemma del_q_bound l : l < tmax -> q l + 4 + l < len nd.
    Proof. exact (qof_slot_bound c p d A L I 1 Lb (x :: Lr) EL H11 l). Qed.

    Lemma del_slot_eq y i l :
      inh A y -> i < rech tmax nd y -> l < tmax -> y + 4 + i = q l + 4 + l -> y = q l /\ i = l.
    Proof. exact (slot_eq c p d A L I 1 Lb (x :: Lr) EL H11 y i l). Qed.

    Lemma del_field_not_slot y f l : inh A y -> f < 4 -> l < tmax -> y + f <> q l + 4 + l.
    Proof. exact (field_not_slot c p d A L I 1 Lb (x :: Lr) EL H11 y f l). Qed.

    Lemma del_notin : ~ In x Lb /\ ~ In x Lr.
    Proof.
      assert (HND : NoDup L) by (apply (key_sorted_NoDup c cok nd kv); apply (inv_sorted _ _ _ _ _ I)).
      rewrite EL in HND. split; intros Hin.
      - apply (NoDup_app_disjoint Lb (x :: Lr) x HND Hin). left. reflexivity.
      - apply NoDup_app_r in HND. inversion HND; auto.
    Qed.

    Lemma del_x_ne_q l : l < tmax -> x <> q l.
    Proof.
      intros Hl E. destruct (del_q_props l Hl) as (_ & _ & [Q|Q]).
      - rewrite Q in E. exact (inv_nonzero c tmax d A L I x del_xA E).
      - rewrite <- E in Q. exact (proj1 del_notin Q).
    Qed.

    Lemma del_rech_x : rech tmax nd x = h.
    Proof.
      unfold rech. pose proof (inv_nonzero c tmax d A L I x del_xA).
      replace (x =? 0) with false by lia. reflexivity.
    Qed.

    (* on every level of x, the node before it points to it *)
    Lemma del_pred_points l : l < h -> nx nd (q l) l = x.
    Proof.
      intros Hl. destruct del_xok as (H1 & H2 & H3 & H4 & H5).
      destruct (inv_mh _ _ _ _ _ I) as (Hmh1 & Hmh2).
      pose proof (inv_chain _ _ _ _ _ I l ltac:(lia)) as Hc.
      rewrite EL, lvl_app in Hc. unfold lvl at 2 in Hc. cbn [filter] in Hc.
      replace (l <? hgt nd x) with true in Hc by lia.
      apply path_app_cons in Hc as (Hc & _). apply path_last in Hc. exact Hc.
    Qed.

    Lemma del_lvl_old l :
      lvl nd l L = lvl nd l Lb ++ (if l <? h then [x] else []) ++ lvl nd l Lr.
    Proof.
      rewrite EL, lvl_app. unfold lvl at 2. cbn [filter]. destruct (l <? hgt nd x); reflexivity.
    Qed.

    (* what nodeData looks like after the unlink loop *)
    Definition del_shape (nd' : list N) : Prop :=
      len nd' = len nd /\
      (forall l, l < h -> rd nd' (q l + 4 + l) = nx nd x l) /\
      (forall s, (forall l, l < h -> s <> q l + 4 + l) -> rd nd' s = rd nd s).

    Section Shape.
      Variable nd' : list N.
      Hypothesis S : del_shape nd'.

      Lemma del_same_fields : same_fields nd nd' A.
      Proof.
        destruct S as (S1 & S2 & S3). destruct del_xok as (H1 & H2 & H3 & H4 & H5).
        destruct (inv_mh _ _ _ _ _ I) as (Hmh1 & Hmh2).
        intros y Hy. assert (Hi : inh A y) by (right; exact Hy). unfold hgt.
        repeat split; apply S3; intros l Hl.
        - replace y with (y + 0) by lia. apply del_field_not_slot; auto; lia.
        - apply del_field_not_slot; auto; lia.
        - apply del_field_not_slot; auto; lia.
        - apply del_field_not_slot; auto; lia.
      Qed.

      Lemma del_nx y i :
        inh A y -> i < rech tmax nd y ->
        nx nd' y i = if (i <? h) && (y =? q i) then nx nd x i else nx nd y i.
      Proof.
        destruct S as (S1 & S2 & S3). destruct del_xok as (H1 & H2 & H3 & H4 & H5).
        destruct (inv_mh _ _ _ _ _ I) as (Hmh1 & Hmh2).
        intros Hy Hi. unfold nx.
        destruct ((i <? h) && (y =? q i)) eqn:E.
        - assert (y = q i) by lia. subst y. apply S2. lia.
        - apply S3. intros l Hl Heq.
          destruct (del_slot_eq y i l Hy Hi) as (E1 & E2); [lia|exact Heq|]. subst l y. lia.
      Qed.

      (* the unlinked node keeps its own links *)
      Lemma del_nx_x i : i < h -> nx nd' x i = nx nd x i.
      Proof.
        intros Hi. destruct del_xok as (H1 & H2 & H3 & H4 & H5).
        destruct (inv_mh _ _ _ _ _ I) as (Hmh1 & Hmh2).
        rewrite del_nx; [|right; exact del_xA|rewrite del_rech_x; exact Hi].
        pose proof (del_x_ne_q i ltac:(lia)).
        replace (x =? q i) with false by lia. now rewrite andb_false_r.
      Qed.

      Lemma del_inv :
        Inv c tmax {| kvData := kv; nodeData := nd'; maxHeight := maxHeight d; nEnt := (nEnt d - 1)%Z;
                      kvSize := (kvSize d - (Z.of_N (rd nd (x + 1)) + Z.of_N (rd nd (x + 2))))%Z |}
            A (Lb ++ Lr).
      Proof.
        pose proof S as (S1 & S2 & S3).
        pose proof (inv_head _ _ _ _ _ I) as Hhead.
        destruct (inv_mh _ _ _ _ _ I) as (Hmh1 & Hmh2).
        pose proof (inv_sub _ _ _ _ _ I) as Hsub.
        pose proof (inv_nodes _ _ _ _ _ I) as Hnodes.
        destruct del_xok as (X1 & X2 & X3 & X4 & X5).
        destruct del_notin as (Nb & Nr).
        assert (HLbA : incl Lb A).
        { intros y Hy. apply Hsub. rewrite EL. apply in_or_app. left. exact Hy. }
        assert (HLrA : incl Lr A).
        { intros y Hy. apply Hsub. rewrite EL. apply in_or_app. right. right. exact Hy. }
        assert (Hlenle : len nd <= len nd') by lia.
        assert (Hmhle : maxHeight d <= maxHeight d) by lia.
        constructor; cbn [nodeData kvData maxHeight nEnt kvSize].
        - lia.
        - lia.
        - apply Forall_forall. intros y Hy.
          pose proof (node_ok_same tmax nd nd' kv [] (maxHeight d) (maxHeight d) A Hnodes del_same_fields Hlenle Hmhle y Hy) as H.
          rewrite app_nil_r in H. exact H.
        - apply (disjoint_same nd nd' A del_same_fields). apply (inv_disj _ _ _ _ _ I).
        - intros y Hy. apply in_app_or in Hy. destruct Hy; auto.
        - pose proof (inv_sorted _ _ _ _ _ I) as HS. rewrite EL in HS.
          apply sorted_app in HS as (HS1 & HS2 & HS3). destruct HS2 as (_ & HS2).
          assert (HS' : key_sorted c nd kv (Lb ++ Lr)).
          { apply sorted_app. split; [exact HS1|]. split; [exact HS2|].
            eapply Forall_impl; [|exact HS3]. intros a Ha. inversion Ha; auto. }
          pose proof (key_sorted_same c tmax nd nd' kv [] (maxHeight d) (maxHeight d) A Hnodes del_same_fields Hlenle Hmhle
                        (Lb ++ Lr)) as H.
          rewrite app_nil_r in H. apply H; [|exact HS'].
          intros y Hy. apply in_app_or in Hy. destruct Hy; auto.
        - (* chains *)
          intros i Hi.
          rewrite (lvl_same nd nd' A del_same_fields i (Lb ++ Lr)).
          2:{ intros y Hy. apply in_app_or in Hy. destruct Hy; auto. }
          rewrite lvl_app.
          pose proof (inv_chain _ _ _ _ _ I i Hi) as Hc. rewrite del_lvl_old in Hc.
          assert (HND : NoDup L) by (apply (key_sorted_NoDup c cok nd kv); apply (inv_sorted _ _ _ _ _ I)).
          assert (Hin_lvl : forall u l, In u (lvl nd i l) -> incl l A -> inh A u /\ i < rech tmax nd u).
          { intros u l Hu Hl. apply lvl_incl in Hu as (Hu1 & Hu2). split; [right; auto|].
            unfold rech. pose proof (inv_nonzero c tmax d A L I u (Hl u Hu1)).
            replace (u =? 0) with false by lia. exact Hu2. }
          assert (Hhead_in : inh A 0 /\ i < rech tmax nd 0).
          { split; [left; reflexivity|]. unfold rech. rewrite N.eqb_refl. exact Hi. }
          assert (Hrest : forall u, In u (lvl nd i Lr) -> nx nd' u i = nx nd u i).
          { intros u Hu. destruct (Hin_lvl u Lr Hu HLrA) as (U1 & U2).
            rewrite del_nx by assumption.
            destruct (N.eq_dec u (q i)) as [E|E]; [|replace (u =? q i) with false by lia; now rewrite andb_false_r].
            exfalso. apply lvl_incl in Hu as (Hu & _).
            destruct (del_q_props i Hi) as (_ & _ & [Q|Q]).
            - rewrite Q in E. exact (inv_nonzero c tmax d A L I u (HLrA u Hu) E).
            - rewrite EL in HND. rewrite <- E in Q.
              apply (NoDup_app_disjoint Lb (x :: Lr) u HND Q). right. exact Hu. }
          destruct (i <? h) eqn:Eih.
          + cbn [app] in Hc. apply path_app_cons in Hc as (Hc1 & Hc2).
            apply path_app. split.
            * apply (path_upd_last nd nd' i 0 (lvl nd i Lb) x (hd 0 (lvl nd i Lr))).
              -- constructor.
                 ++ intros H0. apply lvl_incl in H0 as (H0 & _).
                    exact (inv_nonzero c tmax d A L I 0 (HLbA 0 H0) eq_refl).
                 ++ unfold lvl. apply NoDup_filter. rewrite EL in HND. apply NoDup_app_l in HND. exact HND.
              -- intros u Hu Hne.
                 assert (Hu' : inh A u /\ i < rech tmax nd u).
                 { destruct Hu as [<-|Hu]; [exact Hhead_in|exact (Hin_lvl u Lb Hu HLbA)]. }
                 rewrite del_nx by tauto. fold (q i) in Hne.
                 replace (u =? q i) with false by lia. rewrite andb_false_r. reflexivity.
              -- fold (q i). destruct (del_q_props i Hi) as (Q1 & Q2 & _).
                 rewrite del_nx by assumption. rewrite Eih, N.eqb_refl. cbn [andb].
                 exact (path_hd _ _ _ _ _ Hc2).
              -- exact Hc1.
            * fold (q i).
              assert (Hq : nx nd' (q i) i = nx nd x i).
              { destruct (del_q_props i Hi) as (Q1 & Q2 & _).
                rewrite del_nx by assumption. now rewrite Eih, N.eqb_refl. }
              destruct (lvl nd i Lr) as [|z r] eqn:ELr.
              -- cbn [path] in *. rewrite Hq. exact Hc2.
              -- cbn [path] in *. destruct Hc2 as (Hz & Hc2). split; [rewrite Hq; exact Hz|].
                 apply (path_ext nd nd' i z r 0); [|exact Hc2].
                 intros u Hu. apply Hrest. exact Hu.
          + cbn [app] in Hc. apply path_app in Hc as (Hc1 & Hc2). apply path_app. split.
            * apply (path_ext nd nd' i 0 (lvl nd i Lb)); [|exact Hc1].
              intros u Hu.
              assert (Hu' : inh A u /\ i < rech tmax nd u).
              { destruct Hu as [<-|Hu]; [exact Hhead_in|exact (Hin_lvl u Lb Hu HLbA)]. }
              rewrite del_nx by tauto. rewrite Eih. reflexivity.
            * fold (q i) in *.
              assert (Hq : nx nd' (q i) i = nx nd (q i) i).
              { destruct (del_q_props i Hi) as (Q1 & Q2 & _). rewrite del_nx by assumption. now rewrite Eih. }
              destruct (lvl nd i Lr) as [|z r] eqn:ELr.
              -- cbn [path] in *. rewrite Hq. exact Hc2.
              -- cbn [path] in *. destruct Hc2 as (Hz & Hc2). split; [rewrite Hq; exact Hz|].
                 apply (path_ext nd nd' i z r 0); [|exact Hc2].
                 intros u Hu. apply Hrest. exact Hu.
        - rewrite (inv_n _ _ _ _ _ I), EL, !app_length. cbn [length]. lia.
        - rewrite (inv_size _ _ _ _ _ I), EL, !sum_kv_app. cbn [sum_kv].
          rewrite (sum_kv_same nd nd' A del_same_fields Lb HLbA).
          rewrite (sum_kv_same nd nd' A del_same_fields Lr HLrA). lia.
      Qed.

      Lemma del_abs :
        map (kvof nd' kv) (Lb ++ Lr) = map (kvof nd kv) Lb ++ map (kvof nd kv) Lr.
      Proof.
        pose proof S as (S1 & S2 & S3).
        pose proof (inv_sub _ _ _ _ _ I) as Hsub.
        pose proof (inv_nodes _ _ _ _ _ I) as Hnodes.
        rewrite <- map_app.
        pose proof (map_kvof_same tmax nd nd' kv [] (maxHeight d) (maxHeight d) A Hnodes del_same_fields
                      ltac:(lia) ltac:(lia) (Lb ++ Lr)) as H.
        rewrite app_nil_r in H. apply H.
        intros y Hy. apply Hsub. rewrite EL. apply in_app_or in Hy. apply in_or_app.
        destruct Hy; [left; auto|right; right; auto].
      Qed.
    End Shape.

    Lemma delete_run fuel :
      Forall (gek c d k) (x :: Lr) ->
      (length L + N.to_nat (maxHeight d) <= fuel)%nat ->
      exists nd',
        mdb_delete c p fuel d k =
          Ok ({| kvData := kv; nodeData := nd'; maxHeight := maxHeight d; nEnt := (nEnt d - 1)%Z;
                 kvSize := (kvSize d - (Z.of_N (rd nd (x + 1)) + Z.of_N (rd nd (x + 2))))%Z |}, true) /\
        del_shape nd'.
    Proof.
      intros Hr Hfuel.
      destruct (inv_mh _ _ _ _ _ I) as (Hmh1 & Hmh2).
      destruct del_xok as (X1 & X2 & X3 & X4 & X5).
      destruct (findGE_ok c cok p pok d A L I k true Lb (x :: Lr) fuel EL Hb Hr Hfuel) as (pn & E & Hlpn & Hpn).
      specialize (Hpn eq_refl).
      assert (Hpn' : forall j, j < tmax -> rd pn j = q j) by exact Hpn. clear Hpn. rename Hpn' into Hpn.
      unfold mdb_delete. rewrite E. cbn [bind hd exact_of]. rewrite Hx. cbn [is_eq negb].
      rewrite (Ehgt p pok). rewrite (aget_ok nd (x + 3)) by lia. cbn [bind].
      change (rd nd (x + 3)) with h.
      replace (tMaxHeight p <? h) with false by lia.
      destruct (del_unlink_spec pn (N.to_nat h) 0 nd) as (nd' & E' & Hl' & Hun & Hhit).
      - lia.
      - intros l Hl. rewrite Hpn by lia. split; [apply del_q_bound; lia|].
        change (rd nd (q l + 4 + l)) with (nx nd (q l) l). rewrite del_pred_points by lia. lia.
      - intros l l' Hl Hl' Hne. rewrite !Hpn by lia.
        change (rd nd (q l + 4 + l)) with (nx nd (q l) l). rewrite del_pred_points by lia.
        destruct (del_q_props l) as (Q1 & Q2 & _); [lia|]. split.
        + intros Heq. destruct (del_slot_eq (q l) l l' Q1 Q2); [lia|lia|]. lia.
        + intros Heq.
          destruct (del_slot_eq x l l'); [right; exact del_xA|rewrite del_rech_x; lia|lia|lia|]. lia.
      - rewrite E'. cbn [bind].
        assert (Hsh : del_shape nd').
        { split; [exact Hl'|]. split.
          - intros l Hl. rewrite <- (Hpn l) by lia. rewrite Hhit by lia. rewrite Hpn by lia.
            change (rd nd (q l + 4 + l)) with (nx nd (q l) l). rewrite del_pred_points by lia. reflexivity.
          - intros s Hne. apply Hun. intros l Hl. rewrite Hpn by lia. apply Hne. lia. }
        destruct (del_same_fields nd' Hsh x del_xA) as (_ & F1 & F2 & _).
        rewrite (Ekey p pok), (Eval p pok).
        rewrite (aget_ok nd' (x + 1)) by lia. cbn [bind].
        rewrite (aget_ok nd' (x + 2)) by lia. cbn [bind].
        rewrite F1, F2. exists nd'. split; [reflexivity|exact Hsh].
    Qed.
  End WithInv.
End Delete.
