(* Corr/C06Run.v — C06 correspondence evaluator: the shared L1 cases (Corr/LsmRun.v) plus the cases that tie the
   picker/installer model Lsm/Pick.v to the running code:
     KPick     an observed table compaction (or trivial move): the version it was picked on, source level, seed tables,
               limits; the model's newCompaction must yield exactly the observed inputs of both levels, the observed
               grandparent set, and the observed move/no-move decision;
     KFinish   every committed record: base version, deleted/added tables, the flag passed to finish; the model's finish
               must yield exactly the observed layout (table numbers per level, in order);
     KOverlaps a direct probe of tFiles.getOverlaps on a live level (both variants, nil bounds included);
     KMemLevel a direct probe of version.pickMemdbLevel on the live version.
   Tables travel as bounds only (number, size, first and last internal key): the modelled functions read nothing else. *)
From GL Require Export Corr.LsmRun.
From GL Require Import Base.Bytes Codec.IKey Corr.Cmps Gen.Consts Gen.Inst Lsm.Lsm Lsm.Compact Lsm.Pick.
From Coq Require Import String.

Inductive kmeta := KM (num size : N) (lo hi : kentry).

Inductive c06case :=
| KL (x : lsmcase)
| KPick (cid : N) (v : list (list kmeta)) (lvl : N) (seed : list N) (limit maxgp : N) (noTrivial moved : bool)
        (obs0 obs1 gp : list N)
| KFinish (cid : N) (base : list (list kmeta)) (trivial : bool) (dels : list (N * N)) (adds : list (N * kmeta))
          (post : list (list N))
| KOverlaps (cid : N) (tf : list kmeta) (umin umax : option string) (overlapped : bool) (obs : list N)
| KMemLevel (cid : N) (v : list (list kmeta)) (umin umax : string) (gplimits : list N) (maxLevel : N) (obs : N).

Definition to_mtable (m : kmeta) : table :=
  match m with
  | KM n _ lo hi =>
      let a := to_entry lo in
      let b := to_entry hi in
      {| t_num := n; t_entries := if entry_eqb a b then [a] else [a; b] |}
  end.
Definition to_mlevels (v : list (list kmeta)) : list (list table) := map (map to_mtable) v.

Definition sz_of (ms : list kmeta) (t : table) : N :=
  match find (fun m => match m with KM n _ _ _ => n =? t_num t end) ms with
  | Some (KM _ s _ _) => s
  | None => 0
  end.

Fixpoint nums_eqb (a b : list N) : bool :=
  match a, b with
  | [], [] => true
  | x :: a', y :: b' => (x =? y) && nums_eqb a' b'
  | _, _ => false
  end.
Fixpoint layout_eqb (a b : list (list N)) : bool :=
  match a, b with
  | [], [] => true
  | x :: a', y :: b' => nums_eqb x y && layout_eqb a' b'
  | _, _ => false
  end.

Definition select (tf : list table) (nums : list N) : list table :=
  List.concat (map (fun n => match find (fun t => t_num t =? n) tf with Some t => [t] | None => [] end) nums).

Definition run_c06 (cs : c06case) : bool :=
  match cs with
  | KL x => run_case x && match x with
                          | KWf cid lvls => wf_extrab (to_levels lvls)      (* with wf_versionb: Pick.wf_lsmb *)
                          | _ => true
                          end
  | KPick cid v lvl seed limit maxgp noTrivial moved obs0 obs1 gp =>
      let c := cmp_of_id cid in
      let sz := sz_of (List.concat v) in
      let lv := to_mlevels v in
      let l := N.to_nat lvl in
      let sd := select (nth l lv []) seed in
      Nat.eqb (List.length sd) (List.length seed) &&
      match new_compaction c sz lv l limit sd with
      | POk cm => nums_eqb (nums_of (c_t0 cm)) obs0 && nums_eqb (nums_of (c_t1 cm)) obs1
                  && nums_eqb (nums_of (c_gp cm)) gp
                  && (if noTrivial then negb moved else Bool.eqb (trivial sz cm maxgp) moved)
      | _ => false
      end
  | KFinish cid base trivial dels adds post =>
      let c := cmp_of_id cid in
      let ed := {| ed_del := map (fun x => (N.to_nat (fst x), snd x)) dels;
                   ed_add := map (fun x => (N.to_nat (fst x), to_mtable (snd x))) adds |} in
      match finish c trivial (to_mlevels base) ed with
      | POk nv => layout_eqb (map nums_of nv) post
      | _ => false
      end
  | KOverlaps cid tf umin umax overlapped obs =>
      let c := cmp_of_id cid in
      match get_overlaps c (map to_mtable tf) (option_map unhex umin) (option_map unhex umax) overlapped with
      | POk r => nums_eqb (nums_of r) obs
      | _ => false
      end
  | KMemLevel cid v umin umax gplimits maxLevel obs =>
      let c := cmp_of_id cid in
      let sz := sz_of (List.concat v) in
      Nat.eqb (pick_memdb_level c kp sz (to_mlevels v) (Some (unhex umin)) (Some (unhex umax))
                                (fun l => nth l gplimits 0) (N.to_nat maxLevel))
              (N.to_nat obs)
  end.

Definition mismatches06 (l : list c06case) : list N := mism_from run_c06 0 l.
