(* Corr/C06Run.v — C06 uses the shared L1 correspondence evaluator. *)
From GL Require Export Corr.LsmRun.
