(* Corr/C06Run.v — C06 correspondence evaluator: the shared L1 cases (Corr/LsmRun.v) plus the cases that tie the
   picker/installer model Lsm/Pick.v to the running code:
     KPick     an observed table compaction (or trivial move): the version it was picked on, source level, seed tables,
               limits; the model's newCompaction must yield exactly the observed inputs of both levels, the observed
               grandparent set, and the observed move/no-move decision;
     KFinish   every committed record: base version, deleted/added tables, the flag passed to finish; the model's finish
               must yield exactly the observed layout (table numbers per level, in order);
     KOverlaps a direct probe of tFiles.getOverlaps on a live level (both variants, nil bounds included);
     KMemLevel a direct probe of version.pickMemdbLevel on the live version.
   Tables travel as bounds only (number, size, first and last internal key): the modelled functions read nothing else.
   Builder cases (model Lsm/Builder.v):
     KBuild    an observed table compaction (possibly after retried transient failures): input tables with entries, minSeq,
               table size limit, grandparents (bounds + sizes), the levels below the output level (bounds), a size oracle
               (table.Writer.BytesLen after n entries, per table start, computed by an independent writer), and the
               installed output tables; the model builder without failures must produce exactly the observed tables
               (same entries, same cuts);
     KRetry    tableCompactionBuilder.run driven attempt by attempt under injected storage faults: after every failed
               attempt the observed snapshot fields (builder and compaction) and the number of finished tables must
               be those of the failure-free model run at position snapIter, and what compaction.restore leaves on a
               copy of the compaction right after the attempt (gpi, seenKey, gpOverlappedBytes, the cursors tPtrs below
               the output level, and the untouched snapTPtrs) must be the compaction state of the model's [restore]; the
               successful attempt must end with the model's tables, dropCnt, kerrCnt and live cursors.
   Loop cases (model Lsm/RangeCompact.v):
     KRange    one observed run of tableRangeCompaction's retry loop (DB.CompactRange): the version and compaction
               pointers it started on, the range, GetCompactionSourceLimit / GetCompactionExpandLimit per level, and per
               pass m and the compactions (level, inputs of both levels, the tables the real builder installed); the model's
               compact_range, fed these output tables, must go through exactly the same passes (same m, same levels, same
               inputs) within (observed passes) fuel and end in the observed layout with the observed compaction pointers;
     KScore    version.computeCompaction on a pinned version with the real table sizes: the model must compute the
               observed cLevel and the observed cScore >= 1; at a quiescent point (VerifWaitIdle) need_compaction = false
               and, when CompactionL0Trigger <= WriteL0PauseTrigger, resume_write = true;
     KAuto     one observed session.pickCompaction: version, compaction pointers, cSeek; the model's pick_seed must
               choose the observed source level, seed table and type. *)
From GL Require Export Corr.LsmRun.
From GL Require Import Base.Bytes Codec.IKey Corr.Cmps Gen.Consts Gen.Inst Lsm.Lsm Lsm.Compact Lsm.Pick Lsm.Builder
  Lsm.RangeCompact.
From Coq Require Import String.
From Coq Require Export ZArith.

Inductive kmeta := KM (num size : N) (lo hi : kentry).

(* BytesLen of a fresh table writer after n entries, for the table starting with entry (uk, seq): steps (n, size) *)
Inductive ksizes := KS (uk : string) (seq : N) (steps : list (N * N)).

(* the builder after one call of run: failed?, snapIter, snapHasLastUkey, snapLastUkey, snapLastSeq, snapKerrCnt,
   snapDropCnt, snapGPI, snapSeenKey, snapGPOverlappedBytes, snapTPtrs (below the output level), tables in the record,
   kerrCnt, dropCnt; the live tPtrs after run; gpi, seenKey, gpOverlappedBytes, tPtrs, snapTPtrs after compaction.restore
   on a copy *)
Inductive kattempt :=
  KA (failed : bool) (snapIter : N) (hasLast : bool) (lastU : string) (lastSeq snapKerr snapDrop : N)
     (gpi : N) (seen : bool) (gpbytes : N) (tptrs : list N) (ntables kerr drop : N)
     (live : list N) (rgpi : N) (rseen : bool) (rbytes : N) (rptrs rsnap : list N).

(* one compaction of a range pass: source level, inputs of both levels, installed outputs *)
Inductive kcomp := KC (lvl : N) (t0 t1 : list N) (outs : list kmeta).

Inductive c06case :=
| KRange (cid : N) (v : list (list kmeta)) (umin umax : option string) (srcl expl : list N)
         (ptrs0 : list (option kentry)) (passes : list (N * list kcomp)) (post : list (list N))
         (ptrs1 : list (option kentry))
| KScore (v : list (list kmeta)) (trigger pause : Z) (totl : list Z) (obsLevel : Z) (obsGe1 idle : bool)
| KAuto (cid : N) (v : list (list kmeta)) (ptrs : list (option kentry)) (seek : option (N * N)) (trigger : Z)
        (totl : list Z) (obsLevel obsSeed obsTyp : N)
| KL (x : lsmcase)
| KBuild (cid : N) (minSeq : N) (strict : bool) (tableSize maxgp : N) (ins : list ktable) (gp : list kmeta)
         (deeper : list (list kmeta)) (sizes : list ksizes) (outs : list (list kentry))
| KRetry (cid : N) (minSeq : N) (strict : bool) (tableSize maxgp : N) (ins : list ktable) (gp : list kmeta)
         (deeper : list (list kmeta)) (sizes : list ksizes) (attempts : list kattempt) (outs : list (list kentry))
| KPick (cid : N) (v : list (list kmeta)) (lvl : N) (seed : list N) (limit maxgp : N) (noTrivial moved : bool)
        (obs0 obs1 gp : list N)
| KFinish (cid : N) (base : list (list kmeta)) (trivial : bool) (dels : list (N * N)) (adds : list (N * kmeta))
          (post : list (list N))
| KOverlaps (cid : N) (tf : list kmeta) (umin umax : option string) (overlapped : bool) (obs : list N)
| KMemLevel (cid : N) (v : list (list kmeta)) (umin umax : string) (gplimits : list N) (maxLevel : N) (obs : N).

Definition to_mtable_full (t : ktable) : table := to_table t.

Definition to_mtable (m : kmeta) : table :=
  match m with
  | KM n _ lo hi =>
      let a := to_entry lo in
      let b := to_entry hi in
      {| t_num := n; t_entries := if entry_eqb a b then [a] else [a; b] |}
  end.
Definition to_mlevels (v : list (list kmeta)) : list (list table) := map (map to_mtable) v.

Definition sz_of (ms : list kmeta) (t : table) : N :=
  match find (fun m => match m with KM n _ _ _ => n =? t_num t end) ms with
  | Some (KM _ s _ _) => s
  | None => 0
  end.

Fixpoint nums_eqb (a b : list N) : bool :=
  match a, b with
  | [], [] => true
  | x :: a', y :: b' => (x =? y) && nums_eqb a' b'
  | _, _ => false
  end.
Fixpoint layout_eqb (a b : list (list N)) : bool :=
  match a, b with
  | [], [] => true
  | x :: a', y :: b' => nums_eqb x y && layout_eqb a' b'
  | _, _ => false
  end.

Definition select (tf : list table) (nums : list N) : list table :=
  List.concat (map (fun n => match find (fun t => t_num t =? n) tf with Some t => [t] | None => [] end) nums).

(* ---- builder cases ---- *)
Definition step_size (steps : list (N * N)) (n : N) : N :=
  fold_left (fun acc st => if fst st <=? n then snd st else acc) steps 0.

Definition tsize_of (sizes : list (bytes * N * list (N * N))) (l : list item) : N :=
  match l with
  | IGood e :: _ =>
      match find (fun s => beq (fst (fst s)) (e_uk e) && (snd (fst s) =? e_seq e)) sizes with
      | Some s => step_size (snd s) (N.of_nat (List.length l))
      | None => 0
      end
  | _ => 0
  end.

Definition conv_sizes (sizes : list ksizes) : list (bytes * N * list (N * N)) :=
  map (fun s => match s with KS u q st => (unhex u, q, st) end) sizes.

Fixpoint tables_eqb (a : list (list item)) (b : list (list entry)) : bool :=
  match a, b with
  | [], [] => true
  | x :: a', y :: b' => forallb is_good x && entries_eqb (good_entries x) y && tables_eqb a' b'
  | _, _ => false
  end.

Definition nat_eqN (a : nat) (b : N) : bool := N.of_nat a =? b.
Fixpoint ptrs_eqb (a : list nat) (b : list N) : bool :=
  match a, b with
  | [], [] => true
  | x :: a', y :: b' => nat_eqN x y && ptrs_eqb a' b'
  | _, _ => false
  end.

Definition next_fails_at (k : nat) : oracle :=
  {| o_closed := false; o_next := Nat.eqb k; o_append := fun _ => AOk; o_flush := fun _ => false;
     o_cleanup := false; o_perr := false; o_closed_sel := false |}.

Definition snap_matches (sn : snapshot) (a : kattempt) : bool :=
  match a with
  | KA _ k has lu lq sk sd gpi seen gb tp _ _ _ _ _ _ _ _ _ =>
      nat_eqN (sn_iter sn) k && Bool.eqb (sn_has sn) has && beq (sn_ukey sn) (unhex lu) && (sn_seq sn =? lq)
      && (sn_kerr sn =? sk) && (sn_drop sn =? sd)
      && nat_eqN (cs_gpi (sn_cs sn)) gpi && Bool.eqb (cs_seen (sn_cs sn)) seen && (cs_bytes (sn_cs sn) =? gb)
      && ptrs_eqb (cs_ptrs (sn_cs sn)) tp
  end.

Definition live_ptrs (s : bst) : list nat := cs_ptrs (cs s).

(* compaction.restore on the state an attempt left: the live compaction fields become the snapshot's, the snapshot stays *)
Definition restore_matches (s : bst) (a : kattempt) : bool :=
  match a with
  | KA _ _ _ _ _ _ _ _ _ _ _ _ _ _ _ rgpi rseen rbytes rptrs rsnap =>
      let s' := restore s in
      nat_eqN (cs_gpi (cs s')) rgpi && Bool.eqb (cs_seen (cs s')) rseen && (cs_bytes (cs s') =? rbytes)
      && ptrs_eqb (cs_ptrs (cs s')) rptrs && ptrs_eqb (cs_ptrs (sn_cs (snap s'))) rsnap
  end.

(* ---- loop cases ---- *)
Definition to_ptrs (l : list (option kentry)) : list (option ikey) := map (option_map (fun e => e_ikey (to_entry e))) l.

Definition ikey_eqb (a b : ikey) : bool := beq (uk a) (uk b) && (num a =? num b).
Fixpoint ptrs_opt_eqb (a b : list (option ikey)) : bool :=
  match a, b with
  | [], [] => true
  | Some x :: a', Some y :: b' => ikey_eqb x y && ptrs_opt_eqb a' b'
  | None :: a', None :: b' => ptrs_opt_eqb a' b'
  | _, _ => false
  end.

Definition kc_outs (k : kcomp) : list kmeta := match k with KC _ _ _ o => o end.
Definition all_outs (passes : list (N * list kcomp)) : list (list kmeta) :=
  List.concat (map (fun ps => map kc_outs (snd ps)) passes).

Definition comp_matches (cm : compaction) (k : kcomp) : bool :=
  match k with
  | KC l t0 t1 _ => nat_eqN (c_level cm) l && nums_eqb (nums_of (c_t0 cm)) t0 && nums_eqb (nums_of (c_t1 cm)) t1
  end.
Fixpoint comps_match (a : list compaction) (b : list kcomp) : bool :=
  match a, b with
  | [], [] => true
  | x :: a', y :: b' => comp_matches x y && comps_match a' b'
  | _, _ => false
  end.
Fixpoint passes_match (a : list (nat * list compaction)) (b : list (N * list kcomp)) : bool :=
  match a, b with
  | [], [] => true
  | x :: a', y :: b' => nat_eqN (fst x) (fst y) && comps_match (snd x) (snd y) && passes_match a' b'
  | _, _ => false
  end.

Definition opts_of (srcl expl : list N) (totl : list Z) (trigger pause : Z) : copts :=
  {| o_src_limit := fun l => nth l srcl 0; o_exp_limit := fun l => nth l expl 0; o_gp_limit := fun _ => 0;
     o_tot_limit := fun l => nth l totl 0%Z; o_l0_trigger := trigger; o_l0_pause := pause |}.

Definition run_c06 (cs : c06case) : bool :=
  match cs with
  | KRange cid v umin umax srcl expl ptrs0 passes post ptrs1 =>
      let c := cmp_of_id cid in
      let outs := all_outs passes in
      let sz := sz_of (List.concat v ++ List.concat outs) in
      let bld := fun (k : nat) (_ : list (list table)) (_ : compaction) => map to_mtable (nth k outs []) in
      let o := opts_of srcl expl [] 1%Z 1%Z in
      let st := {| cp_v := to_mlevels v; cp_ptrs := to_ptrs ptrs0; cp_seek := None; cp_n := O |} in
      match compact_range c kp sz o bld (S (List.length passes)) st (option_map unhex umin) (option_map unhex umax) [] with
      | POk (st', ps) => passes_match ps passes && layout_eqb (map nums_of (cp_v st')) post
                         && ptrs_opt_eqb (cp_ptrs st') (to_ptrs ptrs1)
      | _ => false
      end
  | KScore v trigger pause totl obsLevel obsGe1 idle =>
      let sz := sz_of (List.concat v) in
      let o := opts_of [] [] totl trigger pause in
      let st := {| cp_v := to_mlevels v; cp_ptrs := []; cp_seek := None; cp_n := O |} in
      let cc := compute_compaction sz o (cp_v st) in
      (match fst cc with Some l => (Z.of_nat l =? obsLevel)%Z | None => (obsLevel =? -1)%Z end)
      && Bool.eqb (sc_ge1 (snd cc)) obsGe1
      && (if idle then negb (need_compaction sz o st)
                       && (if (0 <? trigger)%Z && (trigger <=? pause)%Z then resume_write o st else true)
          else true)
  | KAuto cid v ptrs seek trigger totl obsLevel obsSeed obsTyp =>
      let c := cmp_of_id cid in
      let sz := sz_of (List.concat v) in
      let o := opts_of [] [] totl trigger 1%Z in
      let lv := to_mlevels v in
      let sk := match seek with
                | Some (l, n) => match find (fun t => t_num t =? n) (nth (N.to_nat l) lv []) with
                                 | Some t => Some (N.to_nat l, t)
                                 | None => None
                                 end
                | None => None
                end in
      (match seek, sk with Some _, None => false | _, _ => true end) &&
      match pick_seed c sz o {| cp_v := lv; cp_ptrs := to_ptrs ptrs; cp_seek := sk; cp_n := O |} with
      | POk (Some (l, [t], ty)) =>
          nat_eqN l obsLevel && (t_num t =? obsSeed)
          && (match ty with TLevel0 => 0 | TNonLevel0 => 1 | TSeek => 2 end =? obsTyp)
      | _ => false
      end
  | KBuild cid minSeq strict tableSize maxgp ins gp deeper sizes outs =>
      let c := cmp_of_id cid in
      let es := merge_inputs c (map to_mtable_full ins) in
      let dl := to_mlevels deeper in
      let ts := tsize_of (conv_sizes sizes) in
      let obs := map (map to_entry) outs in
      match run_attempt c kp (sz_of gp) (map to_mtable gp) maxgp dl minSeq strict tableSize ts o_ok (map IGood es) (bst0 dl) with
      | (sf, ROk) => tables_eqb (out_items sf) obs && cuts_ok c obs
      | _ => false
      end
  | KRetry cid minSeq strict tableSize maxgp ins gp deeper sizes attempts outs =>
      let c := cmp_of_id cid in
      let es := merge_inputs c (map to_mtable_full ins) in
      let dl := to_mlevels deeper in
      let ts := tsize_of (conv_sizes sizes) in
      let obs := map (map to_entry) outs in
      let items := map IGood es in
      let att := fun o => run_attempt c kp (sz_of gp) (map to_mtable gp) maxgp dl minSeq strict tableSize ts o items (bst0 dl) in
      forallb (fun a =>
        match a with
        | KA true k _ _ _ _ _ _ _ _ _ nt _ _ _ _ _ _ _ _ =>
            (* a failed attempt: the persistent state is the failure-free one at position snapIter; the next attempt
               starts from its restore *)
            let sk := if k =? 0 then bst0 dl else fst (att (next_fails_at (S (N.to_nat k)))) in
            snap_matches (snap sk) a && nat_eqN (List.length (recs sk)) nt && restore_matches sk a
        | KA false _ _ _ _ _ _ _ _ _ _ nt ke dr live _ _ _ _ _ =>
            match att o_ok with
            | (sf, ROk) => tables_eqb (out_items sf) obs && nat_eqN (List.length (recs sf)) nt && (kerr sf =? ke) && (drop sf =? dr)
                           && ptrs_eqb (live_ptrs sf) live
            | _ => false
            end
        end) attempts
  | KL x => run_case x && match x with
                          | KWf cid lvls => wf_extrab (to_levels lvls)      (* with wf_versionb: Pick.wf_lsmb *)
                          | _ => true
                          end
  | KPick cid v lvl seed limit maxgp noTrivial moved obs0 obs1 gp =>
      let c := cmp_of_id cid in
      let sz := sz_of (List.concat v) in
      let lv := to_mlevels v in
      let l := N.to_nat lvl in
      let sd := select (nth l lv []) seed in
      Nat.eqb (List.length sd) (List.length seed) &&
      match new_compaction c sz lv l limit sd with
      | POk cm => nums_eqb (nums_of (c_t0 cm)) obs0 && nums_eqb (nums_of (c_t1 cm)) obs1
                  && nums_eqb (nums_of (c_gp cm)) gp
                  && (if noTrivial then negb moved else Bool.eqb (trivial sz cm maxgp) moved)
      | _ => false
      end
  | KFinish cid base trivial dels adds post =>
      let c := cmp_of_id cid in
      let ed := {| ed_del := map (fun x => (N.to_nat (fst x), snd x)) dels;
                   ed_add := map (fun x => (N.to_nat (fst x), to_mtable (snd x))) adds |} in
      match finish c trivial (to_mlevels base) ed with
      | POk nv => layout_eqb (map nums_of nv) post
      | _ => false
      end
  | KOverlaps cid tf umin umax overlapped obs =>
      let c := cmp_of_id cid in
      match get_overlaps c (map to_mtable tf) (option_map unhex umin) (option_map unhex umax) overlapped with
      | POk r => nums_eqb (nums_of r) obs
      | _ => false
      end
  | KMemLevel cid v umin umax gplimits maxLevel obs =>
      let c := cmp_of_id cid in
      let sz := sz_of (List.concat v) in
      Nat.eqb (pick_memdb_level c kp sz (to_mlevels v) (Some (unhex umin)) (Some (unhex umax))
                                (fun l => nth l gplimits 0) (N.to_nat maxLevel))
              (N.to_nat obs)
  end.

Definition mismatches06 (l : list c06case) : list N := mism_from run_c06 0 l.
