(* Corr/LsmRun.v — correspondence evaluator for the L1 model (shared by C01, C03, C06): point reads on
   dumped states, recomputation of every observed table compaction, well-formedness of dumped versions. *)
From GL Require Import Base.Bytes Codec.IKey Corr.Cmps Gen.Consts Gen.Inst Lsm.Lsm Lsm.Compact Lsm.CompactPre.
From Coq Require Import String.

Inductive kentry := KE (uk : string) (seq kind : N) (val : string).
Inductive ktable := KT (num : N) (es : list kentry).

Inductive lsmcase :=
| KGet (cid : N) (mem frozen : list kentry) (aux : list ktable) (lvls : list (list ktable))
       (queries : list (string * N * option string))
| KCompact (cid : N) (minSeq : N) (pre : list (list ktable)) (srclevel : N) (deleted : list N)
           (outputs : list ktable)
| KWf (cid : N) (lvls : list (list ktable)).

Definition to_entry (e : kentry) : entry :=
  match e with KE u s k v => {| e_uk := unhex u; e_seq := s; e_kind := k; e_val := unhex v |} end.
Definition to_table (t : ktable) : table :=
  match t with KT n es => {| t_num := n; t_entries := map to_entry es |} end.
Definition to_levels (l : list (list ktable)) : list (list table) := map (map to_table) l.

Definition entry_eqb (a b : entry) : bool :=
  beq (e_uk a) (e_uk b) && (e_seq a =? e_seq b) && (e_kind a =? e_kind b) && beq (e_val a) (e_val b).

Fixpoint entries_eqb (a b : list entry) : bool :=
  match a, b with
  | [], [] => true
  | x :: a', y :: b' => entry_eqb x y && entries_eqb a' b'
  | _, _ => false
  end.

Definition opt_eqb (a : option bytes) (b : option string) : bool :=
  match a, b with
  | None, None => true
  | Some x, Some y => beq x (unhex y)
  | _, _ => false
  end.

(* The certificates re-checked on dumped versions / observed compactions.  Under the NON-INJECTIVE comparer (id 4,
   ASCII case-insensitive) "same user key" is the comparer's equivalence: the class-based booleans of Lsm/CompactPre.v,
   whose soundness (WfPreProofs.wf_versioncb_sound / certificatec_sound, Props/C01.v) needs the preorder contract only.
   Under the injective comparers 0..3 the byte-equality booleans of Lsm/Compact.v (WfProofs / CertProofs). *)
Definition wfb (cid : N) (c : comparer) (lvls : list (list table)) : bool :=
  if cid =? 4 then wf_versioncb c kp lvls else wf_versionb c kp lvls.
Definition certb (cid : N) (c : comparer) (minSeq : N) (deeper : list (list table)) (I O : list entry)
           (outs : list (list entry)) : bool :=
  if cid =? 4 then compaction_certc c kp minSeq deeper I O outs else compaction_cert c kp minSeq deeper I O outs.

Definition run_case (cs : lsmcase) : bool :=
  match cs with
  | KGet cid mem frozen aux lvls qs =>
      let c := cmp_of_id cid in
      let st := {| st_mem := map to_entry mem; st_frozen := map to_entry frozen;
                   st_aux := map to_table aux; st_levels := to_levels lvls |} in
      forallb (fun q => match q with (k, s, obs) => opt_eqb (api_of (lsm_get c kp st (unhex k) s)) obs end) qs
  | KCompact cid minSeq pre srclevel deleted outputs =>
      let c := cmp_of_id cid in
      let lvls := to_levels pre in
      let all := List.concat lvls in
      let ins := filter (is_input deleted) all in
      let others := filter (fun t => negb (is_input deleted t)) all in
      let I := level_entries ins in
      let O := level_entries others in
      let deeper := skipn (N.to_nat srclevel + 2) lvls in
      let outs := map (fun t => t_entries (to_table t)) outputs in
      wfb cid c lvls
      && certb cid c minSeq deeper I O outs
      && entries_eqb (List.concat outs) (drop_run c kp minSeq (is_base c deeper) None (isort c I))
      && cuts_ok c outs
  | KWf cid lvls => wfb cid (cmp_of_id cid) (to_levels lvls)
  end.

Fixpoint mism_from {A} (f : A -> bool) (i : N) (l : list A) : list N :=
  match l with
  | [] => []
  | x :: l' => if f x then mism_from f (i + 1) l' else i :: mism_from f (i + 1) l'
  end.

Definition mismatches (l : list lsmcase) : list N := mism_from run_case 0 l.
