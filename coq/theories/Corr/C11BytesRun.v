(* Corr/C11BytesRun.v — correspondence evaluator for the byte-level transaction machine of property C11
   (Lsm/TxnBytes.v).  One case = one scenario run on the implementation: the byte state of the DB when the
   transaction was opened (memdb arrays, table FILE bytes of the pinned version: the dump format of C01's KBytes),
   the session scalars, the records of the current manifest, and the events in order — every Put / Delete /
   Write with what the environment contributed (the height drawn, the table file a private flush wrote — its
   real bytes —, or its injected failure, capacities) and what the call returned; dumps of tr.mem / tr.rec;
   Transaction.Get, walks of Transaction.NewIterator, outside reads; Commit with the outcome of every manifest
   attempt and the records found in the manifest file afterwards; Discard.  The model machine is run through
   the same events and must reproduce every observation: results, tr.seq, the memdb arrays, the record under
   construction (encoded), every read, the manifest's records byte for byte, db.seq.  At every private flush the
   contract the theorems assume of the table writer is evaluated: the file passes the format check and holds
   exactly the pairs of the memdb it was built from.  Depends on model files only. *)
From GL Require Import Base.Bytes Codec.IKey Codec.Table Codec.TableCheck Codec.TblCrc Codec.Snappy Codec.Bloom
  Lsm.Lsm Lsm.ReadPath Lsm.IterPath Lsm.TxnBytes Gen.InstTbl Gen.InstMem Gen.BloomInst Gen.InstRecord.
From GL Require Export Corr.C02Run.           (* kmem / kfile, mv / ob: the dump formats of the byte-level cases *)
From GL Require Mem.MemDB Codec.Batch Codec.SessionRecord.
From GL Require Import Iter.Cursor Corr.Cmps Gen.Consts Gen.Inst.
From Coq Require Import String ZArith.

Inductive kflush := KFNone | KFOk (f : kfile) (poolcap : N) | KFErr.
(* one Put / Delete (or one record of a Write): deletion?, key, value, the height drawn, the capacity after a growing
   append, the flush that this record triggered (KFNone: no flush happened — the model must not flush either) *)
Inductive kput := KP (del : bool) (k v : string) (h gcap : N) (fl : kflush).
Inductive katt := KA (ok reached rot : bool) (nf : Z).

Inductive bev :=
| VOpen (poolcap : N)
| VPut (x : kput) (ok : bool) (tseq : N)
| VWrite (xs : list kput) (ok : bool) (tseq : N)
| VMem (m : kmem) (cap ntab : N)
| VRec (b : string)
| VGet (k : string) (obs : option string)
| VOut (k : string) (s : N) (obs : option string)
| VWalk (sl : option (option string * option string)) (ms : list mv) (obs : list ob)
| VIterOpen
| VIterRelease
| VCommit (fl : kflush) (atts : list katt) (ok : bool) (man : list string) (dbseq : N) (still_open : bool)
| VDiscard (fresh : katt) (man : list string) (dbseq : N)
| VEnv (lvls : list (list kfile)).

Inductive c11bcase :=
| KTxnBytes (cid ri : N) (verify : bool) (fname : option string) (bpk : Z) (strict : bool)
            (mem frozen : option kmem) (lvls : list (list kfile))
            (dbseq : N) (journal : Z) (stseq : N) (cmpname : string) (cptrs : list (N * string))
            (man : list string) (mfail : bool) (evs : list bev).

Section Eval.
  Variable c : comparer.
  Variable ri : N.
  Variable verify : bool.
  Variable fn : option bytes.
  Variable ufc : bytes -> N -> bytes -> bool.
  Variable strict : bool.

  Local Notation W_put := (w_put c kp mp rp).
  Local Notation T_put := (t_put c kp mp rp).

  Definition dec_flush (f : kflush) : flush_out :=
    match f with
    | KFOk x cap => FlOk (to_file x) cap
    | _ => FlErr
    end.
  Definition dec_put (x : kput) : Batch.brec * put_in :=
    match x with
    | KP del k v h gcap fl =>
        ((if del then keyTypeDel kp else keyTypeVal kp, unhex k, if del then [] else unhex v), mkPI h (dec_flush fl) gcap)
    end.
  Definition dec_att (a : katt) : att_in := match a with KA ok reached rot nf => mkAI ok reached rot nf end.

  Definition mem_eqb (d : MemDB.db) (m : kmem) : bool :=
    match m with
    | KM kv nd mh n sz =>
        beq (MemDB.kvData d) (unhex kv) && beq (MemDB.nodeData d) nd && (MemDB.maxHeight d =? mh) &&
        (MemDB.nEnt d =? Z.of_N n)%Z && (MemDB.kvSize d =? Z.of_N sz)%Z
    end.

  Definition okf := tfile_okb c kp tblp tbl_crc snappy_decode fn ufc verify ri.
  Definition pairsf := tf_pairs c tblp tbl_crc snappy_decode fn ufc verify ri.

  Definition pairs_eqb (a b : list (bytes * bytes)) : bool :=
    (List.length a =? List.length b)%nat && forallb (fun xy => beq (fst (fst xy)) (fst (snd xy)) && beq (snd (fst xy)) (snd (snd xy))) (combine a b).

  (* the table writer's contract at a private flush: the new file is well-formed and holds the memdb's pairs *)
  Definition flush_contract (before after : ttxn) : bool :=
    if (List.length (tt_tables before) <? List.length (tt_tables after))%nat then
      match last (map Some (tt_tables after)) None with
      | Some f => okf f && pairs_eqb (pairsf f) (mem_pairs mp (tt_mem before))
      | None => false
      end
    else true.

  (* a flush happened exactly when the harness saw one (KFNone = none) *)
  Definition flush_seen (x : kput) (before after : ttxn) : bool :=
    match x with
    | KP _ _ _ _ _ KFNone => (List.length (tt_tables before) =? List.length (tt_tables after))%nat
    | KP _ _ _ _ _ (KFOk _ _) => (S (List.length (tt_tables before)) =? List.length (tt_tables after))%nat
    | KP _ _ _ _ _ KFErr => true
    end.

  (* record by record, with the contract evaluated at every flush; returns the state and whether all puts succeeded *)
  Fixpoint puts_checked (t : ttxn) (xs : list kput) : option (ttxn * bool) :=
    match xs with
    | [] => Some (t, true)
    | x :: rest =>
        let '((kt, k, v), o) := dec_put x in
        match T_put t kt k v o with
        | (t1, TOk) => if flush_contract t t1 && flush_seen x t t1 then puts_checked t1 rest else None
        | (t1, TErr ETable) => match x with KP _ _ _ _ _ KFErr => Some (t1, false) | _ => None end
        | _ => None
        end
    end.

  Definition res_ok (r : tres) : bool := match r with TOk => true | _ => false end.
  Definition res_err (r : tres) : bool := match r with TErr _ => true | _ => false end.

  Definition step_ev (w : tworld) (e : bev) : option tworld :=
    match e with
    | VOpen cap =>
        match w_open mp w cap with
        | (w', TOk) => Some w'
        | _ => None
        end
    | VPut x ok tseq =>
        match tw_tr w with
        | Some t =>
            let '((kt, k, v), o) := dec_put x in
            let '(w', r) := W_put w kt k v o in
            match puts_checked t [x], tw_tr w' with
            | Some (t1, ok1), Some t' =>
                if Bool.eqb ok1 ok && Bool.eqb (res_ok r) ok && (ok || res_err r) && (tt_seq t' =? tseq) && (tt_seq t1 =? tseq)
                then Some w' else None
            | _, _ => None
            end
        | None => None
        end
    | VWrite xs ok tseq =>
        match tw_tr w with
        | Some t =>
            let recs := map (fun x => fst (dec_put x)) xs in
            let os := map (fun x => snd (dec_put x)) xs in
            let '(w', r) := w_write c kp mp rp w (Batch.batch_of kp recs) os in
            match puts_checked t xs, tw_tr w' with
            | Some (t1, ok1), Some t' =>
                if Bool.eqb ok1 ok && Bool.eqb (res_ok r) ok && (ok || res_err r) && (tt_seq t' =? tseq) && (tt_seq t1 =? tseq)
                then Some w' else None
            | _, _ => None
            end
        | None => None
        end
    | VMem m cap ntab =>
        match tw_tr w with
        | Some t => if mem_eqb (tt_mem t) m && (tt_cap t =? cap) && (N.of_nat (List.length (tt_tables t)) =? ntab) then Some w else None
        | None => None
        end
    | VRec b =>
        match tw_tr w with
        | Some t => match SessionRecord.encode rp (tt_rec t) with
                    | Some x => if beq x (unhex b) then Some w else None
                    | None => None
                    end
        | None => None
        end
    | VGet k obs =>
        match t_get c kp mp tblp tbl_crc snappy_decode fn ufc verify w (unhex k) with
        | Some r => if obs_eqb (bapi r) obs then Some w else None
        | None => None
        end
    | VOut k s obs =>
        if obs_eqb (bapi (o_get c kp mp tblp tbl_crc snappy_decode fn ufc verify w (unhex k) s)) obs then Some w else None
    | VWalk sl ms obs =>
        let slice := option_map (fun ab => (option_map unhex (fst ab), option_map unhex (snd ab))) sl in
        match t_iter c kp mp tblp tbl_crc snappy_decode fn ufc verify strict (N.to_nat 4000) w slice (map dec_mv ms) with
        | Some (Some outs) => if obs_eq outs obs then Some w else None
        | _ => None
        end
    | VIterOpen => match w_iter_open w with (w', TOk) => Some w' | _ => None end
    | VIterRelease => Some (w_iter_release w)
    | VCommit fl atts ok man dbseq still_open =>
        match tw_tr w with
        | Some t =>
            let '(w', r) := w_commit mp rp false w (dec_flush fl) (map dec_att atts) in
            (* the flush Commit starts with obeys the same contract *)
            let fc := match t_flush mp rp t (dec_flush fl) with (t1, TOk) => flush_contract t t1 | _ => true end in
            if fc && Bool.eqb (res_ok r) ok && (ok || res_err r) && (tw_seq w' =? dbseq) &&
               Bool.eqb (match tw_tr w' with Some _ => true | None => false end) still_open &&
               (List.length (tw_man w') =? List.length man)%nat &&
               forallb (fun xy => beq (fst xy) (unhex (snd xy))) (combine (tw_man w') man)
            then Some w' else None
        | None => None
        end
    | VDiscard fresh man dbseq =>
        let w' := w_discard rp false w (dec_att fresh) in
        if (tw_seq w' =? dbseq) && (List.length (tw_man w') =? List.length man)%nat &&
           forallb (fun xy => beq (fst xy) (unhex (snd xy))) (combine (tw_man w') man) &&
           match tw_tr w' with None => true | Some _ => false end
        then Some w' else None
    | VEnv lvls => Some (w_env w (mkBS (bs_mem (tw_db w)) (bs_frozen (tw_db w)) (map (map to_file) lvls)))
    end.

  Fixpoint run_evs (w : tworld) (evs : list bev) : bool :=
    match evs with
    | [] => true
    | e :: rest => match step_ev w e with Some w' => run_evs w' rest | None => false end
    end.

  (* index of the first event the machine does not reproduce *)
  Fixpoint fail_at (w : tworld) (evs : list bev) (i : N) : option N :=
    match evs with
    | [] => None
    | e :: rest => match step_ev w e with Some w' => fail_at w' rest (i + 1) | None => Some i end
    end.
End Eval.

Definition world_of (cs : c11bcase) : tworld * list bev :=
  match cs with
  | KTxnBytes cid ri verify fname bpk strict mem frozen lvls dbseq journal stseq cmpname cptrs man mfail evs =>
      (mkTW (mkBS (option_map to_mem mem) (option_map to_mem frozen) (map (map to_file) lvls)) dbseq (map unhex man) mfail
            journal stseq (unhex cmpname) (map (fun lk => SessionRecord.mkcp (Z.of_N (fst lk)) (unhex (snd lk))) cptrs) None [], evs)
  end.

Definition run_bcase (cs : c11bcase) : bool :=
  match cs with
  | KTxnBytes cid ri verify fname bpk strict mem frozen lvls dbseq journal stseq cmpname cptrs man mfail evs =>
      let c := cmp_of_id cid in
      let fn := option_map unhex fname in
      let ufc := bloom_ufc bp bpk in
      let '(w, _) := world_of cs in
      (* the shared state is a well-formed byte state (the hypotheses of the read theorems that are booleans) *)
      forallb (forallb (okf c ri verify fn ufc)) (bs_levels (tw_db w)) &&
      match bs_mem (tw_db w) with Some m => mem_keys_okb kp mp m | None => false end &&
      wf_fullb c kp (abs c mp tblp tbl_crc snappy_decode fn ufc verify ri (tw_db w)) &&
      run_evs c ri verify fn ufc strict w evs
  end.

Definition bdiag (cs : c11bcase) : option N :=
  match cs with
  | KTxnBytes cid ri verify fname bpk strict mem frozen lvls dbseq journal stseq cmpname cptrs man mfail evs =>
      let '(w, _) := world_of cs in
      fail_at (cmp_of_id cid) ri verify (option_map unhex fname) (bloom_ufc bp bpk) strict w evs 0
  end.

Definition bmism11 (l : list c11bcase) : list N := mism_from run_bcase 0 l.
