(* Corr/C12Run.v — correspondence evaluator for C12: runs the journal model (Codec/Journal.v,
   instantiated with the generated constants and the executable CRC-32C) on the streams on
   which the harness ran journal.Writer / journal.Reader, and returns the indexes of the
   cases whose observations disagree.  Depends on model files and Gen/InstJournal.v only. *)
From GL Require Import Base.Bytes Codec.Crc Codec.Journal Codec.JournalSpec Gen.Consts Gen.InstJournal.
From Coq Require Import String.

(* byte strings travel compressed: a hex literal, a run of n equal bytes, or n repetitions of
   a hex pattern *)
Inductive seg := X (h : string) | R (b n : N) | P (h : string) (n : N).

Definition seg_bytes (s : seg) : bytes :=
  match s with
  | X h => unhex h
  | R b n => repeat b (N.to_nat n)
  | P h n => let u := unhex h in N.iter n (fun l => u ++ l) []
  end.
Definition segs_bytes (l : list seg) : bytes := flat_map seg_bytes l.

(* what the harness observed from journal.Reader driven like recoverJournal *)
Inductive obs :=
| ORec (d : list seg)
| OSkipped
| OErr
| ODrop (reason size : N).

Inductive c12case :=
(* journal.Reader (strict, checksum) on the stream gave these observations, in this order *)
| CRead (strict checksum : bool) (stream : list seg) (o : list obs)
(* journal.Writer produced the stream from these records: the model reader must accept it as
   exactly these records without any drop, strict with checksums and tolerant without
   (format membership) *)
| CWrite (stream : list seg) (recs : list (list seg))
(* util.NewCRC(data).Value() = v *)
| CCrc (data : list seg) (v : N)
(* the harness's reference encoder of the log format (independent of the journal package; the
   implementation's writer is compared with it in the harness) produced the stream from these
   records: the MODEL writer must produce the same bytes, with the given flush pattern *)
| CEnc (fl : list bool) (recs : list (list seg)) (stream : list seg)
(* the hypothesis of the damage / tail theorems: the harness's evaluation of no_forgery (checksums
   on) for the records written and a damaged image of the same length gave this value; the
   definition the theorems are stated with (Codec/JournalSpec.v) must give the same *)
| CForgery (recs : list (list seg)) (stream : list seg) (holds : bool).

Definition obs_eq (m : outcome) (o : obs) : bool :=
  match m, o with
  | Rec b, ORec d => beq b (segs_bytes d)
  | Skipped, OSkipped => true
  | Err, OErr => true
  | Dropped r n, ODrop r' n' => (r =? r') && (n =? n')
  | _, _ => false
  end.

Fixpoint all2 {A B} (f : A -> B -> bool) (a : list A) (b : list B) : bool :=
  match a, b with
  | [], [] => true
  | x :: a', y :: b' => f x y && all2 f a' b'
  | _, _ => false
  end.

Definition rd (strict checksum : bool) (b : bytes) : list outcome :=
  jread_log jcrc jp strict checksum b.

Definition run_case (c : c12case) : bool :=
  match c with
  | CRead st ck stream o => all2 obs_eq (rd st ck (segs_bytes stream)) o
  | CWrite stream recs =>
      let b := segs_bytes stream in
      let want := map ORec recs in
      all2 obs_eq (rd true true b) want && all2 obs_eq (rd false false b) want
  | CCrc data v =>
      let b := segs_bytes data in
      (jcrc b =? v) && (if Nat.ltb (List.length b) 600 then masked_crc_bitwise jcp b =? v else true)
  | CEnc fl recs stream =>
      beq (jwrite jcrc jp fl (map segs_bytes recs)) (segs_bytes stream)
  | CForgery recs stream holds =>
      Bool.eqb (no_forgery jcrc jp true (map segs_bytes recs) (segs_bytes stream)) holds
  end.

Fixpoint mism_from {A} (f : A -> bool) (i : N) (l : list A) : list N :=
  match l with
  | [] => []
  | x :: l' => if f x then mism_from f (i + 1) l' else i :: mism_from f (i + 1) l'
  end.

Definition mismatches (l : list c12case) : list N := mism_from run_case 0 l.
