(* Corr/C13Run.v — correspondence evaluator for C13: runs the block/table models on the bytes and
   calls the harness observed on the implementation and returns the indexes that disagree.
   Depends on model files only. *)
From GL Require Import Base.Bytes Base.Varint Base.Cursor Codec.Block Codec.Table Codec.TableCheck Codec.TblCrc Codec.Snappy Gen.InstTbl Corr.Cmps.
From GL Require Export Base.UBuffer.
From Coq Require Import String.

Definition hpair := (string * string)%type.
Definition kvs_of (l : list hpair) : list (bytes * bytes) :=
  map (fun p => (unhex (fst p), unhex (snd p))) l.

Inductive kop := KFirst | KLast | KSeek (k : string) | KNext | KPrev.
Definition cop_of (o : kop) : cop :=
  match o with
  | KFirst => OpFirst | KLast => OpLast | KSeek k => OpSeek (unhex k) | KNext => OpNext | KPrev => OpPrev
  end.

(* what the harness saw after each call: Some (key, value) when the call returned true *)
Definition obs := option hpair.

Definition obs_eqb (m : option (bytes * bytes)) (o : obs) : bool :=
  match m, o with
  | None, None => true
  | Some (k, v), Some (k', v') => beq k (unhex k') && beq v (unhex v')
  | _, _ => false
  end.

Fixpoint all2 {A B} (f : A -> B -> bool) (a : list A) (b : list B) : bool :=
  match a, b with
  | [], [] => true
  | x :: a', y :: b' => f x y && all2 f a' b'
  | _, _ => false
  end.

Definition kvs_eqb (a b : list (bytes * bytes)) : bool :=
  all2 (fun x y => beq (fst x) (fst y) && beq (snd x) (snd y)) a b.

Definition slice_of (s : option (option string * option string)) : option krange :=
  option_map (fun p => (option_map unhex (fst p), option_map unhex (snd p))) s.

(* ---- table level ---- *)
Inductive fobs := OFound (k v : string) | ONotFound | OCorrupt | OOther.

Definition fobs_eqb (m : find_res) (o : fobs) : bool :=
  match m, o with
  | FFound k v, OFound k' v' => beq k (unhex k') && beq v (unhex v')
  | FNotFound, ONotFound => true
  | FCorrupted, OCorrupt => true
  | _, _ => false
  end.

Inductive tquery :=
| QAll (kvs : list hpair)                        (* full forward scan of NewIterator(nil) *)
| QCheck (ri : N) (kvs : list hpair)             (* format membership: table_check (TableCheck.v) accepts the file and yields kvs *)
| QFind (key : string) (o : fobs)                (* Find(key, filtered = false) *)
| QGet (key : string) (o : fobs)                 (* Get(key) *)
| QGetF (key : string) (o : fobs)                (* Find(key, filtered = true) reduced to exact match *)
| QOffset (key : string) (o : option N)          (* OffsetOf(key); None = error *)
| QWalk (slice : option (option string * option string)) (strict : bool)
        (ops : list kop) (o : list obs) (errnil : bool).

(* the instances the model runs with: CRC-32C with LevelDB's mask; the model of golang/snappy's
   block decoder (Codec/Snappy.v) for blocks of type blockTypeSnappyCompression - the (K) tables
   are written by the Go writer with NoCompression or with SnappyCompression; a filter block whose
   contains answers true (lawful for any generator) *)
Definition m_open (c : comparer) (file : bytes) (fname : option bytes) (verify : bool) : treader :=
  open_table tblp tbl_crc snappy_decode (fun _ _ _ => true) c file fname verify.

Fixpoint ti_collect (c : comparer) (rd : treader) (fuel : nat) (t : titer) (acc : list (bytes * bytes))
  : option (list (bytes * bytes)) :=
  match fuel with
  | O => None
  | S f =>
      let '(ok, t') := ti_next c rd t in
      if ok then match ti_get t' with
                 | Some kv => ti_collect c rd f t' (kv :: acc)
                 | None => None
                 end
      else match ti_error t' with None => Some (rev acc) | Some _ => None end
  end.

Definition run_query (c : comparer) (rd : treader) (fuel : nat) (q : tquery) : bool :=
  match q with
  | QAll kvs =>
      match new_titer c rd None true with
      | inr t => match ti_collect c rd fuel t [] with
                 | Some l => kvs_eqb l (kvs_of kvs)
                 | None => false
                 end
      | inl _ => false
      end
  | QCheck ri kvs =>
      match table_check c rd ri with
      | Some l => kvs_eqb l (kvs_of kvs)
      | None => false
      end
  | QFind key o => fobs_eqb (tfind c rd (unhex key) false) o
  | QGet key o => fobs_eqb (tget c rd (unhex key)) o
  | QGetF key o => fobs_eqb (tget_filtered c rd (unhex key)) o
  | QOffset key o =>
      match toffset_of c rd (unhex key), o with
      | Ok x, Some y => x =? y
      | Corrupt, None => true
      | _, _ => false
      end
  | QWalk slice strict ops o errnil =>
      match new_titer c rd (slice_of slice) strict with
      | inr t =>
          let '(l, tf) := ti_run c rd t (map cop_of ops) in
          all2 obs_eqb l o
          && Bool.eqb (match ti_error tf with None => true | Some _ => false end) errnil
      | inl _ => forallb (fun x => match x with None => true | Some _ => false end) o && negb errnil
      end
  end.

(* ---- util.Buffer / BufferPool / BytesPrefix (Base/UBuffer.v) ---- *)
Inductive krd := KRd (d : string) (e : N) | KRdNeg.
Inductive kuop :=
| UBytes | UString | ULen | UTruncate (n : Z) | UReset | UAlloc (n : Z) | UGrow (n : Z)
| UWrite (p : string) | UWriteByte (c : N)
| UReadFrom (sc : list krd) (zeros_for_ever : bool)
| UWriteTo (m : N) (e : N) | URead (k : N) | UNext (n : Z) | UReadByte | UReadBytes (delim : N)
| UVWrite (step : nat) (pos : N) (d : string)     (* copy(s[pos:], d) through the slice call number [step] returned *)
| UVRead (step : nat).
(* observed results; error codes: 0 nil, 1 io.EOF, 2 io.ErrShortWrite, others: the harness' own errors.  The start of a
   returned slice (offset of its first cell in the current array) is observed only when the slice is not empty *)
Inductive kures :=
| XUnit | XNum (n : N) | XData (d : string) | XView (lo : option N) (n : N) (d : string)
| XNErr (n e : N) (d : string) | XByte (c e : N) | XPanic (code : N) | XDiverge.
(* b.off, len(b.buf), cap(b.buf), b.buf == nil, backing array changed by this call *)
Definition kust := (N * N * N * bool * bool)%type.

Definition uerr_of (c : N) : uerr :=
  if c =? 0 then UNil else if c =? 1 then UEOF else if c =? 2 then UShortWrite else UOther c.
Definition uerr_code (e : uerr) : N :=
  match e with UNil => 0 | UEOF => 1 | UShortWrite => 2 | UOther c => c end.
Definition krd_of (x : krd) : rd := match x with KRd d e => Rd (unhex d) (uerr_of e) | KRdNeg => RdNeg end.

Definition view_of_step (rs : list ures) (k : nat) : view :=
  match nth k rs RUnit with RView v _ => v | _ => (0%nat, 0, 0) end.

Definition uop_of (rs : list ures) (o : kuop) : uop :=
  match o with
  | UBytes => OBytes | UString => OString | ULen => OLen | UTruncate n => OTruncate n | UReset => OReset
  | UAlloc n => OAlloc n | UGrow n => OGrow n | UWrite p => OWrite (unhex p) | UWriteByte c => OWriteByte c
  | UReadFrom sc z => OReadFrom (map krd_of sc) (if z then TZeros else TEof)
  | UWriteTo m e => OWriteTo m (uerr_of e) | URead k => ORead k | UNext n => ONext n | UReadByte => OReadByte
  | UReadBytes d => OReadBytes d
  | UVWrite k pos d => OVWrite (view_of_step rs k) pos (unhex d)
  | UVRead k => OVRead (view_of_step rs k)
  end.

Definition ures_eqb (r : ures) (x : kures) : bool :=
  match r, x with
  | RUnit, XUnit => true
  | RNum n, XNum n' => n =? n'
  | RData d, XData d' => beq d (unhex d')
  | RView (_, lo, n) d, XView lo' n' d' =>
      (n =? n') && beq d (unhex d') && match lo' with Some l => lo =? l | None => true end
  | RNErr n e d, XNErr n' e' d' => (n =? n') && (uerr_code e =? e') && beq d (unhex d')
  | RByte c e, XByte c' e' => (c =? c') && (uerr_code e =? e')
  | RPanic p, XPanic c => upanic_code p =? c
  | RDiverge, XDiverge => true
  | _, _ => false
  end.

(* make([]byte, n) panics above 2^48 on linux/amd64; the harness asks only for sizes below 2^21 or above 2^50 *)
Definition k_mx : N := 281474976710656.

Definition ust_eqb (s0 s : ubuf) (x : kust) : bool :=
  let '(off, len, cp, nl, changed) := x in
  (u_off s =? off) && (u_len s =? len) && (u_cap s =? cp) && Bool.eqb (u_nil s) nl
  (* from a nil b.buf the first array is not "another array"; ReadFrom may go on to replace it in the same call,
     which the harness cannot tell from the first allocation *)
  && (u_nil s0 || Bool.eqb (negb (Nat.eqb (u_aid s0) (u_aid s))) changed).

Fixpoint ku_run (s : ubuf) (rs : list ures) (steps : list (kuop * kures * kust)) : option ubuf :=
  match steps with
  | [] => Some s
  | (o, x, st) :: steps' =>
      let '(s1, r) := u_step k_mx s (uop_of rs o) in
      if ures_eqb r x && ust_eqb s s1 st then ku_run s1 (rs ++ [r]) steps' else None
  end.

Inductive kpstep :=
| PGet (n : N) (pick : option nat) (fresh : nat) (id : nat) (len cap : N) (reused : bool)
| PPut (id : nat) (cap : N).

Fixpoint kp_run (p : bpool) (steps : list kpstep) : bool :=
  match steps with
  | [] => true
  | PGet n pick fresh id len cp reused :: steps' =>
      let '(p1, g) := bp_get p n pick fresh in
      Nat.eqb (pg_id g) id && (pg_len g =? len) && (pg_cap g =? cp) && Bool.eqb (pg_reused g) reused
      && kp_run p1 steps'
  | PPut id cp :: steps' => kp_run (bp_put p (id, cp)) steps'
  end.

Definition rl_res_eqb (a b : rl_res) : bool :=
  match a, b with
  | RLUnit x, RLUnit y => Bool.eqb x y
  | RLBool x, RLBool y => Bool.eqb x y
  | RLPanicReleased, RLPanicReleased | RLPanicHas, RLPanicHas => true
  | _, _ => false
  end.

Fixpoint krl_run (r : releaser) (steps : list (rl_op * rl_res)) : bool :=
  match steps with
  | [] => true
  | (o, x) :: steps' => let '(r1, y) := rl_step r o in rl_res_eqb y x && krl_run r1 steps'
  end.

Definition opt_beq (a : option bytes) (b : option string) : bool :=
  match a, b with
  | None, None => true
  | Some x, Some y => beq x (unhex y)
  | _, _ => false
  end.

Inductive c13case :=
(* blockWriter: VerifBlockBuild(ri, kvs) returned [data]; [blen] = bytesLen() before finish *)
| KBuild (ri : N) (kvs : list hpair) (data : string) (blen : N)
(* block decode: all entries of [data] by First/Next *)
| KDecode (data : string) (kvs : list hpair)
(* blockIter walk: newBlockIter(block(data), slice, inclLimit) driven by ops; observations and
   whether Error() was nil at the end *)
| KBlockWalk (cid : N) (data : string) (slice : option (option string * option string))
             (incl : bool) (ops : list kop) (o : list obs) (errnil : bool)
(* a table file written by table.Writer, opened by the model reader with the reader's filter
   name and checksum-verification setting, and the calls observed on table.Reader *)
| KTable (cid : N) (fname : option string) (verify : bool) (file : string) (qs : list tquery)
(* the model writer on the same input (NoCompression, no filter): byte equality is a soft statistic *)
| KWrite (cid : N) (blockSize ri : N) (kvs : list hpair) (file : string)
(* the codec contract decompress (compress x) = Some x of the writer theorems, on an instance:
   snappy.Encode(nil, raw) = comp in the harness; the model decoder must give raw back.  Also used
   for altered comp that snappy.Decode still accepts (raw = what it returned) *)
| KSnappy (comp raw : string)
(* snappy.Decode(nil, comp) failed *)
| KSnappyErr (comp : string)
(* util.Buffer (Base/UBuffer.v): the real buffer, created as the zero value or by NewBuffer over an array with the given
   contents and length, driven by the calls; after every call: what it returned and (b.off, len(b.buf), cap(b.buf),
   b.buf == nil, whether the backing array changed); at the end the whole backing array *)
| KUBuf (init : option (string * N)) (steps : list (kuop * kures * kust)) (arr : string)
(* BytesPrefix(p): the Limit returned (None: nil) and, per probe key, whether Start <= key < Limit under bytes.Compare *)
| KUPrefix (p : string) (limit : option string) (probes : list (string * bool))
(* util.BufferPool: NewBufferPool(baseline) driven by Get / Put; array identities are the harness' numbering *)
| KUPool (baseline : N) (steps : list kpstep)
(* poolNum probes *)
| KUPoolNum (baseline : N) (probes : list (N * nat))
(* util.BasicReleaser: calls and what they did (Release: whether the attached releaser ran) *)
| KURel (steps : list (rl_op * rl_res)).

Fixpoint bi_run_final (c : comparer) (it : biter) (ops : list cop) : list (option (bytes * bytes)) * biter :=
  match ops with
  | [] => ([], it)
  | o :: r =>
      let '(ok, it') := bi_step c it o in
      let '(l, itf) := bi_run_final c it' r in
      ((if ok then Some (bi_key it', bi_value it') else None) :: l, itf)
  end.

Definition m_write (c : comparer) (blockSize ri : N) (kvs : list (bytes * bytes)) : option bytes :=
  twrite tblp tbl_crc (fun x => x) c blockSize ri false None kvs.

Definition run_case (cs : c13case) : bool :=
  match cs with
  | KBuild ri kvs data blen =>
      beq (block_build ri (kvs_of kvs)) (unhex data)
      && (bw_bytes_len (bw_append_all ri bw_empty (kvs_of kvs)) =? blen)
  | KDecode data kvs =>
      match block_decode (unhex data) with
      | Ok l => kvs_eqb l (kvs_of kvs)
      | _ => false
      end
  | KBlockWalk cid data slice incl ops o errnil =>
      match read_block (unhex data) with
      | Ok b =>
          let c := cmp_of_id cid in
          let '(l, itf) := bi_run_final c (new_block_iter c b (slice_of slice) incl) (map cop_of ops) in
          all2 obs_eqb l o && Bool.eqb (negb (bi_has_err itf)) errnil
      | _ => false
      end
  | KTable cid fname verify file qs =>
      let c := cmp_of_id cid in
      let f := unhex file in
      let rd := m_open c f (option_map unhex fname) verify in
      forallb (run_query c rd (S (List.length f))) qs
  | KWrite _ _ _ _ _ => true
  | KSnappy comp raw =>
      match snappy_decode (unhex comp) with Some d => beq d (unhex raw) | None => false end
  | KSnappyErr comp =>
      match snappy_decode (unhex comp) with Some _ => false | None => true end
  | KUBuf init steps arr =>
      let s0 := match init with None => u_zero | Some (a, l) => u_new (unhex a) l end in
      match ku_run s0 [] steps with
      | Some s => beq (u_arr s) (unhex arr)
      | None => false
      end
  | KUPrefix p limit probes =>
      let r := bytes_prefix (unhex p) in
      beq (fst r) (unhex p) && opt_beq (snd r) limit
      && forallb (fun q => Bool.eqb (in_range r (unhex (fst q))) (snd q)) probes
  | KUPool b steps => kp_run (bp_new b) steps
  | KUPoolNum b probes =>
      forallb (fun q => Nat.eqb (pool_num (bp_base (bp_new b)) (fst q)) (snd q)) probes
  | KURel steps => krl_run (RL false false) steps
  end.

(* soft statistic: model writer output = implementation file *)
Definition soft_case (cs : c13case) : bool :=
  match cs with
  | KWrite cid bs ri kvs file =>
      match m_write (cmp_of_id cid) bs ri (kvs_of kvs) with
      | Some f => beq f (unhex file)
      | None => false
      end
  | _ => true
  end.

Fixpoint mism_from {A} (f : A -> bool) (i : N) (l : list A) : list N :=
  match l with
  | [] => []
  | x :: l' => if f x then mism_from f (i + 1) l' else i :: mism_from f (i + 1) l'
  end.

Definition mismatches (l : list c13case) : list N := mism_from run_case 0 l.
Definition soft_mismatches (l : list c13case) : list N := mism_from soft_case 0 l.
