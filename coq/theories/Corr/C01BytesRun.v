(* Corr/C01BytesRun.v — correspondence evaluator for the byte-level read path of property C01: runs
   Lsm/ReadPath.v db_get_bytes on the memdb arrays and the table FILE BYTES dumped from the running DB and
   compares with what DB.Get / Snapshot.Get answered; also evaluates the hypotheses of the refinement theorem
   that are booleans (every table file passes tfile_okb = C13's format check + decodable keys + recorded
   bounds + the filter condition; the memdbs hold stored keys; the abstraction passes wf_fullb).
   Depends on model files only. *)
From GL Require Import Base.Bytes Codec.IKey Codec.Table Codec.TableCheck Codec.TblCrc Codec.Bloom Codec.FilterBlock
  Corr.Cmps Gen.Consts Gen.Inst Gen.InstTbl Gen.InstMem Gen.BloomInst Lsm.Lsm Lsm.ReadPath.
From GL Require Mem.MemDB.
From Coq Require Import String ZArith.

(* a memdb as dumped: kvData, nodeData, maxHeight, n, kvSize *)
Inductive kmem := KM (kv : string) (nd : list N) (maxh n kvsize : N).
(* a table of the pinned version: file number, recorded imin and imax, the file's bytes *)
Inductive kfile := KF (num : N) (imin imax data : string).

Inductive c01bcase :=
| KBytes (cid : N) (ri : N) (verify : bool) (fname : option string) (bpk : Z)
         (mem frozen : option kmem) (lvls : list (list kfile))
         (queries : list (string * N * option string)).

Definition to_mem (m : kmem) : MemDB.db :=
  match m with
  | KM kv nd mh n sz =>
      MemDB.mkdb (unhex kv) nd mh (Z.of_N n) (Z.of_N sz)
  end.
Definition to_file (f : kfile) : tfile :=
  match f with KF n a b d => mkTF n (unhex a) (unhex b) (unhex d) end.

(* no snappy decoder: the cases are taken from DBs opened with NoCompression *)
Definition no_decompress (_ : bytes) : option bytes := None.

Definition obs_eqb (a : option (option bytes)) (b : option string) : bool :=
  match a, b with
  | Some None, None => true
  | Some (Some x), Some y => beq x (unhex y)
  | _, _ => false
  end.

Definition run_case (cs : c01bcase) : bool :=
  match cs with
  | KBytes cid ri verify fname bpk mem frozen lvls qs =>
      let c := cmp_of_id cid in
      let fn := option_map unhex fname in
      let ufc := bloom_ufc bp bpk in
      let st := mkBS (option_map to_mem mem) (option_map to_mem frozen) (map (map to_file) lvls) in
      let okf := tfile_okb c kp tblp tbl_crc no_decompress fn ufc verify ri in
      let okm := fun d => match d with Some m => mem_keys_okb kp mp m | None => true end in
      forallb (forallb okf) (bs_levels st) && okm (bs_mem st) && okm (bs_frozen st) &&
      wf_fullb c kp (abs c mp tblp tbl_crc no_decompress fn ufc verify ri st) &&
      forallb (fun q => match q with (k, s, obs) =>
                 obs_eqb (bapi (db_get_bytes c kp mp tblp tbl_crc no_decompress fn ufc verify st (unhex k) s)) obs end) qs
  end.

Fixpoint mism_from {A} (f : A -> bool) (i : N) (l : list A) : list N :=
  match l with
  | [] => []
  | x :: l' => if f x then mism_from f (i + 1) l' else i :: mism_from f (i + 1) l'
  end.

Definition bmismatches (l : list c01bcase) : list N := mism_from run_case 0 l.
