(* Corr/C08Run.v — correspondence evaluator for C08.  A case is what the harness observed in one fault scenario
   on the implementation, translated into the operations of the fault model (Store/Faults.v): which step
   ran, which one failed and how (from the storage's operation log: the failed operation, its file type,
   whether the whole record reached the file; and from the error returned to the caller), in the order of the
   operation log, ending with heal + close + reopen.  The evaluator runs the model along the case and checks
     (1) for every call whose result the harness saw: the model gives the same result (ok / error);
     (2) three-valued agreement on what the reopened DB holds: every batch the model recovers from the
         clean-close image must be present and every batch it does not recover must be absent, except the
         errored journal records (tagged free by the harness: their fate is open), and every batch the model
         lists as acknowledged must be present. *)
From GL Require Import Store.Crash Store.Faults.

Inductive ktag :=
| KS                              (* background step, or a step of a call whose result is checked elsewhere *)
| KB (free : bool)                (* this step issues the next batch of the workload (free: fate not compared) *)
| KR (r : cres)                   (* the caller saw r *)
| KBR (free : bool) (r : cres).   (* both *)

Inductive c08case :=
| KFault (steps : list (fop * ktag)) (observed : list N).   (* observed: 0-based workload indexes of the batches present after reopen *)

Definition op_n (o : fop) : N :=
  match o with
  | FOk (PWrite n _) | FOk (PTxnCommit n) | FJWrite n _ | FJSync n | FWriteLate n _ | FTxnBegin n => n
  | _ => 0
  end.

Record kst := { k_s : fstate; k_slots : list (option batch * bool); k_ok : bool }.

Definition kstep (k : kst) (x : fop * ktag) : kst :=
  let '(o, t) := x in
  let s := k_s k in
  let bt := if op_n o =? 0 then None else Some {| b_seq := p_seq (f_m s) + 1; b_n := op_n o |} in
  let resok := match t with KR r | KBR _ r => cres_eqb (fres s o) r | _ => true end in
  let slots := match t with KB fr | KBR fr _ => k_slots k ++ [(bt, fr)] | _ => k_slots k end in
  {| k_s := fstep s o; k_slots := slots; k_ok := k_ok k && resok |}.

(* the workload index of a recovered batch: the LAST slot that issued this value (an earlier slot with the
   same value never reached storage: its sequence numbers were not consumed) *)
Fixpoint last_index (x : batch) (slots : list (option batch * bool)) (i : N) (acc : option N) : option N :=
  match slots with
  | [] => acc
  | (Some y, _) :: r => last_index x r (i + 1) (if batch_eqb x y then Some i else acc)
  | (None, _) :: r => last_index x r (i + 1) acc
  end.

Definition memN (i : N) (l : list N) : bool := existsb (N.eqb i) l.

Fixpoint slots_agree (slots : list (option batch * bool)) (i : N) (kept observed : list N) : bool :=
  match slots with
  | [] => true
  | (_, fr) :: r => (fr || Bool.eqb (memN i kept) (memN i observed)) && slots_agree r (i + 1) kept observed
  end.

Fixpoint all_some (l : list (option N)) : option (list N) :=
  match l with
  | [] => Some []
  | Some x :: r => match all_some r with Some r' => Some (x :: r') | None => None end
  | None :: _ => None
  end.

Definition run_case (c : c08case) : bool :=
  match c with
  | KFault steps observed =>
      let k := fold_left kstep steps {| k_s := f_init; k_slots := []; k_ok := true |} in
      let s := k_s k in
      let p := f_p s in
      let big := (length (p_issued p) + length (p_man p) + 1)%nat in
      let rec := recover (mk_image p big big big) in
      let nslots := N.of_nat (length (k_slots k)) in
      k_ok k &&
      match all_some (map (fun x => last_index x (k_slots k) 0 None) rec),
            all_some (map (fun x => last_index x (k_slots k) 0 None) (p_acked p)) with
      | Some kept, Some acked =>
          slots_agree (k_slots k) 0 kept observed &&
          forallb (fun i => memN i observed) acked &&
          forallb (fun i => i <? nslots) observed
      | _, _ => false
      end
  end.

Fixpoint mism_from {A} (f : A -> bool) (i : N) (l : list A) : list N :=
  match l with
  | [] => []
  | x :: l' => if f x then mism_from f (i + 1) l' else i :: mism_from f (i + 1) l'
  end.

Definition mismatches (l : list c08case) : list N := mism_from run_case 0 l.
