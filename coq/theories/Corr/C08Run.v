(* Corr/C08Run.v — C08 reuses the C04 correspondence evaluator: a history of journal writes in which an
   errored write whose record reached the journal is an unsynced, unacknowledged record, followed by a clean
   close (strongest image) and reopen. *)
From GL Require Export Corr.C04Run.
