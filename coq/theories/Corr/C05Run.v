(* Corr/C05Run.v — correspondence evaluator for C05 (trace inclusion): every event trace recorded on the running
   DB (hooks 500-509 of leveldb/verif_events_cut.go, the commit hook, and the harness' own log of each reader's
   answers) must be an execution of the LTS Conc/ReadCut.v.  Negative controls (the same trace with one of the
   protocol orders reversed by the harness) must be refused. *)
From GL Require Import Base.Bytes Codec.IKey Corr.Cmps Gen.Consts Gen.Inst Lsm.Lsm Conc.ReadCut.
From Coq Require Import String.

Inductive kentry := E (uk : string) (seq kind : N) (val : string).

Inductive kact :=
| KIns (w : N) (e : kentry)
| KPub (w n : N)
| KRot (w : N)
| KInst (es : list kentry)
| KDrop
| KRew (m : N) (v : list kentry)
| KTxn (w : N) (es : list kentry)
| KSetSeq (w s : N)
| KRSeq (r s : N)
| KRMems (r : N)
| KRVer (r : N)
| KRLook (r : N) (k : string) (ans : option string)
| KRRel (r : N)
| KRDone (r : N).

(* one recorded trace; expect = true: a real execution (must be accepted); false: a negative control *)
Inductive c05case := KTrace (cid : N) (expect : bool) (acts : list kact).

Definition to_entry (e : kentry) : entry :=
  match e with E u s k v => {| e_uk := unhex u; e_seq := s; e_kind := k; e_val := unhex v |} end.

Definition to_action (a : kact) : action :=
  match a with
  | KIns w e => AIns (N.to_nat w) (to_entry e)
  | KPub w n => APublish (N.to_nat w) n
  | KRot w => ARotate (N.to_nat w)
  | KInst es => AInstallTable (map to_entry es)
  | KDrop => ADropFrozen
  | KRew m v => AInstallRewrite m (map to_entry v)
  | KTxn w es => ATxnInstall (N.to_nat w) (map to_entry es)
  | KSetSeq w s => ASetSeq (N.to_nat w) s
  | KRSeq r s => ARSeq (N.to_nat r) s
  | KRMems r => ARMems (N.to_nat r)
  | KRVer r => ARVersion (N.to_nat r)
  | KRLook r k ans => ARLookup (N.to_nat r) (unhex k) (option_map unhex ans)
  | KRRel r => ARRelease (N.to_nat r)
  | KRDone r => ARDone (N.to_nat r)
  end.

Definition run_case (cs : c05case) : bool :=
  match cs with
  | KTrace cid expect acts => Bool.eqb (accepts (cmp_of_id cid) kp (map to_action acts)) expect
  end.

(* diagnostics: index of the first refused action of a trace *)
Definition refused_at (cs : c05case) : option N :=
  match cs with
  | KTrace cid _ acts => first_refused (cmp_of_id cid) kp init (map to_action acts) 0
  end.

Fixpoint mism_from {A} (f : A -> bool) (i : N) (l : list A) : list N :=
  match l with
  | [] => []
  | x :: l' => if f x then mism_from f (i + 1) l' else i :: mism_from f (i + 1) l'
  end.

Definition mismatches (l : list c05case) : list N := mism_from run_case 0 l.
