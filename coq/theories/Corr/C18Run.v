(* Corr/C18Run.v — correspondence evaluator for C18: replays on the lifecycle machine (Store/Lifecycle.v) the call
   sequences the harness executed on the implementation and returns the indexes of the cases that disagree.
     KEnum names : the method names found by package reflect on *leveldb.DB, *leveldb.Snapshot,
                   *leveldb.Transaction and iterator.Iterator must be exactly the names of [all_api].
     KSeq has steps : from a storage that holds a DB (has) or not, every step (call, observed outcome code,
                   observed "a mutating storage operation was issued between the start of the call and the end
                   of the drain that follows it") must satisfy: model outcome = observed outcome (a model
                   outcome [Unspecified] accepts anything) and observed mutation -> the model's mutation log
                   grew over the call and the drain of the DB it addressed. *)
From GL Require Import Store.Lifecycle.
From Coq Require Import String List NArith Bool.
Import ListNotations.

Inductive kstep := KS (c : call) (obs : N) (mut : bool).

Inductive c18case :=
| KEnum (names : list string)
| KSeq (has : bool) (steps : list kstep).

Definition target (s : state) (c : call) : nat :=
  match c with
  | COpen _ _ => List.length (dbs s)    (* index of the DB a successful Open appends *)
  | CApi d _ _ => d
  | CDrain d => d
  end.

Fixpoint run_seq (s : state) (l : list kstep) : bool :=
  match l with
  | [] => true
  | KS c obs mut :: l' =>
      let d := target s c in
      let '(s1, o) := step true s c in
      let s2 := fst (step true s1 (CDrain d)) in
      let grew := negb (Nat.eqb (List.length (mlog (stor s2))) (List.length (mlog (stor s)))) in
      ((outcome_code o =? obs)%N || outcome_eqb o Unspecified) && implb mut grew && run_seq s2 l'
  end.

Definition model_names : list string := map api_name all_api.

Definition subset (a b : list string) : bool := forallb (fun x => existsb (String.eqb x) b) a.

Definition run_case (c : c18case) : bool :=
  match c with
  | KEnum names => subset names model_names && subset model_names names
  | KSeq has steps => run_seq (init_state has [] 1%N) steps
  end.

Fixpoint mism_from {A} (f : A -> bool) (i : N) (l : list A) : list N :=
  match l with
  | [] => []
  | x :: l' => if f x then mism_from f (i + 1)%N l' else i :: mism_from f (i + 1)%N l'
  end.

Definition mismatches (l : list c18case) : list N := mism_from run_case 0%N l.

(* position of the first failing step of a sequence (debugging aid used in replay files) *)
Fixpoint first_bad (s : state) (l : list kstep) (i : N) : option (N * N) :=
  match l with
  | [] => None
  | KS c obs mut :: l' =>
      let d := target s c in
      let '(s1, o) := step true s c in
      let s2 := fst (step true s1 (CDrain d)) in
      let grew := negb (Nat.eqb (List.length (mlog (stor s2))) (List.length (mlog (stor s)))) in
      if ((outcome_code o =? obs)%N || outcome_eqb o Unspecified) && implb mut grew
      then first_bad s2 l' (i + 1)%N else Some (i, outcome_code o)
  end.
