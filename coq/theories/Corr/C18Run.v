(* Corr/C18Run.v — correspondence evaluator for C18: replays on the lifecycle machine (Store/Lifecycle.v) the call
   sequences the harness executed on the implementation and returns the indexes of the cases that disagree.
     KEnum names : the method names found by package reflect on *leveldb.DB, *leveldb.Snapshot,
                   *leveldb.Transaction and iterator.Iterator must be exactly the names of [all_api].
     KSeq has steps : from a storage that holds a DB (has) or not, every step (call, observed outcome code,
                   observed "a mutating storage operation was issued between the start of the call and the end
                   of the drain that follows it") must satisfy: model outcome = observed outcome (a model
                   outcome [Unspecified] accepts anything) and observed mutation -> the model's mutation log
                   grew over the call and the drain of the DB it addressed.
   The file storage (Store/FileStorage.v against leveldb/storage/file_storage.go; byte strings travel as hex):
     KGen ty num gen old hasold : fsGenName / fsGenOldName / fsHasOldName of the descriptor, and fsParseName
                   of both names gives the descriptor back.
     KParse name ok ty num : fsParseName of an arbitrary (adversarial) name.
     KDir ro pre res ty num post : a real directory holding exactly [pre] (LOG / LOG.old contents are replaced
                   by one byte: "B" above 1 MiB, else "S"), storage.OpenFile(dir, ro) + GetMeta: result class
                   (0 descriptor, 1 os.ErrNotExist, 2 ErrCorrupted), the descriptor, and the directory afterwards.
     KOps kind pre ty num ops : the mutating system calls observed with strace during SetMeta(fd) (kind 0) or a
                   read-write GetMeta (kind 1) on a directory holding [pre], in order, LOG traffic excluded.
     KCrash kind pre m0 ty num k mask sel img res rty rnum : [img] is the crash image (mask / sel) of the model after
                   the first k operations of set_meta (ty,num) (kind 0) or of the repair of a read-write GetMeta
                   (kind 1) from [pre]; the real read-only GetMeta on a directory
                   holding [img] answered (res, rty, rnum); the model must produce the same image and the same
                   answer, and the answer must be the old manifest number m0 or the new one.
     KLife exists steps : OpenFile / Lock / Unlock / Close / guarded methods on one directory: error classes.
   The API totality sweep (Store/ApiTotality.v against the whole exported surface of the twelve packages):
     KApi entry cls obs : calling [entry] with an argument of class [cls] had outcome class [obs] (0 ok, 1 error,
                   2 panic, 3 hang, 4 huge allocation, 5 the process died): the table must allow it.
     KApiEnum names : every exported function / method / interface method found in the Go source (go/ast) has a row.
     KApiBuf isnil len off op n panicked : the util.Buffer model (Base/UBuffer.v) on the sweep's own inputs: a buffer made
                   by NewBuffer over [len] bytes (isnil: the zero value / NewBuffer(nil)) of which [off] were consumed;
                   one call of Truncate (op 0), Alloc (1), Grow (2) or Next (3) with the int argument n: the model's
                   result is a panic exactly when the call panicked (allocations that kill the process are not cases). *)
From GL Require Import Base.Bytes Store.Lifecycle Store.FileStorage.
From GL Require Import Store.StorContract Store.MemStorage Store.FileStorageSeq.
From GL Require Store.ApiTotality.
From GL Require Base.NIdx Base.UBuffer.
From Coq Require Import String List NArith ZArith Bool.
Import ListNotations.

(* ---- the storages as storage.Storage (Store/StorContract.v, MemStorage.v, FileStorageSeq.v): one generated call sequence
   run on the REAL storage.NewMemStorage() (impl 0), on storage.OpenFile in a temporary directory holding [init]
   (impl 1) and on the checker's vstor (impl 2); every result must be the model's.
     KStor impl init steps : steps = (call, observed result); handles and lockers are named by creation index. *)
Inductive ysop :=
| YLock | YUnlock (k : nat) | YSetMeta (ty : N) (num : Z) | YGetMeta | YList (mask : N)
| YOpen (ty : N) (num : Z) | YCreate (ty : N) (num : Z) | YRemove (ty : N) (num : Z)
| YRename (ty : N) (num : Z) (ty2 : N) (num2 : Z) | YClose
| YWrite (h : nat) (d : string) | YSync (h : nat) | YReadAll (h : nat) | YHClose (h : nat).

Inductive ysres :=
| YROk | YRErr (code : N) | YRFd (ty : N) (num : Z) | YRList (l : list (N * Z)) | YRData (d : string)
| YRLockId (k : nat) | YRHandle (h : nat).

Definition sop_of (o : ysop) : sop :=
  match o with
  | YLock => SLock | YUnlock k => SUnlock k | YSetMeta t n => SSetMeta (XFD t n) | YGetMeta => SGetMeta
  | YList m => SList m | YOpen t n => SOpen (XFD t n) | YCreate t n => SCreate (XFD t n)
  | YRemove t n => SRemove (XFD t n) | YRename t n t2 n2 => SRename (XFD t n) (XFD t2 n2) | YClose => SClose
  | YWrite h d => HWrite h (unhex d) | YSync h => HSync h | YReadAll h => HReadAll h | YHClose h => HClose h
  end.

Fixpoint xfds_eqb (a : list xfd) (b : list (N * Z)) : bool :=
  match a, b with
  | [], [] => true
  | x :: a', (t, n) :: b' => xfd_eqb x (XFD t n) && xfds_eqb a' b'
  | _, _ => false
  end.

Definition sres_eqb (r : sres) (x : ysres) : bool :=
  match r, x with
  | RUnspec, _ => true
  | ROk, YROk => true
  | RErr e, YRErr c => (serrc_code e =? c)%N
  | RFd f, YRFd t n => xfd_eqb f (XFD t n)
  | RList l, YRList l' => xfds_eqb l l'
  | RData d, YRData d' => beq d (unhex d')
  | RLockId k, YRLockId k' => Nat.eqb k k'
  | RHandle h, YRHandle h' => Nat.eqb h h'
  | _, _ => false
  end.

Fixpoint run_steps {S} (step : S -> sop -> S * sres) (s : S) (l : list (ysop * ysres)) : bool :=
  match l with
  | [] => true
  | (o, x) :: l' => let '(s1, r) := step s (sop_of o) in sres_eqb r x && run_steps step s1 l'
  end.

(* the directory found by OpenFile: CURRENT-family files, names fsGenName produces, everything else *)
Fixpoint q_init (l : list (bytes * bytes)) (s : qst) : qst :=
  match l with
  | [] => s
  | (n, c) :: l' =>
      let i := List.length (q_inos s) in
      let s1 :=
        if is_cur_name n then QS (q_dir s) (q_other s) (q_inos s) (q_hs s) (q_cur s ++ [(n, c)]) false None 0
        else match parse_name n with
             | Some fd => if beq (gen_name fd) n && (0 <=? fd_num fd)%Z
                          then QS (q_dir s ++ [(xfd_of fd, i)]) (q_other s) (q_inos s ++ [c]) (q_hs s) (q_cur s) false None 0
                          else QS (q_dir s) (q_other s ++ [(n, i)]) (q_inos s ++ [c]) (q_hs s) (q_cur s) false None 0
             | None => QS (q_dir s) (q_other s ++ [(n, i)]) (q_inos s ++ [c]) (q_hs s) (q_cur s) false None 0
             end in
      q_init l' s1
  end.

Inductive kstep := KS (c : call) (obs : N) (mut : bool).

Inductive kfsop := KOp (code : N) (a b : string).

Inductive c18case :=
| KEnum (names : list string)
| KSeq (has : bool) (steps : list kstep)
| KGen (ty : N) (num : Z) (gen old : string) (hasold : bool)
| KParse (name : string) (ok : bool) (ty : N) (num : Z)
| KDir (ro : bool) (pre : list (string * string)) (res ty : N) (num : Z) (post : list (string * string))
| KOps (kind : N) (pre : list (string * string)) (ty : N) (num : Z) (ops : list kfsop)
| KCrash (kind : N) (pre : list (string * string)) (m0 : Z) (ty : N) (num : Z) (k : N) (mask : list bool) (sel : list (N * N))
         (img : list (string * string)) (res rty : N) (rnum : Z)
| KLife (dirx : bool) (steps : list (fcall * N))
| KStor (impl : N) (init : list (string * string)) (steps : list (ysop * ysres))
| KApi (entry cls : string) (obs : N)
| KApiEnum (names : list string)
| KApiBuf (isnil : bool) (len off : N) (op : N) (n : Z) (panicked : bool).

Definition target (s : state) (c : call) : nat :=
  match c with
  | COpen _ _ => List.length (dbs s)    (* index of the DB a successful Open appends *)
  | CApi d _ _ => d
  | CDrain d => d
  end.

Fixpoint run_seq (s : state) (l : list kstep) : bool :=
  match l with
  | [] => true
  | KS c obs mut :: l' =>
      let d := target s c in
      let '(s1, o) := step true s c in
      let s2 := fst (step true s1 (CDrain d)) in
      let grew := negb (Nat.eqb (List.length (mlog (stor s2))) (List.length (mlog (stor s)))) in
      ((outcome_code o =? obs)%N || outcome_eqb o Unspecified) && implb mut grew && run_seq s2 l'
  end.

Definition model_names : list string := map api_name all_api.

(* largest n for which make([]byte, n) does not panic (the runtime's maxAlloc on linux/amd64: 2^48) *)
Definition api_mx : N := 281474976710656.

Definition subset (a b : list string) : bool := forallb (fun x => existsb (String.eqb x) b) a.

(* ---- file storage *)

Definition mkview (l : list (string * string)) : view := map (fun p => (unhex (fst p), unhex (snd p))) l.

Definition view_sub (a b : view) : bool :=
  forallb (fun nc => match lookup b (fst nc) with Some c => beq c (snd nc) | None => false end) a.

Definition view_eqb (a b : view) : bool :=
  Nat.eqb (List.length a) (List.length b) && view_sub a b && view_sub b a.

Definition fd_matches (o : option fdesc) (ok : bool) (ty : N) (num : Z) : bool :=
  match o with
  | Some fd => ok && (ftype_code (fd_type fd) =? ty)%N && (fd_num fd =? num)%Z
  | None => negb ok
  end.

Definition gres_matches (r : gresult) (res ty : N) (num : Z) : bool :=
  match r with
  | GOk fd => (res =? 0)%N && (ftype_code (fd_type fd) =? ty)%N && (fd_num fd =? num)%Z
  | GErr GNotExist => (res =? 1)%N
  | GErr GCorrupted => (res =? 2)%N
  end.

Definition kop_of (o : fsop) : N * bytes * bytes :=
  match o with
  | OCreate n => (0%N, n, [])
  | OWrite n d => (1%N, n, d)
  | OFsync n => (2%N, n, [])
  | ORename a b => (3%N, a, b)
  | OUnlink n => (4%N, n, [])
  | OSyncDir => (5%N, [], [])
  end.

Fixpoint ops_match (m : list fsop) (o : list kfsop) : bool :=
  match m, o with
  | [], [] => true
  | x :: m', KOp c a b :: o' =>
      let '(c', a', b') := kop_of x in
      (c =? c')%N && beq (unhex a) a' && beq (unhex b) b' && ops_match m' o'
  | _, _ => false
  end.

Definition sel_of (l : list (N * N)) (i : N) : option nat :=
  match find (fun p => (fst p =? i)%N) l with
  | Some p => Some (N.to_nat (snd p))
  | None => None
  end.

Fixpoint run_life (p : proc) (l : list (fcall * N)) : bool :=
  match l with
  | [] => true
  | (c, code) :: l' => let '(p', e, _) := fstep p c in (serr_code e =? code)%N && run_life p' l'
  end.

Definition run_case (c : c18case) : bool :=
  match c with
  | KEnum names => subset names model_names && subset model_names names
  | KSeq has steps => run_seq (init_state has [] 1%N) steps
  | KGen ty num gen old hasold =>
      match ftype_of_code ty with
      | None => false
      | Some t =>
          let fd := FD t num in
          beq (gen_name fd) (unhex gen) && beq (gen_old_name fd) (unhex old) && Bool.eqb (has_old_name fd) hasold &&
          fd_matches (parse_name (unhex gen)) true ty num && fd_matches (parse_name (unhex old)) true ty num
      end
  | KParse name ok ty num => fd_matches (parse_name (unhex name)) ok ty num
  | KDir ro pre res ty num post =>
      let '(r, v) := get_meta ro (open_file_view ro (mkview pre)) in
      gres_matches r res ty num && view_eqb v (mkview post)
  | KOps kind pre ty num ops =>
      let v := mkview pre in
      match ftype_of_code ty with
      | None => false
      | Some t =>
          ops_match (if (kind =? 0)%N then set_meta_ops v (FD t num) else snd (get_meta_ops false v)) ops
      end
  | KCrash kind pre m0 ty num k mask sel img res rty rnum =>
      let v := mkview pre in
      match ftype_of_code ty with
      | None => false
      | Some t =>
          let ops := if (kind =? 0)%N then set_meta_ops v (FD t num) else snd (get_meta_ops false v) in
          let s := fapply_all (fs_of_view v) (firstn (N.to_nat k) ops) in
          let im := image_view mask (sel_of sel) s in
          view_eqb im (mkview img) &&
          gres_matches (get_meta_result im) res rty rnum &&
          (res =? 0)%N && (rty =? 1)%N && ((rnum =? m0)%Z || (rnum =? num)%Z)
      end
  | KLife dirx steps => run_life (PR dirx OsFree []) steps
  | KStor impl init steps =>
      if (impl =? 0)%N then run_steps (mstep true) m_empty steps
      else if (impl =? 1)%N then run_steps qstep (q_init (mkview init) q_empty) steps
      else run_steps vstep c_empty steps
  | KApi entry cls obs => ApiTotality.outcome_allowed entry cls obs
  | KApiEnum names => ApiTotality.surface_known names
  | KApiBuf isnil len off op n panicked =>
      let s := if isnil then UBuffer.u_zero else UBuffer.set_off (UBuffer.u_new (NIdx.zeros len) len) off in
      let o := if (op =? 0)%N then UBuffer.OTruncate n else if (op =? 1)%N then UBuffer.OAlloc n
               else if (op =? 2)%N then UBuffer.OGrow n else UBuffer.ONext n in
      Bool.eqb (match snd (UBuffer.u_step api_mx s o) with UBuffer.RPanic _ => true | _ => false end) panicked
  end.

Fixpoint mism_from {A} (f : A -> bool) (i : N) (l : list A) : list N :=
  match l with
  | [] => []
  | x :: l' => if f x then mism_from f (i + 1)%N l' else i :: mism_from f (i + 1)%N l'
  end.

Definition mismatches (l : list c18case) : list N := mism_from run_case 0%N l.

(* position of the first failing step of a sequence (debugging aid used in replay files) *)
Fixpoint first_bad (s : state) (l : list kstep) (i : N) : option (N * N) :=
  match l with
  | [] => None
  | KS c obs mut :: l' =>
      let d := target s c in
      let '(s1, o) := step true s c in
      let s2 := fst (step true s1 (CDrain d)) in
      let grew := negb (Nat.eqb (List.length (mlog (stor s2))) (List.length (mlog (stor s)))) in
      if ((outcome_code o =? obs)%N || outcome_eqb o Unspecified) && implb mut grew
      then first_bad s2 l' (i + 1)%N else Some (i, outcome_code o)
  end.
