(* Corr/C03Run.v — C03 uses the shared L1 correspondence evaluator. *)
From GL Require Export Corr.LsmRun.
