(* Corr/C19BytesRun.v — correspondence cases for leveldb.Recover on REAL file bytes (Store/RepairBytes.v
   recover_bytes): a storage image — every table, journal and manifest file as bytes, some of them damaged — and
   what the real Recover made of it: per table file the verdict (kept / rebuilt / dropped) and the counters its log
   line prints (good keys, corrupted keys, corrupted blocks, largest sequence number, recorded size), the sequence
   number recorded by recoverTable's commit, db.seq, the level-0 table numbers in version order, a sample of Gets at
   db.seq, and the storage afterwards (type, number, length, CRC-32C of every file: rebuilt tables, the new manifest
   and the new journal are compared byte for byte); or the class of the error.  The model must produce the same.
   Depends on model files and Gen/ only. *)
From Coq Require Import List NArith ZArith Bool String.
From GL Require Import Base.Bytes Base.Order Codec.Crc Codec.IKey Codec.Journal Codec.Table Codec.TblCrc Codec.Bloom
  Lsm.Lsm Lsm.ReadPath Lsm.WritePathFilter Store.OpenPath Store.RepairBytes
  Gen.Consts Gen.Inst Gen.InstTbl Gen.InstMem Gen.InstJournal Gen.InstRecord Gen.BloomInst Corr.Cmps.
From GL Require Store.Sweep Lsm.WritePath.
Import ListNotations.
Open Scope N_scope.

Inductive kbfile := KBF (tcode num : N) (data : string).
(* verdict: 0 kept, 1 rebuilt, 2 dropped *)
Inductive kbstat := KBS (num verdict good ckeys cblocks seq size : N).

Inductive kbexp :=
| KBOk (stats : list kbstat) (seq_tables seq_end : N) (l0 : list N) (queries : list (string * option string))
       (after : list (N * N * N * N))
| KBFail (class : N).          (* 1 = errors.IsCorrupted, 9 = any other error *)

Inductive kbcase :=
| KRB (cid : N) (cname : string) (strict : bool) (bs ri : N) (fname : option string) (bpk : N) (lg : N)
      (wbuf maxman : N) (fls : list kbfile) (exp : kbexp).

Definition ftype_of_code (c : N) : Sweep.ftype :=
  if c =? 1 then Sweep.FManifest else if c =? 2 then Sweep.FJournal else if c =? 4 then Sweep.FTable else Sweep.FTemp.

Definition image_of (fls : list kbfile) : simage :=
  mkSI None (map (fun f => match f with KBF t n d => ((ftype_of_code t, n), unhex d) end) fls).

Definition no_dec (_ : bytes) : option bytes := None.

Definition wopts_of (bs ri : N) (fname : option string) (bpk : Z) (lg : N) : WritePath.wopts :=
  WritePath.mkWO bs ri false
    (match fname with Some n => Some (unhex n, bloom_fgen bp bpk lg) | None => None end)
    (fun _ => 0) (fun _ => 0) (fun _ => 0) 0 false.

Definition run_recover (cid : N) (cname : string) (strict : bool) (bs ri : N) (fname : option string) (bpk : Z) (lg : N)
    (wbuf maxman : Z) (img : simage) : ores rbres :=
  recover_bytes jcrc jp rp kp ldb_batchHeaderLen mp tblp tbl_crc (fun x => x) no_dec (option_map unhex fname)
    (bloom_ufc bp bpk) true (wopts_of bs ri fname bpk lg) None (cmp_of_id cid)
    (mkOO false false true wbuf maxman false false false (unhex cname)) strict [] img.

Fixpoint list_eqb {A B} (f : A -> B -> bool) (a : list A) (b : list B) : bool :=
  match a, b with
  | [], [] => true
  | x :: a', y :: b' => f x y && list_eqb f a' b'
  | _, _ => false
  end.

Definition verdict_code (v : tverdict) : N := match v with TKept => 0 | TRebuilt => 1 | TDropped => 2 end.

Definition stat_eqb (s : tstat) (k : kbstat) : bool :=
  match k with
  | KBS num v good ck cb seq size =>
      (ts_num s =? num) && (verdict_code (ts_verdict s) =? v) && (ts_good s =? good) && (ts_ckeys s =? ck) &&
      (ts_cblocks s =? cb) && (ts_seq s =? seq) && (ts_size s =? size)
  end.

Definition obs_eqb (a : option (option bytes)) (b : option string) : bool :=
  match a, b with
  | Some (Some x), Some y => beq x (unhex y)
  | Some None, None => true
  | _, _ => false
  end.

Definition err_class (e : oerr) : N :=
  match e with
  | OEEntryCorrupt | OEMetaCorrupt | OEManifestRead | OEManifest _ | OEJournalRead _ | OEBatch _ _ | OEMissing _ => 1
  | OEFlush => 9
  | _ => 99
  end.

Definition quad_eqb (a b : N * N * N * N) : bool :=
  match a, b with (a1, a2, a3, a4), (b1, b2, b3, b4) => (a1 =? b1) && (a2 =? b2) && (a3 =? b3) && (a4 =? b4) end.

(* the numbers of the checks that fail (empty = agreement) *)
Definition diag_bcase (cs : kbcase) : list N :=
  match cs with
  | KRB cid cname strict bs ri fname bpk lg wbuf maxman fls exp =>
      let bpk := Z.of_N bpk in
      let r := run_recover cid cname strict bs ri fname bpk lg (Z.of_N wbuf) (Z.of_N maxman) (image_of fls) in
      match exp, r with
      | KBFail cl, OpenPath.OErr x => if err_class x =? cl then [] else [20]
      | KBFail _, OpenPath.OOk _ => [21]
      | KBOk _ _ _ _ _ _, OpenPath.OErr x => [22 + err_class x]
      | KBOk stats seq_tables seq_end l0 qs after, OpenPath.OOk rr =>
          let s := rr_state rr in
          let c := cmp_of_id cid in
          let fn := option_map unhex fname in
          (if list_eqb stat_eqb (rr_stats rr) stats then [] else [1]) ++
          (if rr_maxseq rr =? seq_tables then [] else [2]) ++
          (if os_seq s =? seq_end then [] else [3]) ++
          (if list_eqb N.eqb (hd [] (layout_of s)) l0 then [] else [4]) ++
          (if forallb (fun q => obs_eqb (bapi (db_get_bytes c kp mp tblp tbl_crc no_dec fn (bloom_ufc bp bpk) true
                                                             (os_bs s) (unhex (fst q)) (os_seq s))) (snd q)) qs
           then [] else [5]) ++
          (if list_eqb quad_eqb
                       (map (fun x => match f_lookup (si_files (os_image s)) x with
                                      | Some d => (tcode (fst x), snd x, lenN d, crc32c d)
                                      | None => (0, 0, 0, 0)
                                      end) (f_list (si_files (os_image s)))) after then [] else [6])
      end
  end.

Definition run_bcase (cs : kbcase) : bool := match diag_bcase cs with [] => true | _ => false end.
