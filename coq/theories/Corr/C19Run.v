(* Corr/C19Run.v — correspondence evaluator for C19: the table files (per block, damaged blocks marked) and
   journal batches the harness found on the storage before calling leveldb.Recover are run through the model
   Store/Repair.v; the model's level-0 layout after the table scan and after the journal replay, its two
   sequence numbers and its answers to the sampled reads must equal what the implementation showed. *)
From GL Require Import Base.Bytes Codec.IKey Corr.Cmps Gen.Consts Gen.Inst Lsm.Lsm Lsm.Compact Store.Repair.
From GL Require Export Corr.LsmRun.
From Coq Require Import String.
From GL Require Corr.C19BytesRun.

Inductive kblock := KB (damaged : bool) (es : list kentry).
Inductive kfile := KF (num : N) (blocks : list kblock).
Inductive kbatch := KJ (seq : N) (es : list kentry).

(* cid: comparer; strict: StrictRecovery; files in the order the harness hands them over (not sorted); journal batches in file order;
   next: number of the table the replayed journal was flushed to (0 = none); queries: (key, observed digest)
   read at the final sequence number; seq_tables: sequence number recorded by recoverTable's commit; seq_end:
   the DB's sequence number when Recover returned; l0_tables / l0_final: level-0 table numbers, in version
   order, after recoverTable's commit and after the journal commit *)
Inductive c19case :=
| KRecover (cid : N) (strict : bool) (files : list kfile) (journal : list kbatch) (next : N)
           (queries : list (string * option string)) (seq_tables seq_end : N) (l0_tables l0_final : list N)
(* real file bytes through Store/RepairBytes.v recover_bytes (Corr/C19BytesRun.v) *)
| KRecoverB (b : C19BytesRun.kbcase).

Definition to_block (b : kblock) : fblock :=
  match b with KB d es => {| fb_damaged := d; fb_entries := map to_entry es |} end.
Definition to_file (f : kfile) : tfile :=
  match f with KF n bs => {| tf_num := n; tf_blocks := map to_block bs |} end.
Definition to_batch (b : kbatch) : jbatch :=
  match b with KJ s es => {| jb_seq := s; jb_recs := map to_entry es |} end.

Fixpoint nums_eqb (a b : list N) : bool :=
  match a, b with
  | [], [] => true
  | x :: a', y :: b' => (x =? y) && nums_eqb a' b'
  | _, _ => false
  end.

Definition run_case (cs : c19case) : bool :=
  match cs with
  | KRecover cid strict files journal next qs seq_tables seq_end l0_tables l0_final =>
      let c := cmp_of_id cid in
      let fs := map to_file files in
      let js := map to_batch journal in
      let r := recover_tables kp strict fs in
      (r_maxseq r =? seq_tables)
      && nums_eqb (map t_num (sort_l0 (r_added r))) l0_tables
      && match recover c kp strict false fs js next with
         | RError => false
         | ROk st seq =>
             (seq =? seq_end)
             && nums_eqb (map t_num (hd [] (st_levels st))) l0_final
             && forallb (fun q => match q with (k, obs) => opt_eqb (api_of (lsm_get c kp st (unhex k) seq)) obs end) qs
         end
  | KRecoverB b => C19BytesRun.run_bcase b
  end.

Definition mismatches (l : list c19case) : list N := mism_from run_case 0 l.
