(* Corr/C17Run.v — correspondence evaluator for C17: replays on the Conc/Cache model the
   single-threaded operation sequences the harness ran on the real cache.Cache and compares,
   per operation, the result, the user-visible calls (constructor / finaliser / delFunc, in
   order), Cache.Nodes(), Cache.Size(), lru.used and Cache.Capacity(); and at dump steps the
   whole table (ns, key, ref, size, CacheData state, value present) and the LRU recency list.
   Depends on the model file only. *)
From GL Require Import Conc.Cache.

(* user-visible calls *)
Inductive xev :=
| XC (vid size : N)     (* setFunc ran and returned value vid with this size *)
| XS                    (* setFunc ran and returned nil *)
| XF (vid : N)          (* value vid's Release ran *)
| XD (did : N).         (* delFunc did ran *)

Definition proj_ev (e : event) : list xev :=
  match e with
  | EvConstruct _ v sz => [XC v sz]
  | EvSetNil _ => [XS]
  | EvFinal v _ => [XF v]
  | EvDelRun d => [XD d]
  | EvCreate _ _ _ | EvDelReg _ _ => []
  end.

Definition xev_eqb (a b : xev) : bool :=
  match a, b with
  | XC v s, XC v' s' => (v =? v') && (s =? s')
  | XS, XS => true
  | XF v, XF v' => v =? v'
  | XD d, XD d' => d =? d'
  | _, _ => false
  end.

Fixpoint list_eqb {A} (eq : A -> A -> bool) (a b : list A) : bool :=
  match a, b with
  | [], [] => true
  | x :: a', y :: b' => eq x y && list_eqb eq a' b'
  | _, _ => false
  end.

Definition out_eqb (a b : out) : bool :=
  match a, b with
  | RGet None, RGet None => true
  | RGet (Some (h, v)), RGet (Some (h', v')) => (h =? h') && (v =? v')
  | RBool x, RBool y => Bool.eqb x y
  | RUnit, RUnit => true
  | RPanic, RPanic => true
  | _, _ => false
  end.

(* one node of a dump: ns, key, ref, size, CacheData state (0 nil, 1 linked, 2 banned), value present *)
Inductive ninfo := NI (ns key : N) (ref : Z) (size lru : N) (hasval : bool).
Definition lru_code (l : lrust) : N := match l with LAbsent => 0 | LResident => 1 | LBanned => 2 end.
Definition node_info (n : node) : ninfo :=
  NI (n_ns n) (n_key n) (n_ref n) (n_size n) (lru_code (n_lru n)) (match n_val n with Some _ => true | None => false end).
Definition ninfo_eqb (a b : ninfo) : bool :=
  match a, b with
  | NI ns k r sz l v, NI ns' k' r' sz' l' v' =>
      (ns =? ns') && (k =? k') && (r =? r')%Z && (sz =? sz') && (l =? l') && Bool.eqb v v'
  end.

Definition order_keys (s : state) : list (N * N) :=
  flat_map (fun x => match find_id x (s_nodes s) with Some n => [(n_ns n, n_key n)] | None => [(0, 0)] end) (s_order s).
Definition pair_eqb (a b : N * N) : bool := (fst a =? fst b) && (snd a =? snd b).

Inductive kstep :=
| K (o : op) (r : out) (evs : list xev) (nodes size used : Z) (cap : N)
| KD (nodes : option (list ninfo)) (order : list (N * N)).

Inductive c17case := Case (cacher : bool) (cap : N) (steps : list kstep).

Definition check_step (s : state) (k : kstep) : state * bool :=
  match k with
  | K o r evs nn sz us cap =>
      let (s', r') := step (set_log [] s) o in
      (s', out_eqb r' r && list_eqb xev_eqb (flat_map proj_ev (rev (s_log s'))) evs &&
           (obs_nodes s' =? nn)%Z && (obs_size s' =? sz)%Z && (obs_used s' =? us)%Z && (obs_capacity s' =? cap))
  | KD nodes order =>
      (s, match nodes with
          | Some l => list_eqb ninfo_eqb (map node_info (s_nodes s)) l
          | None => true
          end && list_eqb pair_eqb (order_keys s) order)
  end.

(* index of the first disagreeing step of a case, None when all agree *)
Fixpoint first_bad (s : state) (i : N) (l : list kstep) : option N :=
  match l with
  | [] => None
  | k :: l' => let (s', ok) := check_step s k in if ok then first_bad s' (i + 1) l' else Some i
  end.

Definition case_bad (c : c17case) : option N :=
  match c with Case cacher cap steps => first_bad (init cacher cap) 0 steps end.

Definition run_case (c : c17case) : bool :=
  match case_bad c with None => true | Some _ => false end.

Fixpoint mism_from {A} (f : A -> bool) (i : N) (l : list A) : list N :=
  match l with
  | [] => []
  | x :: l' => if f x then mism_from f (i + 1) l' else i :: mism_from f (i + 1) l'
  end.

Definition mismatches (l : list c17case) : list N := mism_from run_case 0 l.

(* for diagnosis: (case index, first bad step) *)
Fixpoint bad_steps_from (i : N) (l : list c17case) : list (N * N) :=
  match l with
  | [] => []
  | c :: l' => match case_bad c with
               | None => bad_steps_from (i + 1) l'
               | Some j => (i, j) :: bad_steps_from (i + 1) l'
               end
  end.
Definition bad_steps (l : list c17case) : list (N * N) := bad_steps_from 0 l.
