(* Corr/C17Run.v — correspondence evaluator for C17: replays on the Conc/Cache model the
   single-threaded operation sequences the harness ran on the real cache.Cache and compares,
   per operation, the result, the user-visible calls (constructor / finaliser / delFunc, in
   order), Cache.Nodes(), Cache.Size(), lru.used and Cache.Capacity(); and at dump steps the
   whole table (ns, key, ref, size, CacheData state, value present) and the LRU recency list.
   Second part: the node table (Conc/CacheTable.v instantiated with the generated constants and
   murmur32) against the real mHead/mBucket structure — per operation the result (node identity,
   created / found / none / removed, enumeration order), GetStats' Nodes / GrowCount / ShrinkCount /
   Buckets, after every change the chain of heads (mask, predecessor, resizeInProgress, overflow, bucket
   states) and at sampled points the whole layout with node identities — and murmur32 values.
   Depends on model files and Gen/InstC17.v only. *)
From GL Require Import Conc.Cache Conc.CacheTable Gen.InstC17.

(* user-visible calls *)
Inductive xev :=
| XC (vid size : N)     (* setFunc ran and returned value vid with this size *)
| XS                    (* setFunc ran and returned nil *)
| XF (vid : N)          (* value vid's Release ran *)
| XD (did : N).         (* delFunc did ran *)

Definition proj_ev (e : event) : list xev :=
  match e with
  | EvConstruct _ v sz => [XC v sz]
  | EvSetNil _ => [XS]
  | EvFinal v _ => [XF v]
  | EvDelRun d => [XD d]
  | EvCreate _ _ _ | EvDelReg _ _ => []
  end.

Definition xev_eqb (a b : xev) : bool :=
  match a, b with
  | XC v s, XC v' s' => (v =? v') && (s =? s')
  | XS, XS => true
  | XF v, XF v' => v =? v'
  | XD d, XD d' => d =? d'
  | _, _ => false
  end.

Fixpoint list_eqb {A} (eq : A -> A -> bool) (a b : list A) : bool :=
  match a, b with
  | [], [] => true
  | x :: a', y :: b' => eq x y && list_eqb eq a' b'
  | _, _ => false
  end.

Definition out_eqb (a b : out) : bool :=
  match a, b with
  | RGet None, RGet None => true
  | RGet (Some (h, v)), RGet (Some (h', v')) => (h =? h') && (v =? v')
  | RBool x, RBool y => Bool.eqb x y
  | RUnit, RUnit => true
  | RPanic, RPanic => true
  | _, _ => false
  end.

(* one node of a dump: ns, key, ref, size, CacheData state (0 nil, 1 linked, 2 banned), value present *)
Inductive ninfo := NI (ns key : N) (ref : Z) (size lru : N) (hasval : bool).
Definition lru_code (l : lrust) : N := match l with LAbsent => 0 | LResident => 1 | LBanned => 2 end.
Definition node_info (n : node) : ninfo :=
  NI (n_ns n) (n_key n) (n_ref n) (n_size n) (lru_code (n_lru n)) (match n_val n with Some _ => true | None => false end).
Definition ninfo_eqb (a b : ninfo) : bool :=
  match a, b with
  | NI ns k r sz l v, NI ns' k' r' sz' l' v' =>
      (ns =? ns') && (k =? k') && (r =? r')%Z && (sz =? sz') && (l =? l') && Bool.eqb v v'
  end.

Definition order_keys (s : state) : list (N * N) :=
  flat_map (fun x => match find_id x (s_nodes s) with Some n => [(n_ns n, n_key n)] | None => [(0, 0)] end) (s_order s).
Definition pair_eqb (a b : N * N) : bool := (fst a =? fst b) && (snd a =? snd b).

Inductive kstep :=
| K (o : op) (r : out) (evs : list xev) (nodes size used : Z) (cap : N)
| KD (nodes : option (list ninfo)) (order : list (N * N)).

(* ---- the node table (Conc/CacheTable.v with the generated constants and murmur32): the real table
   (leveldb/cache, nil cacher) is driven through Cache.Get / Handle.Release and the verif exports; after
   every operation the harness reads the chain of heads and emits, before the observation, the
   background steps (initBucket of single buckets, end of initBuckets) that the goroutine
   `go nh.initBuckets()` — or the harness itself, through VerifInitBucket — performed meanwhile. *)
Inductive tkstep :=
| TK (o : top) (r : tres) (nodes : Z) (ngrow nshrink nbuckets : N)
                            (* operation, its result, GetStats().Nodes / GrowCount / ShrinkCount / Buckets after it *)
| TB (o : top) (enabled : bool)           (* background step (forced or inferred) *)
| TS (heads : list (N * bool * bool * Z * N))
                            (* per head, newest first: mask, predecessor != nil, resizeInProgress, overflow,
                               bucket states as a base-4 number (bucket 0 = lowest digit) *)
| TL (lay : list (N * bool * bool * Z * list (N * list N))).    (* the whole layout with node ids *)

Definition tstep17 := tstep cache_hash cache_tp.
Definition tinit17 := tinit cache_tp.

Definition nlist_eqb (a b : list N) : bool := list_eqb N.eqb a b.
Definition tres_eqb (a b : tres) : bool :=
  match a, b with
  | RNode i c, RNode i' c' => (i =? i') && Bool.eqb c c'
  | RNone, RNone => true
  | RDel d, RDel d' => Bool.eqb d d'
  | REnum l, REnum l' => nlist_eqb l l'
  | RBg e, RBg e' => Bool.eqb e e'
  | RSpin, RSpin => true
  | RTPanic, RTPanic => true
  | _, _ => false
  end.

(* the codes the harness reports are Go's bucketUninitialized / Initialized / Frozen *)
Definition gocode (s : bstate) : N :=
  match s with
  | BUninit => fst (fst cache_bcodes) | BInit => snd (fst cache_bcodes) | BFrozen => snd cache_bcodes
  end.
Definition states_num (h : head) : N := fold_right (fun b a => gocode (b_state b) + 4 * a) 0 (h_buckets h).
Definition head_sum (h : head) : N * bool * bool * Z * N :=
  (h_mask h, h_pred h, h_resizing h, h_overflow h, states_num h).
Definition head_sum_eqb (a b : N * bool * bool * Z * N) : bool :=
  match a, b with
  | (m, p, r, o, s), (m', p', r', o', s') => (m =? m') && Bool.eqb p p' && Bool.eqb r r' && (o =? o')%Z && (s =? s')
  end.
Definition blay_eqb (a b : N * list N) : bool := (fst a =? fst b) && nlist_eqb (snd a) (snd b).
Definition hlay_eqb (a b : N * bool * bool * Z * list (N * list N)) : bool :=
  match a, b with
  | (m, p, r, o, l), (m', p', r', o', l') =>
      (m =? m') && Bool.eqb p p' && Bool.eqb r r' && (o =? o')%Z && list_eqb blay_eqb l l'
  end.
Definition golayout (t : table) : list (N * bool * bool * Z * list (N * list N)) :=
  map (fun h => (h_mask h, h_pred h, h_resizing h, h_overflow h,
                 map (fun b => (gocode (b_state b), map tn_id (b_nodes b))) (h_buckets h))) (t_heads t).

Definition tcheck_step (t : table) (k : tkstep) : table * bool :=
  match k with
  | TK o r nn g sh nb =>
      let (t', r') := tstep17 t o in
      (t', tres_eqb r' r && (t_nodes t' =? nn)%Z && (t_ngrow t' =? g) && (t_nshrink t' =? sh) &&
           (match t_heads t' with h :: _ => hlen h =? nb | [] => false end))
  | TB o e => let (t', r') := tstep17 t o in (t', tres_eqb r' (RBg e))
  | TS hs => (t, list_eqb head_sum_eqb (map head_sum (t_heads t)) hs)
  | TL l => (t, list_eqb hlay_eqb (golayout t) l)
  end.

Fixpoint tfirst_bad (t : table) (i : N) (l : list tkstep) : option N :=
  match l with
  | [] => None
  | k :: l' => let (t', ok) := tcheck_step t k in if ok then tfirst_bad t' (i + 1) l' else Some i
  end.

(* murmur32: (ns, key, seed, value computed by the Go function) *)
Definition hcheck (q : N * N * N * N) : bool :=
  match q with (ns, key, seed, h) => murmur32 cache_hc ns key seed =? h end.
Fixpoint hfirst_bad (i : N) (l : list (N * N * N * N)) : option N :=
  match l with
  | [] => None
  | q :: l' => if hcheck q then hfirst_bad (i + 1) l' else Some i
  end.

Inductive c17case :=
| Case (cacher : bool) (cap : N) (steps : list kstep)
| TCase (steps : list tkstep)
| HCase (l : list (N * N * N * N)).

Definition check_step (s : state) (k : kstep) : state * bool :=
  match k with
  | K o r evs nn sz us cap =>
      let (s', r') := step (set_log [] s) o in
      (s', out_eqb r' r && list_eqb xev_eqb (flat_map proj_ev (rev (s_log s'))) evs &&
           (obs_nodes s' =? nn)%Z && (obs_size s' =? sz)%Z && (obs_used s' =? us)%Z && (obs_capacity s' =? cap))
  | KD nodes order =>
      (s, match nodes with
          | Some l => list_eqb ninfo_eqb (map node_info (s_nodes s)) l
          | None => true
          end && list_eqb pair_eqb (order_keys s) order)
  end.

(* index of the first disagreeing step of a case, None when all agree *)
Fixpoint first_bad (s : state) (i : N) (l : list kstep) : option N :=
  match l with
  | [] => None
  | k :: l' => let (s', ok) := check_step s k in if ok then first_bad s' (i + 1) l' else Some i
  end.

Definition case_bad (c : c17case) : option N :=
  match c with
  | Case cacher cap steps => first_bad (init cacher cap) 0 steps
  | TCase steps => tfirst_bad tinit17 0 steps
  | HCase l => hfirst_bad 0 l
  end.

Definition run_case (c : c17case) : bool :=
  match case_bad c with None => true | Some _ => false end.

Fixpoint mism_from {A} (f : A -> bool) (i : N) (l : list A) : list N :=
  match l with
  | [] => []
  | x :: l' => if f x then mism_from f (i + 1) l' else i :: mism_from f (i + 1) l'
  end.

Definition mismatches (l : list c17case) : list N := mism_from run_case 0 l.

(* for diagnosis: (case index, first bad step) *)
Fixpoint bad_steps_from (i : N) (l : list c17case) : list (N * N) :=
  match l with
  | [] => []
  | c :: l' => match case_bad c with
               | None => bad_steps_from (i + 1) l'
               | Some j => (i, j) :: bad_steps_from (i + 1) l'
               end
  end.
Definition bad_steps (l : list c17case) : list (N * N) := bad_steps_from 0 l.
