(* Corr/C04Run.v — correspondence evaluator for C04: the record-level persistence model follows the event
   sequence observed on the implementation (journal writes/syncs, rotations, flush / transaction /
   compaction edits, journal removals) up to a crash point; its recovery of the weakest or strongest crash
   image must keep exactly the batches the real Open recovers from the corresponding image. *)
From GL Require Import Store.Crash.
(* the byte-level cases (journal file bytes of a crash image) have their own evaluator; built along *)
From GL Require Export Corr.C04BytesRun.
(* the manifest record codec / manifest replay cases have their own evaluator too; built along *)
From GL Require Export Corr.C04RecRun.
(* the composed Open on whole storage images (Store/OpenPath.v); not imported: its names overlap with C12's *)
From GL Require Corr.C04OpenRun.

Inductive c04case :=
| KCrash (ops : list pop) (keep_all : bool) (observed : list N).   (* observed: 0-based issue indexes kept *)

Fixpoint index_of (b : batch) (l : list batch) (i : N) : option N :=
  match l with
  | [] => None
  | x :: r => if batch_eqb b x then Some i else index_of b r (i + 1)
  end.

Fixpoint list_eqb (a b : list N) : bool :=
  match a, b with
  | [], [] => true
  | x :: a', y :: b' => (x =? y) && list_eqb a' b'
  | _, _ => false
  end.

Definition run_case (c : c04case) : bool :=
  match c with
  | KCrash ops keep_all observed =>
      let s := prun ops in
      let big := (length (p_issued s) + length (p_man s) + 1)%nat in
      let img := if keep_all then mk_image s big big big else mk_image s 0 0 0 in
      let r := recover img in
      list_eqb (map (fun b => match index_of b (p_issued s) 0 with Some i => i | None => 999999 end) r) observed
  end.

Fixpoint mism_from {A} (f : A -> bool) (i : N) (l : list A) : list N :=
  match l with
  | [] => []
  | x :: l' => if f x then mism_from f (i + 1) l' else i :: mism_from f (i + 1) l'
  end.

Definition mismatches (l : list c04case) : list N := mism_from run_case 0 l.
