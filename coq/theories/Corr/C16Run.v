(* Corr/C16Run.v — correspondence evaluator for C16: runs the Hash / Bloom / FilterBlock models on
   the cases the harness observed on the implementation and returns the indexes that disagree. *)
From GL Require Import Base.Bytes Base.NIdx Codec.Bloom Codec.FilterBlock Gen.Consts Gen.BloomInst.
From Coq Require Import String ZArith.

(* an operation on the filter writer as observed from table.Writer: key added / block flushed at offset *)
Inductive kop := KA (key : string) | KF (offset : N).

Inductive c16case :=
(* util.Hash(data, seed) = obs *)
| CHash (data : string) (seed obs : N)
(* filter.NewBloomFilter(bpk): generator over keys wrote obs (None = it panicked); then for each
   (probe, answer): Contains(obs, probe) = answer *)
| CBloom (bpk : Z) (keys : list string) (obs : option string) (probes : list (string * bool))
(* Contains(filter, key) = obs for arbitrary filter bytes *)
| CHas (filter key : string) (obs : bool)
(* filter.NewBloomFilter(bpk): the generator over nkeys keys wrote a filter of len bytes whose last byte is k
   (filters of up to 512 MiB: only the size and k travel) *)
| CBloomLen (bpk : Z) (nkeys len k : N)
(* Contains(filter, key) = obs (None = it panicked) for the filter of len bytes that is zero except at the
   listed (index, byte) pairs (filters of 2^29 bytes and more) *)
| CHasBig (len : N) (nonzero : list (N * N)) (key : string) (obs : option bool)
(* a table written by table.Writer with Filter = bloom bpk (wrapped in iFilter when ifl), FilterBaseLg = lg:
   ops = what the writer did to its filter writer; obs = the filter block found in the file (None = the
   writer panicked);
   queries = (data block offset, key, what the reader's filterBlock.contains answered) *)
| CFB (ifl : bool) (bpk : Z) (lg : N) (ops : list kop) (obs : option string) (queries : list (N * string * bool)).

Definition opt_beq (a : option bytes) (b : option string) : bool :=
  match a, b with
  | None, None => true
  | Some x, Some y => beq x (unhex y)
  | _, _ => false
  end.

Definition ob_eq (a : option bool) (b : bool) : bool :=
  match a with Some x => Bool.eqb x b | None => false end.

Definition the_policy (ifl : bool) (bpk : Z) : policy :=
  if ifl then ifilter (bloom_policy bp bpk) else bloom_policy bp bpk.

Definition op_of (o : kop) : fwop :=
  match o with KA k => FAdd (unhex k) | KF off => FFlush off end.

Definition run_case (c : c16case) : bool :=
  match c with
  | CHash d s obs => hash hp (unhex d) s =? obs
  | CBloom bpk keys obs probes =>
      let f := bloom_filter_of bp bpk (map unhex keys) in
      opt_beq f obs &&
      match f with
      | None => true
      | Some fb => forallb (fun pr => ob_eq (bloom_contains bp fb (unhex (fst pr))) (snd pr)) probes
      end
  | CHas f k obs => ob_eq (bloom_contains bp (unhex f) (unhex k)) obs
  | CBloomLen bpk nkeys len k => (bloom_nbytes bp bpk nkeys + 1 =? len) && (bloom_k bp bpk =? k)
  | CHasBig len nz k obs =>
      match bloom_contains_fn bp len (sparse_get nz) (unhex k), obs with
      | Some a, Some b => Bool.eqb a b
      | None, None => true
      | _, _ => false
      end
  | CFB ifl bpk lg ops obs queries =>
      let P := the_policy ifl bpk in
      match fw_build P lg (map op_of ops), obs with
      | None, None => true
      | None, Some _ | Some _, None => false
      | Some data, Some o =>
          beq data (unhex o) &&
          forallb (fun q => match q with (off, k, a) => ob_eq (fb_may_contain P data off (unhex k)) a end) queries
      end
  end.

Fixpoint mism_from {A} (f : A -> bool) (i : N) (l : list A) : list N :=
  match l with
  | [] => []
  | x :: l' => if f x then mism_from f (i + 1) l' else i :: mism_from f (i + 1) l'
  end.

Definition mismatches (l : list c16case) : list N := mism_from run_case 0 l.
