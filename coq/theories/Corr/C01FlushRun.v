(* Corr/C01FlushRun.v — correspondence evaluator for the byte-level WRITE path of property C01 (Lsm/WritePath.v): for a
   flush / table compaction / trivial move observed on the running DB (commit hook), the case carries the byte state before
   the step (the frozen memdb's arrays; the table FILES of the version the record was spawned from), the options that reach
   the writers, the choices the model leaves open (file numbers, seed, minSeq) and what the real code installed: the layout
   (file numbers per level) and the BYTES of every table file it wrote.  The model step is run on the byte state and must
   install the same layout and write byte-identical files with the same recorded bounds.
   Depends on model files only. *)
From GL Require Import Base.Bytes Codec.IKey Codec.Table Codec.TableCheck Codec.TblCrc Codec.Bloom Codec.FilterBlock
  Corr.Cmps Corr.C01BytesRun Gen.Consts Gen.Inst Gen.InstTbl Gen.InstMem Gen.BloomInst Lsm.Lsm Lsm.Pick Lsm.Builder
  Lsm.ReadPath Lsm.WritePath Lsm.WritePathFilter.
From GL Require Mem.MemDB.
From Coq Require Import String ZArith.
Open Scope N_scope.

(* the options of the session: block size, restart interval, filter (name, bits per key, baseLg), and for a compaction
   CompactionTableSize(level+1), the compaction's maxGPOverlaps and expand limit, StrictCompaction *)
Inductive kopts := KO (bs ri : N) (fname : option string) (bpk : Z) (lg : N) (tableSize gpOverlaps expandLimit : N) (strict : bool).

Inductive c01fcase :=
| KFlushBytes (cid : N) (o : kopts) (frozen : kmem) (lvls : list (list kfile)) (num : N)
              (after : list (list N)) (out : kfile)
| KCompactBytes (cid : N) (o : kopts) (lvls : list (list kfile)) (lvl : nat) (seed nums : list N) (minSeq : N)
                (moved : bool) (after : list (list N)) (outs : list kfile).

Definition id_compress (x : bytes) : bytes := x.

Definition wopts_of (o : kopts) : wopts :=
  match o with
  | KO bs ri fname bpk lg ts gpo el strict =>
      mkWO bs ri false
           (match fname with Some n => Some (unhex n, bloom_fgen bp bpk lg) | None => None end)
           (fun _ => ts) (fun _ => gpo) (fun _ => el) 0 strict
  end.
Definition fname_of (o : kopts) : option bytes := match o with KO _ _ fname _ _ _ _ _ _ => option_map unhex fname end.
Definition bpk_of (o : kopts) : Z := match o with KO _ _ _ bpk _ _ _ _ _ => bpk end.

Definition layout_of (st : bstate) : list (list N) := map (map tf_num) (bs_levels st).

Definition file_eqb (f : tfile) (k : kfile) : bool :=
  match k with
  | KF n a b d => (tf_num f =? n) && beq (tf_imin f) (unhex a) && beq (tf_imax f) (unhex b) && beq (tf_data f) (unhex d)
  end.

Fixpoint layout_eqb (a b : list (list N)) : bool :=
  match a, b with
  | [], [] => true
  | x :: a', y :: b' => (Nat.eqb (List.length x) (List.length y) && forallb (fun q => fst q =? snd q) (combine x y)) && layout_eqb a' b'
  | _, _ => false
  end.

(* trailing empty levels are not significant (versionStaging.finish trims them) *)
Fixpoint trim_layout (l : list (list N)) : list (list N) :=
  match l with
  | [] => []
  | x :: r => match trim_layout r, x with
              | [], [] => []
              | r', _ => x :: r'
              end
  end.

Definition has_file (st : bstate) (k : kfile) : bool :=
  match k with KF n _ _ _ => match find_file (files_of st) n with Some f => file_eqb f k | None => false end end.

Definition run_fcase (cs : c01fcase) : bool :=
  match cs with
  | KFlushBytes cid o frozen lvls num after out =>
      let c := cmp_of_id cid in
      let st := mkBS None (Some (to_mem frozen)) (map (map to_file) lvls) in
      match b_flush c kp mp tblp tbl_crc id_compress no_decompress (fname_of o) (bloom_ufc bp (bpk_of o)) true (wopts_of o) num st with
      | Some st' =>
          layout_eqb (trim_layout (layout_of st')) (trim_layout after) && has_file st' out &&
          match bs_frozen st' with None => true | Some _ => false end
      | None => false
      end
  | KCompactBytes cid o lvls lvl seed nums minSeq moved after outs =>
      let c := cmp_of_id cid in
      let st := mkBS None None (map (map to_file) lvls) in
      match (if moved
             then b_trivial_move c tblp tbl_crc no_decompress (fname_of o) (bloom_ufc bp (bpk_of o)) true (wopts_of o) lvl seed st
             else b_compact c kp tblp tbl_crc id_compress no_decompress (fname_of o) (bloom_ufc bp (bpk_of o)) true (wopts_of o)
                            lvl seed [o_ok] nums minSeq st) with
      | Some st' => layout_eqb (trim_layout (layout_of st')) (trim_layout after) && forallb (has_file st') outs
      | None => false
      end
  end.

Definition fmismatches (l : list c01fcase) : list N := mism_from run_fcase 0 l.
