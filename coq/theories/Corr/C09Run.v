(* Corr/C09Run.v — correspondence evaluator for C09: replays the lock-event traces recorded on the running
   implementation (verifEvent kinds 200-299, harness/cmd/c09) on the model's trace acceptor Conc/Locks.accepts
   and returns the indexes of the traces the model does not accept.
   KOpt cases (options correspondence): an Options / ReadOptions / WriteOptions value and what the REAL getters of
   leveldb/opt returned for it (opt.VerifGetters: the scalars in the order of opt.VerifScalarNames; expand limit,
   grandparent overlaps, source limit, table size, total size for levels 0..12) must equal the results of the
   model Gen/Options.v; a float-derived result the model reports as Outside its exact domain is not compared, a
   model panic never matches. *)
From GL Require Import Conc.Locks Gen.Options.
From Coq Require Import List NArith ZArith String Ascii.
Import ListNotations.

(* KTrace complete events: events are (thread, kind, site) as N; complete = every call returned and Close returned *)
Inductive c09case :=
| KTrace (complete : bool) (evs : list (N * N * N))
| KOpt (o : option Options) (ro : option ReadOptions) (wo : option WriteOptions) (res : string).

(* the real getters' results travel as text (a Coq string literal is lexed much faster than a list of numerals):
   rows separated by "|", numbers by ",", decimal with an optional leading "-"; first row = the scalars, then the
   five per-level rows *)
Fixpoint parse_rows (s : string) (neg : bool) (acc : Z) (row : list Z) (rows : list (list Z)) : list (list Z) :=
  let fin := if neg then Z.opp acc else acc in
  match s with
  | EmptyString => rev (rev (fin :: row) :: rows)
  | String c r =>
    let n := N_of_ascii c in
    if N.eqb n 44 then parse_rows r false 0%Z (fin :: row) rows
    else if N.eqb n 124 then parse_rows r false 0%Z [] (rev (fin :: row) :: rows)
    else if N.eqb n 45 then parse_rows r true acc row rows
    else parse_rows r neg (acc * 10 + Z.of_N (n - 48))%Z row rows
  end.

Fixpoint zlist_eqb (a b : list Z) : bool :=
  match a, b with
  | [], [] => true
  | x :: a', y :: b' => Z.eqb x y && zlist_eqb a' b'
  | _, _ => false
  end.

Definition gres_matches (m : gres) (go : Z) : bool :=
  match m with Val z => Z.eqb z go | Outside => true | GoPanic => false end.

Fixpoint row_ok (m : list gres) (go : list Z) : bool :=
  match m, go with
  | [], [] => true
  | x :: m', y :: go' => gres_matches x y && row_ok m' go'
  | _, _ => false
  end.

Fixpoint rows_ok (m : list (list gres)) (go : list (list Z)) : bool :=
  match m, go with
  | [], [] => true
  | x :: m', y :: go' => row_ok x y && rows_ok m' go'
  | _, _ => false
  end.

Definition opt_levels : nat := 13.

Definition conv (e : N * N * N) : nat * nat * nat :=
  let '(t, k, a) := e in (N.to_nat t, N.to_nat k, N.to_nat a).

Definition run_case (c : c09case) : bool :=
  match c with
  | KTrace complete evs => accepts complete (map conv evs)
  | KOpt o ro wo res =>
    match parse_rows res false 0%Z [] [] with
    | scal :: lv => zlist_eqb (scalar_results o ro wo) scal && rows_ok (level_results o opt_levels) lv
    | [] => false
    end
  end.

Fixpoint mism_from {A} (f : A -> bool) (i : N) (l : list A) : list N :=
  match l with
  | [] => []
  | x :: l' => if f x then mism_from f (i + 1)%N l' else i :: mism_from f (i + 1)%N l'
  end.

Definition mismatches (l : list c09case) : list N := mism_from run_case 0%N l.

(* diagnostic: index of the first rejected event of a trace *)
Definition first_reject (c : c09case) : option nat :=
  match c with KTrace _ evs => fst (krun kinit 0 (map conv evs)) | KOpt _ _ _ _ => None end.

(* diagnostic for a KOpt case: the model's results *)
Definition opt_model_results (c : c09case) : list Z * list (list gres) :=
  match c with
  | KOpt o ro wo _ => (scalar_results o ro wo, level_results o opt_levels)
  | _ => ([], [])
  end.
