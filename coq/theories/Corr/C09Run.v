(* Corr/C09Run.v — correspondence evaluator for C09: replays the lock-event traces recorded on the running
   implementation (verifEvent kinds 200-299, harness/cmd/c09) on the model's trace acceptor Conc/Locks.accepts
   and returns the indexes of the traces the model does not accept. *)
From GL Require Import Conc.Locks.
From Coq Require Import List NArith.
Import ListNotations.

(* KTrace complete events: events are (thread, kind, site) as N; complete = every call returned and Close returned *)
Inductive c09case := KTrace (complete : bool) (evs : list (N * N * N)).

Definition conv (e : N * N * N) : nat * nat * nat :=
  let '(t, k, a) := e in (N.to_nat t, N.to_nat k, N.to_nat a).

Definition run_case (c : c09case) : bool :=
  match c with KTrace complete evs => accepts complete (map conv evs) end.

Fixpoint mism_from {A} (f : A -> bool) (i : N) (l : list A) : list N :=
  match l with
  | [] => []
  | x :: l' => if f x then mism_from f (i + 1)%N l' else i :: mism_from f (i + 1)%N l'
  end.

Definition mismatches (l : list c09case) : list N := mism_from run_case 0%N l.

(* diagnostic: index of the first rejected event of a trace *)
Definition first_reject (c : c09case) : option nat :=
  match c with KTrace _ evs => fst (krun kinit 0 (map conv evs)) end.
