(* Corr/C20Run.v — correspondence evaluator for C20.
   KObs: an address observation of the harness on the implementation (is the slice the client got / passed
         inside a buffer the block cache holds, inside a write buffer's arena, ...?) against the copy/slice
         table of the ownership model (fixed_modes) for that path, configuration and data location.
   KProg: a small program with client scribbles run on the implementation; its outputs against the outputs
         of the model machine (Alias/AliasModel.v, fixed code) on the same program.
   Depends on model files only. *)
From GL Require Import Base.Bytes Alias.Heap Alias.AliasModel Alias.XModel Alias.ApiModes.
From Coq Require Import String.
Local Open Scope N_scope.

(* ---- operations and outputs as the harness writes them ---- *)

Inductive kop :=
| KPut (k v : string) | KDelete (k : string)
| KBatchPut (k v : string) | KBatchDelete (k : string) | KBatchWrite
| KGet (k : string) | KHas (k : string)
| KTxnOpen | KTxnPut (k v : string) | KTxnDelete (k : string) | KTxnGet (k : string) | KTxnCommit | KTxnDiscard
| KIterNew | KIterNext (i : N) | KIterSeek (i : N) (k : string) | KIterRead (i : N) | KIterRelease (i : N)
| KRotate | KFlush | KCompact | KEvict (n : N) | KTxnFlush
| KScribble (i pos : N) (g : string).

Inductive kout :=
| KVal (v : option string)
| KBool (b : bool)
| KPair (kv : option (string * string))
| KBlocked.

Definition conv (o : kop) : op :=
  match o with
  | KPut k v => OPut (unhex k) (unhex v)
  | KDelete k => ODelete (unhex k)
  | KBatchPut k v => OBatchPut (unhex k) (unhex v)
  | KBatchDelete k => OBatchDelete (unhex k)
  | KBatchWrite => OBatchWrite
  | KGet k => OGet (unhex k)
  | KHas k => OHas (unhex k)
  | KTxnOpen => OTxnOpen
  | KTxnPut k v => OTxnPut (unhex k) (unhex v)
  | KTxnDelete k => OTxnDelete (unhex k)
  | KTxnGet k => OTxnGet (unhex k)
  | KTxnCommit => OTxnCommit
  | KTxnDiscard => OTxnDiscard
  | KIterNew => OIterNew
  | KIterNext i => OIterNext (N.to_nat i)
  | KIterSeek i k => OIterSeek (N.to_nat i) (unhex k)
  | KIterRead i => OIterRead (N.to_nat i)
  | KIterRelease i => OIterRelease (N.to_nat i)
  | KRotate => ERotate
  | KFlush => EFlush
  | KCompact => ECompact
  | KEvict n => EEvict (N.to_nat n)
  | KTxnFlush => ETxnFlush
  | KScribble i pos g => CScribble (N.to_nat i) (N.to_nat pos) (unhex g)
  end.

Definition out_eqb (a : out) (b : kout) : bool :=
  match a, b with
  | OVal None, KVal None => true
  | OVal (Some x), KVal (Some y) => beq x (unhex y)
  | OBool x, KBool y => Bool.eqb x y
  | OPair None, KPair None => true
  | OPair (Some (k, v)), KPair (Some (k', v')) => beq k (unhex k') && beq v (unhex v')
  | OBlocked, KBlocked => true
  | _, _ => false
  end.

Fixpoint outs_eqb (a : list out) (b : list kout) : bool :=
  match a, b with
  | [], [] => true
  | x :: a', y :: b' => out_eqb x y && outs_eqb a' b'
  | _, _ => false
  end.

(* ---- address observations ---- *)

(* harness path codes *)
Definition hp_get : N := 0.        (* value returned by DB.Get *)
Definition hp_snapget : N := 1.    (* value returned by Snapshot.Get *)
Definition hp_txnget : N := 2.     (* value returned by Transaction.Get *)
Definition hp_putarg : N := 3.     (* argument buffer of DB.Put after the call *)
Definition hp_txnputarg : N := 4.  (* argument buffer of Transaction.Put after the call *)
Definition hp_iterkey : N := 5.    (* slice exposed by Iterator.Key *)
Definition hp_itervalue : N := 6.  (* slice exposed by Iterator.Value *)

(* data locations: 0 live write buffer, 1 frozen write buffer, 2 level 0, 3 deeper level,
   4 transaction write buffer, 5 a table seen through a transaction *)
(* address classes: 0 inside no DB-side buffer, 1 inside a cached block, 2 live arena, 3 frozen arena,
   4 transaction arena *)

(* block-cache modes of the harness: 0 default LRU, 1 disabled, 2 tiny LRU, 3 no cacher *)
Definition mk_config (nopool : bool) (cachemode : N) (snap : bool) : config :=
  {| pool_on := negb nopool; cache_on := negb (cachemode =? 1); snappy := snap; blk := 0%nat |}.

(* which path of the model a result travelled, by harness path and data location *)
Definition result_path (hpath loc : N) : path :=
  if hpath =? hp_txnget then (if loc =? 4 then PGetAuxMem else PGetTable)
  else (if loc <=? 1 then PGetMem else PGetTable).

(* the class a slice (no copy) of that source would show *)
Definition slice_class (p : path) (c : config) (loc : N) : N :=
  match p with
  | PGetTable => if cache_on c then 1 else 0
  | PGetMem => if loc =? 0 then 2 else 3
  | PGetAuxMem => 4
  | _ => 0
  end.

Definition p_is_table (p : path) : bool := match p with PGetTable => true | _ => false end.

Definition obs_ok (md : modes) (nopool : bool) (cachemode : N) (snap : bool) (hpath loc cls : N) (capshape : bool) : bool :=
  let c := mk_config nopool cachemode snap in
  if (hpath =? hp_get) || (hpath =? hp_snapget) || (hpath =? hp_txnget) then
    let p := result_path hpath loc in
    match md p c with
    | Copy => (cls =? 0) && capshape          (* a private, exactly sized copy *)
    | Slice =>
        (* a tiny or cacher-less cache may have dropped the block already *)
        if (p_is_table p) && (2 <=? cachemode) then (cls =? 0) || (cls =? 1) else cls =? slice_class p c loc
    end
  else if hpath =? hp_putarg then
    (* the argument is still referenced only if neither appendRec nor memdb.Put copied *)
    match md PPutRec c, md PMemPut c with
    | Slice, Slice => negb (cls =? 0)
    | _, _ => cls =? 0
    end
  else if hpath =? hp_txnputarg then
    match md PMemPut c with Slice => negb (cls =? 0) | Copy => cls =? 0 end
  else if hpath =? hp_iterkey then
    match md PIterKey c with Slice => true | Copy => cls =? 0 end
  else if hpath =? hp_itervalue then
    match md PIterValue c with Slice => true | Copy => cls =? 0 end
  else false.

(* ---- second pass: iterator exposures in both directions, blocks held by an iterator's children ---- *)

Definition acc_of (a : N) : acckind := if a =? 0 then KDB else if a =? 1 then KSnap else KTxn.
(* 0 after a forward movement (First, Seek, Next), 1 after a backward one (Last, Prev, Seek-then-Prev),
   2 the slices the caller kept across Release *)
Definition dir_of (d : N) : idir := if d =? 1 then DBwd else DFwd.

(* what the harness saw of a slice exposed by Key() / Value(): its address class (0 inside no DB-side buffer, 1 a
   cached block, 2..4 an arena, 5 a buffer that is in the buffer pool right now) and whether it starts at the
   iterator's own buffer (dbIter.key / dbIter.value) — against what the per-method table delivers *)
Definition iterx_ok (xmd : xmodes) (nopool : bool) (cachemode : N) (snap : bool) (a d : N) (isvalue : bool) (cls : N) (own : bool) : bool :=
  let c := mk_config nopool cachemode snap in
  let m := if isvalue then ApiIterValue (acc_of a) (dir_of d) else ApiIterKey (acc_of a) (dir_of d) in
  match delivered fixed_modes xmd m c InTable with
  | DIterBuffer => (cls =? 0) && own && honours DIterBuffer (promised m)
  | _ => false
  end.

(* the census of the blocks an iterator's children hold, against the shape of [single_owner]: a handle is on a block
   the cache still has, a private buffer is neither cached nor pooled nor held twice, and without a block cache there
   are no handles *)
Definition held_ok (nopool : bool) (cachemode : N) (ncached nowned : N) (cached_in_cache owned_in_cache owned_in_pool owned_dup : bool) : bool :=
  let c := mk_config nopool cachemode false in
  (cache_on c || (ncached =? 0)) && cached_in_cache && negb owned_in_cache && negb owned_in_pool && negb owned_dup
  && (negb nopool || negb owned_in_pool).

(* ---- cases ---- *)

Inductive c20case :=
| KObs (nopool : bool) (cachemode : N) (snap : bool) (hpath loc cls : N) (capshape : bool)
| KProg (nopool : bool) (cachemode : N) (snap : bool) (blk1 : N) (ops : list kop) (outs : list kout)
| KIterX (nopool : bool) (cachemode : N) (snap : bool) (acc dir : N) (isvalue : bool) (cls : N) (own : bool)
| KHeld (nopool : bool) (cachemode : N) (ncached nowned : N) (cached_in_cache owned_in_cache owned_in_pool owned_dup : bool).

Definition run_case (x : c20case) : bool :=
  match x with
  | KObs nopool cm snap hpath loc cls capshape => obs_ok fixed_modes nopool cm snap hpath loc cls capshape
  | KProg nopool cm snap b ops outs =>
      let c := {| pool_on := negb nopool; cache_on := negb (cm =? 1); snappy := snap; blk := N.to_nat b |} in
      outs_eqb (outputs fixed_modes c (map conv ops)) outs
  | KIterX nopool cm snap a d isv cls own => iterx_ok xfixed nopool cm snap a d isv cls own
  | KHeld nopool cm nc no cic oic oip od => held_ok nopool cm nc no cic oic oip od
  end.

Fixpoint mism_from {A} (f : A -> bool) (i : N) (l : list A) : list N :=
  match l with
  | [] => []
  | x :: l' => if f x then mism_from f (i + 1) l' else i :: mism_from f (i + 1) l'
  end.

Definition mismatches (l : list c20case) : list N := mism_from run_case 0 l.
