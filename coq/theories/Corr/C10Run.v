(* Corr/C10Run.v — correspondence evaluator for C10: decides whether an event trace recorded
   from the real DB (hooks of leveldb/verif_events.go, plus the harness's own call/return
   events) is the visible part of a run of the transition system Conc/WriteMerge.v, and whether
   the journal files hold exactly the groups of that run.

   Every recorded event is elaborated into the action(s) it stands for, plus the unobserved
   moves of the environment it forces (Close's signal, the handler's exit, a transaction's
   flush ..); all of them are executed with [step], so an accepted trace is by construction a
   run of the system ([feed_sound] in Conc/WriteMergeProofs.v).

   Ordering relied upon: events are recorded under one global lock by the acting goroutine;
   "pre" events precede their operation, "post" events follow it (leveldb/verif_events.go).
   Acknowledgement sends are anonymous in the code (any waiting member of the group receives),
   so the acknowledgement action of a member is placed at that member's return — or, for
   members that have not returned yet, at the leader's release/hand-over, which really happens
   after all its sends. *)
From Coq Require Import List NArith Bool Arith.
From GL Require Import Conc.WriteMerge Gen.InstC10.
Import ListNotations.

Inductive event :=
| ECall (i : nat) (m put : bool) (sz : N)
| ERet (i : nat) (r : res)
| ESelLock (i : nat) | ESelHanded (i : nat) | ESelMerged (i : nat) | ESelPerr (i : nat) | ESelClosed (i : nat)
| EFlushOk (l : nat) (free : N) | EFlushFail (l : nat) (r : res)
| EMergeRecv (l i : nat) | EMergeTrue (l i : nat) | EMergeOverflow (l i : nat)
| EJournalOk (l : nat) (seq : N) | EJournalFail (l : nat) (r : res)
| EApplied (l : nat) | EPublish (l : nat) (seq : N)
| ERotateOk (l : nat) | ERotateFail (l : nat) (r : res)
| EUnlock (merged : nat) (overflow : bool) (r : res)
| EAckSend (k : nat) (r : res) | EAckSent (k : nat)
| EHandover | EHandoverDone | ERelease
| ECRLock | ECRUnlock | EROLock | EROSent | ETxnLock | ETxnUnlock
| ECloseCall | ECloseRet.

(* acceptor state: the system state plus three counters about anonymous events *)
Record astate := {
  st : state;
  acks_seen : nat;          (* EAckSend events of the current unlockWrite *)
  ro_inferred : nat;        (* SetReadOnly deliveries already executed, their EROSent still to come *)
  jseqs : list (option N * nat)  (* (seq, leader) of the EJournalOk / (None, leader) of the EJournalFail events *)
}.

Definition mk (s : state) (a r : nat) (j : list (option N * nat)) : astate :=
  {| st := s; acks_seen := a; ro_inferred := r; jseqs := j |}.

Definition runa (x : astate) (l : list action) : option astate :=
  match run wmp (st x) l with
  | Some s' => Some (mk s' (acks_seen x) (ro_inferred x) (jseqs x))
  | None => None
  end.

Definition is_holding (p : wpc) : bool :=
  match p with
  | WLFlush | WLMerge _ | WLReply _ _ | WLJournal _ | WLApply _ | WLPublish _ | WLRotate _ | WLUnlock _ _ _ => true
  | _ => false
  end.

Fixpoint find_from (f : writer -> bool) (i : nat) (l : list writer) : option nat :=
  match l with
  | [] => None
  | w :: l' => if f w then Some i else find_from f (S i) l'
  end.

Definition find_w (f : writer -> bool) (s : state) : option nat := find_from f 0 (ws s).

Definition is_waitack (w : writer) : bool := match pc w with WWaitAck => true | _ => false end.
Definition is_waitmerged (w : writer) : bool := match pc w with WWaitMerged => true | _ => false end.
Definition is_unlocking (w : writer) : bool :=
  match pc w with WLUnlock _ _ _ | WLRotate _ => true | _ => false end.

(* acknowledge every member still waiting (fuel = number of writers) *)
Fixpoint force_acks (fuel : nat) (l : nat) (s : state) : option state :=
  match fuel with
  | O => Some s
  | S f =>
      match getw s l with
      | Some wl =>
          match pc wl with
          | WLUnlock c k e =>
              if k <? lmerged c then
                match find_w is_waitack s with
                | Some j => match step wmp s (AAck l j) with Some s' => force_acks f l s' | None => None end
                | None => None
                end
              else Some s
          | _ => None
          end
      | None => None
      end
  end.

Definition close_prefix (s : state) : list action :=
  match cpc s with CCalled => [ACloseSignal] | _ => [] end.

(* moves of Close and of the handler that free the lock without an event of their own *)
Definition unlock_prefix (s : state) : list action :=
  if lock s then
    match cpc s, hpc s with
    | CCalled, HPerr => if cwl s then [ACloseSignal; AHExit] else []
    | CSignalled, HPerr => if cwl s then [AHExit] else []
    | _, _ => []
    end
  else [].

Definition res_ok (a b : res) : bool := res_eqb a b.

Definition feed (x : astate) (e : event) : option astate :=
  let s := st x in
  match e with
  | ECall i m put sz => runa x [ACall i m put sz]
  | ERet i r =>
      match getw s i with
      | Some w =>
          match pc w with
          | WRet e' => if res_ok e' r then runa x [AReturn i] else None
          | WWaitAck =>
              match find_w is_unlocking s with
              | Some l =>
                  match getw s l with
                  | Some wl =>
                      match pc wl with
                      | WLUnlock c k e' =>
                          if (k <? acks_seen x) && res_ok e' r then runa x [AAck l i; AReturn i] else None
                      | _ => None
                      end
                  | None => None
                  end
              | None => None
              end
          | _ => None
          end
      | None => None
      end
  | ESelLock i => runa x (unlock_prefix s ++ [ASelLock i])
  | ESelHanded i =>
      match getw s i with
      | Some w => match pc w with WLFlush => Some x | _ => None end
      | None => None
      end
  | ESelMerged i =>
      match getw s i with
      | Some w => match pc w with WWaitAck => Some x | _ => None end
      | None => None
      end
  | ESelPerr i =>
      match hpc s with
      | HNoErr =>
          match ropend s with
          | S _ => match runa x [AROSend; ASelPerr i] with
                   | Some y => Some (mk (st y) (acks_seen y) (S (ro_inferred y)) (jseqs y))
                   | None => None end
          | O => runa x [AHPerr; ASelPerr i]
          end
      | _ => runa x [ASelPerr i]
      end
  | ESelClosed i => runa x (close_prefix s ++ [ASelClosed i])
  | EFlushOk l free => runa x [AFlushOk l free]
  | EFlushFail l r => runa x [AFlushFail l r]
  | EMergeRecv l i => runa x [ASelMerge i l]
  | EMergeTrue l i =>
      match getw s l with
      | Some wl => match pc wl with
                   | WLReply _ j => if Nat.eqb i j then runa x [AReplyTrue l i] else None
                   | _ => None end
      | None => None
      end
  | EMergeOverflow l i =>
      match getw s l with
      | Some wl => match pc wl with
                   | WLJournal c => if eqb_onat (lover c) i then Some x else None
                   | _ => None end
      | None => None
      end
  | EJournalOk l q =>
      let pre := match getw s l with
                 | Some wl => match pc wl with WLMerge _ => [AMergeDone l] | _ => [] end
                 | None => [] end in
      match runa x (pre ++ [AJournalOk l]) with
      | Some y => Some (mk (st y) (acks_seen y) (ro_inferred y) (jseqs y ++ [(Some q, l)]))
      | None => None
      end
  | EJournalFail l r =>
      let pre := match getw s l with
                 | Some wl => match pc wl with WLMerge _ => [AMergeDone l] | _ => [] end
                 | None => [] end in
      match runa x (pre ++ [AJournalFail l r]) with
      | Some y => Some (mk (st y) (acks_seen y) (ro_inferred y) (jseqs y ++ [(None, l)]))
      | None => None
      end
  | EApplied l => runa x [AApply l]
  | EPublish l _ => runa x [APublish l]
  | ERotateOk l => runa x [ARotateOk l]
  | ERotateFail l r => runa x [ARotateFail l r]
  | EUnlock m o r =>
      match find_w is_unlocking s with
      | Some l =>
          let pre := match getw s l with
                     | Some wl => match pc wl with WLRotate _ => [ARotateSkip l] | _ => [] end
                     | None => [] end in
          match runa x pre with
          | Some y =>
              match getw (st y) l with
              | Some wl =>
                  match pc wl with
                  | WLUnlock c O e' =>
                      if Nat.eqb (lmerged c) m && Bool.eqb (match lover c with Some _ => true | None => false end) o
                         && res_ok e' r
                      then Some (mk (st y) 0 (ro_inferred y) (jseqs y)) else None
                  | _ => None
                  end
              | None => None
              end
          | None => None
          end
      | None => None
      end
  | EAckSend k r =>
      match find_w is_unlocking s with
      | Some l =>
          match getw s l with
          | Some wl =>
              match pc wl with
              | WLUnlock c _ e' =>
                  if Nat.eqb k (acks_seen x) && (k <? lmerged c) && res_ok e' r
                  then Some (mk s (S (acks_seen x)) (ro_inferred x) (jseqs x)) else None
              | _ => None
              end
          | None => None
          end
      | None => None
      end
  | EAckSent k => if Nat.eqb (S k) (acks_seen x) then Some x else None
  | EHandover =>
      match find_w is_unlocking s with
      | Some l =>
          match getw s l with
          | Some wl =>
              match pc wl with
              | WLUnlock c _ _ =>
                  if Nat.eqb (acks_seen x) (lmerged c) then
                    match force_acks (length (ws s)) l s with
                    | Some s1 =>
                        match find_w is_waitmerged s1 with
                        | Some o => runa (mk s1 (acks_seen x) (ro_inferred x) (jseqs x)) [AHandover l o]
                        | None => None
                        end
                    | None => None
                    end
                  else None
              | _ => None
              end
          | None => None
          end
      | None => None
      end
  | EHandoverDone => Some x
  | ERelease =>
      match find_w is_unlocking s with
      | Some l =>
          match getw s l with
          | Some wl =>
              match pc wl with
              | WLUnlock c _ _ =>
                  if Nat.eqb (acks_seen x) (lmerged c) then
                    match force_acks (length (ws s)) l s with
                    | Some s1 => runa (mk s1 (acks_seen x) (ro_inferred x) (jseqs x)) [ARelease l]
                    | None => None
                    end
                  else None
              | _ => None
              end
          | None => None
          end
      | None => None
      end
  | ECRLock => runa x (unlock_prefix s ++ [ACRAcquire])
  | ECRUnlock => runa x [ACRRelease]
  | EROLock => runa x (unlock_prefix s ++ [AROAcquire])
  | EROSent =>
      match ro_inferred x with
      | S n => Some (mk s (acks_seen x) n (jseqs x))
      | O => runa x [AROSend]
      end
  | ETxnLock => runa x (unlock_prefix s ++ [ATxnAcquire])
  | ETxnUnlock =>
      runa x ((match tflush s, topen s with S _, O => [ATxnFlushOk] | _, _ => [] end) ++ [ATxnDone])
  | ECloseCall => runa x [ACloseCall]
  | ECloseRet =>
      let s1 := close_prefix s in
      let h := match hpc s with HExit => [] | _ => [AHExit] end in
      runa x (s1 ++ h ++ [ACloseLock])
  end.

Fixpoint feed_all (x : astate) (l : list event) : option astate :=
  match l with
  | [] => Some x
  | e :: l' => match feed x e with Some y => feed_all y l' | None => None end
  end.

(* index of the first event that is not accepted (for diagnostics) *)
Fixpoint first_reject (x : astate) (i : N) (l : list event) : option N :=
  match l with
  | [] => None
  | e :: l' => match feed x e with Some y => first_reject y (i + 1)%N l' | None => Some i end
  end.

(* the run is over: nobody owns the lock as a writer and every call has returned *)
Definition quiescent (s : state) : bool :=
  forallb (fun w => match pc w with WIdle | WDone _ => true | _ => false end) (ws s).

(* ---- journal composition ---- *)
Fixpoint insert_nat (x : nat) (l : list nat) : list nat :=
  match l with
  | [] => [x]
  | y :: l' => if x <=? y then x :: l else y :: insert_nat x l'
  end.
Definition sort_nat (l : list nat) : list nat := fold_right insert_nat [] l.

Fixpoint list_eqb (a b : list nat) : bool :=
  match a, b with
  | [], [] => true
  | x :: a', y :: b' => Nat.eqb x y && list_eqb a' b'
  | _, _ => false
  end.

(* the model's journal log paired with the seqs seen in the trace: (seq if the write succeeded,
   sorted writer ids) *)
Fixpoint zip_j (j : list jrecd) (q : list (option N * nat)) : option (list (option N * list nat)) :=
  match j, q with
  | [], [] => Some []
  | r :: j', (sq, l') :: q' =>
      if Nat.eqb (j_leader r) l' && Bool.eqb (j_ok r) (match sq with Some _ => true | None => false end) then
        match zip_j j' q' with Some t => Some ((sq, sort_nat (j_batches r)) :: t) | None => None end
      else None
  | _, _ => None
  end.

(* every record found in the journal files has the composition of a group of the run — with the
   same seq if that group's journal write succeeded (a write that reported an error may still
   have left its complete record: Sync failed) — and, when no write failed ([complete]), every
   journalled group is in the files *)
Definition journal_ok (groups : list (option N * list nat)) (files : list (N * list nat)) (complete : bool) : bool :=
  forallb (fun r => existsb (fun g => list_eqb (snd g) (sort_nat (snd r)) &&
                                      match fst g with Some q => (q =? fst r)%N | None => true end) groups) files
  && (negb complete ||
      forallb (fun g => match fst g with
                        | Some q => existsb (fun r => (q =? fst r)%N && list_eqb (snd g) (sort_nat (snd r))) files
                        | None => true end) groups).

Inductive c10case :=
| CTrace (n : nat) (evs : list event) (files : list (N * list nat)) (complete : bool).

Definition run_case (c : c10case) : bool :=
  match c with
  | CTrace n evs files complete =>
      match feed_all (mk (init n) 0 0 []) evs with
      | Some x =>
          quiescent (st x) &&
          match zip_j (jlog (st x)) (jseqs x) with
          | Some groups => journal_ok groups files complete
          | None => false
          end
      | None => false
      end
  end.

(* diagnostics: Some k = the k-th event (0-based) is the first one refused *)
Definition where_rejected (c : c10case) : option N :=
  match c with CTrace n evs _ _ => first_reject (mk (init n) 0 0 []) 0%N evs end.

Fixpoint mism_from {A} (f : A -> bool) (i : N) (l : list A) : list N :=
  match l with
  | [] => []
  | x :: l' => if f x then mism_from f (i + 1)%N l' else i :: mism_from f (i + 1)%N l'
  end.

Definition mismatches (l : list c10case) : list N := mism_from run_case 0%N l.
