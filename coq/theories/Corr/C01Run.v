(* Corr/C01Run.v — C01 uses the shared L1 correspondence evaluator (KGet cases: lsmcase / mismatches) and the
   byte-level read-path evaluator (KBytes cases: c01bcase / bmismatches). *)
From GL Require Export Corr.LsmRun Corr.C01BytesRun.
