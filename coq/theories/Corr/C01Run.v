(* Corr/C01Run.v — C01 uses the shared L1 correspondence evaluator (KGet cases: lsmcase / mismatches), the
   byte-level read-path evaluator (KBytes cases: c01bcase / bmismatches), the batch / write-path evaluator
   (KBEnc, KBLoad, KBGroup, KBJournal, KBMem cases: c01xcase / xmismatches) and the byte-level flush / compaction
   evaluator (KFlushBytes, KCompactBytes cases: c01fcase / fmismatches). *)
From GL Require Export Corr.LsmRun Corr.C01BytesRun Corr.C01BatchRun Corr.C01FlushRun.
