(* Corr/C01Run.v — C01 uses the shared L1 correspondence evaluator. *)
From GL Require Export Corr.LsmRun.
