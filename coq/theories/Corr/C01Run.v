(* Corr/C01Run.v — C01 uses the shared L1 correspondence evaluator (KGet cases: lsmcase / mismatches), the
   byte-level read-path evaluator (KBytes cases: c01bcase / bmismatches) and the batch / write-path evaluator
   (KBEnc, KBLoad, KBGroup, KBJournal, KBMem cases: c01xcase / xmismatches). *)
From GL Require Export Corr.LsmRun Corr.C01BytesRun Corr.C01BatchRun.
