(* Corr/C02Run.v — correspondence evaluator for C02: runs the model machines (Iter/Merged.v,
   Iter/Indexed.v, Iter/DBIter.v) over reference-cursor children on the inputs on which the harness
   ran the real iterators, and returns the indexes of the cases whose outputs disagree.  Every case
   also re-checks (by computation) the hypotheses the refinement theorems carry: children strictly
   sorted and pairwise key-disjoint, index keys separating the blocks, internal entries strictly
   icmp-sorted with kinds Del/Val.  Depends on model files only. *)
From GL Require Import Base.Bytes Codec.IKey Codec.Block Codec.Table Codec.TableCheck Codec.TblCrc Codec.Snappy Codec.Bloom
  Lsm.Lsm Lsm.ReadPath Lsm.IterPath Gen.InstTbl Gen.InstMem Gen.BloomInst.
From GL Require Export Corr.C01BytesRun.      (* kmem / kfile: the dump format of the byte-level cases *)
From GL Require Mem.MemDB.
From GL Require Import Iter.Cursor Iter.Merged Iter.Indexed Iter.DBIter Iter.IterErr Corr.Cmps Gen.Consts Gen.Inst.
From Coq Require Import String ZArith.

Inductive mv := mF | mL | mS (k : string) | mN | mP.
(* observations: oN = (false, nil, nil); oS k v = (true, k, v); oX = anything else *)
Inductive ob := oN | oS (k v : string) | oX (b : bool) (kv : option (string * string)).

(* calls and observations of the error / release walks: error classes 0 none, 1 corruption, 2 other,
   3 ErrIterReleased *)
Inductive ecl := eM (m : mv) | eR | eZ (nonnil : bool).
Inductive eob := EO (ret : bool) (kv : option (string * string)) (valid : bool) (err : N).
(* a fuse: (calls until the failing one | never, kind 1 corruption / 2 other, failed from birth) *)
Definition fuse := (option nat * N * bool)%type.

Inductive c02case :=
| CMerged (cid : N) (children : list (list (string * string))) (ms : list mv) (obs : list ob)
| CIndexed (cid : N) (blocks : list (string * list (string * string))) (ms : list mv) (obs : list ob)
| CNested (cid : N) (nested : list (list (string * list (string * string))))
          (children : list (list (string * string))) (ms : list mv) (obs : list ob)
| CDBIter (cid : N) (entries : list (string * N * string)) (seq : N) (start limit : option string)
          (ms : list mv) (obs : list ob)
(* the byte-level DB iterator (Lsm/IterPath.v dbi_run) on a dumped state - the real arrays of the transaction's,
   the live and the frozen memdb, the real bytes of every table file (transaction tables, then the pinned
   version's levels; the KBytes dump format of property C01) - against the walks observed on iterators
   created on that state: (sequence number, range, calls, observations) *)
| CDBBytes (cid ri : N) (verify : bool) (fname : option string) (bpk : Z) (strict : bool)
           (auxm : option kmem) (auxt : list kfile)
           (mem frozen : option kmem) (lvls : list (list kfile))
           (walks : list (N * option (option string * option string) * list mv * list ob))
(* errors and release (Iter/IterErr.v): the real mergedIterator / indexedIterator / dbIter over children
   behind fuses; calls incl. Release and SetReleaser; panicked = the last call panicked in Go *)
| CMergedErr (cid : N) (strict : bool) (children : list (list (string * string) * fuse))
             (calls : list ecl) (obs : list eob) (panicked : bool)
| CIndexedErr (cid : N) (strict : bool) (ifuse : fuse) (blocks : list (string * list (string * string) * fuse))
              (calls : list ecl) (obs : list eob) (panicked : bool)
| CDBIterErr (cid : N) (strict : bool) (seq : N) (rfuse : fuse) (entries : list (string * N * string))
             (calls : list ecl) (obs : list eob) (panicked : bool).

Definition dec_mv (m : mv) : move bytes :=
  match m with mF => MFirst | mL => MLast | mS k => MSeek (unhex k) | mN => MNext | mP => MPrev end.

Definition dec_kv (x : string * string) : bytes * bytes := (unhex (fst x), unhex (snd x)).

Definition ob_eq (o : output bytes bytes) (x : ob) : bool :=
  match o, x with
  | (false, None), oN => true
  | (true, Some (k, v)), oS k' v' => beq k (unhex k') && beq v (unhex v')
  | (b, None), oX b' None => Bool.eqb b b'
  | (b, Some (k, v)), oX b' (Some (k', v')) => Bool.eqb b b' && beq k (unhex k') && beq v (unhex v')
  | _, _ => false
  end.

Fixpoint obs_eq (os : list (output bytes bytes)) (xs : list ob) : bool :=
  match os, xs with
  | [], [] => true
  | o :: os', x :: xs' => ob_eq o x && obs_eq os' xs'
  | _, _ => false
  end.

(* strictly increasing keys *)
Fixpoint sortedb {K V} (f : K -> K -> comparison) (l : list (K * V)) : bool :=
  match l with
  | [] => true
  | x :: r => match r with
              | [] => true
              | y :: _ => match f (fst x) (fst y) with Lt => sortedb f r | _ => false end
              end
  end.

Definition keys_disjointb (f : bytes -> bytes -> comparison) (ls : list (list (bytes * bytes))) : bool :=
  (* the concatenation has no two equal keys: checked on the merged list being strictly sorted *)
  sortedb f (merge_lists f ls).

(* index key i >= every key of block i and < every key of the later blocks *)
Fixpoint index_okb (f : bytes -> bytes -> comparison) (il : list (bytes * list (bytes * bytes))) : bool :=
  match il with
  | [] => true
  | (ik, d) :: r =>
      forallb (fun x => match f (fst x) ik with Gt => false | _ => true end) d &&
      forallb (fun e => forallb (fun x => match f ik (fst x) with Lt => true | _ => false end) (snd e)) r &&
      index_okb f r
  end.

Definition dec_ecl (c : ecl) : ecall bytes :=
  match c with eM m => CMove (dec_mv m) | eR => CRelease | eZ b => CSetReleaser b end.

Definition kind_of (k : N) : ierr := if k =? 1 then ECorrupt else EOther.
Definition class_of (e : option ierr) : N :=
  match e with None => 0 | Some ECorrupt => 1 | Some EOther => 2 | Some EReleased => 3 end.

Definition mk_fc {C} (c : C) (f : fuse) : fchild C :=
  match f with (fu, k, born) => mkFC c fu (kind_of k) born end.

Definition eob_eq (o : eout bytes bytes) (x : eob) : bool :=
  match x with
  | EO ret kv valid err =>
      Bool.eqb (eo_ret o) ret && Bool.eqb (eo_valid o) valid && (class_of (eo_err o) =? err) &&
      match eo_kv o, kv with
      | None, None => true
      | Some (k, v), Some (k', v') => beq k (unhex k') && beq v (unhex v')
      | _, _ => false
      end
  end.

Fixpoint eobs_eq (os : list (eout bytes bytes)) (xs : list eob) : bool :=
  match os, xs with
  | [], [] => true
  | o :: os', x :: xs' => eob_eq o x && eobs_eq os' xs'
  | _, _ => false
  end.

(* a walk that ended in a panic: the model panics at that call too and agrees on the calls before it *)
Definition judge (run : list (ecall bytes) -> option (list (eout bytes bytes))) (calls : list ecl) (obs : list eob)
           (panicked : bool) : bool :=
  let cs := map dec_ecl calls in
  if panicked then
    match run cs with Some _ => false | None => true end &&
    match run (removelast cs) with Some outs => eobs_eq outs obs | None => false end
  else match run cs with Some outs => eobs_eq outs obs | None => false end.

(* adjacent identical entries (same internal key, same value) collapsed *)
Fixpoint dedup_adj (l : list entry) : list entry :=
  match l with
  | [] => []
  | x :: r =>
      match r with
      | y :: _ => if (beq (uk (fst x)) (uk (fst y)) && (num (fst x) =? num (fst y)) && beq (snd x) (snd y))%bool
                  then dedup_adj r else x :: dedup_adj r
      | [] => [x]
      end
  end.

Definition run_case (x : c02case) : bool :=
  match x with
  | CMerged cid ch ms obs =>
      let f := cmp (cmp_of_id cid) in
      let ls := map (map dec_kv) ch in
      forallb (sortedb f) ls && keys_disjointb f ls &&
      match m_run bytes bytes _ (cur_step f) cur_obs (pop_scan bytes f)
                  (m_init (map (fun l => (l, SOI)) ls)) (map dec_mv ms) with
      | Some outs => obs_eq outs obs
      | None => false
      end
  | CIndexed cid bl ms obs =>
      let f := cmp (cmp_of_id cid) in
      let il := map (fun b => (unhex (fst b), map dec_kv (snd b))) bl in
      sortedb f il && forallb (fun b => sortedb f (snd b)) il && index_okb f il &&
      match x_run bytes bytes (list (bytes * bytes)) _ _
                  (cur_step f) cur_obs (fun d => (d, SOI)) (cur_step f) cur_obs
                  (S (S (List.length il))) (x_init (il, SOI)) (map dec_mv ms) with
      | Some outs => obs_eq outs obs
      | None => false
      end
  | CNested cid nested ch ms obs =>
      (* merged over [indexed iterators ...] ++ [array iterators ...], as a DB's levels are *)
      let f := cmp (cmp_of_id cid) in
      let ils := map (map (fun b => (unhex (fst b), map dec_kv (snd b)))) nested in
      let ls := map (map dec_kv) ch in
      let fuel := S (S (fold_right Nat.max O (map (@List.length _) ils))) in
      let istep := indexed_step bytes bytes (list (bytes * bytes)) _ _
                     (cur_step f) cur_obs (fun d => (d, SOI)) (cur_step f) cur_obs fuel in
      let nstep (c : xstate (list (bytes * list (bytes * bytes)) * pos) (list (bytes * bytes) * pos)
                     + (list (bytes * bytes) * pos)) (m : move bytes) :=
        match c with inl x => inl (istep x m) | inr y => inr (cur_step f y m) end in
      let nobs (c : xstate (list (bytes * list (bytes * bytes)) * pos) (list (bytes * bytes) * pos)
                    + (list (bytes * bytes) * pos)) :=
        match c with inl x => x_kv bytes bytes _ _ cur_obs x | inr y => cur_obs y end in
      forallb (fun il => sortedb f il && forallb (fun b => sortedb f (snd b)) il && index_okb f il) ils &&
      forallb (sortedb f) ls &&
      keys_disjointb f (map (fun il => List.concat (map snd il)) ils ++ ls) &&
      match m_run bytes bytes _ nstep nobs (pop_scan bytes f)
                  (m_init (map (fun il => inl (x_init (il, SOI))) ils ++ map (fun l => inr (l, SOI)) ls))
                  (map dec_mv ms) with
      | Some outs => obs_eq outs obs
      | None => false
      end
  | CDBIter cid es s start limit ms obs =>
      let c := cmp_of_id cid in
      let l : list entry := map (fun e => ({| uk := unhex (fst (fst e)); num := snd (fst e) |}, unhex (snd e))) es in
      (* the exported raw list is strictly sorted (the hypothesis of C02_dbiter_refines) - except in the
         window between the commit of a memdb flush and dropFrozenMem, when the frozen memdb and its
         just-written level-0 table are both children of the merged iterator and every entry of the memdb is
         shown TWICE: then the list is sorted with adjacent identical copies; the list without the copies must
         be strictly sorted, and the model must reproduce the observations both on the list as exported and
         on the list without the copies (the copies are invisible through dbIter) *)
      let ld := dedup_adj l in
      sortedb (icmp c) ld &&
      forallb (fun e => (ik_kind (fst e) =? keyTypeDel kp) || (ik_kind (fst e) =? keyTypeVal kp)) l &&
      (s <=? keyMaxSeq kp) &&
      match opt_probe kp (option_map unhex start), opt_probe kp (option_map unhex limit) with
      | Some a, Some b =>
          let go (l0 : list entry) :=
            let sl := slice_entries c a b l0 in
            match db_run c kp _ (cur_step (icmp c)) cur_obs s false (S (S (List.length sl)))
                         (db_init (sl, SOI)) (map dec_mv ms) with
            | Some outs => obs_eq outs obs
            | None => false
            end in
          go ld && (if Nat.eqb (List.length ld) (List.length l) then true else go l)
      | _, _ => false
      end
  | CDBBytes cid ri verify fname bpk strict auxm auxt mem frozen lvls walks =>
      let c := cmp_of_id cid in
      let fn := option_map unhex fname in
      let ufc := bloom_ufc bp bpk in
      let st := mkBS (option_map to_mem mem) (option_map to_mem frozen) (map (map to_file) lvls) in
      let am := option_map to_mem auxm in
      let aT := map to_file auxt in
      let okf := tfile_okb c kp tblp tbl_crc snappy_decode fn ufc verify ri in
      let okm := fun d : option MemDB.db => match d with Some m => mem_keys_okb kp mp m | None => true end in
      (* the boolean hypotheses of C02_db_iterator_correct_bytes(_gen) *)
      forallb (forallb okf) (bs_levels st) && forallb okf aT && okm (bs_mem st) && okm (bs_frozen st) && okm am &&
      match bs_mem st with Some _ => true | None => false end &&
      match auxm, auxt with
      | None, [] => wf_fullb c kp (abs c mp tblp tbl_crc snappy_decode fn ufc verify ri st)
      | _, _ => true
      end &&
      forallb (fun w => match w with (s, sl, ms, obs) =>
                 let slice := option_map (fun ab => (option_map unhex (fst ab), option_map unhex (snd ab))) sl in
                 match dbi_run c kp mp tblp tbl_crc snappy_decode fn ufc verify strict (N.to_nat 4000) am aT st s slice
                               (map dec_mv ms) with
                 | Some outs => obs_eq outs obs
                 | None => false
                 end end) walks
  | CMergedErr cid strict ch calls obs panicked =>
      let f := cmp (cmp_of_id cid) in
      let fits := map (fun cf => mk_fc (map dec_kv (fst cf), SOI) (snd cf)) ch in
      judge (me_run bytes bytes _ (f_step (cur_step f)) (f_obs cur_obs) f_err (pop_scan bytes f) strict (me_init fits))
            calls obs panicked
  | CIndexedErr cid strict ifuse bl calls obs panicked =>
      let f := cmp (cmp_of_id cid) in
      (* D = a block with its fuse *)
      let il := map (fun b => (unhex (fst (fst b)), (map dec_kv (snd (fst b)), snd b))) bl in
      judge (xe_run bytes bytes (list (bytes * bytes) * fuse) _ _
                    (f_step (cur_step f)) (f_obs cur_obs) f_err
                    (fun d => mk_fc (fst d, SOI) (snd d))
                    (f_step (cur_step f)) (f_obs cur_obs) f_err strict
                    (S (S (List.length il))) (xe_init (mk_fc (il, SOI) ifuse)))
            calls obs panicked
  | CDBIterErr cid strict s rfuse es calls obs panicked =>
      let c := cmp_of_id cid in
      let l : list entry := map (fun e => ({| uk := unhex (fst (fst e)); num := snd (fst e) |}, unhex (snd e))) es in
      judge (de_run c kp _ (f_step (cur_step (icmp c))) (f_obs cur_obs) f_err s strict (S (S (List.length l)))
                    (de_init (mk_fc (l, SOI) rfuse)))
            calls obs panicked
  end.

Fixpoint mism_from {A} (f : A -> bool) (i : N) (l : list A) : list N :=
  match l with
  | [] => []
  | x :: l' => if f x then mism_from f (i + 1) l' else i :: mism_from f (i + 1) l'
  end.

Definition mismatches (l : list c02case) : list N := mism_from run_case 0 l.
