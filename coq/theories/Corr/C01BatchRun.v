(* Corr/C01BatchRun.v — correspondence evaluator for the batch codec and the memdb-insertion half of the
   write path (property C01; model: Codec/Batch.v).  Case kinds:
     KBEnc      Batch.Put/Delete calls -> Dump() bytes, Len(), internalLen and the index array = batch_of
     KBLoad     arbitrary / truncated / bit-flipped bytes -> Batch.Load + Replay outcome (records, error
                reason, panic, non-termination) = batch_load / batch_replay
     KBGroup    writeBatchesWithHeader(batches, seq) bytes = group_record
     KBJournal  a REAL journal record read back from the DB's journal file after merged concurrent writes:
                the model decodes it to the records the writers issued with the right first seq and count
     KBMem      a program on one memdb (iComparer over a harness comparer): Batch.putMem, the tail of
                writeLocked on a group (journal record + insertions + new db.seq), decodeBatchToMem on
                intact / damaged / wrong-sequence records (outcome and what it LEAVES in the memdb), each
                followed by a comparison of the complete internal arrays with the model's memdb
   Depends on model files only. *)
From GL Require Import Base.Bytes Base.Varint Codec.IKey Codec.Batch Corr.Cmps Gen.Consts Gen.Inst Gen.InstMem Lsm.ReadPath.
From GL Require Mem.MemDB.
From Coq Require Import String ZArith.
Open Scope N_scope.

(* byte strings travel as segments: hex text or a run of one byte *)
Inductive bseg := BX (h : string) | BR (b n : N).
Definition kb := list bseg.
Definition unseg (l : kb) : bytes :=
  flat_map (fun s => match s with BX h => unhex h | BR b n => repeat b (N.to_nat n) end) l.

Inductive krec := KR (kt : N) (k v : kb).
Inductive kidx := KI (kt : N) (kpos klen vpos vlen : Z).

(* error reasons as numbers: 1 bad type (arg = the byte), 2 key length, 3 value length, 4 too short,
   5 sequence number, 6 records length (callback), 7 records length mismatch *)
Definition err_code (e : berr) : N * N :=
  match e with
  | EBadType kt => (1, kt)
  | EKeyLen => (2, 0)
  | EValLen => (3, 0)
  | ETooShort => (4, 0)
  | ESeq => (5, 0)
  | ERecLen => (6, 0)
  | ERecLenMismatch _ _ => (7, 0)
  end.

Inductive kout :=
| KOk (n : N) (ilen : Z) (idx : list kidx) (ops : option (list krec))   (* Load = nil; Replay's calls (None: it panicked) *)
| KErr (code arg : N)
| KPanic
| KHang.

Inductive ktm := KTOk (seq n : N) | KTErr (code arg : N) | KTPanic | KTHang.

Inductive kmemdump := KMD (nd : list N) (kv : kb) (mh : N) (n sz : Z).

Inductive kstep :=
| SPutMem (recs : list krec) (seq : N) (hs : list N)
| SGroup (groups : list (list krec)) (dbseq : N) (hs : list N) (record : kb) (newseq : N)
| SToMem (data : kb) (expect : N) (hs : list N) (o : ktm)
| SDump (d : kmemdump).

Inductive c01xcase :=
| KBEnc (recs : list krec) (dump : kb) (n : N) (ilen : Z) (idx : list kidx)
| KBLoad (data : kb) (o : kout)
| KBGroup (groups : list (list krec)) (seq : N) (record : kb)
| KBJournal (record : kb) (seq n : N) (recs : list krec)
| KBMem (cid : N) (steps : list kstep).

Definition to_rec (r : krec) : brec := match r with KR kt k v => (kt, unseg k, unseg v) end.
Definition bhl : N := ldb_batchHeaderLen.

Fixpoint ln_eq (a b : list N) : bool :=
  match a, b with
  | [], [] => true
  | x :: a', y :: b' => (x =? y) && ln_eq a' b'
  | _, _ => false
  end.

Definition rec_eqb (a b : brec) : bool :=
  match a, b with (k1, x1, v1), (k2, x2, v2) => (k1 =? k2) && beq x1 x2 && beq v1 v2 end.
Fixpoint recs_eqb (a b : list brec) : bool :=
  match a, b with
  | [], [] => true
  | x :: a', y :: b' => rec_eqb x y && recs_eqb a' b'
  | _, _ => false
  end.

Definition idx_eqb (a : bidx) (b : kidx) : bool :=
  match b with KI kt kp kl vp vl =>
    (bi_kt a =? kt) && (bi_kpos a =? kp)%Z && (bi_klen a =? kl)%Z && (bi_vpos a =? vp)%Z && (bi_vlen a =? vl)%Z end.
Fixpoint idxs_eqb (a : list bidx) (b : list kidx) : bool :=
  match a, b with
  | [], [] => true
  | x :: a', y :: b' => idx_eqb x y && idxs_eqb a' b'
  | _, _ => false
  end.

(* Replay's calls as records: Put -> (keyTypeVal, k, v), Delete -> (keyTypeDel, k, []) *)
Definition rop_rec (o : rop) : brec :=
  match o with RPut k v => (keyTypeVal kp, k, v) | RDelete k => (keyTypeDel kp, k, []) end.

Definition opt_recs_eqb (a : option (list rop)) (b : option (list krec)) : bool :=
  match a, b with
  | None, None => true
  | Some x, Some y => recs_eqb (map rop_rec x) (map to_rec y)
  | _, _ => false
  end.

Definition load_ok (data : bytes) (o : kout) : bool :=
  match batch_load kp data, o with
  | DOk b, KOk n ilen idx ops =>
      (batch_len b =? n) && (b_ilen b =? ilen)%Z && idxs_eqb (b_index b) idx &&
      opt_recs_eqb (batch_replay kp b) ops
  | DErr e _, KErr c a => let '(c', a') := err_code e in (c =? c') && (a =? a')
  | DPanic, KPanic => true
  | DFuel, KHang => true
  | _, _ => false
  end.

Definition batches_of (groups : list (list krec)) : list batch := map (fun g => batch_of kp (map to_rec g)) groups.

Definition dump_eqb (d : MemDB.db) (k : kmemdump) : bool :=
  match k with KMD nd kv mh n sz =>
    ln_eq (MemDB.nodeData d) nd && beq (MemDB.kvData d) (unseg kv) && (MemDB.maxHeight d =? mh) &&
    Z.eqb (MemDB.nEnt d) n && Z.eqb (MemDB.kvSize d) sz end.

Section Mem.
  Variable c : comparer.
  Let mc := ibc c.

  Definition kmstep (d : MemDB.db) (s : kstep) : option MemDB.db :=
    match s with
    | SPutMem recs seq hs =>
        match batch_putmem kp mc mp (batch_of kp (map to_rec recs)) seq d hs with
        | PmOk d' _ => Some d'
        | _ => None
        end
    | SGroup groups dbseq hs record newseq =>
        match write_group kp mc mp dbseq (batches_of groups) d hs with
        | WgOk r d' _ ns => if beq r (unseg record) && (ns =? newseq) then Some d' else None
        | _ => None
        end
    | SToMem data expect hs o =>
        match decode_to_mem kp bhl mc mp (unseg data) expect d hs, o with
        | TmOk seq n d' _, KTOk seq' n' => if (seq =? seq') && (n =? n') then Some d' else None
        | TmErr e d' _, KTErr cd a => let '(c', a') := err_code e in if (cd =? c') && (a =? a') then Some d' else None
        | _, _ => None                          (* a panic or a hang ends the program: nothing to continue with *)
        end
    | SDump k => if dump_eqb d k then Some d else None
    end.

  Fixpoint kmrun (d : MemDB.db) (l : list kstep) : bool :=
    match l with
    | [] => true
    | SToMem data expect hs KTPanic :: _ =>
        match decode_to_mem kp bhl mc mp (unseg data) expect d hs with TmPanic => true | _ => false end
    | SToMem data expect hs KTHang :: _ =>
        match decode_to_mem kp bhl mc mp (unseg data) expect d hs with TmFuel => true | _ => false end
    | s :: r => match kmstep d s with Some d' => kmrun d' r | None => false end
    end.
End Mem.

Definition run_xcase (cs : c01xcase) : bool :=
  match cs with
  | KBEnc recs dump n ilen idx =>
      let b := batch_of kp (map to_rec recs) in
      beq (batch_dump b) (unseg dump) && (batch_len b =? n) && (b_ilen b =? ilen)%Z && idxs_eqb (b_index b) idx &&
      beq (batch_dump b) (enc_recs kp (map to_rec recs))
  | KBLoad data o => load_ok (unseg data) o
  | KBGroup groups seq record => beq (group_record (batches_of groups) seq) (unseg record)
  | KBJournal record seq n recs =>
      let data := unseg record in
      match decode_header bhl data with
      | inr (s, m) =>
          (s =? seq) && (m =? n) &&
          match batch_load kp (dropN bhl data) with
          | DOk b => (batch_len b =? n) &&
                     match batch_records b with
                     | Some rs => recs_eqb rs (map to_rec recs)
                     | None => false
                     end
          | _ => false
          end
      | inl _ => false
      end
  | KBMem cid steps =>
      match MemDB.mdb_new mp with
      | MemDB.Ok d => kmrun (cmp_of_id cid) d steps
      | _ => false
      end
  end.

Fixpoint xmism_from (i : N) (l : list c01xcase) : list N :=
  match l with
  | [] => []
  | x :: l' => if run_xcase x then xmism_from (i + 1) l' else i :: xmism_from (i + 1) l'
  end.

Definition xmismatches (l : list c01xcase) : list N := xmism_from 0 l.
