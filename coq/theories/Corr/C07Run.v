(* Corr/C07Run.v — correspondence evaluator for C07: replays on the RefLoop model the event
   sequences the harness sent to the real session.refLoop and compares, after every event, the
   removes the real loop issued (vstor Remove log, in order) and its fileRef map (read through the
   session's own fileRefCh) with the model's output and state; and replays on the VersionLayer model
   the operations the harness performed on the real version layer and compares the events it sent.
   Depends on the two model files and on Gen/InstRefLoop only. *)
From GL Require Import Conc.RefLoop Conc.VersionLayer Gen.Consts Gen.InstRefLoop.
From Coq Require Import NArith List Bool.
Import ListNotations.
Open Scope N_scope.

(* observation of the real fileRef map: a digest (entries, sum of counts, sum of file*count) or
   the whole map sorted by file number *)
Inductive obs := OSum (n s w : N) | OFull (m : list (N * N)).

(* one observation: the events the loop consumed since the previous one, the removes that reached
   the storage meanwhile, and the fileRef map.  The harness reads fileRef through fileRefCh;
   serving a request sends the loop round its for-loop once more, i.e. processTasks runs again: an
   ETick per request.  Requests are repeated until a run changes nothing (the model says how
   often), so the run after the last request is a no-op and is listed before the observation. *)
Definition c07step : Type := list event * list N * obs.

Inductive c07case :=
| KSeq (envok : bool) (exp : list N) (steps : list c07step)
    (* exp: versions whose reference task was sent with a creation time older than maxCachedTime;
       envok: what the harness' own protocol checker said about the sequence (must equal env_ok) *)
| KPanic (exp : list N) (steps : list c07step) (last : event) (kind : N)
    (* the real loop panicked on [last]: 0 negative ref, 1 duplicate reference request,
       2 invalid release request *)
| KProto (evs : list event)
    (* an event sequence the REAL version layer (session.commit/setVersion, version.incref/releaseNB,
       recorded instead of consumed by the loop) sent: it must satisfy the protocol env_ok *)
| KVL (disc : bool) (o : vopen) (ops : list vop) (obs : list event).
    (* one session of the REAL version layer: how it was opened (created, or recovered - the manifest
       summarised as one record listing the recovered version), the operations the harness performed
       on it (session.version / version.release by version id / session.commit with the record's
       tables, the trivial flag and how it ended) and every event it sent up to its close.  The model
       of the version layer (Conc/VersionLayer.v) must send exactly the same events; disc is what the
       harness' mirror said about the API discipline (must equal vl_disciplined); and the observed
       events must satisfy env_ok - for disciplined histories that is theorem
       C07_session_emits_env_ok evaluated on the implementation's own output *)

(* short constructors for the case files *)
Definition T (n a b : N) : tbl := {| t_num := n; t_min := a; t_max := b |}.
Definition R (a : list (N * tbl)) (d : list (N * N)) : srec := {| r_added := a; r_deleted := d |}.

Definition event_eqb (a b : event) : bool :=
  match a, b with
  | ERef v f, ERef v' f' => (v =? v') && leqb f f'
  | ERel v f, ERel v' f' => (v =? v') && leqb f f'
  | EDelta v x y, EDelta v' x' y' => (v =? v') && leqb x x' && leqb y y'
  | EAbandon v, EAbandon v' => v =? v'
  | ETick, ETick => true
  | _, _ => false
  end.

Fixpoint events_eqb (a b : list event) : bool :=
  match a, b with
  | [], [] => true
  | x :: a', y :: b' => event_eqb x y && events_eqb a' b'
  | _, _ => false
  end.

Definition digest (m : list (N * N)) : N * N * N :=
  fold_left (fun '(n, s, w) '(f, c) => (n + 1, s + c, w + f * c)) m (0, 0, 0).

Definition obs_ok (m : list (N * N)) (o : obs) : bool :=
  match o with
  | OSum n s w => let '(n', s', w') := digest m in (n =? n') && (s =? s') && (w =? w')
  | OFull l => (N.of_nat (length l) =? N.of_nat (length m))
               && forallb (fun '(f, c) => negb (c =? 0) && (cnt m f =? c)) l
               && nodupb (map fst l)
  end.

Fixpoint run_steps (s : state) (exp : list N) (steps : list c07step) : option state :=
  match steps with
  | [] => Some s
  | (es, rm, o) :: steps' =>
      match run_from rlp s (map (fun e => (e, exp)) es) with
      | Ok (s', rm') => if leqb rm rm' && obs_ok (fileRef s') o then run_steps s' exp steps' else None
      | _ => None
      end
  end.

Definition panic_code (q : panic) : N :=
  match q with NegativeRef _ => 0 | DuplicateRef => 1 | InvalidDelta => 2 | InvalidRelease => 2 end.

Definition run_case (c : c07case) : bool :=
  match c with
  | KSeq envok exp steps =>
      match run_steps init exp steps with Some _ => true | None => false end
      && Bool.eqb (env_ok (flat_map (fun st : c07step => map (fun e => (e, exp)) (fst (fst st))) steps)) envok
  | KPanic exp steps e kind =>
      match run_steps init exp steps with
      | Some s => match step rlp s (e, exp) with Panic q => panic_code q =? kind | _ => false end
      | None => false
      end
  | KProto evs => env_ok (map (fun e => (e, [])) evs)
  | KVL disc o ops obs =>
      match vl_run o ops with
      | VOk (_, evs) => events_eqb evs obs
      | VPanic _ => false
      end
      && Bool.eqb (vl_disciplined o ops) disc
      && (negb disc || env_ok (map (fun e => (e, [])) obs))
  end.

Fixpoint mism_from {A} (f : A -> bool) (i : N) (l : list A) : list N :=
  match l with
  | [] => []
  | x :: l' => if f x then mism_from f (i + 1) l' else i :: mism_from f (i + 1) l'
  end.

Definition mismatches (l : list c07case) : list N := mism_from run_case 0 l.
