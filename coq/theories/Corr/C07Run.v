(* Corr/C07Run.v — correspondence evaluator for C07: replays on the RefLoop model the event
   sequences the harness sent to the real session.refLoop and compares, after every event, the
   removes the real loop issued (vstor Remove log, in order) and its fileRef map (read through the
   session's own fileRefCh) with the model's output and state; and replays on the VersionLayer model
   the operations the harness performed on the real version layer and compares the events it sent.
   The janitor cases replay, on the model Store/Sweep.v, what the real Open did on a checker-owned
   storage: which journals recoverJournal replayed, which Remove calls checkAndCleanFiles issued for the
   listing it read, and the whole of Open (every Remove call in order, the listing afterwards, the
   journal / manifest / next file numbers).
   Depends on the model files and on Gen/InstRefLoop only. *)
From GL Require Import Conc.RefLoop Conc.VersionLayer Gen.Consts Gen.InstRefLoop.
From GL Require Store.Sweep.
From Coq Require Import NArith List Bool.
Import ListNotations.
Open Scope N_scope.

(* observation of the real fileRef map: a digest (entries, sum of counts, sum of file*count) or
   the whole map sorted by file number *)
Inductive obs := OSum (n s w : N) | OFull (m : list (N * N)).

(* one observation: the events the loop consumed since the previous one, the removes that reached
   the storage meanwhile, and the fileRef map.  The harness reads fileRef through fileRefCh;
   serving a request sends the loop round its for-loop once more, i.e. processTasks runs again: an
   ETick per request.  Requests are repeated until a run changes nothing (the model says how
   often), so the run after the last request is a no-op and is listed before the observation. *)
Definition c07step : Type := list event * list N * obs.

Inductive c07case :=
| KSeq (envok : bool) (exp : list N) (steps : list c07step)
    (* exp: versions whose reference task was sent with a creation time older than maxCachedTime;
       envok: what the harness' own protocol checker said about the sequence (must equal env_ok) *)
| KPanic (exp : list N) (steps : list c07step) (last : event) (kind : N)
    (* the real loop panicked on [last]: 0 negative ref, 1 duplicate reference request,
       2 invalid release request *)
| KProto (evs : list event)
    (* an event sequence the REAL version layer (session.commit/setVersion, version.incref/releaseNB,
       recorded instead of consumed by the loop) sent: it must satisfy the protocol env_ok *)
| KVL (disc : bool) (o : vopen) (ops : list vop) (obs : list event)
| KJan (tabs : list N) (man journal : N) (frozen : option N) (listing bad : list Sweep.fd) (res : jres)
    (* one run of checkAndCleanFiles at Open: the tables of the version it pinned, s.manifestFd.Num,
       db.journalFd.Num, db.frozenJournalFd, the listing its List(TypeAll) returned, the files whose Remove
       failed, and what it did: the Remove calls in order and whether it ran to its end, or the missing
       tables it reported *)
| KSel (jn pj : N) (listing : list Sweep.fd) (replayed : list N)
    (* recoverJournal: stJournalNum and stPrevJournalNum as session.recover left them, the listing, and the
       journals it opened for replay, in order *)
| KOpen (v : Sweep.view) (listing : list Sweep.fd) (fl : list N) (mbad : bool) (bad : list Sweep.fd)
        (calls : list Sweep.fd) (ok : bool) (after : list Sweep.fd) (journal man nxt : N)
    (* one whole Open on [listing] when session.recover computes v: tables flushed per replayed journal,
       whether the removal of the old manifest by the first commit failed, other failing Remove calls; observed: every Remove call in order, whether Open succeeded, the listing
       afterwards, and (on success) db.journalFd.Num, s.manifestFd.Num, s.stNextFileNum *)
with jres := JR (calls : list Sweep.fd) (done : bool) | JM (ts : list N).
    (* one session of the REAL version layer: how it was opened (created, or recovered - the manifest
       summarised as one record listing the recovered version), the operations the harness performed
       on it (session.version / version.release by version id / session.commit with the record's
       tables, the trivial flag and how it ended) and every event it sent up to its close.  The model
       of the version layer (Conc/VersionLayer.v) must send exactly the same events; disc is what the
       harness' mirror said about the API discipline (must equal vl_disciplined); and the observed
       events must satisfy env_ok - for disciplined histories that is theorem
       C07_session_emits_env_ok evaluated on the implementation's own output *)

(* short constructors for the case files *)
Definition T (n a b : N) : tbl := {| t_num := n; t_min := a; t_max := b |}.
Definition R (a : list (N * tbl)) (d : list (N * N)) : srec := {| r_added := a; r_deleted := d |}.
Definition Fm (n : N) : Sweep.fd := (Sweep.FManifest, n).
Definition Fj (n : N) : Sweep.fd := (Sweep.FJournal, n).
Definition Ft (n : N) : Sweep.fd := (Sweep.FTable, n).
Definition Fx (n : N) : Sweep.fd := (Sweep.FTemp, n).
Definition VW (tabs : list N) (jn : N) (prev : option N) (nx man : N) : Sweep.view :=
  {| Sweep.v_tabs := tabs; Sweep.v_jnum := jn; Sweep.v_prev := prev; Sweep.v_next := nx; Sweep.v_man := man |}.

Fixpoint fds_eqb (a b : list Sweep.fd) : bool :=
  match a, b with
  | [], [] => true
  | x :: a', y :: b' => Sweep.fd_eqb x y && fds_eqb a' b'
  | _, _ => false
  end.

(* equal as sets (the listings carry no repetition) *)
Definition fds_same (a b : list Sweep.fd) : bool :=
  forallb (Sweep.fmem b) a && forallb (Sweep.fmem a) b.

Definition event_eqb (a b : event) : bool :=
  match a, b with
  | ERef v f, ERef v' f' => (v =? v') && leqb f f'
  | ERel v f, ERel v' f' => (v =? v') && leqb f f'
  | EDelta v x y, EDelta v' x' y' => (v =? v') && leqb x x' && leqb y y'
  | EAbandon v, EAbandon v' => v =? v'
  | ETick, ETick => true
  | _, _ => false
  end.

Fixpoint events_eqb (a b : list event) : bool :=
  match a, b with
  | [], [] => true
  | x :: a', y :: b' => event_eqb x y && events_eqb a' b'
  | _, _ => false
  end.

Definition digest (m : list (N * N)) : N * N * N :=
  fold_left (fun '(n, s, w) '(f, c) => (n + 1, s + c, w + f * c)) m (0, 0, 0).

Definition obs_ok (m : list (N * N)) (o : obs) : bool :=
  match o with
  | OSum n s w => let '(n', s', w') := digest m in (n =? n') && (s =? s') && (w =? w')
  | OFull l => (N.of_nat (length l) =? N.of_nat (length m))
               && forallb (fun '(f, c) => negb (c =? 0) && (cnt m f =? c)) l
               && nodupb (map fst l)
  end.

Fixpoint run_steps (s : state) (exp : list N) (steps : list c07step) : option state :=
  match steps with
  | [] => Some s
  | (es, rm, o) :: steps' =>
      match run_from rlp s (map (fun e => (e, exp)) es) with
      | Ok (s', rm') => if leqb rm rm' && obs_ok (fileRef s') o then run_steps s' exp steps' else None
      | _ => None
      end
  end.

Definition panic_code (q : panic) : N :=
  match q with NegativeRef _ => 0 | DuplicateRef => 1 | InvalidDelta => 2 | InvalidRelease => 2 end.

Definition run_case (c : c07case) : bool :=
  match c with
  | KSeq envok exp steps =>
      match run_steps init exp steps with Some _ => true | None => false end
      && Bool.eqb (env_ok (flat_map (fun st : c07step => map (fun e => (e, exp)) (fst (fst st))) steps)) envok
  | KPanic exp steps e kind =>
      match run_steps init exp steps with
      | Some s => match step rlp s (e, exp) with Panic q => panic_code q =? kind | _ => false end
      | None => false
      end
  | KProto evs => env_ok (map (fun e => (e, [])) evs)
  | KVL disc o ops obs =>
      match vl_run o ops with
      | VOk (_, evs) => events_eqb evs obs
      | VPanic _ => false
      end
      && Bool.eqb (vl_disciplined o ops) disc
      && (negb disc || env_ok (map (fun e => (e, [])) obs))
  | KJan tabs man journal frozen listing bad res =>
      let st := {| Sweep.js_tabs := tabs; Sweep.js_manifest := man; Sweep.js_journal := journal;
                   Sweep.js_frozen := frozen |} in
      match Sweep.janitor st listing, res with
      | Sweep.JRemove rem, JR calls done =>
          let '(c, _, k) := Sweep.rm_seq listing rem bad in fds_eqb c calls && Bool.eqb k done
      | Sweep.JMissing ts, JM ts' => leqb (Sweep.nsort ts) (Sweep.nsort ts')
      | _, _ => false
      end
  | KSel jn pj listing replayed => leqb (Sweep.rj_select jn pj listing) replayed
  | KOpen v listing fl mbad bad calls ok after journal man nxt =>
      let s := Sweep.open_db v fl mbad bad (Sweep.boot listing v true) in
      fds_eqb (rev (map fst (Sweep.trace s))) calls
      && Bool.eqb (Sweep.opened s) ok
      && fds_same (Sweep.files s) after
      && (negb ok
          || ((Sweep.journal s =? journal)
              && match Sweep.man s with Some m => m =? man | None => false end
              && (Sweep.next s =? nxt)))
  end.

Fixpoint mism_from {A} (f : A -> bool) (i : N) (l : list A) : list N :=
  match l with
  | [] => []
  | x :: l' => if f x then mism_from f (i + 1) l' else i :: mism_from f (i + 1) l'
  end.

Definition mismatches (l : list c07case) : list N := mism_from run_case 0 l.
