(* Corr/C04OpenRun.v — correspondence cases for the composed Open (Store/OpenPath.v open_bytes): a crash image
   taken from the checker's storage — EVERY file as bytes (manifests, journals, tables) and the meta pointer —
   together with what the REAL leveldb.Open made of it, read-write and read-only:
     db.seq, the number of the new journal, the version's table numbers per level in slice order (taken from the
     commit hook at the last commit of the recovery, so before any background work), the live buffer's entries
     (internal key, value), every Remove call in order, every record committed during the recovery (journal number,
     sequence number, the tables it adds), the batches kept from the journals (first sequence number, count; read
     off the markers), and the storage afterwards: for every file its type, number, length and CRC-32C (so the new
     manifest, the new journal and the tables the recovery flushed are compared byte for byte), and the meta pointer;
   or the class of the error Open returned.  The model must produce the same.
   Depends on model files and Gen/ only. *)
From Coq Require Import List NArith ZArith Bool String.
From GL Require Import Base.Bytes Base.Order Codec.Crc Codec.IKey Codec.Journal Codec.JournalSpec Codec.Table Codec.TblCrc
  Lsm.ReadPath Store.OpenPath Gen.Consts Gen.Inst Gen.InstTbl Gen.InstMem Gen.InstJournal Gen.InstRecord
  Corr.Cmps Corr.C12Run.
From GL Require Store.Sweep.
Import ListNotations.
Open Scope N_scope.

Inductive kfile := KFile (tcode num : N) (data : list seg).

Inductive kexp :=
| KEOk (seq : N) (journal : option N) (layout : list (list N)) (mem : list (string * string))
       (removed : list (N * N)) (kept : option (list (N * N))) (commits : list (N * N * list N))
       (after : list (N * N * N * N)) (meta_after : option N)
| KEFail (class : N)         (* 1 = errors.IsCorrupted, 2 = os.IsNotExist, 3 = os.ErrExist *)
| KESkip.                    (* this mode was not run on the image *)

Inductive c04ocase :=
| KOpenBytes (cid : N) (cname : string) (strict_man strict_j jck err_missing err_exist : bool) (wbuf maxman : Z)
             (blockSize ri : N) (meta : option N) (fls : list kfile) (rw ro : kexp).

Definition ftype_of_code (c : N) : Sweep.ftype :=
  if c =? 1 then Sweep.FManifest else if c =? 2 then Sweep.FJournal else if c =? 4 then Sweep.FTable else Sweep.FTemp.

Definition image_of (meta : option N) (fls : list kfile) : simage :=
  mkSI meta (map (fun f => match f with KFile t n d => ((ftype_of_code t, n), segs_bytes d) end) fls).

Definition err_class (e : oerr) : N :=
  match e with
  | OENotExist => 2
  | OEExist => 3
  | OEEntryCorrupt | OEMetaCorrupt | OEManifestRead | OEManifest _ | OEJournalRead _ | OEBatch _ _ | OEMissing _ => 1
  | _ => 99
  end.

Fixpoint list_eqb {A B} (f : A -> B -> bool) (a : list A) (b : list B) : bool :=
  match a, b with
  | [], [] => true
  | x :: a', y :: b' => f x y && list_eqb f a' b'
  | _, _ => false
  end.
Definition pair_eqb (a b : N * N) : bool := (fst a =? fst b) && (snd a =? snd b).
Definition optN_eqb (a b : option N) : bool :=
  match a, b with Some x, Some y => x =? y | None, None => true | _, _ => false end.

Definition run_open (cid : N) (cname : string) (sm sj jck em ee : bool) (wbuf maxman : Z) (blockSize ri : N) (ro : bool)
    (img : simage) : ores ostate :=
  open_bytes jcrc jp rp kp ldb_batchHeaderLen mp tblp tbl_crc (fun x => x) false None blockSize ri (cmp_of_id cid)
    (mkOO sm sj jck wbuf maxman ro em ee (unhex cname)) [] img.

(* the numbers of the checks that fail (empty = agreement) *)
Definition check_exp (r : ores ostate) (e : kexp) : list N :=
  match e, r with
  | KESkip, _ => []
  | KEFail cl, OpenPath.OErr x => if err_class x =? cl then [] else [20]
  | KEFail _, OpenPath.OOk _ => [21]
  | KEOk _ _ _ _ _ _ _ _ _, OpenPath.OErr x => [22 + err_class x]
  | KEOk seq journal layout mem removed kept commits after meta_after, OpenPath.OOk s =>
      (if os_seq s =? seq then [] else [1]) ++
      (if optN_eqb (os_journal s) journal then [] else [2]) ++
      (if list_eqb (list_eqb N.eqb) (layout_of s) layout then [] else [3]) ++
      (if list_eqb (fun a b => beq (fst a) (unhex (fst b)) && beq (snd a) (unhex (snd b))) (mem_list mp s) mem then [] else [4]) ++
      (if list_eqb pair_eqb (map (fun x => (tcode (fst x), snd x)) (os_removed s)) removed then [] else [5]) ++
      (match kept with Some l => if list_eqb pair_eqb (os_kept s) l then [] else [6] | None => [] end) ++
      (if list_eqb (fun a b => pair_eqb (fst a) (fst b) && list_eqb N.eqb (snd a) (snd b)) (os_commits s) commits then [] else [7]) ++
      (if list_eqb (fun a b => pair_eqb (fst (fst a)) (fst (fst b)) && pair_eqb (snd (fst a), snd a) (snd (fst b), snd b))
                   (map (fun x => match f_lookup (si_files (os_image s)) x with
                                  | Some d => (tcode (fst x), snd x, lenN d, crc32c d)
                                  | None => (0, 0, 0, 0)
                                  end) (f_list (si_files (os_image s)))) after then [] else [8]) ++
      (if optN_eqb (si_meta (os_image s)) meta_after then [] else [9])
  end.

Definition diag_case (c : c04ocase) : list N * list N :=
  match c with
  | KOpenBytes cid cname sm sj jck em ee wbuf maxman blockSize ri meta fls rw ro =>
      let img := image_of meta fls in
      (check_exp (run_open cid cname sm sj jck em ee wbuf maxman blockSize ri false img) rw,
       check_exp (run_open cid cname sm sj jck em ee wbuf maxman blockSize ri true img) ro)
  end.

Definition run_ocase (c : c04ocase) : bool :=
  match diag_case c with ([], []) => true | _ => false end.

Fixpoint mism_from_o (i : N) (l : list c04ocase) : list N :=
  match l with
  | [] => []
  | x :: l' => if run_ocase x then mism_from_o (i + 1) l' else i :: mism_from_o (i + 1) l'
  end.
Definition mismatches_o (l : list c04ocase) : list N := mism_from_o 0 l.
