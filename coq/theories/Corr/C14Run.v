(* Corr/C14Run.v — correspondence evaluator for C14: replays on the array model (Mem/MemDB.v,
   instantiated with the generated constants) the programs the harness ran on the real
   memdb.DB and compares every output, the iterator's internal node/direction after every
   movement, and (KDump) the complete internal arrays.  Depends on model files only. *)
From GL Require Import Base.Bytes Mem.MemDB Corr.Cmps Gen.Consts Gen.InstMem.
From Coq Require Import String.
Open Scope N_scope.

(* what the harness observed after an iterator movement *)
Inductive iobs := IObs (ret valid : bool) (k v : option string) (node : N) (fwd : bool).

Inductive kop :=
| KPut (k v : string) (h : N)                 (* h: height drawn by the replicated randHeight (1 if none drawn) *)
| KDel (k : string) (found : bool)
| KGet (k : string) (r : option string)
| KFind (k : string) (r : option (string * string))
| KHas (k : string) (r : bool)
| KLen (z : Z)
| KSize (z : Z)
| KUsed (z : Z)                               (* Capacity() - Free() *)
| KReset
| KNewIter (id : N) (sl : option (option string * option string))
| KFirst (id : N) (o : iobs)
| KLast (id : N) (o : iobs)
| KSeek (id : N) (k : string) (o : iobs)
| KNext (id : N) (o : iobs)
| KPrev (id : N) (o : iobs)
| KDump (nd : list N) (kv : string) (mh : N) (n sz : Z).   (* nodeData, kvData, maxHeight, n, kvSize *)

Inductive c14case := C14Prog (cid : N) (ops : list kop).

Definition ob_eq (a : option bytes) (b : option string) : bool :=
  match a, b with
  | None, None => true
  | Some x, Some y => beq x (unhex y)
  | _, _ => false
  end.

Fixpoint ln_eq (a b : list N) : bool :=
  match a, b with
  | [], [] => true
  | x :: a', y :: b' => (x =? y) && ln_eq a' b'
  | _, _ => false
  end.

Definition un_opt (o : option string) : option bytes := option_map unhex o.

Definition un_slice (sl : option (option string * option string)) : option range :=
  match sl with
  | None => None
  | Some (s, l) => Some (un_opt s, un_opt l)
  end.

Definition iter_ok (s : mstate) (id : N) (r : out) (o : iobs) : bool :=
  match o, r, it_lookup id (st_its s) with
  | IObs ret valid k v node fwd, RIter ret' valid' k' v', Some it =>
      Bool.eqb ret ret' && Bool.eqb valid valid' && ob_eq k' k && ob_eq v' v &&
      (it_node it =? node) && Bool.eqb (it_fwd it) fwd
  | _, _, _ => false
  end.

Section Run.
  Variable c : comparer.

  (* one observed operation: new model state if the model agrees *)
  Definition kstep (s : mstate) (o : kop) : option mstate :=
    let st := step c mp s in
    match o with
    | KPut k v h =>
        match st (OPut (unhex k) (unhex v) h) with Ok (s', RUnit) => Some s' | _ => None end
    | KDel k f =>
        match st (ODelete (unhex k)) with
        | Ok (s', RFound f') => if Bool.eqb f f' then Some s' else None | _ => None end
    | KGet k r =>
        match st (OGet (unhex k)) with
        | Ok (s', RVal r') => if ob_eq r' r then Some s' else None | _ => None end
    | KFind k r =>
        match st (OFind (unhex k)), r with
        | Ok (s', RKV None), None => Some s'
        | Ok (s', RKV (Some (k', v'))), Some (k2, v2) =>
            if beq k' (unhex k2) && beq v' (unhex v2) then Some s' else None
        | _, _ => None end
    | KHas k r =>
        match st (OContains (unhex k)) with
        | Ok (s', RFound r') => if Bool.eqb r r' then Some s' else None | _ => None end
    | KLen z =>
        match st OLen with Ok (s', RNum z') => if Z.eqb z z' then Some s' else None | _ => None end
    | KSize z =>
        match st OSize with Ok (s', RNum z') => if Z.eqb z z' then Some s' else None | _ => None end
    | KUsed z =>
        match st OUsed with Ok (s', RNum z') => if Z.eqb z z' then Some s' else None | _ => None end
    | KReset =>
        match st OReset with Ok (s', RUnit) => Some s' | _ => None end
    | KNewIter id sl =>
        match st (ONewIter id (un_slice sl)) with Ok (s', RUnit) => Some s' | _ => None end
    | KFirst id o =>
        match st (OFirst id) with Ok (s', r) => if iter_ok s' id r o then Some s' else None | _ => None end
    | KLast id o =>
        match st (OLast id) with Ok (s', r) => if iter_ok s' id r o then Some s' else None | _ => None end
    | KSeek id k o =>
        match st (OSeek id (unhex k)) with Ok (s', r) => if iter_ok s' id r o then Some s' else None | _ => None end
    | KNext id o =>
        match st (ONext id) with Ok (s', r) => if iter_ok s' id r o then Some s' else None | _ => None end
    | KPrev id o =>
        match st (OPrev id) with Ok (s', r) => if iter_ok s' id r o then Some s' else None | _ => None end
    | KDump nd kv mh n sz =>
        let d := st_db s in
        if ln_eq (nodeData d) nd && beq (kvData d) (unhex kv) && (maxHeight d =? mh) &&
           Z.eqb (nEnt d) n && Z.eqb (kvSize d) sz
        then Some s else None
    end.

  (* index of the first operation on which model and implementation differ *)
  Fixpoint first_bad (s : mstate) (i : N) (ops : list kop) : option N :=
    match ops with
    | [] => None
    | o :: ops' =>
        match kstep s o with
        | Some s' => first_bad s' (i + 1) ops'
        | None => Some i
        end
    end.
End Run.

Definition diag (cs : c14case) : option N :=
  match cs with
  | C14Prog cid ops =>
      match mdb_new mp with
      | Ok d => first_bad (cmp_of_id cid) {| st_db := d; st_its := [] |} 0 ops
      | _ => Some 0
      end
  end.

Definition run_case (cs : c14case) : bool :=
  match diag cs with None => true | Some _ => false end.

Fixpoint mism_from {A} (f : A -> bool) (i : N) (l : list A) : list N :=
  match l with
  | [] => []
  | x :: l' => if f x then mism_from f (i + 1) l' else i :: mism_from f (i + 1) l'
  end.

Definition mismatches (l : list c14case) : list N := mism_from run_case 0 l.
