(* Corr/C04BytesRun.v — byte-level correspondence cases for C04: the bytes of the live journal file of a crash
   image taken from the checker's storage (cut at a byte inside the unsynced tail, possibly followed by zeros
   or garbage) and the batches (first sequence number, record count) the real Open recovered from that file.
   The model's recover_bytes (Store/CrashBytes.v: C12's tolerant reader model as recoverJournal drives it,
   then the batch decoder) on the same bytes must keep exactly those batches, in that order.
   Depends on model files and Gen/ only. *)
From GL Require Import Base.Bytes Codec.Crc Codec.Journal Codec.JournalSpec Gen.Consts Gen.InstJournal
  Store.Crash Store.CrashBytes Corr.C12Run.

Inductive c04bcase :=
| KJournal (checksum : bool) (stream : list seg) (kept : list (N * N))
(* the real Open of the crash image failed (error text kept on the Go side); in the model recovery of a
   crash image always succeeds (C04_crash_safe_bytes), so this is a disagreement whatever the bytes are *)
| KOpenFailed (stream : list seg).

Fixpoint pairs_eqb (a b : list (N * N)) : bool :=
  match a, b with
  | [], [] => true
  | (x1, x2) :: a', (y1, y2) :: b' => (x1 =? y1) && (x2 =? y2) && pairs_eqb a' b'
  | _, _ => false
  end.

Definition recover_journal_bytes (ck : bool) (d : bytes) : list batch :=
  recover_bytes jcrc jp batch (dec_batch_go ldb_batchHeaderLen) ck d.

Definition run_bcase (c : c04bcase) : bool :=
  match c with
  | KJournal ck stream kept =>
      pairs_eqb (map (fun b => (b_seq b, b_n b)) (recover_journal_bytes ck (segs_bytes stream))) kept
  | KOpenFailed _ => false
  end.

Definition mismatches_b (l : list c04bcase) : list N := mism_from run_bcase 0 l.
