(* Corr/C11Run.v — correspondence evaluator for C11.
   KTxnGet: a state dumped inside an open transaction (private buffer, DB buffers, private tables, pinned
   version) — the layout certificate must hold and the model's Transaction.Get / DB.Get must reproduce every
   observed read.  KTrace: an op trace of the implementation (writes, snapshots, transactions with their
   records, commit/discard/close) with the reads and sequence numbers observed along the way — the
   transaction machine of Lsm/Txn.v must predict every one of them. *)
From GL Require Export Corr.LsmRun.
From GL Require Export Corr.C11BytesRun.      (* the byte-level transaction cases (KTxnBytes) *)
From GL Require Import Base.Bytes Codec.IKey Corr.Cmps Gen.Consts Gen.Inst Lsm.Lsm Lsm.Compact Lsm.History Lsm.Txn.
From Coq Require Import String.

Definition krec := (N * string * string)%type.   (* kind, user key (hex), value digest (hex) *)

Inductive tev :=
| EWrite (recs : list krec)                       (* Put / Delete / Write through the journal *)
| EBigWrite (recs : list krec)                    (* Write of an oversized batch, routed through a transaction *)
| ESnap
| ERelease (i : N)
| EClose                                          (* Close (open transaction, if any, discarded) + reopen *)
| ETxnOpen
| ETxnWrite (recs : list krec)
| ETxnCommit
| ETxnDiscard
| EOut (k : string) (obs : option string)         (* DB.Get at the current sequence number *)
| ESnapGet (i : N) (k : string) (obs : option string)
| ETxn (k : string) (obs : option string)         (* Transaction.Get *)
| ESeq (dbseq : N) (tseq : option N)              (* observed db.seq and tr.seq *)
| EReseq (dbseq : N).                             (* db.seq found after a reopen: journal recovery restores it to
                                                     one above the last replayed record (recoverJournal adds the batch
                                                     length to the batch's FIRST sequence number), so numbers may be
                                                     skipped; never reused *)

Inductive c11case :=
| KTxnGet (cid tseq dbseq : N) (auxm mem frozen : list kentry) (aux : list ktable) (lvls : list (list ktable))
          (tqs : list (string * option string)) (oqs : list (string * N * option string))
| KTrace (cid : N) (evs : list tev).

Definition to_recs (l : list krec) : list wrec :=
  map (fun r => match r with (kd, k, v) => (kd, unhex k, unhex v) end) l.

Definition seq_okb (s : tstate) (d : N) (t : option N) : bool :=
  (h_seq (ts_h s) =? d) &&
  match t, ts_txn s with
  | Some x, Some tx => t_seq tx =? x
  | None, None => true
  | _, _ => false
  end.

(* skipping sequence numbers: no entry carries them *)
Definition reseq (s : tstate) (d : N) : option tstate :=
  if (h_seq (ts_h s) <=? d) && match ts_txn s with None => true | Some _ => false end then
    Some {| ts_h := {| h_seq := d; h_store := h_store (ts_h s); h_snaps := h_snaps (ts_h s); h_hist := h_hist (ts_h s) |};
            ts_txn := None |}
  else None.

Fixpoint run_trace (c : comparer) (s : tstate) (evs : list tev) : bool :=
  match evs with
  | [] => true
  | e :: rest =>
      match e with
      | EWrite recs => run_trace c (tstep s (TOut (HWrite (to_recs recs)))) rest
      | EBigWrite recs => run_trace c (tstep s (TBigWrite (to_recs recs) true)) rest
      | ESnap => run_trace c (tstep s (TOut HSnap)) rest
      | ERelease i => run_trace c (tstep s (TOut (HRelease (N.to_nat i)))) rest
      | EClose => run_trace c (tstep s TClose) rest
      | ETxnOpen => run_trace c (tstep s TOpen) rest
      | ETxnWrite recs => run_trace c (tstep s (TWrite (to_recs recs))) rest
      | ETxnCommit => run_trace c (tstep s (TCommit true)) rest
      | ETxnDiscard => run_trace c (tstep s TDiscard) rest
      | EOut k obs => opt_eqb (out_get c kp s (unhex k) (h_seq (ts_h s))) obs && run_trace c s rest
      | ESnapGet i k obs =>
          match nth_error (h_snaps (ts_h s)) (N.to_nat i) with
          | Some q => opt_eqb (out_get c kp s (unhex k) q) obs
          | None => false
          end && run_trace c s rest
      | ETxn k obs =>
          match ts_txn s with
          | Some _ => opt_eqb (txn_get c kp s (unhex k)) obs
          | None => false
          end && run_trace c s rest
      | ESeq d t => seq_okb s d t && run_trace c s rest
      | EReseq d => match reseq s d with Some s' => run_trace c s' rest | None => false end
      end
  end.

Definition run_c11 (cs : c11case) : bool :=
  match cs with
  | KTxnGet cid tseq dbseq auxm mem frozen aux lvls tqs oqs =>
      let c := cmp_of_id cid in
      let st := {| st_mem := map to_entry mem; st_frozen := map to_entry frozen;
                   st_aux := map to_table aux; st_levels := to_levels lvls |} in
      let am := map to_entry auxm in
      txn_layout_okb c kp dbseq tseq am st
      && forallb (fun q => match q with (k, obs) =>
                   opt_eqb (api_of (txn_lsm_get c kp am st (unhex k) tseq)) obs end) tqs
      && forallb (fun q => match q with (k, s, obs) =>
                   opt_eqb (api_of (lsm_get c kp (outside_of st) (unhex k) s)) obs end) oqs
  | KTrace cid evs => run_trace (cmp_of_id cid) t_init evs
  end.

Definition mismatches (l : list c11case) : list N := mism_from run_c11 0 l.

(* diagnostics: index of the first event of a trace the machine does not reproduce *)
Fixpoint trace_fail_at (c : comparer) (s : tstate) (evs : list tev) (i : N) : option N :=
  match evs with
  | [] => None
  | e :: rest =>
      if run_trace c s [e] then
        let s' := match e with
                  | EWrite recs => tstep s (TOut (HWrite (to_recs recs)))
                  | EBigWrite recs => tstep s (TBigWrite (to_recs recs) true)
                  | ESnap => tstep s (TOut HSnap)
                  | ERelease j => tstep s (TOut (HRelease (N.to_nat j)))
                  | EClose => tstep s TClose
                  | ETxnOpen => tstep s TOpen
                  | ETxnWrite recs => tstep s (TWrite (to_recs recs))
                  | ETxnCommit => tstep s (TCommit true)
                  | ETxnDiscard => tstep s TDiscard
                  | EReseq d => match reseq s d with Some s' => s' | None => s end
                  | _ => s
                  end in
        trace_fail_at c s' rest (i + 1)
      else Some i
  end.

Definition diag (cs : c11case) : option N :=
  match cs with
  | KTrace cid evs => trace_fail_at (cmp_of_id cid) t_init evs 0
  | KTxnGet cid tseq dbseq auxm mem frozen aux lvls tqs oqs =>
      let c := cmp_of_id cid in
      let st := {| st_mem := map to_entry mem; st_frozen := map to_entry frozen;
                   st_aux := map to_table aux; st_levels := to_levels lvls |} in
      let am := map to_entry auxm in
      if negb (txn_private_okb dbseq tseq am st) then Some 1
      else if negb (txn_layout_okb c kp dbseq tseq am st) then Some 2
      else if negb (forallb (fun q => match q with (k, obs) =>
                   opt_eqb (api_of (txn_lsm_get c kp am st (unhex k) tseq)) obs end) tqs) then Some 3
      else if negb (forallb (fun q => match q with (k, s, obs) =>
                   opt_eqb (api_of (lsm_get c kp (outside_of st) (unhex k) s)) obs end) oqs) then Some 4
      else None
  end.
