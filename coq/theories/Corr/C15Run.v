(* Corr/C15Run.v — correspondence evaluator for C15: runs the IKey model on the cases the
   harness observed on the implementation and returns the indexes that disagree. *)
From GL Require Import Base.Bytes Codec.IKey Corr.Cmps Gen.Consts Gen.Inst.
From Coq Require Import String.

Inductive c15case :=
| CCmp (cid : N) (a b : string) (obs : N)                 (* obs: Lt=0 Eq=1 Gt=2 *)
| CSep (cid : N) (a b : string) (obs : option string)      (* None = nil *)
| CSucc (cid : N) (b : string) (obs : option string)
| CMake (u : string) (seq kind : N) (obs : option string)   (* None = panic *)
| CParse (b : string) (obs : option (string * N * N)).      (* None = error *)

Definition opt_beq (a : option bytes) (b : option string) : bool :=
  match a, b with
  | None, None => true
  | Some x, Some y => beq x (unhex y)
  | _, _ => false
  end.

Definition run_case (c : c15case) : bool :=
  match c with
  | CCmp cid a b obs =>
      match icmp_bytes (cmp_of_id cid) (unhex a) (unhex b) with
      | Some r => cmp_code r =? obs
      | None => false
      end
  | CSep cid a b obs =>
      match isep_bytes (cmp_of_id cid) kp (unhex a) (unhex b) with
      | Some r => opt_beq r obs
      | None => false
      end
  | CSucc cid b obs =>
      match isucc_bytes (cmp_of_id cid) kp (unhex b) with
      | Some r => opt_beq r obs
      | None => false
      end
  | CMake u s k obs =>
      match make_ikey kp (unhex u) s k, obs with
      | MkOk ik, Some o => beq (encode_ikey ik) (unhex o)
      | MkPanic, None => true
      | _, _ => false
      end
  | CParse b obs =>
      match parse_ikey kp (unhex b), obs with
      | Some (u, s, k), Some (u', s', k') => beq u (unhex u') && (s =? s') && (k =? k')
      | None, None => true
      | _, _ => false
      end
  end.

Fixpoint mism_from {A} (f : A -> bool) (i : N) (l : list A) : list N :=
  match l with
  | [] => []
  | x :: l' => if f x then mism_from f (i + 1) l' else i :: mism_from f (i + 1) l'
  end.

Definition mismatches (l : list c15case) : list N := mism_from run_case 0 l.
