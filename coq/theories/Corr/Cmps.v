(* Corr/Cmps.v — the comparers the harness uses, by id (harness/lib/vlib/cmps.go). *)
From GL Require Export Base.Order Codec.BytesCmp Codec.BytesCmpProofs.

Definition cmp_of_id (id : N) : comparer :=
  match id with
  | 0 => bytewise
  | 1 => shortlex
  | 2 => xorcmp 85
  | _ => xorcmp 255
  end.

Lemma cmp_of_id_ok id : comparer_ok (cmp_of_id id).
Proof.
  unfold cmp_of_id. destruct id as [|[[|[]|]|[|[]|]|]];
    first [apply bytewise_ok | apply shortlex_ok | apply xorcmp_ok].
Qed.
