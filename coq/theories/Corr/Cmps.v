(* Corr/Cmps.v — the comparers the harness uses, by id (harness/lib/vlib/cmps.go). *)
From GL Require Export Base.Order Base.OrderPre Codec.BytesCmp Codec.BytesCmpProofs Codec.CiCmp Codec.CiCmpProofs.

Definition cmp_of_id (id : N) : comparer :=
  match id with
  | 0 => bytewise
  | 1 => shortlex
  | 2 => xorcmp 85
  | 4 => cicmp
  | _ => xorcmp 255
  end.

(* ids other than 4 are injective comparers (the full contract comparer_ok) *)
Lemma cmp_of_id_ok id : id <> 4 -> comparer_ok (cmp_of_id id).
Proof.
  unfold cmp_of_id. intros H. destruct id as [|[[|[]|]|[|[[]| |]|]|]];
    first [congruence | apply bytewise_ok | apply shortlex_ok | apply xorcmp_ok].
Qed.

(* every id satisfies the preorder contract; id 4 (ASCII case-insensitive) is not injective *)
Lemma cmp_of_id_pre_ok id : comparer_pre_ok (cmp_of_id id).
Proof.
  destruct (N.eq_dec id 4) as [->|H]; [apply cicmp_pre_ok|].
  apply comparer_ok_pre. apply cmp_of_id_ok. exact H.
Qed.

Lemma cmp_of_id_4_not_injective : ~ comparer_ok (cmp_of_id 4).
Proof. apply cicmp_not_injective. Qed.
