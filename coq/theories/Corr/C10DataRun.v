(* Corr/C10DataRun.v — correspondence evaluator for the DATA layer of C10 (Conc/WriteMergeData.v):
   decides whether a recorded trace of the real DB, together with what the hooks saw of the data —
   the writeMerge message of every merge request (kind, internalLen, sync), the arguments of every
   writeJournal call (len(batches), batchesLen, sum of internalLen, seq, sync), every putMem call
   (first writer of the batch, seq, Len), db.seq after a transaction commit — and together with the
   records read back from the journal files (header seq, the writers of the records IN FILE ORDER),
   is a run of the data-carrying system.

   The control part of every event is judged by [feed] of Corr/C10Run.v (unchanged); the data effect
   of the event's action is [dstep] of the model, executed on the same base state.  What is compared:
     - ECall: the call's path (putRec / Write) is the one its request's kind says;
     - DMergeInfo: the message the leader received = the request the caller made (kind, size, sync);
     - DJournalArgs (mandatory before every EJournalOk / EJournalFail): the model's batches, their
       record count and byte size, the model's OR of the sync flags and the model's db.seq + 1 = the
       arguments the real writeJournal was called with;
     - EJournalOk / EPublish: the model's db.seq before / after;
     - DPutMem .. EApplied: the model's putMem loop (first writer, seq, Len per batch) = the calls made;
     - journal files: the records found, in order, are the model's journal log (seq and ordered
       contents), records of failed writes may be missing.
   Model files only (no proof file is imported). *)
From Coq Require Import List NArith Bool Arith.
From GL Require Import Conc.WriteMerge Conc.WriteMergeData Gen.InstC10 Corr.C10Run.
Import ListNotations.

Inductive devent :=
| DE (e : event)
| DMergeInfo (l i : nat) (k : wkind) (sz : N) (sy : bool)
| DJournalArgs (l : nat) (nb : nat) (cnt bytes q : N) (sy : bool)
| DPutMem (first : nat) (q n : N)
| DTxnSeq (q : N).

Record dast := {
  ax : astate;                      (* the acceptor of the base system *)
  ad : dstate;                      (* the data layer *)
  due : option (nat * nat);         (* a merge request was received: its DMergeInfo is still to come *)
  jargs : option nat;               (* DJournalArgs seen for this leader, its EJournalOk/Fail still to come *)
  puts : list (nat * N * N)         (* DPutMem events since the last EApplied *)
}.

Definition wkind_eqb (a b : wkind) : bool :=
  match a, b with KPut, KPut | KDelete, KDelete | KBatch, KBatch => true | _, _ => false end.

Definition onat_is (o : option nat) (l : nat) : bool := match o with Some x => Nat.eqb x l | None => false end.
Definition is_none {A} (o : option A) : bool := match o with None => true | Some _ => false end.

Definition trip_eqb (a b : nat * N * N) : bool :=
  Nat.eqb (fst (fst a)) (fst (fst b)) && (snd (fst a) =? snd (fst b))%N && (snd a =? snd b)%N.
Fixpoint trips_eqb (a b : list (nat * N * N)) : bool :=
  match a, b with
  | [], [] => true
  | x :: a', y :: b' => trip_eqb x y && trips_eqb a' b'
  | _, _ => false
  end.

Definition seg_eqb (a b : seg) : bool := Nat.eqb (fst a) (fst b) && (snd a =? snd b)%N.
Fixpoint segs_eqb (a b : list seg) : bool :=
  match a, b with
  | [], [] => true
  | x :: a', y :: b' => seg_eqb x y && segs_eqb a' b'
  | _, _ => false
  end.

(* the putMem calls of the loop: per batch (first writer of the batch, seq, Len) *)
Fixpoint put_calls (q : N) (bs : list dbatch) : list (nat * N * N) :=
  match bs with
  | [] => []
  | b :: r => (hd 0 (seg_ids b), q, seg_len b) :: put_calls (q + seg_len b)%N r
  end.

Section Feed.
Variable reqs : list wreq.

Definition dflt_req : wreq := {| rq_kind := KBatch; rq_nrec := 0; rq_sync := false |}.
Definition rq : reqtab := fun i => nth i reqs dflt_req.

Definition mkd (a : astate) (d : dstate) (du : option (nat * nat)) (j : option nat) (p : list (nat * N * N)) : dast :=
  {| ax := a; ad := d; due := du; jargs := j; puts := p |}.

(* checks made before the event is fed to the base acceptor *)
Definition pre_ok (y : dast) (e : event) : bool :=
  let d := ad y in
  match e with
  | ECall i _ put _ => Bool.eqb put (req_put (rq i))
  | EMergeRecv _ _ | EMergeTrue _ _ | EMergeOverflow _ _ => is_none (due y)
  | EJournalOk l q => onat_is (jargs y) l && (q =? dseq d + 1)%N
  | EJournalFail l _ => onat_is (jargs y) l
  | EApplied l => let g := getg d l in trips_eqb (puts y) (put_calls (gx_seq g) (gx_batches g))
  | EPublish l q => (q =? dseq d + batches_len (gx_batches (getg d l)))%N
  | _ => true
  end.

(* the data effect of the event's action *)
Definition dapply (s : state) (d : dstate) (e : event) : dstate :=
  match e with
  | EFlushOk l free => dstep wmp v_real rq s d (AFlushOk l free)
  | EMergeRecv l i => dstep wmp v_real rq s d (ASelMerge i l)
  | EJournalOk l _ => dstep wmp v_real rq s d (AJournalOk l)
  | EJournalFail l r => dstep wmp v_real rq s d (AJournalFail l r)
  | EApplied l => dstep wmp v_real rq s d (AApply l)
  | EPublish l _ => dstep wmp v_real rq s d (APublish l)
  | _ => d
  end.

Definition dfeed (y : dast) (e : devent) : option dast :=
  let s := st (ax y) in
  let d := ad y in
  match e with
  | DE e =>
      if pre_ok y e then
        match feed (ax y) e with
        | Some a' =>
            Some (mkd a' (dapply s d e)
                    (match e with EMergeRecv l i => Some (l, i) | _ => due y end)
                    (match e with EJournalOk _ _ | EJournalFail _ _ => None | _ => jargs y end)
                    (match e with EApplied _ => [] | _ => puts y end))
        | None => None
        end
      else None
  | DMergeInfo l i k sz sy =>
      match due y, getw s i with
      | Some (l', i'), Some w =>
          if Nat.eqb l l' && Nat.eqb i i' && wkind_eqb k (rq_kind (rq i)) && (sz =? wsize w)%N && Bool.eqb sy (rq_sync (rq i))
          then Some (mkd (ax y) d None (jargs y) (puts y)) else None
      | _, _ => None
      end
  | DJournalArgs l nb cnt bytes q sy =>
      match getw s l with
      | Some wl =>
          let g := getg d l in
          if (match pc wl with WLMerge _ | WLJournal _ => true | _ => false end)
             && is_none (jargs y) && is_none (due y)
             && Nat.eqb nb (length (gx_batches g)) && (cnt =? batches_len (gx_batches g))%N
             && (bytes =? wsize wl + sum_sizes (gx_merged g))%N && (q =? dseq d + 1)%N && Bool.eqb sy (gx_sync g)
          then Some (mkd (ax y) d (due y) (Some l) (puts y)) else None
      | None => None
      end
  | DPutMem first q n => Some (mkd (ax y) d (due y) (jargs y) (puts y ++ [(first, q, n)]))
  | DTxnSeq q =>
      (* db.setSeq(tr.seq) of a committing transaction: it owns the lock *)
      match runa (ax y) (match tflush s, topen s with S _, O => [ATxnFlushOk] | _, _ => [] end) with
      | Some a' =>
          match xstep wmp v_real rq {| xb := st a'; xd := d |} (XTxnSeq q) with
          | Some x' => Some (mkd a' (xd x') (due y) (jargs y) (puts y))
          | None => None
          end
      | None => None
      end
  end.

Fixpoint dfeed_all (y : dast) (l : list devent) : option dast :=
  match l with
  | [] => Some y
  | e :: l' => match dfeed y e with Some y' => dfeed_all y' l' | None => None end
  end.

Fixpoint dfirst_reject (y : dast) (i : N) (l : list devent) : option N :=
  match l with
  | [] => None
  | e :: l' => match dfeed y e with Some y' => dfirst_reject y' (i + 1)%N l' | None => Some i end
  end.

End Feed.

(* ---- journal files: the records read back, in order (files in creation order) ---- *)
Definition frec := (N * list seg)%type.

Definition rec_matches (f : frec) (r : drec) : bool := (fst f =? dr_seq r)%N && segs_eqb (snd f) (dr_segs r).

(* the records found are the model's journal log in order; the record of a failed write may be missing
   (and, when a storage fault was injected, any record may: [complete] = false) *)
Fixpoint files_ok (complete : bool) (jl : list drec) (files : list frec) : bool :=
  match jl with
  | [] => match files with [] => true | _ => false end
  | r :: jr =>
      let skip := negb (dr_ok r) || negb complete in
      match files with
      | f :: fr => if rec_matches f r then files_ok complete jr fr
                   else if skip then files_ok complete jr files else false
      | [] => if skip then files_ok complete jr [] else false
      end
  end.

(* compact constructors for the generated case files (argument scopes make the numerals nat / N) *)
Definition SG (i : nat) (n : N) : seg := (i, n).
Definition FR (q : N) (l : list seg) : frec := (q, l).
Definition RQ (k : wkind) (n : N) (s : bool) : wreq := {| rq_kind := k; rq_nrec := n; rq_sync := s |}.

Inductive c10dcase :=
| CDTrace (n : nat) (q0 : N) (reqs : list wreq) (evs : list devent) (files : list frec) (complete : bool).

Definition dinit (n : nat) (q0 : N) : dast :=
  mkd (mk (init n) 0 0 []) (xd (xinit n q0)) None None [].

Definition run_dcase (c : c10dcase) : bool :=
  match c with
  | CDTrace n q0 reqs evs files complete =>
      match dfeed_all reqs (dinit n q0) evs with
      | Some y =>
          quiescent (st (ax y)) && is_none (due y) && is_none (jargs y)
          && files_ok complete (djl (ad y)) files
      | None => false
      end
  end.

(* diagnostics: Some k = the k-th event (0-based) is the first one refused *)
Definition where_drejected (c : c10dcase) : option N :=
  match c with CDTrace n q0 reqs evs _ _ => dfirst_reject reqs (dinit n q0) 0%N evs end.

Definition dmismatches (l : list c10dcase) : list N := mism_from run_dcase 0%N l.
