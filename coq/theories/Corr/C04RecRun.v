(* Corr/C04RecRun.v — correspondence cases for the manifest record codec and the manifest replay (C04).
   KREnc: a record built by the real setters from generated field values and its bytes as the real encode wrote
          them (or the panic) — the model's encode must give the same bytes (or None); what the real decode reads
          back from them is a KRDec case;
   KRDec: arbitrary / truncated / bit-flipped / huge-length bytes through the real decode — the model must give
          the same outcome: the record, or the corruption error with the same field and reason and the same
          record state reached, (bare EOF and panic are outcomes too: they disagree with the repaired model);
   KRMan: the records of a manifest file (real ones taken from the checker's storage after DB workloads, or
          crafted), the comparer name and strictness, and what the real session.recover rebuilt (numbers, number
          of levels, tables per level sorted by number, compaction pointers) or why it failed — the model's
          session_recover must agree; for real manifests every record must also decode on its own.
   Depends on model files and Gen/ only. *)
From GL Require Import Base.Bytes Codec.SessionRecord Codec.SessionRecordSpec Gen.Consts Gen.InstRecord.
From Coq Require Import String ZArith.
Open Scope N_scope.

(* a record as the harness prints it: has, comparer, journal, prev journal, next file, seq,
   compaction pointers (level, key), added tables (level, num, size, imin, imax), deleted tables (level, num) *)
Definition R (has : N) (cmp : string) (j pj nf : Z) (q : N)
    (cps : list (Z * string)) (adds : list (Z * Z * Z * string * string)) (dels : list (Z * Z)) : srec :=
  mksr has (unhex cmp) j pj nf q
       (map (fun c => mkcp (fst c) (unhex (snd c))) cps)
       (map (fun a => match a with (l, n, s, imin, imax) => mkat l n s (unhex imin) (unhex imax) end) adds)
       (map (fun d => mkdt (fst d) (snd d)) dels).

Inductive dec_out :=
| OOk (r : srec)
| OErr (f : rfield) (why : rreason) (r : srec)
| OEOF (r : srec)
| OPanic.

Inductive man_out :=
| MOk (journal prevjournal nextfile : Z) (seq : N) (nlevels : N)
      (tables : list (Z * Z * Z * string * string)) (cptrs : list (option string))
| MFail (f : rfail)
| MPanic.

Inductive c04rcase :=
| KREnc (r : srec) (bytes_ : option string)
| KRDec (b : string) (out : dec_out)
| KRMan (strict : bool) (cmp : string) (recs : list string) (all_decode : bool) (out : man_out).

(* ---- equality tests ---- *)
Fixpoint leqb {A} (e : A -> A -> bool) (a b : list A) : bool :=
  match a, b with
  | [], [] => true
  | x :: a', y :: b' => e x y && leqb e a' b'
  | _, _ => false
  end.
Definition cp_eqb (a b : cprec) : bool := (cp_level a =? cp_level b)%Z && beq (cp_ikey a) (cp_ikey b).
Definition at_eqb (a b : atrec) : bool :=
  (at_level a =? at_level b)%Z && (at_num a =? at_num b)%Z && (at_size a =? at_size b)%Z &&
  beq (at_imin a) (at_imin b) && beq (at_imax a) (at_imax b).
Definition dt_eqb (a b : dtrec) : bool := (dt_level a =? dt_level b)%Z && (dt_num a =? dt_num b)%Z.
Definition srec_eqb (a b : srec) : bool :=
  (sr_has a =? sr_has b) && beq (sr_comparer a) (sr_comparer b) && (sr_journal a =? sr_journal b)%Z &&
  (sr_prevjournal a =? sr_prevjournal b)%Z && (sr_nextfile a =? sr_nextfile b)%Z && (sr_seq a =? sr_seq b) &&
  leqb cp_eqb (sr_cps a) (sr_cps b) && leqb at_eqb (sr_adds a) (sr_adds b) && leqb dt_eqb (sr_dels a) (sr_dels b).

Definition field_code (f : rfield) : N :=
  match f with
  | FHeader => 0 | FComparer => 1 | FJournalNum => 2 | FPrevJournalNum => 3 | FNextFileNum => 4 | FSeqNum => 5
  | FCpLevel => 6 | FCpIkey => 7 | FAddLevel => 8 | FAddNum => 9 | FAddSize => 10 | FAddImin => 11
  | FAddImax => 12 | FDelLevel => 13 | FDelNum => 14
  end.
Definition reason_code (r : rreason) : N :=
  match r with RShort => 0 | ROverflow => 1 | RNegative => 2 | RLevel => 3 end.
Definition rerr_eqb (a b : rerr) : bool :=
  match a, b with
  | ECorrupt f w, ECorrupt f' w' => (field_code f =? field_code f') && (reason_code w =? reason_code w')
  | EEOF, EEOF => true
  | _, _ => false
  end.
Definition rfail_eqb (a b : rfail) : bool :=
  match a, b with
  | RFDecode e, RFDecode e' => rerr_eqb e e'
  | RFNoComparer, RFNoComparer | RFComparerMismatch, RFComparerMismatch | RFNoNextFile, RFNoNextFile
  | RFNoJournal, RFNoJournal | RFNoSeq, RFNoSeq | RFPanic, RFPanic | RFFuel, RFFuel => true
  | _, _ => false
  end.

(* tables of a level by ascending file number (the model leaves the order inside a level open) *)
Fixpoint ins_by_num (t : atrec) (l : list atrec) : list atrec :=
  match l with
  | [] => [t]
  | x :: l' => if (at_num t <? at_num x)%Z then t :: l else x :: ins_by_num t l'
  end.
Definition sort_by_num (l : list atrec) : list atrec := fold_right ins_by_num [] l.

Definition opt_beq (a : option bytes) (b : option string) : bool :=
  match a, b with
  | None, None => true
  | Some x, Some y => beq x (unhex y)
  | _, _ => false
  end.

Fixpoint cptrs_eqb (a : list (option bytes)) (b : list (option string)) : bool :=
  match a, b with
  | [], [] => true
  | x :: a', y :: b' => opt_beq x y && cptrs_eqb a' b'
  | _, _ => false
  end.

Definition decodes (b : bytes) : bool := match decode rp sr_empty b with DOk _ => true | _ => false end.

Definition run_rcase (c : c04rcase) : bool :=
  match c with
  | KREnc r bytes_ =>
      match encode rp r, bytes_ with
      | None, None => true
      | Some b, Some s => beq b (unhex s)
      | _, _ => false
      end
  | KRDec b out =>
      match decode rp sr_empty (unhex b), out with
      | DOk r, OOk r' => srec_eqb r r'
      | DErr (ECorrupt f w) r, OErr f' w' r' =>
          (field_code f =? field_code f') && (reason_code w =? reason_code w') && srec_eqb r r'
      | DErr EEOF r, OEOF r' => srec_eqb r r'
      | DPanic, OPanic => true
      | _, _ => false
      end
  | KRMan strict cmp recs all_decode out =>
      let bs := map unhex recs in
      (if all_decode then forallb decodes bs else true) &&
      match session_recover rp strict (unhex cmp) bs, out with
      | RecOk st, MOk j pj nf q nl tables cptrs =>
          (ss_journal st =? j)%Z && (ss_prevjournal st =? pj)%Z && (ss_nextfile st =? nf)%Z && (ss_seq st =? q) &&
          (lenN (ss_levels st) =? nl) &&
          leqb at_eqb (flat_map sort_by_num (ss_levels st))
                      (map (fun a => match a with (l, n, s, imin, imax) => mkat l n s (unhex imin) (unhex imax) end) tables) &&
          cptrs_eqb (ss_cptrs st) cptrs
      | RecFail RFPanic, MPanic => true
      | RecFail f, MFail f' => rfail_eqb f f'
      | _, _ => false
      end
  end.

Fixpoint mism_from_r (i : N) (l : list c04rcase) : list N :=
  match l with
  | [] => []
  | x :: l' => if run_rcase x then mism_from_r (i + 1) l' else i :: mism_from_r (i + 1) l'
  end.
Definition mismatches_r (l : list c04rcase) : list N := mism_from_r 0 l.
