(* Base/Bytes.v — byte strings as lists of N, little-endian fixed-width integers,
   hex decoding of case literals.  Model file: definitions only, proofs in BytesProofs.v *)
From Coq Require Export List NArith Bool.
From Coq Require String Ascii.
Export ListNotations.
Open Scope N_scope.

Definition byte := N.
Definition bytes := list N.

Definition wf_byte (b : N) : Prop := b < 256.
Definition wf_bytes (l : bytes) : Prop := Forall wf_byte l.
Definition wf_bytesb (l : bytes) : bool := forallb (fun b => b <? 256) l.

(* decidable equality on byte strings *)
Fixpoint beq (a b : bytes) : bool :=
  match a, b with
  | [], [] => true
  | x :: a', y :: b' => (x =? y) && beq a' b'
  | _, _ => false
  end.

(* little-endian fixed width: n bytes of x (encoding.binary.LittleEndian.PutUintN) *)
Fixpoint le_encode (n : nat) (x : N) : bytes :=
  match n with
  | O => []
  | S n' => (x mod 256) :: le_encode n' (x / 256)
  end.

Fixpoint le_decode (l : bytes) : N :=
  match l with
  | [] => 0
  | b :: l' => b + 256 * le_decode l'
  end.

Definition le32 := le_encode 4.
Definition le64 := le_encode 8.

(* last n elements / all but last n elements *)
Definition lastn {A} (n : nat) (l : list A) : list A := skipn (length l - n) l.
Definition droplast {A} (n : nat) (l : list A) : list A := firstn (length l - n) l.

(* ---- hex literals used by the correspondence case files ---- *)
Definition hexval (c : Ascii.ascii) : N :=
  let n := Ascii.N_of_ascii c in
  if (48 <=? n) && (n <=? 57) then n - 48
  else if (97 <=? n) && (n <=? 102) then n - 87
  else if (65 <=? n) && (n <=? 70) then n - 55
  else 0.

Fixpoint unhex (s : String.string) : bytes :=
  match s with
  | String.String a (String.String b s') => (16 * hexval a + hexval b) :: unhex s'
  | _ => []
  end.

(* comparison results as the harness prints them: Lt=0, Eq=1, Gt=2 *)
Definition cmp_code (c : comparison) : N :=
  match c with Lt => 0 | Eq => 1 | Gt => 2 end.
