(* Base/Varint.v — unsigned varints as encoding/binary implements them (PutUvarint / Uvarint,
   Go 1.23: 10-byte limit, overflow reported as a negative count), plus the N-indexed slicing
   helpers used by the block and table models.  Model file: definitions only, proofs in
   VarintProofs.v. *)
From GL Require Export Base.Bytes.

(* ---- slices with N offsets: data[lo:], data[:n], data[lo:hi] ---- *)
Definition lenN {A} (l : list A) : N := N.of_nat (length l).
Definition dropN {A} (n : N) (l : list A) : list A := skipn (N.to_nat n) l.
Definition takeN {A} (n : N) (l : list A) : list A := firstn (N.to_nat n) l.
Definition sliceN {A} (lo hi : N) (l : list A) : list A := takeN (hi - lo) (dropN lo l).

(* ---- PutUvarint(buf, x):  for x >= 0x80 { buf[i] = byte(x) | 0x80; x >>= 7; i++ }; buf[i] = byte(x)
   [fuel] = number of continuation bytes still allowed; a uint64 needs at most 9 of them, so
   [put_uvarint] is the Go loop for every x < 2^64 (VarintProofs.put_uvarint_f_enough). *)
Fixpoint put_uvarint_f (fuel : nat) (x : N) : bytes :=
  match fuel with
  | O => [x mod 256]
  | S f => if 128 <=? x then N.lor (x mod 256) 128 :: put_uvarint_f f (N.shiftr x 7)
           else [x mod 256]
  end.
Definition put_uvarint (x : N) : bytes := put_uvarint_f 9 x.

(* ---- Uvarint(buf) (value, n):  n > 0 bytes read;  n = 0 buffer too small;  n < 0 overflow,
   -n bytes read.  [i] = index of the byte looked at, [x] accumulated value, [s] shift. *)
Inductive uv_res :=
| UvOk (v n : N)      (* value, n > 0 *)
| UvShort             (* (0, 0)  *)
| UvOver (m : N).     (* (0, -m) *)

Fixpoint uvarint_f (buf : bytes) (i x s : N) : uv_res :=
  match buf with
  | [] => UvShort
  | b :: rest =>
      if i =? 10 then UvOver (i + 1)
      else if b <? 128 then
        (if (i =? 9) && (1 <? b) then UvOver (i + 1)
         else UvOk (N.lor x (N.shiftl b s)) (i + 1))
      else uvarint_f rest (i + 1) (N.lor x (N.shiftl (N.land b 127) s)) (s + 7)
  end.
Definition uvarint (buf : bytes) : uv_res := uvarint_f buf 0 0 0.
