From GL Require Import Base.Bytes.
From Coq Require Import ZArith Lia ZifyN ZifyNat ZifyBool.
Ltac Zify.zify_post_hook ::= Z.div_mod_to_equations.

Lemma beq_eq a b : beq a b = true <-> a = b.
Proof.
  revert b; induction a as [|x a IH]; intros [|y b]; cbn [beq]; split; try congruence; try reflexivity.
  - intros H. apply andb_prop in H as [H1 H2]. apply N.eqb_eq in H1. apply IH in H2. congruence.
  - intros H. injection H as -> ->. rewrite N.eqb_refl. cbn. apply IH. reflexivity.
Qed.

Lemma le_encode_length n x : length (le_encode n x) = n.
Proof. revert x; induction n as [|n IH]; intros x; cbn [le_encode length]; [reflexivity|]. now rewrite IH. Qed.

Lemma le_decode_encode n x : le_decode (le_encode n x) = x mod 256 ^ N.of_nat n.
Proof.
  revert x; induction n as [|n IH]; intros x.
  - cbn [le_encode le_decode]. change (N.of_nat 0) with 0. rewrite N.pow_0_r, N.mod_1_r. reflexivity.
  - cbn [le_encode le_decode]. rewrite IH.
    replace (N.of_nat (S n)) with (N.succ (N.of_nat n)) by lia.
    rewrite N.pow_succ_r'.
    rewrite (N.mod_mul_r x 256 (256 ^ N.of_nat n)); [reflexivity | lia | apply N.pow_nonzero; lia].
Qed.

Lemma le64_roundtrip x : x < 2 ^ 64 -> le_decode (le64 x) = x.
Proof.
  intros H. unfold le64. rewrite le_decode_encode.
  change (256 ^ N.of_nat 8) with (2 ^ 64). apply N.mod_small. exact H.
Qed.

Lemma le_encode_wf n x : wf_bytes (le_encode n x).
Proof.
  revert x; induction n as [|n IH]; intros x; cbn [le_encode]; constructor.
  - unfold wf_byte. apply N.mod_lt. lia.
  - apply IH.
Qed.

Lemma le_decode_bound l : wf_bytes l -> le_decode l < 256 ^ N.of_nat (length l).
Proof.
  induction l as [|b l IH]; intros H; cbn [le_decode length].
  - change (N.of_nat 0) with 0. rewrite N.pow_0_r. lia.
  - inversion H as [|? ? Hb Hl]; subst. specialize (IH Hl). unfold wf_byte in Hb.
    replace (N.of_nat (S (length l))) with (N.succ (N.of_nat (length l))) by lia.
    rewrite N.pow_succ_r'. nia.
Qed.

Lemma le_encode_decode l : wf_bytes l -> le_encode (length l) (le_decode l) = l.
Proof.
  induction l as [|b l IH]; intros H; cbn [le_decode length le_encode]; [reflexivity|].
  inversion H as [|? ? Hb Hl]; subst. unfold wf_byte in Hb.
  f_equal.
  - rewrite N.mul_comm, N.mod_add by lia. apply N.mod_small; exact Hb.
  - rewrite N.mul_comm, N.div_add by lia. rewrite N.div_small by exact Hb. cbn. apply IH; exact Hl.
Qed.

Lemma lastn_app {A} n (a b : list A) : length b = n -> lastn n (a ++ b) = b.
Proof.
  intros H. unfold lastn. rewrite app_length, H.
  replace (length a + n - n)%nat with (length a) by lia.
  rewrite skipn_app, skipn_all, Nat.sub_diag. reflexivity.
Qed.

Lemma droplast_app {A} n (a b : list A) : length b = n -> droplast n (a ++ b) = a.
Proof.
  intros H. unfold droplast. rewrite app_length, H.
  replace (length a + n - n)%nat with (length a) by lia.
  rewrite firstn_app, firstn_all, Nat.sub_diag. cbn. apply app_nil_r.
Qed.

Lemma droplast_lastn {A} n (l : list A) : droplast n l ++ lastn n l = l.
Proof. unfold droplast, lastn. apply firstn_skipn. Qed.

Lemma lastn_length {A} n (l : list A) : (n <= length l)%nat -> length (lastn n l) = n.
Proof. intros H. unfold lastn. rewrite skipn_length. lia. Qed.
