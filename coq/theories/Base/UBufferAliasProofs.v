(* Base/UBufferAliasProofs.v — proofs about the model of util.Buffer, part 2: which cells a call may store to,
   hence how long a slice returned by Bytes / Next / Alloc keeps its meaning; Alloc on an append-only buffer
   hands out zero bytes. *)
From GL Require Import Base.Bytes Base.BytesProofs Base.NIdx Base.NIdxProofs Base.UBuffer Base.UBufferProofs.
From Coq Require Import Lia Arith PeanoNat ZArith.

Local Arguments N.mul : simpl never.
Local Arguments N.add : simpl never.
Local Arguments N.sub : simpl never.
Local Arguments N.div : simpl never.
Local Arguments N.min : simpl never.
Local Arguments zeros : simpl never.

Section Alias.
  Variable mx : N.

  (* ---- G1: the calls that are not growing calls store nowhere *)
  Lemma read_op_frame s o s' r :
    write_op o = false -> u_step mx s o = (s', r) -> u_old s' = u_old s /\ u_arr s' = u_arr s.
  Proof.
    destruct o; cbn [write_op u_step]; try discriminate; intros _.
    - intros [= <- _]; auto.
    - intros [= <- _]; auto.
    - intros [= <- _]; auto.
    - destruct (n =? 0)%Z; [intros [= <- _]; auto|].
      destruct ((n <? 0)%Z || _); intros [= <- _]; auto.
    - intros [= <- _]; auto.
    - destruct (u_off s <? u_len s); [|intros [= <- _]; auto].
      destruct (u_len s - u_off s <? m); [intros [= <- _]; auto|].
      destruct e; [destruct (m =? _)|..]; intros [= <- _]; auto.
    - destruct (u_len s <=? u_off s); intros [= <- _]; auto.
    - destruct (_ <? 0)%Z; intros [= <- _]; auto.
    - destruct (u_len s <=? u_off s); intros [= <- _]; auto.
    - destruct (index_byte _ _); intros [= <- _]; auto.
    - intros [= <- _]; auto.
  Qed.

  Lemma run_reads_frame : forall ops s s' rs,
    Forall (fun o => write_op o = false) ops -> u_run mx s ops = (s', rs) ->
    u_old s' = u_old s /\ u_arr s' = u_arr s.
  Proof.
    induction ops as [|o ops IH]; intros s s' rs HF; cbn [u_run].
    - intros [= <- _]. auto.
    - inversion HF as [|? ? Ho Hops]; subst.
      destruct (u_step mx s o) as [s1 r] eqn:Hs.
      destruct (read_op_frame s o s1 r Ho Hs) as (E1 & E2).
      destruct (is_stop r).
      + intros [= <- _]. auto.
      + destruct (u_run mx s1 ops) as [s2 rs'] eqn:Hr. intros [= <- _].
        destruct (IH s1 s2 rs' Hops Hr) as (F1 & F2). split; congruence.
  Qed.

  (* ---- G2: abandoned arrays are never stored to again by the buffer *)
  Lemma grow_old s n :
    match u_grow mx s n with
    | GOk s' _ | GPanic s' _ => exists l, u_old s' = u_old s ++ l
    end.
  Proof.
    unfold u_grow.
    set (s1 := if (u_len s - u_off s =? 0) && negb (u_off s =? 0) then u_reset s else s).
    assert (H1 : u_old s1 = u_old s) by (subst s1; destruct (_ && _); reflexivity).
    unfold try_reslice. destruct (n <=? u_cap s1 - u_len s1); [exists []; cbn; now rewrite app_nil_r|].
    destruct (u_nil s1 && (n <=? smallBufferSize)); [exists []; cbn; now rewrite app_nil_r|].
    destruct (_ <=? _)%Z; [exists []; cbn; now rewrite app_nil_r|].
    destruct (_ <? _)%Z; [exists []; now rewrite app_nil_r|].
    destruct (mx <? _); [exists []; now rewrite app_nil_r|].
    cbn [u_old]. rewrite H1. destruct (u_nil s1); [exists []; now rewrite app_nil_r|eexists; reflexivity].
  Qed.

  Lemma extend_old s n :
    match u_extend mx s n with
    | GOk s' _ | GPanic s' _ => exists l, u_old s' = u_old s ++ l
    end.
  Proof.
    unfold u_extend, try_reslice. destruct (n <=? u_cap s - u_len s); [exists []; cbn; now rewrite app_nil_r|].
    apply grow_old.
  Qed.

  Lemma readfrom_old tl : forall sc fuel s n s' r,
    u_readfrom mx fuel s sc tl n = (s', r) -> exists l, u_old s' = u_old s ++ l.
  Proof.
    induction sc as [|x sc IH]; intros fuel s n s' r; (destruct fuel as [|f]; cbn [u_readfrom];
      [intros [= <- _]; exists []; now rewrite app_nil_r|]).
    - pose proof (grow_old s MinRead) as G. destruct (u_grow mx s MinRead) as [s1 i|s1 p].
      + destruct tl; intros [= <- _]; exact G.
      + intros [= <- _]; exact G.
    - pose proof (grow_old s MinRead) as G. destruct (u_grow mx s MinRead) as [s1 i|s1 p].
      + destruct G as (l & Hl). destruct x as [d e|].
        * destruct (_ <? lenN d); [intros [= <- _]; exists l; exact Hl|].
          destruct e; try (intros [= <- _]; exists l; exact Hl).
          intros Hrun. apply IH in Hrun. destruct Hrun as (l2 & Hl2). cbn [u_old set_len set_arr] in Hl2.
          exists (l ++ l2). rewrite Hl2, Hl. now rewrite app_assoc.
        * intros [= <- _]. exists l; exact Hl.
      + intros [= <- _]; exact G.
  Qed.

  Lemma step_old s o s' r :
    (match o with OVWrite _ _ _ => False | _ => True end) ->
    u_step mx s o = (s', r) -> exists l, u_old s' = u_old s ++ l.
  Proof.
    intros Ho. destruct (write_op o) eqn:Hw.
    - destruct o; cbn [write_op] in Hw; try discriminate; try contradiction; cbn [u_step].
      + destruct (n <? 0)%Z; [intros [= <- _]; exists []; now rewrite app_nil_r|].
        pose proof (extend_old s (Z.to_N n)) as G. destruct (u_extend mx s (Z.to_N n)); intros [= <- _]; exact G.
      + destruct (n <? 0)%Z; [intros [= <- _]; exists []; now rewrite app_nil_r|].
        pose proof (grow_old s (Z.to_N n)) as G. destruct (u_grow mx s (Z.to_N n)); intros [= <- _]; exact G.
      + pose proof (extend_old s (lenN p)) as G. destruct (u_extend mx s (lenN p)); intros [= <- _]; exact G.
      + pose proof (extend_old s 1) as G. destruct (u_extend mx s 1); intros [= <- _]; exact G.
      + apply readfrom_old.
    - intros Hs. destruct (read_op_frame s o s' r Hw Hs) as (E & _). exists []. now rewrite app_nil_r.
  Qed.

  Lemma old_array_frozen s o s' r a :
    (match o with OVWrite _ _ _ => False | _ => True end) ->
    u_step mx s o = (s', r) -> (a < u_aid s)%nat -> u_array s' a = u_array s a.
  Proof.
    intros Ho Hs Ha. destruct (step_old s o s' r Ho Hs) as (l & Hl).
    unfold u_array, u_aid in *. rewrite Hl. rewrite <- app_assoc.
    rewrite !app_nth1 by assumption. reflexivity.
  Qed.

  (* ---- G2, the current array: on the reslice path only cells at or above len(b.buf) are stored to *)
  Lemma fast_path_keeps_prefix s o s' r :
    u_wf s ->
    (match o with OAlloc n => (0 <= n)%Z | OWrite _ | OWriteByte _ => True | _ => False end) ->
    op_need o <= u_cap s - u_len s ->
    u_step mx s o = (s', r) ->
    u_old s' = u_old s /\ u_off s' = u_off s /\ lenN (u_arr s') = lenN (u_arr s)
    /\ forall a b, b <= u_len s -> slice (u_arr s') a b = slice (u_arr s) a b.
  Proof.
    intros (W1 & W2 & W3 & W4) Ho Hn.
    assert (Hfast : forall n, n <= u_cap s - u_len s ->
              u_extend mx s n = GOk (UB (u_old s) (u_arr s) (u_nil s) (u_len s + n) (u_off s)) (u_len s)).
    { intros n Hle. unfold u_extend, try_reslice. destruct (N.leb_spec n (u_cap s - u_len s)); [reflexivity|lia]. }
    destruct o; try contradiction; cbn [u_step op_need] in *.
    - destruct (Z.ltb_spec n 0); [lia|]. rewrite Hfast by assumption. intros [= <- _]. cbn. auto.
    - rewrite Hfast by assumption. intros [= <- _]. cbn [set_arr u_old u_off u_arr u_len u_nil].
      rewrite lenN_splice by (unfold u_cap in *; lia). repeat split; auto.
      intros a b Hb. apply slice_splice_below; [lia|unfold u_cap in *; lia].
    - rewrite Hfast by assumption. intros [= <- _]. cbn [set_arr u_old u_off u_arr u_len u_nil].
      assert (Hl1 : lenN [c] = 1) by reflexivity.
      rewrite lenN_splice by (unfold u_cap in *; lia). repeat split; auto.
      intros a b Hb. apply slice_splice_below; [lia|unfold u_cap in *; lia].
  Qed.

  (* ---- G3: what a returned slice is *)
  Lemma array_current s : u_array s (u_aid s) = u_arr s.
  Proof. unfold u_array, u_aid. rewrite app_nth2 by lia. now rewrite Nat.sub_diag. Qed.

  Lemma returned_view_reads_back s o s' v d :
    u_step mx s o = (s', RView v d) -> view_read s' v = d.
  Proof.
    destruct o; cbn [u_step]; try discriminate.
    - intros [= <- <- <-]. cbn [view_read]. rewrite array_current. unfold u_contents.
      destruct (N.le_ge_cases (u_off s) (u_len s)); [f_equal; lia|].
      rewrite !slice_empty by lia. reflexivity.
    - destruct (n =? 0)%Z; [discriminate|]. destruct ((n <? 0)%Z || _); discriminate.
    - destruct (n <? 0)%Z; [discriminate|]. destruct (u_extend mx s (Z.to_N n)) as [s1 m|s1 p]; [|discriminate].
      intros [= <- <- <-]. cbn [view_read]. rewrite array_current.
      destruct (N.le_ge_cases m (u_len s1)); [f_equal; lia|].
      rewrite !slice_empty by lia. reflexivity.
    - destruct (n <? 0)%Z; [discriminate|]. destruct (u_grow mx s (Z.to_N n)); discriminate.
    - destruct (u_extend mx s (lenN p)); discriminate.
    - destruct (u_extend mx s 1); discriminate.
    - intros H. exfalso. revert H. generalize (S (length sc)) 0. revert s.
      induction sc as [|x sc IH]; intros s f n; (destruct f; cbn [u_readfrom]; [discriminate|]).
      + destruct (u_grow mx s MinRead); [destruct tl|]; discriminate.
      + destruct (u_grow mx s MinRead); [|discriminate]. destruct x as [dd e|]; [|discriminate].
        destruct (_ <? lenN dd); [discriminate|]. destruct e; try discriminate. apply IH.
    - destruct (u_off s <? u_len s); [|discriminate].
      destruct (u_len s - u_off s <? m); [discriminate|]. destruct e; [destruct (m =? _)|..]; discriminate.
    - destruct (u_len s <=? u_off s); discriminate.
    - destruct (_ <? 0)%Z; [discriminate|]. intros [= <- <- <-]. cbn [view_read].
      match goal with |- slice (u_array ?t _) _ _ = _ => rewrite (array_current t : u_array t (u_aid s) = u_arr s) end.
      reflexivity.
    - destruct (u_len s <=? u_off s); discriminate.
    - destruct (index_byte _ _); discriminate.
    - destruct v0 as [[a lo] k]. destruct (k <? pos); [discriminate|]. destruct (Nat.eqb a (u_aid s)); discriminate.
  Qed.

  (* the slice Bytes returns is the contents *)
  Lemma bytes_view_is_contents s s' v d :
    u_step mx s OBytes = (s', RView v d) -> s' = s /\ d = u_contents s /\ view_read s v = u_contents s.
  Proof.
    intros H. pose proof (returned_view_reads_back _ _ _ _ _ H) as Hv. cbn [u_step] in H.
    injection H as <- <- <-. auto.
  Qed.

  (* storing through the slice Alloc returned, before any other call on the buffer, stores the last n bytes
     of the contents: Alloc(n) followed by the caller's own fill is Write *)
  Lemma alloc_then_fill s n s1 v d x s2 r2 :
    u_wf s -> u_step mx s (OAlloc n) = (s1, RView v d) -> lenN x = Z.to_N n ->
    u_step mx s1 (OVWrite v 0 x) = (s2, r2) ->
    u_wf s2 /\ u_contents s2 = u_contents s ++ x /\ r2 = RNum (lenN x).
  Proof.
    intros Hwf. cbn [u_step]. destruct (Z.ltb_spec n 0) as [Hn|Hn]; [discriminate|].
    destruct (u_extend mx s (Z.to_N n)) as [s1' m|s1' p] eqn:He; [|discriminate].
    apply extend_ok in He; auto. destruct He as (G1 & G2 & G3 & G4 & G5 & G6).
    intros [= <- <- <-] Hx.
    destruct (N.ltb_spec (u_len s1' - m) 0) as [Hc|Hc]; [lia|].
    rewrite Nat.eqb_refl. rewrite N.sub_0_r, N.add_0_r.
    assert (Hd : takeN x (u_len s1' - m) = x) by (apply takeN_all; lia).
    rewrite Hd. intros [= <- <-]. destruct G1 as (A1 & A2 & A3 & A4).
    split; [|split; [|reflexivity]].
    - unfold u_wf, set_arr, u_cap in *. cbn [u_old u_arr u_nil u_len u_off].
      rewrite lenN_splice by lia. repeat split; try lia.
      intros Hnil. rewrite (A4 Hnil) in *. cbn in A2. assert (lenN x = 0) by lia.
      rewrite (lenN_0 x) by assumption. reflexivity.
    - rewrite <- G5. unfold u_contents, set_arr. cbn [u_old u_arr u_nil u_len u_off].
      rewrite G3, <- Hx. apply slice_splice_end; unfold u_cap in *; lia.
  Qed.

  (* ---- Alloc on a buffer that was only appended to hands out zero bytes *)
  Lemma all_zero_app a b : all_zero a -> all_zero b -> all_zero (a ++ b).
  Proof. unfold all_zero. intros. apply Forall_app; auto. Qed.

  Lemma all_zero_dropN l i : all_zero l -> all_zero (dropN l i).
  Proof.
    unfold all_zero. rewrite dropN_skipn. intros H. rewrite <- (firstn_skipn (N.to_nat i) l) in H.
    apply Forall_app in H. apply H.
  Qed.

  Lemma all_zero_takeN l i : all_zero l -> all_zero (takeN l i).
  Proof.
    unfold all_zero. rewrite takeN_firstn. intros H. rewrite <- (firstn_skipn (N.to_nat i) l) in H.
    apply Forall_app in H. apply H.
  Qed.

  Lemma all_zero_zeros_pos p : all_zero (zeros_pos p).
  Proof.
    induction p as [p IH|p IH|]; cbn [zeros_pos].
    - constructor; [reflexivity|]. apply all_zero_app; exact IH.
    - apply all_zero_app; exact IH.
    - constructor; [reflexivity|constructor].
  Qed.

  Lemma all_zero_zeros n : all_zero (zeros n).
  Proof. destruct n; [constructor|apply all_zero_zeros_pos]. Qed.

  Lemma dropN_splice_above arr pos d i :
    pos + lenN d <= i -> pos + lenN d <= lenN arr -> dropN (splice arr pos d) i = dropN arr i.
  Proof.
    intros H Hl. unfold splice.
    destruct (cut3 arr pos (pos + lenN d)) as (X & Y & Z & -> & HX & HY); [lia|lia|].
    rewrite (takeN_app_le X) by lia. rewrite (takeN_all X) by lia.
    rewrite (dropN_app_ge X (Y ++ Z) (pos + lenN d)) by lia. rewrite (dropN_app_ge Y Z) by lia.
    rewrite (dropN_zero Z) by lia.
    rewrite !(dropN_app_ge X) by lia. rewrite (dropN_app_ge d) by lia. rewrite (dropN_app_ge Y) by lia.
    f_equal. lia.
  Qed.

  (* after the growth step of an append-only buffer, every cell from the returned index on is zero *)
  Lemma extend_zero s n s' i :
    u_wf s -> u_off s = 0 -> tail_zero s -> u_extend mx s n = GOk s' i ->
    u_off s' = 0 /\ all_zero (dropN (u_arr s') i).
  Proof.
    intros (W1 & W2 & W3 & W4) Hoff Hz. unfold u_extend, try_reslice.
    destruct (N.leb_spec n (u_cap s - u_len s)) as [Hf|Hf].
    { intros [= <- <-]. cbn [u_off u_arr]. auto. }
    unfold u_grow. rewrite Hoff. replace (negb (0 =? 0)) with false by reflexivity. rewrite andb_false_r.
    unfold try_reslice. destruct (N.leb_spec n (u_cap s - u_len s)) as [Hf'|_]; [lia|].
    destruct (u_nil s && (n <=? smallBufferSize)).
    { intros [= <- <-]. cbn [u_off u_arr]. split; [reflexivity|]. apply all_zero_dropN, all_zero_zeros. }
    rewrite N.sub_0_r.
    assert (Hc2 : u_cap s / 2 <= u_cap s) by (apply N.div_le_upper_bound; lia).
    destruct (Z.leb_spec (Z.of_N n) (Z.of_N (u_cap s / 2) - Z.of_N (u_len s))) as [Hs|Hs]; [lia|].
    destruct (_ <? _)%Z; [discriminate|]. destruct (mx <? _); [discriminate|].
    intros [= <- <-]. cbn [u_off u_arr]. split; [reflexivity|].
    assert (Hl : lenN (slice (u_arr s) 0 (u_len s)) = u_len s) by (rewrite lenN_slice by (unfold u_cap in *; lia); lia).
    rewrite Hoff. rewrite dropN_splice_above by (rewrite Hl, ?zeros_length; unfold u_cap in *; lia).
    apply all_zero_dropN, all_zero_zeros.
  Qed.

  Definition app_inv (s : ubuf) : Prop := u_wf s /\ u_off s = 0 /\ tail_zero s.

  Lemma append_step_inv s o s' r :
    app_inv s -> append_op o = true -> u_step mx s o = (s', r) ->
    app_inv s' /\ (forall n v d, o = OAlloc n -> r = RView v d -> all_zero d).
  Proof.
    intros (Hwf & Hoff & Hz) Ho Hs.
    assert (Hq : queue_op o) by (destruct o; cbn in *; auto; discriminate).
    destruct (step_spec mx s o s' r Hwf Hq Hs) as (Hwf' & _).
    destruct o; cbn [append_op] in Ho; try discriminate; cbn [u_step] in Hs.
    - injection Hs as <- <-. split; [exact (conj Hwf (conj Hoff Hz))|]. intros ? ? ? E1 E2; discriminate E1.
    - injection Hs as <- <-. split; [exact (conj Hwf (conj Hoff Hz))|]. intros ? ? ? E1 E2; discriminate E1.
    - injection Hs as <- <-. split; [exact (conj Hwf (conj Hoff Hz))|]. intros ? ? ? E1 E2; discriminate E1.
    - destruct (n <? 0)%Z; [injection Hs as <- <-; split; [exact (conj Hwf (conj Hoff Hz))|intros ? ? ? E1 E2; discriminate E2]|].
      destruct (u_extend mx s (Z.to_N n)) as [s1 m|s1 p] eqn:He.
      + pose proof (extend_ok mx s _ _ _ Hwf He) as (G1 & G2 & G3 & G4 & G5 & G6).
        destruct (extend_zero s _ _ _ Hwf Hoff Hz He) as (Z1 & Z2).
        injection Hs as <- <-. split.
        * split; [exact Hwf'|]. split; [exact Z1|]. unfold tail_zero. rewrite G3, <- dropN_dropN.
          apply all_zero_dropN. exact Z2.
        * intros n0 v d _ [= <- <-]. unfold slice. rewrite G3. replace (m + Z.to_N n - m) with (Z.to_N n) by lia.
          apply all_zero_takeN. exact Z2.
      + unfold u_extend in He. destruct (try_reslice s (Z.to_N n)) as [[? ?]|]; [discriminate|].
        unfold u_grow in He. rewrite Hoff in He. replace (negb (0 =? 0)) with false in He by reflexivity.
        rewrite andb_false_r in He. destruct (try_reslice s (Z.to_N n)) as [[? ?]|]; [discriminate|].
        destruct (u_nil s && _); [discriminate|]. destruct (_ <=? _)%Z; [discriminate|].
        assert (s1 = s) by (destruct (_ <? _)%Z; [congruence|]; destruct (mx <? _); congruence). subst s1.
        injection Hs as <- <-. split; [exact (conj Hwf (conj Hoff Hz))|intros ? ? ? E1 E2; (discriminate E1 || discriminate E2)].
    - destruct (n <? 0)%Z; [injection Hs as <- <-; split; [exact (conj Hwf (conj Hoff Hz))|intros ? ? ? E1 E2; discriminate E2]|].
      destruct (u_grow mx s (Z.to_N n)) as [s1 m|s1 p] eqn:He.
      + assert (He' : u_extend mx s (Z.to_N n) = GOk s1 m \/ True) by auto.
        pose proof (grow_ok mx s _ _ _ Hwf He) as (G1 & G2 & G3 & G4 & G5 & G6).
        assert (Z12 : u_off s1 = 0 /\ all_zero (dropN (u_arr s1) m)).
        { unfold u_extend in *. destruct (try_reslice s (Z.to_N n)) as [[s2 j]|] eqn:Hr.
          - unfold u_grow in He. rewrite Hoff in He. replace (negb (0 =? 0)) with false in He by reflexivity.
            rewrite andb_false_r in He. rewrite Hr in He. injection He as <- <-.
            apply (extend_zero s (Z.to_N n)); auto. unfold u_extend. now rewrite Hr.
          - apply (extend_zero s (Z.to_N n)); auto. unfold u_extend. now rewrite Hr. }
        destruct Z12 as (Z1 & Z2). injection Hs as <- <-. split; [|intros ? ? ? E1 E2; (discriminate E1 || discriminate E2)].
        split; [exact Hwf'|]. split; [exact Z1|]. exact Z2.
      + unfold u_grow in He. rewrite Hoff in He. replace (negb (0 =? 0)) with false in He by reflexivity.
        rewrite andb_false_r in He. destruct (try_reslice s (Z.to_N n)) as [[? ?]|]; [discriminate|].
        destruct (u_nil s && _); [discriminate|]. destruct (_ <=? _)%Z; [discriminate|].
        assert (s1 = s) by (destruct (_ <? _)%Z; [congruence|]; destruct (mx <? _); congruence). subst s1.
        injection Hs as <- <-. split; [exact (conj Hwf (conj Hoff Hz))|intros ? ? ? E1 E2; (discriminate E1 || discriminate E2)].
    - destruct (u_extend mx s (lenN p)) as [s1 m|s1 q] eqn:He.
      + pose proof (extend_ok mx s _ _ _ Hwf He) as (G1 & G2 & G3 & G4 & G5 & G6).
        destruct (extend_zero s _ _ _ Hwf Hoff Hz He) as (Z1 & Z2).
        injection Hs as <- <-. split; [|intros ? ? ? E1 E2; (discriminate E1 || discriminate E2)].
        split; [exact Hwf'|]. split; [exact Z1|]. unfold tail_zero, set_arr. cbn [u_arr u_len].
        destruct G1 as (A1 & A2 & A3 & A4).
        rewrite dropN_splice_above by (unfold u_cap in *; lia). rewrite G3, <- dropN_dropN.
        apply all_zero_dropN. exact Z2.
      + unfold u_extend in He. destruct (try_reslice s (lenN p)) as [[? ?]|]; [discriminate|].
        unfold u_grow in He. rewrite Hoff in He. replace (negb (0 =? 0)) with false in He by reflexivity.
        rewrite andb_false_r in He. destruct (try_reslice s (lenN p)) as [[? ?]|]; [discriminate|].
        destruct (u_nil s && _); [discriminate|]. destruct (_ <=? _)%Z; [discriminate|].
        assert (s1 = s) by (destruct (_ <? _)%Z; [congruence|]; destruct (mx <? _); congruence). subst s1.
        injection Hs as <- <-. split; [exact (conj Hwf (conj Hoff Hz))|intros ? ? ? E1 E2; (discriminate E1 || discriminate E2)].
    - destruct (u_extend mx s 1) as [s1 m|s1 q] eqn:He.
      + pose proof (extend_ok mx s _ _ _ Hwf He) as (G1 & G2 & G3 & G4 & G5 & G6).
        destruct (extend_zero s _ _ _ Hwf Hoff Hz He) as (Z1 & Z2).
        injection Hs as <- <-. split; [|intros ? ? ? E1 E2; (discriminate E1 || discriminate E2)].
        split; [exact Hwf'|]. split; [exact Z1|]. unfold tail_zero, set_arr. cbn [u_arr u_len].
        destruct G1 as (A1 & A2 & A3 & A4). assert (Hl1 : lenN [c] = 1) by reflexivity.
        rewrite dropN_splice_above by (unfold u_cap in *; lia). rewrite G3, <- dropN_dropN.
        apply all_zero_dropN. exact Z2.
      + unfold u_extend in He. destruct (try_reslice s 1) as [[? ?]|]; [discriminate|].
        unfold u_grow in He. rewrite Hoff in He. replace (negb (0 =? 0)) with false in He by reflexivity.
        rewrite andb_false_r in He. destruct (try_reslice s 1) as [[? ?]|]; [discriminate|].
        destruct (u_nil s && _); [discriminate|]. destruct (_ <=? _)%Z; [discriminate|].
        assert (s1 = s) by (destruct (_ <? _)%Z; [congruence|]; destruct (mx <? _); congruence). subst s1.
        injection Hs as <- <-. split; [exact (conj Hwf (conj Hoff Hz))|intros ? ? ? E1 E2; (discriminate E1 || discriminate E2)].
  Qed.
End Alias.

Section AppendRun.
  Variable mx : N.

  (* every slice Alloc returned in a run of appending calls on an append-only buffer is all zero *)
  Lemma append_run_alloc_zero : forall ops s s' rs,
    app_inv s -> Forall (fun o => append_op o = true) ops -> u_run mx s ops = (s', rs) ->
    app_inv s' /\ forall n v d, In (OAlloc n, RView v d) (combine ops rs) -> all_zero d.
  Proof.
    induction ops as [|o ops IH]; intros s s' rs Hinv HF; cbn [u_run].
    - intros [= <- <-]. split; [exact Hinv|]. intros ? ? ? [].
    - inversion HF as [|? ? Ho Hops]; subst.
      destruct (u_step mx s o) as [s1 r] eqn:Hs.
      destruct (append_step_inv mx s o s1 r Hinv Ho Hs) as (I1 & Z1).
      destruct (is_stop r) eqn:Hstop.
      + intros [= <- <-]. split; [exact I1|]. intros n v d [E|Hin]; [injection E as -> ->; discriminate Hstop|destruct ops; destruct Hin].
      + destruct (u_run mx s1 ops) as [s2 rs'] eqn:Hr. intros [= <- <-].
        destruct (IH s1 s2 rs' I1 Hops Hr) as (I2 & Z2). split; [exact I2|].
        intros n v d [E|Hin].
        * injection E as -> ->. eapply Z1; reflexivity.
        * eapply Z2; exact Hin.
  Qed.

  Lemma app_inv_zero : app_inv u_zero.
  Proof.
    split; [|split; [reflexivity|unfold tail_zero, all_zero; cbn; constructor]].
    unfold u_wf, u_zero, u_cap, maxInt, lenN. cbn [u_off u_len u_arr u_nil length N.of_nat].
    repeat split; auto; lia.
  Qed.
End AppendRun.

(* ================================================================ statements used by Props/C13U.v *)

Section Final.
  Variable mx : N.

  Lemma views_unchanged_by_reads ops s s' rs :
    Forall (fun o => write_op o = false) ops -> u_run mx s ops = (s', rs) ->
    forall v, view_read s' v = view_read s v.
  Proof.
    intros HF Hr. destruct (run_reads_frame mx ops s s' rs HF Hr) as (E1 & E2).
    intros [[a lo] n]. unfold view_read, u_array. now rewrite E1, E2.
  Qed.

  Lemma view_below_len_survives_reslice s o s' r a lo n :
    u_wf s ->
    (match o with OAlloc k => (0 <= k)%Z | OWrite _ | OWriteByte _ => True | _ => False end) ->
    op_need o <= u_cap s - u_len s ->
    u_step mx s o = (s', r) ->
    (a < u_aid s)%nat \/ (a = u_aid s /\ lo + n <= u_len s) ->
    view_read s' (a, lo, n) = view_read s (a, lo, n).
  Proof.
    intros Hwf Ho Hn Hs Hv.
    destruct (fast_path_keeps_prefix mx s o s' r Hwf Ho Hn Hs) as (E1 & _ & _ & E4).
    unfold view_read, u_array. rewrite E1. destruct Hv as [Ha|(-> & Hlo)].
    - unfold u_aid in Ha. rewrite !app_nth1 by assumption. reflexivity.
    - unfold u_aid. rewrite !app_nth2 by lia. rewrite Nat.sub_diag. cbn [nth]. apply E4. exact Hlo.
  Qed.

  Lemma readfrom_total s sc tl s' r :
    u_wf s -> u_step mx s (OReadFrom sc tl) = (s', r) ->
    u_wf s'
    /\ (tl = TEof -> r <> RDiverge)
    /\ (forall n d, r <> RNErr n UEOF d)
    /\ (Forall rd_small sc -> Forall rd_nonneg sc ->
        (r = RPanic PTooLarge /\ exists k, u_contents s' = u_contents s ++ concat (map rd_data (firstn k sc)))
        \/ (u_contents s' = u_contents s ++ fst (rf_abs sc tl [])
            /\ (r = RDiverge \/ exists e, e <> UEOF /\ r = RNErr (lenN (fst (rf_abs sc tl []))) e []))).
  Proof.
    intros Hwf Hs. destruct (step_spec mx s (OReadFrom sc tl) s' r Hwf I Hs) as (W & Q). cbn [q_spec] in Q.
    split; [exact W|]. split; [|split].
    - intros ->. destruct Q as [(-> & _)|[(-> & _)|(-> & _)]]; try discriminate. apply rf_abs_teof_returns.
    - intros n d. destruct Q as [(-> & _)|[(-> & _)|(-> & _)]]; try discriminate. apply rf_abs_never_eof.
    - intros Hsm Hnn. destruct Q as [(-> & Hk)|[(-> & Hb)|(-> & Hc)]].
      + left. auto.
      + contradiction.
      + right. split; [exact Hc|]. destruct (rf_abs_lawful tl sc [] Hnn) as [E|(e & E1 & E2)]; [left; exact E|].
        right. exists e. auto.
  Qed.
End Final.
