From GL Require Import Base.Order.
From Coq Require Import Lia.

Section Laws.
  Variable c : comparer.
  Hypothesis ok : comparer_ok c.

  Lemma cmp_refl a : cmp c a a = Eq.
  Proof. apply (cmp_eq c ok). reflexivity. Qed.

  Lemma cmp_gt_lt a b : cmp c a b = Gt <-> cmp c b a = Lt.
  Proof. rewrite (cmp_opp c ok a b). destruct (cmp c a b); cbn; split; congruence. Qed.

  Lemma cmp_lt_gt a b : cmp c a b = Lt <-> cmp c b a = Gt.
  Proof. rewrite (cmp_opp c ok a b). destruct (cmp c a b); cbn; split; congruence. Qed.

  Lemma lt_irrefl a : ~ lt c a a.
  Proof. unfold lt. rewrite cmp_refl. discriminate. Qed.

  Lemma lt_trans a b d : lt c a b -> lt c b d -> lt c a d.
  Proof. apply (cmp_trans c ok). Qed.

  Lemma le_lt_trans a b d : le c a b -> lt c b d -> lt c a d.
  Proof.
    unfold le, lt. intros H1 H2. destruct (cmp c a b) eqn:E.
    - apply (cmp_eq c ok) in E. subst. exact H2.
    - eapply (cmp_trans c ok); eauto.
    - congruence.
  Qed.

  Lemma lt_le_trans a b d : lt c a b -> le c b d -> lt c a d.
  Proof.
    unfold le, lt. intros H1 H2. destruct (cmp c b d) eqn:E.
    - apply (cmp_eq c ok) in E. subst. exact H1.
    - eapply (cmp_trans c ok); eauto.
    - congruence.
  Qed.

  Lemma le_trans a b d : le c a b -> le c b d -> le c a d.
  Proof.
    intros H1 H2. destruct (cmp c b d) eqn:E.
    - apply (cmp_eq c ok) in E. subst. exact H1.
    - unfold le. rewrite (le_lt_trans a b d H1 E). discriminate.
    - unfold le in H2. congruence.
  Qed.

  Lemma lt_le a b : lt c a b -> le c a b.
  Proof. unfold lt, le. intros ->. discriminate. Qed.

  Lemma le_refl a : le c a a.
  Proof. unfold le. rewrite cmp_refl. discriminate. Qed.

  Lemma not_lt_le a b : ~ lt c a b <-> le c b a.
  Proof.
    unfold lt, le. rewrite (cmp_opp c ok a b). destruct (cmp c a b); cbn; split; intros H; congruence.
  Qed.

  Lemma le_antisym a b : le c a b -> le c b a -> a = b.
  Proof.
    unfold le. intros H1 H2. apply (cmp_eq c ok).
    rewrite (cmp_opp c ok a b) in H2. destruct (cmp c a b); cbn in *; congruence.
  Qed.

  Lemma lt_total a b : lt c a b \/ a = b \/ lt c b a.
  Proof.
    unfold lt. destruct (cmp c a b) eqn:E.
    - right; left. apply (cmp_eq c ok). exact E.
    - left; reflexivity.
    - right; right. apply cmp_gt_lt. exact E.
  Qed.

  Lemma ltb_lt a b : ltb c a b = true <-> lt c a b.
  Proof. unfold ltb, lt. destruct (cmp c a b); split; congruence. Qed.

  Lemma leb_le a b : leb c a b = true <-> le c a b.
  Proof. unfold leb, le. destruct (cmp c a b); split; congruence. Qed.
End Laws.
