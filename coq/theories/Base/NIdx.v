(* Base/NIdx.v — byte arrays indexed by N (no nat anywhere: indexes and lengths can be large),
   and the uint32 wrap.  Model file: definitions only; proofs in NIdxProofs.v *)
From GL Require Export Base.Bytes.

Definition w32 (x : N) : N := x mod 2 ^ 32.

(* l[i], 0 when out of range (the model never reads out of range; see BloomProofs.probe_in_range) *)
Fixpoint get_at (l : bytes) (i : N) : N :=
  match l with
  | [] => 0
  | b :: l' => if i =? 0 then b else get_at l' (i - 1)
  end.

(* l[i] |= m   (unchanged when out of range) *)
Fixpoint or_at (l : bytes) (i : N) (m : N) : bytes :=
  match l with
  | [] => []
  | b :: l' => if i =? 0 then N.lor b m :: l' else b :: or_at l' (i - 1) m
  end.

(* l[i] = v *)
Fixpoint set_at (l : bytes) (i : N) (v : N) : bytes :=
  match l with
  | [] => []
  | b :: l' => if i =? 0 then v :: l' else b :: set_at l' (i - 1) v
  end.

Fixpoint zeros_pos (p : positive) : bytes :=
  match p with
  | xH => [0]
  | xO p' => let z := zeros_pos p' in z ++ z
  | xI p' => let z := zeros_pos p' in 0 :: z ++ z
  end.
(* n zero bytes: what Buffer.Alloc hands out of freshly made memory *)
Definition zeros (n : N) : bytes := match n with N0 => [] | Npos p => zeros_pos p end.

Definition lenN {A} (l : list A) : N := N.of_nat (length l).


(* l[i:] and l[:i] *)
Fixpoint dropN (l : bytes) (i : N) : bytes :=
  match l with
  | [] => []
  | _ :: l' => if i =? 0 then l else dropN l' (i - 1)
  end.

Fixpoint takeN (l : bytes) (i : N) : bytes :=
  match l with
  | [] => []
  | b :: l' => if i =? 0 then [] else b :: takeN l' (i - 1)
  end.

(* l[n:m] *)
Definition slice (l : bytes) (n m : N) : bytes := takeN (dropN l n) (m - n).

(* binary.LittleEndian.Uint32(l[pos:]) *)
Definition u32_at (l : bytes) (pos : N) : N := le_decode (takeN (dropN l pos) 4).
